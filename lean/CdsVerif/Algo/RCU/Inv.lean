/-
  Invariants of the general-purpose URCU model (Algo/RCU/Model.lean).

  * `Trans`            the transition relation, one constructor per kind of atomic step (inversion of `model.apply`)
  * `InvA`             reader bookkeeping: section start <-> nest count, loaded control words are current, clocks
  * `InvM`             mutual exclusion of the writer mutex
  * `InvP`             where every retired object is (conservation, at most one disposal)
  * `InvE`             the epoch only grows: an epoch returned by fetch_add is below the current epoch
  * `InvG`             the two-phase argument of flip_and_wait
  * `InvQ`             the epoch-tag lemma (relative to the first flip) and quiescence of everything that is about to be disposed
  * `InvT`             the epoch-tag lemma in its literal form: tag ≤ E returned by fetch_add => retired before that fetch_add
-/
import CdsVerif.Algo.RCU.Model
namespace CdsVerif.Algo.RCU
open CdsVerif.Machine CdsVerif.Spec

/-- One atomic action of thread `t` (client call, atomic step, or return). -/
inductive Trans (s : St) (t : Tid) : St → Prop
  | iRlock (hd : s.dead = false) (ht : t < s.nthreads) (hpc : s.pc t = .idle) :
      Trans s t { s with pc := upd s.pc t .rlLoad, clock := s.clock + 1 }
  | iRunlock (hd : s.dead = false) (ht : t < s.nthreads) (hn : (s.ctl t).nest ≠ 0) (hpc : s.pc t = .idle) :
      Trans s t { s with pc := upd s.pc t .ruLoad, clock := s.clock + 1 }
  | iSync (hd : s.dead = false) (ht : t < s.nthreads) (hpc : s.pc t = .idle) :
      Trans s t { s with pc := upd s.pc t (if s.buffered then .syncLd [] else .acq []), clock := s.clock + 1 }
  | iRetire (p : Obj) (hd : s.dead = false) (ht : t < s.nthreads) (hr : s.retiredAt p = none) (hpc : s.pc t = .idle) :
      Trans s t { s with pc := upd s.pc t (if s.buffered then .retEpoch p else .acq [p]),
                         retiredAt := upd s.retiredAt p (some s.clock),
                         place := upd s.place p (.thr t),
                         clock := s.clock + 1 }
  | iDestruct (hd : s.dead = false) (ht : t < s.nthreads) (hq : allQuiet s = true) (hpc : s.pc t = .idle) :
      Trans s t { s with pc := upd s.pc t (if s.buffered then .dPop else .done), dead := true,
                         destroyed := !s.buffered, clock := s.clock + 1 }
  | rlLoad (hpc : s.pc t = .rlLoad) :
      Trans s t { s with pc := upd s.pc t (if (s.ctl t).nest = 0 then .rlGctl else .rlNest (s.ctl t)), clock := s.clock + 1 }
  | rlGctl (hpc : s.pc t = .rlGctl) :
      Trans s t { s with pc := upd s.pc t (.rlStore s.gctl), clock := s.clock + 1 }
  | rlStore (g : Bool) (hpc : s.pc t = .rlStore g) :
      Trans s t { s with ctl := upd s.ctl t ⟨1, g⟩, secStart := upd s.secStart t (some s.clock),
                         pc := upd s.pc t .done, clock := s.clock + 1 }
  | rlNest (c : Ctl) (hpc : s.pc t = .rlNest c) :
      Trans s t { s with ctl := upd s.ctl t ⟨c.nest + 1, c.phase⟩, pc := upd s.pc t .done, clock := s.clock + 1 }
  | ruLoad (hpc : s.pc t = .ruLoad) :
      Trans s t { s with pc := upd s.pc t (.ruStore (s.ctl t)), clock := s.clock + 1 }
  | ruStore (c : Ctl) (hpc : s.pc t = .ruStore c) :
      Trans s t { s with ctl := upd s.ctl t ⟨c.nest - 1, c.phase⟩,
                         secStart := upd s.secStart t (if c.nest - 1 = 0 then none else s.secStart t),
                         pc := upd s.pc t .done, clock := s.clock + 1 }
  | retEpoch (p : Obj) (hpc : s.pc t = .retEpoch p) :
      Trans s t { s with pc := upd s.pc t (.push p s.epoch []), clock := s.clock + 1 }
  | pushOk (p : Obj) (tag : Nat) (own : List Obj) (hlen : s.buf.length < s.bufCap) (hpc : s.pc t = .push p tag own) :
      Trans s t { s with buf := s.buf ++ [(p, tag)], place := upd s.place p .buf,
                         pc := upd s.pc t (.sizeLd own), clock := s.clock + 1 }
  | pushFail (p : Obj) (tag : Nat) (own : List Obj) (hlen : ¬ s.buf.length < s.bufCap) (hpc : s.pc t = .push p tag own) :
      Trans s t { s with pc := upd s.pc t (.syncLd (p :: own)), clock := s.clock + 1 }
  | sizeLd (own : List Obj) (hpc : s.pc t = .sizeLd own) :
      Trans s t { s with pc := upd s.pc t (if s.buf.length ≥ s.cap then .syncLd own else finPC own), clock := s.clock + 1 }
  | syncLd (own : List Obj) (hpc : s.pc t = .syncLd own) :
      Trans s t { s with pc := upd s.pc t (.acq own), clock := s.clock + 1 }
  | acqOk (own : List Obj) (hl : s.locked = none) (hpc : s.pc t = .acq own) :
      Trans s t { s with locked := some t, acqClock := s.clock, mustWait := s.secStart,
                         pc := upd s.pc t (if s.buffered then .fadd own else .flip ⟨own, 0⟩ false),
                         clock := s.clock + 1 }
  | acqFail (own : List Obj) (x : Tid) (hl : s.locked = some x) (hpc : s.pc t = .acq own) :
      Trans s t { s with clock := s.clock + 1 }
  | fadd (own : List Obj) (hpc : s.pc t = .fadd own) :
      Trans s t { s with epoch := s.epoch + 1, faddClock := s.clock, pc := upd s.pc t (.flip ⟨own, s.epoch⟩ false),
                         clock := s.clock + 1 }
  | flip (w : W) (r : Bool) (hpc : s.pc t = .flip w r) :
      Trans s t { s with gctl := !s.gctl, refClock := if r then s.refClock else s.clock,
                         pc := upd s.pc t (afterScan s.nthreads w r 0), clock := s.clock + 1 }
  | waitLd (w : W) (r : Bool) (i : Nat) (hpc : s.pc t = .waitLd w r i) :
      Trans s t { s with pc := upd s.pc t (if (s.ctl i).nest = 0 then afterScan s.nthreads w r (i + 1)
                                           else .waitG w r i (s.ctl i)),
                         clock := s.clock + 1 }
  | waitG (w : W) (r : Bool) (i : Nat) (c : Ctl) (hpc : s.pc t = .waitG w r i c) :
      Trans s t { s with pc := upd s.pc t (if c.nest ≠ 0 ∧ c.phase ≠ s.gctl then .waitLd w r i
                                           else afterScan s.nthreads w r (i + 1)),
                         clock := s.clock + 1 }
  | release (w : W) (hpc : s.pc t = .release w) :
      Trans s t { s with locked := none, pc := upd s.pc t (if s.buffered then .clrPop w else finPC w.own),
                         clock := s.clock + 1 }
  | clrPopEmpty (w : W) (hb : s.buf = []) (hpc : s.pc t = .clrPop w) :
      Trans s t { s with pc := upd s.pc t (finPC w.own), clock := s.clock + 1 }
  | clrPop (w : W) (q : Obj) (tag : Nat) (rest : List (Obj × Nat)) (hb : s.buf = (q, tag) :: rest) (hpc : s.pc t = .clrPop w) :
      Trans s t { s with buf := rest, place := upd s.place q (.thr t),
                         pc := upd s.pc t (if tag ≤ w.e then .clrDisp w q else .push q tag w.own),
                         clock := s.clock + 1 }
  | clrDisp (w : W) (q : Obj) (hpc : s.pc t = .clrDisp w q) :
      Trans s t { s with disposed := upd s.disposed q (s.disposed q + 1), place := upd s.place q .gone,
                         pc := upd s.pc t (.clrPop w), clock := s.clock + 1 }
  | disp (p : Obj) (rest : List Obj) (hpc : s.pc t = .disp p rest) :
      Trans s t { s with disposed := upd s.disposed p (s.disposed p + 1), place := upd s.place p .gone,
                         pc := upd s.pc t (finPC rest), clock := s.clock + 1 }
  | dPopEmpty (hb : s.buf = []) (hpc : s.pc t = .dPop) :
      Trans s t { s with destroyed := true, pc := upd s.pc t .done, clock := s.clock + 1 }
  | dPop (q : Obj) (tag : Nat) (rest : List (Obj × Nat)) (hb : s.buf = (q, tag) :: rest) (hpc : s.pc t = .dPop) :
      Trans s t { s with buf := rest, place := upd s.place q (.thr t), pc := upd s.pc t (.dDisp q),
                         clock := s.clock + 1 }
  | dDisp (q : Obj) (hpc : s.pc t = .dDisp q) :
      Trans s t { s with disposed := upd s.disposed q (s.disposed q + 1), place := upd s.place q .gone,
                         pc := upd s.pc t .dPop, clock := s.clock + 1 }
  | ret (hpc : s.pc t = .done) :
      Trans s t { s with pc := upd s.pc t .idle, clock := s.clock + 1 }

theorem trans_of_invoke {s : St} {t : Tid} {op : GOp} {s' : St} (h : invoke s t op = some s') : Trans s t s' := by
  unfold invoke at h
  split at h
  · rename_i hc
    obtain ⟨hd, ht, hpc⟩ := hc
    split at h
    · simp at h; subst h; exact .iRlock hd ht hpc
    · split at h
      · simp at h; subst h; exact .iRunlock hd ht (by assumption) hpc
      · simp at h
    · simp at h; subst h; exact .iSync hd ht hpc
    · split at h
      · simp at h; subst h; exact .iRetire _ hd ht (by assumption) hpc
      · simp at h
    · split at h
      · simp at h; subst h; exact .iDestruct hd ht (by assumption) hpc
      · simp at h
    · simp at h
  · simp at h

theorem trans_of_step {s : St} {t : Tid} {s' : St} {e : Ev} (h : step s t = some (s', e)) : Trans s t s' := by
  unfold step at h
  split at h
  case h_1 hpc => simp at h; obtain ⟨rfl, -⟩ := h; exact .rlLoad hpc
  case h_2 hpc => simp at h; obtain ⟨rfl, -⟩ := h; exact .rlGctl hpc
  case h_3 g hpc => simp at h; obtain ⟨rfl, -⟩ := h; exact .rlStore g hpc
  case h_4 c hpc => simp at h; obtain ⟨rfl, -⟩ := h; exact .rlNest c hpc
  case h_5 hpc => simp at h; obtain ⟨rfl, -⟩ := h; exact .ruLoad hpc
  case h_6 c hpc => simp at h; obtain ⟨rfl, -⟩ := h; exact .ruStore c hpc
  case h_7 p hpc => simp at h; obtain ⟨rfl, -⟩ := h; exact .retEpoch p hpc
  case h_8 p tag own hpc =>
    split at h
    · simp at h; obtain ⟨rfl, -⟩ := h; exact .pushOk p tag own (by assumption) hpc
    · simp at h; obtain ⟨rfl, -⟩ := h; exact .pushFail p tag own (by assumption) hpc
  case h_9 own hpc => simp at h; obtain ⟨rfl, -⟩ := h; exact .sizeLd own hpc
  case h_10 own hpc => simp at h; obtain ⟨rfl, -⟩ := h; exact .syncLd own hpc
  case h_11 own hpc =>
    split at h
    · simp at h; obtain ⟨rfl, -⟩ := h; exact .acqOk own (by assumption) hpc
    · simp at h; obtain ⟨rfl, -⟩ := h; exact .acqFail own _ (by assumption) hpc
  case h_12 own hpc => simp at h; obtain ⟨rfl, -⟩ := h; exact .fadd own hpc
  case h_13 w r hpc => simp at h; obtain ⟨rfl, -⟩ := h; exact .flip w r hpc
  case h_14 w r i hpc => simp at h; obtain ⟨rfl, -⟩ := h; exact .waitLd w r i hpc
  case h_15 w r i c hpc => simp at h; obtain ⟨rfl, -⟩ := h; exact .waitG w r i c hpc
  case h_16 w hpc => simp at h; obtain ⟨rfl, -⟩ := h; exact .release w hpc
  case h_17 w hpc =>
    split at h
    · simp at h; obtain ⟨rfl, -⟩ := h; exact .clrPopEmpty w (by assumption) hpc
    · simp at h; obtain ⟨rfl, -⟩ := h; exact .clrPop w _ _ _ (by assumption) hpc
  case h_18 w q hpc => simp at h; obtain ⟨rfl, -⟩ := h; exact .clrDisp w q hpc
  case h_19 p rest hpc => simp at h; obtain ⟨rfl, -⟩ := h; exact .disp p rest hpc
  case h_20 hpc =>
    split at h
    · simp at h; obtain ⟨rfl, -⟩ := h; exact .dPopEmpty (by assumption) hpc
    · simp at h; obtain ⟨rfl, -⟩ := h; exact .dPop _ _ _ (by assumption) hpc
  case h_21 q hpc => simp at h; obtain ⟨rfl, -⟩ := h; exact .dDisp q hpc
  case h_22 => simp at h
  case h_23 => simp at h

theorem trans_of_result {s : St} {t : Tid} {s' : St} {r : GRet} (h : result s t = some (s', r)) : Trans s t s' := by
  unfold result at h
  split at h
  · simp at h; obtain ⟨rfl, -⟩ := h; exact .ret (by assumption)
  · simp at h

theorem trans_of_apply {s : St} {t : Tid} {a : Act} {s' : St} {o : Obs}
    (h : model.apply s t a = some (s', o)) : Trans s t s' := by
  cases a with
  | invoke op =>
    simp only [Model.apply, model, Option.map_eq_some_iff] at h
    obtain ⟨s1, hs1, heq⟩ := h
    simp only [Prod.mk.injEq] at heq
    obtain ⟨rfl, -⟩ := heq
    exact trans_of_invoke hs1
  | step =>
    simp only [Model.apply, model, Option.map_eq_some_iff] at h
    obtain ⟨r, hr, heq⟩ := h
    simp only [Prod.mk.injEq] at heq
    obtain ⟨rfl, -⟩ := heq
    exact trans_of_step hr
  | ret =>
    simp only [Model.apply, model, Option.map_eq_some_iff] at h
    obtain ⟨r, hr, heq⟩ := h
    simp only [Prod.mk.injEq] at heq
    obtain ⟨rfl, -⟩ := heq
    exact trans_of_result hr

/-! ### Small facts used by the automation -/

theorem finPC_cases (own : List Obj) :
    (own = [] ∧ finPC own = .done) ∨ ∃ p r, own = p :: r ∧ finPC own = .disp p r := by
  cases own <;> simp [finPC]

grind_pattern finPC_cases => finPC own

theorem allQuiet_spec {s : St} (h : allQuiet s = true) :
    ∀ u, u < s.nthreads → s.pc u = .idle ∧ (s.ctl u).nest = 0 := by
  intro u hu
  simp only [allQuiet, List.all_eq_true, List.mem_range, Bool.and_eq_true, decide_eq_true_eq] at h
  exact h u hu

/-! ### Reader bookkeeping -/

structure InvA (s : St) : Prop where
  a1 : ∀ t, s.secStart t = none ↔ (s.ctl t).nest = 0
  a2 : ∀ t c, s.secStart t = some c → c < s.clock
  a3 : ∀ t c, s.pc t = .rlNest c → s.ctl t = c ∧ c.nest ≠ 0
  a4 : ∀ t c, s.pc t = .ruStore c → s.ctl t = c ∧ c.nest ≠ 0
  a5 : ∀ t, s.pc t = .ruLoad → (s.ctl t).nest ≠ 0
  a6 : ∀ t, s.pc t = .rlGctl → (s.ctl t).nest = 0
  a7 : ∀ t g, s.pc t = .rlStore g → (s.ctl t).nest = 0
  a8 : ∀ t, s.nthreads ≤ t → s.pc t = .idle ∧ s.secStart t = none
  a9 : ∀ p r, s.retiredAt p = some r → r < s.clock
  a10 : s.dead = true → ∀ t, s.secStart t = none ∧ (s.pc t = .idle ∨ s.pc t = .done ∨ s.pc t = .dPop ∨ ∃ q, s.pc t = .dDisp q)
  a11 : ∀ t, (s.pc t = .dPop ∨ ∃ q, s.pc t = .dDisp q) → s.dead = true
  a12 : s.destroyed = true → s.buf = [] ∧ s.dead = true
  a13 : s.buffered = false → s.buf = [] ∧ ∀ t, (∀ p, s.pc t ≠ .retEpoch p) ∧ ∀ p tag own, s.pc t ≠ .push p tag own

theorem invA_init (b n c bc) : InvA (init b n c bc) := by
  constructor <;> simp [init]

theorem invA_step {s : St} {t : Tid} {s' : St} (h : InvA s) (tr : Trans s t s') : InvA s' := by
  obtain ⟨a1, a2, a3, a4, a5, a6, a7, a8, a9, a10, a11, a12, a13⟩ := h
  have hq : allQuiet s = true → ∀ u, u < s.nthreads → s.pc u = .idle ∧ (s.ctl u).nest = 0 := allQuiet_spec
  refine ⟨?_, ?_, ?_, ?_, ?_, ?_, ?_, ?_, ?_, ?_, ?_, ?_, ?_⟩
  · clear a2 a5 a8 a9 a10 a11 a12 hq a13
    cases tr <;> dsimp only <;> first | assumption | (intros; grind [upd])
  · clear a1 a3 a4 a5 a6 a7 a8 a9 a10 a11 a12 hq a13
    cases tr <;> dsimp only <;> first | assumption | (intros; grind [upd])
  · clear a1 a2 a4 a5 a6 a7 a8 a9 a10 a11 a12 hq a13
    cases tr <;> dsimp only <;> first | assumption | (intros; grind [upd, afterScan])
  · clear a1 a2 a3 a6 a7 a8 a9 a10 a11 a12 hq a13
    cases tr <;> dsimp only <;> first | assumption | (intros; grind [upd, afterScan])
  · clear a1 a2 a3 a4 a6 a7 a8 a9 a10 a11 a12 hq a13
    cases tr <;> dsimp only <;> first | assumption | (intros; grind [upd, afterScan])
  · clear a1 a2 a3 a4 a5 a7 a8 a9 a10 a11 a12 hq a13
    cases tr <;> dsimp only <;> first | assumption | (intros; grind [upd, afterScan])
  · clear a1 a2 a3 a4 a5 a8 a9 a10 a11 a12 hq a13
    cases tr <;> dsimp only <;> first | assumption | (intros; grind [upd, afterScan])
  · clear a1 a2 a3 a4 a5 a6 a7 a9 a10 a11 a12 hq a13
    cases tr <;> dsimp only <;> first | assumption | (intros; grind [upd, afterScan])
  · clear a1 a2 a3 a4 a5 a6 a7 a8 a10 a11 a12 hq a13
    cases tr <;> dsimp only <;> first | assumption | (intros; grind [upd])
  · clear a2 a3 a4 a5 a6 a9 a12 a13
    cases tr <;> dsimp only <;> first | assumption | (intros; grind [upd, afterScan])
  · clear a1 a2 a3 a4 a5 a6 a7 a8 a9 a12 hq a13
    cases tr <;> dsimp only <;> first | assumption | (intros; grind [upd, afterScan])
  · clear a1 a2 a3 a4 a5 a6 a7 a8 a9 hq
    cases tr <;> dsimp only <;> first | assumption | (intros; grind [upd, afterScan])
  · clear a1 a2 a3 a4 a5 a6 a7 a8 a9 a10 a11 a12 hq
    cases tr <;> dsimp only <;> first | assumption | (intros; grind [upd, afterScan])

/-! ### Mutual exclusion of the writer mutex; the epoch only grows -/


structure InvM (s : St) : Prop where
  m1 : ∀ t, holding (s.pc t) = true ↔ s.locked = some t

theorem invM_init (b n c bc) : InvM (init b n c bc) := by
  constructor <;> simp [init, holding]

theorem invM_step {s : St} {t : Tid} {s' : St} (h : InvM s) (tr : Trans s t s') : InvM s' := by
  obtain ⟨m1⟩ := h
  cases tr
  all_goals (constructor <;> dsimp only <;> first | assumption | (intros; grind [upd, afterScan, holding]))

/-- The epoch variable of a program point after fetch_add. -/
def wOf : PC → Option W
  | .flip w _ => some w
  | .waitLd w _ _ => some w
  | .waitG w _ _ _ => some w
  | .release w => some w
  | .clrPop w => some w
  | .clrDisp w _ => some w
  | _ => none

theorem trans_pc_other {s s' : St} {t : Tid} (tr : Trans s t s') : ∀ t', t' ≠ t → s'.pc t' = s.pc t' := by
  intro t' h
  cases tr <;> simp [upd, h]

/-- The epoch only grows. -/
theorem epoch_mono {s s' : St} {t : Tid} (tr : Trans s t s') : s.epoch ≤ s'.epoch := by
  cases tr <;> simp

/-- An epoch returned by fetch_add is below the current epoch (buffered flavour). -/
structure InvE (s : St) : Prop where
  e : ∀ t w, wOf (s.pc t) = some w → s.buffered = true → w.e < s.epoch

theorem invE_init (b n c bc) : InvE (init b n c bc) := by
  constructor; simp [init, wOf]

theorem invE_step {s : St} {t : Tid} {s' : St} (h : InvE s) (tr : Trans s t s') : InvE s' := by
  constructor
  intro t' w hw hb
  have hm := epoch_mono tr
  by_cases ht : t' = t
  · subst ht
    have he := h.e t'
    cases tr <;> simp only [upd_same] at hw <;> dsimp only at hb hm ⊢ <;> grind [wOf, afterScan]
  · rw [trans_pc_other tr t' ht] at hw
    have hbf : s'.buffered = s.buffered := by cases tr <;> rfl
    rw [hbf] at hb
    have := h.e t' w hw hb
    omega

/-! ### Conservation: where every retired object is -/


structure InvP (s : St) : Prop where
  p1 : ∀ p, s.place p = .fresh ↔ s.retiredAt p = none
  p2 : ∀ p t, s.place p = .thr t ↔ p ∈ locals (s.pc t)
  p3 : ∀ p, s.place p = .buf ↔ p ∈ s.buf.map Prod.fst
  p4 : ∀ p, s.disposed p = if s.place p = .gone then 1 else 0
  p5 : ∀ t, (locals (s.pc t)).Nodup
  p6 : (s.buf.map Prod.fst).Nodup

theorem invP_init (b n c bc) : InvP (init b n c bc) := by
  constructor <;> simp [init, locals]

theorem invP_step {s : St} {t : Tid} {s' : St} (h : InvP s) (tr : Trans s t s') : InvP s' := by
  obtain ⟨p1, p2, p3, p4, p5, p6⟩ := h
  have hme := fun p => p2 p t
  have hnd := p5 t
  cases tr
  all_goals (
    rename_i hpc
    rw [hpc] at hme hnd
    simp only [locals] at hme hnd
    constructor <;> dsimp only <;> first | assumption | (intros; grind [upd, afterScan, locals]))


/-! ### The two rounds of flip_and_wait -/


/-- Thread `u` is inside a critical section that began before the first flip of the current synchronize. -/
def OldSec (s : St) (u : Tid) : Prop := ∃ c, s.secStart u = some c ∧ c < s.refClock

/-- What the synchronizing thread knows at each program point of the two flip_and_wait rounds. -/
def GBody (s : St) : PC → Prop
  | .waitLd _ false i => s.acqClock < s.refClock ∧ ∀ u, u < i → OldSec s u → (s.ctl u).phase = s.gctl
  | .waitG _ false i c => s.acqClock < s.refClock ∧ (∀ u, u < i → OldSec s u → (s.ctl u).phase = s.gctl) ∧
      ((c.nest = 0 ∨ c.phase = s.gctl) → OldSec s i → (s.ctl i).phase = s.gctl)
  | .flip _ true => s.acqClock < s.refClock ∧ ∀ u, OldSec s u → (s.ctl u).phase = s.gctl
  | .waitLd _ true i => s.acqClock < s.refClock ∧ (∀ u, OldSec s u → (s.ctl u).phase ≠ s.gctl) ∧
      ∀ u, u < i → ¬ OldSec s u
  | .waitG _ true i c => s.acqClock < s.refClock ∧ (∀ u, OldSec s u → (s.ctl u).phase ≠ s.gctl) ∧
      (∀ u, u < i → ¬ OldSec s u) ∧ ((c.nest = 0 ∨ c.phase = s.gctl) → ¬ OldSec s i)
  | .release _ => s.acqClock < s.refClock ∧ ∀ u, ¬ OldSec s u
  | _ => True

theorem GBody_of_not_holding (s : St) (pc : PC) (h : holding pc = false) : GBody s pc := by
  cases pc <;> simp_all [holding, GBody]

theorem GBody_frame {s s' : St} (hg : s'.gctl = s.gctl) (hr : s'.refClock = s.refClock) (ha : s'.acqClock = s.acqClock)
    (ho : ∀ u, OldSec s' u → OldSec s u ∧ (s'.ctl u).phase = (s.ctl u).phase) (pc : PC) (h : GBody s pc) :
    GBody s' pc := by
  cases pc
  case waitLd w r i => cases r <;> simp only [GBody, hg, hr, ha] at h ⊢ <;> grind
  case waitG w r i c => cases r <;> simp only [GBody, hg, hr, ha] at h ⊢ <;> grind
  case flip w r => cases r <;> simp only [GBody, hg, hr, ha] at h ⊢ <;> grind
  case release w => simp only [GBody, hr, ha] at h ⊢; grind
  all_goals simp [GBody]

structure InvG (s : St) : Prop where
  clk : s.refClock ≤ s.clock ∧ s.acqClock ≤ s.clock ∧ (s.locked ≠ none → s.acqClock < s.clock)
  mw : ∀ u c, s.mustWait u = some c → c < s.acqClock
  body : ∀ t, GBody s (s.pc t)

theorem invG_init (b n c bc) : InvG (init b n c bc) := by
  constructor <;> simp [init, GBody]

theorem invG_body_nonholder {s s' : St} {t : Tid} (hb : ∀ t', GBody s (s.pc t'))
    (hg : s'.gctl = s.gctl) (hr : s'.refClock = s.refClock) (ha : s'.acqClock = s.acqClock)
    (ho : ∀ u, OldSec s' u → OldSec s u ∧ (s'.ctl u).phase = (s.ctl u).phase)
    (hpc : ∀ t', t' ≠ t → s'.pc t' = s.pc t') (hnew : holding (s'.pc t) = false) :
    ∀ t', GBody s' (s'.pc t') := by
  intro t'
  by_cases h : t' = t
  · subst h; exact GBody_of_not_holding _ _ hnew
  · rw [hpc t' h]; exact GBody_frame hg hr ha ho _ (hb t')

theorem invG_body_holder {s s' : St} {t : Tid} (hoth : ∀ t', t' ≠ t → holding (s.pc t') = false)
    (hpc : ∀ t', t' ≠ t → s'.pc t' = s.pc t') (hnew : GBody s' (s'.pc t)) :
    ∀ t', GBody s' (s'.pc t') := by
  intro t'
  by_cases h : t' = t
  · subst h; exact hnew
  · rw [hpc t' h]; exact GBody_of_not_holding _ _ (hoth t' h)

theorem oldSec_same {s s' : St} (h1 : s'.secStart = s.secStart) (h2 : s'.refClock = s.refClock) (h3 : s'.ctl = s.ctl) :
    ∀ u, OldSec s' u → OldSec s u ∧ (s'.ctl u).phase = (s.ctl u).phase := by
  intro u h; simp only [OldSec, h1, h2, h3] at h ⊢; exact ⟨h, trivial⟩

/-- nobody else holds the mutex when `t` does or when it is free -/
theorem others_not_holding {s : St} (hM : InvM s) {t : Tid} (h : s.locked = some t ∨ s.locked = none) :
    ∀ t', t' ≠ t → holding (s.pc t') = false := by
  intro t' hne
  have := hM.m1 t'
  cases hh : holding (s.pc t') with
  | false => rfl
  | true => grind


theorem invG_step {s : St} {t : Tid} {s' : St} (hA : InvA s) (hM : InvM s) (h : InvG s) (tr : Trans s t s') : InvG s' := by
  obtain ⟨⟨hrc, hac, hlk⟩, hmw, hb⟩ := h
  have hme := hM.m1 t
  have hbt := hb t
  have a1 := hA.a1
  have a8 := hA.a8
  refine ⟨?_, ?_, ?_⟩
  · cases tr <;> dsimp only <;> grind
  · have := hA.a2
    cases tr <;> dsimp only <;> first | assumption | grind
  · cases tr
    -- the holder's own transitions
    case acqOk own hl hpc =>
      refine invG_body_holder (t := t) (others_not_holding hM (Or.inr hl)) (fun t' h => by simp [upd, h]) ?_
      simp only [upd_same]; split <;> simp [GBody]
    case fadd own hpc =>
      rw [hpc] at hme; simp only [holding, true_iff] at hme
      refine invG_body_holder (t := t) (others_not_holding hM (Or.inl hme)) (fun t' h => by simp [upd, h]) ?_
      simp [GBody]
    case release w hpc =>
      rw [hpc] at hme; simp only [holding, true_iff] at hme
      refine invG_body_holder (t := t) (others_not_holding hM (Or.inl hme)) (fun t' h => by simp [upd, h]) ?_
      apply GBody_of_not_holding; simp only [upd_same]; grind [holding]
    case flip w r hpc =>
      rw [hpc] at hme hbt; simp only [holding, true_iff] at hme
      refine invG_body_holder (t := t) (others_not_holding hM (Or.inl hme)) (fun t' h => by simp [upd, h]) ?_
      simp only [upd_same, afterScan]
      cases r <;> simp only [GBody] at hbt <;> (repeat' split) <;> simp only [GBody, OldSec] at hbt ⊢ <;> grind
    case waitLd w r i hpc =>
      rw [hpc] at hme hbt; simp only [holding, true_iff] at hme
      refine invG_body_holder (t := t) (others_not_holding hM (Or.inl hme)) (fun t' h => by simp [upd, h]) ?_
      simp only [upd_same, afterScan]
      cases r <;> simp only [GBody] at hbt <;> (repeat' split) <;> simp only [GBody, OldSec] at hbt ⊢ <;> grind
    case waitG w r i c hpc =>
      rw [hpc] at hme hbt; simp only [holding, true_iff] at hme
      refine invG_body_holder (t := t) (others_not_holding hM (Or.inl hme)) (fun t' h => by simp [upd, h]) ?_
      simp only [upd_same, afterScan]
      cases r <;> simp only [GBody] at hbt <;> (repeat' split) <;> simp only [GBody, OldSec] at hbt ⊢ <;> grind
    -- the reader's stores
    case rlStore g hpc =>
      refine invG_body_nonholder (t := t) hb rfl rfl rfl ?_ (fun t' h => by simp [upd, h]) (by simp [holding])
      intro u; simp only [OldSec]; grind [upd]
    case rlNest c hpc =>
      have := hA.a3 t c hpc
      refine invG_body_nonholder (t := t) hb rfl rfl rfl ?_ (fun t' h => by simp [upd, h]) (by simp [holding])
      intro u; simp only [OldSec]; grind [upd]
    case ruStore c hpc =>
      have := hA.a4 t c hpc
      refine invG_body_nonholder (t := t) hb rfl rfl rfl ?_ (fun t' h => by simp [upd, h]) (by simp [holding])
      intro u; simp only [OldSec]; grind [upd]
    case acqFail own x hl hpc =>
      refine invG_body_nonholder (t := t) hb rfl rfl rfl (oldSec_same rfl rfl rfl) (fun t' h => rfl) ?_
      simp [hpc, holding]
    all_goals (
      refine invG_body_nonholder (t := t) hb rfl rfl rfl (oldSec_same rfl rfl rfl) (fun t' h => by simp [upd, h]) ?_
      simp only [upd_same]; grind [holding])



/-! ### The epoch-tag lemma and quiescence of everything that is about to be disposed -/


/-- No thread is inside a critical section that began before `q` was retired. -/
def Quiesced (s : St) (q : Obj) : Prop := ∀ u c r, s.secStart u = some c → s.retiredAt q = some r → r < c

/-- `(q, tag)` is a tagged retired pointer: in the buffer or about to be pushed. -/
def Item (s : St) (q : Obj) (tag : Nat) : Prop := (q, tag) ∈ s.buf ∨ ∃ t own, s.pc t = .push q tag own

/-- `q` was retired before the first flip of the current synchronize. -/
def RetBefore (s : St) (q : Obj) : Prop := ∃ r, s.retiredAt q = some r ∧ r < s.refClock

/-- Knowledge of the synchronizer after its first flip: its own pointers, and (epoch-tag lemma) every tagged
    pointer whose tag is at most the epoch returned by its fetch_add, were retired before that flip. -/
def SyncQ (s : St) (w : W) : Prop :=
  (∀ q, q ∈ w.own → RetBefore s q) ∧ (s.buffered = true → ∀ q tag, Item s q tag → tag ≤ w.e → RetBefore s q)

/-- Knowledge during clear_buffer(e). -/
def ClrQ (s : St) (w : W) : Prop :=
  s.buffered = true ∧ (∀ q, q ∈ w.own → Quiesced s q) ∧ (∀ q tag, Item s q tag → tag ≤ w.e → Quiesced s q)

def QBody (s : St) : PC → Prop
  | .flip w true => SyncQ s w
  | .waitLd w _ _ => SyncQ s w
  | .waitG w _ _ _ => SyncQ s w
  | .release w => SyncQ s w
  | .clrPop w => ClrQ s w
  | .clrDisp w q => Quiesced s q ∧ ClrQ s w
  | .push _ _ own => ∀ q, q ∈ own → Quiesced s q
  | .sizeLd own => ∀ q, q ∈ own → Quiesced s q
  | .disp p rest => Quiesced s p ∧ ∀ q, q ∈ rest → Quiesced s q
  | _ => True

theorem invE_wOf {s : St} (hE : InvE s) (t : Tid) (w : W) (hw : wOf (s.pc t) = some w) (hb : s.buffered = true) :
    w.e < s.epoch := hE.e t w hw hb

/-- What an action may change, as far as `QBody` of the other threads is concerned. -/
structure FrameQ (s s' : St) : Prop where
  hbf : s'.buffered = s.buffered
  hsec : ∀ u c, s'.secStart u = some c → s.secStart u = some c ∨ s.clock ≤ c
  hret : ∀ q, s.retiredAt q ≠ none → s'.retiredAt q = s.retiredAt q
  hitem : ∀ q tag, Item s' q tag → Item s q tag ∨ s.epoch ≤ tag

theorem quiesced_frame {s s' : St} (F : FrameQ s s') (q : Obj) (hq : s.retiredAt q ≠ none)
    (h9 : ∀ r, s.retiredAt q = some r → r < s.clock) (h : Quiesced s q) : Quiesced s' q := by
  intro u c r hs hr
  rw [F.hret q hq] at hr
  rcases F.hsec u c hs with h1 | h1
  · exact h u c r h1 hr
  · have := h9 r hr; omega

theorem retBefore_frame {s s' : St} (F : FrameQ s s') (href : s'.refClock = s.refClock) (q : Obj)
    (h : RetBefore s q) : RetBefore s' q := by
  obtain ⟨r, h1, h2⟩ := h
  exact ⟨r, by rw [F.hret q (by simp [h1]), h1], by rw [href]; exact h2⟩

theorem syncQ_frame {s s' : St} (F : FrameQ s s') (href : s'.refClock = s.refClock) (w : W)
    (he : s.buffered = true → w.e < s.epoch) (h : SyncQ s w) : SyncQ s' w := by
  refine ⟨fun q hq => retBefore_frame F href q (h.1 q hq), fun hb q tag hi ht => ?_⟩
  rw [F.hbf] at hb
  rcases F.hitem q tag hi with h1 | h1
  · exact retBefore_frame F href q (h.2 hb q tag h1 ht)
  · have := he hb; omega

theorem clrQ_frame {s s' : St} (F : FrameQ s s') (w : W)
    (he : s.buffered = true → w.e < s.epoch) (h9 : ∀ q r, s.retiredAt q = some r → r < s.clock)
    (hown : ∀ q, q ∈ w.own → s.retiredAt q ≠ none) (hir : ∀ q tag, Item s q tag → s.retiredAt q ≠ none)
    (h : ClrQ s w) : ClrQ s' w := by
  obtain ⟨hb, h1, h2⟩ := h
  refine ⟨by rw [F.hbf]; exact hb, fun q hq => quiesced_frame F q (hown q hq) (h9 q) (h1 q hq), fun q tag hi ht => ?_⟩
  rcases F.hitem q tag hi with h3 | h3
  · exact quiesced_frame F q (hir q tag h3) (h9 q) (h2 q tag h3 ht)
  · have := he hb; omega

theorem QBody_frame {s s' : St} (F : FrameQ s s') (pc : PC)
    (href : s'.refClock = s.refClock ∨ holding pc = false)
    (he : s.buffered = true → ∀ w, wOf pc = some w → w.e < s.epoch)
    (h9 : ∀ q r, s.retiredAt q = some r → r < s.clock)
    (hloc : ∀ q, q ∈ locals pc → s.retiredAt q ≠ none) (hir : ∀ q tag, Item s q tag → s.retiredAt q ≠ none)
    (h : QBody s pc) : QBody s' pc := by
  cases pc
  case flip w r =>
    cases r
    · trivial
    · exact syncQ_frame F (by simpa [holding] using href) w (fun hb => he hb w rfl) h
  case waitLd w r i => exact syncQ_frame F (by simpa [holding] using href) w (fun hb => he hb w rfl) h
  case waitG w r i c => exact syncQ_frame F (by simpa [holding] using href) w (fun hb => he hb w rfl) h
  case release w => exact syncQ_frame F (by simpa [holding] using href) w (fun hb => he hb w rfl) h
  case clrPop w => exact clrQ_frame F w (fun hb => he hb w rfl) h9 (fun q hq => hloc q (by simpa [locals] using hq)) hir h
  case clrDisp w q =>
    exact ⟨quiesced_frame F q (hloc q (by simp [locals])) (h9 q) h.1,
      clrQ_frame F w (fun hb => he hb w rfl) h9 (fun q hq => hloc q (by simp [locals, hq])) hir h.2⟩
  case push p tag own =>
    exact fun q hq => quiesced_frame F q (hloc q (by simp [locals, hq])) (h9 q) (h q hq)
  case sizeLd own =>
    exact fun q hq => quiesced_frame F q (hloc q (by simpa [locals] using hq)) (h9 q) (h q hq)
  case disp p rest =>
    exact ⟨quiesced_frame F p (hloc p (by simp [locals])) (h9 p) h.1,
      fun q hq => quiesced_frame F q (hloc q (by simp [locals, hq])) (h9 q) (h.2 q hq)⟩
  all_goals trivial

theorem frameQ_of_trans {s s' : St} {t : Tid} (tr : Trans s t s') : FrameQ s s' := by
  refine ⟨?_, ?_, ?_, ?_⟩
  · cases tr <;> rfl
  · cases tr <;> dsimp only <;> intros <;> grind [upd]
  · cases tr <;> dsimp only <;> intros <;> grind [upd]
  · cases tr <;> intro q tag <;> simp only [Item] <;> (try dsimp only) <;> grind [upd, afterScan]

theorem trans_refClock {s s' : St} {t : Tid} (hM : InvM s) (tr : Trans s t s') :
    s'.refClock = s.refClock ∨ ((∃ w, s.pc t = .flip w false) ∧ ∀ t', t' ≠ t → holding (s.pc t') = false) := by
  cases tr
  case flip w r hpc =>
    cases r
    · right
      have hme := hM.m1 t
      rw [hpc] at hme; simp only [holding, true_iff] at hme
      exact ⟨⟨w, hpc⟩, others_not_holding hM (Or.inl hme)⟩
    · left; rfl
  all_goals (left; rfl)

theorem invP_locals_retired {s : St} (hP : InvP s) (t : Tid) (q : Obj) (h : q ∈ locals (s.pc t)) :
    s.retiredAt q ≠ none := by
  have h1 := (hP.p2 q t).2 h
  have h2 := hP.p1 q
  grind

theorem invP_item_retired {s : St} (hP : InvP s) (q : Obj) (tag : Nat) (h : Item s q tag) :
    s.retiredAt q ≠ none := by
  rcases h with h | ⟨t, own, h⟩
  · have h1 : q ∈ s.buf.map Prod.fst := List.mem_map.2 ⟨(q, tag), h, rfl⟩
    have h2 := (hP.p3 q).2 h1
    have h3 := hP.p1 q
    grind
  · exact invP_locals_retired hP t q (by rw [h]; simp [locals])

theorem quiesced_of_retBefore {s : St} {q : Obj} (h : RetBefore s q) (hno : ∀ u, ¬ OldSec s u) : Quiesced s q := by
  intro u c r hs hr
  obtain ⟨r', h1, h2⟩ := h
  have := hno u
  simp only [OldSec, not_exists, not_and] at this
  have := this c hs
  grind

theorem QBody_finPC {s : St} (own : List Obj) (h : ∀ q, q ∈ own → Quiesced s q) : QBody s (finPC own) := by
  cases own with
  | nil => simp [finPC, QBody]
  | cons p rest => exact ⟨h p (by simp), fun q hq => h q (by simp [hq])⟩

structure InvQ (s : St) : Prop where
  body : ∀ t, QBody s (s.pc t)

theorem invQ_init (b n c bc) : InvQ (init b n c bc) := by
  constructor; simp [init, QBody]

theorem syncQ_first_flip {s s' : St} (F : FrameQ s s') (href : s'.refClock = s.clock) (w : W)
    (h9 : ∀ q r, s.retiredAt q = some r → r < s.clock)
    (hown : ∀ q, q ∈ w.own → s.retiredAt q ≠ none) (hir : ∀ q tag, Item s q tag → s.retiredAt q ≠ none)
    (he : s.buffered = true → w.e < s.epoch) : SyncQ s' w := by
  have key : ∀ q, s.retiredAt q ≠ none → RetBefore s' q := by
    intro q h1
    cases h2 : s.retiredAt q with
    | none => exact absurd h2 h1
    | some r => exact ⟨r, by rw [F.hret q h1, h2], by rw [href]; exact h9 q r h2⟩
  refine ⟨fun q hq => key q (hown q hq), fun hb q tag hi ht => ?_⟩
  rw [F.hbf] at hb
  rcases F.hitem q tag hi with h3 | h3
  · exact key q (hir q tag h3)
  · have := he hb; omega

theorem invQ_step {s : St} {t : Tid} {s' : St} (hA : InvA s) (hM : InvM s) (hP : InvP s) (hE : InvE s) (hG : InvG s)
    (h : InvQ s) (tr : Trans s t s') : InvQ s' := by
  have F := frameQ_of_trans tr
  have hir := invP_item_retired hP
  have hfr : ∀ t', QBody s' (s.pc t') := by
    intro t'
    have hfr0 : s'.refClock = s.refClock ∨ holding (s.pc t') = false → QBody s' (s.pc t') := fun href =>
      QBody_frame F (s.pc t') href (fun hb w hw => invE_wOf hE t' w hw hb) hA.a9
        (invP_locals_retired hP t') hir (h.body t')
    rcases trans_refClock hM tr with h1 | ⟨⟨w, hw⟩, h1⟩
    · exact hfr0 (Or.inl h1)
    · by_cases ht : t' = t
      · subst ht; rw [hw]; trivial
      · exact hfr0 (Or.inr (h1 t' ht))
  suffices hnew : ∀ pc', s'.pc t = pc' → QBody s' pc' by
    constructor
    intro t'
    by_cases ht : t' = t
    · rw [ht]; exact hnew _ rfl
    · rw [trans_pc_other tr t' ht]; exact hfr t'
  intro pc' hpc'
  have hold := hfr t
  have hcur := h.body t
  have hG' := hG.body t
  have hlr := invP_locals_retired hP t
  have hwe := invE_wOf hE t
  cases tr
  case flip w r hpc =>
    rw [hpc] at hold hlr hwe
    simp only [upd_same, afterScan] at hpc'
    cases r
    · have hS := syncQ_first_flip F (by simp) w hA.a9 (fun q hq => hlr q (by simpa [locals] using hq)) hir
        (fun hb => hwe w rfl hb)
      (repeat' split at hpc') <;> subst hpc' <;> first | exact hS | simp at *
    · (repeat' split at hpc') <;> subst hpc' <;> first | exact hold | simp at *
  case waitLd w r i hpc =>
    rw [hpc] at hold; simp only [upd_same, afterScan] at hpc'
    (repeat' split at hpc') <;> subst hpc' <;> first | exact hold | trivial
  case iSync hd ht hpc => simp only [upd_same] at hpc'; split at hpc' <;> subst hpc' <;> trivial
  case iDestruct hd ht hq hpc => simp only [upd_same] at hpc'; split at hpc' <;> subst hpc' <;> trivial
  case waitG w r i c hpc =>
    rw [hpc] at hold; simp only [upd_same, afterScan] at hpc'
    (repeat' split at hpc') <;> subst hpc' <;> first | exact hold | trivial
  case release w hpc =>
    rw [hpc] at hold hG'
    simp only [upd_same] at hpc'
    have hno := hG'.2
    obtain ⟨h1, h2⟩ := hold
    split at hpc'
    · rename_i hb
      subst hpc'
      exact ⟨hb, fun q hq => quiesced_of_retBefore (h1 q hq) hno,
        fun q tag hi ht => quiesced_of_retBefore (h2 hb q tag hi ht) hno⟩
    · subst hpc'; exact QBody_finPC _ (fun q hq => quiesced_of_retBefore (h1 q hq) hno)
  case clrPopEmpty w hb hpc =>
    rw [hpc] at hold; simp only [upd_same] at hpc'; subst hpc'
    exact QBody_finPC _ hold.2.1
  case clrPop w q tag rest hb hpc =>
    rw [hpc] at hold hcur; simp only [upd_same] at hpc'
    split at hpc'
    · rename_i hle
      subst hpc'
      have hi : Item s q tag := Or.inl (by rw [hb]; simp)
      exact ⟨quiesced_frame F q (hir q tag hi) (hA.a9 q) (hcur.2.2 q tag hi hle), hold⟩
    · subst hpc'; exact hold.2.1
  case clrDisp w q hpc => rw [hpc] at hold; simp only [upd_same] at hpc'; subst hpc'; exact hold.2
  case pushOk p tag own hlen hpc => rw [hpc] at hold; simp only [upd_same] at hpc'; subst hpc'; exact hold
  case sizeLd own hpc =>
    rw [hpc] at hold; simp only [upd_same] at hpc'
    split at hpc'
    · subst hpc'; trivial
    · subst hpc'; exact QBody_finPC _ hold
  case disp p rest hpc => rw [hpc] at hold; simp only [upd_same] at hpc'; subst hpc'; exact QBody_finPC _ hold.2
  case iRetire p hd ht hr hpc => simp only [upd_same] at hpc'; split at hpc' <;> subst hpc' <;> trivial
  case rlLoad hpc => simp only [upd_same] at hpc'; split at hpc' <;> subst hpc' <;> trivial
  case acqOk own hl hpc => simp only [upd_same] at hpc'; split at hpc' <;> subst hpc' <;> trivial
  case acqFail own x hl hpc => dsimp only at hpc'; rw [hpc] at hpc'; subst hpc'; trivial
  all_goals (simp only [upd_same] at hpc'; subst hpc'; first | trivial | (intro q hq; simp at hq))

/-- An object that is about to be given to its disposer is quiescent. -/
theorem invQ_disposing {s : St} (hA : InvA s) (hQ : InvQ s) (t : Tid) (p : Obj) (h : disposing (s.pc t) = some p) :
    Quiesced s p := by
  have hb := hQ.body t
  cases hpc : s.pc t <;> rw [hpc] at h hb <;> simp only [disposing, Option.some.injEq, reduceCtorEq] at h <;> subst h
  · exact hb.1
  · exact hb.1
  · intro u c r hs hr
    have := (hA.a10 (hA.a11 t (Or.inr ⟨_, hpc⟩)) u).1
    simp [this] at hs


/-! ### The epoch-tag lemma in its literal form (retired before the fetch_add); the epoch only grows -/


/-- Epoch-tag lemma: every tagged pointer whose tag is at most the epoch `w.e` returned by the fetch_add of the
    current synchronize was retired (retire_ptr invoked) before that fetch_add. -/
def TagBefore (s : St) (w : W) : Prop :=
  s.buffered = true → ∀ q tag, Item s q tag → tag ≤ w.e → ∃ r, s.retiredAt q = some r ∧ r < s.faddClock

def TBody (s : St) : PC → Prop
  | .flip w _ => TagBefore s w
  | .waitLd w _ _ => TagBefore s w
  | .waitG w _ _ _ => TagBefore s w
  | .release w => TagBefore s w
  | _ => True

theorem TBody_of_not_holding (s : St) (pc : PC) (h : holding pc = false) : TBody s pc := by
  cases pc <;> simp_all [holding, TBody]

theorem tagBefore_frame {s s' : St} (F : FrameQ s s') (hfc : s'.faddClock = s.faddClock) (w : W)
    (he : s.buffered = true → w.e < s.epoch) (h : TagBefore s w) : TagBefore s' w := by
  intro hb q tag hi ht
  rw [F.hbf] at hb
  rcases F.hitem q tag hi with h1 | h1
  · obtain ⟨r, h2, h3⟩ := h hb q tag h1 ht
    exact ⟨r, by rw [F.hret q (by simp [h2]), h2], by rw [hfc]; exact h3⟩
  · have := he hb; omega

structure InvT (s : St) : Prop where
  body : ∀ t, TBody s (s.pc t)

theorem invT_init (b n c bc) : InvT (init b n c bc) := by
  constructor; simp [init, TBody]

theorem trans_faddClock {s s' : St} {t : Tid} (tr : Trans s t s') :
    s'.faddClock = s.faddClock ∨ ∃ own, s.pc t = .fadd own := by
  cases tr
  case fadd own hpc => exact Or.inr ⟨own, hpc⟩
  all_goals (left; rfl)

theorem invT_step {s : St} {t : Tid} {s' : St} (hA : InvA s) (hM : InvM s) (hP : InvP s) (hE : InvE s)
    (h : InvT s) (tr : Trans s t s') : InvT s' := by
  have F := frameQ_of_trans tr
  have hir := invP_item_retired hP
  have hme := hM.m1 t
  -- the other threads
  have hoth : ∀ t', t' ≠ t → TBody s' (s.pc t') := by
    intro t' hne
    rcases trans_faddClock tr with hfc | ⟨own, hpc⟩
    · have hb := h.body t'
      have hw := invE_wOf hE t'
      cases hpc' : s.pc t' <;> rw [hpc'] at hb hw <;> first
        | trivial
        | exact tagBefore_frame F hfc _ (fun hb' => hw _ rfl hb') hb
    · rw [hpc] at hme; simp only [holding, true_iff] at hme
      exact TBody_of_not_holding _ _ (others_not_holding hM (Or.inl hme) t' hne)
  suffices hnew : ∀ pc', s'.pc t = pc' → TBody s' pc' by
    constructor
    intro t'
    by_cases ht : t' = t
    · rw [ht]; exact hnew _ rfl
    · rw [trans_pc_other tr t' ht]; exact hoth t' ht
  intro pc' hpc'
  have hcur := h.body t
  have hw := invE_wOf hE t
  cases tr
  case fadd own hpc =>
    simp only [upd_same] at hpc'; subst hpc'
    intro hb q tag hi ht
    have h1 : Item s q tag := by
      simp only [Item] at hi ⊢; grind [upd]
    obtain ⟨r, h3⟩ := Option.ne_none_iff_exists'.1 (hir q tag h1)
    exact ⟨r, h3, hA.a9 q r h3⟩
  case acqOk own hl hpc =>
    simp only [upd_same] at hpc'
    split at hpc'
    · subst hpc'; trivial
    · rename_i hnb; subst hpc'; intro hb; exact absurd hb hnb
  case flip w r hpc =>
    rw [hpc] at hcur hw
    have hS := tagBefore_frame F rfl w (fun hb' => hw _ rfl hb') hcur
    simp only [upd_same, afterScan] at hpc'
    (repeat' split at hpc') <;> subst hpc' <;> exact hS
  case waitLd w r i hpc =>
    rw [hpc] at hcur hw
    have hS := tagBefore_frame F rfl w (fun hb' => hw _ rfl hb') hcur
    simp only [upd_same, afterScan] at hpc'
    (repeat' split at hpc') <;> subst hpc' <;> exact hS
  case waitG w r i c hpc =>
    rw [hpc] at hcur hw
    have hS := tagBefore_frame F rfl w (fun hb' => hw _ rfl hb') hcur
    simp only [upd_same, afterScan] at hpc'
    (repeat' split at hpc') <;> subst hpc' <;> exact hS
  case acqFail own x hl hpc => dsimp only at hpc'; rw [hpc] at hpc'; subst hpc'; trivial
  all_goals (
    apply TBody_of_not_holding
    simp only [upd_same] at hpc'; subst hpc'
    grind [holding])

/-- The epoch-tag lemma as a statement about reachable-state invariants: a thread that is past its fetch_add (which
    returned `w.e`) and still holds the mutex knows that every tagged pointer with tag ≤ `w.e` was retired before
    that fetch_add. -/
theorem epoch_tag_lemma {s : St} (hT : InvT s) (t : Tid) (w : W) (hw : wOf (s.pc t) = some w)
    (hh : holding (s.pc t) = true) : TagBefore s w := by
  have hb := hT.body t
  cases hpc : s.pc t <;> rw [hpc] at hb hw hh <;> simp only [wOf, Option.some.injEq, reduceCtorEq] at hw <;>
    first | (subst hw; exact hb) | simp [holding] at hh


/-! ### All invariants together -/

structure Inv (s : St) : Prop where
  A : InvA s
  M : InvM s
  P : InvP s
  E : InvE s
  G : InvG s
  Q : InvQ s
  T : InvT s

theorem inv_init (b n c bc) : Inv (init b n c bc) :=
  ⟨invA_init b n c bc, invM_init b n c bc, invP_init b n c bc, invE_init b n c bc, invG_init b n c bc, invQ_init b n c bc,
   invT_init b n c bc⟩

theorem inv_trans {s : St} {t : Tid} {s' : St} (h : Inv s) (tr : Trans s t s') : Inv s' :=
  ⟨invA_step h.A tr, invM_step h.M tr, invP_step h.P tr, invE_step h.E tr, invG_step h.A h.M h.G tr,
   invQ_step h.A h.M h.P h.E h.G h.Q tr, invT_step h.A h.M h.P h.E h.T tr⟩

theorem inv_step (s : St) (t : Tid) (a : Act) (s' : St) (o : Obs) (h : Inv s) (hap : model.apply s t a = some (s', o)) :
    Inv s' := inv_trans h (trans_of_apply hap)

theorem inv_reachable (b : Bool) (n c bc : Nat) (s : St) (h : model.Reachable (init b n c bc) s) : Inv s :=
  model.inv_reachable Inv (init b n c bc) (inv_init b n c bc) inv_step s h

end CdsVerif.Algo.RCU

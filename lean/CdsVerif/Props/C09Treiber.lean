/-
  C09 — the Treiber stack (cds::intrusive::TreiberStack, push / pop without elimination back-off) is a
  linearizable LIFO stack: every concurrent history of the atomic-step model `Algo/Treiber/Model.lean` is
  linearizable to `Spec.lifo`.
  Property theorems only; the model, the invariants and the proof live in `Algo/Treiber/{Model,Inv,Lin}.lean`.

  Assumption of the model (not proved here): a node is not reused while any thread may still hold a pointer to it
  (garbage-collected heap).  This is what the hazard pointer taken by `guard.protect( m_Top )` provides.
-/
import CdsVerif.Algo.Treiber.Lin
namespace CdsVerif.Props.C09Treiber
open CdsVerif.Machine CdsVerif.Lin CdsVerif.Spec CdsVerif.Algo

/-- Linearizability, general form (Herlihy–Wing with completion of pending operations).  For EVERY schedule
    (any number of threads, any client program of `push v` / `pop`, any interleaving of the atomic steps), the
    history of the completed operations of the run — extended by response records for those pending operations
    that have already passed their linearization point (at most one per thread; each is an operation pending in
    `os`, completed with the result fixed at its linearization point and the response time "end of run"), all
    other pending operations being dropped — is linearizable to the sequential LIFO stack.

    The literal statement "`historyOf os` is linearizable" is FALSE for runs that stop between the successful CAS
    of a `push` and its return while another thread has already popped the value (see the last `example`):
    such a `push` has to be completed, which is what `extra` does. -/
theorem C09_treiber_linearizable (sched : List (Tid × Act)) (s : Treiber.St) (os : List (Tid × Obs))
    (h : Treiber.model.run Treiber.init sched = some (s, os)) :
    ∃ extra : List (OpRec GOp GRet),
      (∀ e ∈ extra, Treiber.pendingOf os e.tid = some (e.op, e.inv) ∧ e.res = os.length ∧
          Treiber.postRet (s.pc e.tid) = some e.ret) ∧
      extra.Pairwise (fun a b => a.tid ≠ b.tid) ∧
      Linearizable lifo (Treiber.historyOf os ++ extra) :=
  Treiber.treiber_linearizable sched s os h

/-- Runs in which every invoked operation has returned: the history is linearizable as it is. -/
theorem C09_treiber_linearizable_complete_runs (sched : List (Tid × Act)) (s : Treiber.St) (os : List (Tid × Obs))
    (h : Treiber.model.run Treiber.init sched = some (s, os)) (hq : ∀ t, s.pc t = .idle) :
    Linearizable lifo (Treiber.historyOf os) :=
  Treiber.treiber_linearizable_complete_runs sched s os h hq

/-- More generally: runs at whose end no thread is between its linearization point and its return (threads may be
    in the middle of operations that have not taken effect; these are dropped). -/
theorem C09_treiber_linearizable_no_effect_pending (sched : List (Tid × Act)) (s : Treiber.St)
    (os : List (Tid × Obs)) (h : Treiber.model.run Treiber.init sched = some (s, os))
    (hq : ∀ t, Treiber.postRet (s.pc t) = none) :
    Linearizable lifo (Treiber.historyOf os) :=
  Treiber.treiber_linearizable_no_effect_pending sched s os h hq

/-- `historyOf` is faithful: a record's `inv` / `res` are the positions of its call and return observations. -/
theorem C09_treiber_history_sound (os : List (Tid × Obs)) (r : OpRec GOp GRet) (h : r ∈ Treiber.historyOf os) :
    os[r.inv]? = some (r.tid, .call r.op) ∧ os[r.res]? = some (r.tid, .ret r.ret) ∧ r.inv < r.res :=
  Treiber.historyOf_sound os r h

/-- No invention: every value returned by a `pop` is the argument of a `push` that was invoked before the `pop`
    returned. -/
theorem C09_treiber_no_invention (sched : List (Tid × Act)) (s : Treiber.St) (os : List (Tid × Obs))
    (h : Treiber.model.run Treiber.init sched = some (s, os)) (r : OpRec GOp GRet)
    (hr : r ∈ Treiber.historyOf os) (hop : r.op = ⟨"pop", []⟩) (v : Int) (hret : r.ret = [1, v]) :
    ∃ i t', i < r.res ∧ os[i]? = some (t', .call ⟨"push", [v]⟩) :=
  Treiber.treiber_no_invention sched s os h r hr hop v hret

/-- `pop` answers "empty" only when the stack is empty: in a reachable state, the step at which a thread fixes the
    result `[0]` is the validating load of `top` inside `guard.protect` reading null, and the abstract stack
    (the values along the chain from `top`) is empty at that instant. -/
theorem C09_treiber_pop_empty_means_empty (s s' : Treiber.St) (t : Tid) (ev : Ev)
    (hreach : Treiber.model.Reachable Treiber.init s) (hs : Treiber.step s t = some (s', ev))
    (hpre : Treiber.postRet (s.pc t) = none) (hpost : Treiber.postRet (s'.pc t) = some [0]) :
    (∃ p, s.pc t = .popLd2 p) ∧ s.top = none ∧ Treiber.absStack s = [] ∧ Treiber.absStack s' = [] ∧
      ev = ⟨"ld", "top", "null", ""⟩ :=
  Treiber.treiber_pop_empty_means_empty s s' t ev hreach hs hpre hpost

/-- Refinement: in a reachable state, the step at which thread `t` fixes its result `r` (successful CAS of `push`,
    successful CAS of `pop`, validating null load of `pop`) is exactly the `lifo` transition of `t`'s operation
    with result `r` on the abstract stack; every other step leaves the abstract stack unchanged. -/
theorem C09_treiber_lp_refines (s s' : Treiber.St) (t : Tid) (ev : Ev)
    (hreach : Treiber.model.Reachable Treiber.init s) (hs : Treiber.step s t = some (s', ev)) :
    (Treiber.postRet (s.pc t) = none → ∀ r, Treiber.postRet (s'.pc t) = some r →
      ∃ op, Treiber.opOf s.val (s.pc t) = some op ∧
        lifo.next (Treiber.absStack s) op r = some (Treiber.absStack s')) ∧
    ((Treiber.postRet (s.pc t) ≠ none ∨ Treiber.postRet (s'.pc t) = none) →
      Treiber.absStack s' = Treiber.absStack s) :=
  Treiber.step_refines (Treiber.sinv_reachable s hreach) hs

/-- Structure of the reachable states: the chain from `top` is finite, duplicate-free and made of published nodes,
    and a node that has left the chain is never linked in again. -/
theorem C09_treiber_chain (s : Treiber.St) (hreach : Treiber.model.Reachable Treiber.init s) :
    Treiber.Chain s.next s.top (Treiber.absNodes s) ∧ (Treiber.absNodes s).Nodup ∧
      ∀ a ∈ Treiber.absNodes s, Treiber.Pub s a :=
  Treiber.reachable_chain s hreach

theorem C09_treiber_never_relinked (s s' : Treiber.St) (t : Tid) (a : Act) (o : Obs)
    (hreach : Treiber.model.Reachable Treiber.init s) (hap : Treiber.model.apply s t a = some (s', o))
    (x : Nat) (hx : Treiber.Pub s x) (hout : x ∉ Treiber.absNodes s) :
    Treiber.Pub s' x ∧ x ∉ Treiber.absNodes s' :=
  Treiber.never_relinked (Treiber.sinv_reachable s hreach) hap x hx hout

/-! ### Non-vacuity -/

/-- Two pushers race: thread 1 wins the CAS, thread 0's CAS fails (`cas- top n2 null`), it re-links its node and
    succeeds; then thread 2 pops the last pushed value.  Rendered as harness trace lines in the comments. -/
def raceSched : List (Tid × Act) :=
  [(0, .invoke ⟨"push", [7]⟩), (1, .invoke ⟨"push", [8]⟩), (0, .step), (1, .step), (0, .step), (1, .step),
   (1, .step), (0, .step), (0, .step), (0, .step), (0, .ret), (1, .ret),
   (2, .invoke ⟨"pop", []⟩), (2, .step), (2, .step), (2, .step), (2, .step), (2, .step), (2, .ret)]

def raceObs : List (Tid × Obs) :=
  [(0, .call ⟨"push", [7]⟩),               -- T 0 C push [7]
   (1, .call ⟨"push", [8]⟩),               -- T 1 C push [8]
   (0, .ev ⟨"ld", "top", "null", ""⟩),     -- T 0 A ld top null
   (1, .ev ⟨"ld", "top", "null", ""⟩),     -- T 1 A ld top null
   (0, .ev ⟨"st", "n1", "null", ""⟩),      -- T 0 A st n1 null
   (1, .ev ⟨"st", "n2", "null", ""⟩),      -- T 1 A st n2 null
   (1, .ev ⟨"cas+", "top", "null", "n2"⟩), -- T 1 A cas+ top null n2
   (0, .ev ⟨"cas-", "top", "n2", "null"⟩), -- T 0 A cas- top n2 null      (seen n2, expected null)
   (0, .ev ⟨"st", "n1", "n2", ""⟩),        -- T 0 A st n1 n2
   (0, .ev ⟨"cas+", "top", "n2", "n1"⟩),   -- T 0 A cas+ top n2 n1
   (0, .ret [1]), (1, .ret [1]),
   (2, .call ⟨"pop", []⟩),
   (2, .ev ⟨"ld", "top", "n1", ""⟩),       -- T 2 A ld top n1             (protect: first load)
   (2, .ev ⟨"ld", "top", "n1", ""⟩),       -- T 2 A ld top n1             (protect: validating load)
   (2, .ev ⟨"ld", "n1", "n2", ""⟩),        -- T 2 A ld n1 n2
   (2, .ev ⟨"cas+", "top", "n1", "n2"⟩),   -- T 2 A cas+ top n1 n2
   (2, .ev ⟨"st", "n1", "null", ""⟩),      -- T 2 A st n1 null            (clear_links)
   (2, .ret [1, 7])]

example : (Treiber.model.run Treiber.init raceSched).map (·.2) = some raceObs := by decide

example : Treiber.historyOf raceObs =
    [⟨0, ⟨"push", [7]⟩, [1], 0, 10⟩, ⟨1, ⟨"push", [8]⟩, [1], 1, 11⟩, ⟨2, ⟨"pop", []⟩, [1, 7], 12, 18⟩] := by decide

example : linCheck lifo (Treiber.historyOf raceObs) = true := by decide

/-- A pop that sees the stack change between the two loads of `protect` re-validates; a pop on an empty stack
    returns `[0]` at a validating null load. -/
example : (Treiber.model.run Treiber.init
    [(0, .invoke ⟨"pop", []⟩), (0, .step), (1, .invoke ⟨"push", [3]⟩), (1, .step), (1, .step), (1, .step),
     (0, .step), (0, .step), (2, .invoke ⟨"pop", []⟩), (2, .step), (2, .step), (2, .step), (2, .step),
     (0, .step), (0, .step), (0, .step), (0, .step), (0, .ret)]).map (fun r => r.2.filter (fun x => x.1 == 0))
    = some [(0, .call ⟨"pop", []⟩),
            (0, .ev ⟨"ld", "top", "null", ""⟩),      -- first load: null
            (0, .ev ⟨"ld", "top", "n1", ""⟩),        -- validating load differs: repeat
            (0, .ev ⟨"ld", "top", "n1", ""⟩),        -- validated
            (0, .ev ⟨"ld", "n1", "null", ""⟩),
            (0, .ev ⟨"cas-", "top", "null", "n1"⟩),  -- thread 2 popped n1 meanwhile
            (0, .ev ⟨"ld", "top", "null", ""⟩),
            (0, .ev ⟨"ld", "top", "null", ""⟩),      -- linearization point of the empty pop
            (0, .ret [0])] := by decide

/-- Why pending operations must be completed: thread 0's push has taken effect (successful CAS) but has not
    returned when the run stops; thread 1 has popped the value.  The history of completed operations alone
    (`pop → 5` on a stack nobody has pushed to) is not linearizable. -/
def pendingSched : List (Tid × Act) :=
  [(0, .invoke ⟨"push", [5]⟩), (0, .step), (0, .step), (0, .step),
   (1, .invoke ⟨"pop", []⟩), (1, .step), (1, .step), (1, .step), (1, .step), (1, .step), (1, .ret)]

example : (Treiber.model.run Treiber.init pendingSched).map (fun r => Treiber.historyOf r.2) =
    some [⟨1, ⟨"pop", []⟩, [1, 5], 4, 10⟩] := by decide

example : ¬ Linearizable lifo [⟨1, ⟨"pop", []⟩, [1, 5], 4, 10⟩] := by
  intro hlin
  have := (linCheck_iff lifo _ (by decide)).mpr hlin
  revert this
  decide

/-- ... and `extra` of `C09_treiber_linearizable` repairs it: with the pending push completed, it is. -/
example : Linearizable lifo ([⟨1, ⟨"pop", []⟩, [1, 5], 4, 10⟩] ++ [⟨0, ⟨"push", [5]⟩, [1], 0, 11⟩]) :=
  linCheck_sound lifo _ (by decide)

end CdsVerif.Props.C09Treiber

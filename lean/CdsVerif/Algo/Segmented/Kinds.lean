/-
  Preservation of the SegmentedQueue invariant for two kinds of steps: a step that changes only the lock, and a
  step of the lock holder that changes only the segment list (head, tail, lo, nseg).
-/
import CdsVerif.Algo.Segmented.Inv
namespace CdsVerif.Algo.Segmented
open CdsVerif.Machine CdsVerif.Spec

/-! ### Lock only -/

def setLock (s : St) (t : Tid) (q : PC) (b : Bool) (ho : Option Tid) : St :=
  { s with lock := b, holder := ho, pc := upd s.pc t q, now := s.now + 1 }

theorem glob_setLock {s : St} {t : Tid} {q : PC} {b : Bool} {ho : Option Tid} (G : Glob s)
    (hb : ∀ t', ho = some t' → b = true) (hq : ho = none → Quiet s) : Glob (setLock s t q b ho) := by
  unfold setLock
  constructor
  · exact G.lo_le
  · exact G.head_some
  · exact G.head_none
  · exact G.tail_some
  · exact G.tail_none
  · exact G.fresh
  · exact G.wide
  · exact G.dead
  · exact G.full
  · exact hb
  · exact G.item_pos
  · exact G.del_pos
  · exact G.enq_le
  · exact G.enq_cell
  · exact G.enq_zero
  · exact G.enq_used
  · intro y hy; have := G.used_t y hy; exact ⟨by simp only; omega, this.2⟩
  · intro y c hy; have := G.cas_t y c hy; exact ⟨this.1, by simp only; omega, this.2.2⟩
  · exact G.cas_some
  · intro y m hy; have := G.mark_t y m hy; exact ⟨by simp only; omega, this.2⟩
  · exact G.mark_cas
  · exact G.mark_some
  · exact G.floor
  · exact G.order
  · exact G.quasi
  · exact hq

theorem frame_setLock {s : St} {t t' : Tid} {q p : PC} {b : Bool} {ho : Option Tid}
    (hh : s.holder = some t' → ho = some t') : Frame s (setLock s t q b ho) t' p := by
  unfold setLock
  constructor
  · rfl
  · exact Nat.le_refl _
  · exact Nat.le_refl _
  · intro g i hh; exact hh
  · intro g i y hh; exact Or.inl hh
  · intro g i y hh; exact hh
  · intro g i hh; exact hh
  · intro h1; exact ⟨hh h1, rfl, rfl, rfl, rfl⟩
  · rfl
  · simp only; omega
  · intro y c h1; exact Or.inl h1
  · intro y c _; exact ⟨rfl, rfl⟩
  · intro y h1; exact ⟨h1, rfl, rfl⟩
  · intro y _; rfl
  · intro y h1; exact h1
  · intro y h1; exact h1
  · intro y c h1; exact h1
  · intro y m h1; exact h1

/-- Acquire: the lock was free. -/
theorem inv_acquire {s : St} {t : Tid} {q : PC} (h : Inv s) (hfree : s.lock = false)
    (hL : Loc (setLock s t q true (some t)) t q) : Inv (setLock s t q true (some t)) := by
  refine inv_of_step h rfl (glob_setLock h.1 (by intros; rfl) (by intro hh; cases hh)) ?_ hL
  intro t' _
  refine frame_setLock ?_
  intro hh; have := h.1.holder_lock t' hh; rw [hfree] at this; cases this

/-- Release by the holder. -/
theorem inv_release {s : St} {t : Tid} {q : PC} (h : Inv s) (hhold : s.holder = some t) (hq : Quiet s)
    (hL : Loc (setLock s t q false none) t q) : Inv (setLock s t q false none) := by
  refine inv_of_step h rfl (glob_setLock h.1 (by intro t' ht'; cases ht') (fun _ => hq)) ?_ hL
  intro t' ht'
  refine frame_setLock ?_
  intro hh; rw [hhold] at hh; injection hh with hh; exact absurd hh.symm ht'

/-! ### The segment list, by the lock holder -/

def setList (s : St) (t : Tid) (q : PC) (hd tl : Option Nat) (lo' n' : Nat) : St :=
  { s with head := hd, tail := tl, lo := lo', nseg := n', pc := upd s.pc t q, now := s.now + 1 }

theorem quiet_setList {s : St} {t : Tid} {q : PC} {hd tl : Option Nat} {lo' n' : Nat} :
    Quiet (setList s t q hd tl lo' n') ↔ ((lo' < n' → hd = some lo' ∧ tl = some (n' - 1)) ∧ (lo' = n' → hd = none)) :=
  Iff.rfl

theorem quiet_setLock {s : St} {t : Tid} {q : PC} {b : Bool} {ho : Option Tid} :
    Quiet (setLock s t q b ho) ↔ Quiet s := Iff.rfl

theorem holder_none_of_free {s : St} (G : Glob s) (hfree : s.lock = false) : s.holder = none := by
  cases hh : s.holder with
  | none => rfl
  | some t' => have := G.holder_lock t' hh; rw [hfree] at this; cases this

theorem glob_setList {s : St} {t : Tid} {q : PC} {hd tl : Option Nat} {lo' n' : Nat} (G : Glob s)
    (hhold : s.holder = some t) (hn : s.nseg ≤ n') (h1 : lo' ≤ n') (h2 : ∀ h, hd = some h → h ≤ lo' ∧ h < n') (h3 : hd = none → lo' = n')
    (h4 : ∀ p, tl = some p → p + 1 = n') (h5 : lo' = n' → tl = none)
    (h6 : ∀ g i, n' ≤ g → s.cell g i = .null) (h8 : ∀ g i, g < lo' → i < s.K → (s.cell g i).isDel = true)
    (h9 : ∀ g i, g + 1 < n' → i < s.K → s.cell g i ≠ .null) : Glob (setList s t q hd tl lo' n') := by
  unfold setList
  constructor
  · exact h1
  · exact h2
  · exact h3
  · exact h4
  · exact h5
  · exact h6
  · exact G.wide
  · exact h8
  · exact h9
  · exact G.holder_lock
  · exact G.item_pos
  · exact G.del_pos
  · exact G.enq_le
  · exact G.enq_cell
  · exact G.enq_zero
  · exact G.enq_used
  · intro y hy; have := G.used_t y hy; exact ⟨by simp only; omega, by simp only; omega⟩
  · intro y c hy; have := G.cas_t y c hy; exact ⟨this.1, by simp only; omega, this.2.2⟩
  · exact G.cas_some
  · intro y m hy; have := G.mark_t y m hy; exact ⟨by simp only; omega, this.2⟩
  · exact G.mark_cas
  · exact G.mark_some
  · exact G.floor
  · exact G.order
  · exact G.quasi
  · intro hh; rw [hhold] at hh; cases hh

theorem frame_setList {s : St} {t t' : Tid} {q p : PC} {hd tl : Option Nat} {lo' n' : Nat}
    (hhold : s.holder = some t) (ht' : t' ≠ t) (hlo : s.lo ≤ lo') (hn : s.nseg ≤ n') :
    Frame s (setList s t q hd tl lo' n') t' p := by
  unfold setList
  constructor
  · rfl
  · exact hlo
  · exact hn
  · intro g i hh; exact hh
  · intro g i y hh; exact Or.inl hh
  · intro g i y hh; exact hh
  · intro g i hh; exact hh
  · intro h1; rw [hhold] at h1; injection h1 with h1; exact absurd h1.symm ht'
  · rfl
  · simp only; omega
  · intro y c h1; exact Or.inl h1
  · intro y c _; exact ⟨rfl, rfl⟩
  · intro y h1; exact ⟨h1, rfl, rfl⟩
  · intro y _; rfl
  · intro y h1; exact h1
  · intro y h1; exact h1
  · intro y c h1; exact h1
  · intro y m h1; exact h1

theorem inv_setList {s : St} {t : Tid} {q : PC} {hd tl : Option Nat} {lo' n' : Nat} (h : Inv s)
    (hhold : s.holder = some t) (hlo : s.lo ≤ lo') (hn : s.nseg ≤ n')
    (h1 : lo' ≤ n') (h2 : ∀ h, hd = some h → h ≤ lo' ∧ h < n') (h3 : hd = none → lo' = n')
    (h4 : ∀ p, tl = some p → p + 1 = n') (h5 : lo' = n' → tl = none)
    (h6 : ∀ g i, n' ≤ g → s.cell g i = .null) (h8 : ∀ g i, g < lo' → i < s.K → (s.cell g i).isDel = true)
    (h9 : ∀ g i, g + 1 < n' → i < s.K → s.cell g i ≠ .null)
    (hL : Loc (setList s t q hd tl lo' n') t q) : Inv (setList s t q hd tl lo' n') :=
  inv_of_step h rfl (glob_setList h.1 hhold hn h1 h2 h3 h4 h5 h6 h8 h9)
    (fun _ ht' => frame_setList hhold ht' hlo hn) hL

end CdsVerif.Algo.Segmented

"""What tools/cxx2lean.py translates: Lean module -> translation units and functions."""
PRE = "#include <cstdint>\n#include <cstddef>\n#include <cstdlib>\n#include <cassert>\n"

def f(cxx, lean, type=None, parent=None, aliases=(), spec=None):
    d = {"cxx": cxx, "lean": lean}
    if spec: d["spec"] = spec
    if type: d["type"] = type
    if parent: d["parent"] = parent
    if aliases: d["call_aliases"] = list(aliases)
    return d

SPLITSET_TU = """#include <cds/gc/hp.h>
#include <cds/intrusive/michael_list_hp.h>
#include <cds/intrusive/split_list.h>
namespace ci = cds::intrusive;
struct vitem : ci::split_list::node< ci::michael_list::node<cds::gc::HP> > { int k; };
struct vhash { size_t operator()( vitem const& i ) const { return size_t( i.k ); } size_t operator()( int k ) const { return size_t( k ); } };
struct vcmp { int operator()( vitem const& a, vitem const& b ) const { return a.k - b.k; } int operator()( vitem const& a, int b ) const { return a.k - b; } int operator()( int a, vitem const& b ) const { return a - b.k; } };
struct vlist_traits : ci::michael_list::traits { typedef ci::michael_list::base_hook< cds::opt::gc<cds::gc::HP> > hook; typedef vcmp compare; };
typedef ci::MichaelList< cds::gc::HP, vitem, vlist_traits > vlist;
struct vset_traits : ci::split_list::traits { typedef vhash hash; };
typedef ci::SplitListSet< cds::gc::HP, vlist, vset_traits > vset;
size_t verif_use( vset& s ) { return s.bucket_no( 1 ) + vset::parent_bucket( 2 ); }
"""

SPECS = [
 {"module": "CdsVerif.Gen.BitopGeneric", "namespace": "CdsVerif.Gen.BitopGeneric",
  "units": [
   # the generic (portable) implementations, compiled stand-alone so that the amd64 asm versions do not shadow them
   {"tu": PRE + "#include <cds/details/bitop_generic.h>\n", "filter": "platform", "functions": [
     f("isPow2_32", "isPow2_32"), f("isPow2_64", "isPow2_64"),
     f("msb32", "msb32"), f("msb32nz", "msb32nz"), f("msb64", "msb64"), f("msb64nz", "msb64nz", aliases=["MSBnz"]),
     f("lsb32", "lsb32"), f("lsb32nz", "lsb32nz"), f("lsb64", "lsb64"), f("lsb64nz", "lsb64nz"),
     f("rbo32", "rbo32"), f("rbo64", "rbo64"),
     f("sbc32", "sbc32"), f("sbc64", "sbc64"), f("zbc32", "zbc32"), f("zbc64", "zbc64"),
     f("complement32", "complement32"), f("complement64", "complement64"),
   ]},
   {"tu": PRE + "#include <cds/algo/int_algo.h>\n", "filter": "beans", "functions": [
     f("log2floor", "log2floor"), f("log2ceil", "log2ceil"), f("floor2", "floor2"), f("ceil2", "ceil2"),
     f("is_power2", "is_power2"), f("log2", "log2"),
   ]},
  ]},
 {"module": "CdsVerif.Gen.BitReversal", "namespace": "CdsVerif.Gen.BitReversal",
  "units": [
   {"tu": PRE + "#include <cds/algo/bit_reversal.h>\n", "filter": "bit_reversal", "functions": [
     f("operator()", "swar32", type="uint32_t (uint32_t) const", parent="swar"),
     f("operator()", "swar64", type="uint64_t (uint64_t) const", parent="swar"),
     f("operator()", "lookup32", type="uint32_t (uint32_t) const", parent="lookup"),
     f("operator()", "lookup64", type="uint64_t (uint64_t) const", parent="lookup"),
     f("muldiv32_byte", "muldiv32_byte"), f("muldiv64_byte", "muldiv64_byte"),
     f("muldiv32", "muldiv32_32", type="uint32_t (uint32_t)"), f("muldiv32", "muldiv32_64", type="uint64_t (uint64_t)"),
     f("muldiv64", "muldiv64_32", type="uint32_t (uint32_t)"), f("muldiv64", "muldiv64_64", type="uint64_t (uint64_t)"),
     f("operator()", "muldiv_op32", type="uint32_t (uint32_t) const", parent="muldiv"),
     f("operator()", "muldiv_op64", type="uint64_t (uint64_t) const", parent="muldiv"),
   ]},
  ]},
 {"module": "CdsVerif.Gen.Feldman", "namespace": "CdsVerif.Gen.Feldman",
  "units": [
   {"tu": PRE + "#include <vector>\n#include <cds/intrusive/details/feldman_hashset_base.h>\n", "filter": "metrics", "functions": [
     f("make", "metrics_make"),
   ]},
  ]},
 {"module": "CdsVerif.Gen.Splitter", "namespace": "CdsVerif.Gen.Splitter",
  "units": [
   {"tu": PRE + "#include <cds/algo/split_bitstring.h>\ntemplate class cds::algo::number_splitter<unsigned long>;\ntemplate class cds::algo::number_splitter<unsigned int>;\n",
    "filter": "number_splitter", "functions": [
     f("cut", "number_cut64", spec="unsigned long"),
     f("eos", "number_eos64", spec="unsigned long"),
     f("rest_count", "number_rest_count64", spec="unsigned long"),
     f("bit_offset", "number_bit_offset64", spec="unsigned long"),
     f("cut", "number_cut32", spec="unsigned int"),
     f("eos", "number_eos32", spec="unsigned int"),
     f("rest_count", "number_rest_count32", spec="unsigned int"),
   ]},
  ]},
 {"module": "CdsVerif.Gen.SplitOrder", "namespace": "CdsVerif.Gen.SplitOrder",
  "imports": ["CdsVerif.Gen.BitReversal", "CdsVerif.Gen.BitopGeneric"],
  "units": [
   {"tu": PRE + "#include <cds/details/size_t_cast.h>\n", "filter": "size_t_cast", "functions": [f("size_t_cast", "size_t_cast")]},
   {"tu": PRE + SPLITSET_TU + """namespace sl = cds::intrusive::split_list; namespace br = cds::algo::bit_reversal;
template size_t sl::regular_hash<br::swar>(size_t);
""", "filter": "regular_hash", "flags": ["-fno-access-control"], "functions": [f("regular_hash", "regular_hash_swar")]},
   {"tu": PRE + SPLITSET_TU + """namespace sl = cds::intrusive::split_list; namespace br = cds::algo::bit_reversal;
template size_t sl::regular_hash<br::lookup>(size_t);
""", "filter": "regular_hash", "flags": ["-fno-access-control"], "functions": [f("regular_hash", "regular_hash_lookup")]},
   {"tu": PRE + SPLITSET_TU + """namespace sl = cds::intrusive::split_list; namespace br = cds::algo::bit_reversal;
template size_t sl::regular_hash<br::muldiv>(size_t);
""", "filter": "regular_hash", "flags": ["-fno-access-control"], "functions": [f("regular_hash", "regular_hash_muldiv")]},
   {"tu": PRE + SPLITSET_TU + """namespace sl = cds::intrusive::split_list; namespace br = cds::algo::bit_reversal;
template size_t sl::dummy_hash<br::swar>(size_t);
""", "filter": "dummy_hash", "flags": ["-fno-access-control"], "functions": [f("dummy_hash", "dummy_hash_swar")]},
   {"tu": PRE + SPLITSET_TU + """namespace sl = cds::intrusive::split_list; namespace br = cds::algo::bit_reversal;
template size_t sl::dummy_hash<br::lookup>(size_t);
""", "filter": "dummy_hash", "flags": ["-fno-access-control"], "functions": [f("dummy_hash", "dummy_hash_lookup")]},
   {"tu": PRE + SPLITSET_TU + """namespace sl = cds::intrusive::split_list; namespace br = cds::algo::bit_reversal;
template size_t sl::dummy_hash<br::muldiv>(size_t);
""", "filter": "dummy_hash", "flags": ["-fno-access-control"], "functions": [f("dummy_hash", "dummy_hash_muldiv")]},
   {"tu": PRE + SPLITSET_TU, "filter": "parent_bucket", "flags": ["-fno-access-control"], "functions": [f("parent_bucket", "parent_bucket")]},
   {"tu": PRE + SPLITSET_TU, "filter": "SplitListSet", "flags": ["-fno-access-control"], "functions": [f("bucket_no", "bucket_no")]},
  ]},
 {"module": "CdsVerif.Gen.RingBuffer", "namespace": "CdsVerif.Gen.RingBuffer",
  "units": [
   {"tu": PRE + """#include <cds/container/weak_ringbuffer.h>
typedef cds::container::WeakRingBuffer<void> vrb;
size_t verif_use( size_t n ) { return vrb::calc_real_size( n ) + vrb::make_tail( n ) + vrb::untail( n ) + ( vrb::is_tail( n ) ? 1 : 0 ); }
""", "filter": "WeakRingBuffer", "flags": ["-fno-access-control"], "functions": [
     f("calc_real_size", "calc_real_size"), f("is_tail", "is_tail"), f("make_tail", "make_tail"), f("untail", "untail"),
   ]},
  ]},
]

/-
  Atomic-step model of `cds::intrusive::TreiberStack` (cds/intrusive/treiber_stack.h), functions
  `push` and `pop`, elimination back-off disabled.

    push( val ):
        pNew = node of val
        t = m_Top.load()                                   -- pushLd
        while ( true ) {
            pNew->m_pNext.store( t )                       -- pushSt
            if ( m_Top.compare_exchange_weak( t, pNew ))   -- pushCas  (failure: t := value seen)
                return true;
            back-off
        }

    pop():
        while ( true ) {
            t = guard.protect( m_Top )     -- pCur = load;                         popLd1
                                           -- do { pRet = pCur; hp := pCur; pCur = load } while ( pRet != pCur )   popLd2
            if ( t == nullptr ) return nullptr;
            pNext = t->m_pNext.load()                      -- popNext
            if ( m_Top.compare_exchange_weak( t, pNext )) {   -- popCas
                clear_links( t )           -- t->m_pNext.store( nullptr )           popClr
                return t;
            }
            back-off
        }

  Memory model of the model: garbage-collected heap.  A node is a fresh natural number (the counter
  `cnt`, starting at 1; 0 is never a node) and is never reused: this is what the hazard pointer published by
  `guard.protect` guarantees in the real code, and it is an ASSUMPTION here.  The hazard-pointer store
  itself is not a shared-memory step of the model.  `compare_exchange_weak` never fails spuriously in the
  model (a spurious failure is a retry that changes nothing).  The item counter and the statistics are
  not modelled.

  One `step` = one atomic operation on shared memory.  Event rendering (the `A` lines of the harness trace):
      ld   top   <ptr>              load of m_Top, value read
      ld   n<a>  <ptr>              load of node a's m_pNext
      st   n<a>  <ptr>              store to node a's m_pNext
      cas+ top   <old> <new>        successful CAS on m_Top
      cas- top   <seen> <expected>  failed CAS on m_Top
  where <ptr> is `null` or `n<id>`.
-/
import CdsVerif.Base.Machine
namespace CdsVerif.Algo.Treiber
open CdsVerif.Machine CdsVerif.Spec

inductive PC
  | idle
  | pushLd (n : Nat)                       -- next: t = m_Top.load()
  | pushSt (n : Nat) (tv : Option Nat)     -- next: pNew->m_pNext.store( t )
  | pushCas (n : Nat) (tv : Option Nat)    -- next: CAS( m_Top, t, pNew )
  | popLd1                                 -- next: first load of protect
  | popLd2 (p : Option Nat)                -- next: validating load of protect (p = value read before)
  | popNext (a : Nat)                      -- next: pNext = t->m_pNext.load()
  | popCas (a : Nat) (nx : Option Nat)     -- next: CAS( m_Top, t, pNext )
  | popClr (a : Nat) (r : GRet)            -- next: clear_links( t ); then return r
  | done (r : GRet)
deriving DecidableEq, Repr

structure St where
  top : Option Nat               -- m_Top (none = nullptr)
  next : Nat → Option Nat        -- m_pNext of every node
  val : Nat → Int                -- payload of every node
  cnt : Nat                      -- next fresh node
  pc : Tid → PC

def init : St := ⟨none, fun _ => none, fun _ => 0, 1, fun _ => .idle⟩

/-! ### Event rendering (the only place where events are built) -/

def ptr : Option Nat → String
  | none => "null"
  | some a => s!"n{a}"
def nloc (a : Nat) : String := s!"n{a}"
def topLoc : String := "top"

def evLd (loc : String) (v : Option Nat) : Ev := ⟨"ld", loc, ptr v, ""⟩
def evSt (loc : String) (v : Option Nat) : Ev := ⟨"st", loc, ptr v, ""⟩
def evCasOk (loc : String) (old new : Option Nat) : Ev := ⟨"cas+", loc, ptr old, ptr new⟩
def evCasFail (loc : String) (seen expected : Option Nat) : Ev := ⟨"cas-", loc, ptr seen, ptr expected⟩

/-! ### Transitions -/

/-- `push [v]`: the client supplies a fresh node carrying `v` (its `m_pNext` is null: `link_checker`).
    `pop []`. -/
def invoke (s : St) (t : Tid) (op : GOp) : Option St :=
  match s.pc t, op.name, op.args with
  | .idle, "push", [v] =>
    some { s with val := upd s.val s.cnt v, cnt := s.cnt + 1, pc := upd s.pc t (.pushLd s.cnt) }
  | .idle, "pop", [] => some { s with pc := upd s.pc t .popLd1 }
  | _, _, _ => none

def step (s : St) (t : Tid) : Option (St × Ev) :=
  match s.pc t with
  | .pushLd n => some ({ s with pc := upd s.pc t (.pushSt n s.top) }, evLd topLoc s.top)
  | .pushSt n tv => some ({ s with next := upd s.next n tv, pc := upd s.pc t (.pushCas n tv) }, evSt (nloc n) tv)
  | .pushCas n tv =>
    if s.top = tv then
      some ({ s with top := some n, pc := upd s.pc t (.done [1]) }, evCasOk topLoc tv (some n))
    else
      some ({ s with pc := upd s.pc t (.pushSt n s.top) }, evCasFail topLoc s.top tv)
  | .popLd1 => some ({ s with pc := upd s.pc t (.popLd2 s.top) }, evLd topLoc s.top)
  | .popLd2 p =>
    if s.top = p then
      match p with
      | none => some ({ s with pc := upd s.pc t (.done [0]) }, evLd topLoc none)
      | some a => some ({ s with pc := upd s.pc t (.popNext a) }, evLd topLoc (some a))
    else
      some ({ s with pc := upd s.pc t (.popLd2 s.top) }, evLd topLoc s.top)
  | .popNext a => some ({ s with pc := upd s.pc t (.popCas a (s.next a)) }, evLd (nloc a) (s.next a))
  | .popCas a nx =>
    if s.top = some a then
      some ({ s with top := nx, pc := upd s.pc t (.popClr a [1, s.val a]) }, evCasOk topLoc (some a) nx)
    else
      some ({ s with pc := upd s.pc t .popLd1 }, evCasFail topLoc s.top (some a))
  | .popClr a r => some ({ s with next := upd s.next a none, pc := upd s.pc t (.done r) }, evSt (nloc a) none)
  | _ => none

def result (s : St) (t : Tid) : Option (St × GRet) :=
  match s.pc t with
  | .done r => some ({ s with pc := upd s.pc t .idle }, r)
  | _ => none

def model : Model St := ⟨invoke, step, result⟩

/-- The trace lines of a run, as the harness prints them (`T <tid> A <event>` for atomic events). -/
def render (os : List (Tid × Obs)) : List String :=
  os.map fun (t, o) => match o with
    | .call op => s!"T {t} C {op.name} {op.args}"
    | .ev e => s!"T {t} A {e}"
    | .ret r => s!"T {t} R {r}"

end CdsVerif.Algo.Treiber

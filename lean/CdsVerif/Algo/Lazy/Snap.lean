/-
  C18 "reachable ⇒ well-formed", LazyList machine: the machine state rendered as the `SNAP list` dump of the real
  object (`harness/clients/snap.cpp`, `LazySnap::dump`: follow `m_pNext.ptr()` from `m_Head` until `m_Tail`; per node
  its key, the mark bit of its `m_pNext`, `hasData = 1`), and the lemmas that connect the dump with the invariant
  `SInvL` / `Win` (`Algo/Lazy/Inv.lean`, `Reach.lean`).  Property theorems are in `Props/C18Reach.lean`.

  TWO renderings, because of the libcds variant of the algorithm (the marking store writes a marked BACK-LINK TO THE
  HEAD, see `Model.lean`):
  * `snapOf`    — the LOGICAL chain (ghost successor `succ`): what the classic algorithm keeps in memory;
  * `memSnapOf` — the words in MEMORY (`next`), what the real dump reads.
  They coincide in every reachable state in which no eraser is between its marking store and its unlink store
  (`SInvL.mem_eq_logical`), in particular in every quiescent state; inside such a window the memory words form a cycle
  head → … → pCur → head and the real dump would report `chain-cycle` (the walk of `memSnapOf` stops when its fuel,
  the number of allocated nodes, is used up).

  The machine has no item counter (`Model.lean`: "the item counter … not modelled"), so nothing is said on `size()`.
-/
import CdsVerif.Algo.Lazy.Reach
import CdsVerif.Props.C18
namespace CdsVerif.Algo.Lazy
open CdsVerif.Machine CdsVerif.Spec CdsVerif.Snapshot
open CdsVerif.Algo.Michael (Chain walk walk_of_chain length_le_of_nodup_lt)

/-- One dumped node. -/
def snapNode (s : St) (a : Nat) : LNode := ⟨s.key a, s.mark a, true⟩

/-- The dump of the logical chain (sentinels dropped). -/
def snapOf (s : St) : ListSnap := (absNodes s).map (snapNode s)

/-- The nodes met by following the MEMORY words from `m_Head` (fuel: the number of allocated nodes), sentinels dropped. -/
def memNodes (s : St) : List Nat := (walk s.next s.cnt (some 0)).filter (fun a => decide (a ≠ 0 ∧ a ≠ 1))

/-- The dump of the chain in memory: what `LazySnap::dump` prints. -/
def memSnapOf (s : St) : ListSnap := (memNodes s).map (snapNode s)

/-- The memory dump as the tokens of a `SNAP` line of the harness (`list k m d …`), for a comparison with the real dump of
    a replayed case (as `Michael.snapTokens`; not wired into the driver). -/
def snapTokens (s : St) : List String :=
  "list" :: (memSnapOf s).flatMap (fun n => [toString n.key, if n.marked then "1" else "0", if n.hasData then "1" else "0"])

/-- The abstract set as a list of keys (the keys of `absMap`, which is in chain order). -/
def absKeys (s : St) : List Int := (absMap s).map (·.1)

/-- No eraser is between its marking store and its unlink store. -/
def NoWindow (s : St) : Prop := ∀ t, pcWin (s.pc t) = none

theorem noWindow_of_idle {s : St} (h : ∀ t, s.pc t = .idle) : NoWindow s := by
  intro t; rw [h t]; rfl

theorem listAbs_map_snapNode (s : St) : ∀ l : List Nat,
    listAbs (l.map (snapNode s)) = ((l.filter (fun a => !s.mark a)).map (fun a => (s.key a, s.val a))).map (·.1)
  | [] => rfl
  | a :: l => by
    have ih := listAbs_map_snapNode s l
    unfold listAbs at ih ⊢
    cases hm : s.mark a <;> simp [LNode.live, snapNode, hm] <;> simpa using ih

theorem listAbs_snapOf (s : St) : listAbs (snapOf s) = absKeys s := listAbs_map_snapNode s (absNodes s)

theorem SInvL.absKeys_sorted {s : St} {L : List Nat} (h : SInvL s L) : (absKeys s).Pairwise (· < ·) := by
  unfold absKeys
  rw [List.pairwise_map]
  exact h.absMap_sorted

theorem SInvL.snap_wf {s : St} {L : List Nat} (h : SInvL s L) : listWf (snapOf s) = true := by
  unfold listWf
  rw [listAbs_snapOf]
  exact (CdsVerif.Props.C18.sortedLt_iff _).2 h.absKeys_sorted

/-- ALL nodes of the logical chain (marked ones included) have strictly increasing keys. -/
theorem SInvL.snap_all_sorted {s : St} {L : List Nat} (h : SInvL s L) :
    ((snapOf s).map (·.key)).Pairwise (· < ·) := by
  unfold snapOf
  rw [List.map_map, List.pairwise_map]
  exact h.absNodes_sorted

theorem chain_congr {f g : Nat → Option Nat} : ∀ {p : Option Nat} {l : List Nat},
    Chain f p l → (∀ a, a ∈ l → g a = f a) → Chain g p l
  | _, [], h, _ => h
  | _, a :: l, h, hg => by
    simp only [Chain] at h ⊢
    refine ⟨h.1, ?_⟩
    rw [hg a (List.mem_cons_self ..)]
    exact chain_congr h.2 (fun b hb => hg b (List.mem_cons_of_mem _ hb))

/-- Outside the erasers' windows no node of the chain is marked, and the words in memory spell the logical chain. -/
theorem SInvL.mem_eq_logical {s : St} {L : List Nat} (h : SInvL s L) (hw : Win s L) (hn : NoWindow s) :
    (∀ a, a ∈ L → s.mark a = false) ∧ walk s.next s.cnt (some 0) = L := by
  have hum : ∀ a, a ∈ L → s.mark a = false := by
    intro a ha
    cases hm : s.mark a with
    | false => rfl
    | true =>
      obtain ⟨t, ht⟩ := hw a ha hm
      rw [hn t] at ht; simp at ht
  refine ⟨hum, ?_⟩
  have hc : Chain s.next (some 0) L := chain_congr h.chain (fun a ha => h.agree a (hum a ha))
  exact walk_of_chain hc (length_le_of_nodup_lt h.nodup (fun a ha => h.alloc a ha))

theorem SInvL.memSnap_eq {s : St} {L : List Nat} (h : SInvL s L) (hw : Win s L) (hn : NoWindow s) :
    memSnapOf s = snapOf s ∧ ∀ n ∈ snapOf s, n.marked = false := by
  obtain ⟨hum, hwalk⟩ := h.mem_eq_logical hw hn
  refine ⟨?_, ?_⟩
  · unfold memSnapOf snapOf memNodes absNodes
    rw [hwalk, h.chainOf_eq]
  · intro n hn'
    unfold snapOf at hn'
    obtain ⟨a, ha, rfl⟩ := List.mem_map.1 hn'
    exact hum a ((h.mem_absNodes a).1 ha).1

end CdsVerif.Algo.Lazy

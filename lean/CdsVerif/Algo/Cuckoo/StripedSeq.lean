/-
  Tiny SEQUENTIAL model of the growth of `StripedSet< std::list<T>, hash, less, load_factor_resizing<0> >`
  (cds/intrusive/striped_set.h `insert` / `resize` / `internal_resize`, cds/container/striped_set/std_list.h,
  cds/intrusive/striped_set/resizing_policy.h), as harness/pure/resize.cpp `striped_case` uses it:

    bucket( h )                    index = hash & (bucket count - 1)
    adapted std::list bucket       a sorted list: insert / move_item put the key at std::lower_bound (`ordInsert`,
                                   move_item without an equality test), find / erase look the key up
    insert                         bucket insert, ++item counter, then `load_factor_resizing`: resize when
                                   counter > bucket_count * load factor
    internal_resize( 2 * cap )     doubled empty table; every old bucket in index order, front to back:
                                   bucket( hash( x ))->move_item( x )

  The CONCURRENT StripedSet (striping and refinable lock policies, resize racing with operations) is the machine
  Algo/Striped, with "no loss / no duplication across rehash" proved for all schedules and tied by trace replay
  (Props/C16*); this file only gives C17 the closed-form statement for every hash function: the rehash has no
  failing branch (a std::list bucket is unbounded), so nothing can be lost - the contrast to CuckooSet::resize.
-/
import CdsVerif.Algo.Cuckoo.Lemmas
namespace CdsVerif.Algo.Cuckoo.StripedSeq
open CdsVerif.Algo.Cuckoo

structure SSt where
  cap : Nat
  bkt : Table
  count : Nat
  deriving DecidableEq, Repr

/-- position of std::lower_bound in a sorted list: in front of the first key that is not smaller -/
def ordInsert (k : Int) : Bucket → Bucket
  | [] => [k]
  | x :: xs => if x < k then x :: ordInsert k xs else k :: x :: xs

/-- `bucket( hash( x ))->move_item( x )` on the table `t` of `cap` buckets -/
def moveItem (h : Int → Nat) (cap : Nat) (t : Table) (x : Int) : Table :=
  t.set (idx cap (h x)) (ordInsert x (t.getD (idx cap (h x)) []))

def moveAll (h : Int → Nat) (cap : Nat) (t : Table) (xs : List Int) : Table := xs.foldl (moveItem h cap) t

/-- internal_resize( 2 * cap ) -/
def rehash (h : Int → Nat) (s : SSt) : SSt :=
  { cap := 2 * s.cap, bkt := moveAll h (2 * s.cap) (List.replicate (2 * s.cap) []) s.bkt.flatten, count := s.count }

def scontains (h : Int → Nat) (s : SSt) (k : Int) : Bool := decide (k ∈ s.bkt.getD (idx s.cap (h k)) [])

/-- insert with `load_factor_resizing( lf )` -/
def sinsert (h : Int → Nat) (lf : Nat) (s : SSt) (k : Int) : SSt × Bool :=
  if scontains h s k then (s, false)
  else
    let s1 : SSt := { s with bkt := moveItem h s.cap s.bkt k, count := s.count + 1 }
    if s1.count > s1.cap * lf then (rehash h s1, true) else (s1, true)

def serase (h : Int → Nat) (s : SSt) (k : Int) : SSt × Bool :=
  if scontains h s k then
    ({ s with bkt := s.bkt.set (idx s.cap (h k)) ((s.bkt.getD (idx s.cap (h k)) []).erase k), count := s.count - 1 }, true)
  else (s, false)

/-! ### rehash keeps the multiset and puts every key into the bucket its hash selects -/

theorem ordInsert_perm (k : Int) (b : Bucket) : (ordInsert k b).Perm (k :: b) := by
  induction b with
  | nil => exact List.Perm.refl _
  | cons x xs ih =>
    unfold ordInsert; split
    · exact (List.Perm.cons x ih).trans (List.Perm.swap k x xs)
    · exact List.Perm.refl _

/-- every key of `t` sits in the bucket `hash & (cap - 1)` -/
def TPlaced (h : Int → Nat) (cap : Nat) (t : Table) : Prop := ∀ j k, k ∈ t.getD j [] → idx cap (h k) = j

theorem moveItem_spec (h : Int → Nat) {cap : Nat} (hc : 0 < cap) (t : Table) (x : Int) (hl : t.length = cap)
    (hp : TPlaced h cap t) :
    (moveItem h cap t x).length = cap ∧ TPlaced h cap (moveItem h cap t x)
      ∧ ∀ q, (moveItem h cap t x).flatten.count q = t.flatten.count q + (if x = q then 1 else 0) := by
  have hi : idx cap (h x) < t.length := by rw [hl]; exact idx_lt hc _
  refine ⟨by simp [moveItem, hl], ?_, fun q => ?_⟩
  · intro j k hk
    unfold moveItem at hk
    rw [getD_set] at hk
    split at hk
    · rename_i e
      rcases List.mem_cons.mp ((ordInsert_perm x _).mem_iff.mp hk) with e' | hk'
      · rw [e']; exact e.1
      · rw [← e.1]; exact hp _ k hk'
    · exact hp j k hk
  · have a := count_flatten_set t (idx cap (h x)) (ordInsert x (t.getD (idx cap (h x)) [])) q hi
    rw [(ordInsert_perm x _).count_eq, List.count_cons] at a
    simp only [beq_iff_eq] at a
    unfold moveItem
    omega

theorem moveAll_spec (h : Int → Nat) {cap : Nat} (hc : 0 < cap) (xs : List Int) : ∀ (t : Table), t.length = cap →
    TPlaced h cap t →
    (moveAll h cap t xs).length = cap ∧ TPlaced h cap (moveAll h cap t xs)
      ∧ ∀ q, (moveAll h cap t xs).flatten.count q = t.flatten.count q + xs.count q := by
  induction xs with
  | nil => intro t hl hp; exact ⟨hl, hp, fun _ => rfl⟩
  | cons x xs ih =>
    intro t hl hp
    obtain ⟨a, b, c⟩ := moveItem_spec h hc t x hl hp
    obtain ⟨a', b', c'⟩ := ih (moveItem h cap t x) a b
    refine ⟨a', b', fun q => ?_⟩
    have := c' q
    have := c q
    simp only [moveAll, List.foldl_cons, List.count_cons, beq_iff_eq] at *
    omega

/-- for EVERY hash function: the doubled table has `2 * cap` buckets, holds exactly the old keys (as a multiset), every
    key in the bucket its hash selects, and the item counter is unchanged -/
theorem rehash_spec (h : Int → Nat) (s : SSt) (hc : 0 < s.cap) :
    (rehash h s).bkt.length = 2 * s.cap ∧ (rehash h s).cap = 2 * s.cap ∧ (rehash h s).count = s.count
      ∧ TPlaced h (rehash h s).cap (rehash h s).bkt ∧ (rehash h s).bkt.flatten.Perm s.bkt.flatten := by
  have hp0 : TPlaced h (2 * s.cap) (List.replicate (2 * s.cap) []) := by
    intro j k hk; rw [getD_replicate_nil] at hk; cases hk
  obtain ⟨a, b, c⟩ := moveAll_spec h (cap := 2 * s.cap) (by omega) s.bkt.flatten (List.replicate (2 * s.cap) []) (by simp) hp0
  refine ⟨a, rfl, rfl, b, List.perm_iff_count.mpr (fun q => ?_)⟩
  have := c q
  rw [flatten_replicate_nil] at this
  simpa [rehash] using this

theorem scontains_iff (h : Int → Nat) (s : SSt) (hp : TPlaced h s.cap s.bkt) (k : Int) :
    scontains h s k = true ↔ k ∈ s.bkt.flatten := by
  unfold scontains
  rw [decide_eq_true_eq, mem_flatten_getD]
  constructor
  · intro hk; exact ⟨_, hk⟩
  · rintro ⟨j, hk⟩; rw [hp j k hk]; exact hk

end CdsVerif.Algo.Cuckoo.StripedSeq

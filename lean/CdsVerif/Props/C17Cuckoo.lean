/-
  C17 (growth / rehash keeps exactly the set of elements) for the sequential CuckooSet model
  (Algo/Cuckoo/Model.lean, tied to cds::container::CuckooSet by tools/cuckoo_tie.py: identical results, bucket counts,
  size() and probe-set layouts after every operation, the same lost keys) and the sequential StripedSet rehash
  (Algo/Cuckoo/StripedSeq.lean).

  The FULL statement of C17 for CuckooSet::resize(),

      ∀ c s, CInv c s → ∀ k, contains c (resize c s) k = contains c s k            (every element stays findable)

  is FALSE for the code as it stands: `C17_cuckoo_resize_full_statement_false`, with the concrete witness
  `C17_cuckoo_resize_can_drop` (the state in which the kept witness of tools/props.py `c17` - hashes k % 3 and
  (k / 3) % 3, probe-set size 2, default threshold - calls resize() during its operation 55: key 7 is lost, size()
  keeps counting it) and the whole kept run `C17_cuckoo_witness_run`.  What holds:

    * `C17_cuckoo_resize_exact`  (no hypothesis): the doubled tables hold the old keys minus exactly the keys of the
      ghost list `resizeLost`, every key in the probe set its hash selects, item counter unchanged;
    * `C17_cuckoo_resize_preserves_partial`: under the decidable room hypothesis `ResizeRoom` (during the re-insertion
      no node finds both of its probe sets full) resize() keeps exactly the set: same contains() for every key, same
      size(), no key twice, invariant preserved.  `_partial` = the room hypothesis; it is also necessary
      (`C17_cuckoo_resize_room_iff`: ResizeRoom ↔ nothing lost).
    * insert / erase / contains laws on states satisfying `CInv`; the insert law is `_partial`: it assumes that the
      call returns (fuel) and that the resizes it ran lost nothing (`C17_cuckoo_insert_exact` is the unconditional
      form with the ghost list of lost keys).
    * `C17_striped_rehash_preserves`: StripedSet's rehash, for EVERY hash function, no hypothesis.
-/
import CdsVerif.Algo.Cuckoo.Ops
import CdsVerif.Algo.Cuckoo.StripedSeq
namespace CdsVerif.Props
open CdsVerif.Algo.Cuckoo

/-- the keys resize() leaves behind in the old tables -/
def resizeLost (c : Cfg) (s : St) : List Int := (resizeG c s).2

/-! ### resize -/

/-- resize(), no hypothesis beyond well-formed tables: new tables well formed and well placed, twice the buckets, item
    counter unchanged, and for every key: copies linked after + copies lost = copies linked before -/
theorem C17_cuckoo_resize_exact (c : Cfg) (s : St) (hw : WF s) :
    WF (resize c s) ∧ Placed c (resize c s) ∧ (resize c s).cap = 2 * s.cap ∧ size (resize c s) = size s
      ∧ ∀ k, (resize c s).elems.count k + (resizeLost c s).count k = s.elems.count k :=
  resizeG_spec c s hw.2.2

/-- C17 for CuckooSet::resize() under the room hypothesis -/
theorem C17_cuckoo_resize_preserves_partial (c : Cfg) (s : St) (hi : CInv c s) (hr : ResizeRoom c s) :
    (∀ k, contains c (resize c s) k = contains c s k) ∧ size (resize c s) = size s ∧ (resize c s).elems.Nodup
      ∧ (resize c s).elems.Perm s.elems ∧ CInv c (resize c s) ∧ (resize c s).cap = 2 * s.cap := by
  have e := resizeG_ext c s hi.wf
  rw [resizeRoom_lost hr] at e
  obtain ⟨-, -, hcap, hcount, -⟩ := resizeG_spec c s hi.wf.2.2
  have inv : CInv c (resize c s) := CInv_same hi e hcount
  have pm : (resizeG c s).1.elems.Perm s.elems := by simpa using e.perm
  refine ⟨fun k => ?_, hcount, inv.nodup, pm, inv, hcap⟩
  have a := contains_true_iff_cnt inv.placed k
  have b := contains_true_iff_cnt hi.placed k
  have := e.cnt k
  simp only [List.count_nil, Nat.add_zero] at this
  rw [Bool.eq_iff_iff, a, b]
  show 0 < cnt (resizeG c s).1 k ↔ _
  rw [this]

/-- the room hypothesis is exactly "nothing is lost" (threshold within the probe-set size, the constructor's precondition) -/
theorem C17_cuckoo_resize_room_iff (c : Cfg) (s : St) (ht : c.thr ≤ c.pset) : ResizeRoom c s ↔ resizeLost c s = [] :=
  resizeRoom_iff ht

/-- which keys disappear: exactly the ghost list -/
theorem C17_cuckoo_resize_lost_iff (c : Cfg) (s : St) (hi : CInv c s) (k : Int) :
    (contains c s k = true ∧ contains c (resize c s) k = false) ↔ k ∈ resizeLost c s := by
  obtain ⟨-, hp, -, -, he⟩ := resizeG_spec c s hi.wf.2.2
  have a := contains_true_iff_cnt hi.placed k
  have b := contains_false_iff_cnt hp k
  have c1 := cnt_le_one hi k
  have := he k
  show _ ∧ contains c (resizeG c s).1 k = false ↔ _
  rw [a, b, ← List.count_pos_iff]
  show _ ↔ 0 < (resizeG c s).2.count k
  omega

/-! the witness of the kept run of tools/props.py `c17`: hashes k % 3 and (k / 3) % 3, probe-set size 2, default
    threshold (1); the tables at the moment insert(1) calls resize() in operation 55, with the 252 empty probe sets
    beyond index 3 of each table cut off (the hashes are below 3) -/

def witnessCfg : Cfg := mkCfg 2 3 2 0

def witnessSt : St := { cap := 4, t0 := [[3, 6], [1], [2, 8], []], t1 := [[0, 9], [5, 4], [7], []], count := 10 }

theorem witnessSt_inv : CInv witnessCfg witnessSt := CInv_of_cinvB (by decide +kernel)

/-- resize() loses key 7 (both of its probe sets, table 0 [1] and table 1 [2], are full when its turn comes) and
    size() still says 10 -/
theorem C17_cuckoo_resize_can_drop :
    ∃ (c : Cfg) (s : St) (k : Int), CInv c s ∧ 1 ≤ c.thr ∧ c.thr < c.pset ∧ contains c s k = true
      ∧ contains c (resize c s) k = false ∧ size (resize c s) = size s ∧ resizeLost c s = [k] :=
  ⟨witnessCfg, witnessSt, 7, witnessSt_inv, by decide, by decide, by decide +kernel, by decide +kernel, by decide +kernel,
    by decide +kernel⟩

/-- the negation of the full statement of C17 for CuckooSet::resize() -/
theorem C17_cuckoo_resize_full_statement_false :
    ¬ (∀ (c : Cfg) (s : St), CInv c s → ∀ k, contains c (resize c s) k = contains c s k) := by
  intro h
  have := h witnessCfg witnessSt witnessSt_inv 7
  revert this
  decide +kernel

/-- insert / erase sequence of the harness on the model (`none`: an insert ran out of fuel) -/
def runOps (c : Cfg) (fuel : Nat) : St → List (Bool × Int) → Option St
  | s, [] => some s
  | s, (true, k) :: rest =>
    match insertLoop c fuel s k with
    | some r => runOps c fuel r.1 rest
    | none => none
  | s, (false, k) :: rest => runOps c fuel (erase c s k).1 rest

/-- the kept witness `explicit cuckoo_list 2 3 4 2 0 10 i3 e2 i1 … e1 i8 i1` of tools/props.py, operation by operation -/
def witnessOps : List (Bool × Int) :=
  [(true,3),(false,2),(true,1),(true,6),(false,0),(false,6),(true,7),(false,3),(true,8),(true,3),(true,3),(false,0),
   (false,7),(false,2),(true,9),(false,1),(true,2),(true,4),(true,5),(true,5),(true,1),(true,8),(true,1),(false,4),
   (true,8),(true,8),(true,3),(true,3),(true,1),(true,5),(true,4),(true,1),(false,8),(true,0),(true,8),(false,0),
   (true,1),(false,9),(true,1),(true,7),(true,6),(true,7),(true,9),(true,4),(false,9),(true,2),(true,8),(true,9),
   (false,1),(true,9),(true,0),(false,8),(true,5),(false,1),(true,8),(true,1)]

/-- the whole kept run from the empty set with 4 buckets: after the 56 operations the reference set is {0,…,9}, the model
    (like the real container: "key 7 lost after operation 55") does not find 7 and reports size 10 with 9 nodes linked -/
theorem C17_cuckoo_witness_run :
    (runOps witnessCfg 12 (initSt 4) witnessOps).map (fun s => (contains witnessCfg s 7, size s, s.elems.length,
      (List.range 10).map (fun q => contains witnessCfg s (Int.ofNat q))))
      = some (false, 10, 9, [true, true, true, true, true, true, true, false, true, true]) := by
  decide +kernel

/-! ### insert, erase, contains on states satisfying the invariant -/

theorem C17_cuckoo_empty_inv (c : Cfg) (init : Nat) : CInv c (initSt init) := by
  unfold initSt
  apply CInv_empty
  split
  · decide
  · unfold ceil2
    have : ∀ f p n, 0 < p → 0 < ceil2Aux f p n := by
      intro f
      induction f with
      | zero => intro p n h; exact h
      | succ f ih => intro p n h; unfold ceil2Aux; split; exact h; exact ih _ _ (by omega)
    exact this _ _ _ (by decide)

/-- contains() is membership among the linked nodes -/
theorem C17_cuckoo_contains_iff (c : Cfg) (s : St) (hi : CInv c s) (k : Int) : contains c s k = true ↔ k ∈ s.elems :=
  contains_iff hi.placed k

/-- erase(), no extra hypothesis -/
theorem C17_cuckoo_erase (c : Cfg) (s : St) (hi : CInv c s) (k : Int) :
    CInv c (erase c s k).1 ∧ (erase c s k).2 = contains c s k
      ∧ (∀ q, contains c (erase c s k).1 q = (contains c s q && decide (q ≠ k)))
      ∧ size (erase c s k).1 = size s - (if contains c s k then 1 else 0) ∧ (erase c s k).1.cap = s.cap := by
  cases hc : contains c s k
  · rw [erase_absent c s k hc]
    refine ⟨hi, rfl, fun q => ?_, by simp, rfl⟩
    by_cases e : q = k
    · subst e; simp [hc]
    · simp [e]
  · obtain ⟨r, e, n, cp⟩ := erase_present c s k hi.wf hc
    have inv := CInv_remove hi e n
    refine ⟨inv, r, fun q => ?_, by simpa [size] using n, cp⟩
    have a := contains_true_iff_cnt inv.placed q
    have b := contains_true_iff_cnt hi.placed q
    have one := cnt_le_one hi q
    have := e.cnt q
    simp only [List.count_nil, List.count_cons, beq_iff_eq, Nat.add_zero, Nat.zero_add] at this
    rw [Bool.eq_iff_iff, a, Bool.and_eq_true, b, decide_eq_true_eq]
    by_cases e' : k = q
    · subst e'; simp only [if_true] at this; simp; omega
    · simp only [e', if_false] at this
      have : q ≠ k := fun h => e' h.symm
      simp [this]; omega

/-- insert(), unconditional form: when the call returns, an absent key is reported inserted, size() grows by one, the
    tables stay well formed and well placed, and for every key: copies linked after + copies lost by the resizes of this
    call = copies linked before + (1 for the new key); a present key changes nothing -/
theorem C17_cuckoo_insert_exact (c : Cfg) (f : Nat) (s s' : St) (k : Int) (r : Bool) (lost : List Int) (hi : CInv c s)
    (h : insertLoop c f s k = some (s', r, lost)) :
    r = !contains c s k ∧ WF s' ∧ Placed c s'
      ∧ (contains c s k = true → s' = s ∧ lost = [])
      ∧ (contains c s k = false → size s' = size s + 1 ∧
          ∀ q, s'.elems.count q + lost.count q = s.elems.count q + (if k = q then 1 else 0)) := by
  cases hc : contains c s k
  · obtain ⟨a, e, n⟩ := insertLoop_absent c f s k _ hi.wf hi.placed hc h
    refine ⟨by simpa using a, e.wf, e.placed hi.placed, fun x => (by cases x), fun _ => ⟨n, fun q => ?_⟩⟩
    have := e.cnt q
    simpa [cnt, List.count_cons] using this
  · cases f with
    | zero => cases h
    | succ f =>
      rw [insertLoop_present c f s k hc] at h
      cases h
      exact ⟨rfl, hi.wf, hi.placed, fun _ => ⟨rfl, rfl⟩, fun x => (by cases x)⟩

/-- insert() law.  `_partial`: assumes that the call returns (`insertLoop … = some …`: CuckooSet::insert may double its
    tables for ever, known finding C17-cuckoo-endless-resize) and that its resizes lost nothing (`lost = []`: known finding
    C17-cuckoo-resize-drop; by `C17_cuckoo_resize_room_iff` this is the room hypothesis of every resize on the way) -/
theorem C17_cuckoo_insert_partial (c : Cfg) (f : Nat) (s s' : St) (k : Int) (r : Bool) (hi : CInv c s)
    (h : insertLoop c f s k = some (s', r, [])) :
    CInv c s' ∧ r = !contains c s k ∧ (∀ q, contains c s' q = (decide (q = k) || contains c s q))
      ∧ size s' = size s + (if contains c s k then 0 else 1) := by
  cases hc : contains c s k
  · obtain ⟨a, e, n⟩ := insertLoop_absent c f s k _ hi.wf hi.placed hc h
    have z := (contains_false_iff_cnt hi.placed k).mp hc
    have inv := CInv_add hi e z n
    refine ⟨inv, by simpa using a, fun q => ?_, by simpa [size] using n⟩
    have a := contains_true_iff_cnt inv.placed q
    have b := contains_true_iff_cnt hi.placed q
    have := e.cnt q
    simp only [List.count_nil, List.count_cons, beq_iff_eq, Nat.add_zero, Nat.zero_add] at this
    rw [Bool.eq_iff_iff, a, Bool.or_eq_true, b, decide_eq_true_eq]
    by_cases e' : k = q
    · subst e'; simp only [if_true] at this; simp; omega
    · simp only [e', if_false] at this
      have : q ≠ k := fun h => e' h.symm
      simp [this]; omega
  · cases f with
    | zero => cases h
    | succ f =>
      rw [insertLoop_present c f s k hc] at h
      cases h
      refine ⟨hi, rfl, fun q => ?_, by simp⟩
      by_cases e : q = k
      · subst e; simp [hc]
      · simp [e]

/-- a case in which the hypotheses of the insert law hold by construction: one of the two probe sets of an absent key
    is below the threshold - insert() links the key there and neither relocates nor resizes -/
theorem C17_cuckoo_insert_below_threshold (c : Cfg) (f : Nat) (s : St) (k : Int) (hc : contains c s k = false)
    (hr : (s.bucketOf c false k).length < c.thr ∨ (s.bucketOf c true k).length < c.thr) :
    ∃ s', insertLoop c (f + 1) s k = some (s', true, []) := by
  unfold insertLoop
  rw [if_neg (by simp [hc])]
  by_cases h0 : (s.bucketOf c false k).length < c.thr
  · rw [if_pos h0]; exact ⟨_, rfl⟩
  · rw [if_neg h0, if_pos (hr.resolve_left h0)]; exact ⟨_, rfl⟩

/-! ### the hypotheses are satisfiable on non-trivial states -/

/-- a state with room: 6 keys in tables of 2 buckets, identity and k * 16 hashes, probe-set size 4, threshold 2 -/
def roomCfg : Cfg := mkCfg 0 5 4 2
def roomSt : St := { cap := 2, t0 := [[0, 2], [1, 3]], t1 := [[4, 5], []], count := 6 }

example : CInv roomCfg roomSt := CInv_of_cinvB (by decide +kernel)
example : ResizeRoom roomCfg roomSt := by decide +kernel
/-- … and the conclusion of the resize theorem on it, computed: four buckets, nothing lost, the keys redistributed -/
example : resize roomCfg roomSt = { cap := 4, t0 := [[0, 4], [1, 5], [2], [3]], t1 := [[], [], [], []], count := 6 } := by
  decide +kernel
example : (∀ k, contains roomCfg (resize roomCfg roomSt) k = contains roomCfg roomSt k) ∧ size (resize roomCfg roomSt) = 6 :=
  let h := C17_cuckoo_resize_preserves_partial roomCfg roomSt (CInv_of_cinvB (by decide +kernel)) (by decide +kernel)
  ⟨h.1, h.2.1⟩
/-- the room hypothesis FAILS on the witness of the drop (it is not vacuous either way) -/
example : ¬ ResizeRoom witnessCfg witnessSt := by decide +kernel
/-- insert law: inserting 6 into `roomSt` (both probe sets at the threshold: the relocation fails, insert() resizes, nothing is lost) -/
example : insertLoop roomCfg 3 roomSt 6 =
    some ({ cap := 4, t0 := [[4, 0], [1, 5], [6, 2], [3]], t1 := [[], [], [], []], count := 7 }, true, []) := by decide +kernel
example : CInv roomCfg { cap := 4, t0 := [[4, 0], [1, 5], [6, 2], [3]], t1 := [[], [], [], []], count := 7 } :=
  (C17_cuckoo_insert_partial roomCfg 3 roomSt _ 6 true (CInv_of_cinvB (by decide +kernel)) (by decide +kernel)).1
/-- erase law on the witness state -/
example : (erase witnessCfg witnessSt 8).1 = { cap := 4, t0 := [[3, 6], [1], [2], []], t1 := [[0, 9], [5, 4], [7], []], count := 9 } := by
  decide +kernel
example : CInv witnessCfg (erase witnessCfg witnessSt 8).1 := (C17_cuckoo_erase witnessCfg witnessSt witnessSt_inv 8).1

/-! ### StripedSet -/

open CdsVerif.Algo.Cuckoo.StripedSeq in
/-- StripedSet's rehash (internal_resize into the doubled table), for EVERY hash function and every table with
    `cap > 0` buckets: the new table has `2 * cap` buckets and holds exactly the old keys (as a multiset: nothing lost,
    nothing duplicated), every key in the bucket `hash & (2 * cap - 1)`, every key found again by find(), item counter
    unchanged.  No hypothesis on the hash function, the load factor or the content. -/
theorem C17_striped_rehash_preserves (h : Int → Nat) (s : SSt) (hc : 0 < s.cap) :
    (rehash h s).bkt.length = 2 * s.cap ∧ (rehash h s).count = s.count
      ∧ (rehash h s).bkt.flatten.Perm s.bkt.flatten
      ∧ (∀ j k, k ∈ (rehash h s).bkt.getD j [] → idx (2 * s.cap) (h k) = j)
      ∧ (∀ k, scontains h (rehash h s) k = true ↔ k ∈ s.bkt.flatten) := by
  obtain ⟨a, b, c, d, e⟩ := rehash_spec h s hc
  refine ⟨a, c, e, d, fun k => ?_⟩
  rw [scontains_iff h (rehash h s) d k]
  exact e.mem_iff

open CdsVerif.Algo.Cuckoo.StripedSeq in
/-- a concrete rehash with the constant hash (family 1 of the harness): everything stays in one bucket, sorted -/
example : rehash (hfam 1) { cap := 2, bkt := [[], [2, 5, 9]], count := 3 }
    = { cap := 4, bkt := [[], [], [], [2, 5, 9]], count := 3 } := by decide +kernel

open CdsVerif.Algo.Cuckoo.StripedSeq in
/-- the insert that triggers it (load factor 1: 3 > 2 * 1) -/
example : sinsert (hfam 1) 1 { cap := 2, bkt := [[], [2, 9]], count := 2 } 5
    = ({ cap := 4, bkt := [[], [], [], [2, 5, 9]], count := 3 }, true) := by decide +kernel

end CdsVerif.Props

/-
  `SInv` holds in every reachable state; global consequences of the local clauses:
    * every published array node is reached from the head array by walking its prefix, and every array node reached by
      a walk is published (the structure is a tree);
    * a traversal from the head array along the hash of an item that sits in a slot of a published array node stops
      at that slot: the item is found, and no key is present twice;
    * what one step can do to a slot.
-/
import CdsVerif.Algo.Feldman.StepC
import CdsVerif.Algo.Feldman.StepD
namespace CdsVerif.Algo.Feldman
open CdsVerif.Machine CdsVerif.Spec CdsVerif.Lin

theorem sinv_step {c : Cfg} {s s' : St} {t : Tid} {ev : Ev} (hp : PathHyp c) (hcf : c.copyFirst = true)
    (h : SInv c s) (hs : step c s t = some (s', ev)) : SInv c s' := by
  cases hpc : s.pc t with
  | idle => simp [step, hpc] at hs
  | done r => simp [step, hpc] at hs
  | trav op a lvl => exact sinv_trav hp h hpc hs
  | prot1 op a lvl cl => exact sinv_prot1 h hpc hs
  | prot2 op a lvl cl x => exact sinv_prot2 h hpc hs
  | casIns op a lvl => exact sinv_casIns hp h hpc hs
  | casEra op a lvl n => exact sinv_casEra h hpc hs
  | casUpd op a lvl n => exact sinv_casUpd hp h hpc hs
  | xAlloc op a lvl n => exact sinv_xAlloc h hpc hs
  | xConv op a lvl n b => exact sinv_xConv hcf h hpc hs
  | xCopy op a lvl n b => exact sinv_xCopy hp hcf h hpc hs
  | xPub op a lvl n b => exact sinv_xPub hp hcf h hpc hs

theorem sinv_apply {c : Cfg} {s s' : St} {t : Tid} {a : Act} {o : Obs} (hp : PathHyp c) (hcf : c.copyFirst = true)
    (h : SInv c s) (hap : (model c).apply s t a = some (s', o)) : SInv c s' := by
  cases a with
  | invoke op =>
    simp only [Model.apply, model, Option.map_eq_some_iff] at hap
    obtain ⟨s1, hs1, heq⟩ := hap
    simp only [Prod.mk.injEq] at heq; obtain ⟨rfl, -⟩ := heq
    exact sinv_invoke hp h hs1
  | step =>
    simp only [Model.apply, model, Option.map_eq_some_iff] at hap
    obtain ⟨⟨s1, e⟩, hs1, heq⟩ := hap
    simp only [Prod.mk.injEq] at heq; obtain ⟨rfl, -⟩ := heq
    exact sinv_step hp hcf h hs1
  | ret =>
    simp only [Model.apply, model, Option.map_eq_some_iff] at hap
    obtain ⟨⟨s1, r⟩, hs1, heq⟩ := hap
    simp only [Prod.mk.injEq] at heq; obtain ⟨rfl, -⟩ := heq
    exact sinv_result h hs1

theorem reachable_sinv {c : Cfg} (hp : PathHyp c) (hcf : c.copyFirst = true) (s : St)
    (hr : (model c).Reachable init s) : SInv c s :=
  (model c).inv_reachable (SInv c) init (sinv_init c) (fun _ _ _ _ _ h hap => sinv_apply hp hcf h hap) s hr

/-! ### The tree -/

/-- a published array node is reached from the head array by walking its prefix -/
theorem walk_of_pub {c : Cfg} {s : St} (h : SInv c s) : ∀ (n a : Nat), a < n → Pub s a → walk s.cell 0 (s.pre a) = some a := by
  intro n
  induction n with
  | zero => intro a ha; omega
  | succ n ih =>
    intro a ha hpub
    rcases hpub with rfl | hc
    · rw [h.pre0]; rfl
    · have := h.arrp _ _ _ hc
      have hw := ih (s.par a) (by omega) this.2.2.2.2.2.1
      rw [this.2.2.1]
      exact walk_snoc s.cell _ _ _ _ _ hw hc

theorem walk_pub {c : Cfg} {s : St} (h : SInv c s) (a : Nat) (hpub : Pub s a) : walk s.cell 0 (s.pre a) = some a :=
  walk_of_pub h (a + 1) a (by omega) hpub

/-- conversely: what a walk from the head array reaches is published, and the walk is the node's prefix -/
theorem pub_of_walk {c : Cfg} {s : St} (h : SInv c s) (p : List Nat) (a : Nat) (hw : walk s.cell 0 p = some a) :
    Pub s a ∧ s.pre a = p := by
  refine ⟨?_, ?_⟩
  · rcases walk_published s.cell p 0 a hw with e | ⟨a', i, hc⟩
    · exact Or.inl e
    · have := h.arrp _ _ _ hc
      right; rw [this.1, this.2.1]; exact hc
  · have := walk_pre (fun a i b hc => (h.arrp a i b hc).2.2.1) p 0 a hw
    rw [this, h.pre0]; rfl

/-- The traversal along the hash of an item that sits in a slot of a published array node stops at that slot. -/
theorem stop_item {c : Cfg} {s : St} (h : SInv c s) (a i : Nat) (n : Node) (hpub : Pub s a)
    (hc : s.cell a i = .data n ∨ s.cell a i = .conv n) : stop s.cell 0 (c.path n.key) = some (a, i) := by
  have hpf := h.onp a i n hc
  have hw := walk_pub h a hpub
  rw [hpf.split]
  exact stop_at s.cell _ _ a i hw (by intro b hb; rcases hc with e | e <;> simp [e] at hb)

/-- … and finds it: nothing hides an item that is in the set. -/
theorem look_item {c : Cfg} {s : St} (h : SInv c s) (a i : Nat) (n : Node) (hpub : Pub s a)
    (hc : s.cell a i = .data n ∨ s.cell a i = .conv n) : look c s n.key = some n.val := by
  have hpf := h.onp a i n hc
  have hw := walk_pub h a hpub
  unfold look
  rw [hpf.split, go_at s.cell _ _ _ a i hw (by intro b hb; rcases hc with e | e <;> simp [e] at hb)]
  rcases hc with e | e <;> simp [e, leaf]

/-- no key twice: two slots of published array nodes that hold items with the same key are the same slot -/
theorem item_unique {c : Cfg} {s : St} (h : SInv c s) (a i a' i' : Nat) (n n' : Node) (hpub : Pub s a)
    (hpub' : Pub s a') (hc : s.cell a i = .data n ∨ s.cell a i = .conv n)
    (hc' : s.cell a' i' = .data n' ∨ s.cell a' i' = .conv n') (hk : n.key = n'.key) : a = a' ∧ i = i' ∧ n = n' := by
  have h1 := stop_item h a i n hpub hc
  have h2 := stop_item h a' i' n' hpub' hc'
  rw [hk, h2] at h1
  simp only [Option.some.injEq, Prod.mk.injEq] at h1
  obtain ⟨rfl, rfl⟩ := h1
  refine ⟨rfl, rfl, ?_⟩
  rcases hc with e | e <;> rcases hc' with e' | e' <;> (rw [e] at e'; simp at e'; try exact e')

/-- What `look` says comes from a slot: if the abstract map has `k ↦ v`, a slot of a published array node holds an
    item with key `k` and payload `v`. -/
theorem look_some {c : Cfg} {s : St} (h : SInv c s) (k v : Int) (hl : look c s k = some v) :
    ∃ a i n, Pub s a ∧ (s.cell a i = .data n ∨ s.cell a i = .conv n) ∧ n.key = k ∧ n.val = v := by
  -- generalise over the walk
  have key : ∀ (p : List Nat) (a0 : Nat), Pub s a0 → go s.cell k a0 p = some v →
      ∃ a i n, Pub s a ∧ (s.cell a i = .data n ∨ s.cell a i = .conv n) ∧ n.key = k ∧ n.val = v := by
    intro p
    induction p with
    | nil => intro a0 _ hg; simp [go] at hg
    | cons i p ih =>
      intro a0 hpub hg
      rw [go_cons] at hg
      cases hc : s.cell a0 i with
      | arr b =>
        simp only [hc] at hg
        have := h.arrp _ _ _ hc
        exact ih b (Or.inr (by rw [this.1, this.2.1]; exact hc)) hg
      | null => simp [hc, leaf] at hg
      | data n =>
        simp only [hc, leaf] at hg
        split at hg
        · next hk => simp at hg; exact ⟨a0, i, n, hpub, Or.inl hc, hk, hg⟩
        · simp at hg
      | conv n =>
        simp only [hc, leaf] at hg
        split at hg
        · next hk => simp at hg; exact ⟨a0, i, n, hpub, Or.inr hc, hk, hg⟩
        · simp at hg
  exact key _ 0 (Or.inl rfl) hl

/-- The position of an operation in progress is on the way of a traversal from the head array: the operation will
    find what a traversal started NOW at the head array would find. -/
theorem look_from_pos {c : Cfg} {s : St} (hp : PathHyp c) (h : SInv c s) (t : Tid) (op : Op) (a lvl : Nat)
    (hpo : posOf (s.pc t) = some (op, a, lvl)) :
    look c s (okey op) = go s.cell (okey op) a ((c.path (okey op)).drop lvl) ∧
      (c.path (okey op)).drop lvl = sl c (okey op) lvl :: (c.path (okey op)).drop (lvl + 1) := by
  have hpos := h.pos t op a lvl hpo
  have hw := walk_pub h a hpos.1
  rw [hpos.2.2.2] at hw
  refine ⟨?_, ?_⟩
  · unfold look
    conv => lhs; rw [← List.take_append_drop lvl (c.path (okey op))]
    exact go_split s.cell _ _ _ 0 a hw
  · have hlen : lvl < (c.path (okey op)).length := by rw [hp.len]; exact hpos.2.2.1
    rw [List.drop_eq_getElem_cons hlen]
    simp [sl, List.getD, List.getElem?_eq_getElem hlen]

end CdsVerif.Algo.Feldman

/-
  Linearizability of the StripedSet model (property C16, both mutex policies) with respect to the sequential map
  `Spec.map`.

  Linearization point of EVERY operation (insert, update, erase, find, contains; successful or not): its bucket step
  `bOp`, executed under the cell lock.  At that step the thread's result becomes fixed (`retOf`), the bucket
  `h key % capacity` evolves by `Spec.mapStep`, and — because every key lives in exactly that bucket (`SInv.place`, which
  rests on the lock discipline: the bucket index was computed from the CURRENT mask, `SInv.bidx`) — the abstract map
  `look` evolves by the same `Spec.map` transition (`bOp_refines`).  Every other step leaves the abstract map unchanged;
  for the rehash step this is `rehash_step` (no element lost or duplicated).

  The proof instruments a run with a ghost log: an entry is appended at every bucket step, between the invocation and
  the response of its operation, so the log is a legal sequential execution that respects real time, and the entries
  whose operation has returned are, up to permutation, the complete history of the run.
-/
import CdsVerif.Algo.Striped.Log
namespace CdsVerif.Algo.Striped
open CdsVerif.Machine CdsVerif.Spec CdsVerif.Lin

/-! ### What a step does to the program counter of its thread -/

theorem step_frame {cfg : Cfg} {s s' : St} {t : Tid} {ev : Ev} (hs : step cfg s t = some (s', ev)) :
    ∀ t2, t2 ≠ t → s'.pc t2 = s.pc t2 := by
  intro t2 ht
  cases hpc : s.pc t
  all_goals (simp only [step, hpc] at hs)
  all_goals (try (simp at hs; done))
  all_goals (try split at hs)
  all_goals (try (simp at hs; done))
  all_goals (simp at hs; obtain ⟨rfl, -⟩ := hs)
  all_goals (first | rfl | simp [upd, ht])

set_option maxHeartbeats 4000000 in
/-- The result is fixed at the bucket step and nowhere else; the operation is remembered until then. -/
theorem step_pc {cfg : Cfg} {s s' : St} {t : Tid} {ev : Ev} (hs : step cfg s t = some (s', ev)) :
    s.pc t ≠ .idle ∧ s'.pc t ≠ .idle ∧
    (∀ r, retOf (s.pc t) = some r → retOf (s'.pc t) = some r) ∧
    (retOf (s'.pc t) = none → opOf (s'.pc t) = opOf (s.pc t)) ∧
    (retOf (s.pc t) = none → ∀ r, retOf (s'.pc t) = some r → ∃ op g c b, s.pc t = .bOp op g c b) := by
  cases hpc : s.pc t
  all_goals (simp only [step, hpc] at hs)
  all_goals (try (simp at hs; done))
  all_goals (try split at hs)
  all_goals (try (simp at hs; done))
  all_goals (simp at hs; obtain ⟨rfl, -⟩ := hs)
  all_goals (try simp only [upd_same, afterUnl, afterResize])
  all_goals (repeat' split)
  all_goals (simp [retOf, opOf, hpc])

/-! ### Refinement: the bucket step is the `Spec.map` transition of the abstract map -/

/-- what the bucket step does -/
theorem bOp_step {cfg : Cfg} {s s' : St} {t : Tid} {ev : Ev} {op : GOp} {g c b : Nat}
    (hpc : s.pc t = .bOp op g c b) (hs : step cfg s t = some (s', ev)) :
    ∃ m' r, mapStep (s.bkt b) op = some (m', r) ∧ s'.bkt = upd s.bkt b m' ∧ s'.mask = s.mask ∧
      retOf (s'.pc t) = some r := by
  simp only [step, hpc] at hs
  split at hs
  · next m' r hm =>
    simp at hs; obtain ⟨rfl, -⟩ := hs
    refine ⟨m', r, hm, rfl, rfl, ?_⟩
    simp only [upd_same]
    split <;> simp [retOf]
  · simp at hs

/-- **The linearization point.**  In a state satisfying the invariant, the bucket step of thread `t` (operation `op`,
    result `r`) is the `Spec.map` transition `op ↦ r` on every sequential map that agrees with the table on all
    lookups, and the new table agrees with the new map. -/
theorem bOp_refines {cfg : Cfg} {s s' : St} {t : Tid} {ev : Ev} {op : GOp} {g c b : Nat} (h : SInv cfg s)
    (hpc : s.pc t = .bOp op g c b) (hs : step cfg s t = some (s', ev)) :
    ∃ r, retOf (s'.pc t) = some r ∧
      ∀ m : MapSt, (∀ k, mfind m k = look cfg s k) →
        ∃ m', Spec.map.next m op r = some m' ∧ ∀ k, mfind m' k = look cfg s' k := by
  obtain ⟨mb, r, hm, hbkt, hmask, hret⟩ := bOp_step hpc hs
  refine ⟨r, hret, ?_⟩
  intro m hag
  obtain ⟨k, hk⟩ := h.okop t op (by simp [hpc, opOf])
  have hkd := keyD_of_okey hk
  have hb := h.bidx t op g c b hpc
  rw [hkd] at hb
  have hko := okey_keyOf hk
  obtain ⟨e, heff, hfind_b⟩ := mapStep_effect _ _ _ _ k hko hm
  have hmk : mfind m k = mfind (s.bkt b) k := by rw [hag k, look, ← hb]
  obtain ⟨m', hstepm⟩ := effect_mapStep m op e r k hko (by rw [hmk]; exact heff)
  obtain ⟨e2, heff2, hfind_m⟩ := mapStep_effect _ _ _ _ k hko hstepm
  have he2 : e2 = e := by
    rw [hmk, heff] at heff2
    simp only [Option.some.injEq, Prod.mk.injEq] at heff2
    exact heff2.1.symm
  subst he2
  refine ⟨m', (map_next_iff _ _ _ _).mpr hstepm, ?_⟩
  intro k'
  rw [hfind_m k', look, hbkt, hmask]
  by_cases hh : cfg.h k' % (s.mask + 1) = b
  · simp only [hh, upd_same]
    rw [hfind_b k', hmk]
    by_cases hkk : k = k'
    · simp [hkk]
    · simp only [if_neg hkk]
      have := hag k'
      rw [look, hh] at this
      exact this
  · have hkk : ¬ k = k' := by intro hkk; subst hkk; exact hh hb.symm
    simp only [if_neg hkk, upd, if_neg hh]
    exact hag k'

/-- Every step that is not a bucket step leaves every lookup unchanged (for the rehash: `rehash_step`). -/
theorem other_step_look {cfg : Cfg} {s s' : St} {t : Tid} {ev : Ev} (h : SInv cfg s)
    (hs : step cfg s t = some (s', ev)) (hn : ∀ op g c b, s.pc t ≠ .bOp op g c b) :
    ∀ k, look cfg s' k = look cfg s k := by
  by_cases hz : ∃ r old oc, s.pc t = .zMask r old oc
  · obtain ⟨r, old, oc, hpc⟩ := hz
    exact (rehash_step h hpc hs).2.1
  · have := table_frame hs hn (fun r old oc hpc => hz ⟨r, old, oc, hpc⟩)
    intro k
    simp only [look, this.1, this.2]

/-! ### Instrumented runs -/

structure GSt where
  s : St
  clock : Nat                          -- number of actions so far = index of the next observation
  pend : Pend
  hist : List (OpRec GOp GRet)         -- records of the operations that have returned, in order of return
  log : List LE                        -- operations that have passed their linearization point, in that order

def ginit (cfg : Cfg) : GSt := ⟨init cfg, 0, fun _ => none, [], []⟩

/-- Ghost update for the action of thread `t` that leads to model state `s'` with observation `o`. -/
def gnext (g : GSt) (t : Tid) (s' : St) : Obs → GSt
  | .call op =>
    { g with s := s', clock := g.clock + 1, pend := upd g.pend t (some (op, g.clock)) }
  | .ev _ =>
    { g with
      s := s', clock := g.clock + 1,
      log := match retOf (g.s.pc t), retOf (s'.pc t), g.pend t with
        | none, some r, some (op, k) => g.log ++ [⟨t, op, r, k, none⟩]     -- linearization point
        | _, _, _ => g.log }
  | .ret r =>
    match g.pend t with
    | some (op, k) =>
      { s := s', clock := g.clock + 1, pend := upd g.pend t none,
        hist := g.hist ++ [⟨t, op, r, k, g.clock⟩], log := g.log.map (LE.close t g.clock) }
    | none => { g with s := s', clock := g.clock + 1 }

structure GI (cfg : Cfg) (g : GSt) : Prop where
  spec : ∃ m, runSpec [] g.log = some m ∧ ∀ k, mfind m k = look cfg g.s k
  invlt : ∀ e, e ∈ g.log → e.inv < g.clock
  rt : g.log.Pairwise (fun a b => ∀ r, b.res = some r → a.inv ≤ r)
  comp : (completed g.log).Perm g.hist
  pendlt : ∀ t op k, g.pend t = some (op, k) → k < g.clock
  pre : ∀ t op, opOf (g.s.pc t) = some op → ∃ k, g.pend t = some (op, k)
  preopen : ∀ t, retOf (g.s.pc t) = none → openOf t g.log = []
  post : ∀ t r, retOf (g.s.pc t) = some r →
    ∃ op k, g.pend t = some (op, k) ∧ openOf t g.log = [⟨t, op, r, k, none⟩]
  idle : ∀ t, g.s.pc t = .idle → g.pend t = none

def GInv (cfg : Cfg) (g : GSt) : Prop := SInv cfg g.s ∧ GI cfg g

theorem ginv_init (cfg : Cfg) : GInv cfg (ginit cfg) := by
  refine ⟨sinv_init cfg, ?_⟩
  constructor <;> simp [ginit, init, runSpec, completed, opOf, retOf, openOf, look, mfind]

theorem ginv_invoke {cfg : Cfg} {g : GSt} {t : Tid} {op : GOp} {s' : St} (h : GInv cfg g)
    (hs : invoke cfg g.s t op = some s') : GInv cfg (gnext g t s' (.call op)) := by
  obtain ⟨hl, hg⟩ := h
  refine ⟨sinv_invoke hl hs, ?_⟩
  obtain ⟨hspec, hinvlt, hrt, hcomp, hpendlt, hpre, hpreopen, hpost, hidle⟩ := hg
  -- what `invoke` does
  have hinv : g.s.pc t = .idle ∧ ∃ pc', s' = { g.s with pc := upd g.s.pc t pc' } ∧ opOf pc' = some op ∧ retOf pc' = none := by
    unfold invoke at hs
    split at hs
    · next k hidle hk =>
      simp at hs; subst hs
      refine ⟨hidle, _, rfl, ?_⟩
      split <;> simp [opOf, retOf]
    · simp at hs
  obtain ⟨hwas, pc', rfl, hop', hret'⟩ := hinv
  have hpw : retOf (g.s.pc t) = none := by simp [hwas, retOf]
  constructor
  · obtain ⟨m, hm1, hm2⟩ := hspec
    exact ⟨m, hm1, hm2⟩
  · intro e he; have := hinvlt e he; simp only [gnext]; omega
  · exact hrt
  · exact hcomp
  · intro t2 op2 k; simp only [gnext, upd]; intro h
    split at h
    · simp at h; omega
    · have := hpendlt t2 op2 k h; omega
  · intro t2 op2; simp only [gnext]
    by_cases ht : t2 = t
    · subst ht; simp only [upd_same, hop']; intro h; simp at h; subst h; exact ⟨g.clock, rfl⟩
    · simp only [upd, if_neg ht]; exact hpre t2 op2
  · intro t2; simp only [gnext]
    by_cases ht : t2 = t
    · subst ht; intro _; exact hpreopen t2 hpw
    · simp only [upd, if_neg ht]; exact hpreopen t2
  · intro t2 r; simp only [gnext]
    by_cases ht : t2 = t
    · subst ht; simp only [upd_same, hret']; intro h; simp at h
    · simp only [upd, if_neg ht]; exact hpost t2 r
  · intro t2; simp only [gnext]
    by_cases ht : t2 = t
    · subst ht; simp only [upd_same]; intro h; rw [h] at hop'; simp [opOf] at hop'
    · simp only [upd, if_neg ht]; exact hidle t2

theorem ginv_result {cfg : Cfg} {g : GSt} {t : Tid} {r : GRet} {s' : St} (h : GInv cfg g)
    (hs : result g.s t = some (s', r)) : GInv cfg (gnext g t s' (.ret r)) := by
  obtain ⟨hl, hg⟩ := h
  refine ⟨by rw [show (gnext g t s' (.ret r)).s = s' by simp only [gnext]; split <;> rfl]; exact sinv_result hl hs, ?_⟩
  obtain ⟨hspec, hinvlt, hrt, hcomp, hpendlt, hpre, hpreopen, hpost, hidle⟩ := hg
  have hres : g.s.pc t = .done r ∧ s' = { g.s with pc := upd g.s.pc t .idle } := by
    unfold result at hs
    split at hs
    · next r' hd => simp at hs; obtain ⟨rfl, rfl⟩ := hs; exact ⟨hd, rfl⟩
    · simp at hs
  obtain ⟨hdone, rfl⟩ := hres
  obtain ⟨op, k, hp, hopen⟩ := hpost t r (by simp [hdone, retOf])
  have hcl : ∀ e, (LE.close t g.clock e).inv = e.inv := by intro e; unfold LE.close; split <;> rfl
  simp only [gnext, hp]
  constructor <;> dsimp only
  · obtain ⟨m, hm1, hm2⟩ := hspec
    exact ⟨m, by rw [runSpec_close]; exact hm1, hm2⟩
  · intro e he
    obtain ⟨e0, he0, rfl⟩ := List.mem_map.mp he
    have := hinvlt e0 he0; rw [hcl]; omega
  · rw [List.pairwise_map]
    refine List.Pairwise.imp_of_mem ?_ hrt
    intro a b ha hb hab r' hr'
    rw [hcl]
    unfold LE.close at hr'
    split at hr'
    · simp at hr'; have := hinvlt a ha; omega
    · exact hab r' hr'
  · refine (completed_close t g.clock g.log).trans ?_
    rw [hopen]
    exact List.Perm.append_right _ hcomp
  · intro t2 op2 k2 h
    simp only [upd] at h
    split at h
    · simp at h
    · have := hpendlt t2 op2 k2 h; omega
  · intro t2 op2
    by_cases ht : t2 = t
    · subst ht; simp [opOf]
    · simp only [upd, if_neg ht]; intro h
      obtain ⟨k2, hk⟩ := hpre t2 op2 h
      exact ⟨k2, hk⟩
  · intro t2
    by_cases ht : t2 = t
    · subst ht; intro _; exact openOf_close_same _ _ _
    · simp only [upd, if_neg ht]; rw [openOf_close_other _ _ _ ht]; exact hpreopen t2
  · intro t2 r2
    by_cases ht : t2 = t
    · subst ht; simp [retOf]
    · simp only [upd, if_neg ht]; rw [openOf_close_other _ _ _ ht]; exact hpost t2 r2
  · intro t2
    by_cases ht : t2 = t
    · subst ht; intro _; simp [upd]
    · simp only [upd, if_neg ht]; exact hidle t2

theorem ginv_step {cfg : Cfg} (hre : cfg.recheck = true) {g : GSt} {t : Tid} {ev : Ev} {s' : St} (h : GInv cfg g)
    (hs : step cfg g.s t = some (s', ev)) : GInv cfg (gnext g t s' (.ev ev)) := by
  obtain ⟨hl, hg⟩ := h
  refine ⟨sinv_step hre hl hs, ?_⟩
  obtain ⟨hspec, hinvlt, hrt, hcomp, hpendlt, hpre, hpreopen, hpost, hidle⟩ := hg
  have hframe := step_frame hs
  obtain ⟨hbusy1, hbusy2, hkeep, hopk, hlponly⟩ := step_pc hs
  obtain ⟨m, hm1, hm2⟩ := hspec
  have hpre' : ∀ op2, opOf (s'.pc t) = some op2 → ∃ k, g.pend t = some (op2, k) := by
    intro op2 ho
    cases hr : retOf (s'.pc t) with
    | none => rw [hopk hr] at ho; exact hpre t op2 ho
    | some r => revert ho hr; cases s'.pc t <;> simp [opOf, retOf]
  by_cases hLP : retOf (g.s.pc t) = none ∧ ∃ r, retOf (s'.pc t) = some r
  · -- the bucket step: linearization point
    obtain ⟨h1, r, h2⟩ := hLP
    obtain ⟨op, gg, c, b, hpc⟩ := hlponly h1 r h2
    obtain ⟨r', hr', hnext⟩ := bOp_refines hl hpc hs
    have hrr : r' = r := by rw [h2] at hr'; injection hr' with e; exact e.symm
    subst hrr
    obtain ⟨k, hk⟩ := hpre t op (by simp [hpc, opOf])
    obtain ⟨m', hm1', hm2'⟩ := hnext m hm2
    have hlog : (gnext g t s' (.ev ev)).log = g.log ++ [⟨t, op, r', k, none⟩] := by
      simp only [gnext, h1, h2, hk]
    constructor
    · refine ⟨m', ?_, by simpa only [gnext] using hm2'⟩
      rw [hlog, runSpec_append, hm1]
      simp only [Option.bind_some, runSpec, hm1']
    · rw [hlog]; intro e he
      simp only [gnext]
      rcases List.mem_append.mp he with h | h
      · have := hinvlt e h; omega
      · simp at h; subst h; have := hpendlt t op k hk; simp only; omega
    · rw [hlog, List.pairwise_append]
      refine ⟨hrt, by simp, ?_⟩
      intro a _ b hb r'' hr''
      simp at hb; subst hb; simp at hr''
    · rw [hlog]
      simp only [completed, List.filterMap_append, gnext] at hcomp ⊢
      have : List.filterMap LE.done? [(⟨t, op, r', k, none⟩ : LE)] = [] := by simp [LE.done?]
      rw [this, List.append_nil]; exact hcomp
    · intro t2 op2 k2 h
      simp only [gnext] at h ⊢
      have := hpendlt t2 op2 k2 h; omega
    · intro t2 op2
      simp only [gnext]
      by_cases ht : t2 = t
      · subst ht; exact hpre' op2
      · rw [hframe t2 ht]; exact hpre t2 op2
    · intro t2
      rw [hlog]; simp only [gnext]
      by_cases ht : t2 = t
      · subst ht; rw [h2]; simp
      · rw [hframe t2 ht, openOf_append]; intro h
        rw [hpreopen t2 h]
        have : t ≠ t2 := fun e => ht e.symm
        simp [openOf, this]
    · intro t2 r2
      rw [hlog]; simp only [gnext]
      by_cases ht : t2 = t
      · subst ht; rw [h2]; intro h; simp at h; subst h
        refine ⟨op, k, hk, ?_⟩
        rw [openOf_append, hpreopen t2 h1]
        simp [openOf]
      · rw [hframe t2 ht, openOf_append]; intro h
        obtain ⟨op2, k2, h3, h4⟩ := hpost t2 r2 h
        refine ⟨op2, k2, h3, ?_⟩
        rw [h4]
        have : t ≠ t2 := fun e => ht e.symm
        simp [openOf, this]
    · intro t2
      simp only [gnext]
      by_cases ht : t2 = t
      · subst ht; intro h; exact absurd h hbusy2
      · rw [hframe t2 ht]; exact hidle t2
  · -- any other step: the thread's linearization status and the abstract map are unchanged
    have hEq : retOf (s'.pc t) = retOf (g.s.pc t) := by
      cases h1 : retOf (g.s.pc t) with
      | none =>
        cases h2 : retOf (s'.pc t) with
        | none => rfl
        | some r => exact absurd ⟨h1, r, h2⟩ hLP
      | some r => exact hkeep r h1
    have hnb : ∀ op gg c b, g.s.pc t ≠ .bOp op gg c b := by
      intro op gg c b hpc
      obtain ⟨r, hr, -⟩ := bOp_refines hl hpc hs
      exact hLP ⟨by simp [hpc, retOf], r, hr⟩
    have hlook := other_step_look hl hs hnb
    have hlog : (gnext g t s' (.ev ev)).log = g.log := by
      simp only [gnext]
      split
      next h1 h2 _ => exact absurd ⟨h1, _, h2⟩ hLP
      next => rfl
    constructor
    · exact ⟨m, by rw [hlog]; exact hm1, fun k => (hm2 k).trans (by simpa only [gnext] using (hlook k).symm)⟩
    · rw [hlog]; intro e he; have := hinvlt e he; simp only [gnext]; omega
    · rw [hlog]; exact hrt
    · rw [hlog]; exact hcomp
    · intro t2 op2 k2 h
      simp only [gnext] at h ⊢
      have := hpendlt t2 op2 k2 h; omega
    · intro t2 op2
      simp only [gnext]
      by_cases ht : t2 = t
      · subst ht; exact hpre' op2
      · rw [hframe t2 ht]; exact hpre t2 op2
    · intro t2
      rw [hlog]; simp only [gnext]
      by_cases ht : t2 = t
      · subst ht; rw [hEq]; exact hpreopen t2
      · rw [hframe t2 ht]; exact hpreopen t2
    · intro t2 r2
      rw [hlog]; simp only [gnext]
      by_cases ht : t2 = t
      · subst ht; rw [hEq]; exact hpost t2 r2
      · rw [hframe t2 ht]; exact hpost t2 r2
    · intro t2
      simp only [gnext]
      by_cases ht : t2 = t
      · subst ht; intro h; exact absurd h hbusy2
      · rw [hframe t2 ht]; exact hidle t2

theorem gnext_s (g : GSt) (t : Tid) (s' : St) (o : Obs) : (gnext g t s' o).s = s' := by
  cases o <;> simp only [gnext]
  split <;> rfl

theorem gnext_clock (g : GSt) (t : Tid) (s' : St) (o : Obs) : (gnext g t s' o).clock = g.clock + 1 := by
  cases o <;> simp only [gnext]
  split <;> rfl

theorem gnext_hist (g : GSt) (t : Tid) (s' : St) (o : Obs) (os : List (Tid × Obs)) :
    (gnext g t s' o).hist ++ histAux (g.clock + 1) (gnext g t s' o).pend os
      = g.hist ++ histAux g.clock g.pend ((t, o) :: os) := by
  cases o with
  | call op => simp only [gnext, histAux]
  | ev e => simp only [gnext, histAux]
  | ret r =>
    simp only [gnext, histAux]
    cases hp : g.pend t with
    | none => simp only
    | some p => obtain ⟨op, k⟩ := p; simp only [List.append_assoc, List.singleton_append]

theorem gnext_pend (g : GSt) (t : Tid) (s' : St) (o : Obs) (os : List (Tid × Obs)) :
    pendAux (g.clock + 1) (gnext g t s' o).pend os = pendAux g.clock g.pend ((t, o) :: os) := by
  cases o with
  | call op => simp only [gnext, pendAux]
  | ev e => simp only [gnext, pendAux]
  | ret r =>
    simp only [gnext, pendAux]
    cases hp : g.pend t with
    | none => simp only
    | some p => obtain ⟨op, k⟩ := p; simp only

theorem ginv_apply {cfg : Cfg} (hre : cfg.recheck = true) {g : GSt} {t : Tid} {a : Act} {s' : St} {o : Obs}
    (h : GInv cfg g) (hap : (model cfg).apply g.s t a = some (s', o)) : GInv cfg (gnext g t s' o) := by
  cases a with
  | invoke op =>
    simp only [Model.apply, model, Option.map_eq_some_iff] at hap
    obtain ⟨s1, hs1, heq⟩ := hap
    simp only [Prod.mk.injEq] at heq
    obtain ⟨rfl, rfl⟩ := heq
    exact ginv_invoke h hs1
  | step =>
    simp only [Model.apply, model, Option.map_eq_some_iff] at hap
    obtain ⟨⟨s1, e⟩, hs1, heq⟩ := hap
    simp only [Prod.mk.injEq] at heq
    obtain ⟨rfl, rfl⟩ := heq
    exact ginv_step hre h hs1
  | ret =>
    simp only [Model.apply, model, Option.map_eq_some_iff] at hap
    obtain ⟨⟨s1, r⟩, hs1, heq⟩ := hap
    simp only [Prod.mk.injEq] at heq
    obtain ⟨rfl, rfl⟩ := heq
    exact ginv_result h hs1

/-- Every run of the model lifts to an instrumented run. -/
theorem run_ghost {cfg : Cfg} (hre : cfg.recheck = true) :
    ∀ (sched : List (Tid × Act)) (g : GSt) (s' : St) (os : List (Tid × Obs)),
    GInv cfg g → (model cfg).run g.s sched = some (s', os) →
    ∃ g', GInv cfg g' ∧ g'.s = s' ∧ g'.hist = g.hist ++ histAux g.clock g.pend os ∧
      g'.pend = pendAux g.clock g.pend os ∧ g'.clock = g.clock + os.length := by
  intro sched
  induction sched with
  | nil =>
    intro g s' os hg hr
    simp [Model.run] at hr
    obtain ⟨rfl, rfl⟩ := hr
    exact ⟨g, hg, rfl, by simp [histAux], by simp [pendAux], by simp⟩
  | cons x rest ih =>
    intro g s' os hg hr
    obtain ⟨t, a⟩ := x
    simp only [Model.run] at hr
    cases hap : (model cfg).apply g.s t a with
    | none => simp [hap] at hr
    | some p =>
      obtain ⟨s1, o⟩ := p
      simp only [hap] at hr
      cases hrr : (model cfg).run s1 rest with
      | none => simp [hrr] at hr
      | some q =>
        obtain ⟨s2, os2⟩ := q
        simp only [hrr, Option.some.injEq, Prod.mk.injEq] at hr
        obtain ⟨rfl, rfl⟩ := hr
        have hg1 := ginv_apply hre hg hap
        have hrr' : (model cfg).run (gnext g t s1 o).s rest = some (s2, os2) := by rw [gnext_s]; exact hrr
        obtain ⟨g', hg', hs', hh, hp, hc⟩ := ih (gnext g t s1 o) s2 os2 hg1 hrr'
        refine ⟨g', hg', hs', ?_, ?_, ?_⟩
        · rw [hh, gnext_clock, gnext_hist]
        · rw [hp, gnext_clock, gnext_pend]
        · rw [hc, gnext_clock]; simp; omega

/-! ### From the ghost invariant to linearizability -/

/-- The linearization extracted from the ghost log: the completed operations plus the pending operations that have
    performed their bucket step. -/
theorem ginv_linearizable {cfg : Cfg} {g : GSt} (h : GInv cfg g) :
    Linearizable Spec.map (g.hist ++ (openAll g.log).map (LE.fin g.clock)) ∧
    (∀ e ∈ (openAll g.log).map (LE.fin g.clock),
        g.pend e.tid = some (e.op, e.inv) ∧ e.res = g.clock ∧ retOf (g.s.pc e.tid) = some e.ret) ∧
    ((openAll g.log).map (LE.fin g.clock)).Pairwise (fun a b => a.tid ≠ b.tid) := by
  obtain ⟨-, hg⟩ := h
  obtain ⟨hspec, hinvlt, hrt, hcomp, hpendlt, hpre, hpreopen, hpost, hidle⟩ := hg
  obtain ⟨m, hm1, -⟩ := hspec
  refine ⟨⟨g.log.map (LE.fin g.clock), ?_, ?_, ?_⟩, ?_, ?_⟩
  · exact (completed_openAll_perm g.clock g.log).symm.trans (List.Perm.append_right _ hcomp)
  · unfold RespectsRT
    rw [List.pairwise_map]
    refine List.Pairwise.imp_of_mem ?_ hrt
    intro a b ha _ hab
    simp only [LE.fin]
    cases hr : b.res with
    | none => have := hinvlt a ha; simp; omega
    | some r => have := hab r hr; simp; omega
  · exact legal_of_runSpec g.clock g.log [] _ hm1
  · intro e' he'
    obtain ⟨e, he, rfl⟩ := List.mem_map.mp he'
    have he2 := List.mem_filter.mp he
    have hr : e.res = none := by cases h : e.res <;> simp_all
    have hmem : e ∈ openOf e.tid g.log := by
      simp only [openOf, List.mem_filter]; exact ⟨he2.1, by simp [hr]⟩
    cases hp : retOf (g.s.pc e.tid) with
    | none => rw [hpreopen e.tid hp] at hmem; simp at hmem
    | some r =>
      obtain ⟨op, k, h1, h2⟩ := hpost e.tid r hp
      rw [h2] at hmem
      simp at hmem
      have e1 : e.op = op := by rw [hmem]
      have e2 : e.inv = k := by rw [hmem]
      have e3 : e.ret = r := by rw [hmem]
      simp [LE.fin, hr, h1, e1, e2, e3, hp]
  · rw [List.pairwise_map]
    refine openAll_pairwise g.log ?_
    intro t
    cases hp : retOf (g.s.pc t) with
    | none => rw [hpreopen t hp]; simp
    | some r => obtain ⟨op, k, -, h2⟩ := hpost t r hp; rw [h2]; simp

/-! ### Main theorems -/

theorem run_ghost_init {cfg : Cfg} (hre : cfg.recheck = true) {sched : List (Tid × Act)} {s : St}
    {os : List (Tid × Obs)} (h : (model cfg).run (init cfg) sched = some (s, os)) :
    ∃ g, GInv cfg g ∧ g.s = s ∧ g.hist = historyOf os ∧ g.pend = pendingOf os ∧ g.clock = os.length := by
  obtain ⟨g, hg, h1, h2, h3, h4⟩ := run_ghost hre sched (ginit cfg) s os (ginv_init cfg) h
  exact ⟨g, hg, h1, by simpa [ginit, historyOf] using h2, by simpa [ginit, pendingOf] using h3,
    by simpa [ginit] using h4⟩

/-- **Linearizability of StripedSet** (Herlihy–Wing, with completion of pending operations), both mutex policies.
    For every run of the model, the history of the completed operations, extended by response records `extra` for
    the operations still pending at the end that have performed their bucket step (they get the result fixed there and
    the response time "end of the run"; at most one per thread), is linearizable to the sequential map.  Pending
    operations that have not reached their bucket step are dropped. -/
theorem striped_linearizable (cfg : Cfg) (hre : cfg.recheck = true) (sched : List (Tid × Act)) (s : St)
    (os : List (Tid × Obs)) (h : (model cfg).run (init cfg) sched = some (s, os)) :
    ∃ extra : List (OpRec GOp GRet),
      (∀ e ∈ extra, pendingOf os e.tid = some (e.op, e.inv) ∧ e.res = os.length ∧
          retOf (s.pc e.tid) = some e.ret) ∧
      extra.Pairwise (fun a b => a.tid ≠ b.tid) ∧
      Linearizable Spec.map (historyOf os ++ extra) := by
  obtain ⟨g, hg, rfl, h2, h3, h4⟩ := run_ghost_init hre h
  obtain ⟨hlin, hex, hpw⟩ := ginv_linearizable hg
  rw [h2, h3, h4] at *
  exact ⟨_, hex, hpw, hlin⟩

/-- Runs at whose end no thread is between its bucket step and its return. -/
theorem striped_linearizable_no_effect_pending (cfg : Cfg) (hre : cfg.recheck = true) (sched : List (Tid × Act))
    (s : St) (os : List (Tid × Obs)) (h : (model cfg).run (init cfg) sched = some (s, os))
    (hq : ∀ t, retOf (s.pc t) = none) : Linearizable Spec.map (historyOf os) := by
  obtain ⟨extra, hex, -, hlin⟩ := striped_linearizable cfg hre sched s os h
  have : extra = [] := by
    apply List.eq_nil_iff_forall_not_mem.mpr
    intro e he
    have := (hex e he).2.2
    rw [hq] at this; simp at this
  simpa [this] using hlin

/-- Runs in which every invoked operation has returned. -/
theorem striped_linearizable_complete_runs (cfg : Cfg) (hre : cfg.recheck = true) (sched : List (Tid × Act))
    (s : St) (os : List (Tid × Obs)) (h : (model cfg).run (init cfg) sched = some (s, os))
    (hq : ∀ t, s.pc t = .idle) : Linearizable Spec.map (historyOf os) :=
  striped_linearizable_no_effect_pending cfg hre sched s os h (fun t => by simp [hq t, retOf])

end CdsVerif.Algo.Striped

#!/usr/bin/env python3
"""cxx2lean: translate whitelisted pure integer functions of libcds to Lean 4 definitions.

Input: clang-14's JSON AST (types and every implicit conversion are explicit there).
Output: one Lean `def` per function over `BitVec w` / `Bool`, plus a companion `<name>_ub : Bool`
that is true when the C++ evaluation would shift by >= the width of the (promoted) left operand.
Value semantics of such a shift is x86's (count masked to the operand width).

Supported subset (anything else aborts the translation of that function with an error that
names the construct): integer/bool literals, parameters and locals of integer type, unary ~ ! - +,
binary & | ^ << >> + - * / % == != < <= > >= && ||, ?:, compound assignment, ++/-- statements,
integral / boolean conversions, C-style / static / functional casts, constant tables (static const
arrays with an initializer list) and subscripts on them, if / if-else, return, calls to other
translated functions, `*p` on an in/out pointer parameter, `.load(...)` on an atomic data member
(becomes an extra input parameter named after the member).
"""
import hashlib
import re
import json
import os
import subprocess
import sys

INT_TYPES = {
    "bool": ("bool", False),
    "char": (8, True), "signed char": (8, True), "unsigned char": (8, False),
    "short": (16, True), "unsigned short": (16, False),
    "int": (32, True), "unsigned int": (32, False),
    "long": (64, True), "unsigned long": (64, False),
    "long long": (64, True), "unsigned long long": (64, False),
}


class Unsupported(Exception):
    pass


def ctype(node_or_type):
    t = node_or_type.get("type", node_or_type) if isinstance(node_or_type, dict) else node_or_type
    q = t.get("desugaredQualType", t.get("qualType", ""))
    q = q.replace("const ", "").replace(" const", "").replace("volatile ", "").strip()
    if q.endswith("&"):
        q = q[:-1].strip()
    if q in INT_TYPES:
        return INT_TYPES[q]
    # typedef names that clang did not desugar
    alias = {"uint8_t": (8, False), "uint16_t": (16, False), "uint32_t": (32, False), "uint64_t": (64, False),
             "size_t": (64, False), "std::size_t": (64, False), "int32_t": (32, True), "int64_t": (64, True),
             "uintptr_t": (64, False), "TUInt": None}
    if q in alias and alias[q]:
        return alias[q]
    raise Unsupported("type " + q)


def lean_ty(t):
    return "Bool" if t[0] == "bool" else "BitVec %d" % t[0]


def parse_ast_stream(text):
    dec = json.JSONDecoder()
    i = 0
    objs = []
    n = len(text)
    while i < n:
        while i < n and text[i] in " \n\r\t":
            i += 1
        if i >= n:
            break
        o, j = dec.raw_decode(text, i)
        objs.append(o)
        i = j
    return objs


def clang_ast(tu_text, filt, repo, extra_flags=()):
    cmd = ["clang++-14", "-std=gnu++14", "-fsyntax-only", "-DNDEBUG", "-w", "-I" + repo, "-x", "c++", "-",
           "-Xclang", "-ast-dump=json", "-Xclang", "-ast-dump-filter=" + filt] + list(extra_flags)
    p = subprocess.run(cmd, input=tu_text, capture_output=True, text=True, timeout=300)
    if p.returncode != 0:
        raise Unsupported("clang failed: " + p.stderr[-800:])
    return parse_ast_stream(p.stdout)


def walk(n):
    yield n
    for c in n.get("inner", []) or []:
        if isinstance(c, dict):
            yield from walk(c)


class Tr:
    """Translator of one function body."""

    def __init__(self, leanname, callmap, tables):
        self.name = leanname
        self.callmap = callmap      # (cxx name, type string) or cxx name -> lean name
        self.tables = tables        # decl id -> (lean table name, elem type)
        self.env = {}               # decl id -> (lean var name, type)
        self.ver = {}
        self.ub = []                # list of Bool expressions (already guarded)
        self.guard = []             # stack of guard expressions
        self.extra_params = []      # (name, type) for atomic member loads
        self.new_tables = []        # (lean name, elem type, values)
        self.inout = {}             # decl id of pointer param -> pointee decl key
        self.this_fields = []       # (param name, type, env key) of data members read or written through `this`
        self.this_written = []
        self.ret_this = []          # this-fields returned (fixed before the pass that emits text)
        self.structs = {}           # decl id of a local of record type -> ordered list of (field, env key)
        self.ubmode = False         # second pass: compute the UB flag instead of the value
        self.pending = []           # UB conditions raised by the expression being translated

    # ---- helpers
    def fresh(self, base):
        k = self.ver.get(base, 0)
        self.ver[base] = k + 1
        return base if k == 0 else "%s_%d" % (base, k)

    def lit(self, v, t):
        if t[0] == "bool":
            return "true" if v else "false"
        return "(%d#%d)" % (v % (1 << t[0]), t[0])

    def cast(self, e, frm, to):
        if frm == to:
            return e
        m = re.fullmatch(r"\((\d+)#(\d+)\)", e)
        if m and frm[0] != "bool" and to[0] != "bool":
            v = int(m.group(1))
            if frm[1] and v >= (1 << (frm[0] - 1)):
                v -= 1 << frm[0]
            return self.lit(v, to)
        if to[0] == "bool":
            if frm[0] == "bool":
                return e
            return "(%s != %s)" % (e, self.lit(0, frm))
        if frm[0] == "bool":
            return "(if %s then %s else %s)" % (e, self.lit(1, to), self.lit(0, to))
        if frm[0] == to[0]:
            return e
        if to[0] < frm[0] or not frm[1]:
            return "(%s.setWidth %d)" % (e, to[0])
        return "(%s.signExtend %d)" % (e, to[0])

    def add_ub(self, cond):
        # guards are only the expression-level ones (&&, ||, ?:); statement-level branches are structural
        g = " && ".join(self.guard)
        self.pending.append("(%s && %s)" % (g, cond) if g else cond)

    def flush(self, lines, ind):
        """In UB mode, fold the conditions raised since the last flush into the `ub` pseudo-variable."""
        if self.ubmode and self.pending:
            cur, t = self.env["__ub__"]
            nv = self.fresh("ub")
            lines.append("%slet %s : Bool := %s || %s" % (ind, nv, cur, " || ".join(self.pending)))
            self.env["__ub__"] = (nv, t)
        self.pending = []

    # ---- expressions: returns (lean expr, type)
    def expr(self, n):
        k = n["kind"]
        if k in ("ParenExpr", "ConstantExpr", "ExprWithCleanups", "MaterializeTemporaryExpr", "CXXBindTemporaryExpr"):
            return self.expr(n["inner"][0])
        if k == "IntegerLiteral":
            t = ctype(n)
            return self.lit(int(n["value"]), t), t
        if k == "CXXBoolLiteralExpr":
            return ("true" if n["value"] else "false"), ("bool", False)
        if k == "DeclRefExpr":
            rid = n["referencedDecl"]["id"]
            if rid in self.env:
                return self.env[rid]
            if rid in CONSTS:
                v, t = CONSTS[rid]
                try:
                    t = ctype(n)
                except Unsupported:
                    pass
                return self.lit(v, t), t
            raise Unsupported("reference to unknown declaration " + n["referencedDecl"].get("name", "?"))
        if k in ("ImplicitCastExpr", "CStyleCastExpr", "CXXStaticCastExpr", "CXXFunctionalCastExpr", "CXXReinterpretCastExpr"):
            ck = n.get("castKind", "NoOp")
            inner = n["inner"][-1]
            if ck in ("LValueToRValue", "NoOp", "ConstructorConversion", "UserDefinedConversion"):
                e, t = self.expr(inner)
                try:
                    to = ctype(n)
                except Unsupported:
                    return e, t
                return self.cast(e, t, to), to
            if ck in ("IntegralCast", "IntegralToBoolean", "BooleanToSignedIntegral"):
                e, t = self.expr(inner)
                to = ctype(n)
                return self.cast(e, t, to), to
            if ck in ("ArrayToPointerDecay", "FunctionToPointerDecay"):
                return self.expr(inner)
            raise Unsupported("cast kind " + ck)
        if k == "MemberExpr":
            key = self.lvalue_key(n)
            return self.env[key]
        if k == "UnaryExprOrTypeTraitExpr" and n.get("name") == "sizeof" and "argType" in n:
            t = ctype({"type": n["argType"]})
            rt = ctype(n)
            return self.lit((8 if t[0] == "bool" else t[0]) // 8, rt), rt
        if k == "UnaryOperator":
            op = n["opcode"]
            if op == "*":
                # deref of an in/out pointer parameter
                inner = n["inner"][0]
                while inner["kind"] in ("ImplicitCastExpr", "ParenExpr"):
                    inner = inner["inner"][0]
                if inner["kind"] == "DeclRefExpr" and inner["referencedDecl"]["id"] in self.inout:
                    return self.env[self.inout[inner["referencedDecl"]["id"]]]
                raise Unsupported("pointer dereference")
            e, t = self.expr(n["inner"][0])
            to = ctype(n)
            if op == "~":
                return "(~~~%s)" % e, t
            if op == "!":
                return "(!%s)" % self.cast(e, t, ("bool", False)), ("bool", False)
            if op == "-":
                return "(-%s)" % e, t
            if op == "+":
                return e, t
            raise Unsupported("unary operator %s in expression" % op)
        if k == "BinaryOperator":
            op = n["opcode"]
            if op == ",":
                raise Unsupported("comma operator")
            if op == "=":
                raise Unsupported("assignment inside an expression")
            a, ta = self.expr(n["inner"][0])
            if op in ("&&", "||"):
                # short-circuit: the right operand's UB only counts when it is evaluated
                ca = self.cast(a, ta, ("bool", False))
                self.guard.append(ca if op == "&&" else "(!%s)" % ca)
                b, tb = self.expr(n["inner"][1])
                self.guard.pop()
                cb = self.cast(b, tb, ("bool", False))
                return "(%s %s %s)" % (ca, op, cb), ("bool", False)
            b, tb = self.expr(n["inner"][1])
            tr = ctype(n)
            return self.binop(op, a, ta, b, tb, tr), tr
        if k == "ConditionalOperator":
            c, tc = self.expr(n["inner"][0])
            c = self.cast(c, tc, ("bool", False))
            self.guard.append(c)
            a, ta = self.expr(n["inner"][1])
            self.guard.pop()
            self.guard.append("(!%s)" % c)
            b, tb = self.expr(n["inner"][2])
            self.guard.pop()
            return "(if %s then %s else %s)" % (c, a, b), ta
        if k == "ArraySubscriptExpr":
            base = n["inner"][0]
            while base["kind"] in ("ImplicitCastExpr", "ParenExpr"):
                base = base["inner"][0]
            if base["kind"] == "DeclRefExpr" and base["referencedDecl"]["id"] in self.tables:
                tname, et = self.tables[base["referencedDecl"]["id"]]
                i, ti = self.expr(n["inner"][1])
                return "(%s.getD %s.toNat %s)" % (tname, i, self.lit(0, et)), et
            raise Unsupported("subscript on a non-table")
        if k in ("CallExpr", "CXXMemberCallExpr", "CXXOperatorCallExpr"):
            return self.call(n)
        if k == "CXXTemporaryObjectExpr" or k == "CXXConstructExpr":
            raise Unsupported("object construction")
        raise Unsupported("expression kind " + k)

    def binop(self, op, a, ta, b, tb, tr):
        if op in ("<<", ">>"):
            w = ta[0]
            m = re.fullmatch(r"\((\d+)#(\d+)\)", b)
            if m and (not tb[1] or int(m.group(1)) < (1 << (tb[0] - 1))):
                c = int(m.group(1))
                if c >= w:
                    self.add_ub("true")
                cnt = "%d" % (c % w)
            else:
                cnt = "%s.toNat" % b
                self.add_ub("decide (%s ≥ %d)" % (cnt, w))
                cnt = "(%s %% %d)" % (cnt, w)
            if op == "<<":
                return "(%s <<< %s)" % (a, cnt)
            if ta[1]:
                return "(%s.sshiftRight %s)" % (a, cnt)
            return "(%s >>> %s)" % (a, cnt)
        if op in ("+", "-", "*", "&", "|", "^"):
            lop = {"&": "&&&", "|": "|||", "^": "^^^"}.get(op, op)
            return "(%s %s %s)" % (a, lop, b)
        if op in ("/", "%"):
            if ta[1]:
                raise Unsupported("signed division")
            self.add_ub("(%s == %s)" % (b, self.lit(0, tb)))
            return "(%s %s %s)" % (a, op, b)
        if op in ("==", "!="):
            return "(%s %s %s)" % (a, op, b)
        if op in ("<", "<=", ">", ">="):
            if ta[0] == "bool":
                raise Unsupported("ordering on bool")
            if ta[1]:
                f = {"<": "BitVec.slt %s %s", "<=": "BitVec.sle %s %s", ">": "BitVec.slt %s %s", ">=": "BitVec.sle %s %s"}[op]
                x, y = (a, b) if op in ("<", "<=") else (b, a)
                return "(" + f % (x, y) + ")"
            f = {"<": "BitVec.ult %s %s", "<=": "BitVec.ule %s %s", ">": "BitVec.ult %s %s", ">=": "BitVec.ule %s %s"}[op]
            x, y = (a, b) if op in ("<", "<=") else (b, a)
            return "(" + f % (x, y) + ")"
        raise Unsupported("binary operator " + op)

    def call(self, n):
        inner = n["inner"]
        callee = inner[0]
        args = inner[1:]
        # atomic member load -> extra input parameter
        c = callee
        while c["kind"] in ("ImplicitCastExpr", "ParenExpr"):
            c = c["inner"][0]
        if c["kind"] == "MemberExpr" and c.get("name") == "load":
            obj = c["inner"][0]
            while obj["kind"] in ("ImplicitCastExpr", "ParenExpr"):
                obj = obj["inner"][0]
            if obj["kind"] == "MemberExpr":
                pname = obj["name"]
                t = ctype(n)
                if all(p[0] != pname for p in self.extra_params):
                    self.extra_params.append((pname, t))
                return pname, t
            raise Unsupported("load on a non-member")
        name = None
        ty = None
        if c["kind"] == "DeclRefExpr":
            name = c["referencedDecl"].get("name")
            ty = c["referencedDecl"].get("type", {}).get("qualType")
        elif c["kind"] == "MemberExpr":
            name = c.get("name")
            ty = c.get("type", {}).get("qualType")
            if n["kind"] == "CXXMemberCallExpr":
                pass
        objclass = None
        if n["kind"] == "CXXOperatorCallExpr":
            # inner[0] is the operator reference, inner[1] the object
            args = inner[2:]
            ot = inner[1].get("type", {})
            objclass = ot.get("desugaredQualType", ot.get("qualType", "")).replace("const ", "").strip().split("::")[-1]
        elif c["kind"] == "MemberExpr" and c.get("inner"):
            ot = c["inner"][0].get("type", {})
            objclass = ot.get("desugaredQualType", ot.get("qualType", "")).replace("const ", "").replace("*", "").strip().split("::")[-1]
        rid = None
        if c["kind"] == "DeclRefExpr":
            rid = c["referencedDecl"].get("id")
        elif c["kind"] == "MemberExpr":
            rid = c.get("referencedMemberDecl")
        lean = self.callmap.get(("id", rid)) or self.callmap.get((name, ty, objclass)) or self.callmap.get((name, ty)) or self.callmap.get(name)
        if not lean:
            raise Unsupported("call to untranslated function %s : %s" % (name, ty))
        largs = []
        for a in args:
            if a["kind"] == "CXXDefaultArgExpr":
                continue
            e, t = self.expr(a)
            largs.append(e)
        rt = ctype(n)
        self.add_ub("%s_ub %s" % (lean, " ".join(largs)))
        return "(%s %s)" % (lean, " ".join(largs)), rt

    # ---- statements: returns Lean expression text for the rest of the block
    def contains_return(self, n):
        return any(x["kind"] == "ReturnStmt" for x in walk(n))

    def assigned_vars(self, n):
        out = []
        for x in walk(n):
            tgt = None
            if x["kind"] in ("BinaryOperator", "CompoundAssignOperator") and x.get("opcode", "").endswith("=") and x["opcode"] not in ("==", "!=", "<=", ">="):
                tgt = x["inner"][0]
            elif x["kind"] == "UnaryOperator" and x["opcode"] in ("++", "--"):
                tgt = x["inner"][0]
            if tgt is not None:
                key = self.lvalue_key(tgt)
                if key and key not in out:
                    out.append(key)
        return out

    def lvalue_key(self, n):
        while n["kind"] in ("ParenExpr", "ImplicitCastExpr"):
            n = n["inner"][0]
        if n["kind"] == "DeclRefExpr":
            return n["referencedDecl"]["id"]
        if n["kind"] == "MemberExpr":
            b = n["inner"][0]
            while b["kind"] in ("ParenExpr", "ImplicitCastExpr"):
                b = b["inner"][0]
            if b["kind"] == "CXXThisExpr":
                key = "this." + n["name"]
                if key not in self.env:
                    t = ctype(n)
                    nm = n["name"].rstrip("_")
                    self.env[key] = (nm, t)
                    self.ver[nm] = 1
                    self.this_fields.append((nm, t, key))
                return key
            if b["kind"] == "DeclRefExpr" and b["referencedDecl"]["id"] in self.structs:
                sid = b["referencedDecl"]["id"]
                key = sid + "." + n["name"]
                if key not in self.env:
                    t = ctype(n)
                    nm = b["referencedDecl"]["name"] + "_" + n["name"]
                    self.env[key] = (nm, t)
                    self.ver[nm] = 0      # first assignment introduces the name itself
                    self.structs[sid].append((n["name"], key))
                return key
        if n["kind"] == "UnaryOperator" and n["opcode"] == "*":
            inner = n["inner"][0]
            while inner["kind"] in ("ImplicitCastExpr", "ParenExpr"):
                inner = inner["inner"][0]
            if inner["kind"] == "DeclRefExpr" and inner["referencedDecl"]["id"] in self.inout:
                return self.inout[inner["referencedDecl"]["id"]]
        raise Unsupported("assignment target")

    def assign(self, key, e, lines, ind):
        base, t = self.env[key]
        root = re.sub(r"_\d+$", "", base)
        nv = self.fresh(root)
        self.flush(lines, ind)
        lines.append("%slet %s : %s := %s" % (ind, nv, lean_ty(t), e))
        self.env[key] = (nv, t)
        if key.startswith("this.") and key not in self.this_written:
            self.this_written.append(key)

    def simple_stmt(self, n, lines, ind):
        """Statements without control flow; appends `let` lines."""
        k = n["kind"]
        if k == "NullStmt":
            return
        if k == "DeclStmt":
            for d in n["inner"]:
                if d["kind"] != "VarDecl":
                    if d["kind"] == "StaticAssertDecl":
                        continue
                    raise Unsupported("declaration " + d["kind"])
                init = d.get("inner", [])
                init = [x for x in init if x["kind"] != "FullComment"]
                if d.get("storageClass") == "static" or (init and init[0]["kind"] == "InitListExpr"):
                    self.table_decl(d, init)
                    continue
                try:
                    t = ctype(d)
                except Unsupported:
                    if any(x["kind"] == "CXXConstructExpr" for x in init) or not init:
                        self.structs[d["id"]] = []      # local of record type: fields become separate variables
                        continue
                    raise
                nm = self.fresh(d["name"])
                if init:
                    e, te = self.expr(init[0])
                    e = self.cast(e, te, t)
                    self.flush(lines, ind)
                    lines.append("%slet %s : %s := %s" % (ind, nm, lean_ty(t), e))
                else:
                    lines.append("%slet %s : %s := %s" % (ind, nm, lean_ty(t), self.lit(0, t)))
                self.env[d["id"]] = (nm, t)
            return
        if k == "BinaryOperator" and n["opcode"] == "=":
            key = self.lvalue_key(n["inner"][0])
            e, te = self.expr(n["inner"][1])
            self.assign(key, self.cast(e, te, self.env[key][1]), lines, ind)
            return
        if k == "CompoundAssignOperator":
            key = self.lvalue_key(n["inner"][0])
            cur, t = self.env[key]
            op = n["opcode"][:-1]
            lt = ctype({"type": n["computeLHSType"]})
            rt = ctype({"type": n["computeResultType"]})
            b, tb = self.expr(n["inner"][1])
            a = self.cast(cur, t, lt)
            if op not in ("<<", ">>"):
                b = self.cast(b, tb, lt)
                tb = lt
            r = self.binop(op, a, lt, b, tb, rt)
            self.assign(key, self.cast(r, rt, t), lines, ind)
            return
        if k == "UnaryOperator" and n["opcode"] in ("++", "--"):
            key = self.lvalue_key(n["inner"][0])
            cur, t = self.env[key]
            self.assign(key, "(%s %s %s)" % (cur, "+" if n["opcode"] == "++" else "-", self.lit(1, t)), lines, ind)
            return
        if k in ("ParenExpr", "ExprWithCleanups"):
            return self.simple_stmt(n["inner"][0], lines, ind)
        if k == "StaticAssertDecl":
            return
        if k in ("CXXStaticCastExpr", "CStyleCastExpr", "CXXFunctionalCastExpr") and n.get("type", {}).get("qualType") == "void":
            return      # assert() under NDEBUG
        raise Unsupported("statement kind " + k)

    def table_decl(self, d, init):
        if not init or init[0]["kind"] != "InitListExpr":
            raise Unsupported("static local without initializer list")
        q = d["type"].get("desugaredQualType", d["type"]["qualType"])
        elem = q.split("[")[0].strip()
        et = ctype({"type": {"qualType": elem}})
        vals = []
        for x in init[0]["inner"]:
            y = x
            while y["kind"] in ("ImplicitCastExpr", "ConstantExpr"):
                y = y["inner"][0]
            if y["kind"] != "IntegerLiteral":
                raise Unsupported("non-literal table entry")
            vals.append(int(y["value"]))
        tname = "%s_%s" % (self.name, d["name"])
        self.tables[d["id"]] = (tname, et)
        self.new_tables.append((tname, et, vals))

    def block(self, stmts, ind):
        """Translate a statement list that ends (on every path) with a return. Returns text."""
        lines = []
        i = 0
        while i < len(stmts):
            s = stmts[i]
            k = s["kind"]
            if k == "CompoundStmt":
                stmts = stmts[:i] + s.get("inner", []) + stmts[i + 1:]
                continue
            if k == "ReturnStmt" and self.ret_t == "struct":
                r = s["inner"][0]
                while r["kind"] in ("CXXConstructExpr", "ImplicitCastExpr", "ExprWithCleanups", "MaterializeTemporaryExpr"):
                    r = r["inner"][0]
                if r["kind"] != "DeclRefExpr" or r["referencedDecl"]["id"] not in self.structs:
                    raise Unsupported("return of a non-local record")
                self.flush(lines, ind)
                self.ret_fields = [(f, self.env[key][1]) for f, key in self.structs[r["referencedDecl"]["id"]]]
                vals = [self.env[key][0] for f, key in self.structs[r["referencedDecl"]["id"]]]
                lines.append(ind + (self.env["__ub__"][0] if self.ubmode else "(" + ", ".join(vals) + ")"))
                return "\n".join(lines)
            if k == "ReturnStmt":
                e, t = self.expr(s["inner"][0])
                e = self.cast(e, t, self.ret_t)
                self.flush(lines, ind)
                lines.append(ind + self.ret_expr(e))
                return "\n".join(lines)
            if k == "IfStmt":
                parts = s["inner"]
                c, tc = self.expr(parts[0])
                c = self.cast(c, tc, ("bool", False))
                self.flush(lines, ind)
                then_s = parts[1]
                else_s = parts[2] if len(parts) > 2 else None
                rest = stmts[i + 1:]
                if self.contains_return(s):
                    saved = dict(self.env), dict(self.ver)
                    tb = self.block([then_s] + ([] if self.always_returns(then_s) else rest), ind + "  ")
                    self.env, self.ver = dict(saved[0]), dict(saved[1])
                    eb = self.block(([else_s] if else_s else []) + ([] if (else_s and self.always_returns(else_s)) else rest), ind + "  ")
                    lines.append("%sif %s then\n%s\n%selse\n%s" % (ind, c, tb, ind, eb))
                    return "\n".join(lines)
                # no return inside: merge the assigned variables
                mod = self.assigned_vars(s)
                mod = [m for m in mod if m in self.env]
                if self.ubmode:
                    mod.append("__ub__")
                before = {m: self.env[m] for m in mod}
                saved_env = dict(self.env)

                def branch(st, g):
                    self.env = dict(saved_env)
                    bl = []
                    if st is not None:
                        for x in (st.get("inner", []) if st["kind"] == "CompoundStmt" else [st]):
                            if x["kind"] == "IfStmt":
                                raise Unsupported("nested if inside a merging if")
                            self.simple_stmt(x, bl, ind + "    ")
                        self.flush(bl, ind + "    ")
                    vals = [self.env[m][0] for m in mod]
                    tup = vals[0] if len(vals) == 1 else "(" + ", ".join(vals) + ")"
                    return "(\n" + "\n".join(bl + [ind + "    " + tup]) + ")" if bl else tup
                tb = branch(then_s, c)
                eb = branch(else_s, "(!%s)" % c)
                self.env = dict(saved_env)
                if not mod:
                    i += 1
                    continue
                names = []
                for m in mod:
                    base, t = before[m]
                    root = re.sub(r"_\d+$", "", base)
                    nv = self.fresh(root)
                    names.append(nv)
                    self.env[m] = (nv, t)
                if len(mod) == 1:
                    lines.append("%slet %s : %s := if %s then %s else %s" % (ind, names[0], lean_ty(before[mod[0]][1]), c, tb, eb))
                else:
                    tys = " × ".join(lean_ty(before[m][1]) for m in mod)
                    lines.append("%slet (%s) : %s := if %s then %s else %s" % (ind, ", ".join(names), tys, c, tb, eb))
                i += 1
                continue
            self.simple_stmt(s, lines, ind)
            i += 1
        if self.ret_t is None:
            self.flush(lines, ind)
            lines.append(ind + self.ret_expr(None))
            return "\n".join(lines)
        raise Unsupported("control reaches end of non-void function")

    def always_returns(self, s):
        if s["kind"] == "ReturnStmt":
            return True
        if s["kind"] == "CompoundStmt":
            inner = s.get("inner", [])
            return bool(inner) and self.always_returns(inner[-1])
        if s["kind"] == "IfStmt":
            p = s["inner"]
            return len(p) > 2 and self.always_returns(p[1]) and self.always_returns(p[2])
        return False

    def ret_expr(self, e):
        if self.ubmode:
            return self.env["__ub__"][0]
        outs = [self.env[k][0] for k in self.inout.values()] + [self.env[k][0] for k in self.ret_this]
        if e is None:
            return outs[0] if len(outs) == 1 else "(" + ", ".join(outs) + ")"
        if outs:
            return "(" + ", ".join([e] + outs) + ")"
        return e


def translate_function(fn, leanname, callmap, tables_global):
    def one_pass(ubmode, ret_this=()):
        tr = Tr(leanname, callmap, dict(tables_global))
        tr.ubmode = ubmode
        tr.ret_this = list(ret_this)
        params = []
        body = None
        for c in fn.get("inner", []):
            if c["kind"] == "ParmVarDecl":
                q = c["type"].get("desugaredQualType", c["type"]["qualType"])
                if q.rstrip().endswith("*"):
                    pt = ctype({"type": {"qualType": q.rstrip()[:-1].strip()}})
                    key = c["id"] + ":pointee"
                    nm = c.get("name", "p") + "_val"
                    tr.env[key] = (nm, pt)
                    tr.ver[nm] = 1
                    tr.inout[c["id"]] = key
                    params.append((nm, pt))
                else:
                    t = ctype(c)
                    nm = c.get("name", "arg%d" % len(params))
                    tr.env[c["id"]] = (nm, t)
                    tr.ver[nm] = 1
                    params.append((nm, t))
            elif c["kind"] == "CompoundStmt":
                body = c
        if body is None:
            raise Unsupported("no body")
        rq = fn["type"]["qualType"].split("(")[0].strip()
        rd = fn["type"].get("desugaredQualType", fn["type"]["qualType"]).split("(")[0].strip()
        try:
            tr.ret_t = None if rq == "void" else ctype({"type": {"qualType": rq, "desugaredQualType": rd}})
        except Unsupported:
            tr.ret_t = "struct"
            tr.ret_fields = []
            for x in walk(body):
                if x["kind"] == "ReturnStmt" and x.get("inner"):
                    try:
                        tr.ret_t = ctype(x["inner"][0])
                    except Unsupported:
                        pass
                    break
        pre = []
        if ubmode:
            tr.env["__ub__"] = ("ub", ("bool", False))
            tr.ver["ub"] = 1
            pre = ["  let ub : Bool := false"]
        text = tr.block(body.get("inner", []), "  ")
        return tr, params, "\n".join(pre + [text])

    tr0, _, _ = one_pass(False)
    written = list(tr0.this_written)
    tr, params, text = one_pass(False, written)
    tru, _, ubtext = one_pass(True, written)
    allp = [(p[0], p[1]) for p in tr.this_fields] + [(p[0], p[1]) for p in tr.extra_params] + params
    sig = " ".join("(%s : %s)" % (p[0], lean_ty(p[1])) for p in allp)
    if tr.ret_t == "struct":
        rts = [lean_ty(t) for _, t in tr.ret_fields]
    else:
        rts = [lean_ty(tr.ret_t)] if tr.ret_t else []
        rts += [lean_ty(tr.env[k][1]) for k in tr.inout.values()]
        rts += [lean_ty(tr.env[k][1]) for k in written]
    out = []
    for tname, et, vals in tr.new_tables:
        out.append("def %s : List (%s) :=\n  [%s]\n" % (tname, lean_ty(et), ", ".join("%d#%d" % (v, et[0]) for v in vals)))
    out.append("def %s %s : %s :=\n%s\n" % (leanname, sig, " × ".join(rts), text))
    out.append("def %s_ub %s : Bool :=\n%s\n" % (leanname, sig, ubtext))
    return "\n".join(out), {"params": [(p[0], p[1][0]) for p in allp],
                             "rets": ([t[0] for _, t in tr.ret_fields] if tr.ret_t == "struct" else
                                      ([tr.ret_t[0]] if tr.ret_t else []) + [tr.env[k][1][0] for k in tr.inout.values()] + [tr.env[k][1][0] for k in written]),
                             "ret_fields": [f for f, _ in tr.ret_fields] if tr.ret_t == "struct" else []}


def tr_ub_text(text, ub):
    """UB companion: conservative and simple — evaluates the disjunction of all shift/division
    guards with the function's locals re-bound.  Only straight-line functions get local lets;
    for branching bodies the guards were closed under their path conditions already."""
    lines = text.split("\n")
    lets = []
    for ln in lines:
        s = ln.strip()
        if s.startswith("let ") and ln.startswith("  let") and not ln.startswith("    "):
            lets.append(ln)
        elif s.startswith("if ") and ln.startswith("  if"):
            break
    return "\n".join(lets + ["  " + ub])


CONSTS = {}


def collect_consts(objs):
    """static const / constexpr integer data members and globals with a literal initializer"""
    for o in objs:
        for n in walk(o):
            if n.get("kind") == "VarDecl" and n.get("inner"):
                init = [x for x in n["inner"] if x.get("kind") != "FullComment"]
                if not init:
                    continue
                y = init[0]
                while y.get("kind") in ("ImplicitCastExpr", "ConstantExpr", "ParenExpr") and y.get("inner"):
                    y = y["inner"][0]
                if y.get("kind") == "IntegerLiteral":
                    try:
                        CONSTS[n["id"]] = (int(y["value"]), ctype(n))
                    except Unsupported:
                        pass


def find_functions(objs, name, typestr=None, parent=None, spec=None):
    """Function definitions named `name`; instantiations (members of a class template specialization)
    come first, members of a template pattern are skipped when `spec` is given."""
    res = []
    for o in objs:
        stack = [(o, None, None)]
        while stack:
            n, par, sp = stack.pop()
            if n.get("kind") in ("FunctionDecl", "CXXMethodDecl") and n.get("name") == name and any(c.get("kind") == "CompoundStmt" for c in n.get("inner", [])):
                if (typestr is None or n["type"]["qualType"] == typestr) and (parent is None or par == parent) and (spec is None or sp == spec):
                    res.append((0 if sp else 1, n))
            sp2 = sp
            if n.get("kind") == "ClassTemplateSpecializationDecl":
                args = [c.get("type", {}).get("qualType") for c in n.get("inner", []) if c.get("kind") == "TemplateArgument"]
                sp2 = ",".join(a for a in args if a)
            for c in n.get("inner", []) or []:
                if isinstance(c, dict):
                    p2 = n.get("name") if n.get("kind") in ("CXXRecordDecl", "ClassTemplateSpecializationDecl", "ClassTemplateDecl", "NamespaceDecl") and n.get("name") else par
                    stack.append((c, p2, sp2))
    res.sort(key=lambda r: r[0])
    return [r[1] for r in res]


def source_fingerprint(fn):
    r = fn.get("range", {})
    return hashlib.sha256(json.dumps(fn.get("inner", []), sort_keys=True).encode()).hexdigest()[:16]


GLOBAL_CALLMAP = {}


def run(spec, repo, outdir):
    """spec: dict(module, namespace, units=[dict(tu, filter, flags?, functions=[dict(cxx, type?, parent?, lean)])])"""
    chunks = ["/- GENERATED by tools/cxx2lean.py from %s — do not edit. -/" % repo] + ["import " + i for i in spec.get("imports", [])] + ["namespace %s\n" % spec["namespace"]]
    manifest = []
    errors = []
    callmap = GLOBAL_CALLMAP
    for u in spec["units"]:
        for k in [k for k in callmap if k[0] == "id"]:
            del callmap[k]          # declaration ids are only meaningful within one clang run
        try:
            objs = clang_ast(u["tu"], u["filter"], repo, u.get("flags", ()))
        except Unsupported as e:
            errors.append({"unit": u["filter"], "error": str(e)})
            continue
        collect_consts(objs)
        for f in u["functions"]:
            fns = find_functions(objs, f["cxx"], f.get("type"), f.get("parent"), f.get("spec"))
            if not fns:
                errors.append({"function": f["lean"], "error": "declaration not found: %s %s" % (f["cxx"], f.get("type"))})
                continue
            text = None
            lasterr = None
            for fn in fns:
                try:
                    text, params = translate_function(fn, f["lean"], callmap, {})
                    break
                except Unsupported as e:
                    lasterr = e
            if text is None:
                errors.append({"function": f["lean"], "error": "unsupported construct: " + str(lasterr)})
                continue
            qual = spec["namespace"] + "." + f["lean"]
            chunks.append(text)
            if f.get("parent"):
                callmap[(f["cxx"], fn["type"]["qualType"], f["parent"])] = qual
            else:
                callmap[(f["cxx"], fn["type"]["qualType"])] = qual
            callmap[("id", fn["id"])] = f["lean"]
            for al in f.get("call_aliases", []):
                callmap[al] = qual
            manifest.append({"lean": f["lean"], "cxx": f["cxx"], "type": fn["type"]["qualType"],
                             "file": fn.get("loc", {}).get("file") or fn.get("range", {}).get("begin", {}).get("expansionLoc", {}).get("file"),
                             "line": fn.get("loc", {}).get("line"), "ast_sha": source_fingerprint(fn),
                             "params": params["params"], "rets": params["rets"], "ret_fields": params.get("ret_fields", []),
                             "module": spec["module"]})
    chunks.append("end %s" % spec["namespace"])
    path = os.path.join(outdir, *spec["module"].split(".")) + ".lean"
    os.makedirs(os.path.dirname(path), exist_ok=True)
    new = "\n".join(chunks) + "\n"
    old = open(path).read() if os.path.exists(path) else None
    if old != new:
        with open(path, "w") as fh:
            fh.write(new)
    return manifest, errors, old is not None and old != new


def write_dispatch(manifests, outdir):
    """Gen/Dispatch.lean: name -> evaluator on naturals, used by `cdsdriver eval` (tie D)."""
    mods = sorted({m["module"] for m in manifests})
    lines = ["/- GENERATED by tools/cxx2lean.py — do not edit. -/"] + ["import %s" % m for m in mods]
    lines += ["namespace CdsVerif.Gen", "", "def b2n (b : Bool) : Nat := if b then 1 else 0", "",
              "/-- Evaluate a translated function on natural-number arguments; the last output is its `_ub` flag. -/",
              "def evalFn (name : String) (args : List Nat) : Option (List Nat) :="]
    lines.append("  match name, args with")
    for m in manifests:
        q = m["module"].replace("CdsVerif.Gen.", "") + "." + m["lean"]
        vs = ["a%d" % i for i in range(len(m["params"]))]
        call_args = " ".join(("(decide (%s ≠ 0))" % v) if t == "bool" else ("(BitVec.ofNat %d %s)" % (t, v)) for v, (_, t) in zip(vs, m["params"]))
        rets = m["rets"]
        if len(rets) == 1:
            outs = ["b2n r" if rets[0] == "bool" else "r.toNat"]
        else:
            outs = []
            for i, t in enumerate(rets):
                proj = "r" + ".2" * i + (".1" if i < len(rets) - 1 else "")
                outs.append(("b2n %s" % proj) if t == "bool" else ("(%s).toNat" % proj))
        lines.append('  | "%s", [%s] => let r := %s %s; some [%s, b2n (%s_ub %s)]' % (
            m["lean"], ", ".join(vs), q, call_args, ", ".join(outs), q, call_args))
    lines.append("  | _, _ => none")
    lines += ["", "def fnNames : List String := [%s]" % ", ".join('"%s"' % m["lean"] for m in manifests), "", "end CdsVerif.Gen", ""]
    path = os.path.join(outdir, "CdsVerif", "Gen", "Dispatch.lean")
    new = "\n".join(lines)
    if not os.path.exists(path) or open(path).read() != new:
        open(path, "w").write(new)


def generate(repo, outdir, only=None):
    import gen_specs
    allman, allerr, changed_any = [], [], False
    for spec in gen_specs.SPECS:
        man, err, changed = run(spec, repo, outdir)
        allman += man
        allerr += [dict(e, module=spec["module"]) for e in err]
        changed_any = changed_any or changed
    write_dispatch(allman, outdir)
    with open(os.path.join(outdir, "CdsVerif", "Gen", "manifest.json"), "w") as fh:
        json.dump({"functions": allman, "errors": allerr}, fh, indent=1)
    return allman, allerr, changed_any


if __name__ == "__main__":
    repo = sys.argv[1] if len(sys.argv) > 1 else "/repo"
    outdir = sys.argv[2] if len(sys.argv) > 2 else os.path.join(os.path.dirname(os.path.abspath(__file__)), "..", "lean")
    man, err, changed = generate(repo, outdir)
    print("functions:", len(man), "errors:", len(err), "changed" if changed else "unchanged")
    for e in err:
        print("  ERROR", e)
    sys.exit(1 if err else 0)

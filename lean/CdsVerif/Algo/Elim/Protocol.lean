/-
  Consequences of the invariants of the elimination back-off for single actions: the collision protocol (who may
  write whose descriptor, and when) and the conservation of nodes.
-/
import CdsVerif.Algo.Elim.Chain
namespace CdsVerif.Algo.Elim
open CdsVerif.Machine CdsVerif.Spec CdsVerif.Lin
open CdsVerif.Algo.Treiber (Chain)

/-- A descriptor that has been collided (status ≠ op_waiting) or that is not published (before the publication, after
    the withdrawal) sits in no collision slot. -/
theorem not_in_slot {s : St} (he : EInv s) (h : Tid) (hp : pubSlot (s.pc h) = none ∨ s.status h ≠ 1) :
    ∀ sl, s.srec sl ≠ some h := by
  intro sl hq
  obtain ⟨h1, h2⟩ := he.recpub sl h hq
  rcases hp with hp | hp
  · rw [hp] at h1; simp at h1
  · exact hp h2

/-- The descriptor of a thread that sits in no slot is not written by any other thread. -/
theorem step_frame {s s' : St} {t : Tid} {ev : Ev} (hs : step s t = some (s', ev)) (h : Tid) (hne : h ≠ t)
    (hno : ∀ sl, s.srec sl ≠ some h) : s'.status h = s.status h ∧ s'.pval h = s.pval h ∧ s'.isPush h = s.isPush h := by
  unfold step at hs
  split at hs
  all_goals (try split at hs)
  all_goals (try split at hs)
  all_goals (try split at hs)
  all_goals simp at hs
  all_goals obtain ⟨rfl, -⟩ := hs
  all_goals (try dsimp only)
  all_goals grind [upd]

theorem apply_frame {s s' : St} {t : Tid} {a : Act} {o : Obs} (hap : model.apply s t a = some (s', o)) (h : Tid)
    (hne : h ≠ t) (hno : ∀ sl, s.srec sl ≠ some h) :
    s'.status h = s.status h ∧ s'.pval h = s.pval h ∧ s'.isPush h = s.isPush h := by
  cases a with
  | invoke op =>
    simp only [Model.apply, model, Option.map_eq_some_iff] at hap
    obtain ⟨s1, hs1, heq⟩ := hap
    simp only [Prod.mk.injEq] at heq
    obtain ⟨rfl, -⟩ := heq
    unfold invoke at hs1
    split at hs1
    all_goals simp at hs1
    all_goals subst hs1
    all_goals simp [upd, hne]
  | step =>
    simp only [Model.apply, model, Option.map_eq_some_iff] at hap
    obtain ⟨⟨s1, e⟩, hs1, heq⟩ := hap
    simp only [Prod.mk.injEq] at heq
    obtain ⟨rfl, -⟩ := heq
    exact step_frame hs1 h hne hno
  | ret =>
    simp only [Model.apply, model, Option.map_eq_some_iff] at hap
    obtain ⟨⟨s1, r⟩, hs1, heq⟩ := hap
    simp only [Prod.mk.injEq] at heq
    obtain ⟨rfl, -⟩ := heq
    unfold result at hs1
    split at hs1
    all_goals simp at hs1
    all_goals obtain ⟨rfl, -⟩ := hs1
    all_goals simp

/-- The only step by which a thread `t` changes the status of ANOTHER thread `h` is the collision: `t` holds the lock
    of a slot in which `h`'s record sits, `h` is published in that slot and waiting, the operations are of opposite
    kind; the step sets `h`'s status to op_collided, takes the record out of the slot (so that `h` is in no slot any
    more), hands the pusher's node to the popper's descriptor, and `t` goes on to unlock and return. -/
theorem collision_step {s s' : St} {t : Tid} {ev : Ev} (he : EInv s) (hs : step s t = some (s', ev)) (h : Tid)
    (hne : h ≠ t) (hch : s'.status h ≠ s.status h) :
    ∃ c sl k, s.pc t = .bkIn c sl k ∧ s.srec sl = some h ∧ pubSlot (s.pc h) = some sl ∧ s.status h = 1 ∧
      s.isPush h ≠ s.isPush t ∧ s'.status h = 2 ∧ (∀ sl', s'.srec sl' ≠ some h) ∧ s'.pc t = .bkUnlC c sl ∧
      ev = evStatSt h 2 ∧
      (s.isPush t = true → s'.pval h = s.pval t) ∧ (s.isPush t = false → s'.pval t = s.pval h) := by
  obtain ⟨e1, e2, e3, e4, e5, e6, e7, e8⟩ := he
  unfold step at hs
  split at hs
  all_goals (try split at hs)
  all_goals (try split at hs)
  all_goals (try split at hs)
  all_goals simp at hs
  all_goals obtain ⟨rfl, rfl⟩ := hs
  all_goals (try dsimp only at hch)
  all_goals (try (exfalso; revert hch; simp [upd, hne]; done))
  all_goals (try (exfalso; exact hch rfl))
  all_goals grind [upd, pub_facts]

/-! ### Conservation -/

structure Mono (s s' : St) : Prop where
  tk : ∀ a u, s.taken a = some u → s'.taken a = some u
  el : ∀ a, s.elim a = true → s'.elim a = true

/-- Ghost bookkeeping is monotone: a node is taken at most once (the taker never changes), an eliminated node stays
    eliminated. -/
theorem apply_mono {s s' : St} {t : Tid} {a : Act} {o : Obs} (hm : MInv s)
    (hap : model.apply s t a = some (s', o)) : Mono s s' := by
  obtain ⟨⟨l, hl⟩, he⟩ := hm
  cases a with
  | invoke op =>
    simp only [Model.apply, model, Option.map_eq_some_iff] at hap
    obtain ⟨s1, hs1, heq⟩ := hap
    simp only [Prod.mk.injEq] at heq
    obtain ⟨rfl, -⟩ := heq
    obtain ⟨-, hie⟩ := sinvl_invoke hl he hs1
    exact ⟨hie.tkmono, hie.elmono⟩
  | step =>
    simp only [Model.apply, model, Option.map_eq_some_iff] at hap
    obtain ⟨⟨s1, e⟩, hs1, heq⟩ := hap
    simp only [Prod.mk.injEq] at heq
    obtain ⟨rfl, -⟩ := heq
    obtain ⟨l', -, heff, -⟩ := sinvl_step hl he hs1
    exact ⟨heff.tkmono, heff.elmono⟩
  | ret =>
    simp only [Model.apply, model, Option.map_eq_some_iff] at hap
    obtain ⟨⟨s1, r⟩, hs1, heq⟩ := hap
    simp only [Prod.mk.injEq] at heq
    obtain ⟨rfl, -⟩ := heq
    obtain ⟨-, hre⟩ := sinvl_result hl he hs1
    exact ⟨hre.tkmono, hre.elmono⟩

/-- A node in the stack has been taken by nobody and has not been eliminated; the same holds for a node still
    private to its pusher.  In particular an eliminated node is not in the stack — in any reachable state, hence
    never (elimination is permanent: `apply_mono`). -/
theorem stack_nodes_untouched {s : St} (hm : MInv s) :
    (∀ a ∈ absNodes s, s.taken a = none ∧ s.elim a = false) ∧
    (∀ t n, pushNode s t = some n → s.taken n = none ∧ s.elim n = false) := by
  obtain ⟨⟨l, hl⟩, -⟩ := hm
  rw [hl.absNodes_eq]
  exact ⟨hl.tk, hl.priv⟩

theorem eliminated_not_in_stack {s : St} (hm : MInv s) (n : Nat) (h : s.elim n = true) : n ∉ absNodes s := by
  intro hin
  have := ((stack_nodes_untouched hm).1 n hin).2
  rw [h] at this; simp at this

/-- Refinement: every step of a reachable state is silent, a single linearization point (one `lifo` transition of
    the stepping thread's operation on the abstract stack) or a collision (`push v` immediately followed by `pop → v`,
    abstract stack unchanged). -/
theorem step_refines {s s' : St} {t : Tid} {ev : Ev} (hm : MInv s) (hs : step s t = some (s', ev)) :
    Shape s s' t (absNodes s) (absNodes s') := by
  obtain ⟨⟨l, hl⟩, he⟩ := hm
  obtain ⟨l', hl', -, hsh⟩ := sinvl_step hl he hs
  rw [hl.absNodes_eq, hl'.absNodes_eq]
  exact hsh

/-! ### Every successful pop takes exactly one node -/

set_option maxHeartbeats 4000000 in
theorem takes_pushLd {s s' : St} {t : Tid} {ev : Ev} {l : List Nat} {n : Nat}
    (h : SInvL s l) (he : EInv s) (hpc : s.pc t = .pushLd n) (hs : step s t = some (s', ev))
    (u : Tid) (v : Int) (h0 : postRet s u = none) (h1 : postRet s' u = some [1, v]) :
    ∃ a, s.val a = v ∧ s.taken a = none ∧ s'.taken a = some u := by
  obtain ⟨hch, hnd, hpub, hfr, hown, hlk, hcx, hnx, hcl, htk, hpv, htl⟩ := h
  obtain ⟨e1, e2, e3, e4, e5, e6, e7, e8⟩ := he
  simp only [step, hpc] at hs
  exfalso
  (try split at hs)
  all_goals (try split at hs)
  all_goals (try split at hs)
  all_goals simp at hs
  all_goals obtain ⟨rfl, -⟩ := hs
  all_goals (revert h0 h1; (try dsimp only); grind [upd, postRet, postRetC, postPc, elimRet, retOf, ctxOf, elimd, isUnlC, passive, retry, ctxPop, isPopPc, pushNodePc, ctxNode])

set_option maxHeartbeats 4000000 in
theorem takes_pushSt {s s' : St} {t : Tid} {ev : Ev} {l : List Nat} {n : Nat} {tv : Option Nat}
    (h : SInvL s l) (he : EInv s) (hpc : s.pc t = .pushSt n tv) (hs : step s t = some (s', ev))
    (u : Tid) (v : Int) (h0 : postRet s u = none) (h1 : postRet s' u = some [1, v]) :
    ∃ a, s.val a = v ∧ s.taken a = none ∧ s'.taken a = some u := by
  obtain ⟨hch, hnd, hpub, hfr, hown, hlk, hcx, hnx, hcl, htk, hpv, htl⟩ := h
  obtain ⟨e1, e2, e3, e4, e5, e6, e7, e8⟩ := he
  simp only [step, hpc] at hs
  exfalso
  (try split at hs)
  all_goals (try split at hs)
  all_goals (try split at hs)
  all_goals simp at hs
  all_goals obtain ⟨rfl, -⟩ := hs
  all_goals (revert h0 h1; (try dsimp only); grind [upd, postRet, postRetC, postPc, elimRet, retOf, ctxOf, elimd, isUnlC, passive, retry, ctxPop, isPopPc, pushNodePc, ctxNode])

set_option maxHeartbeats 4000000 in
theorem takes_pushCas {s s' : St} {t : Tid} {ev : Ev} {l : List Nat} {n : Nat} {tv : Option Nat}
    (h : SInvL s l) (he : EInv s) (hpc : s.pc t = .pushCas n tv) (hs : step s t = some (s', ev))
    (u : Tid) (v : Int) (h0 : postRet s u = none) (h1 : postRet s' u = some [1, v]) :
    ∃ a, s.val a = v ∧ s.taken a = none ∧ s'.taken a = some u := by
  obtain ⟨hch, hnd, hpub, hfr, hown, hlk, hcx, hnx, hcl, htk, hpv, htl⟩ := h
  obtain ⟨e1, e2, e3, e4, e5, e6, e7, e8⟩ := he
  simp only [step, hpc] at hs
  exfalso
  (try split at hs)
  all_goals (try split at hs)
  all_goals (try split at hs)
  all_goals simp at hs
  all_goals obtain ⟨rfl, -⟩ := hs
  all_goals (revert h0 h1; (try dsimp only); grind [upd, postRet, postRetC, postPc, elimRet, retOf, ctxOf, elimd, isUnlC, passive, retry, ctxPop, isPopPc, pushNodePc, ctxNode])

set_option maxHeartbeats 4000000 in
theorem takes_popLd1 {s s' : St} {t : Tid} {ev : Ev} {l : List Nat} 
    (h : SInvL s l) (he : EInv s) (hpc : s.pc t = .popLd1 ) (hs : step s t = some (s', ev))
    (u : Tid) (v : Int) (h0 : postRet s u = none) (h1 : postRet s' u = some [1, v]) :
    ∃ a, s.val a = v ∧ s.taken a = none ∧ s'.taken a = some u := by
  obtain ⟨hch, hnd, hpub, hfr, hown, hlk, hcx, hnx, hcl, htk, hpv, htl⟩ := h
  obtain ⟨e1, e2, e3, e4, e5, e6, e7, e8⟩ := he
  simp only [step, hpc] at hs
  exfalso
  (try split at hs)
  all_goals (try split at hs)
  all_goals (try split at hs)
  all_goals simp at hs
  all_goals obtain ⟨rfl, -⟩ := hs
  all_goals (revert h0 h1; (try dsimp only); grind [upd, postRet, postRetC, postPc, elimRet, retOf, ctxOf, elimd, isUnlC, passive, retry, ctxPop, isPopPc, pushNodePc, ctxNode])

set_option maxHeartbeats 4000000 in
theorem takes_popLd2 {s s' : St} {t : Tid} {ev : Ev} {l : List Nat} {p : Option Nat}
    (h : SInvL s l) (he : EInv s) (hpc : s.pc t = .popLd2 p) (hs : step s t = some (s', ev))
    (u : Tid) (v : Int) (h0 : postRet s u = none) (h1 : postRet s' u = some [1, v]) :
    ∃ a, s.val a = v ∧ s.taken a = none ∧ s'.taken a = some u := by
  obtain ⟨hch, hnd, hpub, hfr, hown, hlk, hcx, hnx, hcl, htk, hpv, htl⟩ := h
  obtain ⟨e1, e2, e3, e4, e5, e6, e7, e8⟩ := he
  simp only [step, hpc] at hs
  exfalso
  (try split at hs)
  all_goals (try split at hs)
  all_goals (try split at hs)
  all_goals simp at hs
  all_goals obtain ⟨rfl, -⟩ := hs
  all_goals (revert h0 h1; (try dsimp only); grind [upd, postRet, postRetC, postPc, elimRet, retOf, ctxOf, elimd, isUnlC, passive, retry, ctxPop, isPopPc, pushNodePc, ctxNode])

set_option maxHeartbeats 4000000 in
theorem takes_popNext {s s' : St} {t : Tid} {ev : Ev} {l : List Nat} {a : Nat}
    (h : SInvL s l) (he : EInv s) (hpc : s.pc t = .popNext a) (hs : step s t = some (s', ev))
    (u : Tid) (v : Int) (h0 : postRet s u = none) (h1 : postRet s' u = some [1, v]) :
    ∃ a, s.val a = v ∧ s.taken a = none ∧ s'.taken a = some u := by
  obtain ⟨hch, hnd, hpub, hfr, hown, hlk, hcx, hnx, hcl, htk, hpv, htl⟩ := h
  obtain ⟨e1, e2, e3, e4, e5, e6, e7, e8⟩ := he
  simp only [step, hpc] at hs
  exfalso
  (try split at hs)
  all_goals (try split at hs)
  all_goals (try split at hs)
  all_goals simp at hs
  all_goals obtain ⟨rfl, -⟩ := hs
  all_goals (revert h0 h1; (try dsimp only); grind [upd, postRet, postRetC, postPc, elimRet, retOf, ctxOf, elimd, isUnlC, passive, retry, ctxPop, isPopPc, pushNodePc, ctxNode])

set_option maxHeartbeats 4000000 in
theorem takes_popCas {s s' : St} {t : Tid} {ev : Ev} {l : List Nat} {a : Nat} {nx : Option Nat}
    (h : SInvL s l) (he : EInv s) (hpc : s.pc t = .popCas a nx) (hs : step s t = some (s', ev))
    (u : Tid) (v : Int) (h0 : postRet s u = none) (h1 : postRet s' u = some [1, v]) :
    ∃ a, s.val a = v ∧ s.taken a = none ∧ s'.taken a = some u := by
  obtain ⟨hch, hnd, hpub, hfr, hown, hlk, hcx, hnx, hcl, htk, hpv, htl⟩ := h
  obtain ⟨e1, e2, e3, e4, e5, e6, e7, e8⟩ := he
  simp only [step, hpc] at hs
  split at hs
  next heq =>
    simp at hs; obtain ⟨rfl, -⟩ := hs
    have ha : a ∈ l := by cases l <;> simp_all [Chain]
    by_cases hu : u = t
    · subst hu
      refine ⟨a, ?_, (htk a ha).1, by simp [upd]⟩
      revert h0 h1; (try dsimp only); grind [upd, postRet, postRetC, postPc, elimRet, retOf, ctxOf, elimd, isUnlC, passive, retry, ctxPop, isPopPc, pushNodePc, ctxNode]
    · exfalso; revert h0 h1; (try dsimp only); grind [upd, postRet, postRetC, postPc, elimRet, retOf, ctxOf, elimd, isUnlC, passive, retry, ctxPop, isPopPc, pushNodePc, ctxNode]
  next hne =>
    exfalso
    simp at hs; obtain ⟨rfl, -⟩ := hs
    revert h0 h1; (try dsimp only); grind [upd, postRet, postRetC, postPc, elimRet, retOf, ctxOf, elimd, isUnlC, passive, retry, ctxPop, isPopPc, pushNodePc, ctxNode]

set_option maxHeartbeats 4000000 in
theorem takes_popClr {s s' : St} {t : Tid} {ev : Ev} {l : List Nat} {a : Nat} {r : GRet}
    (h : SInvL s l) (he : EInv s) (hpc : s.pc t = .popClr a r) (hs : step s t = some (s', ev))
    (u : Tid) (v : Int) (h0 : postRet s u = none) (h1 : postRet s' u = some [1, v]) :
    ∃ a, s.val a = v ∧ s.taken a = none ∧ s'.taken a = some u := by
  obtain ⟨hch, hnd, hpub, hfr, hown, hlk, hcx, hnx, hcl, htk, hpv, htl⟩ := h
  obtain ⟨e1, e2, e3, e4, e5, e6, e7, e8⟩ := he
  simp only [step, hpc] at hs
  exfalso
  (try split at hs)
  all_goals (try split at hs)
  all_goals (try split at hs)
  all_goals simp at hs
  all_goals obtain ⟨rfl, -⟩ := hs
  all_goals (revert h0 h1; (try dsimp only); grind [upd, postRet, postRetC, postPc, elimRet, retOf, ctxOf, elimd, isUnlC, passive, retry, ctxPop, isPopPc, pushNodePc, ctxNode])

set_option maxHeartbeats 4000000 in
theorem takes_bkSt {s s' : St} {t : Tid} {ev : Ev} {l : List Nat} {c : Ctx} {sl : Nat} {k : Nat}
    (h : SInvL s l) (he : EInv s) (hpc : s.pc t = .bkSt c sl k) (hs : step s t = some (s', ev))
    (u : Tid) (v : Int) (h0 : postRet s u = none) (h1 : postRet s' u = some [1, v]) :
    ∃ a, s.val a = v ∧ s.taken a = none ∧ s'.taken a = some u := by
  obtain ⟨hch, hnd, hpub, hfr, hown, hlk, hcx, hnx, hcl, htk, hpv, htl⟩ := h
  obtain ⟨e1, e2, e3, e4, e5, e6, e7, e8⟩ := he
  simp only [step, hpc] at hs
  exfalso
  (try split at hs)
  all_goals (try split at hs)
  all_goals (try split at hs)
  all_goals simp at hs
  all_goals obtain ⟨rfl, -⟩ := hs
  all_goals (revert h0 h1; (try dsimp only); grind [upd, postRet, postRetC, postPc, elimRet, retOf, ctxOf, elimd, isUnlC, passive, retry, ctxPop, isPopPc, pushNodePc, ctxNode])

set_option maxHeartbeats 4000000 in
theorem takes_bkLock {s s' : St} {t : Tid} {ev : Ev} {l : List Nat} {c : Ctx} {sl : Nat} {k : Nat}
    (h : SInvL s l) (he : EInv s) (hpc : s.pc t = .bkLock c sl k) (hs : step s t = some (s', ev))
    (u : Tid) (v : Int) (h0 : postRet s u = none) (h1 : postRet s' u = some [1, v]) :
    ∃ a, s.val a = v ∧ s.taken a = none ∧ s'.taken a = some u := by
  obtain ⟨hch, hnd, hpub, hfr, hown, hlk, hcx, hnx, hcl, htk, hpv, htl⟩ := h
  obtain ⟨e1, e2, e3, e4, e5, e6, e7, e8⟩ := he
  simp only [step, hpc] at hs
  exfalso
  (try split at hs)
  all_goals (try split at hs)
  all_goals (try split at hs)
  all_goals simp at hs
  all_goals obtain ⟨rfl, -⟩ := hs
  all_goals (revert h0 h1; (try dsimp only); grind [upd, postRet, postRetC, postPc, elimRet, retOf, ctxOf, elimd, isUnlC, passive, retry, ctxPop, isPopPc, pushNodePc, ctxNode])

set_option maxHeartbeats 4000000 in
theorem takes_bkSpin {s s' : St} {t : Tid} {ev : Ev} {l : List Nat} {c : Ctx} {sl : Nat} {k : Nat}
    (h : SInvL s l) (he : EInv s) (hpc : s.pc t = .bkSpin c sl k) (hs : step s t = some (s', ev))
    (u : Tid) (v : Int) (h0 : postRet s u = none) (h1 : postRet s' u = some [1, v]) :
    ∃ a, s.val a = v ∧ s.taken a = none ∧ s'.taken a = some u := by
  obtain ⟨hch, hnd, hpub, hfr, hown, hlk, hcx, hnx, hcl, htk, hpv, htl⟩ := h
  obtain ⟨e1, e2, e3, e4, e5, e6, e7, e8⟩ := he
  simp only [step, hpc] at hs
  exfalso
  (try split at hs)
  all_goals (try split at hs)
  all_goals (try split at hs)
  all_goals simp at hs
  all_goals obtain ⟨rfl, -⟩ := hs
  all_goals (revert h0 h1; (try dsimp only); grind [upd, postRet, postRetC, postPc, elimRet, retOf, ctxOf, elimd, isUnlC, passive, retry, ctxPop, isPopPc, pushNodePc, ctxNode])

set_option maxHeartbeats 4000000 in
theorem takes_bkIn {s s' : St} {t : Tid} {ev : Ev} {l : List Nat} {c : Ctx} {sl : Nat} {k : Nat}
    (h : SInvL s l) (he : EInv s) (hpc : s.pc t = .bkIn c sl k) (hs : step s t = some (s', ev))
    (u : Tid) (v : Int) (h0 : postRet s u = none) (h1 : postRet s' u = some [1, v]) :
    ∃ a, s.val a = v ∧ s.taken a = none ∧ s'.taken a = some u := by
  obtain ⟨hch, hnd, hpub, hfr, hown, hlk, hcx, hnx, hcl, htk, hpv, htl⟩ := h
  obtain ⟨e1, e2, e3, e4, e5, e6, e7, e8⟩ := he
  simp only [step, hpc] at hs
  split at hs
  next x h hrec =>
    split at hs
    next hkind =>
      obtain ⟨hpubh, hsth⟩ := e1 sl h hrec
      obtain ⟨ch, hc1, hc2, hc3, hc4, hc5, hc6⟩ := pub_ctx hpubh
      have hht : h ≠ t := by intro e; subst e; exact hkind rfl
      have hkt := e6 t
      have hkh := e6 h
      have hpt' := e7 t
      have hph' := e7 h
      split at hs
      next hpt =>
        cases c with
        | pop => simp [hpc, isPopPc, ctxPop, hpt] at hpt'
        | push n tv =>
          have hpvt : s.pval t = some n := (hkt n (by simp [hpc, pushNodePc, ctxNode])).2
          have hih : s.isPush h = false := by cases hq : s.isPush h <;> simp_all
          have hpnt : pushNodeC (s.pc t) (s.status t) = some n := by simp [hpc, pushNodeC, elimd, isUnlC, passive, pushNodePc, ctxNode]
          cases ch with
          | push n' tv' => simp [hc3, ctxNode, hih] at hkh
          | pop =>
            simp only [hpvt] at hs
            simp at hs; obtain ⟨rfl, -⟩ := hs
            by_cases hu : u = h
            · subst hu
              refine ⟨n, ?_, (hpv t n hpnt).1, by simp [upd]⟩
              revert h0 h1; (try dsimp only); grind [upd, postRet, postRetC, postPc, elimRet, retOf, ctxOf, elimd, isUnlC, passive, retry, ctxPop, isPopPc, pushNodePc, ctxNode]
            · exfalso; revert h0 h1; (try dsimp only); grind [upd, postRet, postRetC, postPc, elimRet, retOf, ctxOf, elimd, isUnlC, passive, retry, ctxPop, isPopPc, pushNodePc, ctxNode]
      next hpt =>
        have hpt0 : s.isPush t = false := by cases hq : s.isPush t <;> simp_all
        have hih : s.isPush h = true := by cases hq : s.isPush h <;> simp_all
        cases c with
        | push n tv => simp [hpc, pushNodePc, ctxNode, hpt0] at hkt
        | pop =>
          cases ch with
          | pop => simp [hc2, ctxPop, hih] at hph'
          | push n' tv' =>
            have hpvh : s.pval h = some n' := (hkh n' (by simp [hc3, ctxNode])).2
            simp only [hpvh] at hs
            simp at hs; obtain ⟨rfl, -⟩ := hs
            have hpnh : pushNodeC (s.pc h) (s.status h) = some n' := by
              simp [pushNodeC, elimd, hc4, hc5, hsth, hc3, ctxNode]
            by_cases hu : u = t
            · subst hu
              refine ⟨n', ?_, (hpv h n' hpnh).1, by simp [upd]⟩
              revert h0 h1; (try dsimp only); grind [upd, postRet, postRetC, postPc, elimRet, retOf, ctxOf, elimd, isUnlC, passive, retry, ctxPop, isPopPc, pushNodePc, ctxNode]
            · exfalso; revert h0 h1; (try dsimp only); grind [upd, postRet, postRetC, postPc, elimRet, retOf, ctxOf, elimd, isUnlC, passive, retry, ctxPop, isPopPc, pushNodePc, ctxNode]
    next hkind =>
      exfalso
      have hst := e4 t (by simp [hpc, preWait])
      simp at hs; obtain ⟨rfl, -⟩ := hs
      revert h0 h1; (try dsimp only); grind [upd, postRet, postRetC, postPc, elimRet, retOf, ctxOf, elimd, isUnlC, passive, retry, ctxPop, isPopPc, pushNodePc, ctxNode]
  next x hrec =>
    exfalso
    have hst := e4 t (by simp [hpc, preWait])
    simp at hs; obtain ⟨rfl, -⟩ := hs
    revert h0 h1; (try dsimp only); grind [upd, postRet, postRetC, postPc, elimRet, retOf, ctxOf, elimd, isUnlC, passive, retry, ctxPop, isPopPc, pushNodePc, ctxNode]

set_option maxHeartbeats 4000000 in
theorem takes_bkUnlC {s s' : St} {t : Tid} {ev : Ev} {l : List Nat} {c : Ctx} {sl : Nat}
    (h : SInvL s l) (he : EInv s) (hpc : s.pc t = .bkUnlC c sl) (hs : step s t = some (s', ev))
    (u : Tid) (v : Int) (h0 : postRet s u = none) (h1 : postRet s' u = some [1, v]) :
    ∃ a, s.val a = v ∧ s.taken a = none ∧ s'.taken a = some u := by
  obtain ⟨hch, hnd, hpub, hfr, hown, hlk, hcx, hnx, hcl, htk, hpv, htl⟩ := h
  obtain ⟨e1, e2, e3, e4, e5, e6, e7, e8⟩ := he
  simp only [step, hpc] at hs
  exfalso
  (try split at hs)
  all_goals (try split at hs)
  all_goals (try split at hs)
  all_goals simp at hs
  all_goals obtain ⟨rfl, -⟩ := hs
  all_goals (revert h0 h1; (try dsimp only); grind [upd, postRet, postRetC, postPc, elimRet, retOf, ctxOf, elimd, isUnlC, passive, retry, ctxPop, isPopPc, pushNodePc, ctxNode])

set_option maxHeartbeats 4000000 in
theorem takes_bkWait {s s' : St} {t : Tid} {ev : Ev} {l : List Nat} {c : Ctx} {sl : Nat} {k : Nat}
    (h : SInvL s l) (he : EInv s) (hpc : s.pc t = .bkWait c sl k) (hs : step s t = some (s', ev))
    (u : Tid) (v : Int) (h0 : postRet s u = none) (h1 : postRet s' u = some [1, v]) :
    ∃ a, s.val a = v ∧ s.taken a = none ∧ s'.taken a = some u := by
  obtain ⟨hch, hnd, hpub, hfr, hown, hlk, hcx, hnx, hcl, htk, hpv, htl⟩ := h
  obtain ⟨e1, e2, e3, e4, e5, e6, e7, e8⟩ := he
  simp only [step, hpc] at hs
  exfalso
  (try split at hs)
  all_goals (try split at hs)
  all_goals (try split at hs)
  all_goals simp at hs
  all_goals obtain ⟨rfl, -⟩ := hs
  all_goals (revert h0 h1; (try dsimp only); grind [upd, postRet, postRetC, postPc, elimRet, retOf, ctxOf, elimd, isUnlC, passive, retry, ctxPop, isPopPc, pushNodePc, ctxNode])

set_option maxHeartbeats 4000000 in
theorem takes_bkLock2 {s s' : St} {t : Tid} {ev : Ev} {l : List Nat} {c : Ctx} {sl : Nat}
    (h : SInvL s l) (he : EInv s) (hpc : s.pc t = .bkLock2 c sl) (hs : step s t = some (s', ev))
    (u : Tid) (v : Int) (h0 : postRet s u = none) (h1 : postRet s' u = some [1, v]) :
    ∃ a, s.val a = v ∧ s.taken a = none ∧ s'.taken a = some u := by
  obtain ⟨hch, hnd, hpub, hfr, hown, hlk, hcx, hnx, hcl, htk, hpv, htl⟩ := h
  obtain ⟨e1, e2, e3, e4, e5, e6, e7, e8⟩ := he
  simp only [step, hpc] at hs
  exfalso
  (try split at hs)
  all_goals (try split at hs)
  all_goals (try split at hs)
  all_goals simp at hs
  all_goals obtain ⟨rfl, -⟩ := hs
  all_goals (revert h0 h1; (try dsimp only); grind [upd, postRet, postRetC, postPc, elimRet, retOf, ctxOf, elimd, isUnlC, passive, retry, ctxPop, isPopPc, pushNodePc, ctxNode])

set_option maxHeartbeats 4000000 in
theorem takes_bkSpin2 {s s' : St} {t : Tid} {ev : Ev} {l : List Nat} {c : Ctx} {sl : Nat}
    (h : SInvL s l) (he : EInv s) (hpc : s.pc t = .bkSpin2 c sl) (hs : step s t = some (s', ev))
    (u : Tid) (v : Int) (h0 : postRet s u = none) (h1 : postRet s' u = some [1, v]) :
    ∃ a, s.val a = v ∧ s.taken a = none ∧ s'.taken a = some u := by
  obtain ⟨hch, hnd, hpub, hfr, hown, hlk, hcx, hnx, hcl, htk, hpv, htl⟩ := h
  obtain ⟨e1, e2, e3, e4, e5, e6, e7, e8⟩ := he
  simp only [step, hpc] at hs
  exfalso
  (try split at hs)
  all_goals (try split at hs)
  all_goals (try split at hs)
  all_goals simp at hs
  all_goals obtain ⟨rfl, -⟩ := hs
  all_goals (revert h0 h1; (try dsimp only); grind [upd, postRet, postRetC, postPc, elimRet, retOf, ctxOf, elimd, isUnlC, passive, retry, ctxPop, isPopPc, pushNodePc, ctxNode])

set_option maxHeartbeats 4000000 in
theorem takes_bkIn2 {s s' : St} {t : Tid} {ev : Ev} {l : List Nat} {c : Ctx} {sl : Nat}
    (h : SInvL s l) (he : EInv s) (hpc : s.pc t = .bkIn2 c sl) (hs : step s t = some (s', ev))
    (u : Tid) (v : Int) (h0 : postRet s u = none) (h1 : postRet s' u = some [1, v]) :
    ∃ a, s.val a = v ∧ s.taken a = none ∧ s'.taken a = some u := by
  obtain ⟨hch, hnd, hpub, hfr, hown, hlk, hcx, hnx, hcl, htk, hpv, htl⟩ := h
  obtain ⟨e1, e2, e3, e4, e5, e6, e7, e8⟩ := he
  simp only [step, hpc] at hs
  exfalso
  (try split at hs)
  all_goals (try split at hs)
  all_goals (try split at hs)
  all_goals simp at hs
  all_goals obtain ⟨rfl, -⟩ := hs
  all_goals (revert h0 h1; (try dsimp only); grind [upd, postRet, postRetC, postPc, elimRet, retOf, ctxOf, elimd, isUnlC, passive, retry, ctxPop, isPopPc, pushNodePc, ctxNode])

set_option maxHeartbeats 4000000 in
theorem takes_bkChk {s s' : St} {t : Tid} {ev : Ev} {l : List Nat} {c : Ctx}
    (h : SInvL s l) (he : EInv s) (hpc : s.pc t = .bkChk c) (hs : step s t = some (s', ev))
    (u : Tid) (v : Int) (h0 : postRet s u = none) (h1 : postRet s' u = some [1, v]) :
    ∃ a, s.val a = v ∧ s.taken a = none ∧ s'.taken a = some u := by
  obtain ⟨hch, hnd, hpub, hfr, hown, hlk, hcx, hnx, hcl, htk, hpv, htl⟩ := h
  obtain ⟨e1, e2, e3, e4, e5, e6, e7, e8⟩ := he
  simp only [step, hpc] at hs
  exfalso
  cases c
  all_goals split at hs
  all_goals simp at hs
  all_goals obtain ⟨rfl, -⟩ := hs
  all_goals (revert h0 h1; (try dsimp only); grind [upd, postRet, postRetC, postPc, elimRet, retOf, ctxOf, elimd, isUnlC, passive, retry, ctxPop, isPopPc, pushNodePc, ctxNode])

/-- A pop whose result gets fixed as "value v" at some step takes, at that very step, a node that carries `v` and
    had been taken by nobody before (from the stack by its CAS, or from its partner by the collision). -/
theorem pop_takes {s s' : St} {t : Tid} {ev : Ev} (hm : MInv s) (hs : step s t = some (s', ev))
    (u : Tid) (v : Int) (h0 : postRet s u = none) (h1 : postRet s' u = some [1, v]) :
    ∃ a, s.val a = v ∧ s.taken a = none ∧ s'.taken a = some u := by
  obtain ⟨⟨l, h⟩, he⟩ := hm
  cases hpc : s.pc t with
  | idle => simp [step, hpc] at hs
  | done r => simp [step, hpc] at hs
  | pushLd n => exact takes_pushLd h he hpc hs u v h0 h1
  | pushSt n tv => exact takes_pushSt h he hpc hs u v h0 h1
  | pushCas n tv => exact takes_pushCas h he hpc hs u v h0 h1
  | popLd1  => exact takes_popLd1 h he hpc hs u v h0 h1
  | popLd2 p => exact takes_popLd2 h he hpc hs u v h0 h1
  | popNext a => exact takes_popNext h he hpc hs u v h0 h1
  | popCas a nx => exact takes_popCas h he hpc hs u v h0 h1
  | popClr a r => exact takes_popClr h he hpc hs u v h0 h1
  | bkSt c sl k => exact takes_bkSt h he hpc hs u v h0 h1
  | bkLock c sl k => exact takes_bkLock h he hpc hs u v h0 h1
  | bkSpin c sl k => exact takes_bkSpin h he hpc hs u v h0 h1
  | bkIn c sl k => exact takes_bkIn h he hpc hs u v h0 h1
  | bkUnlC c sl => exact takes_bkUnlC h he hpc hs u v h0 h1
  | bkWait c sl k => exact takes_bkWait h he hpc hs u v h0 h1
  | bkLock2 c sl => exact takes_bkLock2 h he hpc hs u v h0 h1
  | bkSpin2 c sl => exact takes_bkSpin2 h he hpc hs u v h0 h1
  | bkIn2 c sl => exact takes_bkIn2 h he hpc hs u v h0 h1
  | bkChk c => exact takes_bkChk h he hpc hs u v h0 h1

end CdsVerif.Algo.Elim

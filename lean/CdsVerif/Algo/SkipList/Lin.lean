/-
  Linearizability of the skip-list machine (repaired fast path) with respect to `Spec.map`, by a ghost log as in
  `Algo/Michael/Lin.lean` (whose log lemmas are reused): an entry is appended at every linearization point, tentative
  entries (a traversal that has read an unmarked item with the key but has not validated its predecessor yet) are
  withdrawn when the validation fails.

  New here: HELPED linearization points.  When an erase marks level 0 of its victim, every other thread that is inside
  `try_remove_at` for the same item will answer "not found" (its marking CAS can only fail on the marked word), no
  matter what happens later — the item may be unlinked and the key inserted again before the loser runs.  The loser's
  entry is therefore appended in the same step, right behind the winner's.
-/
import CdsVerif.Algo.SkipList.Reach
namespace CdsVerif.Algo.SkipList
open CdsVerif.Machine CdsVerif.Spec CdsVerif.Lin
open CdsVerif.Algo.Michael (Chain Lt LPok isRO insAfter Has LE Pend histAux pendAux runSpec completed openOf dropOpen
  openAll finalLog keepLE)

/-! ### Helped entries -/

/-- The entry of thread `t2` if the step of thread `t` has fixed its result. -/
def hent (t : Tid) (old new : Tid → Option GRet) (pend : Pend) (t2 : Tid) : Option LE :=
  if t2 = t then none else
  match old t2, new t2, pend t2 with
  | none, some r, some (op, k) => some ⟨t2, op, r, k, none⟩
  | _, _, _ => none

def helped (act : List Tid) (t : Tid) (old new : Tid → Option GRet) (pend : Pend) : List LE :=
  act.filterMap (hent t old new pend)

theorem hent_spec {t : Tid} {old new : Tid → Option GRet} {pend : Pend} {t2 : Tid} {e : LE}
    (h : hent t old new pend t2 = some e) :
    e.tid = t2 ∧ e.res = none ∧ t2 ≠ t ∧ old t2 = none ∧ new t2 = some e.ret ∧ pend t2 = some (e.op, e.inv) := by
  unfold hent at h
  split at h
  · simp at h
  next hne =>
    split at h
    next r op k h1 h2 h3 => simp only [Option.some.injEq] at h; subst h; exact ⟨rfl, rfl, hne, h1, h2, h3⟩
    · simp at h

theorem helped_nil {act : List Tid} {t : Tid} {old new : Tid → Option GRet} {pend : Pend}
    (h : ∀ t2, t2 ≠ t → new t2 = old t2) : helped act t old new pend = [] := by
  unfold helped
  apply List.filterMap_eq_nil_iff.mpr
  intro t2 _
  unfold hent
  split
  · rfl
  next hne =>
    split
    next r op k h1 h2 h3 => rw [h t2 hne, h1] at h2; simp at h2
    · rfl

theorem openOf_filterMap {act : List Tid} (hnd : act.Nodup) {F : Tid → Option LE}
    (hF : ∀ t e, F t = some e → e.tid = t ∧ e.res = none) (t2 : Tid) :
    openOf t2 (act.filterMap F) = if t2 ∈ act then (F t2).toList else [] := by
  induction act with
  | nil => simp [openOf]
  | cons a l ih =>
    have hnd' := List.nodup_cons.mp hnd
    simp only [List.filterMap_cons]
    cases hFa : F a with
    | none =>
      simp only [ih hnd'.2]
      by_cases e : t2 = a
      · subst e; simp [hnd'.1, hFa]
      · simp [e]
    | some ea =>
      have hs := hF a ea hFa
      simp only [openOf, List.filter_cons] at ih ⊢
      by_cases e : t2 = a
      · subst e
        have hnot : t2 ∉ l := hnd'.1
        have ih' := ih hnd'.2
        simp only [hnot, if_false] at ih'
        have hdec : decide (ea.tid = t2 ∧ ea.res = none) = true := by simp [hs.1, hs.2]
        simp only [hdec, if_true, ih', List.mem_cons, true_or, hFa, Option.toList_some]
      · have : ¬ (ea.tid = t2) := by rw [hs.1]; exact fun h => e h.symm
        simp only [this, false_and, decide_false, Bool.false_eq_true, if_false, List.mem_cons, e, false_or]
        exact ih hnd'.2

theorem runSpec_ro_list (m : MapSt) (l : List LE) (h : ∀ e ∈ l, Spec.map.next m e.op e.ret = some m) :
    runSpec m l = some m := by
  induction l with
  | nil => rfl
  | cons e l ih =>
    simp only [runSpec, h e (by simp), Option.bind_some]
    exact ih (fun e' he' => h e' (List.mem_cons_of_mem _ he'))

theorem completed_open_nil (l : List LE) (h : ∀ e ∈ l, e.res = none) : completed l = [] := by
  unfold completed
  apply List.filterMap_eq_nil_iff.mpr
  intro e he
  simp [LE.done?, h e he]

/-! ### Instrumented runs -/

structure GSt where
  s : St
  clock : Nat
  pend : Pend
  hist : List (OpRec GOp GRet)
  log : List LE
  act : List Tid                       -- the threads that have invoked an operation so far

def ginit (c : Cfg) : GSt := ⟨init c, 0, fun _ => none, [], [], []⟩

def lpOf (s : St) (t : Tid) : Option GRet := lpRet (mk0 s.mark) s.key s.val (s.pc t)

def gnext (g : GSt) (t : Tid) (s' : St) : Obs → GSt
  | .call op =>
    { g with s := s', clock := g.clock + 1, pend := upd g.pend t (some (op, g.clock)),
             act := if t ∈ g.act then g.act else t :: g.act }
  | .ev _ =>
    { g with
      s := s', clock := g.clock + 1,
      log := (match lpOf g.s t, lpOf s' t, g.pend t with
        | none, some r, some (op, k) => g.log ++ [⟨t, op, r, k, none⟩]
        | some _, none, _ => dropOpen t g.log
        | _, _, _ => g.log) ++ helped g.act t (lpOf g.s) (lpOf s') g.pend }
  | .ret r =>
    match g.pend t with
    | some (op, k) =>
      { g with s := s', clock := g.clock + 1, pend := upd g.pend t none,
               hist := g.hist ++ [⟨t, op, r, k, g.clock⟩], log := g.log.map (LE.close t g.clock) }
    | none => { g with s := s', clock := g.clock + 1 }

structure GI (g : GSt) (L : List Nat) : Prop where
  spec : ∃ m, runSpec [] g.log = some m ∧ ∀ k v, mfind m k = some v ↔ Has (mk0 g.s.mark) g.s.key g.s.val L k v
  invlt : ∀ e, e ∈ g.log → e.inv < g.clock
  rt : g.log.Pairwise (fun a b => ∀ r, b.res = some r → a.inv ≤ r)
  comp : (completed g.log).Perm g.hist
  pendlt : ∀ t op k, g.pend t = some (op, k) → k < g.clock
  pre : ∀ t op, opOf g.s.key g.s.val (g.s.pc t) = some op → ∃ k, g.pend t = some (op, k)
  preopen : ∀ t, lpOf g.s t = none → openOf t g.log = []
  post : ∀ t r, lpOf g.s t = some r → ∃ op k, g.pend t = some (op, k) ∧ openOf t g.log = [⟨t, op, r, k, none⟩]
  idle : ∀ t, g.s.pc t = .idle → g.pend t = none
  actnd : g.act.Nodup
  actmem : ∀ t, g.pend t ≠ none → t ∈ g.act

def GInv (c : Cfg) (g : GSt) : Prop := ∃ L, SInvL c g.s L ∧ GI g L

theorem ginv_init (c : Cfg) : GInv c (ginit c) := by
  refine ⟨[0], sinv_init c, ?_⟩
  constructor <;> simp [ginit, init, runSpec, completed, opOf, lpOf, lpRet, openOf, Has, mfind]

theorem ginv_invoke {c : Cfg} {g : GSt} {t : Tid} {op : GOp} {s' : St} (h : GInv c g)
    (hs : invoke c g.s t op = some s') : GInv c (gnext g t s' (.call op)) := by
  obtain ⟨L, hl, hg⟩ := h
  obtain ⟨hl', he⟩ := sinvl_invoke hl hs
  refine ⟨L, hl', ?_⟩
  obtain ⟨hspec, hinvlt, hrt, hcomp, hpendlt, hpre, hpreopen, hpost, hidle, hnd, hmem⟩ := hg
  obtain ⟨hframe, hops, hlps, hwas, hnow, habs⟩ := he
  have hpw : lpOf g.s t = none := by simp [lpOf, hwas, lpRet]
  constructor
  · obtain ⟨m, hm1, hm2⟩ := hspec
    exact ⟨m, hm1, fun k v => (hm2 k v).trans (habs k v).symm⟩
  · intro e he; have := hinvlt e he; simp only [gnext]; omega
  · exact hrt
  · exact hcomp
  · intro t2 op2 k; simp only [gnext, upd]; intro h
    split at h
    · simp at h; omega
    · have := hpendlt t2 op2 k h; omega
  · intro t2 op2; simp only [gnext]
    by_cases ht : t2 = t
    · subst ht; rw [hnow.1]; intro h; simp at h; subst h; exact ⟨g.clock, by simp [upd]⟩
    · rw [hframe t2 ht, hops t2 ht]; intro h
      obtain ⟨k, hk⟩ := hpre t2 op2 h
      exact ⟨k, by simp [upd, ht, hk]⟩
  · intro t2; simp only [gnext, lpOf]
    by_cases ht : t2 = t
    · subst ht; intro _; exact hpreopen t2 hpw
    · rw [hframe t2 ht, hlps t2 ht]; exact hpreopen t2
  · intro t2 r; simp only [gnext, lpOf]
    by_cases ht : t2 = t
    · subst ht; rw [hnow.2]; intro h; simp at h
    · rw [hframe t2 ht, hlps t2 ht]; intro h
      obtain ⟨op2, k, h1, h2⟩ := hpost t2 r h
      exact ⟨op2, k, by simp [upd, ht, h1], h2⟩
  · intro t2; simp only [gnext]
    by_cases ht : t2 = t
    · subst ht; intro h; rw [h] at hnow; simp [opOf] at hnow
    · rw [hframe t2 ht]; intro h; simp [upd, ht, hidle t2 h]
  · simp only [gnext]; split
    · exact hnd
    next hn => exact List.nodup_cons.mpr ⟨hn, hnd⟩
  · intro t2; simp only [gnext, upd]
    intro h
    by_cases ht : t2 = t
    · subst ht; split
      · assumption
      · simp
    · simp only [ht, if_false] at h
      have := hmem t2 h
      split
      · exact this
      · exact List.mem_cons_of_mem _ this

theorem ginv_result {c : Cfg} {g : GSt} {t : Tid} {r : GRet} {s' : St} (h : GInv c g)
    (hs : result g.s t = some (s', r)) : GInv c (gnext g t s' (.ret r)) := by
  obtain ⟨L, hl, hg⟩ := h
  obtain ⟨hl', hdone, hidl, hframe, hkey, hval, hmark⟩ := sinvl_result hl hs
  obtain ⟨hspec, hinvlt, hrt, hcomp, hpendlt, hpre, hpreopen, hpost, hidle, hnd, hmem⟩ := hg
  obtain ⟨op, k, hp, hopen⟩ := hpost t r (by simp [lpOf, hdone, lpRet])
  have hcl : ∀ e, (LE.close t g.clock e).inv = e.inv := by intro e; unfold LE.close; split <;> rfl
  simp only [gnext, hp]
  refine ⟨L, hl', ?_⟩
  constructor <;> dsimp only
  · obtain ⟨m, hm1, hm2⟩ := hspec
    refine ⟨m, by rw [Michael.runSpec_close]; exact hm1, ?_⟩
    rw [hkey, hval, hmark]; exact hm2
  · intro e he
    obtain ⟨e0, he0, rfl⟩ := List.mem_map.mp he
    have := hinvlt e0 he0; rw [hcl]; omega
  · rw [List.pairwise_map]
    refine List.Pairwise.imp_of_mem ?_ hrt
    intro a b ha hb hab r' hr'
    rw [hcl]
    unfold LE.close at hr'
    split at hr'
    · simp at hr'; have := hinvlt a ha; omega
    · exact hab r' hr'
  · refine (Michael.completed_close t g.clock g.log).trans ?_
    rw [hopen]
    exact List.Perm.append_right _ hcomp
  · intro t2 op2 k2 h
    simp only [upd] at h
    split at h
    · simp at h
    · have := hpendlt t2 op2 k2 h; omega
  · intro t2 op2
    by_cases ht : t2 = t
    · subst ht; rw [hidl]; simp [opOf]
    · rw [hframe t2 ht, hkey, hval]; intro h
      obtain ⟨k2, hk⟩ := hpre t2 op2 h
      exact ⟨k2, by simp [upd, ht, hk]⟩
  · intro t2
    simp only [lpOf]
    by_cases ht : t2 = t
    · subst ht; intro _; exact Michael.openOf_close_same _ _ _
    · rw [hframe t2 ht, hkey, hval, hmark, Michael.openOf_close_other _ _ _ ht]; exact hpreopen t2
  · intro t2 r2
    simp only [lpOf]
    by_cases ht : t2 = t
    · subst ht; rw [hidl]; simp [lpRet]
    · rw [hframe t2 ht, hkey, hval, hmark, Michael.openOf_close_other _ _ _ ht]; intro h
      obtain ⟨op2, k2, h1, h2⟩ := hpost t2 r2 h
      exact ⟨op2, k2, by simp [upd, ht, h1], h2⟩
  · intro t2
    by_cases ht : t2 = t
    · subst ht; intro _; simp [upd]
    · rw [hframe t2 ht]; intro h; simp [upd, ht, hidle t2 h]
  · exact hnd
  · intro t2 h
    by_cases ht : t2 = t
    · subst ht; simp [upd] at h
    · simp only [upd, ht, if_false] at h; exact hmem t2 h

theorem hent_self (t : Tid) (old new : Tid → Option GRet) (pend : Pend) : hent t old new pend t = none := by
  simp [hent]

theorem hent_of_old_some {t : Tid} {old new : Tid → Option GRet} {pend : Pend} {t2 : Tid} (h : old t2 ≠ none) :
    hent t old new pend t2 = none := by
  unfold hent; split
  · rfl
  · split
    next h1 _ _ => exact absurd h1 h
    · rfl

theorem hent_of_new_none {t : Tid} {old new : Tid → Option GRet} {pend : Pend} {t2 : Tid} (h : new t2 = none) :
    hent t old new pend t2 = none := by
  unfold hent; split
  · rfl
  · split
    next _ h2 _ => rw [h] at h2; simp at h2
    · rfl

theorem hent_loser {t : Tid} {old new : Tid → Option GRet} {pend : Pend} {t2 : Tid} {r : GRet} {op : GOp} {k : Nat}
    (hne : t2 ≠ t) (h1 : old t2 = none) (h2 : new t2 = some r) (h3 : pend t2 = some (op, k)) :
    hent t old new pend t2 = some ⟨t2, op, r, k, none⟩ := by
  simp [hent, hne, h1, h2, h3]

theorem openOf_helped {act : List Tid} (hnd : act.Nodup) (t : Tid) (old new : Tid → Option GRet) (pend : Pend) (t2 : Tid) :
    openOf t2 (helped act t old new pend) = if t2 ∈ act then (hent t old new pend t2).toList else [] :=
  openOf_filterMap hnd (fun t' e h => ⟨(hent_spec h).1, (hent_spec h).2.1⟩) t2

theorem pairwise_res_none (l : List LE) (h : ∀ b ∈ l, b.res = none) :
    l.Pairwise (fun a b => ∀ r, b.res = some r → a.inv ≤ r) := by
  induction l with
  | nil => exact List.Pairwise.nil
  | cons a l ih =>
    refine List.Pairwise.cons ?_ (ih (fun b hb => h b (List.mem_cons_of_mem _ hb)))
    intro b hb r hr
    rw [h b (List.mem_cons_of_mem _ hb)] at hr; simp at hr

theorem openOf_nil_of_tid {t2 : Tid} {e : LE} (h : e.tid ≠ t2) : openOf t2 [e] = [] := by
  simp [openOf, h]

set_option maxHeartbeats 1000000 in
theorem ginv_step {c : Cfg} (hc : 0 < c.maxH) (hmt : c.markTest = true) {g : GSt} {t : Tid} {ev : Ev} {s' : St}
    (h : GInv c g) (hs : step c g.s t = some (s', ev)) : GInv c (gnext g t s' (.ev ev)) := by
  obtain ⟨L, hl, hg⟩ := h
  obtain ⟨L', hl', he⟩ := sinvl_step hc hmt hl hs
  refine ⟨L', hl', ?_⟩
  obtain ⟨hspec, hinvlt, hrt, hcomp, hpendlt, hpre, hpreopen, hpost, hidle, hnd, hmem⟩ := hg
  obtain ⟨hframe, hkey, hval, hlp, hnolp, hkeep, hpkeep, hop, hbusy, hmarks⟩ := he
  obtain ⟨m, hm1, hm2⟩ := hspec
  -- the other threads
  have hoth : ∀ t2, t2 ≠ t → lpOf s' t2 = lpOf g.s t2 ∨
      (lpOf g.s t2 = none ∧ lpOf s' t2 = some [0] ∧ ∃ kk, opOf g.s.key g.s.val (g.s.pc t2) = some ⟨"erase", [kk]⟩ ∧
        ∀ w, ¬ Has (mk0 s'.mark) s'.key s'.val L' kk w) := by
    intro t2 ht
    simp only [lpOf, hframe t2 ht, hkey, hval]
    rcases hmarks with hmk | ⟨d, hd, hmk, -, -, habs⟩
    · left; rw [hmk]
    · rw [hmk]
      rcases lp_other (m := mem! g.s) (hl.thr t2) (mk := mk0 g.s.mark) (d := d) hd with e | ⟨e1, e2, e3⟩
      · exact Or.inl e
      · exact Or.inr ⟨e1, e2, g.s.key d, e3, by rw [hkey, hval] at habs; rw [← hmk]; exact habs⟩
  have hsame : ¬ (lpOf g.s t = none ∧ ∃ r, lpOf s' t = some r) → ∀ t2, t2 ≠ t → lpOf s' t2 = lpOf g.s t2 := by
    intro hno t2 ht
    simp only [lpOf, hframe t2 ht, hkey, hval]
    rcases hmarks with hmk | ⟨d, -, -, h1, h2, -⟩
    · rw [hmk]
    · exfalso; apply hno
      refine ⟨h1, ?_⟩
      cases hh : lpRet (mk0 s'.mark) s'.key s'.val (s'.pc t) with
      | none => rw [hh] at h2; simp at h2
      | some r => exact ⟨r, hh⟩
  have hpre' : ∀ op2, opOf s'.key s'.val (s'.pc t) = some op2 → ∃ k, g.pend t = some (op2, k) := by
    intro op2
    cases hp : postRet s'.val (s'.pc t) with
    | some r => rw [opOf_none_of_post hp]; simp
    | none => rw [hop hp]; exact hpre t op2
  by_cases hLP : lpOf g.s t = none ∧ ∃ r, lpOf s' t = some r
  · -- linearization point (tentative or definitive), possibly with helped entries
    obtain ⟨h1, r, h2⟩ := hLP
    obtain ⟨op, hopo, hnext⟩ := hlp h1 r h2
    obtain ⟨k, hk⟩ := hpre t op hopo
    obtain ⟨m', hm1', hm2'⟩ := hnext m hm2
    have hlog : (gnext g t s' (.ev ev)).log =
        (g.log ++ [⟨t, op, r, k, none⟩]) ++ helped g.act t (lpOf g.s) (lpOf s') g.pend := by
      simp only [gnext, h1, h2, hk]
    have hH : ∀ e ∈ helped g.act t (lpOf g.s) (lpOf s') g.pend,
        e.res = none ∧ e.tid ≠ t ∧ g.pend e.tid = some (e.op, e.inv) ∧ Spec.map.next m' e.op e.ret = some m' := by
      intro e hem
      obtain ⟨t2, -, hf⟩ := List.mem_filterMap.mp hem
      obtain ⟨e1, e2, e3, e4, e5, e6⟩ := hent_spec hf
      subst e1
      refine ⟨e2, e3, e6, ?_⟩
      rcases hoth e.tid e3 with hh | ⟨-, hh2, kk, hh3, hh4⟩
      · rw [hh, e4] at e5; simp at e5
      · obtain ⟨k', hk'⟩ := hpre e.tid _ hh3
        rw [e6] at hk'; simp only [Option.some.injEq, Prod.mk.injEq] at hk'
        rw [e5] at hh2; simp only [Option.some.injEq] at hh2
        rw [hk'.1, hh2]
        obtain ⟨m'', hn1, -⟩ := LPok.ro_none (H := Has (mk0 s'.mark) s'.key s'.val L') (H' := Has (mk0 s'.mark) s'.key s'.val L')
          (op := ⟨"erase", [kk]⟩) hh4 (fun _ _ => Iff.rfl) (Or.inl rfl) m' hm2'
        have := Michael.map_ro hn1 (by simp [isRO])
        rw [this] at hn1; exact hn1
    constructor
    · refine ⟨m', ?_, by simpa only [gnext] using hm2'⟩
      rw [hlog, Michael.runSpec_append, Michael.runSpec_append, hm1]
      simp only [Option.bind_some, runSpec, hm1']
      exact runSpec_ro_list m' _ (fun e he => (hH e he).2.2.2)
    · rw [hlog]; intro e he
      simp only [gnext]
      rcases List.mem_append.mp he with h | h
      · rcases List.mem_append.mp h with h | h
        · have := hinvlt e h; omega
        · simp at h; subst h; have := hpendlt t op k hk; simp only; omega
      · have := hpendlt _ _ _ (hH e h).2.2.1; omega
    · rw [hlog, List.pairwise_append]
      refine ⟨?_, pairwise_res_none _ (fun b hb => (hH b hb).1), ?_⟩
      · rw [List.pairwise_append]
        refine ⟨hrt, by simp, ?_⟩
        intro a _ b hb r' hr'
        simp at hb; subst hb; simp at hr'
      · intro a _ b hb r' hr'
        rw [(hH b hb).1] at hr'; simp at hr'
    · rw [hlog]
      simp only [completed, List.filterMap_append, gnext] at hcomp ⊢
      have e1 : List.filterMap LE.done? [(⟨t, op, r, k, none⟩ : LE)] = [] := by simp [LE.done?]
      have e2 := completed_open_nil _ (fun b hb => (hH b hb).1)
      simp only [completed] at e2
      rw [e1, e2, List.append_nil, List.append_nil]; exact hcomp
    · intro t2 op2 k2 h
      simp only [gnext] at h ⊢
      have := hpendlt t2 op2 k2 h; omega
    · intro t2 op2
      simp only [gnext]
      by_cases ht : t2 = t
      · subst ht; exact hpre' op2
      · rw [hframe t2 ht, hkey, hval]; exact hpre t2 op2
    · intro t2
      rw [hlog]; simp only [gnext]
      by_cases ht : t2 = t
      · subst ht; rw [h2]; simp
      · intro hn
        have hold : lpOf g.s t2 = none := by
          rcases hoth t2 ht with hh | ⟨-, hh, -⟩
          · rw [← hh]; exact hn
          · rw [hn] at hh; simp at hh
        rw [Michael.openOf_append, Michael.openOf_append, hpreopen t2 hold, openOf_helped hnd,
          hent_of_new_none hn, openOf_nil_of_tid (by exact fun e => ht e.symm)]
        simp
    · intro t2 r2
      rw [hlog]; simp only [gnext]
      by_cases ht : t2 = t
      · subst ht; rw [h2]; intro h; simp at h; subst h
        refine ⟨op, k, hk, ?_⟩
        rw [Michael.openOf_append, Michael.openOf_append, hpreopen t2 h1, openOf_helped hnd, hent_self]
        simp [openOf]
      · intro hn
        have hne : ¬ ((⟨t, op, r, k, none⟩ : LE).tid = t2) := fun e => ht e.symm
        rw [Michael.openOf_append, Michael.openOf_append, openOf_helped hnd, openOf_nil_of_tid hne]
        rcases hoth t2 ht with hh | ⟨hh1, hh2, kk, hh3, -⟩
        · rw [hh] at hn
          obtain ⟨op2, k2, h3, h4⟩ := hpost t2 r2 hn
          refine ⟨op2, k2, h3, ?_⟩
          rw [h4, hent_of_old_some (by rw [hn]; simp)]
          simp
        · obtain ⟨k2, hk2⟩ := hpre t2 _ hh3
          have hin : t2 ∈ g.act := hmem t2 (by rw [hk2]; simp)
          refine ⟨_, k2, hk2, ?_⟩
          rw [hpreopen t2 hh1, hent_loser ht hh1 hn hk2]
          simp [hin]
    · intro t2
      simp only [gnext]
      by_cases ht : t2 = t
      · subst ht; intro h; exact absurd h hbusy.2
      · rw [hframe t2 ht]; exact hidle t2
    · exact hnd
    · exact hmem
  · have hHnil : helped g.act t (lpOf g.s) (lpOf s') g.pend = [] := helped_nil (hsame hLP)
    by_cases hAB : (∃ r, lpOf g.s t = some r) ∧ lpOf s' t = none
    · -- a tentative linearization is withdrawn
      obtain ⟨⟨r, h1⟩, h2⟩ := hAB
      have hro : ∃ op, opOf g.s.key g.s.val (g.s.pc t) = some op ∧ isRO op r = true := by
        rcases hkeep r h1 with h | h
        · rw [show lpRet (mk0 s'.mark) s'.key s'.val (s'.pc t) = none from h2] at h; simp at h
        · exact h.1
      have hhas := hnolp (Or.inr h2)
      obtain ⟨op, k, hk, hopen⟩ := hpost t r h1
      have hlog : (gnext g t s' (.ev ev)).log = dropOpen t g.log := by
        simp only [gnext, h1, h2, hHnil, List.append_nil]
      constructor
      · refine ⟨m, ?_, fun k v => (hm2 k v).trans (by simpa only [gnext] using (hhas k v).symm)⟩
        rw [hlog]
        apply Michael.runSpec_dropOpen _ _ _ _ _ hm1
        intro e he; rw [hopen] at he; simp at he; rw [he]
        obtain ⟨op', ho1, ho2⟩ := hro
        obtain ⟨k', hk'⟩ := hpre t op' ho1
        rw [hk] at hk'; simp at hk'
        simp only; rw [hk'.1]; exact ho2
      · rw [hlog]; intro e he; have := hinvlt e (Michael.mem_dropOpen he); simp only [gnext]; omega
      · rw [hlog]; exact hrt.sublist (Michael.dropOpen_sublist t g.log)
      · rw [hlog, Michael.completed_dropOpen]; exact hcomp
      · intro t2 op2 k2 h
        simp only [gnext] at h ⊢
        have := hpendlt t2 op2 k2 h; omega
      · intro t2 op2
        simp only [gnext]
        by_cases ht : t2 = t
        · subst ht; exact hpre' op2
        · rw [hframe t2 ht, hkey, hval]; exact hpre t2 op2
      · intro t2
        rw [hlog]; simp only [gnext]
        by_cases ht : t2 = t
        · subst ht; intro _; exact Michael.openOf_dropOpen_same _ _
        · rw [hsame hLP t2 ht, Michael.openOf_dropOpen_other _ _ ht]; exact hpreopen t2
      · intro t2 r2
        rw [hlog]; simp only [gnext]
        by_cases ht : t2 = t
        · subst ht; rw [h2]; intro h; simp at h
        · rw [hsame hLP t2 ht, Michael.openOf_dropOpen_other _ _ ht]; exact hpost t2 r2
      · intro t2
        simp only [gnext]
        by_cases ht : t2 = t
        · subst ht; intro h; exact absurd h hbusy.2
        · rw [hframe t2 ht]; exact hidle t2
      · exact hnd
      · exact hmem
    · -- neither
      have hEq : lpOf s' t = lpOf g.s t := by
        cases h1 : lpOf g.s t with
        | none =>
          cases h2 : lpOf s' t with
          | none => rfl
          | some r => exact absurd ⟨h1, r, h2⟩ hLP
        | some r =>
          rcases hkeep r h1 with h | h
          · exact h
          · exact absurd ⟨⟨r, h1⟩, h.2⟩ hAB
      have hc' : lpRet (mk0 g.s.mark) g.s.key g.s.val (g.s.pc t) ≠ none ∨
          lpRet (mk0 s'.mark) s'.key s'.val (s'.pc t) = none := by
        cases h1 : lpOf g.s t with
        | none => right; have := hEq; rw [h1] at this; exact this
        | some r => left; intro e; rw [show lpRet (mk0 g.s.mark) g.s.key g.s.val (g.s.pc t) = some r from h1] at e; simp at e
      have hhas := hnolp hc'
      have hlog : (gnext g t s' (.ev ev)).log = g.log := by
        simp only [gnext, hHnil, List.append_nil]
        split
        next h1 h2 _ => exact absurd ⟨h1, _, h2⟩ hLP
        next h1 h2 => exact absurd ⟨⟨_, h1⟩, h2⟩ hAB
        next => rfl
      constructor
      · refine ⟨m, by rw [hlog]; exact hm1, fun k v => (hm2 k v).trans (by simpa only [gnext] using (hhas k v).symm)⟩
      · rw [hlog]; intro e he; have := hinvlt e he; simp only [gnext]; omega
      · rw [hlog]; exact hrt
      · rw [hlog]; exact hcomp
      · intro t2 op2 k2 h
        simp only [gnext] at h ⊢
        have := hpendlt t2 op2 k2 h; omega
      · intro t2 op2
        simp only [gnext]
        by_cases ht : t2 = t
        · subst ht; exact hpre' op2
        · rw [hframe t2 ht, hkey, hval]; exact hpre t2 op2
      · intro t2
        rw [hlog]; simp only [gnext]
        by_cases ht : t2 = t
        · subst ht; rw [hEq]; exact hpreopen t2
        · rw [hsame hLP t2 ht]; exact hpreopen t2
      · intro t2 r2
        rw [hlog]; simp only [gnext]
        by_cases ht : t2 = t
        · subst ht; rw [hEq]; exact hpost t2 r2
        · rw [hsame hLP t2 ht]; exact hpost t2 r2
      · intro t2
        simp only [gnext]
        by_cases ht : t2 = t
        · subst ht; intro h; exact absurd h hbusy.2
        · rw [hframe t2 ht]; exact hidle t2
      · exact hnd
      · exact hmem

theorem gnext_s (g : GSt) (t : Tid) (s' : St) (o : Obs) : (gnext g t s' o).s = s' := by
  cases o <;> simp only [gnext]
  split <;> rfl

theorem gnext_clock (g : GSt) (t : Tid) (s' : St) (o : Obs) : (gnext g t s' o).clock = g.clock + 1 := by
  cases o <;> simp only [gnext]
  split <;> rfl

theorem gnext_hist (g : GSt) (t : Tid) (s' : St) (o : Obs) (os : List (Tid × Obs)) :
    (gnext g t s' o).hist ++ histAux (g.clock + 1) (gnext g t s' o).pend os
      = g.hist ++ histAux g.clock g.pend ((t, o) :: os) := by
  cases o with
  | call op => simp only [gnext, histAux]
  | ev e => simp only [gnext, histAux]
  | ret r =>
    simp only [gnext, histAux]
    cases hp : g.pend t with
    | none => simp only
    | some p => obtain ⟨op, k⟩ := p; simp only [List.append_assoc, List.singleton_append]

theorem gnext_pend (g : GSt) (t : Tid) (s' : St) (o : Obs) (os : List (Tid × Obs)) :
    pendAux (g.clock + 1) (gnext g t s' o).pend os = pendAux g.clock g.pend ((t, o) :: os) := by
  cases o with
  | call op => simp only [gnext, pendAux]
  | ev e => simp only [gnext, pendAux]
  | ret r =>
    simp only [gnext, pendAux]
    cases hp : g.pend t with
    | none => simp only
    | some p => obtain ⟨op, k⟩ := p; simp only

theorem ginv_apply {c : Cfg} (hc : 0 < c.maxH) (hmt : c.markTest = true) {g : GSt} {t : Tid} {a : Act} {s' : St} {o : Obs}
    (h : GInv c g) (hap : (model c).apply g.s t a = some (s', o)) : GInv c (gnext g t s' o) := by
  cases a with
  | invoke op =>
    simp only [Model.apply, model, Option.map_eq_some_iff] at hap
    obtain ⟨s1, hs1, heq⟩ := hap
    simp only [Prod.mk.injEq] at heq
    obtain ⟨rfl, rfl⟩ := heq
    exact ginv_invoke h hs1
  | step =>
    simp only [Model.apply, model, Option.map_eq_some_iff] at hap
    obtain ⟨⟨s1, e⟩, hs1, heq⟩ := hap
    simp only [Prod.mk.injEq] at heq
    obtain ⟨rfl, rfl⟩ := heq
    exact ginv_step hc hmt h hs1
  | ret =>
    simp only [Model.apply, model, Option.map_eq_some_iff] at hap
    obtain ⟨⟨s1, r⟩, hs1, heq⟩ := hap
    simp only [Prod.mk.injEq] at heq
    obtain ⟨rfl, rfl⟩ := heq
    exact ginv_result h hs1

/-- Every run of the model lifts to an instrumented run. -/
theorem run_ghost {c : Cfg} (hc : 0 < c.maxH) (hmt : c.markTest = true) :
    ∀ (sched : List (Tid × Act)) (g : GSt) (s' : St) (os : List (Tid × Obs)),
    GInv c g → (model c).run g.s sched = some (s', os) →
    ∃ g', GInv c g' ∧ g'.s = s' ∧ g'.hist = g.hist ++ histAux g.clock g.pend os ∧
      g'.pend = pendAux g.clock g.pend os ∧ g'.clock = g.clock + os.length := by
  intro sched
  induction sched with
  | nil =>
    intro g s' os hg hr
    simp [Model.run] at hr
    obtain ⟨rfl, rfl⟩ := hr
    exact ⟨g, hg, rfl, by simp [histAux], by simp [pendAux], by simp⟩
  | cons x rest ih =>
    intro g s' os hg hr
    obtain ⟨t, a⟩ := x
    simp only [Model.run] at hr
    cases hap : (model c).apply g.s t a with
    | none => simp [hap] at hr
    | some p =>
      obtain ⟨s1, o⟩ := p
      simp only [hap] at hr
      cases hrr : (model c).run s1 rest with
      | none => simp [hrr] at hr
      | some q =>
        obtain ⟨s2, os2⟩ := q
        simp only [hrr, Option.some.injEq, Prod.mk.injEq] at hr
        obtain ⟨rfl, rfl⟩ := hr
        have hg1 := ginv_apply hc hmt hg hap
        have hrr' : (model c).run (gnext g t s1 o).s rest = some (s2, os2) := by rw [gnext_s]; exact hrr
        obtain ⟨g', hg', hs', hh, hp, hcl⟩ := ih (gnext g t s1 o) s2 os2 hg1 hrr'
        refine ⟨g', hg', hs', ?_, ?_, ?_⟩
        · rw [hh, gnext_clock, gnext_hist]
        · rw [hp, gnext_clock, gnext_pend]
        · rw [hcl, gnext_clock]; simp; omega

/-- The linearization extracted from the ghost log. -/
theorem ginv_linearizable {c : Cfg} {g : GSt} (h : GInv c g) :
    Linearizable Spec.map (g.hist ++ (openAll (finalLog g.log)).map (LE.fin g.clock)) ∧
    (∀ e ∈ (openAll (finalLog g.log)).map (LE.fin g.clock),
        g.pend e.tid = some (e.op, e.inv) ∧ e.res = g.clock ∧ postRet g.s.val (g.s.pc e.tid) = some e.ret) ∧
    ((openAll (finalLog g.log)).map (LE.fin g.clock)).Pairwise (fun a b => a.tid ≠ b.tid) := by
  obtain ⟨L, hl, hg⟩ := h
  obtain ⟨hspec, hinvlt, hrt, hcomp, hpendlt, hpre, hpreopen, hpost, hidle, -, -⟩ := hg
  obtain ⟨m, hm1, -⟩ := hspec
  have hsub : (finalLog g.log).Sublist g.log := List.filter_sublist
  have hcompl : completed (finalLog g.log) = completed g.log :=
    Michael.completed_filter_open keepLE g.log (fun e _ hk => (Michael.keepLE_false hk).1)
  refine ⟨⟨(finalLog g.log).map (LE.fin g.clock), ?_, ?_, ?_⟩, ?_, ?_⟩
  · refine (Michael.completed_openAll_perm g.clock (finalLog g.log)).symm.trans (List.Perm.append_right _ ?_)
    rw [hcompl]; exact hcomp
  · unfold RespectsRT
    rw [List.pairwise_map]
    refine List.Pairwise.imp_of_mem ?_ (hrt.sublist hsub)
    intro a b ha _ hab
    simp only [LE.fin]
    cases hr : b.res with
    | none => have := hinvlt a (hsub.subset ha); simp; omega
    | some r => have := hab r hr; simp; omega
  · exact Michael.legal_of_runSpec g.clock (finalLog g.log) [] _
      (Michael.runSpec_filter keepLE g.log [] _ (fun e _ hk => (Michael.keepLE_false hk).2) hm1)
  · intro e' he'
    obtain ⟨e, he, rfl⟩ := List.mem_map.mp he'
    have he2 := List.mem_filter.mp he
    have he3 := List.mem_filter.mp he2.1
    have hr : e.res = none := by cases h : e.res <;> simp_all
    have hr0 : isRO e.op e.ret ≠ true := by
      intro h0
      have := he3.2
      simp [keepLE, hr, h0] at this
    have hmem : e ∈ openOf e.tid g.log := by
      simp only [openOf, List.mem_filter]; exact ⟨he3.1, by simp [hr]⟩
    cases hp : lpOf g.s e.tid with
    | none => rw [hpreopen e.tid hp] at hmem; simp at hmem
    | some r =>
      obtain ⟨op, k, h1, h2⟩ := hpost e.tid r hp
      rw [h2] at hmem
      simp at hmem
      have e1 : e.op = op := by rw [hmem]
      have e2 : e.inv = k := by rw [hmem]
      have e3 : e.ret = r := by rw [hmem]
      have hpr : postRet g.s.val (g.s.pc e.tid) = some r := by
        cases hq : postRet g.s.val (g.s.pc e.tid) with
        | some r' =>
          have := lpRet_of_post (mk := mk0 g.s.mark) (key := g.s.key) hq
          rw [show lpRet (mk0 g.s.mark) g.s.key g.s.val (g.s.pc e.tid) = some r from hp] at this
          simp at this; rw [this]
        | none =>
          obtain ⟨op', ho1, ho2⟩ := ro_of_tentative (mk := mk0 g.s.mark) (key := g.s.key) hp hq
          obtain ⟨k', hk'⟩ := hpre e.tid op' ho1
          rw [h1] at hk'; simp at hk'
          rw [e1, e3, hk'.1] at hr0
          exact absurd ho2 hr0
      simp [LE.fin, hr, h1, e1, e2, e3, hpr]
  · rw [List.pairwise_map]
    refine (Michael.openAll_pairwise g.log ?_).sublist (Michael.openAll_finalLog_sublist g.log)
    intro t
    cases hp : lpOf g.s t with
    | none => rw [hpreopen t hp]; simp
    | some r => obtain ⟨op, k, -, h2⟩ := hpost t r hp; rw [h2]; simp

/-! ### Main theorems -/

/-- **Linearizability of the lock-free skip list** (repaired fast path; Herlihy–Wing with completion of pending
    operations), in the form of `Michael.michael_linearizable`. -/
theorem skiplist_linearizable {c : Cfg} (hc : 0 < c.maxH) (hmt : c.markTest = true) (sched : List (Tid × Act)) (s : St)
    (os : List (Tid × Obs)) (h : (model c).run (init c) sched = some (s, os)) :
    ∃ extra : List (OpRec GOp GRet),
      (∀ e ∈ extra, Michael.pendingOf os e.tid = some (e.op, e.inv) ∧ e.res = os.length ∧
          postRet s.val (s.pc e.tid) = some e.ret) ∧
      extra.Pairwise (fun a b => a.tid ≠ b.tid) ∧
      Linearizable Spec.map (Michael.historyOf os ++ extra) := by
  obtain ⟨g, hg, rfl, h2, h3, h4⟩ := run_ghost hc hmt sched (ginit c) s os (ginv_init c) h
  obtain ⟨hlin, hex, hpw⟩ := ginv_linearizable hg
  have h2' : g.hist = Michael.historyOf os := by simpa [ginit, Michael.historyOf] using h2
  have h3' : g.pend = Michael.pendingOf os := by simpa [ginit, Michael.pendingOf] using h3
  have h4' : g.clock = os.length := by simpa [ginit] using h4
  rw [h2', h4'] at hlin; rw [h3', h4'] at hex; rw [h4'] at hpw
  exact ⟨_, hex, hpw, hlin⟩

theorem skiplist_linearizable_no_effect_pending {c : Cfg} (hc : 0 < c.maxH) (hmt : c.markTest = true)
    (sched : List (Tid × Act)) (s : St) (os : List (Tid × Obs)) (h : (model c).run (init c) sched = some (s, os))
    (hq : ∀ t, postRet s.val (s.pc t) = none) : Linearizable Spec.map (Michael.historyOf os) := by
  obtain ⟨extra, hex, -, hlin⟩ := skiplist_linearizable hc hmt sched s os h
  have : extra = [] := by
    apply List.eq_nil_iff_forall_not_mem.mpr
    intro e he
    have := (hex e he).2.2
    rw [hq] at this; simp at this
  simpa [this] using hlin

theorem skiplist_linearizable_complete_runs {c : Cfg} (hc : 0 < c.maxH) (hmt : c.markTest = true)
    (sched : List (Tid × Act)) (s : St) (os : List (Tid × Obs)) (h : (model c).run (init c) sched = some (s, os))
    (hq : ∀ t, s.pc t = .idle) : Linearizable Spec.map (Michael.historyOf os) :=
  skiplist_linearizable_no_effect_pending hc hmt sched s os h (fun t => by simp [hq t, postRet])

/-- The invariant holds in every state of every run. -/
theorem sinv_run {c : Cfg} (hc : 0 < c.maxH) (hmt : c.markTest = true) (sched : List (Tid × Act)) (s : St)
    (os : List (Tid × Obs)) (h : (model c).run (init c) sched = some (s, os)) : ∃ L, SInvL c s L := by
  obtain ⟨g, ⟨L, hl, -⟩, rfl, -⟩ := run_ghost hc hmt sched (ginit c) s os (ginv_init c) h
  exact ⟨L, hl⟩

end CdsVerif.Algo.SkipList

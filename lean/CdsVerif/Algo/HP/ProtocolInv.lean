/-
  The inductive invariant of the hazard-pointer protocol machine (`Algo/HP/Protocol.lean`), preserved by
  every enabled action of every thread - hence true in every reachable state, for every configuration
  (`H`, `T`, `R`), every schedule and every client program.

  Conjuncts (names of the fields of `PInv`):
    (I0) allocation: `cnt_pos fresh_hi fresh_zero` - objects at or above the counter, and the null address 0,
         are `fresh`;
    (I1) places: a cell holds only `live` objects and an object is in at most one cell (`cell_live cell_inj`);
         an object that a `swap`/`take` has unlinked and not yet pushed is `live`, in no cell, and in flight in
         exactly one thread (`flight_live flight_cell flight_inj`); a retired array holds only `retired`
         objects (`ret_st`); the disposer log is exactly the set of `disposed` objects (`log_st`);
    (I2) the retired arrays are duplicate-free and pairwise disjoint, the disposer log is duplicate-free
         (`ret_nodup ret_disj log_nodup`);
    (I3) a validated guard's slot still holds the pointer (`guard_slot`), guards live in existing slots
         (`guard_rng`), and - THE SAFETY PROPERTY - a guarded object is `live` or `retired` (`guard_ok`);
    (I4) a thread in the middle of a scan that has already read slot (u,g): if `guard u g = some p` and `p` is in
         the scanner's retired array then `p` is in its plist (`scan_cov` while loading, `scan_all` at the
         decision step, where every slot has been read);
    (I5) a thread between its hazard store and its validating re-load claims nothing about its candidate
         (`protChk_slot` only records that the slot holds it).  When the validation succeeds the candidate is in
         the cell at that step, hence `live`, hence in nobody's retired array (`cell_live`, `ret_st`): this
         is what keeps (I4) true when a guard becomes validated after a scanner has passed its slot.
    bookkeeping: `scan_rng busy_rng protLd_rng protSt_rng deref_ok`.

  Further down:
    * `obj_step` / `obj_apply`: the life cycle fresh -> live -> retired -> disposed only moves forward;
    * `Quiet` and `quiet_step` / `quiet_apply`: "nothing refers to the retired object p any more" is stable;
    * `decide_unguarded`, `disposed_step`, `decide_step`, `use_event`: facts about single steps;
    * `PPlace` (second invariant, on top of `PInv`): completeness of the places - a live object is in a cell or in
      flight, a retired object is in some retired array (nothing is lost);
    * `obs_of_inductive`: run-level lifting of a property of actions.

  Proof style: one lemma per program counter (and per branch where the per-declaration heartbeat budget requires
  it), each closed by `constructor <;> intros <;> grind [upd, upd2]` over the 24 conjuncts.
-/
import CdsVerif.Algo.HP.Protocol
import CdsVerif.Props.C01
import CdsVerif.Props.C03
namespace CdsVerif.Algo.HP.Protocol
open CdsVerif.Machine CdsVerif.Spec CdsVerif.Algo.HP

structure Decision (acc rl kept freed : List Ptr) : Prop where
  kept_sub : ∀ p, p ∈ kept → p ∈ rl
  freed_sub : ∀ p, p ∈ freed → p ∈ rl
  split : ∀ p, p ∈ rl → p ∈ kept ∨ p ∈ freed
  disj : ∀ p, p ∈ kept → p ∉ freed
  kept_nodup : kept.Nodup
  freed_nodup : freed.Nodup
  safe : ∀ p, p ∈ freed → p ≠ 0 → p ∉ acc
  live : ∀ p, p ∈ rl → p ∉ acc → p ∈ freed

theorem decision (acc rl : List Ptr) (hnd : rl.Nodup) :
    Decision acc rl (classicScan acc rl).1 (classicScan acc rl).2 := by
  have hperm := CdsVerif.Props.C03.C03_classic_scan_partition acc rl
  have hnd2 : ((classicScan acc rl).1 ++ (classicScan acc rl).2).Nodup := hperm.nodup_iff.mpr hnd
  rw [List.nodup_append] at hnd2
  constructor
  · intro p hp; exact hperm.mem_iff.mp (List.mem_append_left _ hp)
  · intro p hp; exact hperm.mem_iff.mp (List.mem_append_right _ hp)
  · intro p hp; exact List.mem_append.mp (hperm.mem_iff.mpr hp)
  · intro p hk hf; exact hnd2.2.2 p hk p hf rfl
  · exact hnd2.1
  · exact hnd2.2.1
  · exact CdsVerif.Props.C01.C01_classic_scan_frees_no_hazard acc rl
  · intro p hp hn; exact CdsVerif.Props.C03.C03_classic_unprotected_freed acc rl p hp hn

structure PInv (cfg : Cfg) (s : St) : Prop where
  cnt_pos : 1 ≤ s.cnt
  fresh_hi : ∀ p, s.cnt ≤ p → s.obj p = .fresh
  fresh_zero : s.obj 0 = .fresh
  cell_live : ∀ c p, s.cells c = some p → s.obj p = .live
  cell_inj : ∀ c1 c2 p, s.cells c1 = some p → s.cells c2 = some p → c1 = c2
  flight_live : ∀ t p r, s.pc t = .swapRet p r → s.obj p = .live
  flight_cell : ∀ t p r c, s.pc t = .swapRet p r → s.cells c ≠ some p
  flight_inj : ∀ t1 t2 p r1 r2, s.pc t1 = .swapRet p r1 → s.pc t2 = .swapRet p r2 → t1 = t2
  ret_st : ∀ t p, p ∈ s.retired t → s.obj p = .retired
  ret_nodup : ∀ t, (s.retired t).Nodup
  ret_disj : ∀ t1 t2 p, p ∈ s.retired t1 → p ∈ s.retired t2 → t1 = t2
  log_st : ∀ p, p ∈ s.log ↔ s.obj p = .disposed
  log_nodup : s.log.Nodup
  guard_slot : ∀ t g p, s.guard t g = some p → s.slots t g = some p
  guard_rng : ∀ t g p, s.guard t g = some p → t < cfg.T ∧ g < cfg.H
  guard_ok : ∀ t g p, s.guard t g = some p → s.obj p = .live ∨ s.obj p = .retired
  scan_cov : ∀ sc su sg acc r u g p, s.pc sc = .scanLd su sg acc r →
      s.guard u g = some p → p ∈ s.retired sc → p ∈ acc ∨ su < u ∨ (su = u ∧ sg ≤ g)
  scan_all : ∀ sc acc r u g p, s.pc sc = .scanDecide acc r →
      s.guard u g = some p → p ∈ s.retired sc → p ∈ acc
  scan_rng : ∀ t u g acc r, s.pc t = .scanLd u g acc r → u < cfg.T ∧ g < cfg.H
  deref_ok : ∀ t g, s.pc t = .derefRd g → ∃ p, s.guard t g = some p
  busy_rng : ∀ t, s.pc t ≠ .idle → t < cfg.T
  protLd_rng : ∀ t g c, s.pc t = .protLd g c → g < cfg.H
  protSt_rng : ∀ t g c p, s.pc t = .protSt g c p → g < cfg.H
  protChk_slot : ∀ t g c p, s.pc t = .protChk g c p → g < cfg.H ∧ s.slots t g = p

theorem pinv_init (cfg : Cfg) : PInv cfg init := by
  constructor <;> simp [init]

macro "pinv_close" : tactic =>
  `(tactic| (constructor <;> intros <;> (try dsimp only at *) <;> grind [upd, upd2]))

theorem pinv_protLd {cfg : Cfg} {s s' : St} {t : Tid} {ev : Ev} {g c : Nat}
    (h : PInv cfg s) (hpc : s.pc t = .protLd g c) (hs : step cfg s t = some (s', ev)) : PInv cfg s' := by
  obtain ⟨h1, h2, h3, h4, h5, h6, h7, h8, h9, h10, h11, h12, h13, h14, h15, h16, h17, h18, h19, h20, h21, h22, h23, h24⟩ := h
  simp only [step, hpc] at hs
  simp at hs; obtain ⟨rfl, -⟩ := hs
  pinv_close

theorem pinv_protSt {cfg : Cfg} {s s' : St} {t : Tid} {ev : Ev} {g c : Nat} {p : Option Ptr}
    (h : PInv cfg s) (hpc : s.pc t = .protSt g c p) (hs : step cfg s t = some (s', ev)) : PInv cfg s' := by
  obtain ⟨h1, h2, h3, h4, h5, h6, h7, h8, h9, h10, h11, h12, h13, h14, h15, h16, h17, h18, h19, h20, h21, h22, h23, h24⟩ := h
  simp only [step, hpc] at hs
  simp at hs; obtain ⟨rfl, -⟩ := hs
  pinv_close

theorem pinv_protChk {cfg : Cfg} {s s' : St} {t : Tid} {ev : Ev} {g c : Nat} {p : Option Ptr}
    (h : PInv cfg s) (hpc : s.pc t = .protChk g c p) (hs : step cfg s t = some (s', ev)) : PInv cfg s' := by
  obtain ⟨h1, h2, h3, h4, h5, h6, h7, h8, h9, h10, h11, h12, h13, h14, h15, h16, h17, h18, h19, h20, h21, h22, h23, h24⟩ := h
  simp only [step, hpc] at hs
  split at hs
  · simp at hs; obtain ⟨rfl, -⟩ := hs
    pinv_close
  · simp at hs; obtain ⟨rfl, -⟩ := hs
    pinv_close

theorem pinv_clearSt {cfg : Cfg} {s s' : St} {t : Tid} {ev : Ev} {g : Nat}
    (h : PInv cfg s) (hpc : s.pc t = .clearSt g) (hs : step cfg s t = some (s', ev)) : PInv cfg s' := by
  obtain ⟨h1, h2, h3, h4, h5, h6, h7, h8, h9, h10, h11, h12, h13, h14, h15, h16, h17, h18, h19, h20, h21, h22, h23, h24⟩ := h
  simp only [step, hpc] at hs
  simp at hs; obtain ⟨rfl, -⟩ := hs
  pinv_close

theorem pinv_swapX_alloc {cfg : Cfg} {s s' : St} {t : Tid} {ev : Ev} {c : Nat}
    (h : PInv cfg s) (hpc : s.pc t = .swapX c true) (hs : step cfg s t = some (s', ev)) : PInv cfg s' := by
  obtain ⟨h1, h2, h3, h4, h5, h6, h7, h8, h9, h10, h11, h12, h13, h14, h15, h16, h17, h18, h19, h20, h21, h22, h23, h24⟩ := h
  have hf := h2 s.cnt (Nat.le_refl _)
  simp only [step, hpc] at hs
  split at hs
  · simp at hs; obtain ⟨rfl, -⟩ := hs
    pinv_close
  · simp at hs; obtain ⟨rfl, -⟩ := hs
    pinv_close

theorem pinv_swapX_take {cfg : Cfg} {s s' : St} {t : Tid} {ev : Ev} {c : Nat}
    (h : PInv cfg s) (hpc : s.pc t = .swapX c false) (hs : step cfg s t = some (s', ev)) : PInv cfg s' := by
  obtain ⟨h1, h2, h3, h4, h5, h6, h7, h8, h9, h10, h11, h12, h13, h14, h15, h16, h17, h18, h19, h20, h21, h22, h23, h24⟩ := h
  simp only [step, hpc] at hs
  split at hs
  · simp at hs; obtain ⟨rfl, -⟩ := hs
    pinv_close
  · simp at hs; obtain ⟨rfl, -⟩ := hs
    pinv_close

theorem nodup_snoc {l : List Ptr} {p : Ptr} (h : l.Nodup) (hp : p ∉ l) : (l ++ [p]).Nodup := by
  rw [List.nodup_append]
  refine ⟨h, by simp, ?_⟩
  intro a ha b hb; simp at hb; subst hb; intro e; exact hp (e ▸ ha)

theorem upd_upd {α : Type} (f : Nat → α) (i : Nat) (v w : α) : upd (upd f i v) i w = upd f i w := by
  funext j; by_cases h : j = i <;> simp [upd, h]

/-- A thread that has no pending obligation starts a scan. -/
theorem pinv_goto_scan {cfg : Cfg} {s : St} {t : Tid} {r0 r : GRet}
    (h : PInv cfg s) (hpc : s.pc t = .idle ∨ s.pc t = .done r0) (ht : t < cfg.T) :
    PInv cfg { s with pc := upd s.pc t (scanStart cfg r) } := by
  have hpc := hpc
  obtain ⟨h1, h2, h3, h4, h5, h6, h7, h8, h9, h10, h11, h12, h13, h14, h15, h16, h17, h18, h19, h20, h21, h22, h23, h24⟩ := h
  unfold scanStart
  split
  · pinv_close
  · pinv_close

theorem pinv_swapRet_core {cfg : Cfg} {s : St} {t : Tid} {p : Ptr} {r : GRet}
    (h : PInv cfg s) (hpc : s.pc t = .swapRet p r) :
    PInv cfg { s with retired := upd s.retired t (s.retired t ++ [p]), obj := upd s.obj p .retired,
                      pc := upd s.pc t (.done r) } := by
  obtain ⟨h1, h2, h3, h4, h5, h6, h7, h8, h9, h10, h11, h12, h13, h14, h15, h16, h17, h18, h19, h20, h21, h22, h23, h24⟩ := h
  have hlive := h6 t p r hpc
  have hnr : ∀ u, p ∉ s.retired u := fun u hm => by have := h9 u p hm; simp_all
  have hnd := nodup_snoc (h10 t) (hnr t)
  pinv_close

theorem pinv_swapRet {cfg : Cfg} {s s' : St} {t : Tid} {ev : Ev} {p : Ptr} {r : GRet}
    (h : PInv cfg s) (hpc : s.pc t = .swapRet p r) (hs : step cfg s t = some (s', ev)) : PInv cfg s' := by
  have hcore := pinv_swapRet_core h hpc
  have ht := h.busy_rng t (by simp [hpc])
  simp only [step, hpc] at hs
  simp at hs; obtain ⟨rfl, -⟩ := hs
  split
  · exact hcore
  · have := pinv_goto_scan (r0 := r) (r := r) hcore (by simp) ht
    simpa [upd_upd] using this

theorem mem_collect {acc : List Ptr} {v : Option Ptr} {p : Ptr} :
    p ∈ collect acc v ↔ p ∈ acc ∨ v = some p := by
  cases v <;> simp [collect, eq_comm]

theorem pinv_scanLd_a {cfg : Cfg} {s : St} {t : Tid} {u g : Nat} {acc acc' : List Ptr} {r : GRet}
    (h : PInv cfg s) (hpc : s.pc t = .scanLd u g acc r) (hb : g + 1 < cfg.H)
    (key : ∀ p, p ∈ acc' ↔ p ∈ acc ∨ s.slots u g = some p) :
    PInv cfg { s with pc := upd s.pc t (.scanLd u (g + 1) acc' r) } := by
  obtain ⟨h1, h2, h3, h4, h5, h6, h7, h8, h9, h10, h11, h12, h13, h14, h15, h16, h17, h18, h19, h20, h21, h22, h23, h24⟩ := h
  pinv_close

theorem pinv_scanLd_b {cfg : Cfg} {s : St} {t : Tid} {u g : Nat} {acc acc' : List Ptr} {r : GRet}
    (h : PInv cfg s) (hpc : s.pc t = .scanLd u g acc r) (hb : ¬ g + 1 < cfg.H) (hb2 : u + 1 < cfg.T)
    (key : ∀ p, p ∈ acc' ↔ p ∈ acc ∨ s.slots u g = some p) :
    PInv cfg { s with pc := upd s.pc t (.scanLd (u + 1) 0 acc' r) } := by
  obtain ⟨h1, h2, h3, h4, h5, h6, h7, h8, h9, h10, h11, h12, h13, h14, h15, h16, h17, h18, h19, h20, h21, h22, h23, h24⟩ := h
  pinv_close

theorem pinv_scanLd_c {cfg : Cfg} {s : St} {t : Tid} {u g : Nat} {acc acc' : List Ptr} {r : GRet}
    (h : PInv cfg s) (hpc : s.pc t = .scanLd u g acc r) (hb : ¬ g + 1 < cfg.H) (hb2 : ¬ u + 1 < cfg.T)
    (key : ∀ p, p ∈ acc' ↔ p ∈ acc ∨ s.slots u g = some p) :
    PInv cfg { s with pc := upd s.pc t (.scanDecide acc' r) } := by
  obtain ⟨h1, h2, h3, h4, h5, h6, h7, h8, h9, h10, h11, h12, h13, h14, h15, h16, h17, h18, h19, h20, h21, h22, h23, h24⟩ := h
  pinv_close

theorem pinv_scanDecide_core {cfg : Cfg} {s : St} {t : Tid} {acc kept freed : List Ptr} {r : GRet}
    (h : PInv cfg s) (hpc : s.pc t = .scanDecide acc r) (hd : Decision acc (s.retired t) kept freed) :
    PInv cfg { s with retired := upd s.retired t kept,
                      obj := fun p => if p ∈ freed then .disposed else s.obj p,
                      log := s.log ++ freed,
                      pc := upd s.pc t (.done r) } := by
  obtain ⟨h1, h2, h3, h4, h5, h6, h7, h8, h9, h10, h11, h12, h13, h14, h15, h16, h17, h18, h19, h20, h21, h22, h23, h24⟩ := h
  obtain ⟨d1, d2, d3, d4, d5, d6, d7, d8⟩ := hd
  have hlog : (s.log ++ freed).Nodup := by
    rw [List.nodup_append]
    refine ⟨h13, d6, ?_⟩
    intro a ha b hb e
    have h1 := (h12 a).mp ha
    have h2 := h9 t b (d2 b hb)
    rw [e] at h1; rw [h1] at h2; cases h2
  have hfr : ∀ p, p ∈ freed → s.obj p = .retired := fun p hp => h9 t p (d2 p hp)
  pinv_close

theorem pinv_derefRd {cfg : Cfg} {s s' : St} {t : Tid} {ev : Ev} {g : Nat}
    (h : PInv cfg s) (hpc : s.pc t = .derefRd g) (hs : step cfg s t = some (s', ev)) : PInv cfg s' := by
  obtain ⟨h1, h2, h3, h4, h5, h6, h7, h8, h9, h10, h11, h12, h13, h14, h15, h16, h17, h18, h19, h20, h21, h22, h23, h24⟩ := h
  simp only [step, hpc] at hs
  split at hs
  · simp at hs; obtain ⟨rfl, -⟩ := hs
    pinv_close
  · simp at hs

theorem pinv_result {cfg : Cfg} {s s' : St} {t : Tid} {r : GRet}
    (h : PInv cfg s) (hs : result s t = some (s', r)) : PInv cfg s' := by
  obtain ⟨h1, h2, h3, h4, h5, h6, h7, h8, h9, h10, h11, h12, h13, h14, h15, h16, h17, h18, h19, h20, h21, h22, h23, h24⟩ := h
  unfold result at hs
  split at hs
  · simp at hs; obtain ⟨rfl, -⟩ := hs
    pinv_close
  · simp at hs

/-- The invocations that only set the program counter of an idle thread. -/
theorem pinv_call {cfg : Cfg} {s : St} {t : Tid} {q : PC}
    (h : PInv cfg s) (hpc : s.pc t = .idle) (ht : t < cfg.T)
    (hq : (∃ g c, q = .protLd g c ∧ g < cfg.H) ∨ (∃ g, q = .clearSt g) ∨ (∃ c b, q = .swapX c b) ∨
          (∃ g, q = .derefRd g ∧ (s.guard t g).isSome)) :
    PInv cfg { s with pc := upd s.pc t q } := by
  have hpc := hpc
  obtain ⟨h1, h2, h3, h4, h5, h6, h7, h8, h9, h10, h11, h12, h13, h14, h15, h16, h17, h18, h19, h20, h21, h22, h23, h24⟩ := h
  rcases hq with ⟨g, c, rfl, hg⟩ | ⟨g, rfl⟩ | ⟨c, b, rfl⟩ | ⟨g, rfl, hg⟩
  · pinv_close
  · pinv_close
  · pinv_close
  · rw [Option.isSome_iff_exists] at hg
    pinv_close

theorem pinv_invoke {cfg : Cfg} {s s' : St} {t : Tid} {op : GOp}
    (h : PInv cfg s) (hs : invoke cfg s t op = some s') : PInv cfg s' := by
  unfold invoke at hs
  split at hs
  next ht =>
    split at hs
    · split at hs
      · simp at hs; subst hs; exact pinv_call h (by assumption) ht (by grind)
      · simp at hs
    · split at hs
      · simp at hs; subst hs; exact pinv_call h (by assumption) ht (by grind)
      · simp at hs
    · simp at hs; subst hs; exact pinv_call h (by assumption) ht (by grind)
    · simp at hs; subst hs; exact pinv_call h (by assumption) ht (by grind)
    · simp at hs; subst hs; exact pinv_goto_scan (r0 := []) h (Or.inl (by assumption)) ht
    · split at hs
      · simp at hs; subst hs; exact pinv_call h (by assumption) ht (by grind)
      · simp at hs
    · simp at hs
  · simp at hs

/-! ### Every enabled action preserves the invariant -/

theorem pinv_step {cfg : Cfg} {s s' : St} {t : Tid} {ev : Ev}
    (h : PInv cfg s) (hs : step cfg s t = some (s', ev)) : PInv cfg s' := by
  cases hpc : s.pc t with
  | idle => simp [step, hpc] at hs
  | protLd g c => exact pinv_protLd h hpc hs
  | protSt g c p => exact pinv_protSt h hpc hs
  | protChk g c p => exact pinv_protChk h hpc hs
  | clearSt g => exact pinv_clearSt h hpc hs
  | swapX c b =>
    cases b
    · exact pinv_swapX_take h hpc hs
    · exact pinv_swapX_alloc h hpc hs
  | swapRet p r => exact pinv_swapRet h hpc hs
  | scanLd u g acc r =>
    simp only [step, hpc] at hs
    simp at hs; obtain ⟨rfl, -⟩ := hs
    unfold scanNext
    split
    · exact pinv_scanLd_a h hpc (by assumption) (fun _ => mem_collect)
    · split
      · exact pinv_scanLd_b h hpc (by assumption) (by assumption) (fun _ => mem_collect)
      · exact pinv_scanLd_c h hpc (by assumption) (by assumption) (fun _ => mem_collect)
  | scanDecide acc r =>
    simp only [step, hpc] at hs
    simp at hs; obtain ⟨rfl, -⟩ := hs
    exact pinv_scanDecide_core h hpc (decision acc _ (h.ret_nodup t))
  | derefRd g => exact pinv_derefRd h hpc hs
  | done r => simp [step, hpc] at hs

theorem pinv_apply (cfg : Cfg) (s : St) (t : Tid) (a : Act) (s' : St) (o : Obs)
    (h : PInv cfg s) (hap : (model cfg).apply s t a = some (s', o)) : PInv cfg s' := by
  cases a with
  | invoke op =>
    simp only [Model.apply, model, Option.map_eq_some_iff] at hap
    obtain ⟨s1, hs1, heq⟩ := hap
    simp only [Prod.mk.injEq] at heq
    obtain ⟨rfl, -⟩ := heq
    exact pinv_invoke h hs1
  | step =>
    simp only [Model.apply, model, Option.map_eq_some_iff] at hap
    obtain ⟨⟨s1, ev⟩, hr, heq⟩ := hap
    simp only [Prod.mk.injEq] at heq
    obtain ⟨rfl, -⟩ := heq
    exact pinv_step h hr
  | ret =>
    simp only [Model.apply, model, Option.map_eq_some_iff] at hap
    obtain ⟨⟨s1, r⟩, hr, heq⟩ := hap
    simp only [Prod.mk.injEq] at heq
    obtain ⟨rfl, -⟩ := heq
    exact pinv_result h hr

/-- The invariant holds in every reachable state: all configurations, all schedules, all client programs. -/
theorem pinv_reachable (cfg : Cfg) (s : St) (hr : (model cfg).Reachable init s) : PInv cfg s :=
  (model cfg).inv_reachable (PInv cfg) init (pinv_init cfg) (pinv_apply cfg) s hr

/-- ... and is preserved along every run from a state that satisfies it. -/
theorem pinv_run (cfg : Cfg) (sched : List (Tid × Act)) (s s' : St) (os : List (Tid × Obs))
    (h : PInv cfg s) (hr : (model cfg).run s sched = some (s', os)) : PInv cfg s' :=
  (model cfg).inv_of_inductive (PInv cfg) (pinv_apply cfg) sched s s' os h hr

/-! ### The life cycle of an object only moves forward -/

/-- one forward move in the life cycle -/
def ObjSt.Succ : ObjSt → ObjSt → Prop
  | .fresh, .live => True
  | .live, .retired => True
  | .retired, .disposed => True
  | _, _ => False

theorem obj_step {cfg : Cfg} {s s' : St} {t : Tid} {ev : Ev} (h : PInv cfg s)
    (hs : step cfg s t = some (s', ev)) (p : Ptr) :
    s'.obj p = s.obj p ∨ ObjSt.Succ (s.obj p) (s'.obj p) := by
  have hfr := h.fresh_hi s.cnt (Nat.le_refl _)
  cases hpc : s.pc t with
  | idle => simp [step, hpc] at hs
  | done r => simp [step, hpc] at hs
  | protLd g c => simp [step, hpc] at hs; obtain ⟨rfl, -⟩ := hs; simp
  | protSt g c q => simp [step, hpc] at hs; obtain ⟨rfl, -⟩ := hs; simp
  | protChk g c q =>
    simp only [step, hpc] at hs
    split at hs <;> simp at hs <;> obtain ⟨rfl, -⟩ := hs <;> simp
  | clearSt g => simp [step, hpc] at hs; obtain ⟨rfl, -⟩ := hs; simp
  | swapX c b =>
    cases b
    · simp only [step, hpc] at hs
      split at hs <;> simp at hs <;> obtain ⟨rfl, -⟩ := hs <;> simp
    · simp only [step, hpc] at hs
      split at hs <;> simp at hs <;> obtain ⟨rfl, -⟩ := hs <;> dsimp only <;>
        (by_cases e : p = s.cnt
         · subst e; simp [hfr, ObjSt.Succ]
         · simp [upd, e])
  | swapRet q r =>
    have hl := h.flight_live t q r hpc
    simp [step, hpc] at hs; obtain ⟨rfl, -⟩ := hs; dsimp only
    by_cases e : p = q
    · subst e; simp [hl, ObjSt.Succ]
    · simp [upd, e]
  | scanLd u g acc r => simp [step, hpc] at hs; obtain ⟨rfl, -⟩ := hs; simp
  | scanDecide acc r =>
    simp [step, hpc] at hs; obtain ⟨rfl, -⟩ := hs; dsimp only
    split
    next hm =>
      have := h.ret_st t p ((decision acc _ (h.ret_nodup t)).freed_sub p hm)
      simp [this, ObjSt.Succ]
    next => simp
  | derefRd g =>
    simp only [step, hpc] at hs
    split at hs <;> simp at hs
    obtain ⟨rfl, -⟩ := hs; simp

/-- the plist of a scanning thread -/
def accOf : PC → List Ptr
  | .scanLd _ _ acc _ => acc
  | .scanDecide acc _ => acc
  | _ => []

theorem accOf_scanStart (cfg : Cfg) (r : GRet) : accOf (scanStart cfg r) = [] := by
  unfold scanStart; split <;> rfl

theorem scanStart_cases (cfg : Cfg) (r : GRet) :
    scanStart cfg r = .scanLd 0 0 [] r ∨ scanStart cfg r = .scanDecide [] r := by
  unfold scanStart; split <;> simp

/-- An invocation only moves the program counter of an idle thread, to the start of an operation. -/
theorem invoke_frame {cfg : Cfg} {s s' : St} {t : Tid} {op : GOp} (hs : invoke cfg s t op = some s') :
    ∃ q, s' = { s with pc := upd s.pc t q } ∧ s.pc t = .idle ∧ accOf q = [] ∧ (∀ g c v, q ≠ .protSt g c v) := by
  unfold invoke at hs
  split at hs
  · split at hs
    · split at hs <;> simp at hs; subst hs; exact ⟨_, rfl, by assumption, rfl, by simp⟩
    · split at hs <;> simp at hs; subst hs; exact ⟨_, rfl, by assumption, rfl, by simp⟩
    · simp at hs; subst hs; exact ⟨_, rfl, by assumption, rfl, by simp⟩
    · simp at hs; subst hs; exact ⟨_, rfl, by assumption, rfl, by simp⟩
    · simp at hs; subst hs
      exact ⟨_, rfl, by assumption, accOf_scanStart _ _, by intro g c v; rcases scanStart_cases cfg [] with e | e <;> simp [e]⟩
    · split at hs <;> simp at hs; subst hs; exact ⟨_, rfl, by assumption, rfl, by simp⟩
    · simp at hs
  · simp at hs

/-- `p` is retired (or already disposed) and nothing refers to it any more: no hazard slot holds it, no
    `protect` is about to store it, and scanner `sc` has not collected it. -/
structure Quiet (s : St) (sc : Tid) (p : Ptr) : Prop where
  gone : s.obj p = .retired ∨ s.obj p = .disposed
  noslot : ∀ u g, s.slots u g ≠ some p
  nocand : ∀ t g c, s.pc t ≠ .protSt g c (some p)
  noacc : p ∉ accOf (s.pc sc)

theorem quiet_step {cfg : Cfg} {s s' : St} {t : Tid} {ev : Ev} {sc : Tid} {p : Ptr} (h : PInv cfg s)
    (hq : Quiet s sc p) (hs : step cfg s t = some (s', ev)) : Quiet s' sc p := by
  obtain ⟨q1, q2, q3, q4⟩ := hq
  have hst := obj_step h hs p
  have hgone : s'.obj p = .retired ∨ s'.obj p = .disposed := by
    rcases hst with e | e
    · rw [e]; exact q1
    · rcases q1 with e1 | e1 <;> rw [e1] at e <;> revert e <;> cases s'.obj p <;> simp [ObjSt.Succ]
  have hcell : ∀ c, s.cells c ≠ some p := fun c hc => by
    have := h.cell_live c p hc; rcases q1 with e | e <;> simp_all
  refine ⟨hgone, ?_, ?_, ?_⟩ <;> clear hgone hst
  all_goals
    cases hpc : s.pc t with
    | idle => simp [step, hpc] at hs
    | done r => simp [step, hpc] at hs
    | protLd g c => simp [step, hpc] at hs; obtain ⟨rfl, -⟩ := hs; intros; dsimp only; grind [upd, upd2, accOf]
    | protSt g c q => simp [step, hpc] at hs; obtain ⟨rfl, -⟩ := hs; intros; dsimp only; grind [upd, upd2, accOf]
    | protChk g c q =>
      simp only [step, hpc] at hs
      split at hs <;> simp at hs <;> obtain ⟨rfl, -⟩ := hs <;> intros <;> dsimp only <;> grind [upd, upd2, accOf]
    | clearSt g => simp [step, hpc] at hs; obtain ⟨rfl, -⟩ := hs; intros; dsimp only; grind [upd, upd2, accOf]
    | swapX c b =>
      cases b <;> simp only [step, hpc] at hs <;>
      split at hs <;> simp at hs <;> obtain ⟨rfl, -⟩ := hs <;> intros <;> dsimp only <;> grind [upd, upd2, accOf]
    | swapRet q r =>
      have := accOf_scanStart cfg r
      have := scanStart_cases cfg r
      simp [step, hpc] at hs; obtain ⟨rfl, -⟩ := hs; intros; dsimp only; grind [upd, upd2, accOf]
    | scanLd u g acc r =>
      simp [step, hpc] at hs; obtain ⟨rfl, -⟩ := hs; intros; dsimp only
      grind [upd, upd2, accOf, scanNext, mem_collect]
    | scanDecide acc r => simp [step, hpc] at hs; obtain ⟨rfl, -⟩ := hs; intros; dsimp only; grind [upd, upd2, accOf]
    | derefRd g =>
      simp only [step, hpc] at hs
      split at hs <;> simp at hs
      obtain ⟨rfl, -⟩ := hs; intros; dsimp only; grind [upd, upd2, accOf]



theorem quiet_apply {cfg : Cfg} {s s' : St} {t : Tid} {a : Act} {o : Obs} {sc : Tid} {p : Ptr} (h : PInv cfg s)
    (hq : Quiet s sc p) (hap : (model cfg).apply s t a = some (s', o)) : Quiet s' sc p := by
  cases a with
  | invoke op =>
    simp only [Model.apply, model, Option.map_eq_some_iff] at hap
    obtain ⟨s1, hs1, heq⟩ := hap
    simp only [Prod.mk.injEq] at heq
    obtain ⟨rfl, -⟩ := heq
    obtain ⟨q, rfl, hidle, hacc, hns⟩ := invoke_frame hs1
    obtain ⟨q1, q2, q3, q4⟩ := hq
    refine ⟨q1, q2, ?_, ?_⟩
    · intro t' g c; dsimp only; grind [upd]
    · dsimp only; grind [upd]
  | step =>
    simp only [Model.apply, model, Option.map_eq_some_iff] at hap
    obtain ⟨⟨s1, ev⟩, hr, heq⟩ := hap
    simp only [Prod.mk.injEq] at heq
    obtain ⟨rfl, -⟩ := heq
    exact quiet_step h hq hr
  | ret =>
    simp only [Model.apply, model, Option.map_eq_some_iff] at hap
    obtain ⟨⟨s1, r⟩, hr, heq⟩ := hap
    simp only [Prod.mk.injEq] at heq
    obtain ⟨rfl, -⟩ := heq
    obtain ⟨q1, q2, q3, q4⟩ := hq
    unfold result at hr
    split at hr
    · simp at hr; obtain ⟨rfl, -⟩ := hr
      refine ⟨q1, q2, ?_, ?_⟩
      · intro t' g c; dsimp only; grind [upd]
      · dsimp only; grind [upd, accOf]
    · simp at hr

theorem obj_apply {cfg : Cfg} {s s' : St} {t : Tid} {a : Act} {o : Obs} (h : PInv cfg s)
    (hap : (model cfg).apply s t a = some (s', o)) (p : Ptr) :
    s'.obj p = s.obj p ∨ ObjSt.Succ (s.obj p) (s'.obj p) := by
  cases a with
  | invoke op =>
    simp only [Model.apply, model, Option.map_eq_some_iff] at hap
    obtain ⟨s1, hs1, heq⟩ := hap
    simp only [Prod.mk.injEq] at heq
    obtain ⟨rfl, -⟩ := heq
    obtain ⟨q, rfl, -⟩ := invoke_frame hs1
    exact Or.inl rfl
  | step =>
    simp only [Model.apply, model, Option.map_eq_some_iff] at hap
    obtain ⟨⟨s1, ev⟩, hr, heq⟩ := hap
    simp only [Prod.mk.injEq] at heq
    obtain ⟨rfl, -⟩ := heq
    exact obj_step h hr p
  | ret =>
    simp only [Model.apply, model, Option.map_eq_some_iff] at hap
    obtain ⟨⟨s1, r⟩, hr, heq⟩ := hap
    simp only [Prod.mk.injEq] at heq
    obtain ⟨rfl, -⟩ := heq
    unfold result at hr
    split at hr
    · simp at hr; obtain ⟨rfl, -⟩ := hr; exact Or.inl rfl
    · simp at hr

/-- Two-state-and-observation form of `Model.inv_of_inductive`: a property of every action taken from a state
    that satisfies an inductive invariant holds of every entry of the observation list of every run. -/
theorem obs_of_inductive {σ : Type} (m : Model σ) (I : σ → Prop) (P : Tid → Obs → Prop)
    (hstep : ∀ s t a s' o, I s → m.apply s t a = some (s', o) → I s')
    (hobs : ∀ s t a s' o, I s → m.apply s t a = some (s', o) → P t o) :
    ∀ (sched : List (Tid × Act)) (s s' : σ) os, I s → m.run s sched = some (s', os) →
      ∀ x ∈ os, P x.1 x.2 := by
  intro sched
  induction sched with
  | nil => intro s s' os _ hr; simp [Model.run] at hr; simp [hr.2]
  | cons x rest ih =>
    intro s s' os h hr
    obtain ⟨t, a⟩ := x
    simp only [Model.run] at hr
    cases hap : m.apply s t a with
    | none => simp [hap] at hr
    | some q =>
      obtain ⟨s1, o⟩ := q
      simp only [hap] at hr
      cases hrr : m.run s1 rest with
      | none => simp [hrr] at hr
      | some q2 =>
        obtain ⟨s2, os2⟩ := q2
        simp only [hrr, Option.some.injEq, Prod.mk.injEq] at hr
        obtain ⟨-, rfl⟩ := hr
        intro y hy
        rcases List.mem_cons.mp hy with e | e
        · subst e; exact hobs s t a s1 o h hap
        · exact ih s1 s2 os2 (hstep s t a s1 o h hap) hrr y e



/-! ### Facts about single steps used by the property theorems -/

/-- At the decision step of a scan, no validated guard holds an object that the scan hands to the disposer. -/
theorem decide_unguarded {cfg : Cfg} {s : St} {t : Tid} {acc : List Ptr} {r : GRet} (h : PInv cfg s)
    (hpc : s.pc t = .scanDecide acc r) :
    ∀ p ∈ (classicScan acc (s.retired t)).2, ∀ u g, s.guard u g ≠ some p := by
  intro p hp u g hg
  have d := decision acc _ (h.ret_nodup t)
  have hr := d.freed_sub p hp
  have hacc := h.scan_all t acc r u g p hpc hg hr
  have hne : p ≠ 0 := by
    intro e; have h1 := h.ret_st t p hr; have h0 := h.fresh_zero; rw [e] at h1; rw [h1] at h0; cases h0
  exact d.safe p hp hne hacc

/-- Only the decision step of a scan disposes, and only objects its decision function frees. -/
theorem disposed_step {cfg : Cfg} {s s' : St} {t : Tid} {ev : Ev} {p : Ptr}
    (hs : step cfg s t = some (s', ev)) (h0 : s.obj p ≠ .disposed) (h1 : s'.obj p = .disposed) :
    ∃ acc r, s.pc t = .scanDecide acc r ∧ p ∈ (classicScan acc (s.retired t)).2 := by
  cases hpc : s.pc t with
  | idle => simp [step, hpc] at hs
  | done r => simp [step, hpc] at hs
  | protLd g c => simp [step, hpc] at hs; obtain ⟨rfl, -⟩ := hs; exact absurd h1 h0
  | protSt g c q => simp [step, hpc] at hs; obtain ⟨rfl, -⟩ := hs; exact absurd h1 h0
  | protChk g c q =>
    simp only [step, hpc] at hs
    split at hs <;> simp at hs <;> obtain ⟨rfl, -⟩ := hs <;> exact absurd h1 h0
  | clearSt g => simp [step, hpc] at hs; obtain ⟨rfl, -⟩ := hs; exact absurd h1 h0
  | swapX c b =>
    cases b
    · simp only [step, hpc] at hs
      split at hs <;> simp at hs <;> obtain ⟨rfl, -⟩ := hs <;> exact absurd h1 h0
    · simp only [step, hpc] at hs
      split at hs <;> simp at hs <;> obtain ⟨rfl, -⟩ := hs <;> dsimp only at h1 <;>
        (by_cases e : p = s.cnt
         · subst e; simp [upd] at h1
         · simp [upd, e] at h1; exact absurd h1 h0)
  | swapRet q r =>
    simp [step, hpc] at hs; obtain ⟨rfl, -⟩ := hs; dsimp only at h1
    by_cases e : p = q
    · subst e; simp [upd] at h1
    · simp [upd, e] at h1; exact absurd h1 h0
  | scanLd u g acc r => simp [step, hpc] at hs; obtain ⟨rfl, -⟩ := hs; exact absurd h1 h0
  | scanDecide acc r =>
    simp [step, hpc] at hs; obtain ⟨rfl, -⟩ := hs; dsimp only at h1
    refine ⟨acc, r, rfl, ?_⟩
    split at h1
    · assumption
    · exact absurd h1 h0
  | derefRd g =>
    simp only [step, hpc] at hs
    split at hs <;> simp at hs
    obtain ⟨rfl, -⟩ := hs; exact absurd h1 h0

/-- The effect of the decision step. -/
theorem decide_step {cfg : Cfg} {s s' : St} {t : Tid} {ev : Ev} {acc : List Ptr} {r : GRet}
    (hpc : s.pc t = .scanDecide acc r) (hs : step cfg s t = some (s', ev)) :
    (∀ p, s'.obj p = if p ∈ (classicScan acc (s.retired t)).2 then .disposed else s.obj p) ∧
    s'.retired t = (classicScan acc (s.retired t)).1 ∧ (∀ u, u ≠ t → s'.retired u = s.retired u) ∧
    s'.log = s.log ++ (classicScan acc (s.retired t)).2 ∧ s'.guard = s.guard ∧ s'.pc t = .done r := by
  simp [step, hpc] at hs; obtain ⟨rfl, -⟩ := hs
  refine ⟨fun _ => rfl, by simp, fun u hu => by simp [upd, hu], rfl, rfl, by simp⟩

/-- A `use` event is the step of a `deref`, on the object the thread's validated guard holds. -/
theorem use_event {cfg : Cfg} {s s' : St} {t : Tid} {e : Ev}
    (hs : step cfg s t = some (s', e)) (hk : e.kind = "use") :
    ∃ g p, s.pc t = .derefRd g ∧ s.guard t g = some p ∧ e = evUse p (s.obj p) ∧
      s'.pc t = .done [objCode (s.obj p)] := by
  cases hpc : s.pc t with
  | idle => simp [step, hpc] at hs
  | done r => simp [step, hpc] at hs
  | protLd g c => simp [step, hpc] at hs; obtain ⟨-, rfl⟩ := hs; simp [evLd] at hk
  | protSt g c q => simp [step, hpc] at hs; obtain ⟨-, rfl⟩ := hs; simp [evSt] at hk
  | protChk g c q =>
    simp only [step, hpc] at hs
    split at hs <;> simp at hs <;> obtain ⟨-, rfl⟩ := hs <;> simp [evLd] at hk
  | clearSt g => simp [step, hpc] at hs; obtain ⟨-, rfl⟩ := hs; simp [evSt] at hk
  | swapX c b =>
    cases b <;> simp only [step, hpc] at hs <;>
      split at hs <;> simp at hs <;> obtain ⟨-, rfl⟩ := hs <;> simp [evXchg] at hk
  | swapRet q r => simp [step, hpc] at hs; obtain ⟨-, rfl⟩ := hs; simp [evRetire] at hk
  | scanLd u g acc r => simp [step, hpc] at hs; obtain ⟨-, rfl⟩ := hs; simp [evLd] at hk
  | scanDecide acc r => simp [step, hpc] at hs; obtain ⟨-, rfl⟩ := hs; simp [evFree] at hk
  | derefRd g =>
    simp only [step, hpc] at hs
    split at hs
    next q hq =>
      simp at hs; obtain ⟨rfl, rfl⟩ := hs
      exact ⟨g, q, rfl, hq, rfl, by simp⟩
    next => simp at hs

/-! ### Completeness of the places (no object is lost) -/

/-- Every allocated, not yet disposed object is somewhere: a `live` object is in a cell or in flight in the
    `swap`/`take` that unlinked it; a `retired` object is in some thread's retired array (so that thread's scans
    can free it). -/
structure PPlace (s : St) : Prop where
  live_ex : ∀ p, s.obj p = .live → (∃ c, s.cells c = some p) ∨ (∃ t r, s.pc t = .swapRet p r)
  ret_ex : ∀ p, s.obj p = .retired → ∃ t, p ∈ s.retired t

theorem pplace_init : PPlace init := by
  constructor <;> simp [init]

/-- steps that touch neither objects, cells, retired arrays nor an in-flight program counter -/
theorem pplace_frame {s s' : St} (h : PPlace s) (ho : s'.obj = s.obj) (hc : s'.cells = s.cells)
    (hr : s'.retired = s.retired) (hp : ∀ t p r, s.pc t = .swapRet p r → s'.pc t = .swapRet p r) : PPlace s' := by
  obtain ⟨h1, h2⟩ := h
  constructor
  · intro p hl
    rw [ho] at hl
    rcases h1 p hl with ⟨c, hc'⟩ | ⟨t, r, ht⟩
    · exact Or.inl ⟨c, by rw [hc]; exact hc'⟩
    · exact Or.inr ⟨t, r, hp t p r ht⟩
  · intro p hl
    rw [ho] at hl; rw [hr]; exact h2 p hl

theorem pplace_setpc {s : St} {t : Tid} {q : PC} (h : PPlace s) (hpc : ∀ p r, s.pc t ≠ .swapRet p r) :
    PPlace { s with pc := upd s.pc t q } := by
  refine pplace_frame h rfl rfl rfl ?_
  intro t' p r ht
  by_cases e : t' = t
  · subst e; exact absurd ht (hpc p r)
  · simp [upd, e, ht]

theorem pplace_step {cfg : Cfg} {s s' : St} {t : Tid} {ev : Ev} (hI : PInv cfg s) (h : PPlace s)
    (hs : step cfg s t = some (s', ev)) : PPlace s' := by
  cases hpc : s.pc t with
  | idle => simp [step, hpc] at hs
  | done r => simp [step, hpc] at hs
  | protLd g c =>
    simp [step, hpc] at hs; obtain ⟨rfl, -⟩ := hs; exact pplace_setpc h (by simp [hpc])
  | protSt g c q =>
    simp [step, hpc] at hs; obtain ⟨rfl, -⟩ := hs
    exact pplace_frame (pplace_setpc (q := .protChk g c q) h (by simp [hpc])) rfl rfl rfl (fun _ _ _ h => h)
  | protChk g c q =>
    simp only [step, hpc] at hs
    split at hs <;> simp at hs <;> obtain ⟨rfl, -⟩ := hs
    · exact pplace_frame (pplace_setpc (q := .done (retPtr q)) h (by simp [hpc])) rfl rfl rfl (fun _ _ _ h => h)
    · exact pplace_setpc h (by simp [hpc])
  | clearSt g =>
    simp [step, hpc] at hs; obtain ⟨rfl, -⟩ := hs
    exact pplace_frame (pplace_setpc (q := .done []) h (by simp [hpc])) rfl rfl rfl (fun _ _ _ h => h)
  | scanLd u g acc r =>
    simp [step, hpc] at hs; obtain ⟨rfl, -⟩ := hs; exact pplace_setpc h (by simp [hpc])
  | derefRd g =>
    simp only [step, hpc] at hs
    split at hs <;> simp at hs
    obtain ⟨rfl, -⟩ := hs; exact pplace_setpc h (by simp [hpc])
  | swapX c b =>
    obtain ⟨h1, h2⟩ := h
    have hfr := hI.fresh_hi s.cnt (Nat.le_refl _)
    have hne : ∀ w p r, s.pc w = .swapRet p r → w ≠ t := fun w p r hw e => by rw [e, hpc] at hw; cases hw
    cases b <;> simp only [step, hpc] at hs <;> split at hs <;> simp at hs <;> obtain ⟨rfl, -⟩ := hs
    · exact pplace_setpc ⟨h1, h2⟩ (by simp [hpc])
    · next a ha =>
      constructor
      · intro p hl
        rcases h1 p hl with ⟨c', hc'⟩ | ⟨w, r', hw⟩
        · by_cases e : c' = c
          · subst e; rw [ha] at hc'; cases hc'; exact Or.inr ⟨t, _, upd_same _ _ _⟩
          · exact Or.inl ⟨c', by simp [upd, e, hc']⟩
        · exact Or.inr ⟨w, r', by simp [upd, hne w p r' hw, hw]⟩
      · exact h2
    · next ha =>
      constructor
      · intro p hl
        dsimp only at hl ⊢
        by_cases ep : p = s.cnt
        · exact Or.inl ⟨c, by simp [ep]⟩
        · rw [upd_other _ _ _ _ ep] at hl
          rcases h1 p hl with ⟨c', hc'⟩ | ⟨w, r', hw⟩
          · have e : c' ≠ c := fun e => by rw [e, ha] at hc'; cases hc'
            exact Or.inl ⟨c', by simp [upd, e, hc']⟩
          · exact Or.inr ⟨w, r', by simp [upd, hne w p r' hw, hw]⟩
      · intro p hl
        dsimp only at hl ⊢
        by_cases ep : p = s.cnt
        · rw [ep] at hl; simp at hl
        · rw [upd_other _ _ _ _ ep] at hl; exact h2 p hl
    · next a ha =>
      constructor
      · intro p hl
        dsimp only at hl ⊢
        by_cases ep : p = s.cnt
        · exact Or.inl ⟨c, by simp [ep]⟩
        · rw [upd_other _ _ _ _ ep] at hl
          rcases h1 p hl with ⟨c', hc'⟩ | ⟨w, r', hw⟩
          · by_cases e : c' = c
            · subst e; rw [ha] at hc'; cases hc'; exact Or.inr ⟨t, _, upd_same _ _ _⟩
            · exact Or.inl ⟨c', by simp [upd, e, hc']⟩
          · exact Or.inr ⟨w, r', by simp [upd, hne w p r' hw, hw]⟩
      · intro p hl
        dsimp only at hl ⊢
        by_cases ep : p = s.cnt
        · rw [ep] at hl; simp at hl
        · rw [upd_other _ _ _ _ ep] at hl; exact h2 p hl
  | swapRet q r =>
    obtain ⟨h1, h2⟩ := h
    simp [step, hpc] at hs; obtain ⟨rfl, -⟩ := hs
    constructor
    · intro p hl
      dsimp only at hl ⊢
      have ep : p ≠ q := fun e => by rw [e] at hl; simp at hl
      rw [upd_other _ _ _ _ ep] at hl
      rcases h1 p hl with ⟨c', hc'⟩ | ⟨w, r', hw⟩
      · exact Or.inl ⟨c', hc'⟩
      · have e : w ≠ t := fun e => by rw [e, hpc] at hw; cases hw; exact ep rfl
        exact Or.inr ⟨w, r', by simp [upd, e, hw]⟩
    · intro p hl
      dsimp only at hl ⊢
      by_cases ep : p = q
      · exact ⟨t, by simp [ep]⟩
      · rw [upd_other _ _ _ _ ep] at hl
        obtain ⟨u, hu⟩ := h2 p hl
        by_cases e : u = t
        · exact ⟨t, by simp [← e, hu]⟩
        · exact ⟨u, by simp [upd, e, hu]⟩
  | scanDecide acc r =>
    obtain ⟨h1, h2⟩ := h
    have d := decision acc _ (hI.ret_nodup t)
    simp [step, hpc] at hs; obtain ⟨rfl, -⟩ := hs
    constructor
    · intro p hl
      dsimp only at hl ⊢
      split at hl
      · cases hl
      · rcases h1 p hl with ⟨c', hc'⟩ | ⟨w, r', hw⟩
        · exact Or.inl ⟨c', hc'⟩
        · have e : w ≠ t := fun e => by rw [e, hpc] at hw; cases hw
          exact Or.inr ⟨w, r', by simp [upd, e, hw]⟩
    · intro p hl
      dsimp only at hl ⊢
      split at hl
      · cases hl
      · next hnf =>
        obtain ⟨u, hu⟩ := h2 p hl
        by_cases e : u = t
        · subst e
          rcases d.split p hu with hk | hf
          · exact ⟨u, by simp [hk]⟩
          · exact absurd hf hnf
        · exact ⟨u, by simp [upd, e, hu]⟩

theorem pplace_apply (cfg : Cfg) (s : St) (t : Tid) (a : Act) (s' : St) (o : Obs)
    (h : PInv cfg s ∧ PPlace s) (hap : (model cfg).apply s t a = some (s', o)) : PInv cfg s' ∧ PPlace s' := by
  refine ⟨pinv_apply cfg s t a s' o h.1 hap, ?_⟩
  cases a with
  | invoke op =>
    simp only [Model.apply, model, Option.map_eq_some_iff] at hap
    obtain ⟨s1, hs1, heq⟩ := hap
    simp only [Prod.mk.injEq] at heq
    obtain ⟨rfl, -⟩ := heq
    obtain ⟨q, rfl, hidle, -⟩ := invoke_frame hs1
    exact pplace_setpc h.2 (by simp [hidle])
  | step =>
    simp only [Model.apply, model, Option.map_eq_some_iff] at hap
    obtain ⟨⟨s1, ev⟩, hr, heq⟩ := hap
    simp only [Prod.mk.injEq] at heq
    obtain ⟨rfl, -⟩ := heq
    exact pplace_step h.1 h.2 hr
  | ret =>
    simp only [Model.apply, model, Option.map_eq_some_iff] at hap
    obtain ⟨⟨s1, r⟩, hr, heq⟩ := hap
    simp only [Prod.mk.injEq] at heq
    obtain ⟨rfl, -⟩ := heq
    unfold result at hr
    split at hr
    · next r' hd => simp at hr; obtain ⟨rfl, -⟩ := hr; exact pplace_setpc h.2 (by simp [hd])
    · simp at hr

theorem pplace_reachable (cfg : Cfg) (s : St) (hr : (model cfg).Reachable init s) : PPlace s :=
  ((model cfg).inv_reachable (fun x => PInv cfg x ∧ PPlace x) init ⟨pinv_init cfg, pplace_init⟩
    (pplace_apply cfg) s hr).2

end CdsVerif.Algo.HP.Protocol

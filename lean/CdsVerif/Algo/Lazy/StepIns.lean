/-
  Preservation of the LazyList invariant, and the effect on the abstract map: `link_node` (the store into the new node, and the store into `pPred->m_pNext`: linearization point of `insert` / inserting `update`).
-/
import CdsVerif.Algo.Lazy.Inv
namespace CdsVerif.Algo.Lazy
open CdsVerif.Machine CdsVerif.Spec CdsVerif.Lin
open CdsVerif.Algo.Michael (Chain insAfter mem_insAfter pairwise_insAfter LPok)

set_option maxHeartbeats 8000000 in
theorem sinvl_step_iSt {s s' : St} {t : Tid} {ev : Ev} {L : List Nat} {o : OpK} {n p c : Nat}
    (h : SInvL s L) (hpc : s.pc t = .iSt o n p c) (hs : step s t = some (s', ev)) :
    ∃ L', SInvL s' L' ∧ StepEff s t s' L L' := by
  have hz := h.zero_mem
  have hn := h.priv t n (by simp [hpc, insNode])
  have hmk : upd s.mark n false = s.mark := funext (fun a => by
    by_cases e : a = n
    · rw [e, upd_same, hn.2.2.1]
    · rw [upd_other _ _ _ _ e])
  have hch' : Chain (upd s.succ n (some c)) (some 0) L := Chain.upd hn.2.1 h.chain
  pc_facts
  sinv_open h
  simp only [step, hpc] at hs
  simp at hs; obtain ⟨rfl, -⟩ := hs
  rw [hmk]
  step_close L

set_option maxHeartbeats 16000000 in
theorem sinvl_step_iLk {s s' : St} {t : Tid} {ev : Ev} {L : List Nat} {o : OpK} {n p c : Nat}
    (h : SInvL s L) (hpc : s.pc t = .iLk o n p c) (hs : step s t = some (s', ev)) :
    ∃ L', SInvL s' L' ∧ StepEff s t s' L L' := by
  have hz := h.zero_mem
  have htl := h.tailIn
  have hnd := h.nodup
  have hn := h.priv t n (by simp [hpc, insNode])
  simp only [hpc, skey, sval] at hn
  have hn0 : n ≠ 0 := fun e => hn.2.1 (e ▸ hz)
  have hn1 : n ≠ 1 := fun e => hn.2.1 (e ▸ htl)
  have hprev := h.lkPrev t p (by simp [hpc, pcPrev])
  have hcur := h.lkCur t c (by simp [hpc, pcCur])
  have hkprev := h.keyPrev t p (by simp [hpc, pcPrev])
  have hunp := h.unmP t p (by simp [hpc, knowUnmP])
  have hpL : p ∈ L := hprev.2.resolve_right (by simp [hunp])
  have hlink := h.link t p c (by simp [hpc, knowLink])
  have hgt := h.gt t c (by simp [hpc, pcGt])
  simp only [hpc, skey] at hkprev hgt
  have hnn := h.nlink t o n p c hpc
  have hlo := h.lop t o (by simp [hpc, pcLinkOp])
  have hmk : upd s.mark p false = s.mark := funext (fun a => by
    by_cases e : a = p
    · rw [e, upd_same, hunp]
    · rw [upd_other _ _ _ _ e])
  have hmem : ∀ a, a ∈ insAfter p n L ↔ (a ∈ L ∨ a = n) := fun a => mem_insAfter hpL
  have hch' : Chain (upd s.succ p (some n)) (some 0) (insAfter p n L) :=
    Chain.insAfter (hnn.2.trans hlink.symm) h.chain hnd hpL hn.2.1
  have hso' : (insAfter p n L).Pairwise (LLt s.key) := by
    refine pairwise_insAfter (nx := s.succ) LLt.trans ⟨hprev.1, hn0, ?_⟩ ?_ h.chain h.sorted hpL
    · rcases hkprev with e | e
      · exact Or.inl e
      · exact Or.inr (Or.inr (by rw [hn.2.2.2.1]; exact e))
    · intro c' hc'
      rw [hlink] at hc'
      simp at hc'; subst hc'
      refine ⟨hn1, hcur.1, ?_⟩
      rcases hgt with e | e
      · exact Or.inr (Or.inl e)
      · exact Or.inr (Or.inr (by rw [hn.2.2.2.1]; exact e))
  have hlpok : LPok (Has s.mark s.key s.val L) (gop o) (linkRet o) (Has s.mark s.key s.val (insAfter p n L)) := by
    refine LPok.link (h.absent hpL hprev.1 hkprev hlink hgt) (fun j w => ?_) hlo
    rw [has_insert hpL hn0 hn1 hn.2.2.1, hn.2.2.2.1, hn.2.2.2.2]
  pc_facts
  sinv_open h
  simp only [step, hpc] at hs
  simp at hs; obtain ⟨rfl, -⟩ := hs
  rw [hmk]
  step_close (insAfter p n L)

end CdsVerif.Algo.Lazy

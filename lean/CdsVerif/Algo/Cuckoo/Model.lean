/-
  Sequential executable model of `cds::intrusive::CuckooSet` (cds/intrusive/cuckoo_set.h, reached through
  cds/container/cuckoo_set.h), arity 2 (two hash functions, two bucket tables), unordered probe sets
  (`equal_to` predicate: `contains<NodeTraits,false>::find`), no stored hashes (`store_hash<0>`).

  What is modelled, function by function (single thread: the lock policy is not part of the model):

    bucket( nTable, nHash )        `idx` / `bucketOf`: index = hash & (bucket count - 1)
    contains_action::find + bucket_entry::insert_after( pos.itPrev, p )
                                   `bInsert`: the node goes in front of the first equal key, at the END when
                                   there is none (the only case on duplicate-free tables: `bInsert_of_not_mem`)
    bucket_entry::remove           `List.erase` (erase_) / dropping the head (relocate)
    contains(), find_()            `findTable`, `contains`: table 0 is searched first
    erase_()                       `erase`
    relocate( nTable, arrGoalHash ) `relocate`: c_nRelocateLimit = 2 * arity - 1 = 3 rounds; a round takes the
                                   FIRST node of the goal probe set and moves it to its probe set in the other table
                                   (below the threshold: done; below the size: next round with that probe set as the
                                   goal; full: the node is put back at the FRONT and relocate fails)
    resize()                       `resize`: doubled empty tables, every node of old table 0 (buckets in index order,
                                   each probe set front to back) and then of old table 1 is re-inserted by `reinsert`:
                                   first probe set below the threshold, else first probe set below the size followed by
                                   a relocate whose result is ignored, ELSE NOTHING: the node stays behind in the old
                                   tables, which are freed - the element is lost and the item counter keeps counting it.
                                   That branch is modelled as it is (`reinsert` returns the lost key in a ghost list).
    insert()                       `insertLoop`: the `while ( true )` loop around resize() is bounded by a fuel
                                   parameter (`none` = fuel exhausted = the real call keeps doubling the tables:
                                   known finding C17-cuckoo-endless-resize)
    size()                         `St.count` (m_ItemCounter)

  Both probe-set kinds (`cuckoo::list`, `cuckoo::vector<Capacity>`) have the same sequential behaviour: insert_after
  with a null iterator puts the node at the front, with the iterator of the last node behind it; remove keeps the
  order of the others; resize() walks the old probe sets front to back and never modifies them.  The only difference
  is the probe-set size: `vector<Capacity>` ignores the constructor argument (calc_probeset_size) and uses Capacity.
  Preconditions of the real code (asserts, compiled out): 1 <= threshold < probe-set size (a threshold of 0 would
  make relocate dereference the begin() of an empty probe set; >= size overruns the vector).

  Deviation, on states that hold a key twice only (not reachable from the empty set: `Inv` of Lemmas.lean): resize()
  re-uses positions computed by a contains() call that stops at the first hit, so that the position in the second
  table would be stale; the model computes every position afresh.
-/
namespace CdsVerif.Algo.Cuckoo

/-- hash functions and the two probe-set parameters (`m_nProbesetSize`, `m_nProbesetThreshold`) -/
structure Cfg where
  h1 : Int → Nat
  h2 : Int → Nat
  pset : Nat
  thr : Nat

/-- table number: `false` = m_BucketTable[0] (hash1), `true` = m_BucketTable[1] (hash2) -/
def Cfg.hash (c : Cfg) (b : Bool) (k : Int) : Nat := if b then c.h2 k else c.h1 k

abbrev Bucket := List Int
abbrev Table := List Bucket

structure St where
  cap : Nat            -- bucket count of each table (m_nBucketMask + 1)
  t0 : Table
  t1 : Table
  count : Nat          -- m_ItemCounter
  deriving DecidableEq, Repr

def St.tab (s : St) (b : Bool) : Table := if b then s.t1 else s.t0

def St.setTab (s : St) (b : Bool) (t : Table) : St :=
  if b then { s with t1 := t } else { s with t0 := t }

/-- `nHash & m_nBucketMask` -/
def idx (cap h : Nat) : Nat := h &&& (cap - 1)

def St.bidx (s : St) (c : Cfg) (b : Bool) (k : Int) : Nat := idx s.cap (c.hash b k)

/-- `bucket( b, hash_b( k ))` -/
def St.bucketOf (s : St) (c : Cfg) (b : Bool) (k : Int) : Bucket := (s.tab b).getD (s.bidx c b k) []

/-- replace probe set `i` of table `b` -/
def St.putBucket (s : St) (b : Bool) (i : Nat) (bk : Bucket) : St := s.setTab b ((s.tab b).set i bk)

/-- `find` followed by `insert_after( pos.itPrev, k )`: in front of the first equal key, else at the end -/
def bInsert : Bucket → Int → Bucket
  | [], k => [k]
  | x :: xs, k => if x = k then k :: x :: xs else x :: bInsert xs k

def empty (cap : Nat) : St :=
  { cap := cap, t0 := List.replicate cap [], t1 := List.replicate cap [], count := 0 }

/-- the table whose probe set holds `k` (table 0 first), as `contains( arrPos, arrHash, … )` returns it -/
def findTable (c : Cfg) (s : St) (k : Int) : Option Bool :=
  if k ∈ s.bucketOf c false k then some false
  else if k ∈ s.bucketOf c true k then some true
  else none

def contains (c : Cfg) (s : St) (k : Int) : Bool := (findTable c s k).isSome

def erase (c : Cfg) (s : St) (k : Int) : St × Bool :=
  match findTable c s k with
  | some b => ({ s.putBucket b (s.bidx c b k) ((s.bucketOf c b k).erase k) with count := s.count - 1 }, true)
  | none => (s, false)

/-- put `x` into its probe set of table `b` (position from `find`) -/
def St.place (s : St) (c : Cfg) (b : Bool) (x : Int) : St :=
  s.putBucket b (s.bidx c b x) (bInsert (s.bucketOf c b x) x)

/-- `relocate( b, hashes of gk )`, `n` rounds left -/
def relocateRounds (c : Cfg) : Nat → St → Bool → Int → St × Bool
  | 0, s, _, _ => (s, false)
  | n + 1, s, b, gk =>
    let gi := s.bidx c b gk
    let ref := (s.tab b).getD gi []
    if ref.length < c.thr then (s, true)
    else
      match ref with
      | [] => (s, false)     -- threshold 0: the real code dereferences begin() of an empty probe set
      | v :: rest =>
        let s1 := s.putBucket b gi rest
        let o := !b
        let bk := s1.bucketOf c o v
        if bk.length < c.thr then (s1.place c o v, true)
        else if bk.length < c.pset then relocateRounds c n (s1.place c o v) o v
        else (s1.putBucket b gi (v :: rest), false)

/-- c_nRelocateLimit = c_nArity * 2 - 1 -/
def relocateLimit : Nat := 3

def relocate (c : Cfg) (s : St) (b : Bool) (gk : Int) : St × Bool := relocateRounds c relocateLimit s b gk

/-- the goal of the relocate that follows an insertion above the threshold: the hashes of the FIRST node of that probe set -/
def relocateFrom (c : Cfg) (s : St) (b : Bool) (i : Nat) : St × Bool :=
  match (s.tab b).getD i [] with
  | g :: _ => relocate c s b g
  | [] => (s, true)

/-- body of the three nested loops of resize() for one node `x`; the second component is the ghost list of lost keys -/
def reinsert (c : Cfg) (s : St) (x : Int) : St × List Int :=
  if (s.bucketOf c false x).length < c.thr then (s.place c false x, [])
  else if (s.bucketOf c true x).length < c.thr then (s.place c true x, [])
  else if (s.bucketOf c false x).length < c.pset then
    ((relocateFrom c (s.place c false x) false (s.bidx c false x)).1, [])
  else if (s.bucketOf c true x).length < c.pset then
    ((relocateFrom c (s.place c true x) true (s.bidx c true x)).1, [])
  else (s, [x])      -- neither loop found room: the node is not linked into the new tables

def reinsertAll (c : Cfg) : St → List Int → St × List Int
  | s, [] => (s, [])
  | s, x :: xs =>
    let r := reinsert c s x
    let r' := reinsertAll c r.1 xs
    (r'.1, r.2 ++ r'.2)

/-- the order in which resize() walks the old tables -/
def St.order (s : St) : List Int := s.t0.flatten ++ s.t1.flatten

/-- resize() with the ghost list of the keys it lost -/
def resizeG (c : Cfg) (s : St) : St × List Int :=
  reinsertAll c { empty (2 * s.cap) with count := s.count } s.order

def resize (c : Cfg) (s : St) : St := (resizeG c s).1

/-- insert(): `none` = fuel exhausted; otherwise the new state, the result and the ghost list of keys lost by resizes -/
def insertLoop (c : Cfg) : Nat → St → Int → Option (St × Bool × List Int)
  | 0, _, _ => none
  | f + 1, s, k =>
    if contains c s k then some (s, false, [])
    else if (s.bucketOf c false k).length < c.thr then some ({ s.place c false k with count := s.count + 1 }, true, [])
    else if (s.bucketOf c true k).length < c.thr then some ({ s.place c true k with count := s.count + 1 }, true, [])
    else if (s.bucketOf c false k).length < c.pset then
      let r := relocateFrom c { s.place c false k with count := s.count + 1 } false (s.bidx c false k)
      if r.2 then some (r.1, true, []) else let g := resizeG c r.1; some (g.1, true, g.2)
    else if (s.bucketOf c true k).length < c.pset then
      let r := relocateFrom c { s.place c true k with count := s.count + 1 } true (s.bidx c true k)
      if r.2 then some (r.1, true, []) else let g := resizeG c r.1; some (g.1, true, g.2)
    else
      let g := resizeG c s
      match insertLoop c f g.1 k with
      | some (s', r, d) => some (s', r, g.2 ++ d)
      | none => none

def size (s : St) : Nat := s.count

/-- all keys linked into the tables -/
def St.elems (s : St) : List Int := s.t0.flatten ++ s.t1.flatten

/-! ### the hash families of harness/pure/resize.cpp and the constructor -/

def hfam (f : Nat) (k : Int) : Nat :=
  match f with
  | 1 => 7
  | 2 => (k % 3).toNat
  | 3 => ((k / 3) % 3).toNat
  | 4 => (k % 2).toNat
  | 5 => (k * 16).toNat
  | 6 => (k / 4).toNat
  | 7 => ((k / 2) % 2).toNat
  | _ => k.toNat

/-- cds::beans::ceil2 -/
def ceil2Aux : Nat → Nat → Nat → Nat
  | 0, p, _ => p
  | f + 1, p, n => if p ≥ n then p else ceil2Aux f (2 * p) n

def ceil2 (n : Nat) : Nat := ceil2Aux 64 1 n

/-- `CuckooSet( nInitialSize, nProbesetSize, nProbesetThreshold )` with the hash families `f1`, `f2`; `pset` is the
    effective probe-set size (`vector<Capacity>`: Capacity) -/
def mkCfg (f1 f2 pset thr : Nat) : Cfg :=
  { h1 := hfam f1, h2 := hfam f2, pset := pset, thr := if thr = 0 then pset - 1 else thr }

def initSt (init : Nat) : St := empty (if init = 0 then 16 else ceil2 init)

end CdsVerif.Algo.Cuckoo

/-
  Where sortedness can break.  `SortedKeys s`: the keys of the stored elements strictly increase along the chain.
  It is NOT an invariant of IterableList (Props/C19Iterable.lean, `C19_sorted_keys_not_invariant`).  Proved here:
  * every transition other than the successful re-use CAS of `link_data` (`pPrev->data: null|1 → pVal`) preserves
    `SortedKeys` — in particular the new-node path, `update`'s replacement and all of `erase` / `erase_at` do;
  * the re-use CAS preserves it if, at that instant, no node in front of `pPrev` holds a key `≥` the new key.
  That condition is what `find_prev` is meant to establish; its walk is not atomic, so it does not.
-/
import CdsVerif.Algo.Iterable.Run
namespace CdsVerif.Algo.Iterable
open CdsVerif.Machine CdsVerif.Spec

/-- `SortedKeys` reads the chain order, the pointer parts of the data words and the keys of stored elements. -/
theorem sorted_congr {s s' : St} (h : SortedKeys s)
    (hlt : ∀ a b, s'.lt a b = true → s.lt a b = true)
    (hd : ∀ a e, (s'.data a).p = some e → (s.data a).p = some e)
    (hk : ∀ a e, (s.data a).p = some e → s'.key e = s.key e) : SortedKeys s' := by
  intro a b ea eb hab ha hb
  have ha' := hd a ea ha
  have hb' := hd b eb hb
  rw [hk a ea ha', hk b eb hb']
  exact h a b ea eb (hlt a b hab) ha' hb'

theorem ptr_upd_same {data : Nat → DW} {a : Nat} {w : DW} (hw : w.p = (data a).p) :
    ∀ b e, ((upd data a w) b).p = some e → (data b).p = some e := by
  intro b e hb
  by_cases eb : b = a
  · subst eb; rw [upd_same, hw] at hb; exact hb
  · rw [upd_other _ _ _ _ eb] at hb; exact hb

theorem ptr_upd_none {data : Nat → DW} {a : Nat} {m : Bool} :
    ∀ b e, ((upd data a ⟨none, m⟩) b).p = some e → (data b).p = some e := by
  intro b e hb
  by_cases eb : b = a
  · subst eb; rw [upd_same] at hb; cases hb
  · rw [upd_other _ _ _ _ eb] at hb; exact hb

/-- Linking the new node (the new-node path of `link_data`) keeps the keys sorted. -/
theorem sorted_lCasNext {s : St} {t : Tid} {j : Job} {p : Pos} {n : Nat} (hS : SInv s) (h : SortedKeys s)
    (hpc : s.pc t = .lCasNext j p n) :
    SortedKeys { s with next := upd s.next p.prev n, lk := upd s.lk n true, lt := ltIns s.lt p.prev p.cur n,
                        pc := upd s.pc t (.lRelPrev j p true) } := by
  have hT := hS.thr t
  rw [hpc] at hT
  have hcur := (hT.mcur p rfl).2
  have hprev := (hT.mprev p rfl).2
  have hdn := hT.pdata j p n (Or.inr rfl)
  have hkj := (hT.kjob j rfl).2
  obtain ⟨kpv, kfnd, knone⟩ := hT.kpos j p rfl rfl
  have kct := hT.kctor p rfl
  have hnl := (hT.pcnt n rfl).2.2.1
  obtain ⟨o1,o2,o3,o4,o5,o6,o7,o8,o9,o10,o11,o12,o13,o14⟩ := hS.ord
  have lkne : ∀ b, s.lk b = true → b ≠ n := fun b hb e => by rw [e, hnl] at hb; cases hb
  intro a b ea eb hab ha hb
  dsimp only at hab ha hb ⊢
  by_cases ean : a = n <;> by_cases ebn : b = n
  · subst ean; subst ebn; simp [ltIns] at hab
  · -- a = n: the new element is before b
    subst ean
    rw [hdn] at ha; simp only [Option.some.injEq] at ha; subst ha
    rw [hkj]
    have hab' : b = p.cur ∨ s.lt p.cur b = true := by simpa [ltIns, ebn] using hab
    cases hf : p.found with
    | none =>
      have hc2 := knone hf
      rcases hab' with h1 | h1
      · rw [h1, hcur, hf] at hb; cases hb
      · exfalso
        rw [hc2] at h1
        have hlb := (o6 _ _ h1).2
        by_cases eb2 : b = 2
        · rw [eb2, o7] at h1; cases h1
        · have := o8 _ _ _ h1 (o11 b hlb eb2); rw [o7] at this; cases this
    | some f =>
      have hkf := (kfnd f hf).2
      rcases hab' with h1 | h1
      · rw [h1, hcur, hf] at hb; simp only [Option.some.injEq] at hb; subst hb; exact hkf
      · have := h p.cur b f eb h1 (by rw [hcur, hf]) hb
        omega
  · -- b = n: a is before the new element
    subst ebn
    rw [hdn] at hb; simp only [Option.some.injEq] at hb; subst hb
    rw [hkj]
    have hab' : a = p.prev ∨ s.lt a p.prev = true := by simpa [ltIns, ean] using hab
    cases hv : p.pv with
    | none =>
      have hp1 := kct hv
      rcases hab' with h1 | h1
      · rw [h1, hprev, hv] at ha; cases ha
      · exfalso
        rw [hp1] at h1
        have hla := (o6 _ _ h1).1
        by_cases ea1 : a = 1
        · rw [ea1, o7] at h1; cases h1
        · have := o8 _ _ _ (o10 a hla ea1) h1; rw [o7] at this; cases this
    | some v =>
      have hkv := (kpv v hv).2
      rcases hab' with h1 | h1
      · rw [h1, hprev, hv] at ha; simp only [Option.some.injEq] at ha; subst ha; exact hkv
      · have := h a p.prev ea v h1 ha (by rw [hprev, hv])
        omega
  · rw [ltIns_old ean ebn] at hab
    exact h a b ea eb hab ha hb

/-- `update` replaces an element by one with the same key. -/
theorem sorted_updCas {s : St} {t : Tid} {j : Job} {cur e : Nat} (hS : SInv s) (h : SortedKeys s)
    (hpc : s.pc t = .updCas j cur e) (hd : s.data cur = ⟨some e, false⟩) :
    SortedKeys { (s.removed t e) with data := upd s.data cur ⟨some j.e, false⟩, home := upd s.home j.e (some cur),
                                      pc := upd s.pc t (.done [1, 0, (e : Int)]) } := by
  have hT := hS.thr t
  rw [hpc] at hT
  have hkj := (hT.kjob j rfl).2
  have hke := (hT.kupd j cur e rfl).2
  have hsame : s.key j.e = s.key e := by rw [hkj, hke]
  intro a b ea eb hab ha hb
  dsimp only [St.removed] at hab ha hb ⊢
  -- translate the elements at `cur` back to `e`
  have tr : ∀ x ex, ((upd s.data cur ⟨some j.e, false⟩) x).p = some ex →
      ∃ ex', (s.data x).p = some ex' ∧ s.key ex = s.key ex' := by
    intro x ex hx
    by_cases exc : x = cur
    · subst exc; rw [upd_same] at hx; simp only [Option.some.injEq] at hx; subst hx
      exact ⟨e, by rw [hd], hsame⟩
    · rw [upd_other _ _ _ _ exc] at hx; exact ⟨ex, hx, rfl⟩
  obtain ⟨ea', ha', hka⟩ := tr a ea ha
  obtain ⟨eb', hb', hkb⟩ := tr b eb hb
  rw [hka, hkb]
  exact h a b ea' eb' hab ha' hb'

/-- The re-use CAS keeps the keys sorted PROVIDED no node in front of `pPrev` holds a key `≥` the new key. -/
theorem sorted_lReuse {s : St} {t : Tid} {j : Job} {p : Pos} (hS : SInv s) (h : SortedKeys s)
    (hpc : s.pc t = .lReuse j p)
    (hfront : ∀ a ea, s.lt a p.prev = true → (s.data a).p = some ea → s.key ea < j.k) :
    SortedKeys { s with data := upd s.data p.prev ⟨some j.e, false⟩, mo := upd s.mo p.prev none,
                        home := upd s.home j.e (some p.prev), pc := upd s.pc t (.lRelCur j p true) } := by
  have hT := hS.thr t
  rw [hpc] at hT
  have hcur := (hT.mcur p rfl).2
  have hkj := (hT.kjob j rfl).2
  obtain ⟨-, kfnd, knone⟩ := hT.kpos j p rfl rfl
  have hadj := hT.adj p rfl
  obtain ⟨hlp, hlc, hltpc⟩ := hT.pos p rfl
  have hpe := lReuse_enabled hS hpc
  obtain ⟨o1,o2,o3,o4,o5,o6,o7,o8,o9,o10,o11,o12,o13,o14⟩ := hS.ord
  have hp2 : p.prev ≠ 2 := fun e => by
    rw [e] at hltpc
    by_cases ec : p.cur = 2
    · rw [ec, o7] at hltpc; cases hltpc
    · have := o8 _ _ _ hltpc (o11 _ hlc ec); rw [o7] at this; cases this
  intro a b ea eb hab ha hb
  dsimp only at hab ha hb ⊢
  by_cases eap : a = p.prev <;> by_cases ebp : b = p.prev
  · subst eap; subst ebp; rw [o7] at hab; cases hab
  · -- the new element is before b: b is `pCur` or behind it
    subst eap
    rw [upd_same] at ha; simp only [Option.some.injEq] at ha; subst ha
    rw [upd_other _ _ _ _ ebp] at hb
    rw [hkj]
    have hlb := (o6 _ _ hab).2
    have hbc : b = p.cur ∨ s.lt p.cur b = true := by
      by_cases ebc : b = p.cur
      · exact Or.inl ebc
      · right
        rcases o9 b p.cur hlb hlc ebc with h1 | h1
        · exact absurd h1 (by intro h2; exact o13 p.prev b hlp hp2 hab (by rw [hadj]; exact h2))
        · exact h1
    cases hf : p.found with
    | none =>
      have hc2 := knone hf
      rcases hbc with h1 | h1
      · rw [h1, hcur, hf] at hb; cases hb
      · exfalso
        rw [hc2] at h1
        by_cases eb2 : b = 2
        · rw [eb2, o7] at h1; cases h1
        · have := o8 _ _ _ h1 (o11 b hlb eb2); rw [o7] at this; cases this
    | some f =>
      have hkf := (kfnd f hf).2
      rcases hbc with h1 | h1
      · rw [h1, hcur, hf] at hb; simp only [Option.some.injEq] at hb; subst hb; exact hkf
      · have := h p.cur b f eb h1 (by rw [hcur, hf]) hb
        omega
  · -- a is in front of `pPrev`: the hypothesis
    subst ebp
    rw [upd_same] at hb; simp only [Option.some.injEq] at hb; subst hb
    rw [upd_other _ _ _ _ eap] at ha
    rw [hkj]
    exact hfront a ea hab ha
  · rw [upd_other _ _ _ _ eap] at ha
    rw [upd_other _ _ _ _ ebp] at hb
    exact h a b ea eb hab ha hb

/-- The node constructor stores into a node that is not linked. -/
theorem sorted_lCtor2 {s : St} {t : Tid} {j : Job} {p : Pos} {n : Nat} (hS : SInv s) (h : SortedKeys s)
    (hpc : s.pc t = .lCtor2 j p n) :
    SortedKeys { s with data := upd s.data n ⟨some j.e, false⟩, home := upd s.home j.e (some n),
                        pc := upd s.pc t (.lStNext j p n) } := by
  have hnl := ((hS.thr t).pcnt n (by rw [hpc]; rfl)).2.2.1
  have lkne : ∀ b, s.lk b = true → b ≠ n := fun b hb e => by rw [e, hnl] at hb; cases hb
  intro a b ea eb hab ha hb
  dsimp only at hab ha hb ⊢
  have hl := hS.ord.ltlk a b hab
  rw [upd_other _ _ _ _ (lkne a hl.1)] at ha
  rw [upd_other _ _ _ _ (lkne b hl.2)] at hb
  exact h a b ea eb hab ha hb

set_option maxHeartbeats 4000000 in
/-- Every step other than the re-use CAS of `link_data` preserves `SortedKeys`. -/
theorem sorted_step {s s' : St} {t : Tid} {ev : Ev} (hS : SInv s) (h : SortedKeys s)
    (hs : step s t = some (s', ev)) (hnr : ∀ j p, s.pc t ≠ .lReuse j p) : SortedKeys s' := by
  unfold step at hs
  split at hs <;> (try split at hs) <;> (try split at hs) <;> (try split at hs) <;>
    first
    | (exfalso; cases hs; done)
    | (exfalso; exact hnr _ _ ‹_›)
    | (simp only [Option.some.injEq, Prod.mk.injEq] at hs
       obtain ⟨rfl, -⟩ := hs
       exact sorted_congr h (fun _ _ hx => hx) (fun _ _ hx => hx) (fun _ _ _ => rfl))
    | (simp only [Option.some.injEq, Prod.mk.injEq] at hs
       obtain ⟨rfl, -⟩ := hs
       exact sorted_congr h (fun _ _ hx => hx) ptr_upd_none (fun _ _ _ => rfl))
    | (simp only [Option.some.injEq, Prod.mk.injEq] at hs
       obtain ⟨rfl, -⟩ := hs
       refine sorted_congr h (fun _ _ hx => hx) (ptr_upd_same ?_) (fun _ _ _ => rfl)
       simp [*]
       done)
    | (simp only [Option.some.injEq, Prod.mk.injEq] at hs
       obtain ⟨rfl, -⟩ := hs
       exact sorted_updCas hS h ‹_› ‹_›)
    | (simp only [Option.some.injEq, Prod.mk.injEq] at hs
       obtain ⟨rfl, -⟩ := hs
       exact sorted_lCtor2 hS h ‹_›)
    | (simp only [Option.some.injEq, Prod.mk.injEq] at hs
       obtain ⟨rfl, -⟩ := hs
       exact sorted_lCasNext hS h ‹_›)
    | (simp only [Option.some.injEq, Prod.mk.injEq] at hs
       obtain ⟨rfl, -⟩ := hs
       have hpc : s.pc t = _ := ‹_›
       refine sorted_congr h (fun _ _ hx => hx) (ptr_upd_same ?_) (fun _ _ _ => rfl)
       first
       | exact (congrArg DW.p ((hS.thr t).mprev _ (by rw [hpc]; rfl)).2).symm
       | exact (congrArg DW.p ((hS.thr t).mcur _ (by rw [hpc]; rfl)).2).symm)

/-- `invoke` and `result` preserve `SortedKeys` (a new element id is fresh: no stored element changes its key). -/
theorem sorted_invoke {s s' : St} {t : Tid} {op : GOp} (hS : SInv s) (h : SortedKeys s)
    (hs : invoke s t op = some s') : SortedKeys s' := by
  have hused : ∀ a e, (s.data a).p = some e → s.used e = true := fun a e he =>
    (hS.elem.hrng e a (hS.elem.ehome a e he)).1
  obtain ⟨name, args⟩ := op
  unfold invoke at hs
  split at hs <;> (try split at hs) <;> (try split at hs) <;>
    first
    | (exfalso; cases hs; done)
    | (simp only [Option.some.injEq] at hs
       subst hs
       exact sorted_congr h (fun _ _ hx => hx) (fun _ _ hx => hx) (fun _ _ _ => rfl))
    | (simp only [Option.some.injEq] at hs
       subst hs
       rename_i hu
       refine sorted_congr h (fun _ _ hx => hx) (fun _ _ hx => hx) ?_
       intro a e he
       have := hused a e he
       dsimp only
       have hne : e ≠ _ := fun hc => by rw [hc] at this; exact hu this
       exact upd_other _ _ _ _ hne)

theorem sorted_result {s s' : St} {t : Tid} {r : GRet} (h : SortedKeys s)
    (hs : result s t = some (s', r)) : SortedKeys s' := by
  unfold result at hs
  split at hs
  · simp only [Option.some.injEq, Prod.mk.injEq] at hs
    obtain ⟨rfl, -⟩ := hs
    exact sorted_congr h (fun _ _ hx => hx) (fun _ _ hx => hx) (fun _ _ _ => rfl)
  · cases hs

end CdsVerif.Algo.Iterable

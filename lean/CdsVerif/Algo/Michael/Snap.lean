/-
  C18 "reachable ⇒ well-formed", MichaelList machine: the machine state rendered as the `SNAP list` dump of the real
  object (`harness/clients/snap.cpp`, `MichaelSnap::dump`: follow `m_pNext.ptr()` from `m_pHead` to null; per node its
  key, the mark bit of its `m_pNext`, `hasData = 1`), and the lemmas that connect the dump with the invariant `SInvL`
  (`Algo/Michael/Inv.lean`, `Reach.lean`).  Property theorems are in `Props/C18Reach.lean`.

  The machine has no item counter (`Model.lean`: "the item counter … not modelled"), so nothing is said on `size()`.
-/
import CdsVerif.Algo.Michael.Reach
import CdsVerif.Props.C18
namespace CdsVerif.Algo.Michael
open CdsVerif.Machine CdsVerif.Spec CdsVerif.Snapshot

/-- One dumped node. -/
def snapNode (s : St) (a : Nat) : LNode := ⟨s.key a, s.mark a, true⟩

/-- The `SNAP list` dump of a machine state: the raw chain from `m_pHead` (`absNodes`: `walk` along `next` from
    cell 0 with the number of allocated nodes as fuel — the `c_walk_limit` of the real dump —, head cell dropped). -/
def snapOf (s : St) : ListSnap := (absNodes s).map (snapNode s)

/-- The dump as the tokens of a `SNAP` line of the harness (`list k m d k m d …`): what `cdsdriver replay michael`
    compares with the `SNAP list …` line of a replayed case. -/
def snapTokens (s : St) : List String :=
  "list" :: (snapOf s).flatMap (fun n => [toString n.key, if n.marked then "1" else "0", if n.hasData then "1" else "0"])

/-- The abstract set as a list of keys (the keys of `absMap`, which is in chain order). -/
def absKeys (s : St) : List Int := (absMap s).map (·.1)

theorem listAbs_map_snapNode (s : St) : ∀ l : List Nat,
    listAbs (l.map (snapNode s)) = ((l.filter (fun a => !s.mark a)).map (fun a => (s.key a, s.val a))).map (·.1)
  | [] => rfl
  | a :: l => by
    have ih := listAbs_map_snapNode s l
    unfold listAbs at ih ⊢
    cases hm : s.mark a <;> simp [LNode.live, snapNode, hm] <;> simpa using ih

/-- The abstraction function of tie S, applied to the dump of a machine state, is the machine's abstract set. -/
theorem listAbs_snapOf (s : St) : listAbs (snapOf s) = absKeys s := listAbs_map_snapNode s (absNodes s)

theorem SInvL.absKeys_sorted {s : St} {L : List Nat} (h : SInvL s L) : (absKeys s).Pairwise (· < ·) := by
  unfold absKeys
  rw [List.pairwise_map]
  exact h.absMap_sorted

theorem SInvL.snap_wf {s : St} {L : List Nat} (h : SInvL s L) : listWf (snapOf s) = true := by
  unfold listWf
  rw [listAbs_snapOf]
  exact (CdsVerif.Props.C18.sortedLt_iff _).2 h.absKeys_sorted

/-- ALL dumped nodes (marked ones included) have strictly increasing keys. -/
theorem SInvL.snap_all_sorted {s : St} {L : List Nat} (h : SInvL s L) :
    ((snapOf s).map (·.key)).Pairwise (· < ·) := by
  unfold snapOf
  rw [List.map_map, List.pairwise_map]
  exact h.absNodes_sorted

theorem mem_absKeys (s : St) (k : Int) : k ∈ absKeys s ↔ ∃ v, (k, v) ∈ absMap s := by
  simp [absKeys]

end CdsVerif.Algo.Michael

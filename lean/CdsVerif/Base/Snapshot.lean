/-
  Tie S (snapshot conformance), property C18.

  Plain-data images of the ordered containers of libcds as the harness client
  `harness/clients/snap.cpp` dumps them at a quiescent point (through the private members of the
  real objects), with *executable* well-formedness predicates and abstraction functions.  The
  driver (`CdsVerif/Driver/Snapshot.lean`) evaluates exactly these functions on every dump; the
  theorems about them are in `CdsVerif/Props/C18.lean`.

  Core Lean only (the driver imports this file).
-/
namespace CdsVerif.Snapshot

/-! ### Generic helpers -/

/-- `r` holds between every two adjacent elements. -/
def chainB {α : Type} (r : α → α → Bool) : List α → Bool
  | [] => true
  | [_] => true
  | a :: b :: t => r a b && chainB r (b :: t)

/-- strictly increasing list of integers -/
def sortedLt (l : List Int) : Bool := chainB (fun a b => decide (a < b)) l

/-! ### Ordered lists: MichaelList, LazyList, IterableList

  One entry per node of the raw chain, in chain order from the head.
  * `marked`  — the node carries a deletion mark (Michael / Lazy: mark bit of the node's `m_pNext`;
                Iterable: mark bit of the node's `data` pointer, which is only set while an insertion
                next to the node is in progress);
  * `hasData` — `false` for an empty node of an IterableList (its `data` pointer is null). -/

structure LNode where
  key : Int
  marked : Bool
  hasData : Bool
deriving Repr, DecidableEq

abbrev ListSnap := List LNode

/-- the node represents a present key -/
def LNode.live (n : LNode) : Bool := !n.marked && n.hasData

/-- abstraction: the keys of the live nodes, in chain order -/
def listAbs (s : ListSnap) : List Int := (s.filter LNode.live).map (·.key)

/-- well-formedness: the keys of the live nodes are strictly increasing along the chain -/
def listWf (s : ListSnap) : Bool := sortedLt (listAbs s)

/-- the fold a forward iterator performs: walk the chain, skip marked and empty nodes -/
def listTraverse : ListSnap → List Int
  | [] => []
  | n :: t => if n.marked || !n.hasData then listTraverse t else n.key :: listTraverse t

/-! ### Skip lists

  One list per level (level 0 first); a level is the raw chain of that level from the head tower.
  `marked` = mark bits of the node's `next[level]` pointer (the tower is logically deleted). -/

structure SNode where
  key : Int
  marked : Bool
deriving Repr, DecidableEq

abbrev SkipSnap := List (List SNode)

def levelKeys (l : List SNode) : List Int := l.map (·.key)

/-- every level is a sub-list of the level below (`List.isSublist` is the executable test of core,
    `List.isSublist_iff_sublist`) -/
def subChain : List (List Int) → Bool
  | [] => true
  | [_] => true
  | a :: b :: t => b.isSublist a && subChain (b :: t)

def skipLevels (s : SkipSnap) : List (List Int) := s.map levelKeys

def skipWf (s : SkipSnap) : Bool :=
  sortedLt (levelKeys (s.headD [])) && subChain (skipLevels s)

/-- abstraction: the keys of the unmarked nodes of level 0 -/
def skipAbs (s : SkipSnap) : List Int := ((s.headD []).filter (fun n => !n.marked)).map (·.key)

/-! ### EllenBinTree: leaf-oriented binary search tree

  Dumped from `m_Root`.  Keys are `long`s; the two infinite keys of the library (flags
  `key_infinite1`, `key_infinite2` of a node) are embedded above every `long`:
  `inf1 = 2^63`, `inf2 = 2^63 + 1`.  Convention of the library (`try_insert`: the key of a new
  internal node is the larger of the two leaf keys; `check_consistency`: `left < node`,
  `node ≤ right`): all keys of the left subtree are `<` the key of the node, all keys of
  the right subtree are `≥` it.  `upd` = flag bits of the node's update descriptor pointer
  (0 Clean, 1 DFlag, 2 IFlag, 3 Mark). -/

inductive ETree where
  | leaf (key : Int)
  | node (key : Int) (upd : Nat) (l r : ETree)
deriving Repr

def inf1 : Int := 9223372036854775808
def inf2 : Int := 9223372036854775809

namespace ETree

/-- in-order leaf keys -/
def leaves : ETree → List Int
  | leaf k => [k]
  | node _ _ l r => l.leaves ++ r.leaves

/-- `p` holds for the key of every node (leaves and internal nodes) -/
def allKeys (p : Int → Bool) : ETree → Bool
  | leaf k => p k
  | node k _ l r => p k && l.allKeys p && r.allKeys p

/-- search-tree order of a leaf-oriented tree: every key of the left subtree (leaf keys and routing
    keys of internal nodes) is `<` the key of the node, every key of the right subtree is `≥` it -/
def ordered : ETree → Bool
  | leaf _ => true
  | node k _ l r =>
    l.allKeys (fun x => decide (x < k)) && r.allKeys (fun x => decide (k ≤ x)) && l.ordered && r.ordered

/-- no operation in progress: every update descriptor is Clean -/
def clean : ETree → Bool
  | leaf _ => true
  | node _ u l r => u == 0 && l.clean && r.clean

/-- the sentinels of the library: the root has key ∞₂ and the leaf ∞₂ as right child, and the
    right-most leaf of its left subtree is the leaf ∞₁ -/
def shape : ETree → Bool
  | node k _ l (leaf k2) => k == inf2 && k2 == inf2 && l.leaves.getLast? == some inf1
  | _ => false

def key : ETree → Int
  | leaf k => k
  | node k _ _ _ => k

/-- Transcription of `EllenBinTree::check_consistency( internal_node* )`: a node is compared with
    its two *direct* children only (`left < node`, `node ≤ right`, `left < right`, by node key). -/
def libCheck : ETree → Bool
  | leaf _ => true
  | node k _ l r =>
    decide (l.key < k) && decide (k ≤ r.key) && decide (l.key < r.key) && l.libCheck && r.libCheck

end ETree

def ellenWf (t : ETree) : Bool := t.ordered && t.clean && t.shape

/-- abstraction: the finite leaf keys in in-order -/
def ellenAbs (t : ETree) : List Int := t.leaves.filter (fun k => decide (k < inf1))

/-! ### BronsonAVLTreeMap

  Dumped from the right child of the root holder `m_pRoot`.  `height` is the *stored* height
  (`m_nHeight`), `hasValue = false` for a routing node (`m_pValue` null). -/

inductive ATree where
  | nil
  | node (key : Int) (height : Int) (hasValue : Bool) (l r : ATree)
deriving Repr

namespace ATree

/-- stored height (0 for an empty subtree, as `height_null` of the library) -/
def h : ATree → Int
  | nil => 0
  | node _ ht _ _ _ => ht

/-- structural height -/
def sh : ATree → Nat
  | nil => 0
  | node _ _ _ l r => 1 + max l.sh r.sh

/-- in-order keys of all nodes (routing nodes included) -/
def keys : ATree → List Int
  | nil => []
  | node k _ _ l r => l.keys ++ k :: r.keys

/-- in-order keys of the nodes that carry a value -/
def vkeys : ATree → List Int
  | nil => []
  | node k _ v l r => l.vkeys ++ (if v then k :: r.vkeys else r.vkeys)

def allKeys (p : Int → Bool) : ATree → Bool
  | nil => true
  | node k _ _ l r => p k && l.allKeys p && r.allKeys p

/-- search-tree order on the keys of all nodes (strict: a key occurs in one node only) -/
def ordered : ATree → Bool
  | nil => true
  | node k _ _ l r =>
    l.allKeys (fun x => decide (x < k)) && r.allKeys (fun x => decide (k < x)) && l.ordered && r.ordered

/-- the stored height of every node is 1 + the larger stored height of its children -/
def heightsOk : ATree → Bool
  | nil => true
  | node _ ht _ l r => ht == 1 + max l.h r.h && l.heightsOk && r.heightsOk

/-- AVL balance on the stored heights: they differ by at most one at every node -/
def balanced : ATree → Bool
  | nil => true
  | node _ _ _ l r => decide (l.h ≤ r.h + 1) && decide (r.h ≤ l.h + 1) && l.balanced && r.balanced

/-- a routing node (no value) has two children (otherwise the library unlinks it: `unlink_required`) -/
def routingOk : ATree → Bool
  | nil => true
  | node _ _ v l r =>
    (v || (match l, r with | node .., node .. => true | _, _ => false)) && l.routingOk && r.routingOk

/-- The "height" that `BronsonAVLTreeMap::do_check_consistency` computes and returns: 0 for a null
    node, and for a node the *larger of the values returned for its children* — the function returns
    `hLeft` (or `hRight`), not `1 + hLeft`.  (So it is 0 for every tree, `C18.ATree.libH_eq_zero`.) -/
def libH : ATree → Nat
  | nil => 0
  | node _ _ _ l r => max l.libH r.libH

/-- Transcription of `BronsonAVLTreeMap::check_consistency()` (`do_check_consistency`): it compares
    a node with its *direct* children only (`cmp( left, node ) > 0` and `cmp( node, right ) > 0` are
    errors, equal keys are not), and it counts an error when the values `libH` of the two children
    differ by more than one.  It looks neither at the stored heights nor at values. -/
def libCheck : ATree → Bool
  | nil => true
  | node k _ _ l r =>
    (match l with | node kl .. => decide (kl ≤ k) | nil => true) &&
    (match r with | node kr .. => decide (k ≤ kr) | nil => true) &&
    l.libCheck && r.libCheck && decide (l.libH ≤ r.libH + 1) && decide (r.libH ≤ l.libH + 1)

/-- the order part of `libCheck` -/
def localOrder : ATree → Bool
  | nil => true
  | node k _ _ l r =>
    (match l with | node kl .. => decide (kl ≤ k) | nil => true) &&
    (match r with | node kr .. => decide (k ≤ kr) | nil => true) &&
    l.localOrder && r.localOrder

/-- AVL balance on the structural heights, as a Boolean function (what the driver evaluates) -/
def shapeBalanced : ATree → Bool
  | nil => true
  | node _ _ _ l r => decide (l.sh ≤ r.sh + 1) && decide (r.sh ≤ l.sh + 1) && l.shapeBalanced && r.shapeBalanced

/-- AVL balance stated on the shape of the tree alone -/
def Balanced : ATree → Prop
  | nil => True
  | node _ _ _ l r => l.sh ≤ r.sh + 1 ∧ r.sh ≤ l.sh + 1 ∧ l.Balanced ∧ r.Balanced

end ATree

/-- What holds for the AVL tree at *every* quiescent point (after sequential and after concurrent
    histories): search-tree order.  This is also all that the library's `check_consistency()` can
    see (`ATree.libCheck`: order of direct children; its balance test is vacuous, see
    `C18.libCheck_eq_localOrder`).

    Property C18 says more ("search-tree order, and AVL balance for Bronson"): that is `avlStrict`
    below.  The harness shows that `avlStrict` holds at every quiescent point reached by a
    *sequential* history, but not after every *concurrent* history: Bronson's tree is a
    relaxed-balance tree, every mutator repairs heights / balance / dangling routing nodes on its way
    up with unlocked reads and stops as soon as a node looks fine, and an interleaving of two such
    repair walks can leave a stale stored height, an imbalance of 2, or a routing node with one
    child behind when all operations have returned (witnesses in `Props/C18.lean`).  So the
    well-formedness predicate that the driver uses for its WF / NOTWF verdict is the order alone, and
    the driver reports the strict part separately (`NOTE avl not-strict …`). -/
def avlWf (t : ATree) : Bool := t.ordered

/-- strict AVL tree: search-tree order, exact stored heights, balance within one, and no routing
    node with fewer than two children -/
def avlStrict (t : ATree) : Bool := t.ordered && t.heightsOk && t.balanced && t.routingOk

/-- abstraction: in-order keys of the nodes with a value -/
def avlAbs (t : ATree) : List Int := t.vkeys

/-! ### Split-ordered list (SplitListSet over MichaelList)

  One entry per node of the raw chain of the underlying ordered list.  `so` = the node's
  split-order key `m_nHash` (64-bit), `isDummy` = the node is referenced by the bucket table,
  `key` = user key of a regular node (bucket number for a dummy), `marked` = deletion mark. -/

structure SONode where
  so : Nat
  isDummy : Bool
  key : Int
  marked : Bool
deriving Repr, DecidableEq

abbrev SplitSnap := List SONode

/-- order of the underlying list (`split_list` comparators): by split-order key, regular nodes
    with equal split-order keys by user key; two dummies never share a split-order key -/
def soLt (a b : SONode) : Bool :=
  decide (a.so < b.so) || (a.so == b.so && !a.isDummy && !b.isDummy && decide (a.key < b.key))

/-- dummy nodes have even, regular nodes odd split-order keys; keys are 64-bit -/
def SONode.parityOk (n : SONode) : Bool := ((n.so % 2 == 0) == n.isDummy) && decide (n.so < 2 ^ 64)

def splitWf (s : SplitSnap) : Bool :=
  (match s with
   | [] => false
   | d :: _ => d.isDummy && d.so == 0) &&      -- the chain starts with the dummy node of bucket 0
  s.all SONode.parityOk && chainB soLt s

/-- abstraction: the keys of the live regular nodes, in chain (= split) order -/
def splitAbs (s : SplitSnap) : List Int :=
  (s.filter (fun n => !n.isDummy && !n.marked)).map (·.key)

end CdsVerif.Snapshot

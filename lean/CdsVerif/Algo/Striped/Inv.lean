/-
  Inductive invariant of the StripedSet model (both mutex policies), needs `cfg.recheck = true`.

  Policy          pol_r pol_s str0 asz0 : the program points of one policy do not occur under the other; striping never
                  touches `gen` / `owner`; lock array 0 has `cap0` cells
  Cell locks      hold : a thread at a program point between the acquisition and the release of cell ( g, c ) is the
                  ghost holder of ( g, c ); hlk hwt hfull hunl : the striping resizer holds cells 0 .. i-1 while
                  locking, all cells while resizing, cells i .. n-1 while unlocking;  l1 : a held lock's word is set;
                  fut gl1 gl2 : cells of future lock arrays are held by nobody, and nobody is about to lock one
  Owner / access  own1 own2 : `m_Owner` names exactly the thread inside acquire_resize .. release_resize;
                  acc1 acc2 : the `m_access` word is set while somebody is inside the section, and that is one thread
  Exclusion       excl1 : while a thread is between "resize lock obtained" and "resize lock given back" (`excl`), no
                  thread is inside a cell section (`inCell`: re-check passed .. cell unlocked);  exclu : at most one such
                  thread;  swp swpU : the refinable owner's sweep: every thread inside a cell section holds a cell the
                  sweep has not reached yet;  cgen : a thread inside a cell section locked a cell of the CURRENT array
  Buckets         ckey : the cell is the one of the key;  bidx : the bucket index computed from the loaded mask is the
                  one of the CURRENT mask;  okop : operations are keyed;  place uniq : every item sits in bucket
                  `h key % capacity`, no bucket holds a key twice
  Sizes           oldm newsz aszpos rs_* dvd pow2 : the resizer's local copies are current; the refinable lock array
                  is as large as the table except between the swap and the store of the mask; the capacity is
                  `cap0 * 2 ^ j`
-/
import CdsVerif.Algo.Striped.Lemmas
namespace CdsVerif.Algo.Striped
open CdsVerif.Machine CdsVerif.Spec

/-- the single cell ( g, c ) whose lock the thread holds -/
def cellOf : PC → Option (Nat × Nat)
  | .idle => none | .sLk _ => none | .sWait _ => none | .aOwn _ => none | .aAccL _ => none | .aAccW _ => none
  | .aAccU _ => none | .aLk _ _ => none | .aWait _ _ => none
  | .aChk _ g c => some (g, c) | .aRel _ g c => some (g, c)
  | .bMask _ g c => some (g, c) | .bOp _ g c _ => some (g, c) | .bCnt _ g c => some (g, c)
  | .bPol _ g c _ => some (g, c) | .bUnl _ g c _ _ => some (g, c)
  | .eDec _ => none | .zOld _ => none | .zLk _ _ _ => none | .zWait _ _ _ => none | .zCas _ _ _ => none
  | .zTry _ _ _ _ => none | .zTryU _ _ g i => some (g, i)
  | .zChk _ _ => none | .zCapSt _ _ => none | .zInit _ _ _ => none | .zAccL _ _ => none | .zAccW _ _ => none
  | .zAccU _ _ => none | .zCnt _ _ => none | .zMask _ _ _ => none | .zMove _ _ => none | .zRelO _ => none
  | .zUnl _ _ => none | .done _ => none

/-- inside a cell section: the lock is held and (refinable) the re-check has succeeded -/
def inCell : PC → Bool
  | .bMask _ _ _ => true | .bOp _ _ _ _ => true | .bCnt _ _ _ => true | .bPol _ _ _ _ => true | .bUnl _ _ _ _ _ => true
  | .idle => false | .sLk _ => false | .sWait _ => false | .aOwn _ => false | .aAccL _ => false | .aAccW _ => false
  | .aAccU _ => false | .aLk _ _ => false | .aWait _ _ => false | .aChk _ _ _ => false | .aRel _ _ _ => false
  | .eDec _ => false | .zOld _ => false | .zLk _ _ _ => false | .zWait _ _ _ => false | .zCas _ _ _ => false
  | .zTry _ _ _ _ => false | .zTryU _ _ _ _ => false
  | .zChk _ _ => false | .zCapSt _ _ => false | .zInit _ _ _ => false | .zAccL _ _ => false | .zAccW _ _ => false
  | .zAccU _ _ => false | .zCnt _ _ => false | .zMask _ _ _ => false | .zMove _ _ => false | .zRelO _ => false
  | .zUnl _ _ => false | .done _ => false

/-- the resize lock is held: from the end of `lock_all` / of the owner's sweep to the beginning of the release -/
def excl : PC → Bool
  | .zChk _ _ => true | .zCapSt _ _ => true | .zInit _ _ _ => true | .zAccL _ _ => true | .zAccW _ _ => true
  | .zAccU _ _ => true | .zCnt _ _ => true | .zMask _ _ _ => true | .zMove _ _ => true
  | .idle => false | .sLk _ => false | .sWait _ => false | .aOwn _ => false | .aAccL _ => false | .aAccW _ => false
  | .aAccU _ => false | .aLk _ _ => false | .aWait _ _ => false | .aChk _ _ _ => false | .aRel _ _ _ => false
  | .bMask _ _ _ => false | .bOp _ _ _ _ => false | .bCnt _ _ _ => false | .bPol _ _ _ _ => false | .bUnl _ _ _ _ _ => false
  | .eDec _ => false | .zOld _ => false | .zLk _ _ _ => false | .zWait _ _ _ => false | .zCas _ _ _ => false
  | .zTry _ _ _ _ => false | .zTryU _ _ _ _ => false | .zRelO _ => false | .zUnl _ _ => false | .done _ => false

/-- refinable: the thread whose id is in `m_Owner` -/
def ownPC : PC → Bool
  | .zTry _ _ _ _ => true | .zTryU _ _ _ _ => true | .zRelO _ => true
  | .zChk _ _ => true | .zCapSt _ _ => true | .zInit _ _ _ => true | .zAccL _ _ => true | .zAccW _ _ => true
  | .zAccU _ _ => true | .zCnt _ _ => true | .zMask _ _ _ => true | .zMove _ _ => true
  | .idle => false | .sLk _ => false | .sWait _ => false | .aOwn _ => false | .aAccL _ => false | .aAccW _ => false
  | .aAccU _ => false | .aLk _ _ => false | .aWait _ _ => false | .aChk _ _ _ => false | .aRel _ _ _ => false
  | .bMask _ _ _ => false | .bOp _ _ _ _ => false | .bCnt _ _ _ => false | .bPol _ _ _ _ => false | .bUnl _ _ _ _ _ => false
  | .eDec _ => false | .zOld _ => false | .zLk _ _ _ => false | .zWait _ _ _ => false | .zCas _ _ _ => false
  | .zUnl _ _ => false | .done _ => false

/-- program points of the refinable policy only -/
def refOnly : PC → Bool
  | .aOwn _ => true | .aAccL _ => true | .aAccW _ => true | .aAccU _ => true | .aLk _ _ => true | .aWait _ _ => true
  | .aChk _ _ _ => true | .aRel _ _ _ => true | .zCas _ _ _ => true | .zTry _ _ _ _ => true | .zTryU _ _ _ _ => true
  | .zCapSt _ _ => true | .zInit _ _ _ => true | .zAccL _ _ => true | .zAccW _ _ => true | .zAccU _ _ => true
  | .zRelO _ => true
  | .idle => false | .sLk _ => false | .sWait _ => false
  | .bMask _ _ _ => false | .bOp _ _ _ _ => false | .bCnt _ _ _ => false | .bPol _ _ _ _ => false | .bUnl _ _ _ _ _ => false
  | .eDec _ => false | .zOld _ => false | .zLk _ _ _ => false | .zWait _ _ _ => false
  | .zChk _ _ => false | .zCnt _ _ => false | .zMask _ _ _ => false | .zMove _ _ => false
  | .zUnl _ _ => false | .done _ => false

/-- program points of the striping policy only -/
def strOnly : PC → Bool
  | .sLk _ => true | .sWait _ => true | .zLk _ _ _ => true | .zWait _ _ _ => true | .zUnl _ _ => true
  | .idle => false | .aOwn _ => false | .aAccL _ => false | .aAccW _ => false
  | .aAccU _ => false | .aLk _ _ => false | .aWait _ _ => false | .aChk _ _ _ => false | .aRel _ _ _ => false
  | .bMask _ _ _ => false | .bOp _ _ _ _ => false | .bCnt _ _ _ => false | .bPol _ _ _ _ => false | .bUnl _ _ _ _ _ => false
  | .eDec _ => false | .zOld _ => false | .zCas _ _ _ => false
  | .zTry _ _ _ _ => false | .zTryU _ _ _ _ => false
  | .zChk _ _ => false | .zCapSt _ _ => false | .zInit _ _ _ => false | .zAccL _ _ => false | .zAccW _ _ => false
  | .zAccU _ _ => false | .zCnt _ _ => false | .zMask _ _ _ => false | .zMove _ _ => false | .zRelO _ => false
  | .done _ => false

/-- inside the `m_access` section -/
def accPC : PC → Bool
  | .aAccU _ => true | .zAccU _ _ => true
  | .idle => false | .sLk _ => false | .sWait _ => false | .aOwn _ => false | .aAccL _ => false | .aAccW _ => false
  | .aLk _ _ => false | .aWait _ _ => false | .aChk _ _ _ => false | .aRel _ _ _ => false
  | .bMask _ _ _ => false | .bOp _ _ _ _ => false | .bCnt _ _ _ => false | .bPol _ _ _ _ => false | .bUnl _ _ _ _ _ => false
  | .eDec _ => false | .zOld _ => false | .zLk _ _ _ => false | .zWait _ _ _ => false | .zCas _ _ _ => false
  | .zTry _ _ _ _ => false | .zTryU _ _ _ _ => false
  | .zChk _ _ => false | .zCapSt _ _ => false | .zInit _ _ _ => false | .zAccL _ _ => false | .zAccW _ _ => false
  | .zCnt _ _ => false | .zMask _ _ _ => false | .zMove _ _ => false | .zRelO _ => false
  | .zUnl _ _ => false | .done _ => false

/-- the operation of a thread that has not performed its bucket step yet -/
def opOf : PC → Option GOp
  | .sLk op => some op | .sWait op => some op | .aOwn op => some op | .aAccL op => some op | .aAccW op => some op
  | .aAccU op => some op | .aLk op _ => some op | .aWait op _ => some op | .aChk op _ _ => some op
  | .aRel op _ _ => some op | .bMask op _ _ => some op | .bOp op _ _ _ => some op
  | .idle => none
  | .bCnt _ _ _ => none | .bPol _ _ _ _ => none | .bUnl _ _ _ _ _ => none
  | .eDec _ => none | .zOld _ => none | .zLk _ _ _ => none | .zWait _ _ _ => none | .zCas _ _ _ => none
  | .zTry _ _ _ _ => none | .zTryU _ _ _ _ => none
  | .zChk _ _ => none | .zCapSt _ _ => none | .zInit _ _ _ => none | .zAccL _ _ => none | .zAccW _ _ => none
  | .zAccU _ _ => none | .zCnt _ _ => none | .zMask _ _ _ => none | .zMove _ _ => none | .zRelO _ => none
  | .zUnl _ _ => none | .done _ => none

/-- the result of a thread that has performed its bucket step (its linearization point) -/
def retOf : PC → Option GRet
  | .bCnt r _ _ => some r | .bPol r _ _ _ => some r | .bUnl r _ _ _ _ => some r
  | .eDec r => some r | .zOld r => some r | .zLk r _ _ => some r | .zWait r _ _ => some r | .zCas r _ _ => some r
  | .zTry r _ _ _ => some r | .zTryU r _ _ _ => some r
  | .zChk r _ => some r | .zCapSt r _ => some r | .zInit r _ _ => some r | .zAccL r _ => some r | .zAccW r _ => some r
  | .zAccU r _ => some r | .zCnt r _ => some r | .zMask r _ _ => some r | .zMove r _ => some r | .zRelO r => some r
  | .zUnl r _ => some r | .done r => some r
  | .idle => none
  | .sLk _ => none | .sWait _ => none | .aOwn _ => none | .aAccL _ => none | .aAccW _ => none
  | .aAccU _ => none | .aLk _ _ => none | .aWait _ _ => none | .aChk _ _ _ => none
  | .aRel _ _ _ => none | .bMask _ _ _ => none | .bOp _ _ _ _ => none

/-- the operation and the cell of a thread that holds its cell and has not performed the bucket step yet -/
def opCell : PC → Option (GOp × Nat × Nat)
  | .aChk op g c => some (op, g, c) | .aRel op g c => some (op, g, c)
  | .bMask op g c => some (op, g, c) | .bOp op g c _ => some (op, g, c)
  | .idle => none | .sLk _ => none | .sWait _ => none | .aOwn _ => none | .aAccL _ => none | .aAccW _ => none
  | .aAccU _ => none | .aLk _ _ => none | .aWait _ _ => none
  | .bCnt _ _ _ => none | .bPol _ _ _ _ => none | .bUnl _ _ _ _ _ => none
  | .eDec _ => none | .zOld _ => none | .zLk _ _ _ => none | .zWait _ _ _ => none | .zCas _ _ _ => none
  | .zTry _ _ _ _ => none | .zTryU _ _ _ _ => none
  | .zChk _ _ => none | .zCapSt _ _ => none | .zInit _ _ _ => none | .zAccL _ _ => none | .zAccW _ _ => none
  | .zAccU _ _ => none | .zCnt _ _ => none | .zMask _ _ _ => none | .zMove _ _ => none | .zRelO _ => none
  | .zUnl _ _ => none | .done _ => none

/-- the resizer's copy `nOldCapacity` once it has been validated under the resize lock -/
def oldOf : PC → Option Nat
  | .zCapSt _ old => some old | .zInit _ old _ => some old | .zAccL _ old => some old | .zAccW _ old => some old
  | .zAccU _ old => some old | .zCnt _ old => some old | .zMask _ old _ => some old
  | .idle => none | .sLk _ => none | .sWait _ => none | .aOwn _ => none | .aAccL _ => none | .aAccW _ => none
  | .aAccU _ => none | .aLk _ _ => none | .aWait _ _ => none | .aChk _ _ _ => none | .aRel _ _ _ => none
  | .bMask _ _ _ => none | .bOp _ _ _ _ => none | .bCnt _ _ _ => none | .bPol _ _ _ _ => none | .bUnl _ _ _ _ _ => none
  | .eDec _ => none | .zOld _ => none | .zLk _ _ _ => none | .zWait _ _ _ => none | .zCas _ _ _ => none
  | .zTry _ _ _ _ => none | .zTryU _ _ _ _ => none | .zChk _ _ => none | .zMove _ _ => none | .zRelO _ => none
  | .zUnl _ _ => none | .done _ => none

/-- refinable: the new lock array exists and is not yet the current one -/
def preSwap : PC → Bool
  | .zInit _ _ _ => true | .zAccL _ _ => true | .zAccW _ _ => true | .zAccU _ _ => true
  | .idle => false | .sLk _ => false | .sWait _ => false | .aOwn _ => false | .aAccL _ => false | .aAccW _ => false
  | .aAccU _ => false | .aLk _ _ => false | .aWait _ _ => false | .aChk _ _ _ => false | .aRel _ _ _ => false
  | .bMask _ _ _ => false | .bOp _ _ _ _ => false | .bCnt _ _ _ => false | .bPol _ _ _ _ => false | .bUnl _ _ _ _ _ => false
  | .eDec _ => false | .zOld _ => false | .zLk _ _ _ => false | .zWait _ _ _ => false | .zCas _ _ _ => false
  | .zTry _ _ _ _ => false | .zTryU _ _ _ _ => false | .zChk _ _ => false | .zCapSt _ _ => false
  | .zCnt _ _ => false | .zMask _ _ _ => false | .zMove _ _ => false | .zRelO _ => false
  | .zUnl _ _ => false | .done _ => false

/-- refinable: between the swap of the lock array and the store of the new mask -/
def midSwap : PC → Bool
  | .zCnt _ _ => true | .zMask _ _ _ => true
  | .idle => false | .sLk _ => false | .sWait _ => false | .aOwn _ => false | .aAccL _ => false | .aAccW _ => false
  | .aAccU _ => false | .aLk _ _ => false | .aWait _ _ => false | .aChk _ _ _ => false | .aRel _ _ _ => false
  | .bMask _ _ _ => false | .bOp _ _ _ _ => false | .bCnt _ _ _ => false | .bPol _ _ _ _ => false | .bUnl _ _ _ _ _ => false
  | .eDec _ => false | .zOld _ => false | .zLk _ _ _ => false | .zWait _ _ _ => false | .zCas _ _ _ => false
  | .zTry _ _ _ _ => false | .zTryU _ _ _ _ => false | .zChk _ _ => false | .zCapSt _ _ => false
  | .zInit _ _ _ => false | .zAccL _ _ => false | .zAccW _ _ => false | .zAccU _ _ => false
  | .zMove _ _ => false | .zRelO _ => false | .zUnl _ _ => false | .done _ => false

structure SInv (cfg : Cfg) (s : St) : Prop where
  pol_r : ∀ t, refOnly (s.pc t) = true → cfg.refinable = true
  pol_s : ∀ t, strOnly (s.pc t) = true → cfg.refinable = false
  str0 : cfg.refinable = false → s.gen = 0 ∧ s.owner = none
  asz0 : s.asz 0 = cfg.cap0
  aszpos : ∀ g, g ≤ s.gen → 0 < s.asz g
  hold : ∀ t g c, cellOf (s.pc t) = some (g, c) → s.holder g c = some t ∧ g ≤ s.gen ∧ c < s.asz g
  hlk : ∀ t r old i, s.pc t = .zLk r old i → i < s.asz 0 ∧ ∀ j, j < i → s.holder 0 j = some t
  hwt : ∀ t r old i, s.pc t = .zWait r old i → i < s.asz 0 ∧ ∀ j, j < i → s.holder 0 j = some t
  hfull : ∀ t, cfg.refinable = false → excl (s.pc t) = true → ∀ j, j < s.asz 0 → s.holder 0 j = some t
  hunl : ∀ t r i, s.pc t = .zUnl r i → i < s.asz 0 ∧ ∀ j, i ≤ j → j < s.asz 0 → s.holder 0 j = some t
  gl1 : ∀ t op g, s.pc t = .aLk op g → g ≤ s.gen
  gl2 : ∀ t op g, s.pc t = .aWait op g → g ≤ s.gen
  l1 : ∀ g c u, s.holder g c = some u → s.lk g c = true
  fut : ∀ g c u, s.holder g c = some u → g ≤ s.gen
  own1 : ∀ t, s.owner = some t → ownPC (s.pc t) = true ∧ cfg.refinable = true
  own2 : ∀ t, cfg.refinable = true → ownPC (s.pc t) = true → s.owner = some t
  acc1 : ∀ u, s.accBy = some u → s.access = true
  acc2 : ∀ t, accPC (s.pc t) = true → s.accBy = some t
  excl1 : ∀ t t', excl (s.pc t') = true → inCell (s.pc t) = true → False
  exclu : ∀ t1 t2, excl (s.pc t1) = true → excl (s.pc t2) = true → t1 = t2
  swp : ∀ t' r old g i, s.pc t' = .zTry r old g i →
    g = s.gen ∧ i < s.asz g ∧ ∀ t g2 c, inCell (s.pc t) = true → cellOf (s.pc t) = some (g2, c) → i ≤ c
  swpU : ∀ t' r old g i, s.pc t' = .zTryU r old g i →
    g = s.gen ∧ ∀ t g2 c, inCell (s.pc t) = true → cellOf (s.pc t) = some (g2, c) → i ≤ c
  cgen : ∀ t g c, inCell (s.pc t) = true → cellOf (s.pc t) = some (g, c) → g = s.gen
  ckey : ∀ t op g c, opCell (s.pc t) = some (op, g, c) → c = cfg.h (keyD op) % s.asz g
  bidx : ∀ t op g c b, s.pc t = .bOp op g c b → b = cfg.h (keyD op) % (s.mask + 1)
  okop : ∀ t op, opOf (s.pc t) = some op → ∃ k, okey op = some k
  oldm : ∀ t old, oldOf (s.pc t) = some old → old = s.mask + 1
  oldc : ∀ t r old oc, s.pc t = .zMask r old oc → oc = s.mask + 1
  newsz : ∀ t old, preSwap (s.pc t) = true → oldOf (s.pc t) = some old → s.asz (s.gen + 1) = 2 * old
  rs_none : cfg.refinable = true → s.owner = none → s.asz s.gen = s.mask + 1
  rs_own : ∀ t, cfg.refinable = true → ownPC (s.pc t) = true → midSwap (s.pc t) = false → s.asz s.gen = s.mask + 1
  rs_mid : ∀ t old, cfg.refinable = true → midSwap (s.pc t) = true → oldOf (s.pc t) = some old → s.asz s.gen = 2 * old
  rs_cell : ∀ t, cfg.refinable = true → inCell (s.pc t) = true → s.asz s.gen = s.mask + 1
  dvd : cfg.cap0 ∣ s.mask + 1
  pow2 : ∃ e, s.mask + 1 = 2 ^ e
  place : Placed cfg.h (s.mask + 1) s.bkt
  uniq : ∀ b, KeyUniq (s.bkt b)

theorem cap0_pos (cfg : Cfg) : 0 < cfg.cap0 := Nat.pow_pos (by decide)

theorem sinv_init (cfg : Cfg) : SInv cfg (init cfg) := by
  have hc := cap0_pos cfg
  have hm : cfg.cap0 - 1 + 1 = cfg.cap0 := by omega
  constructor
  case dvd => simp only [init, hm]; exact Nat.dvd_refl _
  case pow2 => exact ⟨cfg.k0, by simp only [init, hm]; rfl⟩
  all_goals (intros; simp_all [init, cellOf, inCell, excl, ownPC, refOnly, strOnly, accPC, opOf, opCell, oldOf, preSwap,
      midSwap, Placed, KeyUniq, withKey])

/-! ### Relations between the classifications -/

theorem inCell_cell {pc : PC} (h : inCell pc = true) : ∃ g c, cellOf pc = some (g, c) := by
  cases pc <;> simp [inCell] at h <;> exact ⟨_, _, rfl⟩

theorem excl_own {pc : PC} (h : excl pc = true) : ownPC pc = true := by
  cases pc <;> simp [excl] at h <;> rfl

theorem opCell_cell {pc : PC} {op : GOp} {g c : Nat} (h : opCell pc = some (op, g, c)) : cellOf pc = some (g, c) := by
  cases pc <;> simp [opCell] at h <;> simp [cellOf, h]

theorem preSwap_excl {pc : PC} (h : preSwap pc = true) : excl pc = true := by
  cases pc <;> simp [preSwap] at h <;> rfl

theorem midSwap_excl {pc : PC} (h : midSwap pc = true) : excl pc = true := by
  cases pc <;> simp [midSwap] at h <;> rfl

theorem oldOf_excl {pc : PC} {o : Nat} (h : oldOf pc = some o) : excl pc = true := by
  cases pc <;> simp [oldOf] at h <;> rfl

/-! ### Proof automation: one clause of the post-state at a time -/

macro "inv_all" h:ident : tactic =>
  `(tactic| (have := SInv.pol_r $h; have := SInv.pol_s $h; have := SInv.str0 $h; have := SInv.asz0 $h
             have := SInv.aszpos $h; have := SInv.hold $h; have := SInv.hlk $h; have := SInv.hwt $h
             have := SInv.hfull $h; have := SInv.hunl $h; have := SInv.gl1 $h; have := SInv.gl2 $h
             have := SInv.l1 $h; have := SInv.fut $h
             have := SInv.own1 $h; have := SInv.own2 $h; have := SInv.acc1 $h; have := SInv.acc2 $h
             have := SInv.excl1 $h; have := SInv.exclu $h; have := SInv.swp $h; have := SInv.swpU $h
             have := SInv.cgen $h; have := SInv.ckey $h; have := SInv.bidx $h; have := SInv.okop $h
             have := SInv.oldm $h; have := SInv.oldc $h; have := SInv.newsz $h; have := SInv.rs_none $h
             have := SInv.rs_own $h; have := SInv.rs_mid $h; have := SInv.rs_cell $h))

macro "sgrind" : tactic =>
  `(tactic| grind [upd, upd2, cellOf, inCell, excl, ownPC, refOnly, strOnly, accPC, opOf, retOf, opCell, oldOf, preSwap, midSwap])
macro "sgrind_big" : tactic =>
  `(tactic| grind (instances := 6000) (splits := 14) [upd, upd2, cellOf, inCell, excl, ownPC, refOnly, strOnly, accPC, opOf, retOf, opCell, oldOf, preSwap, midSwap])

/- `pg h X` closes clause `X` of `SInv` for the post-state: the clause is unchanged or has been prepared as a hypothesis,
   or `grind` proves it from the same clause of the pre-state, or from the whole invariant. -/
open Lean in
macro "pg" h:ident x:ident : tactic => do
  let f := mkIdent (`CdsVerif.Algo.Striped.SInv ++ x.getId.eraseMacroScopes)
  `(tactic| focus (first
    | ((try dsimp only); first | exact $f $h | assumption)
    | (intros; have := $f $h; (try dsimp only at *); first | done | sgrind)
    | (intros; inv_all $h; (try dsimp only at *); first | done | sgrind_big)))

macro "sinv_all" h:ident : tactic =>
  `(tactic| (constructor; pg $h pol_r; pg $h pol_s; pg $h str0; pg $h asz0; pg $h aszpos; pg $h hold; pg $h hlk; pg $h hwt
             pg $h hfull; pg $h hunl; pg $h gl1; pg $h gl2; pg $h l1; pg $h fut; pg $h own1; pg $h own2; pg $h acc1
             pg $h acc2; pg $h excl1
             pg $h exclu; pg $h swp; pg $h swpU; pg $h cgen; pg $h ckey; pg $h bidx; pg $h okop; pg $h oldm; pg $h oldc
             pg $h newsz; pg $h rs_none; pg $h rs_own; pg $h rs_mid; pg $h rs_cell; pg $h dvd; pg $h pow2; pg $h place
             pg $h uniq))

end CdsVerif.Algo.Striped

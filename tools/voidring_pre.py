"""Tie A for WeakRingBuffer<void>: translate the trace of harness/clients/ringbuf.cpp (variants void_*, run with
`--trace 1`) into the vocabulary of the Lean machine CdsVerif/Algo/VoidRing/Model.lean (`cdsdriver replay voidring`).

The atomic events (`ld`/`st` on `front` / `back`, values in bytes), the consumer's lines and the `size` / `empty`
operations of both threads (client option --sizeops) are passed through unchanged.  Only the producer's operation lines are rewritten, per CASE block:

  `T 0 CALL push <sel> <raw>`   the client draws the record size from (sel, raw) and its private mirror of back_ when the
                                operation starts and numbers the payloads 1, 2, ...; it reports both in the result
                                `T 0 RET <ok> <size> <id> <need>`.  The CALL line becomes `T 0 CALL push <size> <id>`
                                (size and id taken from the NEXT `T 0 RET` line) and the RET line becomes `T 0 RET <ok>`.
  `<need>` (= real size, plus the unused tail when the record does not fit before the end of the buffer) is checked
  here against the record size, the capacity of the header line and the last value of `back` the producer loaded in
  this operation; a mismatch leaves the RET line untouched, so that the replay diverges on it.

The plain-memory accesses (header / tail-marker writes, the copy of the payload, the consumer's header reads) are not
events: the machine performs them inside its steps, and they are tied through their consequences - the values stored
into `back` (tail skipped, real size read back from the header by push_back()), the values stored into `front` (real
size read from the header / marker by pop_front()) and the (size, payload id) the consumer reports, which the client
derives from the bytes it actually read (`-1` when they are not the bytes of one record)."""
import re


def _real(sz):
    return ((sz + 7) & ~7) + 8


def pre(text):
    out = []
    lines = text.split("\n")
    cap = None
    pending = None          # index in `out` of the producer's CALL line waiting for its RET
    last_back = None
    for line in lines:
        w = line.split()
        if not w:
            out.append(line)
            continue
        if w[0] == "CASE":
            cap = None
            pending = None
            last_back = None
        elif w[0] == "#" and cap is None:
            m = re.search(r"\bcap=(\d+)", line)
            if m and "family=" in line:
                cap = int(m.group(1))
        elif w[0] == "T" and len(w) >= 3 and w[1] == "0":
            if w[2] == "CALL" and len(w) >= 4 and w[3] == "push":
                pending = len(out)
                last_back = None
            elif w[2] == "A" and len(w) >= 6 and w[3] == "ld" and w[4] == "back" and pending is not None and last_back is None:
                last_back = int(w[5]) if w[5].isdigit() else None
            elif w[2] == "RET" and pending is not None and len(w) == 7:
                ok, sz, rid, need = w[3], int(w[4]), w[5], int(w[6])
                out[pending] = "T 0 CALL push %d %s" % (sz, rid)
                pending = None
                good = True
                if cap and last_back is not None:
                    real = _real(sz)
                    tail = cap - last_back % cap
                    good = need == (tail + real if tail < real else real)
                if good:
                    line = "T 0 RET %s" % ok
        out.append(line)
    return "\n".join(out)


voidring_pre = pre          # `from voidring_pre import voidring_pre`, as for the other pre-passes


if __name__ == "__main__":
    import sys
    sys.stdout.write(pre(sys.stdin.read()))

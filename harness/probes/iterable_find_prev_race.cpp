// FINDING (C13 / C19, found while modelling IterableList for C19): IterableList::link_data validates a re-used empty
// node with find_prev(), but find_prev() walks the list non-atomically.  A key >= the new key can be linked IN FRONT of
// the walker's position (new node after the head, or re-use of an empty node the walker has passed) while the node that
// would have stopped the walker is emptied.  The insert then succeeds BEHIND a larger key: the list is no longer sorted,
// find()/contains()/erase() of the inserted key fail although insert() returned true, and iteration is out of order.
//
// Two threads, fixed program and schedule (unchanged /repo; HP; same traits as the iter client):
//   prefill (main): insert 3, insert 4, erase 3, erase 4      ->  h -> n3(empty) -> n4(empty) -> t
//   T0: insert(1)                 T1: insert(4) insert(3) erase(4) | insert(2) erase(3)
//   schedule "0x21 1x98 0x5 1x5000 0x5000":
//     T0 searches: pos = (prev n4, cur t), prevVal = null                       | T1: n4 := 4, n3 := 3, n4 := empty   (ABA on n4)
//     T0 marks t.data, n4.data, re-reads n4.next, find_prev: loads h.next = n3  | T1: insert(2) = new node n5 between h and n3; erase(3) empties n3
//     T0 find_prev continues from n3 (empty), n4 (own mark), t: returns n4 == pos.pPrev; stores key 1 into n4
//   result:  h -> n5(2) -> n3(empty) -> n4(1) -> t      final iteration: 2:4 1:1     contains(1)=0 contains(2)=1
// Build: python3 -c "import sys; sys.path.insert(0,'/verif/tools'); import vlib; print(vlib.build_client('fpprobe', src='/verif/harness/probes/iterable_find_prev_race.cpp'))"
// Run:   <exe> "0x21 1x98 0x5 1x5000 0x5000"        (trace of the named locations: iterable_find_prev_race.trace.txt)
// The same schedule in the Lean machine: Props/C19Iterable.lean, `raceSched` (C19_sorted_keys_not_invariant, C19_iter_order_can_fail).
#include <cds/init.h>
#include <cds/gc/hp.h>
#include <cds/intrusive/iterable_list_hp.h>
#include <memory>
#include "/verif/harness/client.h"

using namespace khizmax_libcds_verif;
namespace ci = cds::intrusive;

struct item { long key; long val; bool disposed; };
struct key_of {
    template <class T> static long k( T const& t ) { return t.key; }
    static long k( long x ) { return x; }
};
struct key_less {
    template <class A, class B> bool operator()( A const& a, B const& b ) const { return key_of::k( a ) < key_of::k( b ); }
};
struct flag_disposer { template <class T> void operator()( T* p ) const { p->disposed = true; } };

static size_t g_node_seq = 3;      // node names as in the Lean machine: 1 = h, 2 = t, first allocated node = n3
template <typename T>
struct naming_alloc {
    typedef T value_type;
    naming_alloc() noexcept {}
    template <typename U> naming_alloc( naming_alloc<U> const& ) noexcept {}
    T* allocate( size_t n, void const* = nullptr )
    {
        T* p = static_cast<T*>( ::operator new( n * sizeof( T )));
        char nm[32];
        std::snprintf( nm, sizeof nm, "n%zu", g_node_seq++ );
        reg_name( p, 8, nm );
        reg_name( reinterpret_cast<char*>( p ) + 8, 8, std::string( nm ) + ".data" );
        return p;
    }
    void deallocate( T* p, size_t ) noexcept { ::operator delete( p ); }
    template <typename U> struct rebind { typedef naming_alloc<U> other; };
    template <typename U> bool operator==( naming_alloc<U> const& ) const noexcept { return true; }
    template <typename U> bool operator!=( naming_alloc<U> const& ) const noexcept { return false; }
};

struct traits : ci::iterable_list::traits {
    typedef key_less less;
    typedef flag_disposer disposer;
    typedef cds::atomicity::item_counter item_counter;
    typedef naming_alloc<int> node_allocator;
};
typedef ci::IterableList<cds::gc::HP, item, traits> list_t;

static std::vector<std::unique_ptr<item>> g_items;
static item* mk( long k, long v )
{
    g_items.emplace_back( new item );
    item* p = g_items.back().get();
    p->key = k; p->val = v; p->disposed = false;
    char nm[32]; std::snprintf( nm, sizeof nm, "e%ld", v );
    reg_name( p, sizeof( item ), nm );
    return p;
}

int main( int argc, char** argv )
{
    cds::Initialize();
    {
        cds::gc::HP hp( 16, 16 );
        cds::threading::Manager::attachThread();
        std::string rle = argc > 1 ? argv[1] : "";
        reg_clear();
        g_node_seq = 3;
        list_t l;
        reg_name( &l.m_Head.next, 8, "h" ); reg_name( &l.m_Head.data, 8, "h.data" );
        reg_name( &l.m_Tail.next, 8, "t" ); reg_name( &l.m_Tail.data, 8, "t.data" );
        l.insert( *mk( 3, 1003 )); l.insert( *mk( 4, 1004 ));
        l.erase( 3L ); l.erase( 4L );
        std::vector<std::string> log;
        auto body = [&]( int tid ) {
            set_quiet( true ); cds::threading::Manager::attachThread(); set_quiet( false );
            auto note = [&]( std::string s ) { ev_note( s ); };
            if ( tid == 0 ) {
                note( "CALL insert 1 1" );
                bool r = l.insert( *mk( 1, 1 ));
                note( std::string( "RET " ) + ( r ? "1" : "0" ));
            }
            else {
                bool r;
                note( "CALL insert 4 2" ); r = l.insert( *mk( 4, 2 )); note( std::string( "RET " ) + ( r ? "1" : "0" ));
                note( "CALL insert 3 3" ); r = l.insert( *mk( 3, 3 )); note( std::string( "RET " ) + ( r ? "1" : "0" ));
                note( "CALL erase 4" ); r = l.erase( 4L ); note( std::string( "RET " ) + ( r ? "1" : "0" ));
                note( "CALL insert 2 4" ); r = l.insert( *mk( 2, 4 )); note( std::string( "RET " ) + ( r ? "1" : "0" ));
                note( "CALL erase 3" ); r = l.erase( 3L ); note( std::string( "RET " ) + ( r ? "1" : "0" ));
            }
            set_quiet( true ); cds::threading::Manager::detachThread(); set_quiet( false );
        };
        SchedCfg sc;
        sc.mode = M_REPLAY;
        sc.replay = parse_schedule( rle );
        sc.budget = 20000;
        run_case( 2, body, sc, []( RunStatus ) { std::printf( "ABORT\n" ); _exit( 3 ); } );
        std::cout << render_trace();
        std::cout << "# sched=" << render_schedule() << "\n";
        // sequential check
        std::cout << "final iteration:";
        for ( auto it = l.begin(); it != l.end(); ++it ) std::cout << ' ' << it->key << ':' << it->val;
        std::cout << "\n";
        for ( long k = 1; k <= 4; ++k ) std::cout << "contains(" << k << ")=" << l.contains( k ) << "\n";
        std::cout.flush(); _exit( 0 );
    }
    cds::Terminate();
    return 0;
}

import CdsVerif.Driver.LinCheck
open CdsVerif.Driver

partial def lcLoop (h : IO.FS.Stream) (st : LcState) : IO Unit := do
  let line ← h.getLine
  if line.isEmpty then return ()
  let st' := lcLine st line
  for o in st'.out do IO.println o
  lcLoop h { st' with out := #[] }

def main (args : List String) : IO UInt32 := do
  let stdin ← IO.getStdin
  match args with
  | ["lincheck"] => lcLoop stdin {}; return 0
  | _ =>
    IO.eprintln "usage: cdsdriver lincheck|replay <model>|eval <fn>"
    return 2

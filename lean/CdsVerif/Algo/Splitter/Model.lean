/-
  Hand-written executable models of the three bit-string splitters of
  cds/algo/split_bitstring.h (little-endian branch, the one compiled on amd64).

  * `split_bitstring<BitString, N, UInt>` — arbitrary widths, byte source
  * `byte_splitter<BitString, N, UInt>`   — widths that are multiples of 8
  * `number_splitter<Int>`                 — composed from the *translated* pieces
    (`Gen.Splitter.number_cut64`, `number_eos64`, `number_rest_count64`)

  Memory is a list of bytes; `cur_` is an index into it.  Every operation also
  returns a flag that is true when the C++ execution would be undefined
  (reading `*cur_` at or past `last_`, shifting by >= the operand width).
  The models are tied to the real classes by differential runs (tie D,
  harness/pure/splitters.cpp).
-/
import CdsVerif.Gen.Splitter
namespace CdsVerif.Algo.Splitter

/-- state of `split_bitstring` / `byte_splitter` -/
structure BS where
  bytes : List Nat        -- the source, one entry per byte, each < 256
  cur : Nat               -- cur_ - first_
  off : Nat               -- offset_ (always 0 for byte_splitter)
deriving Repr, DecidableEq

def BS.eos (s : BS) : Bool := s.cur ≥ s.bytes.length
def BS.bitOffset (s : BS) : Nat := s.off + s.cur * 8
def BS.restCount (s : BS) : Nat := s.bytes.length * 8 - s.bitOffset
def BS.reset (s : BS) : BS := { s with cur := 0, off := 0 }

/-- the source read as a little-endian number -/
def leValue : List Nat → Nat
  | [] => 0
  | b :: bs => b + 256 * leValue bs

/-- One iteration of the loop of `split_bitstring::cut`; `w` = width of `uint_type`.
    Returns (result, done, state, ub). -/
def cutIter (w : Nat) (count : Nat) (result done : Nat) (s : BS) (ub : Bool) : Nat × Nat × BS × Bool :=
  let bits0 := count - done
  let bits := if bits0 > 8 - s.off then 8 - s.off else bits0
  let byte := s.bytes.getD s.cur 0
  let oob := decide (s.cur ≥ s.bytes.length)
  -- ( *cur_ >> offset_ ) & (( 1 << bits ) - 1 ) is computed at type int; then converted to uint_type and shifted by `done`
  let piece := (byte / 2 ^ s.off) % 2 ^ bits
  let shifted := (piece * 2 ^ (done % w)) % 2 ^ w
  let ub' := ub || oob || decide (done ≥ w)
  let result' := result ||| shifted
  let off' := s.off + bits
  let s' : BS := if off' = 8 then { s with off := 0, cur := s.cur + 1 } else { s with off := off' }
  (result', done + bits, s', ub')

/-- `split_bitstring::cut(count)`: the `for ( done = 0; done < count; )` loop, with fuel `count`
    (every iteration consumes at least one bit). -/
def cutLoop (w count : Nat) : Nat → Nat → Nat → BS → Bool → Nat × BS × Bool
  | 0, result, _, s, ub => (result, s, ub)
  | fuel + 1, result, done, s, ub =>
    if done < count then
      let (r', d', s', ub') := cutIter w count result done s ub
      cutLoop w count fuel r' d' s' ub'
    else (result, s, ub)

def BS.cut (w : Nat) (s : BS) (count : Nat) : Nat × BS × Bool :=
  cutLoop w count count 0 0 s false

/-- `split_bitstring::safe_cut(count)` (arithmetic on `unsigned`, 32 bits) -/
def BS.safeCut (w : Nat) (s : BS) (count : Nat) : Nat × BS × Bool :=
  if s.eos then (0, s, false)
  else
    let rest := ((s.bytes.length - s.cur - 1) * 8 + (8 - s.off)) % 2 ^ 32
    let count' := if rest < count then rest else count
    if count' ≠ 0 then s.cut w count' else (0, s, false)

/-! ### byte_splitter -/

/-- `byte_splitter::cut(count)`: `for ( i = 0; i < count; i += 8 ) { result |= uint_type( *cur_ ) << i; ++cur_; }` -/
def byteCutLoop (w count : Nat) : Nat → Nat → Nat → BS → Bool → Nat × BS × Bool
  | 0, result, _, s, ub => (result, s, ub)
  | fuel + 1, result, i, s, ub =>
    if i < count then
      let byte := s.bytes.getD s.cur 0
      let oob := decide (s.cur ≥ s.bytes.length)
      let shifted := (byte * 2 ^ (i % w)) % 2 ^ w
      byteCutLoop w count fuel (result ||| shifted) (i + 8) { s with cur := s.cur + 1 } (ub || oob || decide (i ≥ w))
    else (result, s, ub)

def BS.byteCut (w : Nat) (s : BS) (count : Nat) : Nat × BS × Bool :=
  byteCutLoop w count (count / 8 + 1) 0 0 s false

/-- `byte_splitter::safe_cut(count)`; remaining bits = `(last_ - cur_) * 8` (after the `fix:` commit;
    the original `(last_ - cur_ - 1) * 8` never returned the last byte). -/
def BS.byteSafeCut (w : Nat) (s : BS) (count : Nat) : Nat × BS × Bool :=
  if s.eos then (0, s, false)
  else
    let rest := ((s.bytes.length - s.cur) * 8) % 2 ^ 32
    let count' := if rest < count then rest else count
    if count' ≠ 0 then s.byteCut w count' else (0, s, false)

/-! ### number_splitter<uint64_t>, composed from the translated member functions -/

structure NS where
  number : BitVec 64
  shift : BitVec 32
deriving Repr, DecidableEq

open CdsVerif.Gen.Splitter in
def NS.cut (s : NS) (count : BitVec 32) : BitVec 64 × NS × Bool :=
  let r := number_cut64 s.number s.shift count
  (r.1, { s with shift := r.2 }, number_cut64_ub s.number s.shift count)

open CdsVerif.Gen.Splitter in
def NS.eos (s : NS) : Bool := number_eos64 s.shift

open CdsVerif.Gen.Splitter in
/-- `number_splitter::safe_cut` -/
def NS.safeCut (s : NS) (count : BitVec 32) : BitVec 64 × NS × Bool :=
  if s.eos then (0, s, false)
  else
    let rest : BitVec 32 := (number_rest_count64 s.shift).setWidth 32
    let count' := if BitVec.ult rest count then rest else count
    if count' ≠ 0 then s.cut count' else (0, s, false)

end CdsVerif.Algo.Splitter

/-
  Preservation of the SegmentedQueue invariant: steps of `segment_list::create_tail`.
-/
import CdsVerif.Algo.Segmented.Kinds
import CdsVerif.Algo.Segmented.StepEnq
namespace CdsVerif.Algo.Segmented
open CdsVerif.Machine CdsVerif.Spec

theorem isDel_ne_null {c : Cell} (h : c.isDel = true) : c ≠ .null := by
  cases c <;> simp_all [Cell.isDel]

theorem step_ctTry {s s' : St} {t : Tid} {e : Ev} {x : Nat} {ps : List Nat} {pt : Option Nat} (h : Inv s)
    (hpc : s.pc t = .ctTry x ps pt) (hs : step s t = some (s', e)) : Inv s' := by
  unfold step at hs; simp only [hpc] at hs
  have hL := h.2 t; rw [hpc] at hL
  have hact := hL.act (by simp)
  have hitem := hL.item x rfl
  have hact' : s.tCall t < s.now + 1 := by omega
  have hpt : ∀ g, pt = some g → g < s.nseg ∧ s.floorN x ≤ g + 1 ∧ ∀ j, j < s.K → s.cell g j ≠ .null := by
    intro g hg; subst hg
    exact ⟨hL.ptr g rfl, hL.floor x g rfl rfl, fun j hj => hL.ctArg g j rfl hj⟩
  split at hs
  · simp only [Option.some.injEq, Prod.mk.injEq] at hs; obtain ⟨rfl, _⟩ := hs
    apply inv_pcnow h
    exact loc_ctSpin hact' hitem hpt
  · rename_i hfree
    simp only [Option.some.injEq, Prod.mk.injEq] at hs; obtain ⟨rfl, _⟩ := hs
    have hfree' : s.lock = false := by simpa using hfree
    refine inv_acquire (q := .ctIn x ps pt) h hfree' ?_
    exact loc_ctIn hact' hitem rfl (quiet_setLock.mpr (h.1.quiet (holder_none_of_free h.1 hfree'))) hpt

theorem step_ctSpin {s s' : St} {t : Tid} {e : Ev} {x : Nat} {ps : List Nat} {pt : Option Nat} (h : Inv s)
    (hpc : s.pc t = .ctSpin x ps pt) (hs : step s t = some (s', e)) : Inv s' := by
  unfold step at hs; simp only [hpc] at hs
  have hL := h.2 t; rw [hpc] at hL
  have hact := hL.act (by simp)
  have hitem := hL.item x rfl
  have hact' : s.tCall t < s.now + 1 := by omega
  have hpt : ∀ g, pt = some g → g < s.nseg ∧ s.floorN x ≤ g + 1 ∧ ∀ j, j < s.K → s.cell g j ≠ .null := by
    intro g hg; subst hg
    exact ⟨hL.ptr g rfl, hL.floor x g rfl rfl, fun j hj => hL.ctArg g j rfl hj⟩
  split at hs
  · simp only [Option.some.injEq, Prod.mk.injEq] at hs; obtain ⟨rfl, _⟩ := hs
    apply inv_pcnow h
    exact loc_ctSpin hact' hitem hpt
  · simp only [Option.some.injEq, Prod.mk.injEq] at hs; obtain ⟨rfl, _⟩ := hs
    apply inv_pcnow h
    exact loc_ctTry hact' hitem hpt

theorem step_ctIn {s s' : St} {t : Tid} {e : Ev} {x : Nat} {ps : List Nat} {pt : Option Nat} (h : Inv s)
    (hpc : s.pc t = .ctIn x ps pt) (hs : step s t = some (s', e)) : Inv s' := by
  unfold step at hs; simp only [hpc] at hs
  have hL := h.2 t; rw [hpc] at hL
  have hact := hL.act (by simp)
  have hitem := hL.item x rfl
  have hhold := hL.cs rfl
  have hact' : s.tCall t < s.now + 1 := by omega
  have hpt : ∀ g, pt = some g → g < s.nseg ∧ s.floorN x ≤ g + 1 ∧ ∀ j, j < s.K → s.cell g j ≠ .null := by
    intro g hg; subst hg
    exact ⟨hL.ptr g rfl, hL.floor x g rfl rfl, fun j hj => hL.ctArg g j rfl hj⟩
  have G := h.1
  have hfl := (G.used_t x hitem.1).2
  have hq : Quiet s := hL.qcs rfl
  split at hs
  · rename_i hlt
    split at hs
    · rename_i hback
      simp only [Option.some.injEq, Prod.mk.injEq] at hs; obtain ⟨rfl, _⟩ := hs
      have hfull := (hpt _ hback).2.2
      refine inv_setList (q := .ctUnlock x ps s.nseg) (hd := s.head) (tl := some s.nseg) (lo' := s.lo) (n' := s.nseg + 1)
        h hhold (Nat.le_refl _) (by omega) (by omega) ?_ ?_ ?_ ?_ ?_ G.dead ?_ ?_
      · intro hd hh; have := G.head_some hd hh; omega
      · intro hh; have := G.head_none hh; omega
      · intro p hp; injection hp with hp; omega
      · intro hh; omega
      · intro g i hg; exact G.fresh g i (by omega)
      · intro g i hg hi
        by_cases hg' : g + 1 < s.nseg
        · exact G.full g i hg' hi
        · have : g = s.nseg - 1 := by omega
          subst this; exact hfull i hi
      · refine loc_ctUnlock hact' hitem hhold (quiet_setList.mpr ⟨?_, ?_⟩) rfl (by show s.floorN x ≤ s.nseg + 1; omega)
        · intro _; exact ⟨(hq.1 hlt).1, by simp⟩
        · intro hh; omega
    · rename_i hback
      simp only [Option.some.injEq, Prod.mk.injEq] at hs; obtain ⟨rfl, _⟩ := hs
      refine inv_setList (q := .ctUnlock x ps (s.nseg - 1)) (hd := s.head) (tl := some (s.nseg - 1)) (lo' := s.lo)
        (n' := s.nseg) h hhold (Nat.le_refl _) (Nat.le_refl _) G.lo_le G.head_some G.head_none ?_ ?_ G.fresh G.dead G.full ?_
      · intro p hp; injection hp with hp; omega
      · intro hh; omega
      · refine loc_ctUnlock hact' hitem hhold (quiet_setList.mpr ⟨?_, ?_⟩) (by show s.nseg - 1 + 1 = s.nseg; omega)
          (by show s.floorN x ≤ s.nseg - 1 + 1; omega)
        · intro _; exact ⟨(hq.1 hlt).1, rfl⟩
        · intro hh; omega
  · rename_i hlt
    simp only [Option.some.injEq, Prod.mk.injEq] at hs; obtain ⟨rfl, _⟩ := hs
    have hlo : s.lo = s.nseg := by have := G.lo_le; omega
    refine inv_setList (q := .ctTail x ps s.nseg) (hd := some s.nseg) (tl := s.tail) (lo' := s.lo) (n' := s.nseg + 1)
      h hhold (Nat.le_refl _) (by omega) (by omega) ?_ ?_ ?_ ?_ ?_ G.dead ?_ ?_
    · intro hd hh; injection hh with hh; omega
    · intro hh; cases hh
    · intro p hp; have := G.tail_none hlo; rw [this] at hp; cases hp
    · intro hh; omega
    · intro g i hg; exact G.fresh g i (by omega)
    · intro g i hg hi
      exact isDel_ne_null (G.dead g i (by omega) hi)
    · exact loc_ctTail hact' hitem hhold rfl hlo rfl (by show s.floorN x ≤ s.nseg + 1; omega)

theorem step_ctTail {s s' : St} {t : Tid} {e : Ev} {x : Nat} {ps : List Nat} {n : Nat} (h : Inv s)
    (hpc : s.pc t = .ctTail x ps n) (hs : step s t = some (s', e)) : Inv s' := by
  unfold step at hs; simp only [hpc] at hs
  have hL := h.2 t; rw [hpc] at hL
  have hact := hL.act (by simp)
  have hitem := hL.item x rfl
  have hhold := hL.cs rfl
  have hact' : s.tCall t < s.now + 1 := by omega
  have hn := hL.ctNew n rfl
  have hlo := hL.ctTail x ps n rfl
  have hfloor := hL.floor x n rfl rfl
  have G := h.1
  simp only [Option.some.injEq, Prod.mk.injEq] at hs; obtain ⟨rfl, _⟩ := hs
  refine inv_setList (q := .ctUnlock x ps n) (hd := s.head) (tl := some n) (lo' := s.lo)
    (n' := s.nseg) h hhold (Nat.le_refl _) (Nat.le_refl _) G.lo_le G.head_some G.head_none ?_ ?_ G.fresh G.dead G.full ?_
  · intro p hp; injection hp with hp; omega
  · intro hh; omega
  · have hhd := hL.ctTailQ x ps n rfl
    refine loc_ctUnlock hact' hitem hhold (quiet_setList.mpr ⟨?_, ?_⟩) hn hfloor
    · intro _; exact ⟨by rw [hhd, hlo], by congr 1; omega⟩
    · intro hh; omega

theorem step_ctUnlock {s s' : St} {t : Tid} {e : Ev} {x : Nat} {ps : List Nat} {n : Nat} (h : Inv s)
    (hpc : s.pc t = .ctUnlock x ps n) (hs : step s t = some (s', e)) : Inv s' := by
  unfold step at hs; simp only [hpc] at hs
  have hL := h.2 t; rw [hpc] at hL
  have hact := hL.act (by simp)
  have hitem := hL.item x rfl
  have hhold := hL.cs rfl
  have hact' : s.tCall t < s.now + 1 := by omega
  have hn := hL.ctNew n rfl
  have hfloor := hL.floor x n rfl rfl
  simp only [Option.some.injEq, Prod.mk.injEq] at hs; obtain ⟨rfl, _⟩ := hs
  refine inv_release (q := scanE x (nextPerm s.K ps).2 n (nextPerm s.K ps).1) h hhold (hL.qcs rfl) ?_
  exact loc_startE (s := setLock s t _ false none) hact' hitem (by show n < s.nseg; omega) hfloor

end CdsVerif.Algo.Segmented

/-
  Linearizability of the Treiber stack with elimination back-off (property C09).

  Linearization points: as for the plain Treiber stack (successful CAS of `push`, successful CAS of a non-empty `pop`,
  validating null load of an empty `pop`), and the COLLISION: the step `himOp->nStatus.store( op_collided )` of the
  active partner linearizes the `push v` of the pair and then, immediately, its `pop` with result `v` — legal for
  every content of the stack, which is left unchanged.

  The proof instruments a run with a ghost log (the bookkeeping of Algo/Treiber/Lin.lean, reused): `Chain.lean` shows
  that every step is silent, a single linearization point or a collision (`Shape`); the log is extended accordingly;
  the invariant `GI` is stated over the abstract view of a state (fixed results `postRet`, pending operations `opOf`,
  idle threads, abstract stack), so that a collision is two applications of the lemma for a single linearization
  point.

  The history of a run records the operations of the SPECIFICATION: `specOp` drops the back-off inputs of an
  operation (`push v s1 k1 …` ↦ `push v`, `pop s1 k1 …` ↦ `pop`).
-/
import CdsVerif.Algo.Elim.Chain
import CdsVerif.Algo.Treiber.Lin
namespace CdsVerif.Algo.Elim
open CdsVerif.Machine CdsVerif.Spec CdsVerif.Lin
open CdsVerif.Algo.Treiber (Pend histAux pendAux LE completed openOf runSpec runSpec_append runSpec_close
  legal_of_runSpec openOf_append openOf_close_same openOf_close_other completed_close openAll
  completed_openAll_perm openAll_pairwise lifo_push lifo_pop_some)

/-! ### The history of a run -/

def specObs : Tid × Obs → Tid × Obs
  | (t, .call op) => (t, .call (specOp op))
  | (t, .ev e) => (t, .ev e)
  | (t, .ret r) => (t, .ret r)

/-- The complete history of a run (operations of the specification; `inv` / `res` = indices of the `call` / `ret`
    observations in `os`).  Operations pending at the end are dropped. -/
def historyOf (os : List (Tid × Obs)) : List (OpRec GOp GRet) := Treiber.historyOf (os.map specObs)

/-- The operations pending at the end of a run: thread ↦ (operation of the specification, index of its `call`). -/
def pendingOf (os : List (Tid × Obs)) : Pend := Treiber.pendingOf (os.map specObs)

/-! ### Ghost state and its invariant, over an abstract view of the model state -/

structure GA where
  clock : Nat
  pend : Pend
  hist : List (OpRec GOp GRet)
  log : List LE

def ga0 : GA := ⟨0, fun _ => none, [], []⟩

structure GI (g : GA) (post : Tid → Option GRet) (opf : Tid → Option GOp) (idl : Tid → Prop) (st : List Int) :
    Prop where
  spec : runSpec [] g.log = some st
  invlt : ∀ e, e ∈ g.log → e.inv < g.clock
  rt : g.log.Pairwise (fun a b => ∀ r, b.res = some r → a.inv ≤ r)
  comp : (completed g.log).Perm g.hist
  pendlt : ∀ t op k, g.pend t = some (op, k) → k < g.clock
  pre : ∀ t op, opf t = some op → ∃ k, g.pend t = some (op, k)
  preopen : ∀ t, post t = none → openOf t g.log = []
  post : ∀ t r, post t = some r → ∃ op k, g.pend t = some (op, k) ∧ openOf t g.log = [⟨t, op, r, k, none⟩]
  idle : ∀ t, idl t → g.pend t = none

theorem gi_init : GI ga0 (fun _ => none) (fun _ => none) (fun _ => True) [] := by
  constructor <;> simp [ga0, runSpec, completed, openOf]

theorem GI.congr {g : GA} {post post' : Tid → Option GRet} {opf opf' : Tid → Option GOp} {idl idl' : Tid → Prop}
    {st : List Int} (h : GI g post opf idl st) (hp : ∀ u, post' u = post u) (ho : ∀ u, opf' u = opf u)
    (hi : ∀ u, idl' u → idl u) : GI g post' opf' idl' st := by
  have e1 : post' = post := funext hp
  have e2 : opf' = opf := funext ho
  subst e1 e2
  exact ⟨h.spec, h.invlt, h.rt, h.comp, h.pendlt, h.pre, h.preopen, h.post, fun t ht => h.idle t (hi t ht)⟩

theorem GI.tick {g : GA} {post : Tid → Option GRet} {opf : Tid → Option GOp} {idl : Tid → Prop} {st : List Int}
    (h : GI g post opf idl st) : GI { g with clock := g.clock + 1 } post opf idl st := by
  obtain ⟨hspec, hinvlt, hrt, hcomp, hpendlt, hpre, hpreopen, hpost, hidle⟩ := h
  refine ⟨hspec, ?_, hrt, hcomp, ?_, hpre, hpreopen, hpost, hidle⟩
  · intro e he; have := hinvlt e he; simp only; omega
  · intro t op k hk; have := hpendlt t op k hk; simp only; omega

/-- One linearization point: thread `u`, whose operation `op` is pending and not yet linearized, takes effect with
    result `r`. -/
theorem GI.lin1 {g : GA} {post : Tid → Option GRet} {opf : Tid → Option GOp} {idl : Tid → Prop} {st st' : List Int}
    (h : GI g post opf idl st) (u : Tid) (op : GOp) (r : GRet)
    (hpu : post u = none) (hou : opf u = some op) (hnext : lifo.next st op r = some st') :
    ∃ k, GI { g with log := g.log ++ [⟨u, op, r, k, none⟩] }
      (fun x => if x = u then some r else post x) (fun x => if x = u then none else opf x) idl st' := by
  obtain ⟨hspec, hinvlt, hrt, hcomp, hpendlt, hpre, hpreopen, hpost, hidle⟩ := h
  obtain ⟨k, hk⟩ := hpre u op hou
  refine ⟨k, ?_⟩
  constructor
  · simp only [runSpec_append, hspec, Option.bind_some, runSpec, hnext]
  · intro e he
    rcases List.mem_append.mp he with h | h
    · exact hinvlt e h
    · simp at h; subst h; exact hpendlt u op k hk
  · simp only [List.pairwise_append]
    refine ⟨hrt, by simp, ?_⟩
    intro a _ b hb r' hr'
    simp at hb; subst hb; simp at hr'
  · simp only [completed, List.filterMap_append] at hcomp ⊢
    have : List.filterMap LE.done? [(⟨u, op, r, k, none⟩ : LE)] = [] := by simp [LE.done?]
    rw [this, List.append_nil]; exact hcomp
  · exact hpendlt
  · intro t2 op2
    simp only
    by_cases ht : t2 = u
    · simp [ht]
    · simp only [ht, if_false]; exact hpre t2 op2
  · intro t2
    simp only
    by_cases ht : t2 = u
    · simp [ht]
    · simp only [ht, if_false, openOf_append]; intro h
      rw [hpreopen t2 h]
      have : u ≠ t2 := fun e => ht e.symm
      simp [openOf, this]
  · intro t2 r2
    simp only
    by_cases ht : t2 = u
    · subst ht; simp only [if_true]; intro h; simp at h; subst h
      refine ⟨op, k, hk, ?_⟩
      rw [openOf_append, hpreopen t2 hpu]
      simp [openOf]
    · simp only [ht, if_false, openOf_append]; intro h
      obtain ⟨op2, k2, h3, h4⟩ := hpost t2 r2 h
      refine ⟨op2, k2, h3, ?_⟩
      rw [h4]
      have : u ≠ t2 := fun e => ht e.symm
      simp [openOf, this]
  · exact hidle

/-- Invocation of `op` by thread `t`. -/
theorem GI.call {g : GA} {post post' : Tid → Option GRet} {opf opf' : Tid → Option GOp} {idl idl' : Tid → Prop}
    {st : List Int} (h : GI g post opf idl st) (t : Tid) (op : GOp)
    (hp : ∀ u, post' u = post u) (hpt : post t = none) (ho : ∀ u, u ≠ t → opf' u = opf u) (hot : opf' t = some op)
    (hi : ∀ u, u ≠ t → idl' u → idl u) (hit : ¬ idl' t) :
    GI ⟨g.clock + 1, upd g.pend t (some (op, g.clock)), g.hist, g.log⟩ post' opf' idl' st := by
  obtain ⟨hspec, hinvlt, hrt, hcomp, hpendlt, hpre, hpreopen, hpost, hidle⟩ := h
  constructor
  · exact hspec
  · intro e he; have := hinvlt e he; simp only; omega
  · exact hrt
  · exact hcomp
  · intro t2 op2 k; simp only [upd]; intro h
    split at h
    · simp at h; omega
    · have := hpendlt t2 op2 k h; omega
  · intro t2 op2
    simp only
    by_cases ht : t2 = t
    · subst ht; rw [hot]; intro h; simp at h; subst h; exact ⟨g.clock, by simp [upd]⟩
    · rw [ho t2 ht]; intro h
      obtain ⟨k, hk⟩ := hpre t2 op2 h
      exact ⟨k, by simp [upd, ht, hk]⟩
  · intro t2; rw [hp t2]; exact hpreopen t2
  · intro t2 r; rw [hp t2]
    by_cases ht : t2 = t
    · subst ht; rw [hpt]; intro h; simp at h
    · intro h
      obtain ⟨op2, k, h1, h2⟩ := hpost t2 r h
      exact ⟨op2, k, by simp [upd, ht, h1], h2⟩
  · intro t2
    by_cases ht : t2 = t
    · subst ht; intro h; exact absurd h hit
    · intro h; simp [upd, ht, hidle t2 (hi t2 ht h)]

/-- Return of thread `t` with the result `r` fixed at its linearization point. -/
theorem GI.ret {g : GA} {post post' : Tid → Option GRet} {opf opf' : Tid → Option GOp} {idl idl' : Tid → Prop}
    {st : List Int} (h : GI g post opf idl st) (t : Tid) (r : GRet) (hpt : post t = some r)
    (hp : ∀ u, post' u = if u = t then none else post u) (ho : ∀ u, u ≠ t → opf' u = opf u) (hot : opf' t = none)
    (hi : ∀ u, u ≠ t → idl' u → idl u) :
    ∃ op k, g.pend t = some (op, k) ∧
      GI ⟨g.clock + 1, upd g.pend t none, g.hist ++ [⟨t, op, r, k, g.clock⟩], g.log.map (LE.close t g.clock)⟩
        post' opf' idl' st := by
  obtain ⟨hspec, hinvlt, hrt, hcomp, hpendlt, hpre, hpreopen, hpost, hidle⟩ := h
  obtain ⟨op, k, hpk, hopen⟩ := hpost t r hpt
  have hcl : ∀ e, (LE.close t g.clock e).inv = e.inv := by intro e; unfold LE.close; split <;> rfl
  refine ⟨op, k, hpk, ?_⟩
  constructor <;> dsimp only
  · rw [runSpec_close]; exact hspec
  · intro e he
    obtain ⟨e0, he0, rfl⟩ := List.mem_map.mp he
    have := hinvlt e0 he0; rw [hcl]; omega
  · rw [List.pairwise_map]
    refine List.Pairwise.imp_of_mem ?_ hrt
    intro a b ha hb hab r' hr'
    rw [hcl]
    unfold LE.close at hr'
    split at hr'
    · simp at hr'; have := hinvlt a ha; omega
    · exact hab r' hr'
  · refine (completed_close t g.clock g.log).trans ?_
    rw [hopen]
    exact List.Perm.append_right _ hcomp
  · intro t2 op2 k2 h
    simp only [upd] at h
    split at h
    · simp at h
    · have := hpendlt t2 op2 k2 h; omega
  · intro t2 op2
    by_cases ht : t2 = t
    · subst ht; rw [hot]; simp
    · rw [ho t2 ht]; intro h
      obtain ⟨k2, hk⟩ := hpre t2 op2 h
      exact ⟨k2, by simp [upd, ht, hk]⟩
  · intro t2
    by_cases ht : t2 = t
    · subst ht; intro _; exact openOf_close_same _ _ _
    · rw [hp t2, openOf_close_other _ _ _ ht]; simp only [ht, if_false]; exact hpreopen t2
  · intro t2 r2
    by_cases ht : t2 = t
    · subst ht; rw [hp t2]; simp
    · rw [hp t2, openOf_close_other _ _ _ ht]; simp only [ht, if_false]; intro h
      obtain ⟨op2, k2, h1, h2⟩ := hpost t2 r2 h
      exact ⟨op2, k2, by simp [upd, ht, h1], h2⟩
  · intro t2
    by_cases ht : t2 = t
    · subst ht; intro _; simp [upd]
    · intro h; simp [upd, ht, hidle t2 (hi t2 ht h)]

/-! ### Instrumented runs of the model -/

/-- The invariant of an instrumented run. -/
def GInv (s : St) (g : GA) : Prop :=
  ∃ l, SInvL s l ∧ EInv s ∧ GI g (postRet s) (opOf s) (fun u => s.pc u = .idle) (l.map s.val)

theorem ginv_init : GInv init ga0 := by
  refine ⟨[], sinv_init, einv_init, ?_⟩
  refine gi_init.congr ?_ ?_ ?_
  · intro u; simp [postRet, postRetC, init, elimd, isUnlC, passive, postPc]
  · intro u; simp [opOf, opOfC, opOfPc, init, elimd, isUnlC, passive, pushNodePc, isPopPc]
  · intro u _; trivial

/-- Ghost update for the action of thread `t` with observation `o`; `add` = the log entries of the linearization
    points passed by an atomic step. -/
def gnx (g : GA) (t : Tid) (add : List LE) : Obs → GA
  | .call op => { g with clock := g.clock + 1, pend := upd g.pend t (some (specOp op, g.clock)) }
  | .ev _ => { g with clock := g.clock + 1, log := g.log ++ add }
  | .ret r =>
    match g.pend t with
    | some (op, k) =>
      { clock := g.clock + 1, pend := upd g.pend t none,
        hist := g.hist ++ [⟨t, op, r, k, g.clock⟩], log := g.log.map (LE.close t g.clock) }
    | none => { g with clock := g.clock + 1 }

theorem ginv_invoke {s s' : St} {g : GA} {t : Tid} {op : GOp} (h : GInv s g) (hs : invoke s t op = some s') :
    GInv s' (gnx g t [] (.call op)) := by
  obtain ⟨l, hl, he, hg⟩ := h
  obtain ⟨hl', hie⟩ := sinvl_invoke hl he hs
  refine ⟨l, hl', einv_invoke he hs, ?_⟩
  rw [hie.abs]
  have hpt : postRet s t = none := by rw [← hie.posts t]; exact hie.nowpost
  exact hg.call t (specOp op) hie.posts hpt hie.ops hie.now (fun u hu h => (hie.idle u hu).mp h) hie.busy

theorem ginv_result {s s' : St} {g : GA} {t : Tid} {r : GRet} (h : GInv s g) (hs : result s t = some (s', r)) :
    GInv s' (gnx g t [] (.ret r)) := by
  obtain ⟨l, hl, he, hg⟩ := h
  obtain ⟨hl', hre⟩ := sinvl_result hl he hs
  have hot : opOf s' t = none := by
    simp [opOf, opOfC, opOfPc, hre.now, elimd, isUnlC, passive, pushNodePc, isPopPc]
  obtain ⟨op, k, hpk, hgi⟩ := hg.ret t r hre.was hre.posts (fun u _ => hre.ops u) hot
    (fun u hu h => (hre.idle u hu).mp h)
  refine ⟨l, hl', einv_result he hs, ?_⟩
  simp only [gnx, hpk]
  rw [hre.val]
  exact hgi

theorem ginv_step {s s' : St} {g : GA} {t : Tid} {ev : Ev} (h : GInv s g) (hs : step s t = some (s', ev)) :
    ∃ add, GInv s' (gnx g t add (.ev ev)) := by
  obtain ⟨l, hl, he, hg⟩ := h
  obtain ⟨l', hl', heff, hshape⟩ := sinvl_step hl he hs
  have hidl : ∀ u, s'.pc u = .idle → s.pc u = .idle := fun u => (heff.idle u).mp
  cases hshape with
  | silent hll hp ho =>
    subst hll
    refine ⟨[], l', hl', einv_step he hs, ?_⟩
    simp only [gnx, List.append_nil]
    rw [heff.val]
    exact (hg.tick).congr hp ho hidl
  | single op r h0 h1 hn hp ho =>
    obtain ⟨k, hk⟩ := hg.lin1 t op r h0 h1 hn
    refine ⟨[⟨t, op, r, k, none⟩], l', hl', einv_step he hs, ?_⟩
    simp only [gnx]
    rw [heff.val]
    exact (hk.tick).congr hp ho hidl
  | pair a b v hab hll ha hb hoa hob hp ho ht =>
    subst hll
    obtain ⟨ka, hka⟩ := hg.lin1 a ⟨"push", [v]⟩ [1] ha hoa (lifo_push _ v)
    have hb' : (fun x => if x = a then some [1] else postRet s x) b = none := by
      simp only [Ne.symm hab, if_false]; exact hb
    have hob' : (fun x => if x = a then none else opOf s x) b = some ⟨"pop", []⟩ := by
      simp only [Ne.symm hab, if_false]; exact hob
    obtain ⟨kb, hkb⟩ := hka.lin1 b ⟨"pop", []⟩ [1, v] hb' hob' (lifo_pop_some _ v)
    refine ⟨[⟨a, ⟨"push", [v]⟩, [1], ka, none⟩, ⟨b, ⟨"pop", []⟩, [1, v], kb, none⟩], l', hl', einv_step he hs, ?_⟩
    simp only [gnx]
    rw [heff.val]
    have h3 := hkb.tick
    dsimp only at h3
    rw [List.append_assoc] at h3
    refine h3.congr ?_ ?_ hidl
    · intro u; rw [hp u]
      by_cases hua : u = a
      · subst hua; simp [hab]
      · simp [hua]
    · intro u; rw [ho u]
      by_cases hua : u = a
      · subst hua; simp [hab]
      · simp [hua]

theorem ginv_apply {s s' : St} {g : GA} {t : Tid} {a : Act} {o : Obs} (h : GInv s g)
    (hap : model.apply s t a = some (s', o)) : ∃ add, GInv s' (gnx g t add o) := by
  cases a with
  | invoke op =>
    simp only [Model.apply, model, Option.map_eq_some_iff] at hap
    obtain ⟨s1, hs1, heq⟩ := hap
    simp only [Prod.mk.injEq] at heq
    obtain ⟨rfl, rfl⟩ := heq
    exact ⟨[], ginv_invoke h hs1⟩
  | step =>
    simp only [Model.apply, model, Option.map_eq_some_iff] at hap
    obtain ⟨⟨s1, e⟩, hs1, heq⟩ := hap
    simp only [Prod.mk.injEq] at heq
    obtain ⟨rfl, rfl⟩ := heq
    exact ginv_step h hs1
  | ret =>
    simp only [Model.apply, model, Option.map_eq_some_iff] at hap
    obtain ⟨⟨s1, r⟩, hs1, heq⟩ := hap
    simp only [Prod.mk.injEq] at heq
    obtain ⟨rfl, rfl⟩ := heq
    exact ⟨[], ginv_result h hs1⟩

theorem gnx_clock (g : GA) (t : Tid) (add : List LE) (o : Obs) : (gnx g t add o).clock = g.clock + 1 := by
  cases o <;> simp only [gnx]
  split <;> rfl

theorem gnx_hist (g : GA) (t : Tid) (add : List LE) (o : Obs) (os : List (Tid × Obs)) :
    (gnx g t add o).hist ++ histAux (g.clock + 1) (gnx g t add o).pend os
      = g.hist ++ histAux g.clock g.pend (specObs (t, o) :: os) := by
  cases o with
  | call op => simp only [gnx, specObs, histAux]
  | ev e => simp only [gnx, specObs, histAux]
  | ret r =>
    simp only [gnx, specObs, histAux]
    cases hp : g.pend t with
    | none => simp only
    | some p => obtain ⟨op, k⟩ := p; simp only [List.append_assoc, List.singleton_append]

theorem gnx_pend (g : GA) (t : Tid) (add : List LE) (o : Obs) (os : List (Tid × Obs)) :
    pendAux (g.clock + 1) (gnx g t add o).pend os = pendAux g.clock g.pend (specObs (t, o) :: os) := by
  cases o with
  | call op => simp only [gnx, specObs, pendAux]
  | ev e => simp only [gnx, specObs, pendAux]
  | ret r =>
    simp only [gnx, specObs, pendAux]
    cases hp : g.pend t with
    | none => simp only
    | some p => obtain ⟨op, k⟩ := p; simp only

/-- Every run of the model lifts to an instrumented run. -/
theorem run_ghost : ∀ (sched : List (Tid × Act)) (s : St) (g : GA) (s' : St) (os : List (Tid × Obs)),
    GInv s g → model.run s sched = some (s', os) →
    ∃ g', GInv s' g' ∧ g'.hist = g.hist ++ histAux g.clock g.pend (os.map specObs) ∧
      g'.pend = pendAux g.clock g.pend (os.map specObs) ∧ g'.clock = g.clock + os.length := by
  intro sched
  induction sched with
  | nil =>
    intro s g s' os hg hr
    simp [Model.run] at hr
    obtain ⟨rfl, rfl⟩ := hr
    exact ⟨g, hg, by simp [histAux], by simp [pendAux], by simp⟩
  | cons x rest ih =>
    intro s g s' os hg hr
    obtain ⟨t, a⟩ := x
    simp only [Model.run] at hr
    cases hap : model.apply s t a with
    | none => simp [hap] at hr
    | some p =>
      obtain ⟨s1, o⟩ := p
      simp only [hap] at hr
      cases hrr : model.run s1 rest with
      | none => simp [hrr] at hr
      | some q =>
        obtain ⟨s2, os2⟩ := q
        simp only [hrr, Option.some.injEq, Prod.mk.injEq] at hr
        obtain ⟨rfl, rfl⟩ := hr
        obtain ⟨add, hg1⟩ := ginv_apply hg hap
        obtain ⟨g', hg', hh, hp, hc⟩ := ih s1 (gnx g t add o) s2 os2 hg1 hrr
        refine ⟨g', hg', ?_, ?_, ?_⟩
        · rw [hh, gnx_clock, gnx_hist]; rfl
        · rw [hp, gnx_clock, gnx_pend]; rfl
        · rw [hc, gnx_clock]; simp; omega

/-! ### From the ghost invariant to linearizability -/

theorem ginv_linearizable {s : St} {g : GA} (h : GInv s g) :
    Linearizable lifo (g.hist ++ (openAll g.log).map (LE.fin g.clock)) ∧
    (∀ e ∈ (openAll g.log).map (LE.fin g.clock),
        g.pend e.tid = some (e.op, e.inv) ∧ e.res = g.clock ∧ postRet s e.tid = some e.ret) ∧
    ((openAll g.log).map (LE.fin g.clock)).Pairwise (fun a b => a.tid ≠ b.tid) := by
  obtain ⟨l, hl, he, hg⟩ := h
  obtain ⟨hspec, hinvlt, hrt, hcomp, hpendlt, hpre, hpreopen, hpost, hidle⟩ := hg
  refine ⟨⟨g.log.map (LE.fin g.clock), ?_, ?_, ?_⟩, ?_, ?_⟩
  · exact (completed_openAll_perm g.clock g.log).symm.trans (List.Perm.append_right _ hcomp)
  · unfold RespectsRT
    rw [List.pairwise_map]
    refine List.Pairwise.imp_of_mem ?_ hrt
    intro a b ha _ hab
    simp only [LE.fin]
    cases hr : b.res with
    | none => have := hinvlt a ha; simp; omega
    | some r => have := hab r hr; simp; omega
  · exact legal_of_runSpec g.clock g.log [] _ hspec
  · intro e' he'
    obtain ⟨e, he, rfl⟩ := List.mem_map.mp he'
    have he2 := List.mem_filter.mp he
    have hr : e.res = none := by cases h : e.res <;> simp_all
    have hmem : e ∈ openOf e.tid g.log := by
      simp only [openOf, List.mem_filter]; exact ⟨he2.1, by simp [hr]⟩
    cases hp : postRet s e.tid with
    | none => rw [hpreopen e.tid hp] at hmem; simp at hmem
    | some r =>
      obtain ⟨op, k, h1, h2⟩ := hpost e.tid r hp
      rw [h2] at hmem
      simp at hmem
      have e1 : e.op = op := by rw [hmem]
      have e2 : e.inv = k := by rw [hmem]
      have e3 : e.ret = r := by rw [hmem]
      simp [LE.fin, hr, h1, e1, e2, e3, hp]
  · rw [List.pairwise_map]
    refine openAll_pairwise g.log ?_
    intro t
    cases hp : postRet s t with
    | none => rw [hpreopen t hp]; simp
    | some r => obtain ⟨op, k, -, h2⟩ := hpost t r hp; rw [h2]; simp

theorem run_ghost_init {sched : List (Tid × Act)} {s : St} {os : List (Tid × Obs)}
    (h : model.run init sched = some (s, os)) :
    ∃ g, GInv s g ∧ g.hist = historyOf os ∧ g.pend = pendingOf os ∧ g.clock = os.length := by
  obtain ⟨g, hg, h2, h3, h4⟩ := run_ghost sched init ga0 s os ginv_init h
  exact ⟨g, hg, by simpa [ga0, historyOf, Treiber.historyOf] using h2,
    by simpa [ga0, pendingOf, Treiber.pendingOf] using h3, by simpa [ga0] using h4⟩

/-! ### Main theorems -/

/-- **Linearizability of the Treiber stack with elimination back-off** (Herlihy–Wing, with completion of pending
    operations), in the form of `Treiber.treiber_linearizable`. -/
theorem elim_linearizable (sched : List (Tid × Act)) (s : St) (os : List (Tid × Obs))
    (h : model.run init sched = some (s, os)) :
    ∃ extra : List (OpRec GOp GRet),
      (∀ e ∈ extra, pendingOf os e.tid = some (e.op, e.inv) ∧ e.res = os.length ∧
          postRet s e.tid = some e.ret) ∧
      extra.Pairwise (fun a b => a.tid ≠ b.tid) ∧
      Linearizable lifo (historyOf os ++ extra) := by
  obtain ⟨g, hg, h2, h3, h4⟩ := run_ghost_init h
  obtain ⟨hlin, hex, hpw⟩ := ginv_linearizable hg
  rw [h2, h3, h4] at *
  exact ⟨_, hex, hpw, hlin⟩

theorem elim_linearizable_no_effect_pending (sched : List (Tid × Act)) (s : St) (os : List (Tid × Obs))
    (h : model.run init sched = some (s, os)) (hq : ∀ t, postRet s t = none) :
    Linearizable lifo (historyOf os) := by
  obtain ⟨extra, hex, -, hlin⟩ := elim_linearizable sched s os h
  have : extra = [] := by
    apply List.eq_nil_iff_forall_not_mem.mpr
    intro e he
    have := (hex e he).2.2
    rw [hq] at this; simp at this
  simpa [this] using hlin

theorem postRet_idle {s : St} {t : Tid} (h : s.pc t = .idle) : postRet s t = none := by
  simp [postRet, postRetC, h, elimd, isUnlC, passive, postPc]

theorem elim_linearizable_complete_runs (sched : List (Tid × Act)) (s : St) (os : List (Tid × Obs))
    (h : model.run init sched = some (s, os)) (hq : ∀ t, s.pc t = .idle) :
    Linearizable lifo (historyOf os) :=
  elim_linearizable_no_effect_pending sched s os h (fun t => postRet_idle (hq t))

/-- `historyOf` is faithful: a record's `inv` / `res` are the positions of its call and return observations, and its
    operation is the specification operation of the call. -/
theorem historyOf_sound (os : List (Tid × Obs)) (r : OpRec GOp GRet) (h : r ∈ historyOf os) :
    (∃ op, os[r.inv]? = some (r.tid, .call op) ∧ specOp op = r.op) ∧ os[r.res]? = some (r.tid, .ret r.ret) ∧
      r.inv < r.res := by
  obtain ⟨h1, h2, h3⟩ := Treiber.historyOf_sound (os.map specObs) r h
  refine ⟨?_, ?_, h3⟩
  · rw [List.getElem?_map] at h1
    cases hq : os[r.inv]? with
    | none => simp [hq] at h1
    | some x =>
      obtain ⟨t, o⟩ := x
      simp only [hq, Option.map_some, Option.some.injEq] at h1
      cases o with
      | call op => simp only [specObs, Prod.mk.injEq, Obs.call.injEq] at h1; exact ⟨op, by rw [h1.1], h1.2⟩
      | ev e => simp [specObs] at h1
      | ret r' => simp [specObs] at h1
  · rw [List.getElem?_map] at h2
    cases hq : os[r.res]? with
    | none => simp [hq] at h2
    | some x =>
      obtain ⟨t, o⟩ := x
      simp only [hq, Option.map_some, Option.some.injEq] at h2
      cases o with
      | call op => simp [specObs] at h2
      | ev e => simp [specObs] at h2
      | ret r' => simp only [specObs, Prod.mk.injEq, Obs.ret.injEq] at h2; rw [h2.1, h2.2]

end CdsVerif.Algo.Elim

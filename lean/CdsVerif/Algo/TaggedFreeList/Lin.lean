/-
  TaggedFreeList: every run is linearizable (Herlihy–Wing, with completion of the pending operations that have passed
  their linearization point) to the BAG.

  Part 1 (namespace `CdsVerif.Algo.BagLin`, shared with `Algo/FreeList/Lin.lean`):
    * `bagT` — the bag specification `Spec.bag []` read on the operations of the free-list machines, whose first
      argument is the calling thread: `put [t, n]` is `Spec.bagNext … put [n]`, `get [t]` is `Spec.bagNext … get []`
      (`stripOp` drops the thread argument).  `linearizable_bag_of_bagT` transfers a `bagT` linearization of a history
      to a `Spec.bag []` linearization of the same history with the thread arguments dropped.
    * `ghostModel m gs f` — the machine `m` run together with HISTORY VARIABLES: the operation each thread invoked
      last (the machines do not keep the thread argument of the call in their state, the ghost log needs the exact
      operation), a ghost value updated by `gs` at every atomic step, and the results relabelled by `f`.  The
      history variables are write-only: `ghostModel_run` — every run of `m` is a run of `ghostModel m gs f` with the same
      observations (results relabelled by `f`).

  Part 2: the instance of the ghost-log toolkit `Algo/QueueLin/GhostP.lean` for the tagged free list.
    abstract bag           the chain from `m_Head` (`chainOf`)
    linearization points   put: the successful CAS on `m_Head` (`putCas`, the node becomes the first of the chain);
                           get → node: the successful CAS on `m_Head` (`getCas`, the first node leaves the chain);
                           get → empty: the load of `m_Head` that reads null, or the failed CAS that sees null.
  The structural invariant is `TInv` of `Inv.lean`, reused as it is.
-/
import CdsVerif.Algo.TaggedFreeList.Inv
import CdsVerif.Algo.QueueLin.GhostP

namespace CdsVerif.Algo.BagLin
open CdsVerif.Machine CdsVerif.Spec CdsVerif.Lin CdsVerif.Algo.QueueLin CdsVerif.Algo.QueueLinP

/-! ### The bag on operations that carry the calling thread -/

/-- Drop the first argument (the calling thread). -/
def stripOp (op : GOp) : GOp := ⟨op.name, op.args.drop 1⟩

/-- `Spec.bag []` on the operations `put [t, n]`, `get [t]`. -/
def bagT : SpecL := ⟨[], fun q op r => bagNext q (stripOp op) r⟩

theorem bagT_ret0 (q : List Int) (op : GOp) (q' : List Int) (h : bagT.next q op [0] = some q') : q' = q := by
  obtain ⟨name, args⟩ := op
  simp only [bagT, stripOp, bagNext] at h
  split at h
  · simp_all
  · split at h <;> simp_all
  · simp_all
  · simp at h

theorem peff_put (a n : Int) (q : List Int) (hn : n ∉ q) : PEff bagT q ⟨"put", [a, n]⟩ [1] (n :: q) := by
  intro q0 hp
  have h0 : n ∉ q0 := fun h => hn (hp.mem_iff.mp h)
  exact ⟨n :: q0, by simp [bagT, stripOp, bagNext, h0], hp.cons n⟩

theorem peff_get (a p : Int) (q : List Int) : PEff bagT (p :: q) ⟨"get", [a]⟩ [1, p] q := by
  intro q0 hp
  have hx : p ∈ q0 := hp.mem_iff.mpr (by simp)
  refine ⟨q0.erase p, by simp [bagT, stripOp, bagNext, hx], ?_⟩
  simpa using hp.erase p

theorem peff_empty (a : Int) : PEff bagT [] ⟨"get", [a]⟩ [0] [] := by
  intro q0 hp
  have : q0 = [] := hp.eq_nil
  subst this
  exact ⟨[], by simp [bagT, stripOp, bagNext], List.Perm.refl _⟩

/-- The record with the thread argument of the operation dropped. -/
def stripRec (o : OpRec GOp GRet) : OpRec GOp GRet := { o with op := stripOp o.op }

theorem legal_strip : ∀ (l : List (OpRec GOp GRet)) (st : List Int), Legal bagT st l → Legal (bag []) st (l.map stripRec)
  | [], _, _ => trivial
  | o :: l, st, h => by
    obtain ⟨st1, h1, h2⟩ := h
    exact ⟨st1, h1, legal_strip l st1 h2⟩

/-- A `bagT` linearization is a linearization to `Spec.bag []` of the history without the thread arguments. -/
theorem linearizable_bag_of_bagT {ops : List (OpRec GOp GRet)} (h : Linearizable bagT ops) :
    Linearizable (bag []) (ops.map stripRec) := by
  obtain ⟨perm, hperm, hrt, hlegal⟩ := h
  refine ⟨perm.map stripRec, hperm.map _, ?_, legal_strip perm [] hlegal⟩
  unfold RespectsRT at hrt ⊢
  rw [List.pairwise_map]
  exact hrt

/-! ### History variables -/

variable {σ γ : Type}

def mapObs (f : GRet → GRet) : Obs → Obs
  | .ret r => .ret (f r)
  | o => o

def mapOs (f : GRet → GRet) (os : List (Tid × Obs)) : List (Tid × Obs) := os.map (fun x => (x.1, mapObs f x.2))

theorem mapOs_id (os : List (Tid × Obs)) : mapOs id os = os := by
  induction os with
  | nil => rfl
  | cons x os ih =>
    obtain ⟨t, o⟩ := x
    simp only [mapOs, List.map_cons] at ih ⊢
    rw [ih]
    cases o <;> rfl

/-- `m` with history variables: the operation each thread invoked last, a ghost value updated at every atomic step,
    and the results relabelled by `f`. -/
def ghostModel (m : Model σ) (gs : σ → Tid → γ → γ) (f : GRet → GRet) : Model (σ × (Tid → Option GOp) × γ) where
  invoke := fun x t op => (m.invoke x.1 t op).map (fun s' => (s', upd x.2.1 t (some op), x.2.2))
  step := fun x t => (m.step x.1 t).map (fun r => ((r.1, x.2.1, gs x.1 t x.2.2), r.2))
  result := fun x t => (m.result x.1 t).map (fun r => ((r.1, x.2.1, x.2.2), f r.2))

theorem ghostModel_apply (m : Model σ) (gs : σ → Tid → γ → γ) (f : GRet → GRet) (s : σ) (o : Tid → Option GOp) (g : γ)
    (t : Tid) (a : Act) (s1 : σ) (ob : Obs) (h : m.apply s t a = some (s1, ob)) :
    ∃ o1 g1, (ghostModel m gs f).apply (s, o, g) t a = some ((s1, o1, g1), mapObs f ob) := by
  cases a with
  | invoke op =>
    simp only [Model.apply, Option.map_eq_some_iff] at h
    obtain ⟨s2, hs2, heq⟩ := h
    simp only [Prod.mk.injEq] at heq
    obtain ⟨rfl, rfl⟩ := heq
    exact ⟨upd o t (some op), g, by simp [Model.apply, ghostModel, hs2, mapObs]⟩
  | step =>
    simp only [Model.apply, Option.map_eq_some_iff] at h
    obtain ⟨⟨s2, e⟩, hs2, heq⟩ := h
    simp only [Prod.mk.injEq] at heq
    obtain ⟨rfl, rfl⟩ := heq
    exact ⟨o, gs s t g, by simp [Model.apply, ghostModel, hs2, mapObs]⟩
  | ret =>
    simp only [Model.apply, Option.map_eq_some_iff] at h
    obtain ⟨⟨s2, r⟩, hs2, heq⟩ := h
    simp only [Prod.mk.injEq] at heq
    obtain ⟨rfl, rfl⟩ := heq
    exact ⟨o, g, by simp [Model.apply, ghostModel, hs2, mapObs]⟩

/-- The history variables are write-only: every run of `m` is a run of `ghostModel m gs f`. -/
theorem ghostModel_run (m : Model σ) (gs : σ → Tid → γ → γ) (f : GRet → GRet) :
    ∀ (sched : List (Tid × Act)) (s : σ) (o : Tid → Option GOp) (g : γ) (s' : σ) (os : List (Tid × Obs)),
      m.run s sched = some (s', os) →
      ∃ o' g', (ghostModel m gs f).run (s, o, g) sched = some ((s', o', g'), mapOs f os) := by
  intro sched
  induction sched with
  | nil =>
    intro s o g s' os h
    simp [Model.run] at h
    obtain ⟨rfl, rfl⟩ := h
    exact ⟨o, g, by simp [Model.run, mapOs]⟩
  | cons x rest ih =>
    intro s o g s' os h
    obtain ⟨t, a⟩ := x
    simp only [Model.run] at h
    cases hap : m.apply s t a with
    | none => simp [hap] at h
    | some p =>
      obtain ⟨s1, ob⟩ := p
      simp only [hap] at h
      cases hrr : m.run s1 rest with
      | none => simp [hrr] at h
      | some q =>
        obtain ⟨s2, os2⟩ := q
        simp only [hrr, Option.some.injEq, Prod.mk.injEq] at h
        obtain ⟨rfl, rfl⟩ := h
        obtain ⟨o1, g1, h1⟩ := ghostModel_apply m gs f s o g t a s1 ob hap
        obtain ⟨o2, g2, h2⟩ := ih s1 o1 g1 s2 os2 hrr
        exact ⟨o2, g2, by simp [Model.run, h1, h2, mapOs]⟩

end CdsVerif.Algo.BagLin

namespace CdsVerif.Algo.TaggedFreeList
open CdsVerif.Machine CdsVerif.Spec CdsVerif.Lin CdsVerif.Algo.QueueLin CdsVerif.Algo.QueueLinP CdsVerif.Algo.BagLin

/-! ### Bookkeeping functions of the program counter -/

/-- The operation in progress before its linearization point: `some (some n)` = `put` of node `n`, `some none` = `get`. -/
def opKind : PC → Option (Option Nat)
  | .idle => none
  | .putLd n => some (some n)
  | .putSt n _ _ => some (some n)
  | .putCas n _ _ => some (some n)
  | .getLd => some none
  | .getNext _ _ => some none
  | .getCas _ _ _ => some none
  | .done _ => none

/-- The result fixed at the linearization point. -/
def lpRet : PC → Option GRet
  | .done r => some r
  | _ => none

theorem lpRet_none_of_kind {pc : PC} (h : opKind pc ≠ none) : lpRet pc = none := by
  cases pc <;> simp_all [opKind, lpRet]

/-- The recorded operation agrees with the program counter. -/
def OpOk (pc : PC) (oo : Option GOp) : Prop :=
  match opKind pc with
  | none => True
  | some (some n) => ∃ a : Int, oo = some ⟨"put", [a, (n : Int)]⟩
  | some none => ∃ a : Int, oo = some ⟨"get", [a]⟩

/-- The chain from `m_Head` (the abstract bag). -/
noncomputable def chainOf (s : St) : List Nat :=
  @dite _ (∃ l, Chain s.next s.head.1 l) (Classical.propDecidable _) (fun h => Classical.choose h) (fun _ => [])

theorem chainOf_eq {s : St} {l : List Nat} (h : Chain s.next s.head.1 l) : chainOf s = l := by
  have hex : ∃ l, Chain s.next s.head.1 l := ⟨l, h⟩
  unfold chainOf
  rw [dif_pos hex]
  exact Chain.functional (Classical.choose_spec hex) h

def toBag (l : List Nat) : List Int := l.map (fun a : Nat => (a : Int))

theorem not_mem_toBag {l : List Nat} {n : Nat} (h : n ∉ l) : (n : Int) ∉ toBag l := by
  intro hm
  obtain ⟨b, hb, e⟩ := List.mem_map.mp hm
  have : b = n := by omega
  exact h (this ▸ hb)

/-! ### What one action does to the chain and to the program counters -/

theorem step_eff {s s' : St} {t : Tid} {ev : Ev} {l : List Nat} {w : Nat → Tid}
    (h : TInvL s l w) (hs : step s t = some (s', ev)) :
    (∀ t2, t2 ≠ t → s'.pc t2 = s.pc t2) ∧
    ((∃ n, opKind (s.pc t) = some (some n) ∧ s'.pc t = .done [1] ∧ n ∉ l ∧ Chain s'.next s'.head.1 (n :: l)) ∨
     (∃ (p : Nat) (l0 : List Nat), opKind (s.pc t) = some none ∧ s'.pc t = .done [1, (p : Int)] ∧ l = p :: l0 ∧
        Chain s'.next s'.head.1 l0) ∨
     (opKind (s.pc t) = some none ∧ s'.pc t = .done [0] ∧ s.head.1 = none ∧ Chain s'.next s'.head.1 l) ∨
     (opKind (s'.pc t) = opKind (s.pc t) ∧ opKind (s.pc t) ≠ none ∧ Chain s'.next s'.head.1 l)) := by
  have hch := h.chain
  cases hpc : s.pc t with
  | idle => simp [step, hpc] at hs
  | done r => simp [step, hpc] at hs
  | putLd n =>
    simp only [step, hpc] at hs
    simp at hs; obtain ⟨rfl, -⟩ := hs
    refine ⟨fun t2 ht => by simp [upd, ht], Or.inr (Or.inr (Or.inr ⟨by simp [opKind], by simp [opKind], hch⟩))⟩
  | putSt n hp hg =>
    simp only [step, hpc] at hs
    simp at hs; obtain ⟨rfl, -⟩ := hs
    have hn : n ∉ l := fun hm => h.memPut n t hm (by simp [hpc, putNode])
    refine ⟨fun t2 ht => by simp [upd, ht],
      Or.inr (Or.inr (Or.inr ⟨by simp [opKind], by simp [opKind], Chain.upd hn hch⟩))⟩
  | putCas n hp hg =>
    simp only [step, hpc] at hs
    split at hs
    next heq =>
      simp at hs; obtain ⟨rfl, -⟩ := hs
      have hn : n ∉ l := fun hm => h.memPut n t hm (by simp [hpc, putNode])
      have hnn := h.linked t n hp hg hpc
      refine ⟨fun t2 ht => by simp [upd, ht], Or.inl ⟨n, by simp [opKind], by simp, hn, ?_⟩⟩
      simp only [Chain]
      refine ⟨trivial, ?_⟩
      rw [hnn, ← heq.1]; exact hch
    next hne =>
      simp at hs; obtain ⟨rfl, -⟩ := hs
      refine ⟨fun t2 ht => by simp [upd, ht], Or.inr (Or.inr (Or.inr ⟨by simp [opKind], by simp [opKind], hch⟩))⟩
  | getLd =>
    simp only [step, hpc] at hs
    simp at hs; obtain ⟨rfl, -⟩ := hs
    refine ⟨fun t2 ht => by simp [upd, ht], ?_⟩
    cases hh : s.head.1 with
    | none => exact Or.inr (Or.inr (Or.inl ⟨by simp [opKind], by simp [getLoop], rfl, by rw [hh] at hch; exact hch⟩))
    | some a => exact Or.inr (Or.inr (Or.inr ⟨by simp [opKind, getLoop], by simp [opKind], by rw [hh] at hch; exact hch⟩))
  | getNext p g =>
    simp only [step, hpc] at hs
    simp at hs; obtain ⟨rfl, -⟩ := hs
    refine ⟨fun t2 ht => by simp [upd, ht], Or.inr (Or.inr (Or.inr ⟨by simp [opKind], by simp [opKind], hch⟩))⟩
  | getCas p g nx =>
    simp only [step, hpc] at hs
    split at hs
    next heq =>
      simp at hs; obtain ⟨rfl, -⟩ := hs
      have hnx := h.key t p g nx hpc heq.1 heq.2
      refine ⟨fun t2 ht => by simp [upd, ht], ?_⟩
      cases l with
      | nil => simp_all [Chain]
      | cons b l0 =>
        have hb : b = p := by simp_all [Chain]
        subst hb
        refine Or.inr (Or.inl ⟨b, l0, by simp [opKind], by simp, rfl, ?_⟩)
        simp only [Chain] at hch
        dsimp only
        rw [← hnx]; exact hch.2
    next hne =>
      simp at hs; obtain ⟨rfl, -⟩ := hs
      refine ⟨fun t2 ht => by simp [upd, ht], ?_⟩
      cases hh : s.head.1 with
      | none => exact Or.inr (Or.inr (Or.inl ⟨by simp [opKind], by simp [getLoop], rfl, by rw [hh] at hch; exact hch⟩))
      | some a => exact Or.inr (Or.inr (Or.inr ⟨by simp [opKind, getLoop], by simp [opKind], by rw [hh] at hch; exact hch⟩))

theorem invoke_eff {s s' : St} {t : Tid} {op : GOp} (hs : invoke s t op = some s') :
    s.pc t = .idle ∧ s'.head = s.head ∧ s'.next = s.next ∧ (∀ t2, t2 ≠ t → s'.pc t2 = s.pc t2) ∧
    ((∃ a n : Int, op = ⟨"put", [a, n]⟩ ∧ 0 < n ∧ s'.pc t = .putLd n.toNat) ∨
     (∃ a : Int, op = ⟨"get", [a]⟩ ∧ s'.pc t = .getLd)) := by
  obtain ⟨name, args⟩ := op
  unfold invoke at hs
  split at hs
  next x n hpc hname hargs =>
    split at hs
    next hc =>
      simp at hs; subst hs
      simp only at hname hargs
      subst hname hargs
      exact ⟨hpc, rfl, rfl, fun t2 ht => by simp [upd, ht], Or.inl ⟨x, n, rfl, hc.1, by simp⟩⟩
    next => simp at hs
  next x hpc hname hargs =>
    simp at hs; subst hs
    simp only at hname hargs
    subst hname hargs
    exact ⟨hpc, rfl, rfl, fun t2 ht => by simp [upd, ht], Or.inr ⟨x, rfl, by simp⟩⟩
  next => simp at hs

theorem result_eff {s s' : St} {t : Tid} {r : GRet} (hs : result s t = some (s', r)) :
    s.pc t = .done r ∧ s'.pc t = .idle ∧ s'.head = s.head ∧ s'.next = s.next ∧ (∀ t2, t2 ≠ t → s'.pc t2 = s.pc t2) := by
  unfold result at hs
  split at hs
  next r' hpc =>
    simp at hs; obtain ⟨rfl, rfl⟩ := hs
    exact ⟨hpc, by simp, rfl, rfl, fun t2 ht => by simp [upd, ht]⟩
  next => simp at hs

/-! ### The instance of the ghost-log toolkit -/

abbrev GS := St × (Tid → Option GOp) × Unit

def gmodel : Model GS := ghostModel model (fun _ _ g => g) id

def LInv (x : GS) : Prop := TInv x.1 ∧ ∀ t, OpOk (x.1.pc t) (x.2.1 t)

/-- The load of `m_Head` (or the failed CAS on it) that sees null. -/
def EmptyAt (x : GS) (t : Tid) : Prop := x.1.head.1 = none ∧ opKind (x.1.pc t) = some none

def opOfG (pc : PC) (oo : Option GOp) : Option GOp :=
  match opKind pc with
  | none => none
  | some _ => oo

noncomputable def qsys (own0 : Nat → Tid) : QSys GS where
  spec := bagT
  model := gmodel
  init := (init own0, fun _ => none, ())
  Inv := LInv
  absQ := fun x => toBag (chainOf x.1)
  lpRet := fun x t => lpRet (x.1.pc t)
  postRet := fun x t => lpRet (x.1.pc t)
  opOf := fun x t => opOfG (x.1.pc t) (x.2.1 t)
  EmptyAt := EmptyAt

theorem opOk_congr {pc pc' : PC} {oo : Option GOp} (h : opKind pc' = opKind pc) (h1 : OpOk pc oo) : OpOk pc' oo := by
  unfold OpOk at *; rw [h]; exact h1

theorem opOk_done {r : GRet} {oo : Option GOp} : OpOk (.done r) oo := by simp [OpOk, opKind]
theorem opOk_idle {oo : Option GOp} : OpOk .idle oo := by simp [OpOk, opKind]

theorem gstep_inv {x : GS} {t : Tid} {x' : GS} {ev : Ev} (h : gmodel.step x t = some (x', ev)) :
    step x.1 t = some (x'.1, ev) ∧ x'.2.1 = x.2.1 := by
  simp only [gmodel, ghostModel, Option.map_eq_some_iff] at h
  obtain ⟨⟨s1, e⟩, hs1, heq⟩ := h
  simp only [Prod.mk.injEq] at heq
  obtain ⟨rfl, rfl⟩ := heq
  exact ⟨hs1, rfl⟩

theorem ginvoke_inv {x : GS} {t : Tid} {op : GOp} {x' : GS} (h : gmodel.invoke x t op = some x') :
    invoke x.1 t op = some x'.1 ∧ x'.2.1 = upd x.2.1 t (some op) := by
  simp only [gmodel, ghostModel, Option.map_eq_some_iff] at h
  obtain ⟨s1, hs1, rfl⟩ := h
  exact ⟨hs1, rfl⟩

theorem gresult_inv {x : GS} {t : Tid} {r : GRet} {x' : GS} (h : gmodel.result x t = some (x', r)) :
    result x.1 t = some (x'.1, r) ∧ x'.2.1 = x.2.1 := by
  simp only [gmodel, ghostModel, Option.map_eq_some_iff] at h
  obtain ⟨⟨s1, e⟩, hs1, heq⟩ := h
  simp only [Prod.mk.injEq, id] at heq
  obtain ⟨rfl, rfl⟩ := heq
  exact ⟨hs1, rfl⟩

theorem qsys_ok (own0 : Nat → Tid) : (qsys own0).OK where
  ret0 := bagT_ret0
  spec_init := rfl
  inv_init := ⟨⟨[], own0, tinv_init own0⟩, fun t => by simp [qsys, init, OpOk, opKind]⟩
  abs_init := by
    have : chainOf (init own0) = [] := chainOf_eq (by simp [init, Chain])
    simp [qsys, this, toBag]
  lp_init := by intro t; simp [qsys, init, lpRet]
  op_init := by intro t; simp [qsys, init, opOfG, opKind]
  post_lp := by intro s t r h; exact h
  post_op := by
    intro s t r h
    simp only [qsys] at h ⊢
    cases hpc : s.1.pc t <;> simp_all [lpRet, opOfG, opKind]
  lp_post := by intro s t r h _; exact h
  empty_abs := by
    intro s t ⟨h, _⟩
    have : chainOf s.1 = [] := chainOf_eq (by rw [h]; simp [Chain])
    simp [qsys, this, toBag]
  invoke := by
    intro x t op x' ⟨⟨l, w, hl⟩, hop⟩ hs
    obtain ⟨hs1, ho⟩ := ginvoke_inv hs
    have hl' := tinvl_invoke hl hs1
    obtain ⟨hidle, hhead, hnext, hframe, hcase⟩ := invoke_eff hs1
    have hnow : OpOk (x'.1.pc t) (some op) ∧ opOfG (x'.1.pc t) (some op) = some op := by
      rcases hcase with ⟨a, n, rfl, hn, hpc⟩ | ⟨a, rfl, hpc⟩
      · rw [hpc]
        refine ⟨?_, by simp [opOfG, opKind]⟩
        simp only [OpOk, opKind]
        exact ⟨a, by rw [Int.toNat_of_nonneg (by omega)]⟩
      · rw [hpc]
        exact ⟨by simp only [OpOk, opKind]; exact ⟨a, rfl⟩, by simp [opOfG, opKind]⟩
    refine ⟨⟨⟨l, w, hl'⟩, ?_⟩, ⟨?_, ?_⟩, ?_, ?_, ?_, ?_⟩
    · intro t2
      rw [ho]
      by_cases ht : t2 = t
      · subst ht; simp only [upd_same]; exact hnow.1
      · rw [upd_other _ _ _ _ ht, hframe t2 ht]; exact hop t2
    · intro t2 ht; simp only [qsys]; rw [hframe t2 ht]
    · intro t2 ht; simp only [qsys]; rw [hframe t2 ht, ho, upd_other _ _ _ _ ht]
    · simp [qsys, hidle, lpRet]
    · simp only [qsys]; rw [ho, upd_same]; exact hnow.2
    · simp only [qsys]
      rcases hcase with ⟨a, n, -, -, hpc⟩ | ⟨a, -, hpc⟩ <;> rw [hpc] <;> rfl
    · simp only [qsys]
      rw [chainOf_eq hl.chain, chainOf_eq hl'.chain]
  step := by
    intro x t x' ev ⟨⟨l, w, hl⟩, hop⟩ hs
    obtain ⟨hs1, ho⟩ := gstep_inv hs
    obtain ⟨l', w', hl'⟩ := tinvl_step hl hs1
    obtain ⟨hframe, hcase⟩ := step_eff hl hs1
    have hk : opKind (x.1.pc t) ≠ none := by
      rcases hcase with ⟨n, h1, -⟩ | ⟨p, l0, h1, -⟩ | ⟨h1, -⟩ | ⟨-, h1, -⟩ <;> simp_all
    have hlp0 : lpRet (x.1.pc t) = none := lpRet_none_of_kind hk
    have habs : toBag (chainOf x.1) = toBag l := by rw [chainOf_eq hl.chain]
    refine ⟨⟨⟨l', w', hl'⟩, ?_⟩, ⟨?_, ?_⟩, ?_, ?_, ?_, ?_, ?_⟩
    · intro t2
      rw [ho]
      by_cases ht : t2 = t
      · subst ht
        rcases hcase with ⟨n, -, h2, -⟩ | ⟨p, l0, -, h2, -⟩ | ⟨-, h2, -⟩ | ⟨h1, -, -⟩
        · rw [h2]; exact opOk_done
        · rw [h2]; exact opOk_done
        · rw [h2]; exact opOk_done
        · exact opOk_congr h1 (hop t2)
      · rw [hframe t2 ht]; exact hop t2
    · intro t2 ht; simp only [qsys]; rw [hframe t2 ht]
    · intro t2 ht; simp only [qsys]; rw [hframe t2 ht, ho]
    · simp only [qsys]
      intro _ r hr
      have hopt := hop t
      rcases hcase with ⟨n, h1, h2, hn, hc⟩ | ⟨p, l0, h1, h2, rfl, hc⟩ | ⟨h1, h2, hh, hc⟩ | ⟨h1, h3, -⟩
      · rw [h2] at hr; simp [lpRet] at hr; subst hr
        simp only [OpOk, h1] at hopt
        obtain ⟨a, ha⟩ := hopt
        refine ⟨_, by simp only [opOfG, h1]; exact ha, ?_⟩
        rw [habs, chainOf_eq hc]
        exact peff_put a n (toBag l) (not_mem_toBag hn)
      · rw [h2] at hr; simp [lpRet] at hr; subst hr
        simp only [OpOk, h1] at hopt
        obtain ⟨a, ha⟩ := hopt
        refine ⟨_, by simp only [opOfG, h1]; exact ha, ?_⟩
        rw [habs, chainOf_eq hc]
        exact peff_get a p (toBag l0)
      · rw [h2] at hr; simp [lpRet] at hr; subst hr
        simp only [OpOk, h1] at hopt
        obtain ⟨a, ha⟩ := hopt
        refine ⟨_, by simp only [opOfG, h1]; exact ha, ?_⟩
        have hl0 : l = [] := by
          have := hl.chain; rw [hh] at this
          cases l with
          | nil => rfl
          | cons b l0 => simp [Chain] at this
        rw [habs, chainOf_eq hc, hl0]
        exact peff_empty a
      · rw [lpRet_none_of_kind (h1 ▸ h3)] at hr; simp at hr
    · simp only [qsys]
      intro hc0
      have hn' : lpRet (x'.1.pc t) = none := by
        rcases hc0 with h | h
        · exact absurd hlp0 h
        · exact h
      rcases hcase with ⟨n, -, h2, -⟩ | ⟨p, l0, -, h2, -⟩ | ⟨-, h2, -⟩ | ⟨-, -, hc⟩
      · rw [h2] at hn'; simp [lpRet] at hn'
      · rw [h2] at hn'; simp [lpRet] at hn'
      · rw [h2] at hn'; simp [lpRet] at hn'
      · rw [habs, chainOf_eq hc]
    · simp only [qsys]; intro r hr; rw [hlp0] at hr; simp at hr
    · simp only [qsys]
      intro hp
      rcases hcase with ⟨n, -, h2, -⟩ | ⟨p, l0, -, h2, -⟩ | ⟨-, h2, -⟩ | ⟨h1, -, -⟩
      · rw [h2] at hp; simp [lpRet] at hp
      · rw [h2] at hp; simp [lpRet] at hp
      · rw [h2] at hp; simp [lpRet] at hp
      · rw [ho]; simp only [opOfG, h1]
    · simp only [qsys]
      intro _ hr
      rcases hcase with ⟨n, -, h2, -⟩ | ⟨p, l0, -, h2, -⟩ | ⟨h1, -, hh, -⟩ | ⟨h1, h3, -⟩
      · rw [h2] at hr; simp [lpRet] at hr
      · rw [h2] at hr; simp [lpRet] at hr
      · exact ⟨hh, h1⟩
      · rw [lpRet_none_of_kind (h1 ▸ h3)] at hr; simp at hr
  result := by
    intro x t x' r ⟨⟨l, w, hl⟩, hop⟩ hs
    obtain ⟨hs1, ho⟩ := gresult_inv hs
    have hl' := tinvl_result hl hs1
    obtain ⟨hdone, hidle, hhead, hnext, hframe⟩ := result_eff hs1
    refine ⟨⟨⟨l, w, hl'⟩, ?_⟩, ⟨?_, ?_⟩, ?_, ?_, ?_, ?_⟩
    · intro t2
      rw [ho]
      by_cases ht : t2 = t
      · subst ht; rw [hidle]; exact opOk_idle
      · rw [hframe t2 ht]; exact hop t2
    · intro t2 ht; simp only [qsys]; rw [hframe t2 ht]
    · intro t2 ht; simp only [qsys]; rw [hframe t2 ht, ho]
    · simp [qsys, hdone, lpRet]
    · simp [qsys, hidle, lpRet]
    · simp [qsys, hidle, opOfG, opKind]
    · simp only [qsys]
      rw [chainOf_eq hl.chain, chainOf_eq hl'.chain]

/-! ### Theorems on the runs of the machine itself -/

/-- **TaggedFreeList is linearizable to the bag.**  For every run of the machine (any number of threads, any client
    program in which a thread only puts a node it owns, any schedule), the history of the completed operations,
    extended by response records `extra` for the pending operations that have passed their linearization point (at
    most one per thread; the result is the one fixed there), is linearizable to the bag: `put n` adds `n` (which is
    not in the bag), `get` removes and returns a node that is in the bag, and answers "empty" only when the bag is
    empty. -/
theorem tagged_bag_linearizable (own0 : Nat → Tid) (sched : List (Tid × Act)) (s : St) (os : List (Tid × Obs))
    (h : model.run (init own0) sched = some (s, os)) :
    ∃ extra : List (OpRec GOp GRet),
      (∀ e ∈ extra, pendingOf os e.tid = some (e.op, e.inv) ∧ e.res = os.length ∧ lpRet (s.pc e.tid) = some e.ret) ∧
      extra.Pairwise (fun a b => a.tid ≠ b.tid) ∧
      Linearizable bagT (historyOf os ++ extra) := by
  obtain ⟨o', g', hr⟩ := ghostModel_run model (fun _ _ (g : Unit) => g) id sched (init own0) (fun _ => none) () s os h
  rw [mapOs_id] at hr
  exact QueueLinP.linearizable (qsys_ok own0) sched (s, o', g') os hr

/-- `get` answers "empty" only if `m_Head` was null at an instant inside the call (the instant of the load of
    `m_Head`, or of the failed CAS, that saw null): at that instant the chain — the bag — is empty. -/
theorem tagged_empty_hindsight (own0 : Nat → Tid) (sched : List (Tid × Act)) (s : St) (os : List (Tid × Obs))
    (h : model.run (init own0) sched = some (s, os)) (r : OpRec GOp GRet) (hr : r ∈ historyOf os) (hret : r.ret = [0]) :
    ∃ j, r.inv < j ∧ j < r.res ∧ ∃ s1, (model.run (init own0) (sched.take j)).map (·.1) = some s1 ∧
      s1.head.1 = none ∧ Chain s1.next s1.head.1 [] := by
  obtain ⟨o', g', hrun⟩ := ghostModel_run model (fun _ _ (g : Unit) => g) id sched (init own0) (fun _ => none) () s os h
  rw [mapOs_id] at hrun
  obtain ⟨j, x1, h1, h2, h3, h4, -⟩ := QueueLinP.empty_hindsight (qsys_ok own0) sched (s, o', g') os hrun r hr hret
  refine ⟨j, h1, h2, x1.1, ?_, h4.1, by rw [h4.1]; simp [Chain]⟩
  -- the run of the ghost machine projects to the run of the machine
  have hproj : ∀ (sch : List (Tid × Act)) (x : GS) (y : GS) (os1 : List (Tid × Obs)),
      gmodel.run x sch = some (y, os1) → (model.run x.1 sch).map (·.1) = some y.1 := by
    intro sch
    induction sch with
    | nil => intro x y os1 hh; simp [Model.run] at hh; simp [Model.run, hh.1]
    | cons a rest ih =>
      intro x y os1 hh
      obtain ⟨t, act⟩ := a
      simp only [Model.run] at hh
      cases hap : gmodel.apply x t act with
      | none => simp [hap] at hh
      | some p =>
        obtain ⟨x2, ob⟩ := p
        simp only [hap] at hh
        cases hrr : gmodel.run x2 rest with
        | none => simp [hrr] at hh
        | some q =>
          obtain ⟨x3, os2⟩ := q
          simp only [hrr, Option.some.injEq, Prod.mk.injEq] at hh
          obtain ⟨rfl, -⟩ := hh
          have hap1 : ∃ ob1, model.apply x.1 t act = some (x2.1, ob1) := by
            cases act with
            | invoke op =>
              simp only [Model.apply, Option.map_eq_some_iff] at hap
              obtain ⟨y1, hy1, heq⟩ := hap
              simp only [Prod.mk.injEq] at heq
              obtain ⟨rfl, -⟩ := heq
              exact ⟨.call op, by simp [Model.apply, model, (ginvoke_inv hy1).1]⟩
            | step =>
              simp only [Model.apply, Option.map_eq_some_iff] at hap
              obtain ⟨⟨y1, e⟩, hy1, heq⟩ := hap
              simp only [Prod.mk.injEq] at heq
              obtain ⟨rfl, -⟩ := heq
              exact ⟨.ev e, by simp [Model.apply, model, (gstep_inv hy1).1]⟩
            | ret =>
              simp only [Model.apply, Option.map_eq_some_iff] at hap
              obtain ⟨⟨y1, e⟩, hy1, heq⟩ := hap
              simp only [Prod.mk.injEq] at heq
              obtain ⟨rfl, -⟩ := heq
              exact ⟨.ret e, by simp [Model.apply, model, (gresult_inv hy1).1]⟩
          obtain ⟨ob1, hap1⟩ := hap1
          have := ih x2 x3 os2 hrr
          simp only [Model.run, hap1]
          cases hm : model.run x2.1 rest with
          | none => simp [hm] at this
          | some q2 => simp [hm] at this ⊢; exact this
  exact hproj _ _ _ _ h3

end CdsVerif.Algo.TaggedFreeList

/-
  Tie A for the StripedSet machine (`Algo/Striped/Model`): what `cdsdriver replay striped` runs.

  The machine `Striped.model cfg` is parameterised by the configuration; the driver's replay loop takes one model and an
  initial state built from the header line of each case, so the configuration travels in the state (`RSt`).
  `modelR` is `Striped.model` on the `st` component, unchanged (`modelR_run`: every run of `modelR` is a run of
  `Striped.model cfg` with the same schedule and the same observations, so every state the driver reaches while it
  accepts a real trace is a reachable state of the machine the theorems of `Props/C16Striped` speak about).

  Header words (harness/clients/striped.cpp, hidden variants `tie_striping` / `tie_refinable`):
    `policy=striping|refinable cap=<initial bucket count = lock count> num=<n> den=<d> hmul=<m>`
  with the resizing policy "resize when size * den > bucket_count * num" and the hash function `key ↦ key * hmul`.
  The word `recheck=0` (never printed by the harness; added by hand to the header of traces of the seeded mutant
  /verif/seeded/C16-refinable-owner-recheck) selects the machine WITHOUT the re-check of `refinable::acquire`, which is
  outside the theorems: it serves to show that the mutant's traces are runs of that machine and reach states that violate
  `okB` (an item in a bucket where no lookup searches for it).

  `okB` is an executable part of the invariant (`C16_striped_no_loss_no_dup`: every item sits in bucket
  `h key % capacity`, no bucket holds a key twice), evaluated by the driver after every accepted step.
-/
import CdsVerif.Algo.Striped.Model
namespace CdsVerif.Algo.Striped
open CdsVerif.Machine CdsVerif.Spec

structure RSt where
  cfg : Cfg
  st : St

def modelR : Model RSt :=
  ⟨fun s t op => (invoke s.cfg s.st t op).map (fun st' => { s with st := st' }),
   fun s t => (step s.cfg s.st t).map (fun r => ({ s with st := r.1 }, r.2)),
   fun s t => (result s.st t).map (fun r => ({ s with st := r.1 }, r.2))⟩

def cfgNat (key : String) (ws : List String) : Option Nat :=
  ws.findSome? (fun w => if w.startsWith (key ++ "=") then (w.drop (key.length + 1)).toNat? else none)

def log2c (n : Nat) : Nat := (List.range 64).find? (fun k => decide (2 ^ k ≥ n)) |>.getD 0

def cfgOf (ws : List String) : Cfg :=
  let hmul := (cfgNat "hmul" ws).getD 1
  { refinable := ws.contains "policy=refinable"
    k0 := log2c ((cfgNat "cap" ws).getD 16)
    num := (cfgNat "num" ws).getD 1
    den := (cfgNat "den" ws).getD 1
    h := fun k => k.toNat * hmul
    recheck := !(ws.contains "recheck=0") }

def initCfg (ws : List String) : RSt := ⟨cfgOf ws, init (cfgOf ws)⟩

def relevant (loc : String) : Bool :=
  loc == "owner" || loc == "access" || loc == "lcap" || loc == "mask" || loc == "count" || loc == "tbl" ||
  loc.startsWith "lk" || loc.startsWith "b" || loc == "stale-bucket"

def okB (r : RSt) : Bool :=
  let s := r.st
  let cap := s.mask + 1
  (List.range cap).all fun b =>
    (s.bkt b).all (fun e => r.cfg.h e.1 % cap == b) &&
    decide (((s.bkt b).map (·.1)).Nodup)

/-- Every run of the replay model is a run of the machine (same schedule, same observations, same states). -/
theorem modelR_run (sched : List (Tid × Act)) :
    ∀ (s s' : RSt) (os : List (Tid × Obs)), modelR.run s sched = some (s', os) →
      s'.cfg = s.cfg ∧ (model s.cfg).run s.st sched = some (s'.st, os) := by
  induction sched with
  | nil =>
    intro s s' os h
    simp only [Model.run, Option.some.injEq, Prod.mk.injEq] at h
    obtain ⟨rfl, rfl⟩ := h
    exact ⟨rfl, rfl⟩
  | cons x rest ih =>
    intro s s' os h
    obtain ⟨t, a⟩ := x
    simp only [Model.run] at h
    cases hap : modelR.apply s t a with
    | none => simp [hap] at h
    | some p =>
      obtain ⟨s1, o⟩ := p
      simp only [hap] at h
      cases hrr : modelR.run s1 rest with
      | none => simp [hrr] at h
      | some q =>
        obtain ⟨s2, os2⟩ := q
        simp only [hrr, Option.some.injEq, Prod.mk.injEq] at h
        obtain ⟨rfl, rfl⟩ := h
        obtain ⟨hc, hr⟩ := ih s1 s2 os2 hrr
        have h1 : s1.cfg = s.cfg ∧ (model s.cfg).apply s.st t a = some (s1.st, o) := by
          cases a with
          | invoke op =>
            simp only [Model.apply, modelR, model, Option.map_eq_some_iff] at hap ⊢
            obtain ⟨s1', ⟨st', hs, rfl⟩, heq⟩ := hap
            simp only [Prod.mk.injEq] at heq
            obtain ⟨rfl, rfl⟩ := heq
            exact ⟨rfl, st', hs, rfl⟩
          | step =>
            simp only [Model.apply, modelR, model, Option.map_eq_some_iff] at hap ⊢
            obtain ⟨r1, ⟨r0, hs, rfl⟩, heq⟩ := hap
            simp only [Prod.mk.injEq] at heq
            obtain ⟨rfl, rfl⟩ := heq
            exact ⟨rfl, r0, hs, rfl⟩
          | ret =>
            simp only [Model.apply, modelR, model, Option.map_eq_some_iff] at hap ⊢
            obtain ⟨r1, ⟨r0, hs, rfl⟩, heq⟩ := hap
            simp only [Prod.mk.injEq] at heq
            obtain ⟨rfl, rfl⟩ := heq
            exact ⟨rfl, r0, hs, rfl⟩
        rw [h1.1] at hc hr
        exact ⟨hc, by simp only [Model.run, h1.2, hr]⟩

end CdsVerif.Algo.Striped

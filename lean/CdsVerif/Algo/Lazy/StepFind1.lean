/-
  Preservation of the LazyList invariant, and the effect on the abstract map: `find`: taking and releasing `pCur->m_Lock`.
-/
import CdsVerif.Algo.Lazy.Inv
namespace CdsVerif.Algo.Lazy
open CdsVerif.Machine CdsVerif.Spec CdsVerif.Lin
open CdsVerif.Algo.Michael (Chain insAfter mem_insAfter pairwise_insAfter LPok)

set_option maxHeartbeats 4000000 in
theorem sinvl_step_fLk {s s' : St} {t : Tid} {ev : Ev} {L : List Nat} {k : Int} {c : Nat}
    (h : SInvL s L) (hpc : s.pc t = .fLk k c) (hs : step s t = some (s', ev)) :
    ∃ L', SInvL s' L' ∧ StepEff s t s' L L' := by
  have hclt : c < s.cnt := h.lt_cnt (h.lkCur t c (by simp [hpc, pcCur])).2
  pc_facts
  sinv_open h
  simp only [step, hpc] at hs
  split at hs
  next hl =>
    simp at hs; obtain ⟨rfl, -⟩ := hs
    step_close L
  next hl =>
    simp at hs; obtain ⟨rfl, -⟩ := hs
    step_close L

set_option maxHeartbeats 4000000 in
theorem sinvl_step_fSp {s s' : St} {t : Tid} {ev : Ev} {L : List Nat} {k : Int} {c : Nat}
    (h : SInvL s L) (hpc : s.pc t = .fSp k c) (hs : step s t = some (s', ev)) :
    ∃ L', SInvL s' L' ∧ StepEff s t s' L L' := by
  pc_facts
  sinv_open h
  simp only [step, hpc] at hs
  split at hs
  next hl =>
    simp at hs; obtain ⟨rfl, -⟩ := hs
    step_close L
  next hl =>
    simp at hs; obtain ⟨rfl, -⟩ := hs
    step_close L

set_option maxHeartbeats 4000000 in
theorem sinvl_step_fUnl {s s' : St} {t : Tid} {ev : Ev} {L : List Nat} {k : Int} {c : Nat} {r : GRet}
    (h : SInvL s L) (hpc : s.pc t = .fUnl k c r) (hs : step s t = some (s', ev)) :
    ∃ L', SInvL s' L' ∧ StepEff s t s' L L' := by
  pc_facts
  sinv_open h
  simp only [step, hpc] at hs
  simp at hs; obtain ⟨rfl, -⟩ := hs
  step_close L

end CdsVerif.Algo.Lazy

// The portable implementations of cds/details/bitop_generic.h, compiled stand-alone so that the
// amd64 inline-asm versions do not shadow them.  Exposed through plain wrappers.
#include <cstdint>
#include <cstddef>
#include <cstdlib>
#include <cassert>
#include <cds/details/bitop_generic.h>
namespace P = cds::bitop::platform;
namespace generic_bitop {
    int isPow2_32( uint32_t x ) { return P::isPow2_32( x ); }
    int isPow2_64( uint64_t x ) { return P::isPow2_64( x ); }
    int msb32( uint32_t x ) { return P::msb32( x ); }
    int msb32nz( uint32_t x ) { return P::msb32nz( x ); }
    int msb64( uint64_t x ) { return P::msb64( x ); }
    int msb64nz( uint64_t x ) { return P::msb64nz( x ); }
    int lsb32( uint32_t x ) { return P::lsb32( x ); }
    int lsb32nz( uint32_t x ) { return P::lsb32nz( x ); }
    int lsb64( uint64_t x ) { return P::lsb64( x ); }
    int lsb64nz( uint64_t x ) { return P::lsb64nz( x ); }
    uint32_t rbo32( uint32_t x ) { return P::rbo32( x ); }
    uint64_t rbo64( uint64_t x ) { return P::rbo64( x ); }
    int sbc32( uint32_t x ) { return P::sbc32( x ); }
    int sbc64( uint64_t x ) { return P::sbc64( x ); }
    int zbc32( uint32_t x ) { return P::zbc32( x ); }
    int zbc64( uint64_t x ) { return P::zbc64( x ); }
    bool complement32( uint32_t* p, unsigned b ) { return P::complement32( p, b ); }
    bool complement64( uint64_t* p, unsigned b ) { return P::complement64( p, b ); }
}

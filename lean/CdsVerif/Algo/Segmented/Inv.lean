/-
  The inductive invariant of the SegmentedQueue machine (property C08): definitions.

  `Inv s = Glob s ∧ ∀ t, Loc s t (s.pc t)`:
  * `Glob`  facts about shared memory and the ghost history (no program counter);
  * `Loc`   what a thread at program counter `p` knows;
  * `Frame` what a step of ANOTHER thread may change; `Loc` is stable under `Frame` (`loc_frame`), so that a step
            of thread `t` only has to re-establish `Glob`, `Frame` for the observers and `Loc` for `t` itself.
-/
import CdsVerif.Algo.Segmented.Model
namespace CdsVerif.Algo.Segmented
open CdsVerif.Machine CdsVerif.Spec

/-! ### The permutation input -/

theorem nextPerm_lt (K : Nat) (ps : List Nat) : ∀ j, j ∈ (nextPerm K ps).1 → j < K := by
  intro j hj
  unfold nextPerm at hj
  split at hj
  · rename_i h
    simp only [isPerm, Bool.and_eq_true, List.all_eq_true, decide_eq_true_eq] at h
    exact h.1.2 j hj
  · simpa using hj

theorem nextPerm_all (K : Nat) (ps : List Nat) : ∀ j, j < K → j ∈ (nextPerm K ps).1 := by
  intro j hj
  unfold nextPerm
  split
  · rename_i h
    simp only [isPerm, Bool.and_eq_true, List.all_eq_true, decide_eq_true_eq] at h
    have := h.2 j (by simpa using hj)
    simpa using this
  · simpa using hj

theorem scanE_cases (x : Nat) (ps : List Nat) (g : Nat) (l : List Nat) :
    (l = [] ∧ scanE x ps g l = .ctTry x ps (some g)) ∨ (∃ i r, l = i :: r ∧ scanE x ps g l = .enqRd x ps g i r) := by
  cases l with
  | nil => left; exact ⟨rfl, rfl⟩
  | cons i r => right; exact ⟨i, r, rfl, rfl⟩

theorem scanD_cases (ps : List Nat) (g : Nat) (hn : Bool) (l : List Nat) :
    (l = [] ∧ hn = true ∧ scanD ps g hn l = .deqDone none) ∨ (l = [] ∧ hn = false ∧ scanD ps g hn l = .rhTry ps g) ∨
    (∃ i r, l = i :: r ∧ scanD ps g hn l = .deqRd ps g i r hn) := by
  cases l with
  | nil => cases hn <;> simp [scanD]
  | cons i r => right; right; exact ⟨i, r, rfl, rfl⟩

/-! ### Projections of the program counter -/

/-- Inside a critical section of `m_Lock`. -/
def PC.inCS : PC → Bool
  | .ctIn .. => true
  | .ctTail .. => true
  | .ctUnlock .. => true
  | .rhIn .. => true
  | .rhHead .. => true
  | .rhUnlock .. => true
  | _ => false

/-- The segment pointer a thread holds. -/
def PC.ptr : PC → Option Nat
  | .enqRd _ _ g _ _ => some g
  | .enqCas _ _ g _ _ => some g
  | .ctTry _ _ pt => pt
  | .ctSpin _ _ pt => pt
  | .ctIn _ _ pt => pt
  | .ctTail _ _ n => some n
  | .ctUnlock _ _ n => some n
  | .deqRd _ g _ _ _ => some g
  | .deqCas _ g _ _ _ _ => some g
  | .rhTry _ g => some g
  | .rhSpin _ g => some g
  | .rhIn _ g => some g
  | .rhUnlock _ r => r
  | _ => none

/-- The segment pointer of a dequeuer. -/
def PC.dptr : PC → Option Nat
  | .deqRd _ g _ _ _ => some g
  | .deqCas _ g _ _ _ _ => some g
  | .rhTry _ g => some g
  | .rhSpin _ g => some g
  | .rhIn _ g => some g
  | .rhUnlock _ r => r
  | _ => none

/-- The argument of `create_tail` (a segment seen fully populated), before the critical section decides. -/
def PC.ctArg : PC → Option Nat
  | .ctTry _ _ pt => pt
  | .ctSpin _ _ pt => pt
  | .ctIn _ _ pt => pt
  | _ => none

/-- The argument of `remove_head` (a segment seen fully deleted). -/
def PC.rhArg : PC → Option Nat
  | .rhTry _ g => some g
  | .rhSpin _ g => some g
  | .rhIn _ g => some g
  | _ => none

/-- The segment just allocated / found by `create_tail`, which is the last one while the lock is held. -/
def PC.ctNew : PC → Option Nat
  | .ctTail _ _ n => some n
  | .ctUnlock _ _ n => some n
  | _ => none

/-- The item of an enqueue that has not yet stored it. -/
def PC.enqItem : PC → Option Nat
  | .enqLd1 x _ => some x
  | .enqLd2 x _ _ => some x
  | .enqRd x _ _ _ _ => some x
  | .enqCas x _ _ _ _ => some x
  | .ctTry x _ _ => some x
  | .ctSpin x _ _ => some x
  | .ctIn x _ _ => some x
  | .ctTail x _ _ => some x
  | .ctUnlock x _ _ => some x
  | _ => none

/-- The dequeue is going to answer EMPTY. -/
def PC.emptyRes : PC → Bool
  | .rhHead _ => true
  | .rhUnlock _ none => true
  | .deqDone none => true
  | _ => false

/-- Inside a critical section, at a point where `m_pHead` / `m_pTail` are exact (just after the acquisition, just
    before the release). -/
def PC.quietCS : PC → Bool
  | .ctIn .. => true
  | .ctUnlock .. => true
  | .rhIn .. => true
  | .rhUnlock .. => true
  | _ => false

/-! ### The invariant -/

/-- `m_pHead` is the first and `m_pTail` the last segment of the list (both null when the list is empty). -/
def Quiet (s : St) : Prop :=
  (s.lo < s.nseg → s.head = some s.lo ∧ s.tail = some (s.nseg - 1)) ∧ (s.lo = s.nseg → s.head = none)


structure Glob (s : St) : Prop where
  lo_le : s.lo ≤ s.nseg
  head_some : ∀ h, s.head = some h → h ≤ s.lo ∧ h < s.nseg
  head_none : s.head = none → s.lo = s.nseg
  tail_some : ∀ p, s.tail = some p → p + 1 = s.nseg
  tail_none : s.lo = s.nseg → s.tail = none
  fresh : ∀ g i, s.nseg ≤ g → s.cell g i = .null
  wide : ∀ g i, s.K ≤ i → s.cell g i = .null
  dead : ∀ g i, g < s.lo → i < s.K → (s.cell g i).isDel = true
  full : ∀ g i, g + 1 < s.nseg → i < s.K → s.cell g i ≠ .null
  holder_lock : ∀ t, s.holder = some t → s.lock = true
  -- conservation
  item_pos : ∀ g i x, s.cell g i = .item x → s.enqCnt x = 1 ∧ s.posS x = g ∧ s.posI x = i ∧ s.deqCnt x = 0
  del_pos : ∀ g i x, s.cell g i = .del x → s.enqCnt x = 1 ∧ s.posS x = g ∧ s.posI x = i ∧ s.deqCnt x = 1
  enq_le : ∀ x, s.enqCnt x = 0 ∨ s.enqCnt x = 1
  enq_cell : ∀ x, s.enqCnt x = 1 → s.cell (s.posS x) (s.posI x) = .item x ∨ s.cell (s.posS x) (s.posI x) = .del x
  enq_zero : ∀ x, s.enqCnt x = 0 → s.deqCnt x = 0
  enq_used : ∀ x, s.enqCnt x = 1 → s.used x = true
  -- history
  used_t : ∀ x, s.used x = true → s.tInv x < s.now ∧ s.floorN x ≤ s.nseg
  cas_t : ∀ x c, s.tCas x = some c → s.tInv x < c ∧ c < s.now ∧ s.enqCnt x = 1
  cas_some : ∀ x, s.enqCnt x = 1 → s.tCas x ≠ none
  mark_t : ∀ x m, s.tMark x = some m → m < s.now ∧ s.deqCnt x = 1
  mark_cas : ∀ x m c, s.tMark x = some m → s.tCas x = some c → c < m
  mark_some : ∀ x, s.deqCnt x = 1 → s.tMark x ≠ none
  floor : ∀ x y c, s.used x = true → s.tCas y = some c → c < s.tInv x → s.posS y + 1 ≤ s.floorN x
  order : ∀ x y c, s.enqCnt x = 1 → s.tCas y = some c → c < s.tInv x → s.posS y ≤ s.posS x
  quasi : ∀ x y m c, s.tMark x = some m → s.tCas y = some c → c < s.tInv x →
    (∀ m', s.tMark y = some m' → m < m') → s.posS y = s.posS x
  -- nobody inside create_tail / remove_head: the published pointers are exact
  quiet : s.holder = none → Quiet s

structure Loc (s : St) (t : Tid) (p : PC) : Prop where
  act : p ≠ .idle → s.tCall t < s.now
  cs : p.inCS = true → s.holder = some t
  ptr : ∀ g, p.ptr = some g → g < s.nseg
  dptr : ∀ g, p.dptr = some g → g ≤ s.lo
  ctArg : ∀ g j, p.ctArg = some g → j < s.K → s.cell g j ≠ .null
  rhArg : ∀ g j, p.rhArg = some g → j < s.K → (s.cell g j).isDel = true
  ctNew : ∀ n, p.ctNew = some n → n + 1 = s.nseg
  ctTail : ∀ x ps n, p = .ctTail x ps n → s.lo = n
  rhHead : ∀ ps, p = .rhHead ps → s.lo = s.nseg
  eRd : ∀ x ps g i rest, p = .enqRd x ps g i rest →
    i < s.K ∧ (∀ j, j ∈ rest → j < s.K) ∧ ∀ j, j < s.K → j = i ∨ j ∈ rest ∨ s.cell g j ≠ .null
  eCas : ∀ x ps g i rest, p = .enqCas x ps g i rest →
    i < s.K ∧ (∀ j, j ∈ rest → j < s.K) ∧ ∀ j, j < s.K → j = i ∨ j ∈ rest ∨ s.cell g j ≠ .null
  dRd : ∀ ps g i rest hn, p = .deqRd ps g i rest hn →
    i < s.K ∧ (∀ j, j ∈ rest → j < s.K) ∧ ∀ j, j < s.K → j = i ∨ j ∈ rest ∨ (s.cell g j).isDel = true ∨ hn = true
  dCas : ∀ ps g i x rest hn, p = .deqCas ps g i x rest hn →
    i < s.K ∧ (∀ j, j ∈ rest → j < s.K) ∧ (s.cell g i = .item x ∨ s.cell g i = .del x) ∧
    ∀ j, j < s.K → j = i ∨ j ∈ rest ∨ (s.cell g j).isDel = true ∨ hn = true
  item : ∀ x, p.enqItem = some x → s.used x = true ∧ s.owner x = t ∧ s.enqCnt x = 0
  floor : ∀ x g, p.enqItem = some x → p.ptr = some g → s.floorN x ≤ g + 1
  enqDone : ∀ x, p = .enqDone x → s.enqCnt x = 1
  deqDone : ∀ x, p = .deqDone (some x) → s.deqCnt x = 1
  e1Rd : ∀ ps g i rest hn, p = .deqRd ps g i rest hn → ∀ y c, s.tCas y = some c → c < s.tCall t → s.posS y = g →
    s.posI y = i ∨ s.posI y ∈ rest ∨ (s.cell g (s.posI y)).isDel = true
  e1Cas : ∀ ps g i x rest hn, p = .deqCas ps g i x rest hn → ∀ y c, s.tCas y = some c → c < s.tCall t → s.posS y = g →
    s.posI y = i ∨ s.posI y ∈ rest ∨ (s.cell g (s.posI y)).isDel = true
  e2Rd : ∀ ps g i rest, p = .deqRd ps g i rest true → ∀ y c, s.tCas y = some c → c < s.tCall t → s.posS y ≤ g
  e2Cas : ∀ ps g i x rest, p = .deqCas ps g i x rest true → ∀ y c, s.tCas y = some c → c < s.tCall t → s.posS y ≤ g
  e3 : p.emptyRes = true → ∀ y c, s.tCas y = some c → c < s.tCall t → (s.cell (s.posS y) (s.posI y)).isDel = true
  casIn : ∀ x, p = .enqDone x → ∃ c, s.tCas x = some c ∧ s.tCall t < c
  markIn : ∀ x, p = .deqDone (some x) → ∃ m, s.tMark x = some m ∧ s.tCall t < m
  qcs : p.quietCS = true → Quiet s
  ctTailQ : ∀ x ps n, p = .ctTail x ps n → s.head = some n

def Inv (s : St) : Prop := Glob s ∧ ∀ t, Loc s t (s.pc t)

/-- What a step of another thread may do to the state, as seen by thread `t` at program counter `p`. -/
structure Frame (s s' : St) (t : Tid) (p : PC) : Prop where
  K : s'.K = s.K
  lo : s.lo ≤ s'.lo
  nseg : s.nseg ≤ s'.nseg
  nn : ∀ g i, s.cell g i ≠ .null → s'.cell g i ≠ .null
  item : ∀ g i x, s.cell g i = .item x → s'.cell g i = .item x ∨ s'.cell g i = .del x
  del : ∀ g i x, s.cell g i = .del x → s'.cell g i = .del x
  isdel : ∀ g i, (s.cell g i).isDel = true → (s'.cell g i).isDel = true
  hold : s.holder = some t → s'.holder = some t ∧ s'.lo = s.lo ∧ s'.nseg = s.nseg ∧ s'.head = s.head ∧ s'.tail = s.tail
  call : s'.tCall t = s.tCall t
  now : s.now ≤ s'.now
  cas : ∀ y c, s'.tCas y = some c → s.tCas y = some c ∨ s.now ≤ c
  pos : ∀ y c, s.tCas y = some c → s'.posS y = s.posS y ∧ s'.posI y = s.posI y
  used : ∀ x, s.used x = true → s'.used x = true ∧ s'.owner x = s.owner x ∧ s'.floorN x = s.floorN x
  mine : ∀ x, p.enqItem = some x → s'.enqCnt x = s.enqCnt x
  enq1 : ∀ x, s.enqCnt x = 1 → s'.enqCnt x = 1
  deq1 : ∀ x, s.deqCnt x = 1 → s'.deqCnt x = 1
  casS : ∀ x c, s.tCas x = some c → s'.tCas x = some c
  markS : ∀ x m, s.tMark x = some m → s'.tMark x = some m

set_option maxHeartbeats 2000000 in
theorem loc_frame {s s' : St} {t : Tid} {p : PC} (h : Loc s t p) (f : Frame s s' t p) : Loc s' t p := by
  obtain ⟨l1, l2, l3, l4, l5, l6, l7, l8, l9, l10, l11, l12, l13, l14, l15, l16, l17, l18, l19, l20, l21, l22, l23, l24, l25, l26⟩ := h
  obtain ⟨f1, f2, f3, f4, f5, f5', f6, f7, f8, f9, f10, f11, f12, f13, f14, f15, f16, f17⟩ := f
  constructor
  · grind
  · grind
  · grind
  · grind
  · grind
  · grind
  · intro n hn; have := l7 n hn; have := l2; cases p <;> simp_all [PC.ctNew, PC.inCS]
  · intro x ps n hp; have := l8 x ps n hp; have := l2; subst hp; simp_all [PC.inCS]
  · intro ps hp; have := l9 ps hp; have := l2; subst hp; simp_all [PC.inCS]
  · intro x ps g i rest hp; have := l10 x ps g i rest hp; grind
  · intro x ps g i rest hp; have := l11 x ps g i rest hp; grind
  · intro ps g i rest hn hp; have := l12 ps g i rest hn hp; grind
  · intro ps g i x rest hn hp; have := l13 ps g i x rest hn hp; grind
  · grind
  · grind
  · grind
  · grind
  · intro ps g i rest hn hp y c hc hlt hg
    have := l18 ps g i rest hn hp y c
    have := l1
    grind
  · intro ps g i x rest hn hp y c hc hlt hg
    have := l19 ps g i x rest hn hp y c
    have := l1
    grind
  · intro ps g i rest hp y c hc hlt
    have := l20 ps g i rest hp y c
    have := l1
    grind
  · intro ps g i x rest hp y c hc hlt
    have := l21 ps g i x rest hp y c
    have := l1
    grind
  · intro hp y c hc hlt
    have := l22 hp y c
    have := l1
    grind [PC.emptyRes]
  · intro x hp
    obtain ⟨c, hc, hlt⟩ := l23 x hp
    exact ⟨c, f16 x c hc, by rw [f8]; exact hlt⟩
  · intro x hp
    obtain ⟨m, hm, hlt⟩ := l24 x hp
    exact ⟨m, f17 x m hm, by rw [f8]; exact hlt⟩
  · intro hp
    have := l25 hp
    have := l2 (by cases p <;> simp_all [PC.quietCS, PC.inCS])
    unfold Quiet at *
    grind
  · intro x ps n hp
    have := l26 x ps n hp
    have := l2 (by subst hp; rfl)
    grind

/-! ### Introduction rules of `Loc`, one per program counter -/

macro "loc_intro" : tactic =>
  `(tactic| (constructor <;> intros <;>
      simp_all [PC.inCS, PC.ptr, PC.dptr, PC.ctArg, PC.rhArg, PC.ctNew, PC.enqItem, PC.emptyRes, PC.quietCS]))

theorem loc_idle (s : St) (t : Tid) : Loc s t .idle := by loc_intro

theorem loc_enqLd1 {s : St} {t : Tid} {x : Nat} {ps : List Nat} (hact : s.tCall t < s.now)
    (hitem : s.used x = true ∧ s.owner x = t ∧ s.enqCnt x = 0) : Loc s t (.enqLd1 x ps) := by loc_intro

theorem loc_enqLd2 {s : St} {t : Tid} {x : Nat} {ps : List Nat} {p : Option Nat} (hact : s.tCall t < s.now)
    (hitem : s.used x = true ∧ s.owner x = t ∧ s.enqCnt x = 0) : Loc s t (.enqLd2 x ps p) := by loc_intro

theorem loc_enqRd {s : St} {t : Tid} {x : Nat} {ps : List Nat} {g i : Nat} {rest : List Nat} (hact : s.tCall t < s.now)
    (hitem : s.used x = true ∧ s.owner x = t ∧ s.enqCnt x = 0) (hptr : g < s.nseg) (hfloor : s.floorN x ≤ g + 1)
    (hscan : i < s.K ∧ (∀ j, j ∈ rest → j < s.K) ∧ ∀ j, j < s.K → j = i ∨ j ∈ rest ∨ s.cell g j ≠ .null) :
    Loc s t (.enqRd x ps g i rest) := by loc_intro

theorem loc_enqCas {s : St} {t : Tid} {x : Nat} {ps : List Nat} {g i : Nat} {rest : List Nat} (hact : s.tCall t < s.now)
    (hitem : s.used x = true ∧ s.owner x = t ∧ s.enqCnt x = 0) (hptr : g < s.nseg) (hfloor : s.floorN x ≤ g + 1)
    (hscan : i < s.K ∧ (∀ j, j ∈ rest → j < s.K) ∧ ∀ j, j < s.K → j = i ∨ j ∈ rest ∨ s.cell g j ≠ .null) :
    Loc s t (.enqCas x ps g i rest) := by loc_intro

theorem loc_ctTry {s : St} {t : Tid} {x : Nat} {ps : List Nat} {pt : Option Nat} (hact : s.tCall t < s.now)
    (hitem : s.used x = true ∧ s.owner x = t ∧ s.enqCnt x = 0)
    (hpt : ∀ g, pt = some g → g < s.nseg ∧ s.floorN x ≤ g + 1 ∧ ∀ j, j < s.K → s.cell g j ≠ .null) :
    Loc s t (.ctTry x ps pt) := by
  constructor <;> intros <;>
    simp_all [PC.inCS, PC.ptr, PC.dptr, PC.ctArg, PC.rhArg, PC.ctNew, PC.enqItem, PC.emptyRes, PC.quietCS]

theorem loc_ctSpin {s : St} {t : Tid} {x : Nat} {ps : List Nat} {pt : Option Nat} (hact : s.tCall t < s.now)
    (hitem : s.used x = true ∧ s.owner x = t ∧ s.enqCnt x = 0)
    (hpt : ∀ g, pt = some g → g < s.nseg ∧ s.floorN x ≤ g + 1 ∧ ∀ j, j < s.K → s.cell g j ≠ .null) :
    Loc s t (.ctSpin x ps pt) := by loc_intro

theorem loc_ctIn {s : St} {t : Tid} {x : Nat} {ps : List Nat} {pt : Option Nat} (hact : s.tCall t < s.now)
    (hitem : s.used x = true ∧ s.owner x = t ∧ s.enqCnt x = 0) (hhold : s.holder = some t) (hq : Quiet s)
    (hpt : ∀ g, pt = some g → g < s.nseg ∧ s.floorN x ≤ g + 1 ∧ ∀ j, j < s.K → s.cell g j ≠ .null) :
    Loc s t (.ctIn x ps pt) := by loc_intro

theorem loc_ctTail {s : St} {t : Tid} {x : Nat} {ps : List Nat} {n : Nat} (hact : s.tCall t < s.now)
    (hitem : s.used x = true ∧ s.owner x = t ∧ s.enqCnt x = 0) (hhold : s.holder = some t)
    (hn : n + 1 = s.nseg) (hlo : s.lo = n) (hhd : s.head = some n) (hfloor : s.floorN x ≤ n + 1) :
    Loc s t (.ctTail x ps n) := by
  constructor <;> intros <;>
    simp_all [PC.inCS, PC.ptr, PC.dptr, PC.ctArg, PC.rhArg, PC.ctNew, PC.enqItem, PC.emptyRes, PC.quietCS] <;> omega

theorem loc_ctUnlock {s : St} {t : Tid} {x : Nat} {ps : List Nat} {n : Nat} (hact : s.tCall t < s.now)
    (hitem : s.used x = true ∧ s.owner x = t ∧ s.enqCnt x = 0) (hhold : s.holder = some t)
    (hq : Quiet s) (hn : n + 1 = s.nseg) (hfloor : s.floorN x ≤ n + 1) : Loc s t (.ctUnlock x ps n) := by
  constructor <;> intros <;>
    simp_all [PC.inCS, PC.ptr, PC.dptr, PC.ctArg, PC.rhArg, PC.ctNew, PC.enqItem, PC.emptyRes, PC.quietCS] <;> omega

theorem loc_enqDone {s : St} {t : Tid} {x : Nat} (hact : s.tCall t < s.now) (hdone : s.enqCnt x = 1)
    (hcas : ∃ c, s.tCas x = some c ∧ s.tCall t < c) : Loc s t (.enqDone x) := by loc_intro

theorem loc_deqLd1 {s : St} {t : Tid} {ps : List Nat} (hact : s.tCall t < s.now) : Loc s t (.deqLd1 ps) := by loc_intro

theorem loc_deqLd2 {s : St} {t : Tid} {ps : List Nat} {p : Option Nat} (hact : s.tCall t < s.now) :
    Loc s t (.deqLd2 ps p) := by loc_intro

theorem loc_deqRd {s : St} {t : Tid} {ps : List Nat} {g i : Nat} {rest : List Nat} {hn : Bool} (hact : s.tCall t < s.now)
    (hptr : g < s.nseg) (hdptr : g ≤ s.lo)
    (hscan : i < s.K ∧ (∀ j, j ∈ rest → j < s.K) ∧
      ∀ j, j < s.K → j = i ∨ j ∈ rest ∨ (s.cell g j).isDel = true ∨ hn = true)
    (he1 : ∀ y c, s.tCas y = some c → c < s.tCall t → s.posS y = g →
      s.posI y = i ∨ s.posI y ∈ rest ∨ (s.cell g (s.posI y)).isDel = true)
    (he2 : hn = true → ∀ y c, s.tCas y = some c → c < s.tCall t → s.posS y ≤ g) :
    Loc s t (.deqRd ps g i rest hn) := by
  constructor <;> intros <;>
    simp_all [PC.inCS, PC.ptr, PC.dptr, PC.ctArg, PC.rhArg, PC.ctNew, PC.enqItem, PC.emptyRes, PC.quietCS]

theorem loc_deqCas {s : St} {t : Tid} {ps : List Nat} {g i x : Nat} {rest : List Nat} {hn : Bool}
    (hact : s.tCall t < s.now) (hptr : g < s.nseg) (hdptr : g ≤ s.lo)
    (hcell : s.cell g i = .item x ∨ s.cell g i = .del x)
    (hscan : i < s.K ∧ (∀ j, j ∈ rest → j < s.K) ∧
      ∀ j, j < s.K → j = i ∨ j ∈ rest ∨ (s.cell g j).isDel = true ∨ hn = true)
    (he1 : ∀ y c, s.tCas y = some c → c < s.tCall t → s.posS y = g →
      s.posI y = i ∨ s.posI y ∈ rest ∨ (s.cell g (s.posI y)).isDel = true)
    (he2 : hn = true → ∀ y c, s.tCas y = some c → c < s.tCall t → s.posS y ≤ g) :
    Loc s t (.deqCas ps g i x rest hn) := by
  constructor <;> intros <;>
    simp_all [PC.inCS, PC.ptr, PC.dptr, PC.ctArg, PC.rhArg, PC.ctNew, PC.enqItem, PC.emptyRes, PC.quietCS]

theorem loc_rhTry {s : St} {t : Tid} {ps : List Nat} {g : Nat} (hact : s.tCall t < s.now) (hptr : g < s.nseg)
    (hdptr : g ≤ s.lo) (hdel : ∀ j, j < s.K → (s.cell g j).isDel = true) : Loc s t (.rhTry ps g) := by loc_intro

theorem loc_rhSpin {s : St} {t : Tid} {ps : List Nat} {g : Nat} (hact : s.tCall t < s.now) (hptr : g < s.nseg)
    (hdptr : g ≤ s.lo) (hdel : ∀ j, j < s.K → (s.cell g j).isDel = true) : Loc s t (.rhSpin ps g) := by loc_intro

theorem loc_rhIn {s : St} {t : Tid} {ps : List Nat} {g : Nat} (hact : s.tCall t < s.now) (hptr : g < s.nseg)
    (hdptr : g ≤ s.lo) (hhold : s.holder = some t) (hq : Quiet s) (hdel : ∀ j, j < s.K → (s.cell g j).isDel = true) :
    Loc s t (.rhIn ps g) := by loc_intro

theorem loc_rhHead {s : St} {t : Tid} {ps : List Nat} (hact : s.tCall t < s.now) (hhold : s.holder = some t)
    (hlo : s.lo = s.nseg)
    (he3 : ∀ y c, s.tCas y = some c → c < s.tCall t → (s.cell (s.posS y) (s.posI y)).isDel = true) :
    Loc s t (.rhHead ps) := by loc_intro

theorem loc_rhUnlock {s : St} {t : Tid} {ps : List Nat} {r : Option Nat} (hact : s.tCall t < s.now)
    (hhold : s.holder = some t) (hq : Quiet s) (hr : ∀ g, r = some g → g < s.nseg ∧ g ≤ s.lo)
    (he3 : r = none → ∀ y c, s.tCas y = some c → c < s.tCall t → (s.cell (s.posS y) (s.posI y)).isDel = true) :
    Loc s t (.rhUnlock ps r) := by
  cases r <;> loc_intro

theorem loc_deqDone {s : St} {t : Tid} {r : Option Nat} (hact : s.tCall t < s.now)
    (hr : ∀ x, r = some x → s.deqCnt x = 1 ∧ ∃ m, s.tMark x = some m ∧ s.tCall t < m)
    (he3 : r = none → ∀ y c, s.tCas y = some c → c < s.tCall t → (s.cell (s.posS y) (s.posI y)).isDel = true) :
    Loc s t (.deqDone r) := by
  cases r <;> loc_intro

/-- A step that changes nothing but the stepping thread's program counter and the clock. -/
theorem frame_pcnow (s : St) (t0 : Tid) (q : PC) (t : Tid) (p : PC) :
    Frame s { s with pc := upd s.pc t0 q, now := s.now + 1 } t p := by
  constructor <;> intros <;> simp_all

theorem glob_pcnow (s : St) (t0 : Tid) (q : PC) (h : Glob s) : Glob { s with pc := upd s.pc t0 q, now := s.now + 1 } := by
  obtain ⟨g1, g2, g3, g4, g5, g6, g7, g8, g9, g10, g11, g12, g13, g14, g15, g16, g17, g18, g19, g20, g21, g22, g23, g24, g25, g26⟩ := h
  constructor <;> (try assumption)
  · intro x hx; have := g17 x hx; exact ⟨by simp only; omega, this.2⟩
  · intro x c hx; have := g18 x c hx; exact ⟨this.1, by simp only; omega, this.2.2⟩
  · intro x m hx; have := g20 x m hx; exact ⟨by simp only; omega, this.2⟩

/-- The combinator: a step of thread `t0` to program counter `q`. -/
theorem inv_of_step {s s' : St} {t0 : Tid} {q : PC} (h : Inv s) (hpc : s'.pc = upd s.pc t0 q) (hG : Glob s')
    (hF : ∀ t, t ≠ t0 → Frame s s' t (s.pc t)) (hL : Loc s' t0 q) : Inv s' := by
  refine ⟨hG, ?_⟩
  intro t
  by_cases ht : t = t0
  · subst ht; rw [hpc]; simpa [upd] using hL
  · rw [hpc]; simp only [upd, ht, if_false]
    exact loc_frame (h.2 t) (hF t ht)

theorem inv_pcnow {s : St} {t0 : Tid} {q : PC} (h : Inv s)
    (hL : Loc { s with pc := upd s.pc t0 q, now := s.now + 1 } t0 q) :
    Inv { s with pc := upd s.pc t0 q, now := s.now + 1 } :=
  inv_of_step h rfl (glob_pcnow s t0 q h.1) (fun t _ => frame_pcnow s t0 q t (s.pc t)) hL

end CdsVerif.Algo.Segmented

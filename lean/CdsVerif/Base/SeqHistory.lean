/-
  Sequential histories (property C20, derived from the interleaving theorems).

  1. `Sequential h`: the operations of the complete history `h` do not overlap — the list is ordered by
     invocation time and every operation returns before the next one is invoked.  A sequential history has exactly
     one order compatible with real time (`perm_eq_of_sequential`), hence
        `Linearizable spec h ↔ Legal spec spec.init h`                         (`linearizable_iff_legal`)
     and for the deterministic specifications `detSpec init step`
        `Linearizable (detSpec init step) h ↔ specRun step init (ops of h) = some (results of h)`
                                                                                (`linearizable_iff_specRun`).
  2. The history `historyOf os` of an observation list all of whose entries belong to ONE thread is sequential
     (`historyOf_sequential`), and the observation list of a run has the thread ids of its schedule (`run_tids`).
     If moreover the machine follows the call protocol (`Protocol`: `invoke` only on an idle thread, which becomes
     busy; `step` does not change the status; `result` only on a busy thread, which becomes idle; nobody changes another
     thread's status), the observations of a single-threaded run that ends idle are `call, ev*, ret, call, …, ret`
     (`run_bracketed`), `historyOf os` has one record per `call`, in order (`historyOf_ops`, `historyOf_rets`), and
     all threads are idle at the end (`run_all_idle`).
  3. `sequential_run_spec`: the glue used by the corollaries of `Props/C20Seq.lean`.
-/
import CdsVerif.Base.Machine
namespace CdsVerif.SeqHistory
open CdsVerif.Lin CdsVerif.Spec CdsVerif.Machine

/-! ### 1. Sequential histories have one linearization -/

section Lin
variable {σ Op Ret : Type}

/-- The history is written in the order of invocation, operations do not overlap (`a` returns before the next
    operation `b` is invoked), and every record is well formed (`inv ≤ res`). -/
def Sequential (l : List (OpRec Op Ret)) : Prop :=
  l.Pairwise (fun a b => a.res < b.inv) ∧ ∀ o ∈ l, o.inv ≤ o.res

instance (l : List (OpRec Op Ret)) : Decidable (Sequential l) := by
  unfold Sequential; exact inferInstance

theorem sequential_nil : Sequential ([] : List (OpRec Op Ret)) := ⟨List.Pairwise.nil, by simp⟩

theorem Sequential.tail {o : OpRec Op Ret} {l : List (OpRec Op Ret)} (h : Sequential (o :: l)) : Sequential l :=
  ⟨(List.pairwise_cons.mp h.1).2, fun x hx => h.2 x (List.mem_cons_of_mem _ hx)⟩

/-- A sequential history respects its own real-time order. -/
theorem Sequential.respectsRT {l : List (OpRec Op Ret)} (h : Sequential l) : RespectsRT l := by
  obtain ⟨hp, hwf⟩ := h
  unfold RespectsRT
  induction l with
  | nil => exact List.Pairwise.nil
  | cons o l ih =>
    have hc := List.pairwise_cons.mp hp
    refine List.Pairwise.cons ?_ (ih hc.2 (fun x hx => hwf x (List.mem_cons_of_mem _ hx)))
    intro b hb hlt
    have h1 := hc.1 b hb
    have h2 := hwf o List.mem_cons_self
    have h3 := hwf b (List.mem_cons_of_mem _ hb)
    omega

/-- **Uniqueness of the linearization order**: the only arrangement of a sequential history that never places an
    operation before one that really preceded it is the history itself. -/
theorem perm_eq_of_sequential : ∀ (l perm : List (OpRec Op Ret)), Sequential l → perm.Perm l → RespectsRT perm →
    perm = l := by
  intro l
  induction l with
  | nil => intro perm _ hp _; exact hp.eq_nil
  | cons o l ih =>
    intro perm hs hp hrt
    cases perm with
    | nil => exact absurd hp.symm.eq_nil (by simp)
    | cons p rest =>
      have hc := List.pairwise_cons.mp hs.1
      have hrt' := List.pairwise_cons.mp hrt
      have hpo : p = o := by
        rcases List.mem_cons.mp (hp.mem_iff.mp List.mem_cons_self) with h | h
        · exact h
        · exfalso
          have h1 : o.res < p.inv := hc.1 p h
          rcases List.mem_cons.mp (hp.mem_iff.mpr List.mem_cons_self) with h2 | h2
          · have h3 := hs.2 o List.mem_cons_self
            rw [h2] at h1 h3; omega
          · exact hrt'.1 o h2 h1
      subst hpo
      rw [ih rest hs.tail (List.Perm.cons_inv hp) hrt'.2]

/-- A sequential history is linearizable iff it is itself a legal sequential execution. -/
theorem linearizableFrom_iff_legal (spec : Lin.Spec σ Op Ret) (s : σ) (l : List (OpRec Op Ret))
    (hs : Sequential l) : LinearizableFrom spec s l ↔ Legal spec s l := by
  constructor
  · rintro ⟨perm, hp, hrt, hl⟩
    rw [perm_eq_of_sequential l perm hs hp hrt] at hl
    exact hl
  · intro hl
    exact ⟨l, List.Perm.refl _, hs.respectsRT, hl⟩

theorem linearizable_iff_legal (spec : Lin.Spec σ Op Ret) (l : List (OpRec Op Ret)) (hs : Sequential l) :
    Linearizable spec l ↔ Legal spec spec.init l :=
  linearizableFrom_iff_legal spec spec.init l hs

end Lin

/-! ### Running a deterministic specification -/

section Run
variable {σ : Type}

/-- Run the step function of a sequential object over a list of operations: the list of results, `none` when
    some operation is not an operation of the object. -/
def specRun (step : σ → GOp → Option (σ × GRet)) : σ → List GOp → Option (List GRet)
  | _, [] => some []
  | s, op :: ops =>
    match step s op with
    | none => none
    | some (s', r) => (specRun step s' ops).map (fun rs => r :: rs)

theorem detSpec_next_iff (init : σ) (step : σ → GOp → Option (σ × GRet)) (s s' : σ) (op : GOp) (r : GRet) :
    (detSpec init step).next s op r = some s' ↔ step s op = some (s', r) := by
  simp only [detSpec]
  cases h : step s op with
  | none => simp
  | some p =>
    obtain ⟨s1, r1⟩ := p
    by_cases hr : r = r1
    · subst hr; simp
    · simp only [hr, if_false, Option.some.injEq, Prod.mk.injEq]
      constructor
      · intro h; exact absurd h (by simp)
      · intro h; exact absurd h.2.symm hr

/-- For `detSpec`, legality of a record list is "the results are those computed by the step function". -/
theorem legal_detSpec_iff (init : σ) (step : σ → GOp → Option (σ × GRet)) :
    ∀ (l : List (OpRec GOp GRet)) (s : σ),
      Legal (detSpec init step) s l ↔ specRun step s (l.map (·.op)) = some (l.map (·.ret)) := by
  intro l
  induction l with
  | nil => intro s; simp [Legal, specRun]
  | cons o l ih =>
    intro s
    simp only [Legal, List.map_cons, specRun, detSpec_next_iff, ih]
    cases hst : step s o.op with
    | none => simp
    | some p =>
      obtain ⟨s1, r1⟩ := p
      simp only [Option.some.injEq, Prod.mk.injEq, Option.map_eq_some_iff, List.cons.injEq]
      constructor
      · rintro ⟨s', ⟨rfl, rfl⟩, h⟩; exact ⟨_, h, rfl, rfl⟩
      · rintro ⟨rs, h, rfl, rfl⟩; exact ⟨_, ⟨rfl, rfl⟩, h⟩

/-- **Sequential histories**: linearizable iff running the specification over the operations, in the order of
    the history, produces exactly the recorded results. -/
theorem linearizable_iff_specRun (init : σ) (step : σ → GOp → Option (σ × GRet)) (l : List (OpRec GOp GRet))
    (hs : Sequential l) :
    Linearizable (detSpec init step) l ↔ specRun step init (l.map (·.op)) = some (l.map (·.ret)) := by
  rw [linearizable_iff_legal _ l hs]
  exact legal_detSpec_iff init step l init

end Run

/-! ### 2. Histories of single-threaded observation lists -/

/-- Per thread: the operation in progress and the index of its `call` observation. -/
abbrev Pend := Tid → Option (GOp × Nat)

/-- The history scan shared (as literal copies) by all the machines of `Algo/`. -/
def histAux : Nat → Pend → List (Tid × Obs) → List (OpRec GOp GRet)
  | _, _, [] => []
  | i, pend, (t, .call op) :: os => histAux (i + 1) (upd pend t (some (op, i))) os
  | i, pend, (_, .ev _) :: os => histAux (i + 1) pend os
  | i, pend, (t, .ret r) :: os =>
    match pend t with
    | some (op, k) => ⟨t, op, r, k, i⟩ :: histAux (i + 1) (upd pend t none) os
    | none => histAux (i + 1) pend os

def historyOf (os : List (Tid × Obs)) : List (OpRec GOp GRet) := histAux 0 (fun _ => none) os

/-- The operations called / the results returned, in the order of the observations. -/
def callsOf : List (Tid × Obs) → List GOp
  | [] => []
  | (_, .call op) :: os => op :: callsOf os
  | (_, .ev _) :: os => callsOf os
  | (_, .ret _) :: os => callsOf os

def retsOf : List (Tid × Obs) → List GRet
  | [] => []
  | (_, .call _) :: os => retsOf os
  | (_, .ev _) :: os => retsOf os
  | (_, .ret r) :: os => r :: retsOf os

/-- Time stamps of the records of a scan starting at index `i`. -/
theorem histAux_stamps : ∀ (os : List (Tid × Obs)) (i : Nat) (pend : Pend) (r : OpRec GOp GRet),
    r ∈ histAux i pend os →
      i ≤ r.res ∧ ((i ≤ r.inv ∧ r.inv < r.res) ∨ pend r.tid = some (r.op, r.inv)) := by
  intro os
  induction os with
  | nil => intro i pend r h; simp [histAux] at h
  | cons x os ih =>
    intro i pend r h
    obtain ⟨t, o⟩ := x
    cases o with
    | call op =>
      simp only [histAux] at h
      obtain ⟨h1, h2⟩ := ih _ _ r h
      refine ⟨by omega, ?_⟩
      rcases h2 with h2 | h2
      · left; omega
      · by_cases ht : r.tid = t
        · subst ht
          simp only [upd_same, Option.some.injEq, Prod.mk.injEq] at h2
          left; omega
        · rw [upd_other _ _ _ _ ht] at h2; right; exact h2
    | ev e =>
      simp only [histAux] at h
      obtain ⟨h1, h2⟩ := ih _ _ r h
      refine ⟨by omega, ?_⟩
      rcases h2 with h2 | h2
      · left; omega
      · right; exact h2
    | ret rv =>
      simp only [histAux] at h
      cases hp : pend t with
      | none =>
        simp only [hp] at h
        obtain ⟨h1, h2⟩ := ih _ _ r h
        refine ⟨by omega, ?_⟩
        rcases h2 with h2 | h2
        · left; omega
        · right; exact h2
      | some q =>
        obtain ⟨op, k⟩ := q
        simp only [hp, List.mem_cons] at h
        rcases h with h | h
        · subst h; exact ⟨Nat.le_refl _, Or.inr hp⟩
        · obtain ⟨h1, h2⟩ := ih _ _ r h
          refine ⟨by omega, ?_⟩
          rcases h2 with h2 | h2
          · left; omega
          · by_cases ht : r.tid = t
            · subst ht; simp at h2
            · rw [upd_other _ _ _ _ ht] at h2; right; exact h2

theorem histAux_tid : ∀ (os : List (Tid × Obs)) (i : Nat) (pend : Pend) (r : OpRec GOp GRet),
    r ∈ histAux i pend os → ∃ x ∈ os, x.1 = r.tid := by
  intro os
  induction os with
  | nil => intro i pend r h; simp [histAux] at h
  | cons x os ih =>
    intro i pend r h
    obtain ⟨t, o⟩ := x
    cases o with
    | call op =>
      simp only [histAux] at h
      obtain ⟨y, hy, hy2⟩ := ih _ _ r h
      exact ⟨y, List.mem_cons_of_mem _ hy, hy2⟩
    | ev e =>
      simp only [histAux] at h
      obtain ⟨y, hy, hy2⟩ := ih _ _ r h
      exact ⟨y, List.mem_cons_of_mem _ hy, hy2⟩
    | ret rv =>
      simp only [histAux] at h
      cases hp : pend t with
      | none =>
        simp only [hp] at h
        obtain ⟨y, hy, hy2⟩ := ih _ _ r h
        exact ⟨y, List.mem_cons_of_mem _ hy, hy2⟩
      | some q =>
        obtain ⟨op, k⟩ := q
        simp only [hp, List.mem_cons] at h
        rcases h with h | h
        · subst h; exact ⟨_, List.mem_cons_self, rfl⟩
        · obtain ⟨y, hy, hy2⟩ := ih _ _ r h
          exact ⟨y, List.mem_cons_of_mem _ hy, hy2⟩

/-- Scan of the observations of one thread `t0`: the records do not overlap. -/
theorem histAux_sequential (t0 : Tid) : ∀ (os : List (Tid × Obs)) (i : Nat) (pend : Pend),
    (∀ x ∈ os, x.1 = t0) → (∀ op k, pend t0 = some (op, k) → k < i) →
    Sequential (histAux i pend os) := by
  intro os
  induction os with
  | nil => intro i pend _ _; simp only [histAux]; exact sequential_nil
  | cons x os ih =>
    intro i pend hall hpend
    obtain ⟨t, o⟩ := x
    have ht : t = t0 := hall (t, o) List.mem_cons_self
    subst ht
    have hall' : ∀ x ∈ os, x.1 = t := fun x hx => hall x (List.mem_cons_of_mem _ hx)
    cases o with
    | call op =>
      simp only [histAux]
      refine ih _ _ hall' ?_
      intro op' k hk
      simp only [upd_same, Option.some.injEq, Prod.mk.injEq] at hk
      omega
    | ev e =>
      simp only [histAux]
      exact ih _ _ hall' (fun op' k hk => Nat.lt_succ_of_lt (hpend op' k hk))
    | ret rv =>
      simp only [histAux]
      cases hp : pend t with
      | none =>
        simp only []
        exact ih _ _ hall' (fun op' k hk => Nat.lt_succ_of_lt (hpend op' k hk))
      | some q =>
        obtain ⟨op, k⟩ := q
        simp only []
        have hrest : Sequential (histAux (i + 1) (upd pend t none) os) :=
          ih _ _ hall' (fun op' k' hk => by simp at hk)
        have hk : k < i := hpend op k hp
        refine ⟨List.Pairwise.cons ?_ hrest.1, ?_⟩
        · intro b hb
          obtain ⟨h1, h2⟩ := histAux_stamps os _ _ b hb
          obtain ⟨y, hy, hy2⟩ := histAux_tid os _ _ b hb
          have hbt : b.tid = t := by rw [← hy2]; exact hall' y hy
          rcases h2 with h2 | h2
          · show i < b.inv; omega
          · rw [hbt] at h2; simp at h2
        · intro o ho
          rcases List.mem_cons.mp ho with ho | ho
          · subst ho; show k ≤ i; omega
          · exact hrest.2 o ho

/-- **Single-threaded observations give a sequential history.** -/
theorem historyOf_sequential (os : List (Tid × Obs)) (t0 : Tid) (h : ∀ x ∈ os, x.1 = t0) :
    Sequential (historyOf os) :=
  histAux_sequential t0 os 0 _ h (fun op k hk => by simp at hk)

/-! ### Runs of a machine under a single-threaded schedule -/

section Machine
variable {σ : Type}

/-- The observations of a run carry the thread ids of the schedule. -/
theorem run_tids (m : Model σ) : ∀ (sched : List (Tid × Act)) (s s' : σ) (os : List (Tid × Obs)),
    m.run s sched = some (s', os) → os.map (·.1) = sched.map (·.1) := by
  intro sched
  induction sched with
  | nil => intro s s' os h; simp [Model.run] at h; simp [← h.2]
  | cons x rest ih =>
    intro s s' os h
    obtain ⟨t, a⟩ := x
    simp only [Model.run] at h
    cases hap : m.apply s t a with
    | none => simp [hap] at h
    | some p =>
      obtain ⟨s1, o⟩ := p
      simp only [hap] at h
      cases hrr : m.run s1 rest with
      | none => simp [hrr] at h
      | some q =>
        obtain ⟨s2, os2⟩ := q
        simp only [hrr, Option.some.injEq, Prod.mk.injEq] at h
        rw [← h.2]
        simp [ih s1 s2 os2 hrr]

theorem run_single_thread (m : Model σ) (sched : List (Tid × Act)) (s s' : σ) (os : List (Tid × Obs))
    (h : m.run s sched = some (s', os)) (t0 : Tid) (hst : ∀ x ∈ sched, x.1 = t0) : ∀ x ∈ os, x.1 = t0 := by
  intro x hx
  have h1 : x.1 ∈ os.map (·.1) := List.mem_map_of_mem hx
  rw [run_tids m sched s s' os h] at h1
  obtain ⟨y, hy, hy2⟩ := List.mem_map.mp h1
  rw [← hy2]; exact hst y hy

/-- **A single-threaded run yields a sequential history** (whatever the machine). -/
theorem run_history_sequential (m : Model σ) (sched : List (Tid × Act)) (s s' : σ) (os : List (Tid × Obs))
    (h : m.run s sched = some (s', os)) (t0 : Tid) (hst : ∀ x ∈ sched, x.1 = t0) :
    Sequential (historyOf os) :=
  historyOf_sequential os t0 (run_single_thread m sched s s' os h t0 hst)

/-- The call protocol of a machine, in terms of a predicate "thread `t` is idle in state `s`". -/
structure Protocol (m : Model σ) (idle : σ → Tid → Prop) : Prop where
  invoke : ∀ s t op s', m.invoke s t op = some s' → idle s t ∧ ¬ idle s' t
  step : ∀ s t s' e, m.step s t = some (s', e) → (idle s' t ↔ idle s t)
  result : ∀ s t s' r, m.result s t = some (s', r) → ¬ idle s t ∧ idle s' t
  frame : ∀ s t a s' o u, m.apply s t a = some (s', o) → u ≠ t → (idle s' u ↔ idle s u)

/-- The usual way to establish the protocol: the machine state has a program counter per thread, `idl` is the
    counter of an idle thread, and an action of `t` changes the counter of `t` only. -/
theorem Protocol.ofPC {PC : Type} (m : Model σ) (pc : σ → Tid → PC) (idl : PC)
    (hinv : ∀ s t op s', m.invoke s t op = some s' →
      pc s t = idl ∧ pc s' t ≠ idl ∧ ∀ u, u ≠ t → pc s' u = pc s u)
    (hstep : ∀ s t s' e, m.step s t = some (s', e) →
      pc s t ≠ idl ∧ pc s' t ≠ idl ∧ ∀ u, u ≠ t → pc s' u = pc s u)
    (hres : ∀ s t s' r, m.result s t = some (s', r) →
      pc s t ≠ idl ∧ pc s' t = idl ∧ ∀ u, u ≠ t → pc s' u = pc s u) :
    Protocol m (fun s t => pc s t = idl) where
  invoke := fun s t op s' h => ⟨(hinv s t op s' h).1, (hinv s t op s' h).2.1⟩
  step := fun s t s' e h => ⟨fun h1 => absurd h1 (hstep s t s' e h).2.1, fun h1 => absurd h1 (hstep s t s' e h).1⟩
  result := fun s t s' r h => ⟨(hres s t s' r h).1, (hres s t s' r h).2.1⟩
  frame := by
    intro s t a s' o u h hu
    cases a with
    | invoke op =>
      simp only [Model.apply, Option.map_eq_some_iff] at h
      obtain ⟨s1, hi, he⟩ := h
      simp only [Prod.mk.injEq] at he
      obtain ⟨he1, -⟩ := he
      subst he1
      show pc s1 u = idl ↔ pc s u = idl
      rw [(hinv s t op s1 hi).2.2 u hu]
    | step =>
      simp only [Model.apply, Option.map_eq_some_iff] at h
      obtain ⟨r, hi, he⟩ := h
      obtain ⟨s1, e⟩ := r
      simp only [Prod.mk.injEq] at he
      obtain ⟨he1, -⟩ := he
      subst he1
      show pc s1 u = idl ↔ pc s u = idl
      rw [(hstep s t s1 e hi).2.2 u hu]
    | ret =>
      simp only [Model.apply, Option.map_eq_some_iff] at h
      obtain ⟨r, hi, he⟩ := h
      obtain ⟨s1, rv⟩ := r
      simp only [Prod.mk.injEq] at he
      obtain ⟨he1, -⟩ := he
      subst he1
      show pc s1 u = idl ↔ pc s u = idl
      rw [(hres s t s1 rv hi).2.2 u hu]

/-- `call, ev*, ret, call, ev*, ret, …`; `busy` says whether an operation is in progress at the start; the list
    ends with no operation in progress. -/
def Bracketed : Prop → List (Tid × Obs) → Prop
  | busy, [] => ¬ busy
  | busy, (_, .call _) :: os => ¬ busy ∧ Bracketed True os
  | busy, (_, .ev _) :: os => Bracketed busy os
  | busy, (_, .ret _) :: os => busy ∧ Bracketed False os

theorem Bracketed.congr {p q : Prop} (hpq : p ↔ q) {os : List (Tid × Obs)} (h : Bracketed p os) : Bracketed q os := by
  have : p = q := propext hpq
  subst this; exact h

/-- A single-threaded run that ends with its thread idle is well bracketed. -/
theorem run_bracketed (m : Model σ) (idle : σ → Tid → Prop) (P : Protocol m idle) (t0 : Tid) :
    ∀ (sched : List (Tid × Act)) (s s' : σ) (os : List (Tid × Obs)),
      m.run s sched = some (s', os) → (∀ x ∈ sched, x.1 = t0) → idle s' t0 → Bracketed (¬ idle s t0) os := by
  intro sched
  induction sched with
  | nil =>
    intro s s' os h _ hid
    simp [Model.run] at h
    obtain ⟨h1, h2⟩ := h
    subst h1; subst h2
    simp only [Bracketed]
    exact fun hn => hn hid
  | cons x rest ih =>
    intro s s' os h hst hid
    obtain ⟨t, a⟩ := x
    have ht : t = t0 := hst (t, a) List.mem_cons_self
    subst ht
    have hst' : ∀ x ∈ rest, x.1 = t := fun x hx => hst x (List.mem_cons_of_mem _ hx)
    simp only [Model.run] at h
    cases hap : m.apply s t a with
    | none => simp [hap] at h
    | some p =>
      obtain ⟨s1, o⟩ := p
      simp only [hap] at h
      cases hrr : m.run s1 rest with
      | none => simp [hrr] at h
      | some q =>
        obtain ⟨s2, os2⟩ := q
        simp only [hrr, Option.some.injEq, Prod.mk.injEq] at h
        obtain ⟨h1, h2⟩ := h
        subst h1; subst h2
        have hrec := ih s1 s2 os2 hrr hst' hid
        cases a with
        | invoke op =>
          simp only [Model.apply, Option.map_eq_some_iff] at hap
          obtain ⟨s1', hi, he⟩ := hap
          simp only [Prod.mk.injEq] at he
          obtain ⟨he1, he2⟩ := he
          subst he1; subst he2
          obtain ⟨p1, p2⟩ := P.invoke s t op s1' hi
          exact ⟨fun hn => hn p1, hrec.congr ⟨fun _ => trivial, fun _ => p2⟩⟩
        | step =>
          simp only [Model.apply, Option.map_eq_some_iff] at hap
          obtain ⟨r, hi, he⟩ := hap
          obtain ⟨s1', e⟩ := r
          simp only [Prod.mk.injEq] at he
          obtain ⟨he1, he2⟩ := he
          subst he1; subst he2
          have p1 := P.step s t s1' e hi
          exact hrec.congr (not_congr p1)
        | ret =>
          simp only [Model.apply, Option.map_eq_some_iff] at hap
          obtain ⟨r, hi, he⟩ := hap
          obtain ⟨s1', rv⟩ := r
          simp only [Prod.mk.injEq] at he
          obtain ⟨he1, he2⟩ := he
          subst he1; subst he2
          obtain ⟨p1, p2⟩ := P.result s t s1' rv hi
          exact ⟨p1, hrec.congr ⟨fun hn => hn p2, fun hf => hf.elim⟩⟩

/-- Threads that are never scheduled keep their status. -/
theorem run_frame (m : Model σ) (idle : σ → Tid → Prop) (P : Protocol m idle) (t0 u : Tid) (hu : u ≠ t0) :
    ∀ (sched : List (Tid × Act)) (s s' : σ) (os : List (Tid × Obs)),
      m.run s sched = some (s', os) → (∀ x ∈ sched, x.1 = t0) → (idle s' u ↔ idle s u) := by
  intro sched
  induction sched with
  | nil =>
    intro s s' os h _
    simp [Model.run] at h
    rw [h.1]
  | cons x rest ih =>
    intro s s' os h hst
    obtain ⟨t, a⟩ := x
    have ht : t = t0 := hst (t, a) List.mem_cons_self
    subst ht
    have hst' : ∀ x ∈ rest, x.1 = t := fun x hx => hst x (List.mem_cons_of_mem _ hx)
    simp only [Model.run] at h
    cases hap : m.apply s t a with
    | none => simp [hap] at h
    | some p =>
      obtain ⟨s1, o⟩ := p
      simp only [hap] at h
      cases hrr : m.run s1 rest with
      | none => simp [hrr] at h
      | some q =>
        obtain ⟨s2, os2⟩ := q
        simp only [hrr, Option.some.injEq, Prod.mk.injEq] at h
        rw [← h.1]
        exact (ih s1 s2 os2 hrr hst').trans (P.frame s t a s1 o u hap hu)

/-- All threads are idle at the end of a single-threaded run from an all-idle state that ends with its thread
    idle. -/
theorem run_all_idle (m : Model σ) (idle : σ → Tid → Prop) (P : Protocol m idle) (t0 : Tid)
    (sched : List (Tid × Act)) (s s' : σ) (os : List (Tid × Obs)) (h : m.run s sched = some (s', os))
    (hst : ∀ x ∈ sched, x.1 = t0) (h0 : ∀ u, idle s u) (hid : idle s' t0) : ∀ u, idle s' u := by
  intro u
  by_cases hu : u = t0
  · subst hu; exact hid
  · exact (run_frame m idle P t0 u hu sched s s' os h hst).mpr (h0 u)

end Machine

/-- The history of a well-bracketed single-threaded observation list has one record per `ret`, carrying the
    operations of the `call`s and the results of the `ret`s, in order. -/
theorem histAux_bracketed (t0 : Tid) : ∀ (os : List (Tid × Obs)) (i : Nat) (pend : Pend),
    (∀ x ∈ os, x.1 = t0) → Bracketed ((pend t0).isSome = true) os →
    (histAux i pend os).map (·.op) = ((pend t0).map (·.1)).toList ++ callsOf os ∧
    (histAux i pend os).map (·.ret) = retsOf os := by
  intro os
  induction os with
  | nil =>
    intro i pend _ hb
    simp only [Bracketed] at hb
    cases hp : pend t0 with
    | none => simp [histAux, callsOf, retsOf]
    | some q => simp [hp] at hb
  | cons x os ih =>
    intro i pend hall hb
    obtain ⟨t, o⟩ := x
    have ht : t = t0 := hall (t, o) List.mem_cons_self
    subst ht
    have hall' : ∀ x ∈ os, x.1 = t := fun x hx => hall x (List.mem_cons_of_mem _ hx)
    cases o with
    | call op =>
      simp only [Bracketed] at hb
      obtain ⟨hb1, hb2⟩ := hb
      have hp : pend t = none := by
        cases hp : pend t with
        | none => rfl
        | some q => simp [hp] at hb1
      have := ih (i + 1) (upd pend t (some (op, i))) hall' (hb2.congr (by simp))
      simp only [histAux, callsOf, retsOf, hp]
      simpa using this
    | ev e =>
      simp only [Bracketed] at hb
      have := ih (i + 1) pend hall' hb
      simp only [histAux, callsOf, retsOf]
      exact this
    | ret rv =>
      simp only [Bracketed] at hb
      obtain ⟨hb1, hb2⟩ := hb
      cases hp : pend t with
      | none => simp [hp] at hb1
      | some q =>
        obtain ⟨op, k⟩ := q
        have := ih (i + 1) (upd pend t none) hall' (hb2.congr (by simp))
        simp only [histAux, callsOf, retsOf, hp]
        simpa using this

theorem historyOf_ops (os : List (Tid × Obs)) (t0 : Tid) (h : ∀ x ∈ os, x.1 = t0) (hb : Bracketed False os) :
    (historyOf os).map (·.op) = callsOf os := by
  have := (histAux_bracketed t0 os 0 (fun _ => none) h (hb.congr (by simp))).1
  simpa [historyOf] using this

theorem historyOf_rets (os : List (Tid × Obs)) (t0 : Tid) (h : ∀ x ∈ os, x.1 = t0) (hb : Bracketed False os) :
    (historyOf os).map (·.ret) = retsOf os :=
  (histAux_bracketed t0 os 0 (fun _ => none) h (hb.congr (by simp))).2

/-! ### 3. The glue -/

/-- **From linearizability to sequential semantics.**  Let a machine follow the call protocol, and let its
    complete runs from `s0` be linearizable to the deterministic object `(init, step)`.  Then in every
    single-threaded run from `s0` (all threads idle) at whose end the thread is idle, the results returned are
    exactly the results of the sequential object run over the operations called. -/
theorem sequential_run_spec {σ τ : Type} (m : Model σ) (idle : σ → Tid → Prop) (P : Protocol m idle)
    (init : τ) (step : τ → GOp → Option (τ × GRet)) (s0 : σ) (h0 : ∀ u, idle s0 u)
    (hlin : ∀ sched s os, m.run s0 sched = some (s, os) → (∀ u, idle s u) →
      Linearizable (detSpec init step) (historyOf os))
    (t0 : Tid) (sched : List (Tid × Act)) (s : σ) (os : List (Tid × Obs))
    (h : m.run s0 sched = some (s, os)) (hst : ∀ x ∈ sched, x.1 = t0) (hid : idle s t0) :
    specRun step init (callsOf os) = some (retsOf os) := by
  have hall := run_single_thread m sched s0 s os h t0 hst
  have hseq := historyOf_sequential os t0 hall
  have hidle := run_all_idle m idle P t0 sched s0 s os h hst h0 hid
  have hb : Bracketed False os :=
    (run_bracketed m idle P t0 sched s0 s os h hst hid).congr ⟨fun hn => hn (h0 t0), fun hf => hf.elim⟩
  have := (linearizable_iff_specRun init step _ hseq).mp (hlin sched s os h hidle)
  rw [historyOf_ops os t0 hall hb, historyOf_rets os t0 hall hb] at this
  exact this

/-- Renaming of the operations of the `call` observations (machines whose client operations carry inputs that are
    not part of the abstract operation, e.g. the back-off schedule of the elimination stack). -/
def mapCall (f : GOp → GOp) : Tid × Obs → Tid × Obs
  | (t, .call op) => (t, .call (f op))
  | (t, .ev e) => (t, .ev e)
  | (t, .ret r) => (t, .ret r)

theorem mapCall_tid (f : GOp → GOp) (x : Tid × Obs) : (mapCall f x).1 = x.1 := by
  obtain ⟨t, o⟩ := x; cases o <;> rfl

theorem callsOf_mapCall (f : GOp → GOp) : ∀ os : List (Tid × Obs), callsOf (os.map (mapCall f)) = (callsOf os).map f := by
  intro os
  induction os with
  | nil => rfl
  | cons x os ih =>
    obtain ⟨t, o⟩ := x
    cases o <;> simp [mapCall, callsOf, ih]

theorem retsOf_mapCall (f : GOp → GOp) : ∀ os : List (Tid × Obs), retsOf (os.map (mapCall f)) = retsOf os := by
  intro os
  induction os with
  | nil => rfl
  | cons x os ih =>
    obtain ⟨t, o⟩ := x
    cases o <;> simp [mapCall, retsOf, ih]

theorem Bracketed.mapCall (f : GOp → GOp) : ∀ (os : List (Tid × Obs)) (p : Prop), Bracketed p os →
    Bracketed p (os.map (SeqHistory.mapCall f)) := by
  intro os
  induction os with
  | nil => intro p h; exact h
  | cons x os ih =>
    intro p h
    obtain ⟨t, o⟩ := x
    cases o with
    | call op => exact ⟨h.1, ih _ h.2⟩
    | ev e => exact ih _ h
    | ret r => exact ⟨h.1, ih _ h.2⟩

/-- `sequential_run_spec` for machines whose history renames the operations by `f`. -/
theorem sequential_run_spec_map {σ τ : Type} (m : Model σ) (idle : σ → Tid → Prop) (P : Protocol m idle)
    (init : τ) (step : τ → GOp → Option (τ × GRet)) (f : GOp → GOp) (s0 : σ) (h0 : ∀ u, idle s0 u)
    (hlin : ∀ sched s os, m.run s0 sched = some (s, os) → (∀ u, idle s u) →
      Linearizable (detSpec init step) (historyOf (os.map (mapCall f))))
    (t0 : Tid) (sched : List (Tid × Act)) (s : σ) (os : List (Tid × Obs))
    (h : m.run s0 sched = some (s, os)) (hst : ∀ x ∈ sched, x.1 = t0) (hid : idle s t0) :
    specRun step init ((callsOf os).map f) = some (retsOf os) := by
  have hall := run_single_thread m sched s0 s os h t0 hst
  have hall' : ∀ x ∈ os.map (mapCall f), x.1 = t0 := by
    intro x hx
    obtain ⟨y, hy, rfl⟩ := List.mem_map.mp hx
    rw [mapCall_tid]; exact hall y hy
  have hseq := historyOf_sequential _ t0 hall'
  have hidle := run_all_idle m idle P t0 sched s0 s os h hst h0 hid
  have hb : Bracketed False os :=
    (run_bracketed m idle P t0 sched s0 s os h hst hid).congr ⟨fun hn => hn (h0 t0), fun hf => hf.elim⟩
  have hb' := Bracketed.mapCall f os _ hb
  have := (linearizable_iff_specRun init step _ hseq).mp (hlin sched s os h hidle)
  rw [historyOf_ops _ t0 hall' hb', historyOf_rets _ t0 hall' hb', callsOf_mapCall, retsOf_mapCall] at this
  exact this

/-- The weaker, protocol-free form: the records of the history carry the results of the specification. -/
theorem sequential_run_spec_hist {σ τ : Type} (m : Model σ) (init : τ) (step : τ → GOp → Option (τ × GRet))
    (s0 : σ) (t0 : Tid) (sched : List (Tid × Act)) (s : σ) (os : List (Tid × Obs))
    (h : m.run s0 sched = some (s, os)) (hst : ∀ x ∈ sched, x.1 = t0)
    (hlin : Linearizable (detSpec init step) (historyOf os)) :
    Sequential (historyOf os) ∧
      specRun step init ((historyOf os).map (·.op)) = some ((historyOf os).map (·.ret)) := by
  have hseq := run_history_sequential m sched s0 s os h t0 hst
  exact ⟨hseq, (linearizable_iff_specRun init step _ hseq).mp hlin⟩

/-! ### Helpers for the concrete examples: a single-threaded schedule generated by the machine itself -/

section Drive
variable {σ : Type}

/-- Thread `t` invokes `op`, steps until `result` is enabled (at most `fuel` steps), and returns. -/
def driveSteps (m : Model σ) (t : Tid) : Nat → σ → Option (σ × List (Tid × Act))
  | 0, s => (m.result s t).map (fun r => (r.1, [(t, Act.ret)]))
  | fuel + 1, s =>
    match m.result s t with
    | some r => some (r.1, [(t, Act.ret)])
    | none =>
      match m.step s t with
      | none => none
      | some r => (driveSteps m t fuel r.1).map (fun q => (q.1, (t, Act.step) :: q.2))

/-- The single-threaded schedule that executes `ops` one after the other on thread `t`. -/
def seqSched (m : Model σ) (t : Tid) (fuel : Nat) : σ → List GOp → List (Tid × Act)
  | _, [] => []
  | s, op :: ops =>
    match m.invoke s t op with
    | none => []
    | some s1 =>
      match driveSteps m t fuel s1 with
      | none => []
      | some (s2, acts) => (t, Act.invoke op) :: acts ++ seqSched m t fuel s2 ops

/-- What the examples look at: is the thread idle at the end, the operations called, the results returned. -/
def seqDemo (m : Model σ) (isIdle : σ → Bool) (s0 : σ) (sched : List (Tid × Act)) :
    Option (Bool × List GOp × List GRet) :=
  (m.run s0 sched).map (fun r => (isIdle r.1, callsOf r.2, retsOf r.2))

end Drive

end CdsVerif.SeqHistory

/-
  C12 — history-level statement for the typed single-producer / single-consumer `WeakRingBuffer`
  (cds/container/weak_ringbuffer.h): the values RETURNED to the clients are those of a bounded FIFO queue.
  Property theorems only; the construction lives in `Algo/Ring/Lin.lean` (model `Algo/Ring/Model.lean`,
  invariant `Algo/Ring/Inv.lean`, both unchanged).

  The theorems of `Props/C12.lean` are stated on ghost fields of the machine state (`pushed`, `popped`, buffer
  cells).  Here: for EVERY run of the machine (producer = thread 0, consumer = thread 1, any client program, any
  schedule, any capacity `cap ≥ 1`) the history of calls and results, completed with the pending operations that
  have passed their linearization point, is Herlihy–Wing linearizable
    * to `Ring.ringSpec cap` — the bounded FIFO with all-or-nothing batches — for arbitrary programs
      (`C12_ring_linearizable_batches`), and
    * to `Spec.bfifo cap` for programs of single-element operations, operations renamed to the vocabulary of
      `bfifo` by `Ring.specRec` (`push v ↦ enq v`, `pop` / `pop 1` / `popn 1` / `popf ↦ deq`, `front ↦ front`)
      (`C12_ring_linearizable`): push fails iff the queue is full at its linearization point, pop / front fail
      iff it is empty.
  Linearization points: push = the `back_` store (failing push = the re-load of `front_` that still shows the
  buffer full); pop = the `front_` store (failing pop / front = the re-load of `back_` that still shows it empty);
  successful `front` = the load after which it reads the cell.  `bfifo` has no batch operations, hence the
  hypothesis `SingleOps` in the `bfifo` form; nothing else is assumed, nothing is partial.

  Assumptions of the model (not proved here): counters do not wrap; sequentially consistent interleaving of the
  atomic operations on `front_` / `back_`; exactly one producer and one consumer thread.
-/
import CdsVerif.Algo.Ring.Lin
namespace CdsVerif.Props.C12RingLin
open CdsVerif.Machine CdsVerif.Lin CdsVerif.Spec CdsVerif.Algo CdsVerif.Algo.QueueLin

/-- Linearizability to the bounded FIFO queue (Herlihy–Wing with completion of pending operations).  For every
    capacity `cap ≥ 1` and every run whose program consists of single-element operations, the history of the
    completed operations — extended by response records `extra` for the pending operations that have passed their
    linearization point (at most one per thread; each is an operation pending in `os`, completed with the result
    fixed at its linearization point and the response time "end of run"), all other pending operations being
    dropped — is, after renaming the operations to the vocabulary of `bfifo`, linearizable to `bfifo cap`, failed
    pushes and pops included. -/
theorem C12_ring_linearizable (cap : Nat) (hcap : 0 < cap) (sched : List (Tid × Act)) (s : Ring.St)
    (os : List (Tid × Obs)) (h : Ring.model.run (Ring.init cap) sched = some (s, os)) (hsingle : Ring.SingleOps os) :
    ∃ extra : List (OpRec GOp GRet),
      (∀ e ∈ extra, pendingOf os e.tid = some (e.op, e.inv) ∧ e.res = os.length ∧
          Ring.lpRet s e.tid = some e.ret) ∧
      extra.Pairwise (fun a b => a.tid ≠ b.tid) ∧
      Linearizable (bfifo cap) ((historyOf os ++ extra).map Ring.specRec) :=
  Ring.ring_linearizable_bfifo cap hcap sched s os h hsingle

/-- Runs in which every invoked operation has returned: the history is linearizable as it is. -/
theorem C12_ring_linearizable_complete_runs (cap : Nat) (hcap : 0 < cap) (sched : List (Tid × Act)) (s : Ring.St)
    (os : List (Tid × Obs)) (h : Ring.model.run (Ring.init cap) sched = some (s, os)) (hsingle : Ring.SingleOps os)
    (hp : s.pp = .idle) (hc : s.cp = .idle) :
    Linearizable (bfifo cap) ((historyOf os).map Ring.specRec) :=
  Ring.ring_linearizable_bfifo_complete_runs cap hcap sched s os h hsingle hp hc

/-- More generally: runs at whose end no thread is between its linearization point and its return. -/
theorem C12_ring_linearizable_no_effect_pending (cap : Nat) (hcap : 0 < cap) (sched : List (Tid × Act))
    (s : Ring.St) (os : List (Tid × Obs)) (h : Ring.model.run (Ring.init cap) sched = some (s, os))
    (hsingle : Ring.SingleOps os) (hq : ∀ t, Ring.lpRet s t = none) :
    Linearizable (bfifo cap) ((historyOf os).map Ring.specRec) :=
  Ring.ring_linearizable_bfifo_no_effect_pending cap hcap sched s os h hsingle hq

/-- The general form, batches included, in the machine's own vocabulary: ANY program (`push v1 … vk`, `pushn`,
    `pop k`, `popn k`, `front`, `popf`) is linearizable to `Ring.ringSpec cap`: a push of `k` elements succeeds iff
    `k` cells are free at its linearization point and then appends all `k`; a pop of `k` elements succeeds iff `k`
    elements are present and then removes and returns the `k` oldest. -/
theorem C12_ring_linearizable_batches (cap : Nat) (hcap : 0 < cap) (sched : List (Tid × Act)) (s : Ring.St)
    (os : List (Tid × Obs)) (h : Ring.model.run (Ring.init cap) sched = some (s, os)) :
    ∃ extra : List (OpRec GOp GRet),
      (∀ e ∈ extra, pendingOf os e.tid = some (e.op, e.inv) ∧ e.res = os.length ∧
          Ring.lpRet s e.tid = some e.ret) ∧
      extra.Pairwise (fun a b => a.tid ≠ b.tid) ∧
      Linearizable (Ring.ringSpec cap) (historyOf os ++ extra) :=
  Ring.ring_linearizable cap hcap sched s os h

/-- `historyOf` is faithful: a record's `inv` / `res` are the positions of its call and return observations, its
    result is the value returned to the client. -/
theorem C12_ring_history_sound (os : List (Tid × Obs)) (r : OpRec GOp GRet) (h : r ∈ historyOf os) :
    os[r.inv]? = some (r.tid, .call r.op) ∧ os[r.res]? = some (r.tid, .ret r.ret) ∧ r.inv < r.res :=
  historyOf_sound os r h

/-- The renaming touches only the operation name: thread, result and the two instants are kept. -/
theorem C12_ring_specRec (r : OpRec GOp GRet) :
    (Ring.specRec r).tid = r.tid ∧ (Ring.specRec r).ret = r.ret ∧ (Ring.specRec r).inv = r.inv ∧
    (Ring.specRec r).res = r.res := ⟨rfl, rfl, rfl, rfl⟩

/-- A failing operation fails at its linearization point, for the right reason.  If a completed operation returned
    `[0]`, there is an instant `j` strictly between its call and its return such that in the state `s1` reached by
    the first `j` actions of the run the calling thread is about to perform the load that makes it fail: the
    producer's re-load of `front_`, with fewer than `count` free cells in the abstract queue (`count = 1`: the queue
    holds `cap` elements — full); the consumer's re-load of `back_`, with fewer than the needed elements in the
    abstract queue (`need = 1`: the queue is empty). -/
theorem C12_ring_fail_at_lp (cap : Nat) (hcap : 0 < cap) (sched : List (Tid × Act)) (s : Ring.St)
    (os : List (Tid × Obs)) (h : Ring.model.run (Ring.init cap) sched = some (s, os)) (r : OpRec GOp GRet)
    (hr : r ∈ historyOf os) (hret : r.ret = [0]) :
    ∃ j s1, r.inv < j ∧ j < r.res ∧ Ring.model.run (Ring.init cap) (sched.take j) = some (s1, os.take j) ∧
      ((r.tid = 0 ∧ ∃ vs b, s1.pp = .ldFront vs b ∧ cap < (Ring.absQ s1).length + vs.length) ∨
       (r.tid = 1 ∧ ∃ op f, s1.cp = .ldBack op f ∧ (Ring.absQ s1).length < Ring.need op)) :=
  Ring.ring_fail_hindsight cap hcap sched s os h r hr hret

/-- The abstract queue is the content of the live cells. -/
theorem C12_ring_absQ_cells (cap : Nat) (hcap : 0 < cap) (s : Ring.St)
    (h : Ring.model.Reachable (Ring.init cap) s) :
    Ring.absQ s = Ring.readCells s.buf s.cap s.front (s.back - s.front) := by
  have hi := Ring.inv_reachable cap hcap s h
  rw [Ring.buffer_content s hi, Ring.absQ, hi.front_eq]

/-! ### Non-vacuity: capacity 2, a failing push on the full buffer and a pop racing with a push -/

/-- `push 7`, `push 8` fill the buffer; `push 9` re-loads `front_`, finds the buffer full and fails.  The consumer's
    `pop` starts (loads `front_`, re-loads `back_`); the producer's second `push 9` starts, finds its cached
    `pfront_` stale (`ld back 2`); the pop's `front_` store (its linearization point) lands; the producer's re-load
    of `front_` now sees a free cell and the push succeeds (cell 0: the wrap).  Finally `front` peeks at 8. -/
def raceSched : List (Tid × Act) :=
  [(0, .invoke ⟨"push", [7]⟩), (0, .step), (0, .step), (0, .ret),
   (0, .invoke ⟨"push", [8]⟩), (0, .step), (0, .step), (0, .ret),
   (0, .invoke ⟨"push", [9]⟩), (0, .step), (0, .step), (0, .ret),
   (1, .invoke ⟨"pop", []⟩), (1, .step), (1, .step),
   (0, .invoke ⟨"push", [9]⟩), (0, .step),
   (1, .step),
   (0, .step), (0, .step),
   (0, .ret), (1, .ret),
   (1, .invoke ⟨"front", []⟩), (1, .step), (1, .ret)]

set_option synthInstance.maxSize 2000 in
/-- The observations of the race, and the final state. -/
example : (Ring.model.run (Ring.init 2) raceSched).map
      (fun p => (p.2.drop 8, p.1.pp, p.1.cp, Ring.absQ p.1, [p.1.buf 0, p.1.buf 1]))
    = some ([(0, .call ⟨"push", [9]⟩),
             (0, .ev ⟨"ld", "back", "2", ""⟩),
             (0, .ev ⟨"ld", "front", "0", ""⟩),       -- 0 + 2 - 2 < 1: full, LP of the failing push
             (0, .ret [0]),
             (1, .call ⟨"pop", []⟩),
             (1, .ev ⟨"ld", "front", "0", ""⟩),
             (1, .ev ⟨"ld", "back", "2", ""⟩),
             (0, .call ⟨"push", [9]⟩),
             (0, .ev ⟨"ld", "back", "2", ""⟩),
             (1, .ev ⟨"st", "front", "1", ""⟩),       -- LP of the pop
             (0, .ev ⟨"ld", "front", "1", ""⟩),       -- 1 + 2 - 2 ≥ 1: a cell is free
             (0, .ev ⟨"st", "back", "3", ""⟩),        -- LP of the push
             (0, .ret [1]),
             (1, .ret [1, 7]),
             (1, .call ⟨"front", []⟩),
             (1, .ev ⟨"ld", "front", "1", ""⟩),       -- LP of front
             (1, .ret [1, 8])],
            .idle, .idle, [8, 9], [9, 8]) := by
  decide +kernel

set_option synthInstance.maxSize 2000 in
/-- The history of that run in the vocabulary of `bfifo`. -/
theorem race_history : (Ring.model.run (Ring.init 2) raceSched).map
      (fun p => ((historyOf p.2).map Ring.specRec, p.1.pp, p.1.cp, Ring.singleOpsB p.2))
    = some ([⟨0, ⟨"enq", [7]⟩, [1], 0, 3⟩, ⟨0, ⟨"enq", [8]⟩, [1], 4, 7⟩, ⟨0, ⟨"enq", [9]⟩, [0], 8, 11⟩,
             ⟨0, ⟨"enq", [9]⟩, [1], 15, 20⟩, ⟨1, ⟨"deq", []⟩, [1, 7], 12, 21⟩, ⟨1, ⟨"front", []⟩, [1, 8], 22, 24⟩],
            .idle, .idle, true) := by
  decide +kernel

/-- The theorem applied to that run: its history is linearizable to `bfifo 2`. -/
example : Linearizable (bfifo 2)
    [⟨0, ⟨"enq", [7]⟩, [1], 0, 3⟩, ⟨0, ⟨"enq", [8]⟩, [1], 4, 7⟩, ⟨0, ⟨"enq", [9]⟩, [0], 8, 11⟩,
     ⟨0, ⟨"enq", [9]⟩, [1], 15, 20⟩, ⟨1, ⟨"deq", []⟩, [1, 7], 12, 21⟩, ⟨1, ⟨"front", []⟩, [1, 8], 22, 24⟩] := by
  have hh := race_history
  cases hr : Ring.model.run (Ring.init 2) raceSched with
  | none => rw [hr] at hh; simp at hh
  | some p =>
    obtain ⟨s, os⟩ := p
    rw [hr] at hh
    simp only [Option.map_some, Option.some.injEq, Prod.mk.injEq] at hh
    obtain ⟨h1, h2, h3, h4⟩ := hh
    rw [← h1]
    exact C12_ring_linearizable_complete_runs 2 (by decide) raceSched s os hr (Ring.singleOps_of_check os h4) h2 h3

/-- Cross-check with the executable checker; and the failing push is essential: the same history with the failing
    `enq 9` answered `[1]` is not linearizable to `bfifo 2`. -/
example : linCheck (bfifo 2)
    [⟨0, ⟨"enq", [7]⟩, [1], 0, 3⟩, ⟨0, ⟨"enq", [8]⟩, [1], 4, 7⟩, ⟨0, ⟨"enq", [9]⟩, [0], 8, 11⟩,
     ⟨0, ⟨"enq", [9]⟩, [1], 15, 20⟩, ⟨1, ⟨"deq", []⟩, [1, 7], 12, 21⟩, ⟨1, ⟨"front", []⟩, [1, 8], 22, 24⟩] = true := by
  decide +kernel

example : linCheck (bfifo 2)
    [⟨0, ⟨"enq", [7]⟩, [1], 0, 3⟩, ⟨0, ⟨"enq", [8]⟩, [1], 4, 7⟩, ⟨0, ⟨"enq", [9]⟩, [1], 8, 11⟩,
     ⟨0, ⟨"enq", [9]⟩, [1], 15, 20⟩, ⟨1, ⟨"deq", []⟩, [1, 7], 12, 21⟩, ⟨1, ⟨"front", []⟩, [1, 8], 22, 24⟩] = false := by
  decide +kernel

end CdsVerif.Props.C12RingLin

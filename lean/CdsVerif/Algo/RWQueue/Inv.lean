/-
  Structural invariant of the RWQueue (two-lock queue) model, lock discipline and refinement of the abstract queue.

  * `Chain s.next (some s.head) l` : following `next` from `m_Head.ptr` visits exactly the nodes `l` (the first one
    is the current dummy) and then null; `absQueue s` : the values of the nodes strictly after `m_Head.ptr`.
  * Lock discipline: the threads between a successful `try_lock` and the unlocking store of `m_Tail.lock`
    (`holdsT`) are at most one, and then the lock word is set; likewise `m_Head.lock` (`holdsH`).
  * `m_Tail.ptr` is the last node of the chain whenever the tail lock is free or its holder has not linked its node
    yet; between the linking store and the unlock (`enqUnlock n`) the last node is the holder's node `n` and
    `m_Tail.ptr` is stale — it may even have LEFT the chain: a dequeuer can remove the old dummy (the stale
    `m_Tail.ptr`) as soon as the node is linked.  Only the lock holder reads `m_Tail.ptr`, so this is harmless.
  * Linearization points.  `enqueue`: the store `m_Tail.ptr->m_pNext = p`.  Empty `dequeue`: the load of
    `m_Head.ptr->m_pNext` that reads null (the result is definitive: the dequeuer holds the head lock, nobody else
    can move `m_Head.ptr`; an enqueuer may link a node before the dequeuer has unlocked, which is why the
    linearization point is the load and not the unlock).  Non-empty `dequeue`: the step that moves `m_Head.ptr`
    (executed with the unlocking store, see `Model.lean`).
-/
import CdsVerif.Algo.RWQueue.Model
import CdsVerif.Algo.QueueLin.Chain
import CdsVerif.Algo.QueueLin.History
namespace CdsVerif.Algo.RWQueue
open CdsVerif.Machine CdsVerif.Spec CdsVerif.Lin CdsVerif.Algo.QueueLin

def absNodes (s : St) : List Nat := walk s.next s.cnt (some s.head)
def absQueue (s : St) : List Int := (absNodes s).tail.map s.val

/-- The node an enqueuer still owns privately (before the linking store). -/
def enqNode : PC → Option Nat
  | .enqLock n => some n
  | .enqSpin n => some n
  | .enqLink n => some n
  | _ => none

/-- The thread is inside the critical section of `m_Tail.lock`. -/
def holdsT : PC → Bool
  | .enqLink _ => true
  | .enqUnlock _ => true
  | _ => false

/-- The thread is inside the critical section of `m_Head.lock`. -/
def holdsH : PC → Bool
  | .deqRead => true
  | .deqUnlock _ => true
  | _ => false

/-- `a` has been allocated and is not private to an enqueuer. -/
def Pub (s : St) (a : Nat) : Prop := a < s.cnt ∧ ∀ t, enqNode (s.pc t) ≠ some a

structure SInvL (s : St) (l : List Nat) : Prop where
  chain : Chain s.next (some s.head) l
  nodup : l.Nodup
  pub : ∀ a, a ∈ l → Pub s a
  unalloc : ∀ a, s.cnt ≤ a → s.next a = none
  priv : ∀ t n, enqNode (s.pc t) = some n → n < s.cnt ∧ s.next n = none
  own : ∀ t1 t2 n, enqNode (s.pc t1) = some n → enqNode (s.pc t2) = some n → t1 = t2
  tmutex : ∀ t1 t2, holdsT (s.pc t1) = true → holdsT (s.pc t2) = true → t1 = t2
  tlocked : ∀ t, holdsT (s.pc t) = true → s.tlock = true
  hmutex : ∀ t1 t2, holdsH (s.pc t1) = true → holdsH (s.pc t2) = true → t1 = t2
  hlocked : ∀ t, holdsH (s.pc t) = true → s.hlock = true
  tailfree : s.tlock = false → s.tail ∈ l ∧ s.next s.tail = none
  taillink : ∀ t n, s.pc t = .enqLink n → s.tail ∈ l ∧ s.next s.tail = none
  tailu : ∀ t n, s.pc t = .enqUnlock n → n ∈ l ∧ s.next n = none
  dq : ∀ t x, s.pc t = .deqUnlock (some x) → s.next s.head = some x

def SInv (s : St) : Prop := ∃ l, SInvL s l

theorem SInvL.absNodes_eq {s : St} {l : List Nat} (h : SInvL s l) : absNodes s = l :=
  walk_of_chain h.chain (length_le_of_nodup_lt h.nodup (fun a ha => (h.pub a ha).1))

theorem SInvL.absQueue_eq {s : St} {l : List Nat} (h : SInvL s l) : absQueue s = l.tail.map s.val := by
  simp [absQueue, h.absNodes_eq]

theorem SInvL.head_cons {s : St} {l : List Nat} (h : SInvL s l) : ∃ r, l = s.head :: r := by
  have hc := h.chain
  cases l with
  | nil => simp [Chain] at hc
  | cons a r => simp only [Chain, Option.some.injEq] at hc; exact ⟨r, by rw [hc.1]⟩

theorem sinv_init : SInvL init [dummy] := by
  constructor <;> simp [init, Chain, enqNode, holdsT, holdsH, Pub, dummy]

/-! ### Linearization-point bookkeeping on program counters -/

/-- The result of a thread that has passed its linearization point (always for good). -/
def postRet : PC → Option GRet
  | .enqUnlock _ => some [1]
  | .deqUnlock none => some [0]
  | .done r => some r
  | _ => none

/-- The operation a thread is executing, while it has not passed its linearization point. -/
def opOf (val : Nat → Int) : PC → Option GOp
  | .enqLock n => some ⟨"enq", [val n]⟩
  | .enqSpin n => some ⟨"enq", [val n]⟩
  | .enqLink n => some ⟨"enq", [val n]⟩
  | .deqLock => some ⟨"deq", []⟩
  | .deqSpin => some ⟨"deq", []⟩
  | .deqRead => some ⟨"deq", []⟩
  | .deqUnlock (some _) => some ⟨"deq", []⟩
  | _ => none

structure StepEff (s : St) (t : Tid) (s' : St) (l l' : List Nat) : Prop where
  frame : ∀ t2, t2 ≠ t → s'.pc t2 = s.pc t2
  val : s'.val = s.val
  cnt : s'.cnt = s.cnt
  lp : postRet (s.pc t) = none → ∀ r, postRet (s'.pc t) = some r →
        ∃ op, opOf s.val (s.pc t) = some op ∧ fifo.next (l.tail.map s.val) op r = some (l'.tail.map s.val)
  nolp : (postRet (s.pc t) ≠ none ∨ postRet (s'.pc t) = none) → l' = l
  keep : ∀ r, postRet (s.pc t) = some r → postRet (s'.pc t) = some r
  op : postRet (s'.pc t) = none → opOf s'.val (s'.pc t) = opOf s.val (s.pc t)
  emp : postRet (s.pc t) = none → postRet (s'.pc t) = some [0] →
        s.pc t = .deqRead ∧ s.next s.head = none ∧ l = [s.head]

theorem pub_mk (hd tl : Nat) (hl tk : Bool) (nx : Nat → Option Nat) (vl : Nat → Int) (cnt : Nat) (pc : Tid → PC)
    (t : Tid) (pc' : PC) (a : Nat) :
    Pub ⟨hd, tl, hl, tk, nx, vl, cnt, upd pc t pc'⟩ a ↔
      (a < cnt ∧ enqNode pc' ≠ some a ∧ ∀ t2, t2 ≠ t → enqNode (pc t2) ≠ some a) := by
  simp only [Pub, upd]
  constructor
  · intro ⟨h1, h2⟩
    refine ⟨h1, ?_, ?_⟩
    · have := h2 t; simpa using this
    · intro t2 ht; have := h2 t2; simpa [ht] using this
  · intro ⟨h1, h2, h3⟩
    refine ⟨h1, fun t2 => ?_⟩
    by_cases ht : t2 = t
    · simp [ht, h2]
    · simp [ht, h3 t2 ht]

macro "sinv_close" : tactic =>
  `(tactic| (constructor <;> intros <;> (try dsimp only at *) <;>
      grind [upd, Pub, pub_mk, enqNode, holdsT, holdsH, Chain, Chain.upd]))
macro "eff_close" : tactic =>
  `(tactic| (constructor <;> intros <;> (try dsimp only at *) <;>
      grind [upd, postRet, opOf, fifo_enq, fifo_deq_some, fifo_deq_none]))

theorem sinvl_step_enqLock {s s' : St} {t : Tid} {ev : Ev} {l : List Nat} {n : Nat}
    (h : SInvL s l) (hpc : s.pc t = .enqLock n) (hs : step s t = some (s', ev)) :
    ∃ l', SInvL s' l' ∧ StepEff s t s' l l' := by
  obtain ⟨hch, hnd, hpub, hun, hpriv, hown, htm, htl, hhm, hhl, htf, htk, htu, hdq⟩ := h
  simp only [step, hpc] at hs
  split at hs
  next heq =>
    simp at hs; obtain ⟨rfl, -⟩ := hs
    refine ⟨l, ?_, ?_⟩
    · sinv_close
    · eff_close
  next hne =>
    simp at hs; obtain ⟨rfl, -⟩ := hs
    have hfree : s.tlock = false := by simpa using hne
    have hnone : ∀ t2, holdsT (s.pc t2) = false := by
      intro t2; cases hh : holdsT (s.pc t2) with
      | false => rfl
      | true => have := htl t2 hh; rw [hfree] at this; simp at this
    obtain ⟨htin, htn⟩ := htf hfree
    refine ⟨l, ?_, ?_⟩
    · sinv_close
    · eff_close

theorem sinvl_step_enqSpin {s s' : St} {t : Tid} {ev : Ev} {l : List Nat} {n : Nat}
    (h : SInvL s l) (hpc : s.pc t = .enqSpin n) (hs : step s t = some (s', ev)) :
    ∃ l', SInvL s' l' ∧ StepEff s t s' l l' := by
  obtain ⟨hch, hnd, hpub, hun, hpriv, hown, htm, htl, hhm, hhl, htf, htk, htu, hdq⟩ := h
  simp only [step, hpc] at hs
  split at hs
  next heq =>
    simp at hs; obtain ⟨rfl, -⟩ := hs
    refine ⟨l, ?_, ?_⟩
    · sinv_close
    · eff_close
  next hne =>
    simp at hs; obtain ⟨rfl, -⟩ := hs
    refine ⟨l, ?_, ?_⟩
    · sinv_close
    · eff_close

theorem sinvl_step_enqLink {s s' : St} {t : Tid} {ev : Ev} {l : List Nat} {n : Nat}
    (h : SInvL s l) (hpc : s.pc t = .enqLink n) (hs : step s t = some (s', ev)) :
    ∃ l', SInvL s' l' ∧ StepEff s t s' l l' := by
  obtain ⟨r0, hr0⟩ := h.head_cons
  obtain ⟨hch, hnd, hpub, hun, hpriv, hown, htm, htl, hhm, hhl, htf, htk, htu, hdq⟩ := h
  simp only [step, hpc] at hs
  simp at hs; obtain ⟨rfl, -⟩ := hs
  obtain ⟨hal, heq⟩ := htk t n hpc
  have hother : ∀ t2, t2 ≠ t → holdsT (s.pc t2) = false := by
    intro t2 ht2; cases hh : holdsT (s.pc t2) with
    | false => rfl
    | true => exact absurd (htm t2 t hh (by simp [hpc, holdsT])) ht2
  have hlk := htl t (by simp [hpc, holdsT])
  obtain ⟨hnc, hnn⟩ := hpriv t n (by simp [hpc, enqNode])
  have hnl : n ∉ l := fun hm => (hpub n hm).2 t (by simp [hpc, enqNode])
  have hna : n ≠ s.tail := fun e => hnl (e ▸ hal)
  have hch' := Chain.snoc hnn hch hal heq hnl
  have hnd' : (l ++ [n]).Nodup := by
    rw [List.nodup_append]; exact ⟨hnd, by simp, by intro x hx y hy; simp at hy; subst hy; exact fun e => hnl (e ▸ hx)⟩
  have hhd : s.head ∈ l := by rw [hr0]; simp
  refine ⟨l ++ [n], ?_, ?_⟩
  · sinv_close
  · have hlp : fifo.next (l.tail.map s.val) ⟨"enq", [s.val n]⟩ [1] = some ((l ++ [n]).tail.map s.val) := by
      rw [hr0]; simp [fifo_enq]
    eff_close

theorem sinvl_step_enqUnlock {s s' : St} {t : Tid} {ev : Ev} {l : List Nat} {n : Nat}
    (h : SInvL s l) (hpc : s.pc t = .enqUnlock n) (hs : step s t = some (s', ev)) :
    ∃ l', SInvL s' l' ∧ StepEff s t s' l l' := by
  obtain ⟨hch, hnd, hpub, hun, hpriv, hown, htm, htl, hhm, hhl, htf, htk, htu, hdq⟩ := h
  simp only [step, hpc] at hs
  simp at hs; obtain ⟨rfl, -⟩ := hs
  obtain ⟨hnl, hnn⟩ := htu t n hpc
  have hother : ∀ t2, t2 ≠ t → holdsT (s.pc t2) = false := by
    intro t2 ht2; cases hh : holdsT (s.pc t2) with
    | false => rfl
    | true => exact absurd (htm t2 t hh (by simp [hpc, holdsT])) ht2
  refine ⟨l, ?_, ?_⟩
  · sinv_close
  · eff_close

theorem sinvl_step_deqLock {s s' : St} {t : Tid} {ev : Ev} {l : List Nat}
    (h : SInvL s l) (hpc : s.pc t = .deqLock) (hs : step s t = some (s', ev)) :
    ∃ l', SInvL s' l' ∧ StepEff s t s' l l' := by
  obtain ⟨hch, hnd, hpub, hun, hpriv, hown, htm, htl, hhm, hhl, htf, htk, htu, hdq⟩ := h
  simp only [step, hpc] at hs
  split at hs
  next heq =>
    simp at hs; obtain ⟨rfl, -⟩ := hs
    refine ⟨l, ?_, ?_⟩
    · sinv_close
    · eff_close
  next hne =>
    simp at hs; obtain ⟨rfl, -⟩ := hs
    have hfree : s.hlock = false := by simpa using hne
    have hnone : ∀ t2, holdsH (s.pc t2) = false := by
      intro t2; cases hh : holdsH (s.pc t2) with
      | false => rfl
      | true => have := hhl t2 hh; rw [hfree] at this; simp at this
    refine ⟨l, ?_, ?_⟩
    · sinv_close
    · eff_close

theorem sinvl_step_deqSpin {s s' : St} {t : Tid} {ev : Ev} {l : List Nat}
    (h : SInvL s l) (hpc : s.pc t = .deqSpin) (hs : step s t = some (s', ev)) :
    ∃ l', SInvL s' l' ∧ StepEff s t s' l l' := by
  obtain ⟨hch, hnd, hpub, hun, hpriv, hown, htm, htl, hhm, hhl, htf, htk, htu, hdq⟩ := h
  simp only [step, hpc] at hs
  split at hs
  next heq =>
    simp at hs; obtain ⟨rfl, -⟩ := hs
    refine ⟨l, ?_, ?_⟩
    · sinv_close
    · eff_close
  next hne =>
    simp at hs; obtain ⟨rfl, -⟩ := hs
    refine ⟨l, ?_, ?_⟩
    · sinv_close
    · eff_close

theorem sinvl_step_deqRead {s s' : St} {t : Tid} {ev : Ev} {l : List Nat}
    (h : SInvL s l) (hpc : s.pc t = .deqRead) (hs : step s t = some (s', ev)) :
    ∃ l', SInvL s' l' ∧ StepEff s t s' l l' := by
  obtain ⟨r0, hr0⟩ := h.head_cons
  obtain ⟨hch, hnd, hpub, hun, hpriv, hown, htm, htl, hhm, hhl, htf, htk, htu, hdq⟩ := h
  simp only [step, hpc] at hs
  simp at hs; obtain ⟨rfl, -⟩ := hs
  have hother : ∀ t2, t2 ≠ t → holdsH (s.pc t2) = false := by
    intro t2 ht2; cases hh : holdsH (s.pc t2) with
    | false => rfl
    | true => exact absurd (hhm t2 t hh (by simp [hpc, holdsH])) ht2
  cases hnx : s.next s.head with
  | none =>
    -- the queue is empty at this instant
    have hl1 : l = [s.head] := by
      rw [hr0] at hch
      simp only [Chain, hnx, true_and] at hch
      rw [hr0, Chain.none_nil hch]
    have hlp : fifo.next (l.tail.map s.val) ⟨"deq", []⟩ [0] = some (l.tail.map s.val) := by
      rw [hl1]; exact fifo_deq_none
    refine ⟨l, ?_, ?_⟩
    · sinv_close
    · eff_close
  | some x =>
    refine ⟨l, ?_, ?_⟩
    · sinv_close
    · eff_close

theorem sinvl_step_deqUnlockNone {s s' : St} {t : Tid} {ev : Ev} {l : List Nat}
    (h : SInvL s l) (hpc : s.pc t = .deqUnlock none) (hs : step s t = some (s', ev)) :
    ∃ l', SInvL s' l' ∧ StepEff s t s' l l' := by
  obtain ⟨hch, hnd, hpub, hun, hpriv, hown, htm, htl, hhm, hhl, htf, htk, htu, hdq⟩ := h
  simp only [step, hpc] at hs
  simp at hs; obtain ⟨rfl, -⟩ := hs
  have hother : ∀ t2, t2 ≠ t → holdsH (s.pc t2) = false := by
    intro t2 ht2; cases hh : holdsH (s.pc t2) with
    | false => rfl
    | true => exact absurd (hhm t2 t hh (by simp [hpc, holdsH])) ht2
  refine ⟨l, ?_, ?_⟩
  · sinv_close
  · eff_close

theorem sinvl_step_deqUnlockSome {s s' : St} {t : Tid} {ev : Ev} {l : List Nat} {x : Nat}
    (h : SInvL s l) (hpc : s.pc t = .deqUnlock (some x)) (hs : step s t = some (s', ev)) :
    ∃ l', SInvL s' l' ∧ StepEff s t s' l l' := by
  obtain ⟨r0, hr0⟩ := h.head_cons
  obtain ⟨hch, hnd, hpub, hun, hpriv, hown, htm, htl, hhm, hhl, htf, htk, htu, hdq⟩ := h
  have hax := hdq t x hpc
  simp only [step, hpc] at hs
  simp at hs; obtain ⟨rfl, -⟩ := hs
  have hother : ∀ t2, t2 ≠ t → holdsH (s.pc t2) = false := by
    intro t2 ht2; cases hh : holdsH (s.pc t2) with
    | false => rfl
    | true => exact absurd (hhm t2 t hh (by simp [hpc, holdsH])) ht2
  subst hr0
  simp only [Chain, true_and] at hch
  rw [hax] at hch
  cases r0 with
  | nil => simp [Chain] at hch
  | cons b r1 =>
    have hb : x = b := by simp only [Chain, Option.some.injEq] at hch; exact hch.1
    subst hb
    have hnd1 := List.nodup_cons.mp hnd
    have hmem : ∀ c, c ∈ s.head :: x :: r1 ↔ (c = s.head ∨ c ∈ x :: r1) := fun c => List.mem_cons
    refine ⟨x :: r1, ?_, ?_⟩
    · sinv_close
    · have hlp : fifo.next ((s.head :: x :: r1).tail.map s.val) ⟨"deq", []⟩ [1, s.val x]
          = some ((x :: r1).tail.map s.val) := by
        simp [fifo_deq_some]
      eff_close

theorem sinvl_step {s s' : St} {t : Tid} {ev : Ev} {l : List Nat}
    (h : SInvL s l) (hs : step s t = some (s', ev)) : ∃ l', SInvL s' l' ∧ StepEff s t s' l l' := by
  cases hpc : s.pc t with
  | idle => simp [step, hpc] at hs
  | done r => simp [step, hpc] at hs
  | enqLock n => exact sinvl_step_enqLock h hpc hs
  | enqSpin n => exact sinvl_step_enqSpin h hpc hs
  | enqLink n => exact sinvl_step_enqLink h hpc hs
  | enqUnlock n => exact sinvl_step_enqUnlock h hpc hs
  | deqLock => exact sinvl_step_deqLock h hpc hs
  | deqSpin => exact sinvl_step_deqSpin h hpc hs
  | deqRead => exact sinvl_step_deqRead h hpc hs
  | deqUnlock x =>
    cases x with
    | none => exact sinvl_step_deqUnlockNone h hpc hs
    | some x => exact sinvl_step_deqUnlockSome h hpc hs

/-! ### Preservation: invocation and return -/

structure InvokeEff (s : St) (t : Tid) (op : GOp) (s' : St) (l : List Nat) : Prop where
  frame : ∀ t2, t2 ≠ t → s'.pc t2 = s.pc t2
  ops : ∀ t2, t2 ≠ t → opOf s'.val (s.pc t2) = opOf s.val (s.pc t2)
  was : s.pc t = .idle
  now : opOf s'.val (s'.pc t) = some op ∧ postRet (s'.pc t) = none
  abs : l.tail.map s'.val = l.tail.map s.val

theorem sinvl_invoke {s s' : St} {t : Tid} {op : GOp} {l : List Nat}
    (h : SInvL s l) (hs : invoke s t op = some s') : SInvL s' l ∧ InvokeEff s t op s' l := by
  obtain ⟨hch, hnd, hpub, hun, hpriv, hown, htm, htl, hhm, hhl, htf, htk, htu, hdq⟩ := h
  obtain ⟨name, args⟩ := op
  unfold invoke at hs
  split at hs
  next v hpc hname hargs =>
    simp at hs; subst hs
    dsimp only at hname hargs; subst hname hargs
    have hfr' : ∀ t2 n, enqNode (s.pc t2) = some n → n ≠ s.cnt := fun t2 n h => Nat.ne_of_lt (hpriv t2 n h).1
    have hunc : s.next s.cnt = none := hun s.cnt (Nat.le_refl _)
    refine ⟨?_, ?_⟩
    · sinv_close
    · constructor <;> intros <;> (try dsimp only at *)
      · grind [upd]
      · rename_i t2 ht2
        cases hq : s.pc t2 <;> simp [opOf, upd]
        all_goals first
          | exact fun e => absurd e (hfr' t2 _ (by simp [hq, enqNode]))
          | (rename_i x; cases x <;> simp)
      · exact hpc
      · simp [upd, opOf, postRet]
      · apply List.map_congr_left
        intro a ha
        have := (hpub a (List.mem_of_mem_tail ha)).1
        simp [upd]; omega
  next hpc hname hargs =>
    simp at hs; subst hs
    dsimp only at hname hargs; subst hname hargs
    refine ⟨?_, ?_⟩
    · sinv_close
    · constructor <;> intros <;> (try dsimp only at *) <;> grind [upd, opOf, postRet]
  next => simp at hs

theorem sinvl_result {s s' : St} {t : Tid} {r : GRet} {l : List Nat}
    (h : SInvL s l) (hs : result s t = some (s', r)) :
    SInvL s' l ∧ s.pc t = .done r ∧ s'.pc t = .idle ∧ (∀ t2, t2 ≠ t → s'.pc t2 = s.pc t2) ∧ s'.val = s.val := by
  obtain ⟨hch, hnd, hpub, hun, hpriv, hown, htm, htl, hhm, hhl, htf, htk, htu, hdq⟩ := h
  unfold result at hs
  split at hs
  next r' hpc =>
    simp at hs; obtain ⟨rfl, rfl⟩ := hs
    refine ⟨?_, hpc, by simp [upd], fun t2 h2 => by simp [upd, h2], rfl⟩
    sinv_close
  next => simp at hs

end CdsVerif.Algo.RWQueue

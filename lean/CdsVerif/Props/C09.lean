/-
  C09 — stacks are linearizable LIFO stacks.
  Property theorems only; models and lemmas live under Algo/ and Base/.
-/
import CdsVerif.Base.Spec
namespace CdsVerif.Props.C09
open CdsVerif.Lin CdsVerif.Spec

/-- The oracle of tie H is exact: a history of the real stack is accepted by the driver iff it is
    linearizable to the sequential LIFO specification. -/
theorem C09_history_oracle_exact (ops : List (OpRec GOp GRet)) (hwf : ∀ o ∈ ops, o.inv ≤ o.res) :
    linCheck lifo ops = true ↔ Linearizable lifo ops :=
  linCheck_iff lifo ops hwf

/-- Non-vacuity: a concurrent push/pop history that is linearizable, and one that is not. -/
example : linCheck lifo
    [⟨0, ⟨"push", [1]⟩, [1], 1, 4⟩, ⟨1, ⟨"pop", []⟩, [1, 1], 2, 3⟩] = true := by decide
example : linCheck lifo
    [⟨0, ⟨"push", [1]⟩, [1], 1, 2⟩, ⟨0, ⟨"push", [2]⟩, [1], 3, 4⟩, ⟨1, ⟨"pop", []⟩, [1, 1], 5, 6⟩] = false := by decide

end CdsVerif.Props.C09

// Bounded MPMC queue: cds::container::VyukovMPMCCycleQueue (dynamic / static buffer),
// cds::intrusive::VyukovMPMCCycleQueue and the single-consumer flavour (front / pop_front).
// History is judged against Spec.bfifo <capacity()>.
#include <cds/init.h>
#include <cds/container/vyukov_mpmc_cycle_queue.h>
#include <cds/intrusive/vyukov_mpmc_cycle_queue.h>
#include <memory>
#include "../client.h"

using namespace khizmax_libcds_verif;
namespace ci = cds::intrusive;
namespace cc = cds::container;

struct IBQueue {
    virtual ~IBQueue() {}
    virtual bool enq( long v ) = 0;
    virtual bool deq( long& v ) = 0;
    virtual size_t capacity() const = 0;
    // single consumer only: 1 = value in v, 0 = empty
    virtual int front( long& ) { return -1; }
    virtual bool pop_front() { return false; }
};

struct dyn_traits : cc::vyukov_queue::traits {
    typedef cds::opt::v::initialized_dynamic_buffer<void*> buffer;
};
template <size_t N>
struct static_traits : cc::vyukov_queue::traits {
    typedef cds::opt::v::initialized_static_buffer<void*, N> buffer;
};
struct sc_traits : dyn_traits {
    static constexpr bool const single_consumer = true;
};
struct idyn_traits : ci::vyukov_queue::traits {
    typedef cds::opt::v::initialized_dynamic_buffer<void*> buffer;
};

template <class Traits>
struct ValueQ : IBQueue {
    typedef cc::VyukovMPMCCycleQueue<long, Traits> queue_t;
    std::unique_ptr<queue_t> q;
    explicit ValueQ( size_t cap ) : q( new queue_t( cap ))
    {
        reg_name( &q->m_posEnqueue, sizeof( q->m_posEnqueue ), "posEnq" );
        reg_name( &q->m_posDequeue, sizeof( q->m_posDequeue ), "posDeq" );
        for ( size_t i = 0; i < q->capacity(); ++i ) {
            char nm[32];
            std::snprintf( nm, sizeof nm, "seq%zu", i );
            reg_name( &q->m_buffer[i].sequence, sizeof( q->m_buffer[i].sequence ), nm );
        }
    }
    bool enq( long v ) override { return q->enqueue( v ); }
    bool deq( long& v ) override { return q->dequeue( v ); }
    size_t capacity() const override { return q->capacity(); }
};

struct SingleConsumerQ : ValueQ<sc_traits> {
    explicit SingleConsumerQ( size_t cap ) : ValueQ<sc_traits>( cap ) {}
    int front( long& v ) override
    {
        long* p = q->front();
        if ( !p ) return 0;
        v = *p;
        return 1;
    }
    bool pop_front() override { return q->pop_front(); }
};

struct IntrusiveQ : IBQueue {
    struct item { long v; };
    typedef ci::VyukovMPMCCycleQueue<item, idyn_traits> queue_t;
    std::unique_ptr<queue_t> q;
    std::vector<std::unique_ptr<item>> items;       // client-owned; each item is enqueued at most once
    explicit IntrusiveQ( size_t cap ) : q( new queue_t( cap ))
    {
        reg_name( &q->m_posEnqueue, sizeof( q->m_posEnqueue ), "posEnq" );
        reg_name( &q->m_posDequeue, sizeof( q->m_posDequeue ), "posDeq" );
        for ( size_t i = 0; i < q->capacity(); ++i ) {
            char nm[32];
            std::snprintf( nm, sizeof nm, "seq%zu", i );
            reg_name( &q->m_buffer[i].sequence, sizeof( q->m_buffer[i].sequence ), nm );
        }
    }
    ~IntrusiveQ()
    {
        while ( q->dequeue()) {}        // unlink without disposing
        q.reset();
    }
    bool enq( long v ) override
    {
        item* p = new item;
        p->v = v;
        items.emplace_back( p );
        return q->enqueue( *p );
    }
    bool deq( long& v ) override
    {
        item* p = q->dequeue();
        if ( !p ) return false;
        v = p->v;
        return true;
    }
    size_t capacity() const override { return q->capacity(); }
};

struct Fixture {
    static char const* family() { return "vyukov"; }
    static std::vector<std::string> variants()
    {
        return { "dyn", "static2", "static4", "static8", "idyn", "single_consumer" };
    }
    std::unique_ptr<IBQueue> s;
    bool failed = false;
    std::string failure;
    bool sc = false;
    size_t cap = 0;
    size_t rot_used = 0;
    // configuration the Lean machine Algo/Vyukov needs to start from the same state (tie A)
    std::string header_extra() const { return "cap=" + std::to_string( cap ) + " rot=" + std::to_string( rot_used ); }

    explicit Fixture( Case const& c )
    {
        // constructor argument of the dynamic buffer (rounded up to a power of two by the buffer)
        static size_t const dyn_arg[] = { 2, 4, 8, 3, 2, 4, 5 };
        size_t arg = dyn_arg[c.index % 7];
        uint64_t rotsel = c.index / 7;
        std::string const& v = c.variant;
        if ( v == "dyn" ) s.reset( new ValueQ<dyn_traits>( arg ));
        else if ( v == "static2" ) s.reset( new ValueQ< static_traits<2> >( 2 ));
        else if ( v == "static4" ) s.reset( new ValueQ< static_traits<4> >( 4 ));
        else if ( v == "static8" ) s.reset( new ValueQ< static_traits<8> >( 8 ));
        else if ( v == "idyn" ) s.reset( new IntrusiveQ( arg ));
        else if ( v == "single_consumer" ) { s.reset( new SingleConsumerQ( arg )); sc = true; }
        else { std::fprintf( stderr, "unknown variant %s\n", v.c_str()); std::exit( 2 ); }
        cap = s->capacity();

        // Rotate the ring before the case starts: `rot` items pass through the queue, which is left
        // empty with posEnqueue == posDequeue == rot, so that the scheduled program wraps around the
        // buffer at varying offsets (0 .. 2*cap).
        size_t rot = size_t( rotsel % ( 2 * cap + 1 ));
        rot_used = rot;
        for ( size_t i = 0; i < rot; ++i ) {
            long x = 0;
            if ( !s->enq( -long( i ) - 1 ) || !s->deq( x ) || x != -long( i ) - 1 ) {
                failed = true; failure = "warm-up enq/deq mismatch";
            }
        }
    }
    std::string spec() const
    {
        std::ostringstream os;
        os << "bfifo " << cap;
        return os.str();
    }

    std::vector<std::vector<Op>> program( Rng& r, int nthreads, int nops )
    {
        std::vector<std::vector<Op>> p( nthreads );
        std::vector<int> cnt( nthreads );
        int total = 0;
        for ( int t = 0; t < nthreads; ++t ) {
            int lo = nops > 2 ? nops - 2 : 1;       // close to the requested length: the ring must fill up
            cnt[t] = lo + int( r.below( uint64_t( nops - lo + 1 )));
            if ( cnt[t] > 6 ) cnt[t] = 6;
            total += cnt[t];
        }
        while ( total > 14 ) {
            int big = 0;
            for ( int t = 1; t < nthreads; ++t ) if ( cnt[t] > cnt[big] ) big = t;
            --cnt[big]; --total;
        }
        long v = 1;
        if ( sc ) {
            // thread 0 is the only consumer (front / pop_front); the others only enqueue
            unsigned front_pct = 20 + unsigned( r.below( 30 ));
            for ( int i = 0; i < cnt[0]; ++i )
                p[0].push_back( Op( r.chance( front_pct ) ? "front" : "deq" ));
            for ( int t = 1; t < nthreads; ++t )
                for ( int i = 0; i < cnt[t]; ++i )
                    p[t].push_back( Op( "enq", v++ ));
            return p;
        }
        // more enqueues than dequeues, the more so the larger the ring, so that `full` happens
        unsigned base = cap <= 2 ? 45 : cap <= 4 ? 55 : 70;
        unsigned enq_pct = base + unsigned( r.below( 25 ));
        for ( int t = 0; t < nthreads; ++t )
            for ( int i = 0; i < cnt[t]; ++i ) {
                if ( r.chance( enq_pct )) p[t].push_back( Op( "enq", v++ ));
                else p[t].push_back( Op( "deq" ));
            }
        return p;
    }
    void thread_begin( int ) { set_quiet( true ); cds::threading::Manager::attachThread(); set_quiet( false ); }
    void thread_end( int ) { set_quiet( true ); cds::threading::Manager::detachThread(); set_quiet( false ); }
    std::vector<long> exec( int, Op const& op )
    {
        long v = 0;
        if ( op.name == "enq" )
            return { s->enq( op.args[0] ) ? 1L : 0L };
        if ( op.name == "front" ) {
            if ( s->front( v ) == 1 ) return { 1, v };
            return { 0 };
        }
        // deq
        if ( sc ) {
            // single consumer: peek, then pop_front (which discards the value)
            if ( s->front( v ) != 1 ) return { 0 };
            if ( !s->pop_front()) { failed = true; failure = "pop_front failed after front() returned an item"; }
            return { 1, v };
        }
        if ( s->deq( v )) return { 1, v };
        return { 0 };
    }
    // sequential drain by the main thread after every scheduled operation: a lost or duplicated item becomes visible
    void finish( std::ostream& out )
    {
        uint64_t t = 1000000;
        for ( int guard = 0; guard < 64; ++guard ) {
            long v = 0;
            bool ok;
            if ( sc ) { ok = s->front( v ) == 1; if ( ok && !s->pop_front()) { failed = true; failure = "pop_front failed after front() returned an item"; } }
            else ok = s->deq( v );
            out << "O 91 " << t << ' ' << t + 1 << " deq :";
            if ( ok ) out << " 1 " << v << '\n'; else out << " 0\n";
            t += 2;
            if ( !ok ) break;
        }
    }
};

int main( int argc, char** argv )
{
    cds::Initialize();
    {
        cds::threading::Manager::attachThread();
        int rc = client_main<Fixture>( argc, argv );
        cds::threading::Manager::detachThread();
        (void) rc;
    }
    cds::Terminate();
    return 0;
}

/-
  C14 — property theorems (the algorithm-level theorems are added as the models are finished;
  see DESIGN.md section 6).
-/
import CdsVerif.Base.Spec
import CdsVerif.Base.LocalityMap
namespace CdsVerif.Props.C14
open CdsVerif.Lin CdsVerif.Spec

/-- The oracle of tie H is exact: a history of the real container is accepted by the driver iff it is
    linearizable to the sequential specification. -/
theorem C14_history_oracle_exact  (ops : List (OpRec GOp GRet)) (hwf : ∀ o ∈ ops, o.inv ≤ o.res) :
    linCheck map ops = true ↔ Linearizable map ops :=
  linCheck_iff _ ops hwf

/-- **Locality for hash tables.**  MichaelHashSet / MichaelHashMap is an array of independent ordered lists and
    every operation works on the one list chosen by the hash of its key.  Whenever the sub-history of every
    bucket is a linearizable history of the map specification (which is what C13 states for the bucket
    containers), the history of the whole table is a linearizable history of the map specification.  `h` is an
    arbitrary bucket function (any hash, any table size, colliding hashes included); the history contains
    keyed operations only (insert / update / upsert / erase / extract / find / contains). -/
theorem C14_table_of_linearizable_buckets (h : Int → Nat) (ops : List (OpRec GOp GRet))
    (hwf : ∀ o ∈ ops, o.inv ≤ o.res)
    (hkeyed : ∀ o ∈ ops, (keyOf o.op).isSome = true)
    (hb : ∀ i, Linearizable map (sub (routeBy h) i ops)) :
    Linearizable map ops :=
  hashed_map_linearizable h ops hwf hkeyed hb

/-- General form (Herlihy–Wing locality): a composite of independent objects is linearizable as soon as every
    component's sub-history is. -/
theorem C14_locality {σ : Type} (spec : Spec σ GOp GRet) (route : GOp → Nat) (s : Nat → σ)
    (ops : List (OpRec GOp GRet)) (hwf : ∀ o ∈ ops, o.inv ≤ o.res)
    (h : ∀ i, LinearizableFrom spec (s i) (sub route i ops)) :
    LinearizableFrom (prodSpec spec route s) s ops :=
  locality spec route s ops hwf h

/-- Non-vacuity: two buckets (key parity), overlapping operations on both. -/
example :
    let ops : List (OpRec GOp GRet) :=
      [⟨0, ⟨"insert", [2, 7]⟩, [1], 1, 6⟩, ⟨1, ⟨"insert", [3, 8]⟩, [1], 2, 4⟩,
       ⟨1, ⟨"find", [2]⟩, [1, 7], 5, 8⟩, ⟨0, ⟨"erase", [3]⟩, [1, 8], 7, 9⟩]
    (∀ o ∈ ops, (keyOf o.op).isSome = true) ∧
    linCheck map (sub (routeBy (fun k => k.toNat % 2)) 0 ops) = true ∧
    linCheck map (sub (routeBy (fun k => k.toNat % 2)) 1 ops) = true ∧
    linCheck map ops = true := by decide

end CdsVerif.Props.C14

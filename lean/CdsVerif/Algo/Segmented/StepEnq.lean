/-
  Preservation of the SegmentedQueue invariant: steps of `enqueue` outside `create_tail`.
-/
import CdsVerif.Algo.Segmented.Inv
namespace CdsVerif.Algo.Segmented
open CdsVerif.Machine CdsVerif.Spec

theorem step_enqLd1 {s s' : St} {t : Tid} {e : Ev} {x : Nat} {ps : List Nat} (h : Inv s)
    (hpc : s.pc t = .enqLd1 x ps) (hs : step s t = some (s', e)) : Inv s' := by
  unfold step at hs; simp only [hpc] at hs
  simp only [Option.some.injEq, Prod.mk.injEq] at hs; obtain ⟨rfl, _⟩ := hs
  have hL := h.2 t; rw [hpc] at hL
  have hact := hL.act (by simp)
  have hitem := hL.item x rfl
  apply inv_pcnow h
  exact loc_enqLd2 (by show s.tCall t < s.now + 1; omega) hitem

/-- An enqueue starts a scan of segment `g` with a fresh permutation. -/
theorem loc_startE {s : St} {t : Tid} {x : Nat} {ps : List Nat} {g : Nat}
    (hact : s.tCall t < s.now) (hitem : s.used x = true ∧ s.owner x = t ∧ s.enqCnt x = 0) (hptr : g < s.nseg)
    (hfloor : s.floorN x ≤ g + 1) : Loc s t (scanE x (nextPerm s.K ps).2 g (nextPerm s.K ps).1) := by
  have hlt := nextPerm_lt s.K ps
  have hall := nextPerm_all s.K ps
  rcases scanE_cases x (nextPerm s.K ps).2 g (nextPerm s.K ps).1 with ⟨hb, hq⟩ | ⟨i, r, hb, hq⟩
  · rw [hq]; rw [hb] at hall
    refine loc_ctTry hact hitem ?_
    intro g' hg'; cases hg'
    refine ⟨hptr, hfloor, ?_⟩
    intro j hj; exact absurd (hall j hj) (by simp)
  · rw [hq]; rw [hb] at hlt hall
    refine loc_enqRd hact hitem hptr hfloor ⟨?_, ?_, ?_⟩
    · exact hlt i (by simp)
    · intro j hj; exact hlt j (by simp [hj])
    · intro j hj
      have := hall j hj
      simp only [List.mem_cons] at this
      rcases this with h1 | h1
      · exact Or.inl h1
      · exact Or.inr (Or.inl h1)

theorem step_enqLd2 {s s' : St} {t : Tid} {e : Ev} {x : Nat} {ps : List Nat} {p : Option Nat} (h : Inv s)
    (hpc : s.pc t = .enqLd2 x ps p) (hs : step s t = some (s', e)) : Inv s' := by
  unfold step at hs; simp only [hpc] at hs
  have hL := h.2 t; rw [hpc] at hL
  have hact := hL.act (by simp)
  have hitem := hL.item x rfl
  have hact' : s.tCall t < s.now + 1 := by omega
  split at hs
  · rename_i htl
    split at hs
    · simp only [Option.some.injEq, Prod.mk.injEq] at hs; obtain ⟨rfl, _⟩ := hs
      apply inv_pcnow h
      exact loc_ctTry hact' hitem (by intro g hg; cases hg)
    · rename_i g
      simp only [Option.some.injEq, Prod.mk.injEq] at hs; obtain ⟨rfl, _⟩ := hs
      have hg := h.1.tail_some g htl
      have hfl := (h.1.used_t x hitem.1).2
      apply inv_pcnow h
      exact loc_startE (s := { s with pc := _, now := s.now + 1 }) hact' hitem (by show g < s.nseg; omega)
        (by show s.floorN x ≤ g + 1; omega)
  · simp only [Option.some.injEq, Prod.mk.injEq] at hs; obtain ⟨rfl, _⟩ := hs
    apply inv_pcnow h
    exact loc_enqLd2 hact' hitem

/-- The scan of an enqueue moves on: cell `i` of segment `g` was seen populated. -/
theorem loc_scanE {s : St} {t : Tid} {x : Nat} {ps : List Nat} {g i : Nat} {rest : List Nat}
    (hact : s.tCall t < s.now) (hitem : s.used x = true ∧ s.owner x = t ∧ s.enqCnt x = 0) (hptr : g < s.nseg)
    (hfloor : s.floorN x ≤ g + 1)
    (hscan : i < s.K ∧ (∀ j, j ∈ rest → j < s.K) ∧ ∀ j, j < s.K → j = i ∨ j ∈ rest ∨ s.cell g j ≠ .null)
    (hc : s.cell g i ≠ .null) : Loc s t (scanE x ps g rest) := by
  rcases scanE_cases x ps g rest with ⟨hb, hq⟩ | ⟨i', r, hb, hq⟩
  · rw [hq]; subst hb
    refine loc_ctTry hact hitem ?_
    intro g' hg'; cases hg'
    refine ⟨hptr, hfloor, ?_⟩
    intro j hj
    rcases hscan.2.2 j hj with h1 | h1 | h1
    · subst h1; exact hc
    · simp at h1
    · exact h1
  · rw [hq]; subst hb
    refine loc_enqRd hact hitem hptr hfloor ⟨?_, ?_, ?_⟩
    · exact hscan.2.1 i' (by simp)
    · intro j hj; exact hscan.2.1 j (by simp [hj])
    · intro j hj
      rcases hscan.2.2 j hj with h1 | h1 | h1
      · subst h1; exact Or.inr (Or.inr hc)
      · simp only [List.mem_cons] at h1
        rcases h1 with h1 | h1
        · exact Or.inl h1
        · exact Or.inr (Or.inl h1)
      · exact Or.inr (Or.inr h1)

theorem step_enqRd {s s' : St} {t : Tid} {e : Ev} {x : Nat} {ps : List Nat} {g i : Nat} {rest : List Nat} (h : Inv s)
    (hpc : s.pc t = .enqRd x ps g i rest) (hs : step s t = some (s', e)) : Inv s' := by
  unfold step at hs; simp only [hpc] at hs
  have hL := h.2 t; rw [hpc] at hL
  have hact := hL.act (by simp)
  have hitem := hL.item x rfl
  have hact' : s.tCall t < s.now + 1 := by omega
  have hscan := hL.eRd x ps g i rest rfl
  have hptr := hL.ptr g rfl
  have hfloor := hL.floor x g rfl rfl
  split at hs
  · simp only [Option.some.injEq, Prod.mk.injEq] at hs; obtain ⟨rfl, _⟩ := hs
    apply inv_pcnow h
    exact loc_enqCas hact' hitem hptr hfloor hscan
  · rename_i hc
    simp only [Option.some.injEq, Prod.mk.injEq] at hs; obtain ⟨rfl, _⟩ := hs
    apply inv_pcnow h
    exact loc_scanE hact' hitem hptr hfloor hscan hc

/-! ### The successful enqueue CAS -/

/-- The state after thread `t` has stored item `x` into cell `i` of segment `g`. -/
def afterEnq (s : St) (t : Tid) (x g i : Nat) : St :=
  { s with cell := upd2 s.cell g i (.item x), pc := upd s.pc t (.enqDone x), now := s.now + 1,
           enqCnt := upd s.enqCnt x (s.enqCnt x + 1), posS := upd s.posS x g, posI := upd s.posI x i,
           tCas := upd s.tCas x (some s.now) }

set_option maxHeartbeats 1000000 in
theorem glob_afterEnq {s : St} {t : Tid} {x g i : Nat} (G : Glob s) (hc : s.cell g i = .null)
    (hitem : s.used x = true ∧ s.owner x = t ∧ s.enqCnt x = 0) (hptr : g < s.nseg) (hi : i < s.K)
    (hfloor : s.floorN x ≤ g + 1) : Glob (afterEnq s t x g i) := by
  have hx0 := hitem.2.2
  have hx1 : ∀ g' i', s.cell g' i' ≠ .item x := by intro g' i' hh; have := G.item_pos g' i' x hh; omega
  have hx2 : ∀ g' i', s.cell g' i' ≠ .del x := by intro g' i' hh; have := G.del_pos g' i' x hh; omega
  have hx3 : s.tCas x = none := by
    cases hh : s.tCas x with
    | none => rfl
    | some c => have := G.cas_t x c hh; omega
  have hx4 := G.enq_zero x hx0
  have hx5 := (G.used_t x hitem.1).1
  have hx6 : s.tMark x = none := by
    cases hh : s.tMark x with
    | none => rfl
    | some m => have := G.mark_t x m hh; omega
  have hused := hitem.1
  clear hitem
  unfold afterEnq
  constructor
  · exact G.lo_le
  · exact G.head_some
  · exact G.head_none
  · exact G.tail_some
  · exact G.tail_none
  · intro g' i' hg'; have := G.fresh g' i' hg'; simp only; grind [upd2]
  · intro g' i' hi'; have := G.wide g' i' hi'; simp only; grind [upd2]
  · intro g' i' hg' hi'; have := G.dead g' i' hg' hi'; simp only at hg' hi' ⊢; grind [upd2, Cell.isDel]
  · intro g' i' hg' hi'; have := G.full g' i' hg' hi'; simp only; grind [upd2]
  · exact G.holder_lock
  · intro g' i' y hy
    have := G.item_pos g' i' y; have := hx1 g' i'
    simp only at hy ⊢; grind [upd, upd2]
  · intro g' i' y hy
    have := G.del_pos g' i' y; have := hx2 g' i'
    simp only at hy ⊢; grind [upd, upd2]
  · intro y; have := G.enq_le y; simp only; grind [upd]
  · intro y hy
    have := G.enq_cell y
    simp only at hy ⊢; grind [upd, upd2]
  · intro y hy; have := G.enq_zero y; simp only at hy ⊢; grind [upd]
  · intro y hy; have := G.enq_used y; simp only at hy ⊢; grind [upd]
  · intro y hy; have := G.used_t y hy; exact ⟨by simp only; omega, this.2⟩
  · intro y c hy; have := G.cas_t y c; simp only at hy ⊢; grind [upd]
  · intro y hy; have := G.cas_some y; simp only at hy ⊢; grind [upd]
  · intro y m hy; have := G.mark_t y m hy; exact ⟨by simp only; omega, this.2⟩
  · intro y m c hm hy
    have := G.mark_cas y m c hm
    simp only at hm hy ⊢; grind [upd]
  · exact G.mark_some
  · intro y z c hy hz hlt
    have := G.floor y z c hy
    have := G.used_t y hy
    simp only at hy hz hlt ⊢; grind [upd]
  · intro y z c hy hz hlt
    have := G.order y z c
    have := G.floor x z c hused
    have := G.used_t y
    have := G.enq_used y
    simp only at hy hz hlt ⊢; grind [upd]
  · intro y z m c hm hz hlt hmm
    have := G.quasi y z m c hm
    have := G.mark_t y m hm
    have := G.enq_used y
    have := G.enq_zero y
    have := G.enq_le y
    have := G.used_t y
    simp only at hm hz hlt hmm ⊢; grind [upd]
  · exact G.quiet

set_option maxHeartbeats 1000000 in
theorem frame_afterEnq {s : St} {t t' : Tid} {x g i : Nat} (G : Glob s) (hc : s.cell g i = .null)
    (hitem : s.used x = true ∧ s.owner x = t ∧ s.enqCnt x = 0) (ht' : t' ≠ t) (hL' : Loc s t' (s.pc t')) :
    Frame s (afterEnq s t x g i) t' (s.pc t') := by
  have hx3 : s.tCas x = none := by
    cases hh : s.tCas x with
    | none => rfl
    | some c => have := G.cas_t x c hh; omega
  have hmine := hL'.item
  clear hL'
  unfold afterEnq
  constructor
  · rfl
  · exact Nat.le_refl _
  · exact Nat.le_refl _
  · intro g' i' hh; simp only; grind [upd2]
  · intro g' i' y hh; simp only; grind [upd2]
  · intro g' i' y hh; simp only; grind [upd2]
  · intro g' i' hh; simp only; grind [upd2, Cell.isDel]
  · intro hh; exact ⟨hh, rfl, rfl, rfl, rfl⟩
  · rfl
  · simp only; omega
  · intro y c hh; simp only at hh ⊢; grind [upd]
  · intro y c hh; simp only; grind [upd]
  · intro y hh; exact ⟨hh, rfl, rfl⟩
  · intro y hy; have := hmine y hy; simp only; grind [upd]
  · intro y hy; simp only; grind [upd]
  · intro y hy; exact hy
  · intro y c hy; simp only; grind [upd]
  · intro y m hy; exact hy

theorem step_enqCas {s s' : St} {t : Tid} {e : Ev} {x : Nat} {ps : List Nat} {g i : Nat} {rest : List Nat} (h : Inv s)
    (hpc : s.pc t = .enqCas x ps g i rest) (hs : step s t = some (s', e)) : Inv s' := by
  unfold step at hs; simp only [hpc] at hs
  have hL := h.2 t; rw [hpc] at hL
  have hact := hL.act (by simp)
  have hitem := hL.item x rfl
  have hact' : s.tCall t < s.now + 1 := by omega
  have hscan := hL.eCas x ps g i rest rfl
  have hptr := hL.ptr g rfl
  have hfloor := hL.floor x g rfl rfl
  split at hs
  · rename_i hc
    simp only [Option.some.injEq, Prod.mk.injEq] at hs; obtain ⟨rfl, _⟩ := hs
    refine inv_of_step (s' := afterEnq s t x g i) h rfl (glob_afterEnq h.1 hc hitem hptr hscan.1 hfloor) ?_ ?_
    · intro t' ht'
      exact frame_afterEnq h.1 hc hitem ht' (h.2 t')
    · refine loc_enqDone hact' ?_ ⟨s.now, ?_, hact⟩
      · show upd s.enqCnt x (s.enqCnt x + 1) x = 1
        simp [upd, hitem.2.2]
      · show upd s.tCas x (some s.now) x = some s.now
        simp [upd]
  · rename_i hc
    simp only [Option.some.injEq, Prod.mk.injEq] at hs; obtain ⟨rfl, _⟩ := hs
    apply inv_pcnow h
    exact loc_scanE hact' hitem hptr hfloor hscan hc

end CdsVerif.Algo.Segmented

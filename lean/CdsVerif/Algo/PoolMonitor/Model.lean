/-
  Atomic-step model of `cds::sync::pool_monitor` (cds/sync/pool_monitor.h) over a pool of `cds::sync::spin` locks.

    lock( p ):
        cur = p.m_RefSpin.load() & ~c_nSpinBit;                                            -- lkLd
        while ( !p.m_RefSpin.compare_exchange_weak( cur, cur + c_nRefIncrement + c_nSpinBit ))   -- lkCas
            cur &= ~c_nSpinBit;                         (failure: cur := value seen, spin bit cleared)
        // spin bit held
        pLock = p.m_pLock;
        if ( !pLock ) pLock = p.m_pLock = m_Pool.allocate( 1 );       (inside the step of the next store)
        p.m_RefSpin.store( cur + c_nRefIncrement );                                        -- lkSt
        pLock->lock();       spin_lock: while ( m_spin.exchange( true )) { while ( m_spin.load()) ; }   -- lkTas / lkWait

    unlock( p ):
        p.m_pLock->unlock();           spin_lock: m_spin.store( false )                    -- unRel
        cur = p.m_RefSpin.load() & ~c_nSpinBit;                                            -- unLd
        while ( !p.m_RefSpin.compare_exchange_weak( cur, cur | c_nSpinBit ))               -- unCas
            cur &= ~c_nSpinBit;
        // spin bit held
        if ( cur == c_nRefIncrement ) { pLock = p.m_pLock; p.m_pLock = nullptr; }   (inside the step of the next store)
        p.m_RefSpin.store( cur - c_nRefIncrement );                                        -- unSt
        if ( pLock ) m_Pool.deallocate( pLock, 1 );     (after the last atomic step: done when the call returns, pc `fin`)

  Nodes and pool locks are indexed by Nat; any number of threads.  One `step` = one atomic operation on
  m_RefSpin or on the m_spin of a pool lock, in source order, including the CAS retry loops.
  `m_pLock` is NOT atomic in the source: it is written only by a thread that holds the spin bit (those accesses are
  part of the step that ends the spin-bit section) and read without the spin bit only by the first step of `unlock`
  (`m_pLock->unlock()`), where the caller still owns a reference (Inv: the field is then attached and stable).
  `compare_exchange_weak` never fails spuriously in the model.  Statistics are not modelled.

  The pool is a FIFO bag of free lock ids (`pool`) plus a counter of never-used ids (`fresh`): `allocate` takes the
  head of `pool`, or a fresh id when the bag is empty (vyukov_queue_pool falls back to the heap); `deallocate`
  appends to `pool`.  The pool's own synchronisation is not modelled (its atomic operations are outside the
  vocabulary of the model); allocation happens inside the spin-bit section, deallocation outside it.

  Tie to a trace of the real code: the words of the pool locks must be registered under the names `P<k>.spin`, `k` = order
  in which the lock objects are first handed out (the model numbers them in the order of the attaching steps).  With
  `vyukov_queue_pool< spin >` every `allocate` runs the placement-new constructor of the lock (`st P<k>.spin 0`, inside
  the spin-bit section) and the harness' checking pool reads the word in `deallocate` (`ld P<k>.spin`): these two events
  belong to the pool, not to pool_monitor, and are not steps of the model.  Which free lock the pool hands out depends on
  the order of the pool's own operations, which are not events of the model: a replay may differ in the NAME of a reused
  lock, never in the values of m_RefSpin or of the lock words.

  Event rendering (the `A` lines of the harness trace):
      ld   N<n>.refspin <v>
      cas+ N<n>.refspin <cur> <cur+3>      lock:   reference added, spin bit set
      cas+ N<n>.refspin <cur> <cur+1>      unlock: spin bit set
      cas- N<n>.refspin <seen> <cur>
      st   N<n>.refspin <v>
      xchg P<k>.spin <0|1> 1               pool lock k: try_lock
      ld   P<k>.spin <0|1>                 pool lock k: wait loop
      st   P<k>.spin 0                     pool lock k: unlock

  Ghost fields:
    `cs t n`   thread `t` is inside the critical section of node `n` (from the successful exchange in lock() to the
               releasing store in unlock());
    `users n`  the threads between their reference increment in lock( n ) and their decrement in unlock( n );
    `sbit n`   the thread that holds the spin bit of node `n`;
    `lowner k` the thread that holds pool lock `k`.
-/
import CdsVerif.Base.Machine
namespace CdsVerif.Algo.PoolMonitor
open CdsVerif.Machine CdsVerif.Spec

inductive PC
  | idle
  | lkLd (n : Nat)                 -- next: cur = m_RefSpin.load() & ~1
  | lkCas (n : Nat) (cur : Nat)    -- next: CAS( m_RefSpin, cur, cur + 3 )
  | lkSt (n : Nat) (cur : Nat)     -- spin bit held; next: [attach a lock if none;] m_RefSpin.store( cur + 2 )
  | lkTas (n : Nat) (k : Nat)      -- next: pool lock k: m_spin.exchange( true )
  | lkWait (n : Nat) (k : Nat)     -- next: pool lock k: m_spin.load() in the wait loop
  | unRel (n : Nat)                -- next: m_pLock->unlock(): m_spin.store( false )
  | unLd (n : Nat)                 -- next: cur = m_RefSpin.load() & ~1
  | unCas (n : Nat) (cur : Nat)    -- next: CAS( m_RefSpin, cur, cur | 1 )
  | unSt (n : Nat) (cur : Nat)     -- spin bit held; next: [detach if cur == 2;] m_RefSpin.store( cur - 2 )
  | fin (k : Option Nat)           -- unlock() returns; a detached lock k is given back to the pool on the way out
  | done (r : GRet)
deriving DecidableEq, Repr

structure St where
  refspin : Nat → Nat              -- m_RefSpin of every node: bit 0 = spin bit, value / 2 = reference count
  plock : Nat → Option Nat         -- m_pLock of every node (none = nullptr)
  lheld : Nat → Bool               -- m_spin of every pool lock
  pool : List Nat                  -- free lock ids, FIFO
  fresh : Nat                      -- ids ≥ fresh have never been handed out
  pc : Tid → PC
  cs : Tid → Nat → Bool            -- ghost
  users : Nat → List Tid           -- ghost
  sbit : Nat → Option Tid          -- ghost
  lowner : Nat → Option Tid        -- ghost

/-- Initial state with `cap` preallocated pool locks. -/
def init (cap : Nat) : St :=
  ⟨fun _ => 0, fun _ => none, fun _ => false, List.range cap, cap, fun _ => .idle,
   fun _ _ => false, fun _ => [], fun _ => none, fun _ => none⟩

/-- `v & ~c_nSpinBit`. -/
def clr (v : Nat) : Nat := v - v % 2

/-! ### Event rendering (the only place where events are built) -/

def b2s (b : Bool) : String := if b then "1" else "0"
def refLoc (n : Nat) : String := s!"N{n}.refspin"
def plLoc (k : Nat) : String := s!"P{k}.spin"

def evLdRef (n v : Nat) : Ev := ⟨"ld", refLoc n, toString v, ""⟩
def evStRef (n v : Nat) : Ev := ⟨"st", refLoc n, toString v, ""⟩
def evCasOk (n old new : Nat) : Ev := ⟨"cas+", refLoc n, toString old, toString new⟩
def evCasFail (n seen expected : Nat) : Ev := ⟨"cas-", refLoc n, toString seen, toString expected⟩
def evXchg (k : Nat) (old : Bool) : Ev := ⟨"xchg", plLoc k, b2s old, "1"⟩
def evLdPl (k : Nat) (v : Bool) : Ev := ⟨"ld", plLoc k, b2s v, ""⟩
def evStPl (k : Nat) : Ev := ⟨"st", plLoc k, "0", ""⟩

/-! ### Transitions -/

/-- Client discipline: `unlock n` is only called by the thread inside the critical section of node `n`; `lock n`
    is not called by a thread that is already inside it (the pool locks are not re-entrant: self-deadlock).
    The first argument of every operation is the calling thread (as in the harness histories) and is not used. -/
def invoke (s : St) (t : Tid) (op : GOp) : Option St :=
  match s.pc t, op.name, op.args with
  | .idle, "lock", [_, n] => if s.cs t n.toNat then none else some { s with pc := upd s.pc t (.lkLd n.toNat) }
  | .idle, "unlock", [_, n] => if s.cs t n.toNat then some { s with pc := upd s.pc t (.unRel n.toNat) } else none
  | _, _, _ => none

def step (s : St) (t : Tid) : Option (St × Ev) :=
  match s.pc t with
  | .lkLd n =>
    some ({ s with pc := upd s.pc t (.lkCas n (clr (s.refspin n))) }, evLdRef n (s.refspin n))
  | .lkCas n cur =>
    if s.refspin n = cur then
      some ({ s with refspin := upd s.refspin n (cur + 3), pc := upd s.pc t (.lkSt n cur),
                     users := upd s.users n (t :: s.users n), sbit := upd s.sbit n (some t) },
            evCasOk n cur (cur + 3))
    else
      some ({ s with pc := upd s.pc t (.lkCas n (clr (s.refspin n))) }, evCasFail n (s.refspin n) cur)
  | .lkSt n cur =>
    match s.plock n with
    | some k =>
      some ({ s with refspin := upd s.refspin n (cur + 2), pc := upd s.pc t (.lkTas n k),
                     sbit := upd s.sbit n none }, evStRef n (cur + 2))
    | none =>
      match s.pool with
      | k :: rest =>
        some ({ s with plock := upd s.plock n (some k), pool := rest,
                       refspin := upd s.refspin n (cur + 2), pc := upd s.pc t (.lkTas n k),
                       sbit := upd s.sbit n none }, evStRef n (cur + 2))
      | [] =>
        some ({ s with plock := upd s.plock n (some s.fresh), fresh := s.fresh + 1,
                       refspin := upd s.refspin n (cur + 2), pc := upd s.pc t (.lkTas n s.fresh),
                       sbit := upd s.sbit n none }, evStRef n (cur + 2))
  | .lkTas n k =>
    if s.lheld k then
      some ({ s with pc := upd s.pc t (.lkWait n k) }, evXchg k true)
    else
      some ({ s with lheld := upd s.lheld k true, pc := upd s.pc t (.done []),
                     cs := upd2 s.cs t n true, lowner := upd s.lowner k (some t) }, evXchg k false)
  | .lkWait n k =>
    some ({ s with pc := upd s.pc t (if s.lheld k then .lkWait n k else .lkTas n k) }, evLdPl k (s.lheld k))
  | .unRel n =>
    match s.plock n with
    | some k =>
      some ({ s with lheld := upd s.lheld k false, pc := upd s.pc t (.unLd n),
                     cs := upd2 s.cs t n false, lowner := upd s.lowner k none }, evStPl k)
    | none => none     -- m_pLock == nullptr here is undefined behaviour in the source; unreachable (`unRel_enabled`)
  | .unLd n =>
    some ({ s with pc := upd s.pc t (.unCas n (clr (s.refspin n))) }, evLdRef n (s.refspin n))
  | .unCas n cur =>
    if s.refspin n = cur then
      some ({ s with refspin := upd s.refspin n (cur + 1), pc := upd s.pc t (.unSt n cur),
                     sbit := upd s.sbit n (some t) }, evCasOk n cur (cur + 1))
    else
      some ({ s with pc := upd s.pc t (.unCas n (clr (s.refspin n))) }, evCasFail n (s.refspin n) cur)
  | .unSt n cur =>
    if cur = 2 then
      some ({ s with plock := upd s.plock n none, refspin := upd s.refspin n (cur - 2),
                     pc := upd s.pc t (.fin (s.plock n)),
                     users := upd s.users n ((s.users n).erase t), sbit := upd s.sbit n none },
            evStRef n (cur - 2))
    else
      some ({ s with refspin := upd s.refspin n (cur - 2), pc := upd s.pc t (.fin none),
                     users := upd s.users n ((s.users n).erase t), sbit := upd s.sbit n none },
            evStRef n (cur - 2))
  | _ => none

def result (s : St) (t : Tid) : Option (St × GRet) :=
  match s.pc t with
  | .done r => some ({ s with pc := upd s.pc t .idle }, r)
  | .fin none => some ({ s with pc := upd s.pc t .idle }, [])
  | .fin (some k) => some ({ s with pool := s.pool ++ [k], pc := upd s.pc t .idle }, [])
  | _ => none

def model : Model St := ⟨invoke, step, result⟩

/-- The trace lines of a run, as the harness prints them. -/
def render (os : List (Tid × Obs)) : List String :=
  os.map fun (t, o) => match o with
    | .call op => s!"T {t} CALL {op.name} {op.args}"
    | .ev e => s!"T {t} A {e}"
    | .ret r => s!"T {t} RET {r}"

/-- The atomic events of a run, with the acting thread. -/
def events (os : List (Tid × Obs)) : List (Tid × Ev) :=
  os.filterMap fun (t, o) => match o with
    | .ev e => some (t, e)
    | _ => none

end CdsVerif.Algo.PoolMonitor

/-
  C20 — sequential semantics derived from history-level theorems, second part: the typed SPSC ring buffer (C12),
  TaggedFreeList (C21) and the sequential CuckooSet model (C17).  Same method as `Props/C20Seq.lean`
  (`Base/SeqHistory.lean`): a sequential history has one linearization order, hence linearizability collapses to
  "legal run of the specification in program order".

  * Ring buffer: the machine has a producer thread (0) and a consumer thread (1), so "sequential use" is stated on
    the HISTORY (`Sequential (historyOf os)`, a decidable predicate: one thread at a time issues a complete
    operation), not on the schedule.
  * TaggedFreeList: the bag specification is non-deterministic in which node `get` returns; the statement is
    `Legal bagT [] (records in program order)`, the records being exactly the calls and results of the run.
  * CuckooSet: `_partial`, under the two hypotheses that are the two recorded findings (an insert may not return;
    a resize may drop keys).
-/
import CdsVerif.Props.C20Seq
import CdsVerif.Props.C12RingLin
import CdsVerif.Props.C21FreeListsLin
import CdsVerif.Props.C17Cuckoo
namespace CdsVerif.Props.C20Seq2
open CdsVerif.Machine CdsVerif.Lin CdsVerif.Spec CdsVerif.Algo CdsVerif.SeqHistory CdsVerif.Props.C20Seq

/-! ### Generic: renaming the operations of the records keeps a history sequential -/

theorem sequential_map {Op Ret Op' Ret' : Type} (f : OpRec Op Ret → OpRec Op' Ret')
    (hf : ∀ r, (f r).inv = r.inv ∧ (f r).res = r.res) (l : List (OpRec Op Ret)) (h : Sequential l) :
    Sequential (l.map f) := by
  refine ⟨?_, ?_⟩
  · rw [List.pairwise_map]
    exact h.1.imp (fun {a b} hab => by rw [(hf a).2, (hf b).1]; exact hab)
  · intro o ho
    obtain ⟨r, hr, rfl⟩ := List.mem_map.mp ho
    rw [(hf r).1, (hf r).2]; exact h.2 r hr

/-! ### The typed SPSC ring buffer (C12) → `Spec.bfifo cap` / `Ring.ringSpec cap` -/

/-- **C20 for WeakRingBuffer, single-element operations.**  Every complete run (producer and consumer idle at the
    end) whose history is sequential — the producer and the consumer never have operations in flight at the same
    time — returns exactly the results of the sequential bounded FIFO queue of capacity `cap`, run over the
    operations of the history in order (renamed by `Ring.specOp`: `push v ↦ enq v`, `pop ↦ deq`, `front ↦ front`).
    Hypotheses `0 < cap` and `SingleOps` as in `C12_ring_linearizable`. -/
theorem C20_ring_sequential (cap : Nat) (hcap : 0 < cap) (sched : List (Tid × Act)) (s : Ring.St)
    (os : List (Tid × Obs)) (h : Ring.model.run (Ring.init cap) sched = some (s, os)) (hsingle : Ring.SingleOps os)
    (hp : s.pp = .idle) (hc : s.cp = .idle) (hseq : Sequential (QueueLin.historyOf os)) :
    specRun (bfifoStep cap) [] ((QueueLin.historyOf os).map (fun r => Ring.specOp r.op))
      = some ((QueueLin.historyOf os).map (·.ret)) := by
  have hlin := C12RingLin.C12_ring_linearizable_complete_runs cap hcap sched s os h hsingle hp hc
  have hseq' := sequential_map Ring.specRec (fun r => ⟨rfl, rfl⟩) _ hseq
  have := (linearizable_iff_specRun [] (bfifoStep cap) _ hseq').mp hlin
  simpa [List.map_map, Function.comp_def, Ring.specRec] using this

/-- **C20 for WeakRingBuffer, every program** (batches `push v1 … vk`, `pop k`, … included): the results are those
    of `Ring.ringStep cap`, the bounded FIFO with all-or-nothing batches, in the machine's own vocabulary. -/
theorem C20_ring_sequential_batches (cap : Nat) (hcap : 0 < cap) (sched : List (Tid × Act)) (s : Ring.St)
    (os : List (Tid × Obs)) (h : Ring.model.run (Ring.init cap) sched = some (s, os))
    (hp : s.pp = .idle) (hc : s.cp = .idle) (hseq : Sequential (QueueLin.historyOf os)) :
    specRun (Ring.ringStep cap) [] ((QueueLin.historyOf os).map (·.op))
      = some ((QueueLin.historyOf os).map (·.ret)) := by
  obtain ⟨extra, hex, -, hlin⟩ := C12RingLin.C12_ring_linearizable_batches cap hcap sched s os h
  have hnil : extra = [] := by
    apply List.eq_nil_iff_forall_not_mem.mpr
    intro e he
    have := (hex e he).2.2
    simp [Ring.lpRet, hp, hc, Ring.pRet, Ring.cRet] at this
  rw [hnil, List.append_nil] at hlin
  exact (linearizable_iff_specRun [] (Ring.ringStep cap) _ hseq).mp hlin

/-- One thread at a time (capacity 2): consumer pops from the empty buffer (fails), producer pushes 7, 8, pushes 9
    into the full buffer (fails), consumer reads the front, pops 7, producer pushes 9, consumer pops 8, 9, fails. -/
def ringProg : List (Tid × GOp) :=
  [(1, ⟨"pop", []⟩), (0, ⟨"push", [7]⟩), (0, ⟨"push", [8]⟩), (0, ⟨"push", [9]⟩), (1, ⟨"front", []⟩), (1, ⟨"pop", []⟩),
   (0, ⟨"push", [9]⟩), (1, ⟨"pop", []⟩), (1, ⟨"pop", []⟩), (1, ⟨"pop", []⟩)]

/-- The schedule that executes the operations of `prog` one after the other, each on its own thread. -/
def seqSched2 {σ : Type} (m : Model σ) (fuel : Nat) : σ → List (Tid × GOp) → List (Tid × Act)
  | _, [] => []
  | s, (t, op) :: ops =>
    match m.invoke s t op with
    | none => []
    | some s1 =>
      match driveSteps m t fuel s1 with
      | none => []
      | some (s2, acts) => (t, Act.invoke op) :: acts ++ seqSched2 m fuel s2 ops

def ringSched : List (Tid × Act) := seqSched2 Ring.model 50 (Ring.init 2) ringProg

def ringOpsB : List GOp :=
  [⟨"deq", []⟩, ⟨"enq", [7]⟩, ⟨"enq", [8]⟩, ⟨"enq", [9]⟩, ⟨"front", []⟩, ⟨"deq", []⟩, ⟨"enq", [9]⟩, ⟨"deq", []⟩,
   ⟨"deq", []⟩, ⟨"deq", []⟩]

set_option synthInstance.maxSize 4000 in
/-- The hypotheses hold for that run (both threads idle at the end, single-element operations, sequential history)
    and the results are those of `bfifo 2`. -/
example : ringSched.length = 42 ∧
    (Ring.model.run (Ring.init 2) ringSched).map (fun r =>
      (decide (r.1.pp = .idle), decide (r.1.cp = .idle), Ring.singleOpsB r.2,
       decide (Sequential (QueueLin.historyOf r.2)),
       (QueueLin.historyOf r.2).map (fun x => Ring.specOp x.op), (QueueLin.historyOf r.2).map (·.ret)))
      = some (true, true, true, true, ringOpsB, [[0], [1], [1], [0], [1, 7], [1, 7], [1], [1, 8], [1, 9], [0]]) ∧
    specRun (bfifoStep 2) [] ringOpsB = some [[0], [1], [1], [0], [1, 7], [1, 7], [1], [1, 8], [1, 9], [0]] := by
  decide +kernel

/-! ### TaggedFreeList (C21) → the bag `BagLin.bagT` -/

namespace TaggedP
open TaggedFreeList

theorem invoke_shape (s : TaggedFreeList.St) (t : Tid) (op : GOp) (s' : TaggedFreeList.St)
    (h : TaggedFreeList.model.invoke s t op = some s') :
    s.pc t = .idle ∧ s'.pc t ≠ .idle ∧ ∀ u, u ≠ t → s'.pc u = s.pc u := by
  change TaggedFreeList.invoke s t op = some s' at h
  unfold TaggedFreeList.invoke at h
  repeat' split at h
  all_goals first
    | (cases h; done)
    | (simp only [Option.some.injEq] at h; subst h
       exact ⟨by assumption, by simp only [upd_same]; first | (intro hx; cases hx; done) | grind,
         fun u hu => by simp [upd, hu]⟩)

theorem step_shape (s : TaggedFreeList.St) (t : Tid) (s' : TaggedFreeList.St) (e : Ev)
    (h : TaggedFreeList.model.step s t = some (s', e)) :
    s.pc t ≠ .idle ∧ s'.pc t ≠ .idle ∧ ∀ u, u ≠ t → s'.pc u = s.pc u := by
  change TaggedFreeList.step s t = some (s', e) at h
  have hne : s.pc t ≠ .idle := fun hi => by simp [TaggedFreeList.step, hi] at h
  refine ⟨hne, ?_⟩
  unfold TaggedFreeList.step at h
  repeat' (first | split at h | (dsimp only at h; split at h))
  all_goals first
    | (cases h; done)
    | (simp only [Option.some.injEq, Prod.mk.injEq] at h; obtain ⟨h1, -⟩ := h; subst h1
       first
         | exact ⟨hne, fun _ _ => rfl⟩
         | exact ⟨by simp only [upd_same]; first | (intro hx; cases hx; done) | ((try simp only [TaggedFreeList.getLoop]); grind),
             fun u hu => by simp [upd, hu]⟩)

theorem result_shape (s : TaggedFreeList.St) (t : Tid) (s' : TaggedFreeList.St) (r : GRet)
    (h : TaggedFreeList.model.result s t = some (s', r)) :
    s.pc t ≠ .idle ∧ s'.pc t = .idle ∧ ∀ u, u ≠ t → s'.pc u = s.pc u := by
  change TaggedFreeList.result s t = some (s', r) at h
  refine ⟨fun hi => by simp [TaggedFreeList.result, hi] at h, ?_⟩
  unfold TaggedFreeList.result at h
  repeat' split at h
  all_goals first
    | (cases h; done)
    | (simp only [Option.some.injEq, Prod.mk.injEq] at h; obtain ⟨h1, -⟩ := h; subst h1
       exact ⟨by simp, fun u hu => by simp [upd, hu]⟩)

theorem protocol : Protocol TaggedFreeList.model (fun s t => s.pc t = .idle) :=
  Protocol.ofPC TaggedFreeList.model (fun s => s.pc) .idle invoke_shape step_shape result_shape

end TaggedP

/-- **C20 for TaggedFreeList.**  In every single-threaded complete run (thread `t0` only, idle at the end; any
    initial ownership `own0` of the nodes), the records of the history are exactly the calls and the results of
    the run, in program order, and they form a legal sequential execution of the bag: every `put n` adds a node
    that is not in the bag, every `get → n` removes a node that is in the bag, `get → empty` only on the empty
    bag.  (The bag does not say WHICH node `get` returns, hence `Legal` rather than `specRun`.) -/
theorem C20_tagged_freelist_sequential (own0 : Nat → Tid) (t0 : Tid) (sched : List (Tid × Act))
    (s : TaggedFreeList.St) (os : List (Tid × Obs))
    (h : TaggedFreeList.model.run (TaggedFreeList.init own0) sched = some (s, os))
    (hst : ∀ x ∈ sched, x.1 = t0) (hid : s.pc t0 = .idle) :
    Legal BagLin.bagT [] (SeqHistory.historyOf os) ∧
      (SeqHistory.historyOf os).map (·.op) = callsOf os ∧ (SeqHistory.historyOf os).map (·.ret) = retsOf os := by
  have hidle := run_all_idle TaggedFreeList.model _ TaggedP.protocol t0 sched _ s os h hst (fun _ => rfl) hid
  have hlin := C21FreeListsLin.C21_tagged_bag_linearizable_no_effect_pending own0 sched s os h
    (fun t => by rw [hidle t]; rfl)
  have e : QueueLin.historyOf os = SeqHistory.historyOf os := historyOf_eq_QueueLin os
  rw [e] at hlin
  have hseq := run_history_sequential TaggedFreeList.model sched _ s os h t0 hst
  exact ⟨(linearizable_iff_legal BagLin.bagT _ hseq).mp hlin,
    C20_single_thread_run_history TaggedFreeList.model _ TaggedP.protocol t0 sched _ s os h hst rfl hid⟩

/-- Decidable form of `Legal bagT` for the examples. -/
def legalB {σ : Type} (spec : Lin.Spec σ GOp GRet) : σ → List (OpRec GOp GRet) → Bool
  | _, [] => true
  | s, o :: l => match spec.next s o.op o.ret with
    | some s' => legalB spec s' l
    | none => false

theorem legal_of_legalB {σ : Type} (spec : Lin.Spec σ GOp GRet) : ∀ (l : List (OpRec GOp GRet)) (s : σ),
    legalB spec s l = true → Legal spec s l := by
  intro l
  induction l with
  | nil => intro s _; trivial
  | cons o l ih =>
    intro s h
    simp only [legalB] at h
    cases hn : spec.next s o.op o.ret with
    | none => simp [hn] at h
    | some s' => simp only [hn] at h; exact ⟨s', hn, ih s' h⟩

def taggedOps : List GOp :=
  [⟨"get", [0]⟩, ⟨"put", [0, 1]⟩, ⟨"put", [0, 2]⟩, ⟨"get", [0]⟩, ⟨"put", [0, 3]⟩, ⟨"get", [0]⟩, ⟨"get", [0]⟩, ⟨"get", [0]⟩]
def taggedSched : List (Tid × Act) :=
  seqSched TaggedFreeList.model 0 50 (TaggedFreeList.init (fun _ => 0)) taggedOps

/-- All nodes owned by thread 0: get on the empty list fails, put 1, put 2, get → 2, put 3, get → 3, get → 1, get
    fails; the history is a legal run of the bag. -/
example : taggedSched.length = 36 ∧ taggedSched.all (fun x => x.1 == 0) = true ∧
    seqDemo TaggedFreeList.model (fun s => decide (s.pc 0 = .idle)) (TaggedFreeList.init (fun _ => 0)) taggedSched
      = some (true, taggedOps, [[0], [1], [1], [1, 2], [1], [1, 3], [1, 1], [0]]) ∧
    (TaggedFreeList.model.run (TaggedFreeList.init (fun _ => 0)) taggedSched).map
      (fun r => legalB BagLin.bagT [] (SeqHistory.historyOf r.2)) = some true := by decide +kernel

/-! ### The sequential CuckooSet model (C17) → set semantics, `_partial` -/

section Cuckoo
open CdsVerif.Algo.Cuckoo

inductive SetOp | ins | era | con
deriving DecidableEq, Repr

/-- `insert [k]`, `erase [k]`, `contains [k]`. -/
def decodeSet (op : GOp) : Option (SetOp × Int) :=
  match op.name, op.args with
  | "insert", [k] => some (.ins, k)
  | "erase", [k] => some (.era, k)
  | "contains", [k] => some (.con, k)
  | _, _ => none

def b2i (b : Bool) : GRet := [if b then 1 else 0]

/-- The sequential set (the key part of `Spec.mapStep`): insert fails iff the key is present, erase succeeds iff it
    is present, contains iff it is present. -/
def setStep (m : List Int) (op : GOp) : Option (List Int × GRet) :=
  match decodeSet op with
  | some (.ins, k) => if k ∈ m then some (m, b2i false) else some (k :: m, b2i true)
  | some (.era, k) => if k ∈ m then some (m.filter (fun q => decide (q ≠ k)), b2i true) else some (m, b2i false)
  | some (.con, k) => some (m, b2i (decide (k ∈ m)))
  | none => none

/-- The operations run on the CuckooSet model: the results, and the keys dropped by the resizes of the inserts;
    `none` when an insert does not return within `fuel` rounds (or the operation is not a set operation). -/
def cuckooRun (c : Cfg) (fuel : Nat) : St → List GOp → Option (List GRet × List Int)
  | _, [] => some ([], [])
  | s, op :: ops =>
    match decodeSet op with
    | some (.ins, k) =>
      match insertLoop c fuel s k with
      | none => none
      | some (s', r, lost) => (cuckooRun c fuel s' ops).map (fun p => (b2i r :: p.1, lost ++ p.2))
    | some (.era, k) => (cuckooRun c fuel (erase c s k).1 ops).map (fun p => (b2i (erase c s k).2 :: p.1, p.2))
    | some (.con, k) => (cuckooRun c fuel s ops).map (fun p => (b2i (contains c s k) :: p.1, p.2))
    | none => none

theorem cuckoo_run_spec (c : Cfg) (fuel : Nat) : ∀ (ops : List GOp) (s : St) (m : List Int) (rets : List GRet),
    CInv c s → (∀ q, contains c s q = decide (q ∈ m)) → cuckooRun c fuel s ops = some (rets, []) →
    specRun setStep m ops = some rets := by
  intro ops
  induction ops with
  | nil => intro s m rets _ _ h; simp only [cuckooRun, Option.some.injEq, Prod.mk.injEq] at h; simp [specRun, ← h.1]
  | cons op ops ih =>
    intro s m rets hi hm h
    simp only [cuckooRun] at h
    simp only [specRun, setStep]
    rcases hd : decodeSet op with _ | ⟨kind, k⟩
    · simp [hd] at h
    · cases kind with
      | ins =>
        simp only [hd] at h ⊢
        rcases hl : insertLoop c fuel s k with _ | ⟨s', r, lost⟩
        · simp [hl] at h
        · simp only [hl, Option.map_eq_some_iff, Prod.mk.injEq, Prod.exists] at h
          obtain ⟨rs, lost2, hrun, hrets, hlost⟩ := h
          obtain ⟨hl1, hl2⟩ := List.append_eq_nil_iff.mp hlost
          subst hl1; subst hl2
          obtain ⟨hi', hr, hc', -⟩ := C17_cuckoo_insert_partial c fuel s s' k r hi hl
          have hk := hm k
          by_cases hmem : k ∈ m
          · have hrec := ih s' m rs hi' (fun q => by
              rw [hc', hm q]; by_cases e : q = k
              · subst e; simp [hmem]
              · simp [e]) hrun
            simp only [hmem, if_true, hrec, Option.map_some]
            rw [← hrets, hr, hk]; simp [hmem]
          · have hrec := ih s' (k :: m) rs hi' (fun q => by
              rw [hc', hm q]; by_cases e : q = k
              · subst e; simp
              · simp [e]) hrun
            simp only [hmem, if_false, hrec, Option.map_some]
            rw [← hrets, hr, hk]; simp [hmem]
      | era =>
        simp only [hd, Option.map_eq_some_iff, Prod.mk.injEq, Prod.exists] at h ⊢
        obtain ⟨rs, lost2, hrun, hrets, hlost⟩ := h
        subst hlost
        obtain ⟨hi', hr, hc', -⟩ := C17_cuckoo_erase c s hi k
        have hk := hm k
        have hrec := ih (erase c s k).1 (m.filter (fun q => decide (q ≠ k))) rs hi' (fun q => by
          rw [hc', hm q]; by_cases e : q = k
          · subst e; simp
          · simp [e]) hrun
        by_cases hmem : k ∈ m
        · simp only [hmem, if_true, hrec, Option.map_some]
          rw [← hrets, hr, hk]; simp [hmem]
        · have hf : m.filter (fun q => decide (q ≠ k)) = m := by
            apply List.filter_eq_self.mpr
            intro a ha; simp; intro e; exact hmem (e ▸ ha)
          rw [hf] at hrec
          simp only [hmem, if_false, hrec, Option.map_some]
          rw [← hrets, hr, hk]; simp [hmem]
      | con =>
        simp only [hd, Option.map_eq_some_iff, Prod.mk.injEq, Prod.exists] at h ⊢
        obtain ⟨rs, lost2, hrun, hrets, hlost⟩ := h
        subst hlost
        have hrec := ih s m rs hi hm hrun
        simp only [hrec]
        rw [← hrets, hm k]
        exact ⟨rs, rfl, rfl⟩

/-- **C20 for the sequential CuckooSet model, PARTIAL.**  For every configuration (hash functions, probe-set size,
    threshold), every initial size and every sequence of `insert` / `erase` / `contains` from the empty set:
    IF (1) every insert returns within `fuel` rounds (`cuckooRun … = some …`; CuckooSet::insert may double its tables
    for ever: known finding C17-cuckoo-endless-resize) and (2) the resizes of the inserts dropped no key (`lost = []`;
    known finding C17-cuckoo-resize-drop), THEN the results are exactly those of the sequential set: insert fails iff
    the key is present, erase succeeds iff it is present, contains iff it is present.
    Missing for the full statement: the two hypotheses, which are false for the real container in general
    (`C17_cuckoo_resize_can_drop`, `C17_cuckoo_witness_run`); they hold e.g. whenever every insert finds a probe set
    below the threshold (`C17_cuckoo_insert_below_threshold`). -/
theorem C20_cuckoo_sequential_partial (c : Cfg) (fuel init : Nat) (ops : List GOp) (rets : List GRet)
    (lost : List Int) (hret : cuckooRun c fuel (initSt init) ops = some (rets, lost)) (hlost : lost = []) :
    specRun setStep [] ops = some rets := by
  subst hlost
  refine cuckoo_run_spec c fuel ops (initSt init) [] rets (C17_cuckoo_empty_inv c init) (fun q => ?_) hret
  have h1 := C17_cuckoo_contains_iff c (initSt init) (C17_cuckoo_empty_inv c init) q
  have h2 : (initSt init).elems = [] := by simp [initSt, empty, St.elems]
  rw [h2] at h1
  cases hc : contains c (initSt init) q
  · simp
  · exact absurd (h1.mp hc) (by simp)

def cuckooOps : List GOp :=
  [⟨"insert", [3]⟩, ⟨"insert", [6]⟩, ⟨"insert", [3]⟩, ⟨"contains", [6]⟩, ⟨"erase", [3]⟩, ⟨"erase", [3]⟩, ⟨"contains", [3]⟩,
   ⟨"insert", [1]⟩, ⟨"insert", [9]⟩, ⟨"insert", [12]⟩, ⟨"contains", [9]⟩]

/-- (configuration of the kept witness, 4 buckets) insert 3, insert 6, insert of the present key 3 fails,
    contains 6, erase 3, erase 3 fails, contains 3 → no, insert 1, 9, 12, contains 9: every insert returns, nothing is
    lost, and the results are those of the sequential set. -/
example : cuckooRun witnessCfg 12 (initSt 4) cuckooOps
      = some ([[1], [1], [0], [1], [1], [0], [0], [1], [1], [1], [1]], []) ∧
    specRun setStep [] cuckooOps = some [[1], [1], [0], [1], [1], [0], [0], [1], [1], [1], [1]] := by decide +kernel

/-- The corollary applied to that run. -/
example : specRun setStep [] cuckooOps = some [[1], [1], [0], [1], [1], [0], [0], [1], [1], [1], [1]] :=
  C20_cuckoo_sequential_partial witnessCfg 12 4 cuckooOps _ [] (by decide +kernel) rfl

/-- Hypothesis (2) is not idle: on the kept witness of C17 the inserts do return, but a resize drops a key
    (`lost ≠ []`), and the results differ from the sequential set from then on. -/
example : (cuckooRun witnessCfg 12 (initSt 4)
      (witnessOps.map (fun o => (⟨if o.1 then "insert" else "erase", [o.2]⟩ : GOp)))).map (fun p => p.2 == []) =
    some false := by decide +kernel

end Cuckoo

end CdsVerif.Props.C20Seq2

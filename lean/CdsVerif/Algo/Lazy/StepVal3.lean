/-
  Preservation of the LazyList invariant, and the effect on the abstract map: the last load of `validate` (`pPred->m_pNext.load() == pCur`) and the decision taken under the locks: linearization point of a failing `insert`, of an `update` that finds its key, of a refused `update`, of a failing `erase` / `extract`.
-/
import CdsVerif.Algo.Lazy.Inv
namespace CdsVerif.Algo.Lazy
open CdsVerif.Machine CdsVerif.Spec CdsVerif.Lin
open CdsVerif.Algo.Michael (Chain insAfter mem_insAfter pairwise_insAfter LPok)

set_option maxHeartbeats 16000000 in
theorem sinvl_step_v3 {s s' : St} {t : Tid} {ev : Ev} {L : List Nat} {o : OpK} {p c : Nat}
    (h : SInvL s L) (hpc : s.pc t = .v3 o p c) (hs : step s t = some (s', ev)) :
    ∃ L', SInvL s' L' ∧ StepEff s t s' L L' := by
  have hz := h.zero_mem
  have hprev := h.lkPrev t p (by simp [hpc, pcPrev])
  have hcur := h.lkCur t c (by simp [hpc, pcCur])
  have hkprev := h.keyPrev t p (by simp [hpc, pcPrev])
  have hkcur := h.keyCur t c (by simp [hpc, pcCur])
  simp only [hpc, skey] at hkprev hkcur
  have hunp := h.unmP t p (by simp [hpc, knowUnmP])
  have hunc := h.unmC t c (by simp [hpc, knowUnmC])
  have hpL : p ∈ L := hprev.2.resolve_right (by simp [hunp])
  have hcL : c ∈ L := hcur.2.resolve_right (by simp [hunc])
  have hagp := h.agree p hunp
  have hpres := fun r => h.lp_present (c := c) (o := o) (r := r) hcL hcur.1
  have habs := fun r => h.lp_absent (p := p) (c := c) (o := o) (r := r) hpL hprev.1 hkprev
  have hrepl : ∀ n k v allow, o = .upd n k v allow true → c ≠ 1 → s.key c = k →
      LPok (Has s.mark s.key s.val L) (gop o) [1, 0] (Has s.mark s.key (upd s.val c v) L) := by
    intro n k v allow ho hc1 hk
    subst ho
    exact LPok.repl (v0 := s.val c) ⟨c, hcL, hcur.1, hc1, hunc, hk, rfl⟩
      (fun j w => by rw [has_setval h.sorted hcL hcur.1 hc1 hunc, hk])
  pc_facts
  sinv_open h
  simp only [step, hpc] at hs
  split at hs
  next hv =>
    simp at hs; obtain ⟨rfl, -⟩ := hs
    obtain ⟨hv1, hv2⟩ := hv
    have hsc : s.succ p = some c := by rw [← hagp]; exact hv1
    by_cases he : c ≠ 1 ∧ s.key c = okey o
    · have hie : isEq s.key o c = true := by simp [isEq, he]
      cases o with
      | ins n k v => simp only [action, actionVal, hie, if_true]; step_close L
      | upd n k v allow repl =>
        cases repl with
        | true =>
          have hr := hrepl n k v allow rfl he.1 he.2
          simp only [action, actionVal, hie, if_true, and_self]; step_close L
        | false => simp only [action, actionVal, hie, if_true]; simp; step_close L
      | era k => simp only [action, actionVal, hie, if_true]; step_close L
      | ext k => simp only [action, actionVal, hie, if_true]; step_close L
      | fnd k => simp only [action, actionVal]; step_close L
      | con k => simp only [action, actionVal]; step_close L
    · have hie : isEq s.key o c = false := by simp [isEq, he]
      have hgt' : c = 1 ∨ okey o < s.key c := by
        rcases hkcur with e | e
        · exact Or.inl e
        · by_cases e1 : c = 1
          · exact Or.inl e1
          · right
            have : s.key c ≠ okey o := fun e2 => he ⟨e1, e2⟩
            omega
      have habs' := fun r => habs r hsc hgt'
      cases o with
      | ins n k v => simp only [action, actionVal, hie]; simp; step_close L
      | upd n k v allow repl =>
        by_cases ha : allow = 0
        · subst ha; simp only [action, actionVal, hie]; simp; step_close L
        · simp only [action, actionVal, hie]; simp [ha]; step_close L
      | era k => simp only [action, actionVal, hie]; simp; step_close L
      | ext k => simp only [action, actionVal, hie]; simp; step_close L
      | fnd k => simp only [action, actionVal]; step_close L
      | con k => simp only [action, actionVal]; step_close L
  next hv =>
    simp at hs; obtain ⟨rfl, -⟩ := hs
    step_close L

end CdsVerif.Algo.Lazy

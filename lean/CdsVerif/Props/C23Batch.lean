/-
  Flat-combining parts of C06 (FCQueue), C09 (FCStack), C11 (FCPriorityQueue): a combiner pass over a batch of
  publication records is a sequential execution of a permutation of the batch.

  Property theorems about the pure transcriptions of `fc_apply` / `fc_process` / `collide`
  (CdsVerif/Algo/FC/Batch.lean; C++: cds/container/fcqueue.h, fcstack.h, fcpriority_queue.h).
  The deque is in Props/C10.lean.  All requests of a batch are pending at the same time, so every permutation of
  the batch respects real time: the theorems below are what makes a combiner pass linearizable.
-/
import CdsVerif.Algo.FC.Batch
namespace CdsVerif.Props.C23Batch
open CdsVerif.Lin CdsVerif.Spec CdsVerif.Algo.FC

/-! ### FCQueue -/

/-- EXACTLY when `FCQueue::collide( *itPrev, *it )` succeeds: one is an enqueue, the other a dequeue, in either
    order; the dequeue receives the enqueued value. -/
theorem C06_fcqueue_collide_rule (prev it : QReq) :
    (queueCollide prev it).isSome = true ↔
      ((prev.kind = .enq ∨ prev.kind = .enqMove) ∧ it.kind = .deq) ∨
      (prev.kind = .deq ∧ (it.kind = .enq ∨ it.kind = .enqMove)) := by
  obtain ⟨pk, pv⟩ := prev
  obtain ⟨ik, iv⟩ := it
  cases ik <;> cases pk <;> simp [queueCollide]

theorem C06_fcqueue_collide_values (prev it : QReq) (a b : Resp) (h : queueCollide prev it = some (a, b)) :
    (it.kind = .deq ∧ a = [1] ∧ b = [1, prev.val]) ∨ (prev.kind = .deq ∧ a = [1, it.val] ∧ b = [1]) := by
  obtain ⟨pk, pv⟩ := prev
  obtain ⟨ik, iv⟩ := it
  cases ik <;> cases pk <;> simp [queueCollide] at h ⊢ <;> (obtain ⟨rfl, rfl⟩ := h; simp)

/-- An enqueue is collided with a dequeue ONLY WHEN THE QUEUE IS EMPTY: on a non-empty queue `fc_process` marks
    nothing and collides nothing. -/
theorem C06_fcqueue_collide_only_if_empty (q : List Int) (rs : List QReq) (hq : q ≠ []) :
    queueCollisions q rs = [] ∧ (queueProcess q rs).2 = rs.map (fun _ => none) := by
  have he : q.isEmpty = false := by cases q <;> simp_all
  have hpart : ∀ r, queuePart false r = false := by
    intro r; obtain ⟨k, v⟩ := r; cases k <;> rfl
  have hgo : ∀ (l : List QReq) (prev : Option QReq),
      elimGo (queuePart false) queueCollide prev (l.map (fun r => (r, none))) =
        (none, l.map (fun r => (r, none)), []) := by
    intro l
    induction l with
    | nil => intro prev; rfl
    | cons r l ih => intro prev; simp [elimGo, hpart, ih]
  simp [queueCollisions, queueProcess, elimPairs, elimPass, he, hgo, Function.comp_def]

/-- Every pair collided in a batch passed the test above, and the queue was empty. -/
theorem C06_fcqueue_collisions_in_batch (q : List Int) (rs : List QReq) :
    ∀ pr ∈ queueCollisions q rs, q = [] ∧ (queueCollide pr.1 pr.2).isSome = true := by
  intro pr hpr
  have h := elimGo_pairs (queuePart q.isEmpty) queueCollide _ none (by intro p hp; cases hp) pr hpr
  refine ⟨?_, h.2.2⟩
  have h1 := h.1
  obtain ⟨⟨k, v⟩, r2⟩ := pr
  cases q with
  | nil => rfl
  | cons x xs => cases k <;> simp [queuePart] at h1

theorem C06_fcqueue_apply_is_spec (q : List Int) (r : QReq) (h : r.kind ≠ .clear) :
    fifoStep q r.toGOp = some (queueApply q r) := by
  rw [← fifoStepC_eq_fifoStep q r h]; exact queueApply_spec q r

/-- General form: `n` walks of `fc_process`, then `combining_pass`; `clear` allowed (`Spec.fifoStep` + `clear`). -/
theorem C06_fcqueue_session_refines (n : Nat) (q : List Int) (rs : List QReq) :
    (queueBatch n q rs).2.length = rs.length ∧
    ∃ perm : List (QReq × Resp), perm.Perm (rs.zip (queueBatch n q rs).2) ∧
      seqRun (fun s (r : QReq) => fifoStepC s r.toGOp) q perm = some (queueBatch n q rs).1 :=
  batch_refines (queuePart q.isEmpty) queueCollide queueSpec q queueApply queueApply_spec
    (fun p r a b hp _ hc => queueCollide_noop q p r a b hp hc) n rs

theorem C06_fcqueue_session_refines_spec (n : Nat) (q : List Int) (rs : List QReq) (hnc : ∀ r ∈ rs, r.kind ≠ .clear) :
    (queueBatch n q rs).2.length = rs.length ∧
    ∃ perm : List (QReq × Resp), perm.Perm (rs.zip (queueBatch n q rs).2) ∧
      seqRun (fun s (r : QReq) => fifoStep s r.toGOp) q perm = some (queueBatch n q rs).1 := by
  obtain ⟨hl, perm, hp, hrun⟩ := C06_fcqueue_session_refines n q rs
  refine ⟨hl, perm, hp, ?_⟩
  rw [← hrun]
  apply seqRun_congr
  intro x hx s
  have hx' : x.1 ∈ rs := by
    have : x ∈ rs.zip (queueBatch n q rs).2 := hp.mem_iff.mp hx
    obtain ⟨r, a⟩ := x
    exact (List.of_mem_zip this).1
  exact (fifoStepC_eq_fifoStep s x.1 (hnc x.1 hx')).symm

/-- For every queue `q` and batch `rs` of enqueue / dequeue requests: the responses of `fc_process` followed by
    `fc_apply` on the rest are those of executing SOME permutation of the batch sequentially with `Spec.fifoStep`,
    and the final queue is the final state of that run. -/
theorem C06_fcqueue_batch_refines (q : List Int) (rs : List QReq) (hnc : ∀ r ∈ rs, r.kind ≠ .clear) :
    let fin := queueFinish (queueProcess q rs).1 rs (queueProcess q rs).2
    fin.2.length = rs.length ∧
    ∃ perm : List (QReq × Resp), perm.Perm (rs.zip fin.2) ∧
      seqRun (fun s (r : QReq) => fifoStep s r.toGOp) q perm = some fin.1 := by
  intro fin
  have hfin : fin = queueBatch 1 q rs := queueBatch_one q rs
  rw [hfin]
  exact C06_fcqueue_session_refines_spec 1 q rs hnc

/-- A combiner session of FCQueue is linearizable (history records of one batch, pairwise overlapping). -/
theorem C06_fcqueue_batch_linearizable (n : Nat) (q : List Int) (rs : List QReq) (hnc : ∀ r ∈ rs, r.kind ≠ .clear)
    (ops : List (OpRec GOp GRet))
    (hops : ops.map (fun o => (o.op, o.ret)) = (rs.zip (queueBatch n q rs).2).map (fun p => (p.1.toGOp, p.2)))
    (hconc : ∀ a ∈ ops, ∀ b ∈ ops, ¬ b.res < a.inv) :
    LinearizableFrom fifo q ops := by
  obtain ⟨_, perm, hp, hrun⟩ := C06_fcqueue_session_refines_spec n q rs hnc
  exact linearizable_of_perm [] fifoStep QReq.toGOp q _ _ perm hp hrun ops hops hconc

/-! ### FCStack -/

/-- EXACTLY when `FCStack::collide( *itPrev, *it )` succeeds: neighbouring push and pop, in either order,
    whatever the stack contains. -/
theorem C09_fcstack_collide_rule (prev it : SReq) :
    (stackCollide prev it).isSome = true ↔
      ((prev.kind = .push ∨ prev.kind = .pushMove) ∧ it.kind = .pop) ∨
      (prev.kind = .pop ∧ (it.kind = .push ∨ it.kind = .pushMove)) := by
  obtain ⟨pk, pv⟩ := prev
  obtain ⟨ik, iv⟩ := it
  cases ik <;> cases pk <;> simp [stackCollide]

theorem C09_fcstack_collide_values (prev it : SReq) (a b : Resp) (h : stackCollide prev it = some (a, b)) :
    (it.kind = .pop ∧ a = [1] ∧ b = [1, prev.val]) ∨ (prev.kind = .pop ∧ a = [1, it.val] ∧ b = [1]) := by
  obtain ⟨pk, pv⟩ := prev
  obtain ⟨ik, iv⟩ := it
  cases ik <;> cases pk <;> simp [stackCollide] at h ⊢ <;> (obtain ⟨rfl, rfl⟩ := h; simp)

theorem C09_fcstack_collisions_in_batch (rs : List SReq) :
    ∀ pr ∈ stackCollisions rs, (stackCollide pr.1 pr.2).isSome = true := by
  intro pr hpr
  exact (elimGo_pairs stackPart stackCollide _ none (by intro p hp; cases hp) pr hpr).2.2

theorem C09_fcstack_apply_is_spec (s : List Int) (r : SReq) (h : r.kind ≠ .clear) (h' : r.kind ≠ .empty) :
    lifoStep s r.toGOp = some (stackApply s r) := by
  rw [← lifoStepC_eq_lifoStep s r h h']; exact stackApply_spec s r

/-- General form: `n` walks of `fc_process`, then `combining_pass`; `clear` and `empty` allowed. -/
theorem C09_fcstack_session_refines (n : Nat) (s : List Int) (rs : List SReq) :
    (stackBatch n s rs).2.length = rs.length ∧
    ∃ perm : List (SReq × Resp), perm.Perm (rs.zip (stackBatch n s rs).2) ∧
      seqRun (fun s (r : SReq) => lifoStepC s r.toGOp) s perm = some (stackBatch n s rs).1 :=
  batch_refines stackPart stackCollide stackSpec s stackApply stackApply_spec
    (fun p r a b _ _ hc => stackCollide_noop s p r a b hc) n rs

theorem C09_fcstack_session_refines_spec (n : Nat) (s : List Int) (rs : List SReq)
    (hnc : ∀ r ∈ rs, r.kind ≠ .clear ∧ r.kind ≠ .empty) :
    (stackBatch n s rs).2.length = rs.length ∧
    ∃ perm : List (SReq × Resp), perm.Perm (rs.zip (stackBatch n s rs).2) ∧
      seqRun (fun s (r : SReq) => lifoStep s r.toGOp) s perm = some (stackBatch n s rs).1 := by
  obtain ⟨hl, perm, hp, hrun⟩ := C09_fcstack_session_refines n s rs
  refine ⟨hl, perm, hp, ?_⟩
  rw [← hrun]
  apply seqRun_congr
  intro x hx s'
  have hx' : x.1 ∈ rs := by
    have : x ∈ rs.zip (stackBatch n s rs).2 := hp.mem_iff.mp hx
    obtain ⟨r, a⟩ := x
    exact (List.of_mem_zip this).1
  exact (lifoStepC_eq_lifoStep s' x.1 (hnc x.1 hx').1 (hnc x.1 hx').2).symm

/-- For every stack `s` and batch `rs` of push / pop requests: the responses of `fc_process` followed by `fc_apply`
    on the rest are those of executing SOME permutation of the batch sequentially with `Spec.lifoStep`, and the final
    stack is the final state of that run. -/
theorem C09_fcstack_batch_refines (s : List Int) (rs : List SReq)
    (hnc : ∀ r ∈ rs, r.kind ≠ .clear ∧ r.kind ≠ .empty) :
    let fin := stackFinish (stackProcess s rs).1 rs (stackProcess s rs).2
    fin.2.length = rs.length ∧
    ∃ perm : List (SReq × Resp), perm.Perm (rs.zip fin.2) ∧
      seqRun (fun s (r : SReq) => lifoStep s r.toGOp) s perm = some fin.1 := by
  intro fin
  have hfin : fin = stackBatch 1 s rs := stackBatch_one s rs
  rw [hfin]
  exact C09_fcstack_session_refines_spec 1 s rs hnc

/-- A combiner session of FCStack is linearizable (history records of one batch, pairwise overlapping). -/
theorem C09_fcstack_batch_linearizable (n : Nat) (s : List Int) (rs : List SReq)
    (hnc : ∀ r ∈ rs, r.kind ≠ .clear ∧ r.kind ≠ .empty)
    (ops : List (OpRec GOp GRet))
    (hops : ops.map (fun o => (o.op, o.ret)) = (rs.zip (stackBatch n s rs).2).map (fun p => (p.1.toGOp, p.2)))
    (hconc : ∀ a ∈ ops, ∀ b ∈ ops, ¬ b.res < a.inv) :
    LinearizableFrom lifo s ops := by
  obtain ⟨_, perm, hp, hrun⟩ := C09_fcstack_session_refines_spec n s rs hnc
  exact linearizable_of_perm [] lifoStep SReq.toGOp s _ _ perm hp hrun ops hops hconc

/-! ### FCPriorityQueue: no elimination -/

/-- `fc_apply` is one step of the max-priority-queue specification (`Spec.pqNext 0`, unbounded) with the response
    it writes. -/
theorem C11_fcpq_apply_is_spec (s : List Int) (r : PReq) (h : r.kind ≠ .clear) :
    pqNext 0 s r.toGOp (pqApply s r).2 = some (pqApply s r).1 := by
  have := pqApply_spec s r
  obtain ⟨k, v⟩ := r
  cases k
  case clear => exact absurd rfl h
  all_goals simpa [pqNextC, PReq.toGOp] using this

/-- There is no elimination in FCPriorityQueue (no `fc_process`; all members call `combine`): a combiner pass applies
    the batch in publication-list order, so the explaining permutation is the IDENTITY: the responses are those of
    executing the batch sequentially in list order, and the final queue is that run's final state. -/
theorem C11_fcpq_batch_refines (s : List Int) (rs : List PReq) :
    (pqBatch s rs).2.length = rs.length ∧
    relRun (fun s (r : PReq) a => pqNextC s r.toGOp a) s (rs.zip (pqBatch s rs).2) = some (pqBatch s rs).1 := by
  induction rs generalizing s with
  | nil => exact ⟨rfl, rfl⟩
  | cons r rs ih =>
    obtain ⟨h1, h2⟩ := ih (pqApply s r).1
    refine ⟨by simp [pqBatch, h1], ?_⟩
    simp only [pqBatch, List.zip_cons_cons, relRun, pqApply_spec]
    exact h2

/-- The same in the `∃ perm` form of the other containers, against `Spec.pqNext 0` for batches without `clear`. -/
theorem C11_fcpq_batch_refines_perm (s : List Int) (rs : List PReq) (hnc : ∀ r ∈ rs, r.kind ≠ .clear) :
    ∃ perm : List (PReq × Resp), perm.Perm (rs.zip (pqBatch s rs).2) ∧
      relRun (fun s (r : PReq) a => pqNext 0 s r.toGOp a) s perm = some (pqBatch s rs).1 := by
  refine ⟨_, List.Perm.refl _, ?_⟩
  induction rs generalizing s with
  | nil => rfl
  | cons r rs ih =>
    have h2 := ih (pqApply s r).1 (fun x hx => hnc x (by simp [hx]))
    simp only [pqBatch, List.zip_cons_cons, relRun, C11_fcpq_apply_is_spec s r (hnc r (by simp))]
    exact h2

/-- A combiner pass of FCPriorityQueue is linearizable to `Spec.maxpq 0` in publication-list order; for that order to
    respect real time it suffices that the history records of the batch overlap pairwise. -/
theorem C11_fcpq_batch_linearizable (s : List Int) (rs : List PReq) (hnc : ∀ r ∈ rs, r.kind ≠ .clear)
    (ops : List (OpRec GOp GRet))
    (hops : ops.map (fun o => (o.op, o.ret)) = (rs.zip (pqBatch s rs).2).map (fun p => (p.1.toGOp, p.2)))
    (hconc : ∀ a ∈ ops, ∀ b ∈ ops, ¬ b.res < a.inv) :
    LinearizableFrom (maxpq 0) s ops := by
  obtain ⟨perm, hp, hrun⟩ := C11_fcpq_batch_refines_perm s rs hnc
  have h1 : (perm.map (fun p => (p.1.toGOp, p.2))).Perm (ops.map (fun o => (o.op, o.ret))) := by
    rw [hops]; exact hp.map _
  obtain ⟨ops', hperm, hmap⟩ := perm_lift _ _ _ h1
  refine ⟨ops', hperm, ?_, legal_of_relRun (maxpq 0) PReq.toGOp perm s _ ops' hrun hmap⟩
  exact pairwise_of_forall_mem ops' (fun a ha b hb => hconc a (hperm.mem_iff.mp ha) b (hperm.mem_iff.mp hb))

/-! ### Examples (evaluated by `decide`) -/

/-- Empty queue: `deq`, `enq 5` collide (the dequeue gets 5); a following `enq 6` is applied. -/
example : queueProcess [] [⟨.deq, 0⟩, ⟨.enq, 5⟩, ⟨.enq, 6⟩] = ([], [some [1, 5], some [1], none]) ∧
    queueFinish [] [⟨.deq, 0⟩, ⟨.enq, 5⟩, ⟨.enq, 6⟩] [some [1, 5], some [1], none] = ([6], [[1, 5], [1], [1]]) := by
  decide

/-- Non-empty queue: nothing is collided, the dequeue gets the front item. -/
example : queueProcess [7] [⟨.deq, 0⟩, ⟨.enq, 5⟩] = ([7], [none, none]) ∧
    queueFinish [7] [⟨.deq, 0⟩, ⟨.enq, 5⟩] [none, none] = ([5], [[1, 7], [1]]) := by decide

/-- Stack: neighbouring push / pop collide on a non-empty stack; `empty` has no case label and keeps `itPrev`. -/
example : stackProcess [7] [⟨.push, 5⟩, ⟨.empty, 0⟩, ⟨.pop, 0⟩, ⟨.pop, 0⟩] =
    ([7], [some [1], none, some [1, 5], none]) ∧
    stackFinish [7] [⟨.push, 5⟩, ⟨.empty, 0⟩, ⟨.pop, 0⟩, ⟨.pop, 0⟩] [some [1], none, some [1, 5], none] =
      ([], [[1], [0], [1, 5], [1, 7]]) := by decide

/-- Priority queue: in list order, the pop returns the maximum. -/
example : pqBatch [3000, 9000] [⟨.push, 5000⟩, ⟨.pop, 0⟩, ⟨.pop, 0⟩] = ([3000], [[1], [1, 9000], [1, 5000]]) := by
  decide

end CdsVerif.Props.C23Batch

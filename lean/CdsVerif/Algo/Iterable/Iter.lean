/-
  Iteration progress (`CInv`) on top of the structural invariant `SInv`.

  For thread `t`, `cand t` is the set of elements that were in the list (stored in a linked node) when `t` invoked
  `iter_begin` and have not been removed since (a removal clears the flag for every thread).  `yl t` is the sequence
  of elements `t`'s iterator has yielded since `iter_begin` (appended by the validating load that fixes the result).
  An element never changes node (`home` is written once), the chain only grows, and the iterator only moves to the
  successor of its node; hence, for every candidate `e` with home `a`:
      `e` has been yielded exactly once if the iterator has passed `a`  (`a` before `m_pNode`, or `a = m_pNode` and the
      `protect` loop on `a` has finished), and not at all otherwise           (`CInvT.cnt`)
  and the yielded candidates appear in chain order                            (`CInvT.ord`).
-/
import CdsVerif.Algo.Iterable.Step3
namespace CdsVerif.Algo.Iterable
open CdsVerif.Machine CdsVerif.Spec

/-- The iterator has moved to `m_pNode` and its `protect` loop on that node has not finished. -/
def arriving : PC → Bool
  | .itLd1 => true
  | .itHp _ => true
  | .itLd2 _ => true
  | _ => false

/-- The iterator of thread `t` is done with node `a`. -/
def passed (s : St) (t : Tid) (a : Nat) : Bool :=
  s.lt a (s.itn t) || (a == s.itn t && !arriving (s.pc t))

structure CInvT (s : St) (t : Tid) : Prop where
  cin : ∀ e, s.cand t e = true → inList s e = true
  cnt : ∀ e a, s.cand t e = true → s.home e = some a → (s.yl t).count e = (passed s t a).toNat
  ord : (s.yl t).Pairwise (fun e1 e2 => s.cand t e1 = true → s.cand t e2 = true →
          ∀ a1 a2, s.home e1 = some a1 → s.home e2 = some a2 → s.lt a1 a2 = true)

def CInv (s : St) : Prop := ∀ t, CInvT s t

theorem inList_iff (s : St) (e : Nat) :
    inList s e = true ↔ ∃ a, s.home e = some a ∧ s.lk a = true ∧ (s.data a).p = some e := by
  unfold inList
  cases h : s.home e with
  | none => simp
  | some a => simp

theorem cinv_init (n : Nat) : CInv (init n) := by
  intro t
  constructor <;> simp [init]

/-- Thread `t0`'s progress facts survive a step that does not move its iterator, does not yield, removes
    candidates at most, keeps the remaining candidates in the list at their homes, and keeps the chain order of the
    nodes linked so far. -/
theorem CInvT.frame {s s' : St} {t0 : Tid} (h : CInvT s t0) (hlki : s.lk (s.itn t0) = true)
    (hc : ∀ e, s'.cand t0 e = true → s.cand t0 e = true)
    (hyl : s'.yl t0 = s.yl t0) (hitn : s'.itn t0 = s.itn t0)
    (harr : arriving (s'.pc t0) = arriving (s.pc t0))
    (hin : ∀ e, s.cand t0 e = true → s'.cand t0 e = true → inList s' e = true ∧ s'.home e = s.home e)
    (hlt : ∀ a b, s.lk a = true → s.lk b = true → s'.lt a b = s.lt a b) : CInvT s' t0 := by
  obtain ⟨c1, c2, c3⟩ := h
  have hlkh : ∀ e a, s.cand t0 e = true → s.home e = some a → s.lk a = true := by
    intro e a he ha
    obtain ⟨b, hb, hl, -⟩ := (inList_iff s e).1 (c1 e he)
    rw [ha] at hb; cases hb; exact hl
  constructor
  · intro e he; exact (hin e (hc e he) he).1
  · intro e a he ha
    have hce := hc e he
    rw [(hin e hce he).2] at ha
    have hl := hlkh e a hce ha
    have : passed s' t0 a = passed s t0 a := by
      unfold passed; rw [hitn, harr, hlt a _ hl hlki]
    rw [hyl, this]; exact c2 e a hce ha
  · rw [hyl]
    refine c3.imp ?_
    intro e1 e2 hR h1 h2 a1 a2 ha1 ha2
    have hc1 := hc e1 h1
    have hc2 := hc e2 h2
    rw [(hin e1 hc1 h1).2] at ha1
    rw [(hin e2 hc2 h2).2] at ha2
    rw [hlt a1 a2 (hlkh e1 a1 hc1 ha1) (hlkh e2 a2 hc2 ha2)]
    exact hR hc1 hc2 a1 a2 ha1 ha2

theorem arr_upd {pc : Tid → PC} {t : Tid} {Y : PC} (h : arriving Y = arriving (pc t)) :
    ∀ t0, arriving (upd pc t Y t0) = arriving (pc t0) := by
  intro t0
  by_cases e : t0 = t
  · subst e; rw [upd_same]; exact h
  · rw [upd_other _ _ _ _ e]

/-- A step of an updater (or any step that does not touch the iterators' state). -/
theorem cinv_frame_all {s s' : St} (hS : SInv s) (hC : CInv s)
    (hc : ∀ t0 e, s'.cand t0 e = true → s.cand t0 e = true)
    (hyl : s'.yl = s.yl) (hitn : s'.itn = s.itn)
    (harr : ∀ t0, arriving (s'.pc t0) = arriving (s.pc t0))
    (hin : ∀ t0 e, s.cand t0 e = true → s'.cand t0 e = true → inList s' e = true ∧ s'.home e = s.home e)
    (hlt : ∀ a b, s.lk a = true → s.lk b = true → s'.lt a b = s.lt a b) : CInv s' := by
  intro t0
  exact (hC t0).frame (hS.thr t0).ilk (hc t0) (by rw [hyl]) (by rw [hitn]) (harr t0) (hin t0) hlt

theorem cinv_upd {s s' : St} {t : Tid} {Y : PC} (hS : SInv s) (hC : CInv s)
    (hpc : s'.pc = upd s.pc t Y) (harr : arriving Y = arriving (s.pc t))
    (hcand : ∀ t0 e, s'.cand t0 e = true → s.cand t0 e = true)
    (hyl : s'.yl = s.yl) (hitn : s'.itn = s.itn)
    (hin : ∀ t0 e, s.cand t0 e = true → s'.cand t0 e = true → inList s' e = true ∧ s'.home e = s.home e)
    (hlt : ∀ a b, s.lk a = true → s.lk b = true → s'.lt a b = s.lt a b) : CInv s' :=
  cinv_frame_all hS hC hcand hyl hitn (by rw [hpc]; exact arr_upd harr) hin hlt

/-- A candidate stays in the list if its home node keeps its pointer. -/
theorem inList_keep {s s' : St} {e : Nat} (h : inList s e = true) (hh : s'.home e = s.home e)
    (hk : ∀ b, s.home e = some b → s.lk b = true → (s.data b).p = some e →
      s'.lk b = true ∧ (s'.data b).p = some e) : inList s' e = true ∧ s'.home e = s.home e := by
  obtain ⟨b, hb, hl, hd⟩ := (inList_iff s e).1 h
  refine ⟨(inList_iff s' e).2 ⟨b, by rw [hh]; exact hb, hk b hb hl hd⟩, hh⟩

/-- Pure program-counter step. -/
theorem cinv_pc {s : St} {t : Tid} (hS : SInv s) (hC : CInv s) (Y : PC) (harr : arriving Y = arriving (s.pc t)) :
    CInv { s with pc := upd s.pc t Y } :=
  cinv_upd hS hC (t := t) (Y := Y) rfl harr (fun _ _ h => h) rfl rfl
    (fun t0 e he _ => ⟨(hC t0).cin e he, rfl⟩) (fun _ _ _ _ => rfl)

/-- The mark bit of a data word (and its ghost owner) is written. -/
theorem cinv_mark {s : St} {t : Tid} (hS : SInv s) (hC : CInv s) (Y : PC) (a : Nat) (w : DW) (m : Option Tid)
    (harr : arriving Y = arriving (s.pc t)) (hw : w.p = (s.data a).p) :
    CInv { s with data := upd s.data a w, mo := upd s.mo a m, pc := upd s.pc t Y } :=
  cinv_upd hS hC (t := t) (Y := Y) rfl harr (fun _ _ h => h) rfl rfl
    (fun t0 e he _ => inList_keep ((hC t0).cin e he) rfl (fun b _ hl hd => ⟨hl, by
      dsimp only
      by_cases eb : b = a
      · subst eb; rw [upd_same, hw]; exact hd
      · rw [upd_other _ _ _ _ eb]; exact hd⟩)) (fun _ _ _ _ => rfl)

/-- An element is removed from the linked node `a` (replaced by nothing or by a homeless element `e2`). -/
theorem cinv_remove {s : St} {t : Tid} (hS : SInv s) (hC : CInv s) (Y : PC) (a e : Nat) (w : DW)
    (hm' : Nat → Option Nat) (harr : arriving Y = arriving (s.pc t)) (hd : (s.data a).p = some e)
    (hh : ∀ x, s.home x ≠ none → hm' x = s.home x) :
    CInv { (s.removed t e) with data := upd s.data a w, home := hm', pc := upd s.pc t Y } := by
  refine cinv_upd hS hC (t := t) (Y := Y) rfl harr ?_ rfl rfl ?_ (fun _ _ _ _ => rfl)
  · intro t0 x hx; dsimp only [St.removed] at hx
    by_cases ex : x = e
    · simp [ex] at hx
    · simpa [ex] using hx
  · intro t0 x hx hx'
    dsimp only [St.removed] at hx'
    have hxe : x ≠ e := fun ex => by simp [ex] at hx'
    obtain ⟨b, hb, hl, hdb⟩ := (inList_iff s x).1 ((hC t0).cin x hx)
    have hhx : hm' x = s.home x := hh x (by rw [hb]; simp)
    refine inList_keep ((hC t0).cin x hx) hhx (fun b' hb' hl' hd' => ⟨hl', ?_⟩)
    dsimp only
    have : b' ≠ a := fun eb => by
      rw [eb, hd] at hd'; exact hxe (Option.some.inj hd').symm
    rw [upd_other _ _ _ _ this]; exact hd'

/-- A homeless element `e2` is stored into a node `a` that holds no candidate. -/
theorem cinv_store {s : St} {t : Tid} (hS : SInv s) (hC : CInv s) (Y : PC) (a e2 : Nat) (w : DW)
    (mo' : Nat → Option Tid) (harr : arriving Y = arriving (s.pc t))
    (ha : ∀ x, (s.data a).p = some x → s.lk a = false)
    (hh : ∀ b, s.home e2 = some b → s.lk b = false) :
    CInv { s with data := upd s.data a w, mo := mo', home := upd s.home e2 (some a), pc := upd s.pc t Y } := by
  refine cinv_upd hS hC (t := t) (Y := Y) rfl harr (fun _ _ h => h) rfl rfl ?_ (fun _ _ _ _ => rfl)
  intro t0 x hx _
  obtain ⟨b, hb, hl, hdb⟩ := (inList_iff s x).1 ((hC t0).cin x hx)
  have hxe : x ≠ e2 := fun ex => by
    have := hh b (by rw [← ex]; exact hb); rw [hl] at this; cases this
  refine inList_keep ((hC t0).cin x hx) (upd_other _ _ _ _ hxe) (fun b' hb' hl' hd' => ⟨hl', ?_⟩)
  dsimp only
  have : b' ≠ a := fun eb => by
    have := ha x (by rw [← eb]; exact hd'); rw [← eb, hl'] at this; cases this
  rw [upd_other _ _ _ _ this]; exact hd'

/-- Other threads are not affected by a step that changes only thread `t`'s iterator state. -/
theorem CInvT.frame_other {s : St} {t0 : Tid} (hS : SInv s) (h : CInvT s t0)
    (hpf : Tid → Option Nat) (hvf : Tid → Bool) (itf : Tid → Nat) (pcf : Tid → PC) (ylf : Tid → List Nat)
    (cf : Tid → Nat → Bool) (h1 : itf t0 = s.itn t0) (h2 : pcf t0 = s.pc t0) (h3 : ylf t0 = s.yl t0)
    (h4 : cf t0 = s.cand t0) :
    CInvT { s with hp := hpf, hv := hvf, itn := itf, pc := pcf, yl := ylf, cand := cf } t0 := by
  refine h.frame (hS.thr t0).ilk ?_ h3 h1 ?_ ?_ (fun _ _ _ _ => rfl)
  · intro e he; dsimp only at he; rw [h4] at he; exact he
  · dsimp only; rw [h2]
  · intro e he _; exact ⟨h.cin e he, rfl⟩

theorem passed_of_mem {s : St} {t : Tid} (h : CInvT s t) {e a : Nat} (hm : e ∈ s.yl t) (hc : s.cand t e = true)
    (ha : s.home e = some a) : passed s t a = true := by
  have := h.cnt e a hc ha
  cases hp : passed s t a with
  | true => rfl
  | false =>
    rw [hp] at this
    exact absurd hm (List.count_eq_zero.1 this)

theorem cinv_itLd2_some {s : St} {t : Tid} {w : DW} {e0 : Nat} (hS : SInv s) (hC : CInv s)
    (hpc : s.pc t = .itLd2 w) (hd : s.data (s.itn t) = w) (hw : w.p = some e0) :
    CInv { s with hv := upd s.hv t true, yl := upd s.yl t (s.yl t ++ [e0]),
                  pc := upd s.pc t (.done [1, (e0 : Int)]) } := by
  intro t0
  by_cases hne : t0 = t
  · subst hne
    have h := hC t0
    obtain ⟨c1, c2, c3⟩ := h
    have hp0 : (s.data (s.itn t0)).p = some e0 := by rw [hd]; exact hw
    have hh0 := hS.elem.ehome _ _ hp0
    have hirr := hS.ord.irr (s.itn t0)
    constructor
    · intro e he; exact c1 e he
    · intro e a he ha
      dsimp only at he ha ⊢
      rw [upd_same]
      have hcnt := c2 e a he ha
      obtain ⟨b, hb, hl, hdb⟩ := (inList_iff s e).1 (c1 e he)
      rw [ha] at hb; cases hb
      unfold passed at hcnt ⊢
      dsimp only
      rw [upd_same]
      rw [hpc] at hcnt
      simp only [arriving, Bool.not_true, Bool.and_false, Bool.or_false, Bool.not_false, Bool.and_true] at hcnt ⊢
      by_cases ea : a = s.itn t0
      · subst ea
        have : e = e0 := by rw [hp0] at hdb; exact (Option.some.inj hdb).symm
        subst this
        rw [hirr] at hcnt
        simp only [Bool.toNat_false] at hcnt
        simp [List.count_append, hcnt, hirr]
      · have hee : e ≠ e0 := fun ee => by rw [ee, hh0] at ha; exact ea (Option.some.inj ha).symm
        have hbeq : (a == s.itn t0) = false := by simpa using ea
        rw [hbeq, Bool.or_false]
        rw [List.count_append]
        have : List.count e [e0] = 0 := by simp [Ne.symm hee]
        rw [this, Nat.add_zero]; exact hcnt
    · dsimp only; rw [upd_same]
      rw [List.pairwise_append]
      refine ⟨c3, List.pairwise_singleton _ _, ?_⟩
      intro x hx y hy hcx hcy a1 a2 ha1 ha2
      have hy' : y = e0 := by simpa using hy
      subst hy'
      rw [hh0] at ha2; cases ha2
      have := passed_of_mem (hC t0) hx hcx ha1
      unfold passed at this
      rw [hpc] at this
      simpa [arriving] using this
  · exact (hC t0).frame_other hS _ _ _ _ _ _ rfl (upd_other _ _ _ _ hne) (upd_other _ _ _ _ hne) rfl

theorem cinv_itLd2_none {s : St} {t : Tid} {w : DW} (hS : SInv s) (hC : CInv s)
    (hpc : s.pc t = .itLd2 w) (hd : s.data (s.itn t) = w) (hw : w.p = none) :
    CInv { s with hv := upd s.hv t true, pc := upd s.pc t .itNext } := by
  intro t0
  by_cases hne : t0 = t
  · subst hne
    obtain ⟨c1, c2, c3⟩ := hC t0
    have hp0 : (s.data (s.itn t0)).p = none := by rw [hd]; exact hw
    constructor
    · intro e he; exact c1 e he
    · intro e a he ha
      dsimp only at he ha ⊢
      have hcnt := c2 e a he ha
      obtain ⟨b, hb, hl, hdb⟩ := (inList_iff s e).1 (c1 e he)
      rw [ha] at hb; cases hb
      have ea : a ≠ s.itn t0 := fun ea => by rw [ea, hp0] at hdb; cases hdb
      have hbeq : (a == s.itn t0) = false := by simpa using ea
      unfold passed at hcnt ⊢
      dsimp only
      rw [hbeq] at hcnt ⊢
      simpa using hcnt
    · exact c3
  · exact (hC t0).frame_other hS _ _ _ _ _ _ rfl (upd_other _ _ _ _ hne) rfl rfl

theorem cinv_itNext_move {s : St} {t : Tid} (hS : SInv s) (hC : CInv s) (hpc : s.pc t = .itNext)
    (hne : ¬ s.next (s.itn t) = s.itn t) :
    CInv { s with itn := upd s.itn t (s.next (s.itn t)), pc := upd s.pc t .itLd1 } := by
  intro t0
  by_cases hne0 : t0 = t
  · subst hne0
    obtain ⟨c1, c2, c3⟩ := hC t0
    obtain ⟨o1,o2,o3,o4,o5,o6,o7,o8,o9,o10,o11,o12,o13,o14⟩ := hS.ord
    have hlk := (hS.thr t0).ilk
    have h2 : s.itn t0 ≠ 2 := fun e => hne (by rw [e, o14])
    have hnx := o12 _ hlk h2
    constructor
    · intro e he; exact c1 e he
    · intro e a he ha
      dsimp only at he ha ⊢
      have hcnt := c2 e a he ha
      obtain ⟨b, hb, hl, hdb⟩ := (inList_iff s e).1 (c1 e he)
      rw [ha] at hb; cases hb
      rw [hcnt]
      congr 1
      unfold passed
      dsimp only
      rw [upd_same, upd_same, hpc]
      simp only [arriving, Bool.not_true, Bool.and_false, Bool.or_false, Bool.not_false, Bool.and_true]
      by_cases ea : a = s.itn t0
      · subst ea; rw [hnx, o7]; simp
      · have hbeq : (a == s.itn t0) = false := by simpa using ea
        rw [hbeq, Bool.or_false]
        cases h1 : s.lt a (s.itn t0) with
        | true => rw [o8 _ _ _ h1 hnx]
        | false =>
          cases h3 : s.lt a (s.next (s.itn t0)) with
          | false => rfl
          | true =>
            rcases o9 a _ hl hlk ea with h4 | h4
            · rw [h1] at h4; cases h4
            · exact absurd h3 (by intro h5; exact o13 _ _ hlk h2 h4 h5)
    · exact c3
  · exact (hC t0).frame_other hS _ _ _ _ _ _ (upd_other _ _ _ _ hne0) (upd_other _ _ _ _ hne0) rfl rfl

theorem cinv_iter_begin {s : St} {t : Tid} (hS : SInv s) (hC : CInv s) :
    CInv { s with itn := upd s.itn t hd, pc := upd s.pc t .itLd1, yl := upd s.yl t [],
                  cand := upd s.cand t (inList s) } := by
  intro t0
  by_cases hne0 : t0 = t
  · subst hne0
    constructor
    · intro e he; dsimp only at he; rw [upd_same] at he; exact he
    · intro e a he ha
      dsimp only at he ha ⊢
      rw [upd_same] at he ⊢
      obtain ⟨b, hb, hl, hdb⟩ := (inList_iff s e).1 he
      rw [ha] at hb; cases hb
      unfold passed
      dsimp only
      rw [upd_same, upd_same]
      have h1 : s.lt a hd = false := by
        cases h1 : s.lt a hd with
        | false => rfl
        | true =>
          by_cases ea : a = 1
          · rw [ea] at h1; have := hS.ord.irr 1; rw [hd] at h1; rw [h1] at this; cases this
          · have := hS.ord.tr _ _ _ (hS.ord.first a hl ea) h1
            have h0 := hS.ord.irr 1
            rw [hd] at this; rw [this] at h0; cases h0
      simp [h1, arriving]
    · dsimp only; rw [upd_same, upd_same]; exact List.Pairwise.nil
  · exact (hC t0).frame_other hS _ _ _ _ _ _ (upd_other _ _ _ _ hne0) (upd_other _ _ _ _ hne0)
      (upd_other _ _ _ _ hne0) (upd_other _ _ _ _ hne0)

theorem arriving_concl (pu : Purp) (k : Int) (prev : Nat) (pv : Option Nat) (cur : Nat) (fnd : Option Nat)
    (eq : Bool) : arriving (concl pu k prev pv cur fnd eq) = false := by
  rcases concl_cases pu k prev pv cur fnd eq with ⟨r, -, hc⟩ | ⟨e, -, -, hc⟩ | ⟨j, e, -, -, -, hc⟩ | ⟨j, -, -, hc⟩ |
    ⟨j, p, -, -, -, -, hc⟩ | ⟨j, p, -, -, -, hc⟩ | ⟨j, p, -, hc⟩ <;> rw [hc] <;> rfl

set_option maxHeartbeats 4000000 in
/-- Every atomic step preserves the iteration-progress invariant. -/
theorem cinv_step {s s' : St} {t : Tid} {ev : Ev} (hS : SInv s) (hC : CInv s) (hs : step s t = some (s', ev)) :
    CInv s' := by
  unfold step at hs
  split at hs
  next j hpc =>
    simp only [Option.some.injEq, Prod.mk.injEq] at hs; obtain ⟨rfl, -⟩ := hs
    exact cinv_pc hS hC _ (by rw [hpc]; rfl)
  next pu k prev pv hpc =>
    simp only [Option.some.injEq, Prod.mk.injEq] at hs; obtain ⟨rfl, -⟩ := hs
    exact cinv_pc hS hC _ (by rw [hpc]; rfl)
  next pu k prev pv cur hpc =>
    split at hs
    · simp only [Option.some.injEq, Prod.mk.injEq] at hs; obtain ⟨rfl, -⟩ := hs
      exact cinv_pc hS hC _ (by rw [hpc, arriving_concl]; rfl)
    · simp only [Option.some.injEq, Prod.mk.injEq] at hs; obtain ⟨rfl, -⟩ := hs
      exact cinv_pc hS hC _ (by rw [hpc]; rfl)
  next pu k prev pv cur hpc =>
    simp only [Option.some.injEq, Prod.mk.injEq] at hs; obtain ⟨rfl, -⟩ := hs
    exact cinv_pc hS hC _ (by rw [hpc]; rfl)
  next pu k prev pv cur w hpc =>
    split at hs
    · split at hs
      · split at hs
        · simp only [Option.some.injEq, Prod.mk.injEq] at hs; obtain ⟨rfl, -⟩ := hs
          exact cinv_pc hS hC _ (by rw [hpc, arriving_concl]; rfl)
        · simp only [Option.some.injEq, Prod.mk.injEq] at hs; obtain ⟨rfl, -⟩ := hs
          exact cinv_pc hS hC _ (by rw [hpc]; rfl)
      · simp only [Option.some.injEq, Prod.mk.injEq] at hs; obtain ⟨rfl, -⟩ := hs
        exact cinv_pc hS hC _ (by rw [hpc]; rfl)
    · simp only [Option.some.injEq, Prod.mk.injEq] at hs; obtain ⟨rfl, -⟩ := hs
      exact cinv_pc hS hC _ (by rw [hpc]; rfl)
  next k cur e hpc =>
    split at hs
    · rename_i hd
      simp only [Option.some.injEq, Prod.mk.injEq] at hs; obtain ⟨rfl, -⟩ := hs
      exact cinv_remove hS hC _ cur e _ s.home (by rw [hpc]; rfl) (by rw [hd]) (fun _ _ => rfl)
    · simp only [Option.some.injEq, Prod.mk.injEq] at hs; obtain ⟨rfl, -⟩ := hs
      exact cinv_pc hS hC _ (by rw [hpc]; rfl)
  next j cur e hpc =>
    split at hs
    · rename_i hd
      simp only [Option.some.injEq, Prod.mk.injEq] at hs; obtain ⟨rfl, -⟩ := hs
      have hhn := hS.pend_homeless (t := t) (e := j.e) (by rw [hpc]; rfl) (by rw [hpc]; rfl)
      refine cinv_remove hS hC _ cur e _ _ (by rw [hpc]; rfl) (by rw [hd]) ?_
      intro x hx
      have : x ≠ j.e := fun ex => hx (by rw [ex]; exact hhn)
      exact upd_other _ _ _ _ this
    · simp only [Option.some.injEq, Prod.mk.injEq] at hs; obtain ⟨rfl, -⟩ := hs
      exact cinv_pc hS hC _ (by rw [hpc]; rfl)
  next j p hpc =>
    split at hs
    · rename_i hd
      simp only [Option.some.injEq, Prod.mk.injEq] at hs; obtain ⟨rfl, -⟩ := hs
      exact cinv_mark hS hC _ _ _ _ (by rw [hpc]; rfl) (by rw [hd])
    · simp only [Option.some.injEq, Prod.mk.injEq] at hs; obtain ⟨rfl, -⟩ := hs
      exact cinv_pc hS hC _ (by rw [hpc]; rfl)
  next j p hpc =>
    split at hs
    · rename_i hd
      simp only [Option.some.injEq, Prod.mk.injEq] at hs; obtain ⟨rfl, -⟩ := hs
      exact cinv_mark hS hC _ _ _ _ (by rw [hpc]; rfl) (by rw [hd])
    · simp only [Option.some.injEq, Prod.mk.injEq] at hs; obtain ⟨rfl, -⟩ := hs
      exact cinv_pc hS hC _ (by rw [hpc]; rfl)
  next j p hpc =>
    split at hs
    · simp only [Option.some.injEq, Prod.mk.injEq] at hs; obtain ⟨rfl, -⟩ := hs
      refine cinv_pc hS hC _ ?_
      rw [hpc]; split
      · rfl
      · unfold proceed; split <;> rfl
    · simp only [Option.some.injEq, Prod.mk.injEq] at hs; obtain ⟨rfl, -⟩ := hs
      exact cinv_pc hS hC _ (by rw [hpc]; rfl)
  next j p hpc =>
    split at hs
    · rename_i hd
      simp only [Option.some.injEq, Prod.mk.injEq] at hs; obtain ⟨rfl, -⟩ := hs
      have hhn := hS.pend_homeless (t := t) (e := j.e) (by rw [hpc]; rfl) (by rw [hpc]; rfl)
      refine cinv_store hS hC _ _ _ _ _ (by rw [hpc]; rfl) ?_ ?_
      · intro x hx; rw [hd] at hx; cases hx
      · intro b hb; rw [hhn] at hb; cases hb
    · rename_i hd
      exact absurd (lReuse_enabled hS hpc) hd
  next j p hpc =>
    simp only [Option.some.injEq, Prod.mk.injEq] at hs; obtain ⟨rfl, -⟩ := hs
    exact cinv_upd hS hC (t := t) rfl (by rw [hpc]; rfl) (fun _ _ h => h) rfl rfl
      (fun t0 e he _ => ⟨(hC t0).cin e he, rfl⟩) (fun _ _ _ _ => rfl)
  next j p n hpc =>
    simp only [Option.some.injEq, Prod.mk.injEq] at hs; obtain ⟨rfl, -⟩ := hs
    have hpn : priv (s.pc t) = some n := by rw [hpc]; rfl
    have hnl := ((hS.thr t).pcnt n hpn).2.2.1
    have := cinv_store hS hC (t := t) (.lStNext j p n) n j.e ⟨some j.e, false⟩ s.mo (by rw [hpc]; rfl)
      (fun _ _ => hnl) (fun b hb => by
        have := (hS.thr t).phome j.e b (by rw [hpc]; rfl) hb
        rw [hpn] at this; cases this; exact hnl)
    exact this
  next j p n hpc =>
    simp only [Option.some.injEq, Prod.mk.injEq] at hs; obtain ⟨rfl, -⟩ := hs
    exact cinv_upd hS hC (t := t) rfl (by rw [hpc]; rfl) (fun _ _ h => h) rfl rfl
      (fun t0 e he _ => ⟨(hC t0).cin e he, rfl⟩) (fun _ _ _ _ => rfl)
  next j p n hpc =>
    split at hs
    · simp only [Option.some.injEq, Prod.mk.injEq] at hs; obtain ⟨rfl, -⟩ := hs
      have hpn : priv (s.pc t) = some n := by rw [hpc]; rfl
      have hnl := ((hS.thr t).pcnt n hpn).2.2.1
      have lkne : ∀ b, s.lk b = true → b ≠ n := fun b hb e => by rw [e, hnl] at hb; cases hb
      refine cinv_upd hS hC (t := t) rfl (by rw [hpc]; rfl) (fun _ _ h => h) rfl rfl ?_ ?_
      · intro t0 e he _
        refine inList_keep ((hC t0).cin e he) rfl (fun b _ hl hd => ⟨?_, hd⟩)
        dsimp only; rw [upd_other _ _ _ _ (lkne b hl)]; exact hl
      · intro a b ha hb; exact ltIns_old (lkne a ha) (lkne b hb)
    · rename_i hd
      exact absurd (lCasNext_enabled hS hpc) hd
  next j p ok hpc =>
    simp only [Option.some.injEq, Prod.mk.injEq] at hs; obtain ⟨rfl, -⟩ := hs
    have := ((hS.thr t).mprev p (by rw [hpc]; rfl)).2
    exact cinv_mark hS hC _ _ _ _ (by rw [hpc]; rfl) (by rw [this])
  next j p ok hpc =>
    simp only [Option.some.injEq, Prod.mk.injEq] at hs; obtain ⟨rfl, -⟩ := hs
    have := ((hS.thr t).mcur p (by rw [hpc]; rfl)).2
    refine cinv_mark hS hC _ _ _ _ ?_ (by rw [this])
    rw [hpc]; split <;> rfl
  next hpc =>
    simp only [Option.some.injEq, Prod.mk.injEq] at hs; obtain ⟨rfl, -⟩ := hs
    exact cinv_pc hS hC _ (by rw [hpc]; rfl)
  next w hpc =>
    simp only [Option.some.injEq, Prod.mk.injEq] at hs; obtain ⟨rfl, -⟩ := hs
    exact cinv_upd hS hC (t := t) rfl (by rw [hpc]; rfl) (fun _ _ h => h) rfl rfl
      (fun t0 e he _ => ⟨(hC t0).cin e he, rfl⟩) (fun _ _ _ _ => rfl)
  next w hpc =>
    split at hs
    · rename_i hd
      split at hs
      · rename_i e hw
        simp only [Option.some.injEq, Prod.mk.injEq] at hs; obtain ⟨rfl, -⟩ := hs
        exact cinv_itLd2_some hS hC hpc hd hw
      · rename_i hw
        simp only [Option.some.injEq, Prod.mk.injEq] at hs; obtain ⟨rfl, -⟩ := hs
        exact cinv_itLd2_none hS hC hpc hd hw
    · simp only [Option.some.injEq, Prod.mk.injEq] at hs; obtain ⟨rfl, -⟩ := hs
      exact cinv_pc hS hC _ (by rw [hpc]; rfl)
  next hpc =>
    split at hs
    · simp only [Option.some.injEq, Prod.mk.injEq] at hs; obtain ⟨rfl, -⟩ := hs
      exact cinv_pc hS hC _ (by rw [hpc]; rfl)
    · rename_i hne
      simp only [Option.some.injEq, Prod.mk.injEq] at hs; obtain ⟨rfl, -⟩ := hs
      exact cinv_itNext_move hS hC hpc hne
  next hpc =>
    simp only [Option.some.injEq, Prod.mk.injEq] at hs; obtain ⟨rfl, -⟩ := hs
    exact cinv_upd hS hC (t := t) rfl (by rw [hpc]; rfl) (fun _ _ h => h) rfl rfl
      (fun t0 e he _ => ⟨(hC t0).cin e he, rfl⟩) (fun _ _ _ _ => rfl)
  next hpc =>
    simp only [Option.some.injEq, Prod.mk.injEq] at hs; obtain ⟨rfl, -⟩ := hs
    exact cinv_pc hS hC _ (by rw [hpc]; rfl)
  next w hpc =>
    split at hs
    · simp only [Option.some.injEq, Prod.mk.injEq] at hs; obtain ⟨rfl, -⟩ := hs
      refine cinv_pc hS hC _ ?_
      rw [hpc]; split <;> rfl
    · simp only [Option.some.injEq, Prod.mk.injEq] at hs; obtain ⟨rfl, -⟩ := hs
      exact cinv_pc hS hC _ (by rw [hpc]; rfl)
  next hpc =>
    split at hs
    · simp only [Option.some.injEq, Prod.mk.injEq] at hs; obtain ⟨rfl, -⟩ := hs
      exact cinv_pc hS hC _ (by rw [hpc]; rfl)
    · cases hs
  next e hpc =>
    split at hs
    · rename_i hd
      simp only [Option.some.injEq, Prod.mk.injEq] at hs; obtain ⟨rfl, -⟩ := hs
      exact cinv_remove hS hC _ (s.itn t) e _ s.home (by rw [hpc]; rfl) (by rw [hd]) (fun _ _ => rfl)
    · split at hs
      · simp only [Option.some.injEq, Prod.mk.injEq] at hs; obtain ⟨rfl, -⟩ := hs
        exact hC
      · simp only [Option.some.injEq, Prod.mk.injEq] at hs; obtain ⟨rfl, -⟩ := hs
        exact cinv_pc hS hC _ (by rw [hpc]; rfl)
  next hpc =>
    simp only [Option.some.injEq, Prod.mk.injEq] at hs; obtain ⟨rfl, -⟩ := hs
    exact cinv_upd hS hC (t := t) rfl (by rw [hpc]; rfl) (fun _ _ h => h) rfl rfl
      (fun t0 e he _ => ⟨(hC t0).cin e he, rfl⟩) (fun _ _ _ _ => rfl)
  next => cases hs

theorem cinv_result {s s' : St} {t : Tid} {r : GRet} (hS : SInv s) (hC : CInv s)
    (hs : result s t = some (s', r)) : CInv s' := by
  unfold result at hs
  split at hs
  next r' hpc =>
    simp only [Option.some.injEq, Prod.mk.injEq] at hs
    obtain ⟨rfl, -⟩ := hs
    exact cinv_pc hS hC _ (by rw [hpc]; rfl)
  next => cases hs

set_option maxHeartbeats 4000000 in
theorem cinv_invoke {s s' : St} {t : Tid} {op : GOp} (hS : SInv s) (hC : CInv s)
    (hs : invoke s t op = some s') : CInv s' := by
  obtain ⟨name, args⟩ := op
  unfold invoke at hs
  split at hs
  next hnt =>
    split at hs
    next k e hpc hname hargs =>
      split at hs
      · cases hs
      · simp only [Option.some.injEq] at hs; subst hs
        exact cinv_upd hS hC (t := t) rfl (by rw [hpc]; rfl) (fun _ _ h => h) rfl rfl
          (fun t0 e he _ => ⟨(hC t0).cin e he, rfl⟩) (fun _ _ _ _ => rfl)
    next k e allow hpc hname hargs =>
      split at hs
      · cases hs
      · simp only [Option.some.injEq] at hs; subst hs
        exact cinv_upd hS hC (t := t) rfl (by rw [hpc]; rfl) (fun _ _ h => h) rfl rfl
          (fun t0 e he _ => ⟨(hC t0).cin e he, rfl⟩) (fun _ _ _ _ => rfl)
    next k hpc hname hargs =>
      simp only [Option.some.injEq] at hs; subst hs
      exact cinv_pc hS hC _ (by rw [hpc]; rfl)
    next k hpc hname hargs =>
      simp only [Option.some.injEq] at hs; subst hs
      exact cinv_pc hS hC _ (by rw [hpc]; rfl)
    next k hpc hname hargs =>
      simp only [Option.some.injEq] at hs; subst hs
      exact cinv_pc hS hC _ (by rw [hpc]; rfl)
    next hpc hname hargs =>
      simp only [Option.some.injEq] at hs; subst hs
      exact cinv_iter_begin hS hC
    next hpc hname hargs =>
      simp only [Option.some.injEq] at hs; subst hs
      exact cinv_pc hS hC _ (by rw [hpc]; rfl)
    next hpc hname hargs =>
      simp only [Option.some.injEq] at hs; subst hs
      exact cinv_pc hS hC _ (by rw [hpc]; rfl)
    next hpc hname hargs =>
      split at hs
      next e he =>
        simp only [Option.some.injEq] at hs; subst hs
        exact cinv_pc hS hC _ (by rw [hpc]; rfl)
      next => cases hs
    next hpc hname hargs =>
      simp only [Option.some.injEq] at hs; subst hs
      exact cinv_pc hS hC _ (by rw [hpc]; rfl)
    next e hpc hname hargs =>
      split at hs
      next hg =>
        simp only [Option.some.injEq] at hs; subst hs
        exact cinv_upd hS hC (t := t) rfl (by rw [hpc]; rfl) (fun _ _ h => h) rfl rfl
          (fun t0 e he _ => ⟨(hC t0).cin e he, rfl⟩) (fun _ _ _ _ => rfl)
      next => cases hs
    next => cases hs
  next => cases hs

/-- Structural invariant and iteration progress together. -/
def FInv (s : St) : Prop := SInv s ∧ CInv s

theorem finv_apply {s s' : St} {t : Tid} {a : Act} {o : Obs} (h : FInv s)
    (hs : model.apply s t a = some (s', o)) : FInv s' := by
  refine ⟨sinv_apply h.1 hs, ?_⟩
  cases a with
  | invoke op =>
    simp only [Model.apply, model, Option.map_eq_some_iff] at hs
    obtain ⟨s1, hs1, he⟩ := hs
    simp only [Prod.mk.injEq] at he; obtain ⟨rfl, -⟩ := he
    exact cinv_invoke h.1 h.2 hs1
  | step =>
    simp only [Model.apply, model, Option.map_eq_some_iff] at hs
    obtain ⟨⟨s1, ev⟩, hs1, he⟩ := hs
    simp only [Prod.mk.injEq] at he; obtain ⟨rfl, -⟩ := he
    exact cinv_step h.1 h.2 hs1
  | ret =>
    simp only [Model.apply, model, Option.map_eq_some_iff] at hs
    obtain ⟨⟨s1, r⟩, hs1, he⟩ := hs
    simp only [Prod.mk.injEq] at he; obtain ⟨rfl, -⟩ := he
    exact cinv_result h.1 h.2 hs1

theorem finv_reachable (n : Nat) (s : St) (h : model.Reachable (init n) s) : FInv s :=
  model.inv_reachable FInv (init n) ⟨sinv_init n, cinv_init n⟩ (fun _ _ _ _ _ hi ha => finv_apply hi ha) s h

end CdsVerif.Algo.Iterable

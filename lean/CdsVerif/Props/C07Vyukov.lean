/-
  C07 — Vyukov's bounded MPMC queue (cds::container::VyukovMPMCCycleQueue, enqueue_with / dequeue_with) is a
  linearizable bounded FIFO queue: every concurrent history of the atomic-step model `Algo/Vyukov/Model.lean` with
  capacity `2^k`, `k ≥ 1`, is linearizable to `Spec.bfifo (2^k)`; `enqueue` fails only if exactly `2^k` items are
  in the queue at some instant during the call, `dequeue` fails only if the queue is empty at some instant during
  the call.  Property theorems only; the model, the invariant and the proof live in `Algo/Vyukov/{Model,Inv,Lin}.lean`.

  Route completed: FULL linearizability including failing operations.  The failing operations turned out to need
  no hindsight: the load that fixes the result `[0]` (`m_posDequeue` for `enq`, `m_posEnqueue` for `deq`) is itself
  an instant at which the queue is full resp. empty (`pos ≤ posEnq ≤ posDeq + capacity = pos`), so all four
  linearization points are fixed.  The fallback `…_nofail` was not needed.

  Assumptions of the model (not proved here): positions and sequence numbers do not wrap (fewer than 2^63
  operations); `compare_exchange_weak` does not fail spuriously; sequentially consistent interleaving semantics.
  `k ≥ 1` is necessary: with capacity 1 the queue is broken (known finding).
-/
import CdsVerif.Algo.Vyukov.Lin
namespace CdsVerif.Props.C07Vyukov
open CdsVerif.Machine CdsVerif.Lin CdsVerif.Spec CdsVerif.Algo

/-- Linearizability, general form (Herlihy–Wing with completion of pending operations).  For EVERY capacity `2^k`
    (`k ≥ 1`) and EVERY schedule (any number of threads, any client program of `enq v` / `deq`, any interleaving of
    the atomic steps), the history of the completed operations of the run — extended by response records for the
    pending operations that have already passed their linearization point (at most one per thread; each is an
    operation pending in `os`, completed with the result fixed at its linearization point and the response time
    "end of run"), all other pending operations being dropped — is linearizable to the sequential bounded FIFO
    queue of capacity `2^k`, failed `enq` / `deq` included.

    The literal statement "`historyOf os` is linearizable" is FALSE for runs that stop between the successful CAS
    of an `enq` and its return while another thread has already seen the queue full (see `pendingFullSched`
    below): such an `enq` has to be completed, which is what `extra` does. -/
theorem C07_vyukov_linearizable (k : Nat) (hk : 1 ≤ k) (sched : List (Tid × Act)) (s : Vyukov.St)
    (os : List (Tid × Obs)) (h : Vyukov.model.run (Vyukov.init k) sched = some (s, os)) :
    ∃ extra : List (OpRec GOp GRet),
      (∀ e ∈ extra, Vyukov.pendingOf os e.tid = some (e.op, e.inv) ∧ e.res = os.length ∧
          Vyukov.lpRet (s.pc e.tid) = some e.ret) ∧
      extra.Pairwise (fun a b => a.tid ≠ b.tid) ∧
      Linearizable (bfifo (2 ^ k)) (Vyukov.historyOf os ++ extra) :=
  Vyukov.vyukov_linearizable k hk sched s os h

/-- Runs in which every invoked operation has returned: the history is linearizable as it is. -/
theorem C07_vyukov_linearizable_complete_runs (k : Nat) (hk : 1 ≤ k) (sched : List (Tid × Act)) (s : Vyukov.St)
    (os : List (Tid × Obs)) (h : Vyukov.model.run (Vyukov.init k) sched = some (s, os))
    (hq : ∀ t, s.pc t = .idle) :
    Linearizable (bfifo (2 ^ k)) (Vyukov.historyOf os) :=
  Vyukov.vyukov_linearizable_complete_runs k hk sched s os h hq

/-- More generally: runs at whose end no thread is between its linearization point and its return. -/
theorem C07_vyukov_linearizable_no_effect_pending (k : Nat) (hk : 1 ≤ k) (sched : List (Tid × Act))
    (s : Vyukov.St) (os : List (Tid × Obs)) (h : Vyukov.model.run (Vyukov.init k) sched = some (s, os))
    (hq : ∀ t, Vyukov.lpRet (s.pc t) = none) :
    Linearizable (bfifo (2 ^ k)) (Vyukov.historyOf os) :=
  Vyukov.vyukov_linearizable_no_effect_pending k hk sched s os h hq

/-- `historyOf` is faithful: a record's `inv` / `res` are the positions of its call and return observations. -/
theorem C07_vyukov_history_sound (os : List (Tid × Obs)) (r : OpRec GOp GRet) (h : r ∈ Vyukov.historyOf os) :
    os[r.inv]? = some (r.tid, .call r.op) ∧ os[r.res]? = some (r.tid, .ret r.ret) ∧ r.inv < r.res :=
  Vyukov.historyOf_sound os r h

/-- `enq` fails only on a full queue.  For EVERY run: if a completed `enq v` returned `[0]`, there is an instant `j`
    strictly between its call (observation `r.inv`) and its return (observation `r.res`) such that in the state
    `s1` reached by the first `j` actions of the run the abstract queue holds exactly `2^k` items; more precisely
    (`FullAt`) the calling thread is about to perform the load of `m_posDequeue` that yields
    `pos - posDeq == capacity`, and `m_posEnqueue` is still `pos`. -/
theorem C07_vyukov_full_means_full (k : Nat) (hk : 1 ≤ k) (sched : List (Tid × Act)) (s : Vyukov.St)
    (os : List (Tid × Obs)) (h : Vyukov.model.run (Vyukov.init k) sched = some (s, os)) (r : OpRec GOp GRet)
    (hr : r ∈ Vyukov.historyOf os) (v : Int) (hop : r.op = ⟨"enq", [v]⟩) (hret : r.ret = [0]) :
    ∃ j s1, r.inv < j ∧ j < r.res ∧ Vyukov.model.run (Vyukov.init k) (sched.take j) = some (s1, os.take j) ∧
      Vyukov.FullAt s1 r.tid ∧ (Vyukov.absQueue s1).length = 2 ^ k :=
  Vyukov.vyukov_full_hindsight k hk sched s os h r hr v hop hret

/-- `deq` fails only on an empty queue.  For EVERY run: if a completed `deq` returned `[0]`, there is an instant `j`
    strictly between its call and its return at which the abstract queue is empty; more precisely (`EmptyAt`) the
    calling thread is about to perform the load of `m_posEnqueue` that yields `pos == posEnq`, and `m_posDequeue`
    is still `pos`. -/
theorem C07_vyukov_empty_means_empty (k : Nat) (hk : 1 ≤ k) (sched : List (Tid × Act)) (s : Vyukov.St)
    (os : List (Tid × Obs)) (h : Vyukov.model.run (Vyukov.init k) sched = some (s, os)) (r : OpRec GOp GRet)
    (hr : r ∈ Vyukov.historyOf os) (hop : r.op = ⟨"deq", []⟩) (hret : r.ret = [0]) :
    ∃ j s1, r.inv < j ∧ j < r.res ∧ Vyukov.model.run (Vyukov.init k) (sched.take j) = some (s1, os.take j) ∧
      Vyukov.EmptyAt s1 r.tid ∧ Vyukov.absQueue s1 = [] :=
  Vyukov.vyukov_empty_hindsight k hk sched s os h r hr hop hret

/-- The same, step by step: in a reachable state, the only steps that fix the result `[0]` are the `m_posDequeue`
    load of a producer — the queue is full at that instant — and the `m_posEnqueue` load of a consumer — the queue is
    empty at that instant. -/
theorem C07_vyukov_fail_lp_step (k : Nat) (hk : 1 ≤ k) (s s' : Vyukov.St) (t : Tid) (ev : Ev)
    (hreach : Vyukov.model.Reachable (Vyukov.init k) s) (hs : Vyukov.step s t = some (s', ev))
    (hpre : Vyukov.lpRet (s.pc t) = none) (hpost : Vyukov.lpRet (s'.pc t) = some [0]) :
    (Vyukov.FullAt s t ∧ ev = ⟨"ld", "posDeq", toString s.posDeq, ""⟩) ∨
    (Vyukov.EmptyAt s t ∧ ev = ⟨"ld", "posEnq", toString s.posEnq, ""⟩) :=
  Vyukov.fail_step (Vyukov.vinv_reachable k hk s hreach) hs hpre hpost

/-- Positions: `posDeq ≤ posEnq ≤ posDeq + capacity` in every reachable state, and the abstract queue has
    `posEnq - posDeq` items. -/
theorem C07_vyukov_positions (k : Nat) (hk : 1 ≤ k) (s : Vyukov.St)
    (hreach : Vyukov.model.Reachable (Vyukov.init k) s) :
    s.posDeq ≤ s.posEnq ∧ s.posEnq ≤ s.posDeq + 2 ^ k ∧ (Vyukov.absQueue s).length = s.posEnq - s.posDeq := by
  have h := Vyukov.vinv_reachable k hk s hreach
  have hkk := Vyukov.k_reachable k s hreach
  refine ⟨h.ord, ?_, Vyukov.absQueue_length s⟩
  have := h.bnd
  rw [hkk] at this
  exact this

/-- No overwrite.  In a reachable state, a step changes the payload array ONLY if it is the successful CAS of a
    producer on `m_posEnqueue` at position `p` (the model performs the thread-private payload write together with
    that CAS), and then only the cell `p mod 2^k` (`= p & mask`) changes.  At that instant: the cell's sequence number
    is `p`; the previous item of that cell (position `p - capacity`), if any, has been claimed by a consumer
    (`p < posDeq + capacity`) and that consumer has already executed its sequence store (no thread is between its
    CAS on `m_posDequeue` and its sequence store on that cell — so it has finished reading the payload); no other
    producer holds the cell; and the cell is not the cell of any item of the abstract queue. -/
theorem C07_vyukov_no_overwrite (k : Nat) (hk : 1 ≤ k) (s s' : Vyukov.St) (t : Tid) (ev : Ev)
    (hreach : Vyukov.model.Reachable (Vyukov.init k) s) (hs : Vyukov.step s t = some (s', ev)) :
    s'.data = s.data ∨
    ∃ v p, s.pc t = .enqCas v p ∧ s.posEnq = p ∧ ev = ⟨"cas+", "posEnq", toString p, toString (p + 1)⟩ ∧
      s'.data = upd s.data (p % 2 ^ k) v ∧ Vyukov.idxOf s.k p = p % 2 ^ k ∧
      s.seq (p % 2 ^ k) = p ∧ p < s.posDeq + 2 ^ k ∧
      (∀ t2 q w, s.pc t2 = .deqSt q w → q % 2 ^ k ≠ p % 2 ^ k) ∧
      (∀ t2 q, s.pc t2 = .enqSt q → q % 2 ^ k ≠ p % 2 ^ k) ∧
      (∀ q, s.posDeq ≤ q → q < s.posEnq → q % 2 ^ k ≠ p % 2 ^ k) := by
  have h := Vyukov.vinv_reachable k hk s hreach
  have hkk := Vyukov.k_reachable k s hreach
  rcases Vyukov.data_step hs with hd | ⟨v, p, hpc, hwin, -⟩
  · exact Or.inl hd
  · right
    obtain ⟨h1, h2, h3, h4, h5, h6⟩ := Vyukov.no_overwrite h hpc hs hwin
    have hev : ev = ⟨"cas+", "posEnq", toString p, toString (p + 1)⟩ := by
      simp only [Vyukov.step, hpc, hwin, if_true] at hs
      simp at hs; exact hs.2.symm
    have hidx : Vyukov.idxOf s.k p = p % 2 ^ k := by rw [Vyukov.idxOf_eq, Vyukov.cell, Vyukov.capOf, hkk]
    simp only [Vyukov.cell, Vyukov.capOf, hkk] at h1 h2 h3 h4 h5 h6
    exact ⟨v, p, hpc, hwin, hev, h1, hidx, h2, h3, h4, h5, h6⟩

/-- The value a consumer returns.  In a reachable state, at the successful CAS of a consumer on `m_posDequeue` at
    position `p`: the producer of position `p` has already executed its sequence store (the sequence number is
    `p + 1`; no thread is between its CAS on `m_posEnqueue` for that cell and its sequence store), hence the payload
    had been written before the consumer could win; the payload of the cell is the head of the abstract queue; and
    it is the value the consumer returns (`deqSt p v` returns `[1, v]`). -/
theorem C07_vyukov_deq_claims_published (k : Nat) (hk : 1 ≤ k) (s s' : Vyukov.St) (t : Tid) (ev : Ev) (p : Nat)
    (hreach : Vyukov.model.Reachable (Vyukov.init k) s) (hpc : s.pc t = .deqCas p)
    (hs : Vyukov.step s t = some (s', ev)) (hwin : s.posDeq = p) :
    s.seq (p % 2 ^ k) = p + 1 ∧ p < s.posEnq ∧ (∀ t2 q, s.pc t2 = .enqSt q → q % 2 ^ k ≠ p % 2 ^ k) ∧
    Vyukov.absQueue s = s.data (p % 2 ^ k) :: Vyukov.absQueue s' ∧ s'.pc t = .deqSt p (s.data (p % 2 ^ k)) := by
  have h := Vyukov.vinv_reachable k hk s hreach
  have hkk := Vyukov.k_reachable k s hreach
  have := Vyukov.deq_claims_published h hpc hs hwin
  simp only [Vyukov.cell, Vyukov.capOf, hkk] at this
  exact this

/-- Exclusive ownership between the position CAS and the sequence store (this is what makes the placement of the
    thread-private payload accesses immaterial).  In a reachable state, a consumer between its CAS at `p` and its
    sequence store (`deqSt p v`) finds the payload of its cell still equal to the value `v` it returns, the cell
    still shows `p + 1` and has not been claimed again (`posEnq ≤ p + capacity`); a producer between its CAS at `p`
    and its sequence store (`enqSt p`) has `posDeq ≤ p < posEnq` and the cell still shows `p`; and at most one
    thread is in either situation for a given position. -/
theorem C07_vyukov_cell_ownership (k : Nat) (hk : 1 ≤ k) (s : Vyukov.St)
    (hreach : Vyukov.model.Reachable (Vyukov.init k) s) :
    (∀ t p v, s.pc t = .deqSt p v →
      p < s.posDeq ∧ s.posEnq ≤ p + 2 ^ k ∧ s.seq (p % 2 ^ k) = p + 1 ∧ s.data (p % 2 ^ k) = v) ∧
    (∀ t p, s.pc t = .enqSt p → s.posDeq ≤ p ∧ p < s.posEnq ∧ s.seq (p % 2 ^ k) = p) ∧
    (∀ t1 t2 p v1 v2, s.pc t1 = .deqSt p v1 → s.pc t2 = .deqSt p v2 → t1 = t2) ∧
    (∀ t1 t2 p, s.pc t1 = .enqSt p → s.pc t2 = .enqSt p → t1 = t2) := by
  have h := Vyukov.vinv_reachable k hk s hreach
  have hkk := Vyukov.k_reachable k s hreach
  have h1 := h.down
  have h2 := h.eown
  simp only [Vyukov.cell, Vyukov.capOf, hkk] at h1 h2
  exact ⟨h1, h2, h.duniq, h.euniq⟩

/-- Sequence numbers.  In a reachable state, for a position `posDeq ≤ p < posEnq` (an item of the abstract queue)
    the cell `p mod 2^k` shows `p + 1` (published, available to the consumer of `p`) or `p` (the store of the
    producer that claimed `p` is pending); for a position `posEnq ≤ p < posDeq + capacity` (the free cells) it shows
    `p` (free for the producer of `p`) or `p - capacity + 1` (the store of the consumer that claimed `p - capacity`
    is pending).  Every cell is the cell of exactly one position `posDeq ≤ p < posDeq + capacity`. -/
theorem C07_vyukov_sequences (k : Nat) (hk : 1 ≤ k) (s : Vyukov.St)
    (hreach : Vyukov.model.Reachable (Vyukov.init k) s) :
    (∀ p, s.posDeq ≤ p → p < s.posEnq → s.seq (p % 2 ^ k) = p + 1 ∨ s.seq (p % 2 ^ k) = p) ∧
    (∀ p, s.posEnq ≤ p → p < s.posDeq + 2 ^ k → s.seq (p % 2 ^ k) = p ∨ s.seq (p % 2 ^ k) + 2 ^ k = p + 1) := by
  have h := Vyukov.vinv_reachable k hk s hreach
  have hkk := Vyukov.k_reachable k s hreach
  have h1 := h.full
  have h2 := h.free
  simp only [Vyukov.cell, Vyukov.capOf, hkk] at h1 h2
  exact ⟨h1, h2⟩

/-- Sequence numbers, exactly.  In a reachable state the sequence number of every cell is determined by `posEnq`,
    `posDeq` and the set of in-flight claimers (threads that won a position CAS and have not yet stored the
    sequence).  For an item position `posDeq ≤ p < posEnq`: the cell shows `p` iff a producer is between its CAS at `p`
    and its sequence store (`enqSt p`), and `p + 1` otherwise.  For a free position `posEnq ≤ p < posDeq + capacity`:
    the cell shows `p - capacity + 1` iff a consumer is between its CAS at `p - capacity` and its sequence store,
    and `p` otherwise. -/
theorem C07_vyukov_sequences_exact (k : Nat) (hk : 1 ≤ k) (s : Vyukov.St)
    (hreach : Vyukov.model.Reachable (Vyukov.init k) s) :
    (∀ p, s.posDeq ≤ p → p < s.posEnq →
      ((∃ t, s.pc t = .enqSt p) → s.seq (p % 2 ^ k) = p) ∧
      ((¬ ∃ t, s.pc t = .enqSt p) → s.seq (p % 2 ^ k) = p + 1)) ∧
    (∀ p, s.posEnq ≤ p → p < s.posDeq + 2 ^ k →
      ((∃ t q v, s.pc t = .deqSt q v ∧ q + 2 ^ k = p) → s.seq (p % 2 ^ k) + 2 ^ k = p + 1) ∧
      ((¬ ∃ t q v, s.pc t = .deqSt q v ∧ q + 2 ^ k = p) → s.seq (p % 2 ^ k) = p)) := by
  obtain ⟨h, ho⟩ := Vyukov.vown_reachable k hk s hreach
  have hkk := Vyukov.k_reachable k s hreach
  have h1 := h.full
  have h2 := h.free
  have h3 := h.eown
  have h4 := h.down
  have h5 := ho.eex
  have h6 := ho.dex
  simp only [Vyukov.cell, Vyukov.capOf, hkk] at h1 h2 h3 h4 h5 h6
  refine ⟨fun p hp1 hp2 => ⟨?_, ?_⟩, fun p hp1 hp2 => ⟨?_, ?_⟩⟩
  · rintro ⟨t, ht⟩; exact (h3 t p ht).2.2
  · intro hn
    rcases h1 p hp1 hp2 with e | e
    · exact e
    · exact absurd (h5 p hp1 hp2 e) hn
  · rintro ⟨t, q, v, ht, rfl⟩
    have := (h4 t q v ht).2.2.1
    have hc : (q + 2 ^ k) % 2 ^ k = q % 2 ^ k := Nat.add_mod_right q (2 ^ k)
    rw [hc, this]; omega
  · intro hn
    rcases h2 p hp1 hp2 with e | e
    · exact e
    · exact absurd (h6 p hp1 hp2 e) hn

/-- Refinement: in a reachable state, the step at which thread `t` fixes its result `r` (successful CAS on
    `m_posEnqueue` / `m_posDequeue`; the loads that find the queue full / empty) is exactly the `bfifo (2^k)`
    transition of `t`'s operation with result `r` on the abstract queue; every other step leaves the abstract queue
    unchanged. -/
theorem C07_vyukov_lp_refines (k : Nat) (hk : 1 ≤ k) (s s' : Vyukov.St) (t : Tid) (ev : Ev)
    (hreach : Vyukov.model.Reachable (Vyukov.init k) s) (hs : Vyukov.step s t = some (s', ev)) :
    (Vyukov.lpRet (s.pc t) = none → ∀ r, Vyukov.lpRet (s'.pc t) = some r →
      ∃ op, Vyukov.opOf (s.pc t) = some op ∧
        (bfifo (2 ^ k)).next (Vyukov.absQueue s) op r = some (Vyukov.absQueue s')) ∧
    ((Vyukov.lpRet (s.pc t) ≠ none ∨ Vyukov.lpRet (s'.pc t) = none) →
      Vyukov.absQueue s' = Vyukov.absQueue s) := by
  have := Vyukov.step_refines (Vyukov.vinv_reachable k hk s hreach) hs
  rw [Vyukov.k_reachable k s hreach] at this
  exact this

/-! ### Non-vacuity: capacity 2 (`k = 1`) -/

def steps (t : Tid) (n : Nat) : List (Tid × Act) := List.replicate n (t, .step)

/-- Wrap-around.  Two items fill the ring, one is dequeued, a third item re-uses cell 0 on the second lap (position
    2, sequence numbers 2 → 3), the rest is dequeued in FIFO order (the third item at position 2, sequence 3 → 4),
    and a last `deq` finds the queue empty. -/
def wrapSched : List (Tid × Act) :=
  [(0, .invoke ⟨"enq", [7]⟩)] ++ steps 0 4 ++ [(0, .ret), (0, .invoke ⟨"enq", [8]⟩)] ++ steps 0 4 ++ [(0, .ret),
   (1, .invoke ⟨"deq", []⟩)] ++ steps 1 4 ++ [(1, .ret), (0, .invoke ⟨"enq", [9]⟩)] ++ steps 0 4 ++ [(0, .ret),
   (1, .invoke ⟨"deq", []⟩)] ++ steps 1 4 ++ [(1, .ret), (1, .invoke ⟨"deq", []⟩)] ++ steps 1 4 ++ [(1, .ret),
   (1, .invoke ⟨"deq", []⟩)] ++ steps 1 3 ++ [(1, .ret)]

def wrapObs : List (Tid × Obs) :=
  [(0, .call ⟨"enq", [7]⟩),                 -- T 0 C enq [7]
   (0, .ev ⟨"ld", "posEnq", "0", ""⟩),      -- T 0 A ld posEnq 0
   (0, .ev ⟨"ld", "seq0", "0", ""⟩),        -- T 0 A ld seq0 0              (dif == 0)
   (0, .ev ⟨"cas+", "posEnq", "0", "1"⟩),   -- T 0 A cas+ posEnq 0 1        (linearization point of enq 7)
   (0, .ev ⟨"st", "seq0", "1", ""⟩),        -- T 0 A st seq0 1              (publish)
   (0, .ret [1]),                           -- T 0 R [1]
   (0, .call ⟨"enq", [8]⟩),
   (0, .ev ⟨"ld", "posEnq", "1", ""⟩),
   (0, .ev ⟨"ld", "seq1", "1", ""⟩),
   (0, .ev ⟨"cas+", "posEnq", "1", "2"⟩),
   (0, .ev ⟨"st", "seq1", "2", ""⟩),
   (0, .ret [1]),
   (1, .call ⟨"deq", []⟩),
   (1, .ev ⟨"ld", "posDeq", "0", ""⟩),
   (1, .ev ⟨"ld", "seq0", "1", ""⟩),        -- T 1 A ld seq0 1              (dif = 1 - (0 + 1) == 0)
   (1, .ev ⟨"cas+", "posDeq", "0", "1"⟩),   -- T 1 A cas+ posDeq 0 1        (linearization point of deq)
   (1, .ev ⟨"st", "seq0", "2", ""⟩),        -- T 1 A st seq0 2              (pos + mask + 1: free for position 2)
   (1, .ret [1, 7]),
   (0, .call ⟨"enq", [9]⟩),
   (0, .ev ⟨"ld", "posEnq", "2", ""⟩),
   (0, .ev ⟨"ld", "seq0", "2", ""⟩),        -- T 0 A ld seq0 2              (second lap of cell 0)
   (0, .ev ⟨"cas+", "posEnq", "2", "3"⟩),
   (0, .ev ⟨"st", "seq0", "3", ""⟩),
   (0, .ret [1]),
   (1, .call ⟨"deq", []⟩),
   (1, .ev ⟨"ld", "posDeq", "1", ""⟩),
   (1, .ev ⟨"ld", "seq1", "2", ""⟩),
   (1, .ev ⟨"cas+", "posDeq", "1", "2"⟩),
   (1, .ev ⟨"st", "seq1", "3", ""⟩),
   (1, .ret [1, 8]),
   (1, .call ⟨"deq", []⟩),
   (1, .ev ⟨"ld", "posDeq", "2", ""⟩),
   (1, .ev ⟨"ld", "seq0", "3", ""⟩),
   (1, .ev ⟨"cas+", "posDeq", "2", "3"⟩),
   (1, .ev ⟨"st", "seq0", "4", ""⟩),
   (1, .ret [1, 9]),
   (1, .call ⟨"deq", []⟩),
   (1, .ev ⟨"ld", "posDeq", "3", ""⟩),
   (1, .ev ⟨"ld", "seq1", "3", ""⟩),        -- T 1 A ld seq1 3              (dif = 3 - (3 + 1) < 0)
   (1, .ev ⟨"ld", "posEnq", "3", ""⟩),      -- T 1 A ld posEnq 3            (pos - posEnq == 0: empty, LP of deq → [0])
   (1, .ret [0])]

example : (Vyukov.model.run (Vyukov.init 1) wrapSched).map (·.2) = some wrapObs := by decide

example : linCheck (bfifo 2) (Vyukov.historyOf wrapObs) = true := by decide

/-- The abstract queue and the positions at the end of that run. -/
example : (Vyukov.model.run (Vyukov.init 1) wrapSched).map
    (fun r => (Vyukov.absQueue r.1, r.1.posEnq, r.1.posDeq, r.1.seq 0, r.1.seq 1)) = some ([], 3, 3, 4, 3) := by
  decide

/-- A failing enqueue on a full queue — with a pending operation that must be completed.  `enq 7` completes;
    thread 1's `enq 8` wins its CAS on `m_posEnqueue` (position 1) and is delayed before its sequence store;
    thread 2's `enq 9` reads position 2, finds cell 0 still holding the item of position 0 (`seq0 = 1`, `dif < 0`),
    loads `m_posDequeue = 0`: `2 - 0 == capacity`, returns `[0]`.  At the instant of that load the abstract queue is
    `[7, 8]`: the item 8, claimed but not yet published, counts. -/
def fullSched : List (Tid × Act) :=
  [(0, .invoke ⟨"enq", [7]⟩)] ++ steps 0 4 ++ [(0, .ret), (1, .invoke ⟨"enq", [8]⟩)] ++ steps 1 3 ++
  [(2, .invoke ⟨"enq", [9]⟩)] ++ steps 2 3 ++ [(2, .ret)]

example : (Vyukov.model.run (Vyukov.init 1) fullSched).map (fun r => r.2.drop 6) =
    some [(1, .call ⟨"enq", [8]⟩),
          (1, .ev ⟨"ld", "posEnq", "1", ""⟩),
          (1, .ev ⟨"ld", "seq1", "1", ""⟩),
          (1, .ev ⟨"cas+", "posEnq", "1", "2"⟩),   -- T 1 A cas+ posEnq 1 2   (LP of enq 8; store pending)
          (2, .call ⟨"enq", [9]⟩),
          (2, .ev ⟨"ld", "posEnq", "2", ""⟩),      -- T 2 A ld posEnq 2
          (2, .ev ⟨"ld", "seq0", "1", ""⟩),        -- T 2 A ld seq0 1         (dif = 1 - 2 < 0)
          (2, .ev ⟨"ld", "posDeq", "0", ""⟩),      -- T 2 A ld posDeq 0       (2 - 0 == capacity: full, LP of enq 9 → [0])
          (2, .ret [0])] := by decide

/-- The state at the end of that run: two items in the abstract queue, thread 1 between CAS and store, cell 1 not
    yet published. -/
example : (Vyukov.model.run (Vyukov.init 1) fullSched).map
    (fun r => (Vyukov.absQueue r.1, r.1.pc 1, r.1.seq 1, r.1.posEnq, r.1.posDeq)) =
    some ([7, 8], .enqSt 1, 1, 2, 0) := by decide

/-- Why pending operations must be completed: the history of the completed operations of that run alone
    (`enq 7 → ok`, then `enq 9 → full` on a queue of capacity 2) is not linearizable ... -/
example : (Vyukov.model.run (Vyukov.init 1) fullSched).map (fun r => Vyukov.historyOf r.2) =
    some [⟨0, ⟨"enq", [7]⟩, [1], 0, 5⟩, ⟨2, ⟨"enq", [9]⟩, [0], 10, 14⟩] := by decide

example : ¬ Linearizable (bfifo 2) [⟨0, ⟨"enq", [7]⟩, [1], 0, 5⟩, ⟨2, ⟨"enq", [9]⟩, [0], 10, 14⟩] := by
  intro hlin
  have := (linCheck_iff (bfifo 2) _ (by decide)).mpr hlin
  revert this
  decide

/-- ... and `extra` of `C07_vyukov_linearizable` repairs it: with the pending `enq 8` completed, it is. -/
example : Linearizable (bfifo 2)
    ([⟨0, ⟨"enq", [7]⟩, [1], 0, 5⟩, ⟨2, ⟨"enq", [9]⟩, [0], 10, 14⟩] ++ [⟨1, ⟨"enq", [8]⟩, [1], 6, 15⟩]) :=
  linCheck_sound (bfifo 2) _ (by decide)

/-- A consumer has to retry because the producer has claimed but not yet published the cell.  Thread 0's `enq 7`
    wins its CAS (the item IS in the abstract queue) and is delayed before `st seq0 1`.  Thread 1's `deq` finds
    `seq0 = 0 < pos + 1`, loads `m_posEnqueue = 1 ≠ pos`: not empty, so it backs off and retries (twice here);
    after the producer's store it wins and returns 7. -/
def retrySched : List (Tid × Act) :=
  [(0, .invoke ⟨"enq", [7]⟩)] ++ steps 0 3 ++ [(1, .invoke ⟨"deq", []⟩)] ++ steps 1 6 ++ steps 0 1 ++ steps 1 4 ++
  [(1, .ret), (0, .ret)]

example : (Vyukov.model.run (Vyukov.init 1) retrySched).map (·.2) =
    some [(0, .call ⟨"enq", [7]⟩),
          (0, .ev ⟨"ld", "posEnq", "0", ""⟩),
          (0, .ev ⟨"ld", "seq0", "0", ""⟩),
          (0, .ev ⟨"cas+", "posEnq", "0", "1"⟩),   -- T 0 A cas+ posEnq 0 1   (LP of enq 7; payload written; store pending)
          (1, .call ⟨"deq", []⟩),
          (1, .ev ⟨"ld", "posDeq", "0", ""⟩),
          (1, .ev ⟨"ld", "seq0", "0", ""⟩),        -- T 1 A ld seq0 0         (dif = 0 - 1 < 0)
          (1, .ev ⟨"ld", "posEnq", "1", ""⟩),      -- T 1 A ld posEnq 1       (0 - 1 != 0: not empty → back off, retry)
          (1, .ev ⟨"ld", "posDeq", "0", ""⟩),
          (1, .ev ⟨"ld", "seq0", "0", ""⟩),
          (1, .ev ⟨"ld", "posEnq", "1", ""⟩),      --                         (retry again)
          (0, .ev ⟨"st", "seq0", "1", ""⟩),        -- T 0 A st seq0 1         (publish)
          (1, .ev ⟨"ld", "posDeq", "0", ""⟩),
          (1, .ev ⟨"ld", "seq0", "1", ""⟩),        -- T 1 A ld seq0 1         (dif == 0)
          (1, .ev ⟨"cas+", "posDeq", "0", "1"⟩),   -- T 1 A cas+ posDeq 0 1   (LP of deq → 7)
          (1, .ev ⟨"st", "seq0", "2", ""⟩),
          (1, .ret [1, 7]),
          (0, .ret [1])] := by decide

/-- While the consumer is retrying, the abstract queue already holds the claimed item. -/
example : (Vyukov.model.run (Vyukov.init 1) (retrySched.take 8)).map
    (fun r => (Vyukov.absQueue r.1, r.1.pc 0, r.1.pc 1, r.1.seq 0)) = some ([7], .enqSt 0, .deqPos, 0) := by decide

example : (Vyukov.model.run (Vyukov.init 1) retrySched).map (fun r => linCheck (bfifo 2) (Vyukov.historyOf r.2)) =
    some true := by decide

/-- The symmetric wait: a producer finds `dif < 0` on a queue that is NOT full, because a consumer has claimed the
    item of the cell but not yet released it.  The ring is full (`[7, 8]`); thread 1's `deq` wins its CAS (position
    0) and is delayed before `st seq0 2`; thread 0's `enq 9` reads position 2, `seq0 = 1` (`dif < 0`), loads
    `m_posDequeue = 1`: `2 - 1 != capacity`, not full, retries; after the consumer's store it succeeds. -/
def waitSched : List (Tid × Act) :=
  [(0, .invoke ⟨"enq", [7]⟩)] ++ steps 0 4 ++ [(0, .ret), (0, .invoke ⟨"enq", [8]⟩)] ++ steps 0 4 ++ [(0, .ret),
   (1, .invoke ⟨"deq", []⟩)] ++ steps 1 3 ++ [(0, .invoke ⟨"enq", [9]⟩)] ++ steps 0 3 ++ steps 1 1 ++ steps 0 4 ++
  [(0, .ret), (1, .ret)]

example : (Vyukov.model.run (Vyukov.init 1) waitSched).map (fun r => r.2.drop 12) =
    some [(1, .call ⟨"deq", []⟩),
          (1, .ev ⟨"ld", "posDeq", "0", ""⟩),
          (1, .ev ⟨"ld", "seq0", "1", ""⟩),
          (1, .ev ⟨"cas+", "posDeq", "0", "1"⟩),   -- T 1 A cas+ posDeq 0 1   (LP of deq → 7; release pending)
          (0, .call ⟨"enq", [9]⟩),
          (0, .ev ⟨"ld", "posEnq", "2", ""⟩),
          (0, .ev ⟨"ld", "seq0", "1", ""⟩),        -- T 0 A ld seq0 1         (dif = 1 - 2 < 0)
          (0, .ev ⟨"ld", "posDeq", "1", ""⟩),      -- T 0 A ld posDeq 1       (2 - 1 != capacity: not full → retry)
          (1, .ev ⟨"st", "seq0", "2", ""⟩),        -- T 1 A st seq0 2         (release the cell)
          (0, .ev ⟨"ld", "posEnq", "2", ""⟩),
          (0, .ev ⟨"ld", "seq0", "2", ""⟩),
          (0, .ev ⟨"cas+", "posEnq", "2", "3"⟩),
          (0, .ev ⟨"st", "seq0", "3", ""⟩),
          (0, .ret [1]),
          (1, .ret [1, 7])] := by decide

example : (Vyukov.model.run (Vyukov.init 1) waitSched).map
    (fun r => (linCheck (bfifo 2) (Vyukov.historyOf r.2), Vyukov.absQueue r.1)) = some (true, [8, 9]) := by decide

/-- A failed CAS.  Two producers read position 0 and see `dif == 0`; thread 0 wins, thread 1's CAS fails
    (`cas- posEnq 1 0`: seen 1, expected 0), takes the value seen as its new position WITHOUT reloading
    `m_posEnqueue`, and claims position 1. -/
def raceSched : List (Tid × Act) :=
  [(0, .invoke ⟨"enq", [5]⟩), (1, .invoke ⟨"enq", [6]⟩)] ++ steps 0 2 ++ steps 1 2 ++ steps 0 1 ++ steps 1 4 ++
  steps 0 1 ++ [(1, .ret), (0, .ret)]

example : (Vyukov.model.run (Vyukov.init 1) raceSched).map (fun r => (r.2, Vyukov.absQueue r.1)) =
    some ([(0, .call ⟨"enq", [5]⟩),
           (1, .call ⟨"enq", [6]⟩),
           (0, .ev ⟨"ld", "posEnq", "0", ""⟩),
           (0, .ev ⟨"ld", "seq0", "0", ""⟩),
           (1, .ev ⟨"ld", "posEnq", "0", ""⟩),
           (1, .ev ⟨"ld", "seq0", "0", ""⟩),
           (0, .ev ⟨"cas+", "posEnq", "0", "1"⟩),
           (1, .ev ⟨"cas-", "posEnq", "1", "0"⟩),   -- T 1 A cas- posEnq 1 0   (seen 1, expected 0)
           (1, .ev ⟨"ld", "seq1", "1", ""⟩),        -- T 1 A ld seq1 1         (no reload of posEnq)
           (1, .ev ⟨"cas+", "posEnq", "1", "2"⟩),
           (1, .ev ⟨"st", "seq1", "2", ""⟩),
           (0, .ev ⟨"st", "seq0", "1", ""⟩),
           (1, .ret [1]),
           (0, .ret [1])], [5, 6]) := by decide

end CdsVerif.Props.C07Vyukov

/-
  Preservation of the SegmentedQueue invariant: steps of `do_dequeue` outside `remove_head`.
-/
import CdsVerif.Algo.Segmented.Inv
namespace CdsVerif.Algo.Segmented
open CdsVerif.Machine CdsVerif.Spec

/-- Where a stored item is. -/
theorem stored_facts {s : St} (G : Glob s) {y c : Nat} (hc : s.tCas y = some c) :
    (s.cell (s.posS y) (s.posI y) = .item y ∨ s.cell (s.posS y) (s.posI y) = .del y) ∧
    s.posS y < s.nseg ∧ s.posI y < s.K := by
  have h1 := (G.cas_t y c hc).2.2
  have h2 := G.enq_cell y h1
  refine ⟨h2, ?_, ?_⟩
  · by_cases hh : s.posS y < s.nseg
    · exact hh
    · have := G.fresh (s.posS y) (s.posI y) (by omega)
      rw [this] at h2; rcases h2 with h2 | h2 <;> cases h2
  · by_cases hh : s.posI y < s.K
    · exact hh
    · have := G.wide (s.posS y) (s.posI y) (by omega)
      rw [this] at h2; rcases h2 with h2 | h2 <;> cases h2

/-- When the segment list is empty every item ever stored has been taken. -/
theorem all_marked_of_empty {s : St} (G : Glob s) (hlo : s.lo = s.nseg) {y c : Nat} (hc : s.tCas y = some c) :
    (s.cell (s.posS y) (s.posI y)).isDel = true := by
  have := stored_facts G hc
  exact G.dead _ _ (by omega) this.2.2

theorem step_deqLd1 {s s' : St} {t : Tid} {e : Ev} {ps : List Nat} (h : Inv s)
    (hpc : s.pc t = .deqLd1 ps) (hs : step s t = some (s', e)) : Inv s' := by
  unfold step at hs; simp only [hpc] at hs
  simp only [Option.some.injEq, Prod.mk.injEq] at hs; obtain ⟨rfl, _⟩ := hs
  have hL := h.2 t; rw [hpc] at hL
  have hact := hL.act (by simp)
  apply inv_pcnow h
  exact loc_deqLd2 (by show s.tCall t < s.now + 1; omega)

/-- A dequeue starts a scan of segment `g` with a fresh permutation. -/
theorem loc_startD {s : St} {t : Tid} {ps : List Nat} {g : Nat} (G : Glob s)
    (hact : s.tCall t < s.now) (hptr : g < s.nseg) (hdptr : g ≤ s.lo) :
    Loc s t (scanD (nextPerm s.K ps).2 g false (nextPerm s.K ps).1) := by
  have hlt := nextPerm_lt s.K ps
  have hall := nextPerm_all s.K ps
  rcases scanD_cases (nextPerm s.K ps).2 g false (nextPerm s.K ps).1 with ⟨_, hf, _⟩ | ⟨hb, _, hq⟩ | ⟨i, r, hb, hq⟩
  · cases hf
  · rw [hq]; rw [hb] at hall
    refine loc_rhTry hact hptr hdptr ?_
    intro j hj; exact absurd (hall j hj) (by simp)
  · rw [hq]; rw [hb] at hlt hall
    have hall' : ∀ j, j < s.K → j = i ∨ j ∈ r := by
      intro j hj; have := hall j hj; simpa [List.mem_cons] using this
    refine loc_deqRd hact hptr hdptr ⟨?_, ?_, ?_⟩ ?_ ?_
    · exact hlt i (by simp)
    · intro j hj; exact hlt j (by simp [hj])
    · intro j hj
      rcases hall' j hj with h1 | h1
      · exact Or.inl h1
      · exact Or.inr (Or.inl h1)
    · intro y c hc _ _
      have := (stored_facts G hc).2.2
      rcases hall' _ this with h1 | h1
      · exact Or.inl h1
      · exact Or.inr (Or.inl h1)
    · intro hf; cases hf

theorem step_deqLd2 {s s' : St} {t : Tid} {e : Ev} {ps : List Nat} {p : Option Nat} (h : Inv s)
    (hpc : s.pc t = .deqLd2 ps p) (hs : step s t = some (s', e)) : Inv s' := by
  unfold step at hs; simp only [hpc] at hs
  have hL := h.2 t; rw [hpc] at hL
  have hact := hL.act (by simp)
  have hact' : s.tCall t < s.now + 1 := by omega
  have G := h.1
  split at hs
  · rename_i hhd
    split at hs
    · simp only [Option.some.injEq, Prod.mk.injEq] at hs; obtain ⟨rfl, _⟩ := hs
      apply inv_pcnow h
      refine loc_deqDone hact' (by intro x hx; cases hx) ?_
      intro _ y c hc _
      exact all_marked_of_empty G (G.head_none hhd) hc
    · rename_i g
      simp only [Option.some.injEq, Prod.mk.injEq] at hs; obtain ⟨rfl, _⟩ := hs
      have hg := G.head_some g hhd
      apply inv_pcnow h
      exact loc_startD (s := { s with pc := _, now := s.now + 1 }) (glob_pcnow s t _ G) hact' hg.2 hg.1
  · simp only [Option.some.injEq, Prod.mk.injEq] at hs; obtain ⟨rfl, _⟩ := hs
    apply inv_pcnow h
    exact loc_deqLd2 hact'

/-- The scan of a dequeue moves on: cell `i` was seen deleted. -/
theorem loc_scanD_del {s : St} {t : Tid} {ps : List Nat} {g i : Nat} {rest : List Nat} {hn : Bool} (G : Glob s)
    (hact : s.tCall t < s.now) (hptr : g < s.nseg) (hdptr : g ≤ s.lo)
    (hscan : i < s.K ∧ (∀ j, j ∈ rest → j < s.K) ∧
      ∀ j, j < s.K → j = i ∨ j ∈ rest ∨ (s.cell g j).isDel = true ∨ hn = true)
    (he1 : ∀ y c, s.tCas y = some c → c < s.tCall t → s.posS y = g →
      s.posI y = i ∨ s.posI y ∈ rest ∨ (s.cell g (s.posI y)).isDel = true)
    (he2 : hn = true → ∀ y c, s.tCas y = some c → c < s.tCall t → s.posS y ≤ g)
    (hvis : (s.cell g i).isDel = true) : Loc s t (scanD ps g hn rest) := by
  rcases scanD_cases ps g hn rest with ⟨hb, hf, hq⟩ | ⟨hb, hf, hq⟩ | ⟨i', r, hb, hq⟩
  · rw [hq]; subst hb
    refine loc_deqDone hact (by intro x hx; cases hx) ?_
    intro _ y c hc hlt
    have hle := he2 hf y c hc hlt
    have hst := stored_facts G hc
    by_cases hg : s.posS y = g
    · rcases he1 y c hc hlt hg with h1 | h1 | h1
      · rw [hg, h1]; exact hvis
      · simp at h1
      · rw [hg]; exact h1
    · exact G.dead _ _ (by omega) hst.2.2
  · rw [hq]; subst hb
    refine loc_rhTry hact hptr hdptr ?_
    intro j hj
    rcases hscan.2.2 j hj with h1 | h1 | h1 | h1
    · subst h1; exact hvis
    · simp at h1
    · exact h1
    · rw [hf] at h1; cases h1
  · rw [hq]; subst hb
    refine loc_deqRd hact hptr hdptr ⟨?_, ?_, ?_⟩ ?_ he2
    · exact hscan.2.1 i' (by simp)
    · intro j hj; exact hscan.2.1 j (by simp [hj])
    · intro j hj
      rcases hscan.2.2 j hj with h1 | h1 | h1 | h1
      · subst h1; exact Or.inr (Or.inr (Or.inl hvis))
      · simp only [List.mem_cons] at h1
        rcases h1 with h1 | h1
        · exact Or.inl h1
        · exact Or.inr (Or.inl h1)
      · exact Or.inr (Or.inr (Or.inl h1))
      · exact Or.inr (Or.inr (Or.inr h1))
    · intro y c hc hlt hg
      rcases he1 y c hc hlt hg with h1 | h1 | h1
      · rw [h1]; exact Or.inr (Or.inr hvis)
      · simp only [List.mem_cons] at h1
        rcases h1 with h1 | h1
        · exact Or.inl h1
        · exact Or.inr (Or.inl h1)
      · exact Or.inr (Or.inr h1)

/-- The scan of a dequeue moves on: cell `i` was seen null (so `g` is the last segment). -/
theorem loc_scanD_null {s : St} {t : Tid} {ps : List Nat} {g i : Nat} {rest : List Nat} {hn : Bool} (G : Glob s)
    (hact : s.tCall t < s.now) (hptr : g < s.nseg) (hdptr : g ≤ s.lo)
    (hscan : i < s.K ∧ (∀ j, j ∈ rest → j < s.K) ∧
      ∀ j, j < s.K → j = i ∨ j ∈ rest ∨ (s.cell g j).isDel = true ∨ hn = true)
    (he1 : ∀ y c, s.tCas y = some c → c < s.tCall t → s.posS y = g →
      s.posI y = i ∨ s.posI y ∈ rest ∨ (s.cell g (s.posI y)).isDel = true)
    (hvis : s.cell g i = .null) : Loc s t (scanD ps g true rest) := by
  have hlast : s.nseg ≤ g + 1 := by
    by_cases hh : g + 1 < s.nseg
    · exact absurd hvis (G.full g i hh hscan.1)
    · omega
  have he2 : ∀ y c, s.tCas y = some c → c < s.tCall t → s.posS y ≤ g := by
    intro y c hc _; have := (stored_facts G hc).2.1; omega
  have hne : ∀ y c, s.tCas y = some c → s.posS y = g → s.posI y ≠ i := by
    intro y c hc hg hi
    have := (stored_facts G hc).1
    rw [hg, hi, hvis] at this
    rcases this with h1 | h1 <;> cases h1
  rcases scanD_cases ps g true rest with ⟨hb, _, hq⟩ | ⟨_, hf, _⟩ | ⟨i', r, hb, hq⟩
  · rw [hq]; subst hb
    refine loc_deqDone hact (by intro x hx; cases hx) ?_
    intro _ y c hc hlt
    have hle := he2 y c hc hlt
    have hst := stored_facts G hc
    by_cases hg : s.posS y = g
    · rcases he1 y c hc hlt hg with h1 | h1 | h1
      · exact absurd h1 (hne y c hc hg)
      · simp at h1
      · rw [hg]; exact h1
    · exact G.dead _ _ (by omega) hst.2.2
  · cases hf
  · rw [hq]; subst hb
    refine loc_deqRd hact hptr hdptr ⟨?_, ?_, ?_⟩ ?_ (fun _ => he2)
    · exact hscan.2.1 i' (by simp)
    · intro j hj; exact hscan.2.1 j (by simp [hj])
    · intro j hj; exact Or.inr (Or.inr (Or.inr rfl))
    · intro y c hc hlt hg
      rcases he1 y c hc hlt hg with h1 | h1 | h1
      · exact absurd h1 (hne y c hc hg)
      · simp only [List.mem_cons] at h1
        rcases h1 with h1 | h1
        · exact Or.inl h1
        · exact Or.inr (Or.inl h1)
      · exact Or.inr (Or.inr h1)

theorem step_deqRd {s s' : St} {t : Tid} {e : Ev} {ps : List Nat} {g i : Nat} {rest : List Nat} {hn : Bool} (h : Inv s)
    (hpc : s.pc t = .deqRd ps g i rest hn) (hs : step s t = some (s', e)) : Inv s' := by
  unfold step at hs; simp only [hpc] at hs
  have hL := h.2 t; rw [hpc] at hL
  have hact := hL.act (by simp)
  have hact' : s.tCall t < s.now + 1 := by omega
  have hscan := hL.dRd ps g i rest hn rfl
  have hptr := hL.ptr g rfl
  have hdptr := hL.dptr g rfl
  have he1 := hL.e1Rd ps g i rest hn rfl
  have he2 : hn = true → ∀ y c, s.tCas y = some c → c < s.tCall t → s.posS y ≤ g := by
    intro hh; subst hh; exact hL.e2Rd ps g i rest rfl
  have G := h.1
  split at hs
  · rename_i hc
    simp only [Option.some.injEq, Prod.mk.injEq] at hs; obtain ⟨rfl, _⟩ := hs
    apply inv_pcnow h
    exact loc_scanD_null (s := { s with pc := _, now := s.now + 1 }) (glob_pcnow s t _ G) hact' hptr hdptr hscan he1 hc
  · rename_i y hc
    simp only [Option.some.injEq, Prod.mk.injEq] at hs; obtain ⟨rfl, _⟩ := hs
    apply inv_pcnow h
    exact loc_scanD_del (s := { s with pc := _, now := s.now + 1 }) (glob_pcnow s t _ G) hact' hptr hdptr hscan he1 he2
      (by show (s.cell g i).isDel = true; rw [hc]; rfl)
  · rename_i y hc
    simp only [Option.some.injEq, Prod.mk.injEq] at hs; obtain ⟨rfl, _⟩ := hs
    apply inv_pcnow h
    exact loc_deqCas hact' hptr hdptr (Or.inl hc) hscan he1 he2

/-! ### The successful marking CAS -/

/-- The state after thread `t` has marked item `x` in cell `i` of segment `g` as deleted. -/
def afterDeq (s : St) (t : Tid) (x g i : Nat) : St :=
  { s with cell := upd2 s.cell g i (.del x), pc := upd s.pc t (.deqDone (some x)), now := s.now + 1,
           deqCnt := upd s.deqCnt x (s.deqCnt x + 1), tMark := upd s.tMark x (some s.now) }

set_option maxHeartbeats 1000000 in
theorem glob_afterDeq {s : St} {t : Tid} {x g i : Nat} (G : Glob s) (hc : s.cell g i = .item x) (hdptr : g ≤ s.lo) :
    Glob (afterDeq s t x g i) := by
  have hx := G.item_pos g i x hc
  have hx6 : s.tMark x = none := by
    cases hh : s.tMark x with
    | none => rfl
    | some m => have := G.mark_t x m hh; omega
  unfold afterDeq
  constructor
  · exact G.lo_le
  · exact G.head_some
  · exact G.head_none
  · exact G.tail_some
  · exact G.tail_none
  · intro g' i' hg'; have := G.fresh g' i' hg'; simp only; grind [upd2]
  · intro g' i' hi'; have := G.wide g' i' hi'; simp only; grind [upd2]
  · intro g' i' hg' hi'; have := G.dead g' i' hg' hi'; simp only at hg' hi' ⊢; grind [upd2, Cell.isDel]
  · intro g' i' hg' hi'; have := G.full g' i' hg' hi'; simp only; grind [upd2]
  · exact G.holder_lock
  · intro g' i' y hy
    have := G.item_pos g' i' y
    simp only at hy ⊢; grind [upd, upd2]
  · intro g' i' y hy
    have := G.del_pos g' i' y
    simp only at hy ⊢; grind [upd, upd2]
  · exact G.enq_le
  · intro y hy
    have := G.enq_cell y hy
    simp only at hy ⊢; grind [upd2]
  · intro y hy; have := G.enq_zero y hy; simp only at hy ⊢; grind [upd]
  · exact G.enq_used
  · intro y hy; have := G.used_t y hy; exact ⟨by simp only; omega, this.2⟩
  · intro y c hy; have := G.cas_t y c hy; exact ⟨this.1, by simp only; omega, this.2.2⟩
  · exact G.cas_some
  · intro y m hy; have := G.mark_t y m; simp only at hy ⊢; grind [upd]
  · intro y m c hm hy
    have := G.mark_cas y m c
    have := G.cas_t y c hy
    simp only at hm hy ⊢; grind [upd]
  · intro y hy; have := G.mark_some y; simp only at hy ⊢; grind [upd]
  · exact G.floor
  · exact G.order
  · intro y z m c hm hz hlt hmm
    simp only at hm hz hlt hmm ⊢
    by_cases hyx : y = x
    · subst hyx
      have hm' : m = s.now := by simpa [upd] using hm.symm
      subst hm'
      by_cases hzx : z = y
      · subst hzx; rfl
      · have hzm : s.tMark z = none := by
          cases hh : s.tMark z with
          | none => rfl
          | some m' =>
            have h1 := (G.mark_t z m' hh).1
            have h2 := hmm m' (by simp [upd, hzx, hh])
            omega
        have hst := stored_facts G hz
        have hord := G.order y z c hx.1 hz hlt
        have hcell : s.cell (s.posS z) (s.posI z) = .item z := by
          rcases hst.1 with h1 | h1
          · exact h1
          · have := (G.del_pos _ _ z h1).2.2.2
            exact absurd (G.mark_some z this) (by simp [hzm])
        have hlo : s.lo ≤ s.posS z := by
          by_cases hh : s.posS z < s.lo
          · have := G.dead _ _ hh hst.2.2
            rw [hcell] at this; cases this
          · omega
        omega
    · have hm' : s.tMark y = some m := by simpa [upd, hyx] using hm
      refine G.quasi y z m c hm' hz hlt ?_
      intro m' hzm
      by_cases hzx : z = x
      · subst hzx; rw [hx6] at hzm; cases hzm
      · exact hmm m' (by simp [upd, hzx, hzm])
  · exact G.quiet

theorem frame_afterDeq {s : St} {t t' : Tid} {x g i : Nat} (G : Glob s) (hc : s.cell g i = .item x) :
    Frame s (afterDeq s t x g i) t' (s.pc t') := by
  have hx := G.item_pos g i x hc
  unfold afterDeq
  constructor
  · rfl
  · exact Nat.le_refl _
  · exact Nat.le_refl _
  · intro g' i' hh; simp only; grind [upd2]
  · intro g' i' y hh; simp only; grind [upd2]
  · intro g' i' y hh; simp only; grind [upd2]
  · intro g' i' hh; simp only; grind [upd2, Cell.isDel]
  · intro hh; exact ⟨hh, rfl, rfl, rfl, rfl⟩
  · rfl
  · simp only; omega
  · intro y c hh; exact Or.inl hh
  · intro y c _; exact ⟨rfl, rfl⟩
  · intro y hh; exact ⟨hh, rfl, rfl⟩
  · intro y _; rfl
  · intro y hy; exact hy
  · intro y hy; simp only; grind [upd]
  · intro y c hy; exact hy
  · intro y m hy
    have : y ≠ x := by
      intro hyx; subst hyx
      have := (G.mark_t y m hy).2; omega
    simp only; grind [upd]

theorem step_deqCas {s s' : St} {t : Tid} {e : Ev} {ps : List Nat} {g i x : Nat} {rest : List Nat} {hn : Bool}
    (h : Inv s) (hpc : s.pc t = .deqCas ps g i x rest hn) (hs : step s t = some (s', e)) : Inv s' := by
  unfold step at hs; simp only [hpc] at hs
  have hL := h.2 t; rw [hpc] at hL
  have hact := hL.act (by simp)
  have hact' : s.tCall t < s.now + 1 := by omega
  have hscan := hL.dCas ps g i x rest hn rfl
  have hptr := hL.ptr g rfl
  have hdptr := hL.dptr g rfl
  have he1 := hL.e1Cas ps g i x rest hn rfl
  have he2 : hn = true → ∀ y c, s.tCas y = some c → c < s.tCall t → s.posS y ≤ g := by
    intro hh; subst hh; exact hL.e2Cas ps g i x rest rfl
  have G := h.1
  split at hs
  · rename_i hc
    simp only [Option.some.injEq, Prod.mk.injEq] at hs; obtain ⟨rfl, _⟩ := hs
    refine inv_of_step (s' := afterDeq s t x g i) h rfl (glob_afterDeq G hc hdptr) ?_ ?_
    · intro t' _
      exact frame_afterDeq G hc
    · refine loc_deqDone hact' ?_ (by intro hh; cases hh)
      intro y hy; injection hy with hy; subst hy
      refine ⟨?_, s.now, ?_, hact⟩
      · show upd s.deqCnt x (s.deqCnt x + 1) x = 1
        simp [upd, (G.item_pos g i x hc).2.2.2]
      · show upd s.tMark x (some s.now) x = some s.now
        simp [upd]
  · rename_i hc
    simp only [Option.some.injEq, Prod.mk.injEq] at hs; obtain ⟨rfl, _⟩ := hs
    have hdel : s.cell g i = .del x := by
      rcases hscan.2.2.1 with h1 | h1
      · exact absurd h1 hc
      · exact h1
    apply inv_pcnow h
    exact loc_scanD_del (s := { s with pc := _, now := s.now + 1 }) (glob_pcnow s t _ G) hact' hptr hdptr
      ⟨hscan.1, hscan.2.1, hscan.2.2.2⟩ he1 he2 (by show (s.cell g i).isDel = true; rw [hdel]; rfl)

end CdsVerif.Algo.Segmented

/-
  Preservation of the StripedSet invariant (`Inv.lean`): `resize()` under both policies — `lock_all` / `unlock_all`
  (striping), `acquire_resize` with its sweep over the old lock array, the replacement of the lock array and
  `release_resize` (refinable), and `internal_resize` (the rehash is `sinv_step_zMask`).
-/
import CdsVerif.Algo.Striped.Inv
namespace CdsVerif.Algo.Striped
open CdsVerif.Machine CdsVerif.Spec

set_option maxHeartbeats 1000000 in
theorem sinv_step_zOld {cfg : Cfg} {s s' : St} {t : Tid} {ev : Ev} {r : GRet}
    (h : SInv cfg s) (hpc : s.pc t = .zOld r) (hs : step cfg s t = some (s', ev)) : SInv cfg s' := by
  simp only [step, hpc] at hs
  simp at hs; obtain ⟨rfl, -⟩ := hs
  sinv_all h

set_option maxHeartbeats 1000000 in
theorem sinv_step_zWait {cfg : Cfg} {s s' : St} {t : Tid} {ev : Ev} {r : GRet} {old i : Nat}
    (h : SInv cfg s) (hpc : s.pc t = .zWait r old i) (hs : step cfg s t = some (s', ev)) : SInv cfg s' := by
  simp only [step, hpc] at hs
  simp at hs; obtain ⟨rfl, -⟩ := hs
  sinv_all h

set_option maxHeartbeats 1000000 in
theorem sinv_step_zAccW {cfg : Cfg} {s s' : St} {t : Tid} {ev : Ev} {r : GRet} {old : Nat}
    (h : SInv cfg s) (hpc : s.pc t = .zAccW r old) (hs : step cfg s t = some (s', ev)) : SInv cfg s' := by
  simp only [step, hpc] at hs
  simp at hs; obtain ⟨rfl, -⟩ := hs
  sinv_all h

set_option maxHeartbeats 1000000 in
theorem sinv_step_zRelO {cfg : Cfg} {s s' : St} {t : Tid} {ev : Ev} {r : GRet}
    (h : SInv cfg s) (hpc : s.pc t = .zRelO r) (hs : step cfg s t = some (s', ev)) : SInv cfg s' := by
  simp only [step, hpc] at hs
  simp at hs; obtain ⟨rfl, -⟩ := hs
  sinv_all h

set_option maxHeartbeats 4000000 in
theorem sinv_step_zLk {cfg : Cfg} {s s' : St} {t : Tid} {ev : Ev} {r : GRet} {old i : Nat}
    (h : SInv cfg s) (hpc : s.pc t = .zLk r old i) (hs : step cfg s t = some (s', ev)) : SInv cfg s' := by
  simp only [step, hpc] at hs
  have hstr := h.pol_s t (by simp [hpc, strOnly])
  have hg0 := (h.str0 hstr).1
  have hi := h.hlk t r old i hpc
  split at hs
  · simp at hs; obtain ⟨rfl, -⟩ := hs
    sinv_all h
  · simp at hs; obtain ⟨rfl, -⟩ := hs
    by_cases hl : i + 1 < s.asz 0
    · simp only [hl, if_true]
      sinv_all h
    · simp only [hl, if_false]
      have hno : ∀ u, inCell (s.pc u) = true → False := by
        intro u hu
        obtain ⟨g, c, hc⟩ := inCell_cell hu
        obtain ⟨h1, h2, h3⟩ := h.hold u g c hc
        have hg : g = 0 := by omega
        subst hg
        by_cases hci : c < i
        · have := hi.2 c hci; rw [h1] at this; injection this with e; subst e; rw [hpc] at hu; simp [inCell] at hu
        · have hc2 : c = i := by omega
          subst hc2; have := h.l1 0 c u h1; contradiction
      have hnoex : ∀ u, excl (s.pc u) = true → False := by
        intro u hu
        have h1 := h.hfull u hstr hu i hi.1
        have := h.l1 0 i u h1; contradiction
      sinv_all h

set_option maxHeartbeats 4000000 in
theorem sinv_step_zCas {cfg : Cfg} {s s' : St} {t : Tid} {ev : Ev} {r : GRet} {old att : Nat}
    (h : SInv cfg s) (hpc : s.pc t = .zCas r old att) (hs : step cfg s t = some (s', ev)) : SInv cfg s' := by
  simp only [step, hpc] at hs
  have hr := h.pol_r t (by simp [hpc, refOnly])
  split at hs
  · next hnone =>
    simp at hs; obtain ⟨rfl, -⟩ := hs
    have hsz := h.rs_none hr hnone
    have hpos := h.aszpos s.gen (Nat.le_refl _)
    sinv_all h
  · next u hu =>
    simp at hs; obtain ⟨rfl, -⟩ := hs
    by_cases hl : att + 1 < 32
    · simp only [hl, if_true]
      sinv_all h
    · simp only [hl, if_false]
      sinv_all h

set_option maxHeartbeats 4000000 in
theorem sinv_step_zTry {cfg : Cfg} {s s' : St} {t : Tid} {ev : Ev} {r : GRet} {old g i : Nat}
    (h : SInv cfg s) (hpc : s.pc t = .zTry r old g i) (hs : step cfg s t = some (s', ev)) : SInv cfg s' := by
  simp only [step, hpc] at hs
  have hr := h.pol_r t (by simp [hpc, refOnly])
  have hsw := h.swp t r old g i hpc
  split at hs
  · simp at hs; obtain ⟨rfl, -⟩ := hs
    exact h
  · simp at hs; obtain ⟨rfl, -⟩ := hs
    sinv_all h

set_option maxHeartbeats 4000000 in
theorem sinv_step_zTryU {cfg : Cfg} {s s' : St} {t : Tid} {ev : Ev} {r : GRet} {old g i : Nat}
    (h : SInv cfg s) (hpc : s.pc t = .zTryU r old g i) (hs : step cfg s t = some (s', ev)) : SInv cfg s' := by
  simp only [step, hpc] at hs
  simp at hs; obtain ⟨rfl, -⟩ := hs
  have hr := h.pol_r t (by simp [hpc, refOnly])
  have hsw := h.swpU t r old g i hpc
  have hh := h.hold t g i (by simp [hpc, cellOf])
  have hown := h.own2 t hr (by simp [hpc, ownPC])
  have hsz := h.rs_own t hr (by simp [hpc, ownPC]) (by simp [hpc, midSwap])
  -- no other thread inside a cell section holds cell i
  have hne : ∀ u g2 c, inCell (s.pc u) = true → cellOf (s.pc u) = some (g2, c) → i + 1 ≤ c := by
    intro u g2 c hu hc
    have h1 := hsw.2 u g2 c hu hc
    have h2 := h.cgen u g2 c hu hc
    have h3 := (h.hold u g2 c hc).1
    by_cases hci : c = i
    · subst hci
      rw [h2, ← hsw.1, hh.1] at h3
      injection h3 with e; subst e; rw [hpc] at hu; simp [inCell] at hu
    · omega
  by_cases hl : i + 1 < s.asz g
  · simp only [hl, if_true]
    sinv_all h
  · simp only [hl, if_false]
    have hno : ∀ u, inCell (s.pc u) = true → False := by
      intro u hu
      obtain ⟨g2, c, hc⟩ := inCell_cell hu
      have h1 := hne u g2 c hu hc
      have h2 := h.cgen u g2 c hu hc
      have h3 := (h.hold u g2 c hc).2.2
      rw [h2, ← hsw.1] at h3
      omega
    have hnoex : ∀ u, excl (s.pc u) = true → u = t := by
      intro u hu
      have h1 : ownPC (s.pc u) = true := by
        revert hu; cases s.pc u <;> simp [excl, ownPC]
      have := h.own2 u hr h1
      rw [hown] at this; injection this with e; exact e.symm
    sinv_all h

set_option maxHeartbeats 4000000 in
theorem sinv_step_zChk {cfg : Cfg} {s s' : St} {t : Tid} {ev : Ev} {r : GRet} {old : Nat}
    (h : SInv cfg s) (hpc : s.pc t = .zChk r old) (hs : step cfg s t = some (s', ev)) : SInv cfg s' := by
  simp only [step, hpc] at hs
  simp at hs; obtain ⟨rfl, -⟩ := hs
  have hex : excl (s.pc t) = true := by simp [hpc, excl]
  have hpos := h.aszpos 0 (Nat.zero_le _)
  by_cases hr : cfg.refinable = true
  · have hsz := h.rs_own t hr (by simp [hpc, ownPC]) (by simp [hpc, midSwap])
    by_cases ho : old = s.mask + 1
    · simp only [ho, hr, if_true]
      sinv_all h
    · simp only [ho, hr, if_false, afterResize, if_true]
      sinv_all h
  · have hr' : cfg.refinable = false := by simpa using hr
    have hf := h.hfull t hr' hex
    by_cases ho : old = s.mask + 1
    · simp only [ho, hr', if_true, if_false, Bool.false_eq_true]
      sinv_all h
    · simp only [ho, hr', if_false, afterResize, Bool.false_eq_true]
      sinv_all h

set_option maxHeartbeats 4000000 in
theorem sinv_step_zCapSt {cfg : Cfg} {s s' : St} {t : Tid} {ev : Ev} {r : GRet} {old : Nat}
    (h : SInv cfg s) (hpc : s.pc t = .zCapSt r old) (hs : step cfg s t = some (s', ev)) : SInv cfg s' := by
  simp only [step, hpc] at hs
  simp at hs; obtain ⟨rfl, -⟩ := hs
  have hr := h.pol_r t (by simp [hpc, refOnly])
  have hex : excl (s.pc t) = true := by simp [hpc, excl]
  have hold := h.oldm t old (by simp [hpc, oldOf])
  have hu := fun u => h.exclu u t
  have hoc := fun u op g c (hx : opCell (s.pc u) = some (op, g, c)) => (h.hold u g c (opCell_cell hx)).2.1
  sinv_all h

set_option maxHeartbeats 4000000 in
theorem sinv_step_zInit {cfg : Cfg} {s s' : St} {t : Tid} {ev : Ev} {r : GRet} {old i : Nat}
    (h : SInv cfg s) (hpc : s.pc t = .zInit r old i) (hs : step cfg s t = some (s', ev)) : SInv cfg s' := by
  simp only [step, hpc] at hs
  simp at hs; obtain ⟨rfl, -⟩ := hs
  have hr := h.pol_r t (by simp [hpc, refOnly])
  have hex : excl (s.pc t) = true := by simp [hpc, excl]
  by_cases hl : i + 1 < 2 * old
  · simp only [hl, if_true]
    sinv_all h
  · simp only [hl, if_false]
    sinv_all h

set_option maxHeartbeats 4000000 in
theorem sinv_step_zAccL {cfg : Cfg} {s s' : St} {t : Tid} {ev : Ev} {r : GRet} {old : Nat}
    (h : SInv cfg s) (hpc : s.pc t = .zAccL r old) (hs : step cfg s t = some (s', ev)) : SInv cfg s' := by
  simp only [step, hpc] at hs
  have hex : excl (s.pc t) = true := by simp [hpc, excl]
  split at hs <;> simp at hs <;> obtain ⟨rfl, -⟩ := hs
  · sinv_all h
  · sinv_all h

set_option maxHeartbeats 4000000 in
theorem sinv_step_zAccU {cfg : Cfg} {s s' : St} {t : Tid} {ev : Ev} {r : GRet} {old : Nat}
    (h : SInv cfg s) (hpc : s.pc t = .zAccU r old) (hs : step cfg s t = some (s', ev)) : SInv cfg s' := by
  simp only [step, hpc] at hs
  simp at hs; obtain ⟨rfl, -⟩ := hs
  have hr := h.pol_r t (by simp [hpc, refOnly])
  have hex : excl (s.pc t) = true := by simp [hpc, excl]
  have hno := fun u => h.excl1 u t hex
  have hu := fun u => h.exclu u t
  have hold := h.oldm t old (by simp [hpc, oldOf])
  have hnew := h.newsz t old (by simp [hpc, preSwap]) (by simp [hpc, oldOf])
  have hps := fun u (hx : preSwap (s.pc u) = true) => hu u (preSwap_excl hx) hex
  have hms := fun u (hx : midSwap (s.pc u) = true) => hu u (midSwap_excl hx) hex
  sinv_all h

set_option maxHeartbeats 4000000 in
theorem sinv_step_zCnt {cfg : Cfg} {s s' : St} {t : Tid} {ev : Ev} {r : GRet} {old : Nat}
    (h : SInv cfg s) (hpc : s.pc t = .zCnt r old) (hs : step cfg s t = some (s', ev)) : SInv cfg s' := by
  simp only [step, hpc] at hs
  simp at hs; obtain ⟨rfl, -⟩ := hs
  have hex : excl (s.pc t) = true := by simp [hpc, excl]
  sinv_all h

set_option maxHeartbeats 4000000 in
theorem sinv_step_zMask {cfg : Cfg} {s s' : St} {t : Tid} {ev : Ev} {r : GRet} {old oc : Nat}
    (h : SInv cfg s) (hpc : s.pc t = .zMask r old oc) (hs : step cfg s t = some (s', ev)) : SInv cfg s' := by
  simp only [step, hpc] at hs
  simp at hs; obtain ⟨rfl, -⟩ := hs
  have hex : excl (s.pc t) = true := by simp [hpc, excl]
  have hno := fun u => h.excl1 u t hex
  have hu := fun u => h.exclu u t
  have hold := h.oldm t old (by simp [hpc, oldOf])
  have hoc := h.oldc t r old oc hpc
  have hm1 : 2 * old - 1 + 1 = 2 * old := by omega
  have hoo := fun u o (hx : oldOf (s.pc u) = some o) => hu u (oldOf_excl hx) hex
  have hmid : cfg.refinable = true → s.asz s.gen = 2 * old :=
    fun hr => h.rs_mid t old hr (by simp [hpc, midSwap]) (by simp [hpc, oldOf])
  have hpl := h.place
  rw [← hoc] at hpl
  have hocpos : 0 < oc := by omega
  have hnpos : 0 < 2 * old := by omega
  have hdvd : cfg.cap0 ∣ 2 * old - 1 + 1 := by
    rw [hm1, hold]; exact Nat.dvd_trans h.dvd (Nat.dvd_mul_left _ 2)
  have hpow : ∃ e, 2 * old - 1 + 1 = 2 ^ e := by
    obtain ⟨e, he⟩ := h.pow2
    exact ⟨e + 1, by rw [hm1, hold, he, Nat.pow_succ]; omega⟩
  have hplace : Placed cfg.h (2 * old - 1 + 1) (rehashOf cfg.h (2 * old) (allItems oc s.bkt)) := by
    rw [hm1]; exact rehash_place cfg.h oc (2 * old) s.bkt
  have huniq := rehash_uniq cfg.h oc (2 * old) s.bkt hpl hocpos hnpos h.uniq
  sinv_all h

set_option maxHeartbeats 4000000 in
theorem sinv_step_zMove {cfg : Cfg} {s s' : St} {t : Tid} {ev : Ev} {r : GRet} {n : Nat}
    (h : SInv cfg s) (hpc : s.pc t = .zMove r n) (hs : step cfg s t = some (s', ev)) : SInv cfg s' := by
  simp only [step, hpc] at hs
  have hex : excl (s.pc t) = true := by simp [hpc, excl]
  have hpos := h.aszpos 0 (Nat.zero_le _)
  cases n with
  | succ n' =>
    simp at hs; obtain ⟨rfl, -⟩ := hs
    sinv_all h
  | zero =>
    simp at hs; obtain ⟨rfl, -⟩ := hs
    by_cases hr : cfg.refinable = true
    · have hsz := h.rs_own t hr (by simp [hpc, ownPC]) (by simp [hpc, midSwap])
      simp only [afterResize, hr, if_true]
      sinv_all h
    · have hr' : cfg.refinable = false := by simpa using hr
      have hf := h.hfull t hr' hex
      simp only [afterResize, hr', if_false, Bool.false_eq_true]
      sinv_all h

set_option maxHeartbeats 4000000 in
theorem sinv_step_zUnl {cfg : Cfg} {s s' : St} {t : Tid} {ev : Ev} {r : GRet} {i : Nat}
    (h : SInv cfg s) (hpc : s.pc t = .zUnl r i) (hs : step cfg s t = some (s', ev)) : SInv cfg s' := by
  simp only [step, hpc] at hs
  simp at hs; obtain ⟨rfl, -⟩ := hs
  have hstr := h.pol_s t (by simp [hpc, strOnly])
  have hg0 := (h.str0 hstr).1
  have hi := h.hunl t r i hpc
  by_cases hl : i + 1 < s.asz 0
  · simp only [hl, if_true]
    sinv_all h
  · simp only [hl, if_false]
    sinv_all h

end CdsVerif.Algo.Striped

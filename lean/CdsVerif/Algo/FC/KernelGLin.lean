/-
  LINEARIZABILITY of the flat-combining kernel with an arbitrary deterministic sequential object (`KernelG.lean`) with
  respect to that object's sequential specification `detSpec O.init O.step`.

  Linearization point of EVERY operation: the `exec` step (`fc_apply`) that the lock holder performs on the operation's
  publication record.  That step is, by definition of the machine, one step of the sequential object on the shared
  container, and it writes the result into the record.  What makes it a linearization point is what `KInvR` says about
  the kernel protocol (proved in KernelRInv … KernelRReach and inherited because the kernel part of `KernelG` IS `KernelR`):
    * it happens between the invocation and the response of the operation, and at most once per operation
      (`opExec` + `hold`: at `cpExec _ j` the counter `execs j` is 0; it is 1 afterwards and no second `exec` can follow);
    * the owner returns only after it (`rel`, `fin`: at `relSt` / `done` the counter is 1), with the value stored there
      (only `exec` on record `j` writes `resg j`).
  The proof instruments a run with a ghost log (`Log.lean`): an entry for thread `j`'s operation is appended at the `exec`
  step on record `j` — in general by ANOTHER thread, the combiner.  The log is a legal sequential execution that respects
  real time, its replay is the container state, and its returned entries are the history of the run.
-/
import CdsVerif.Algo.FC.KernelG
import CdsVerif.Algo.FC.KernelRReach
import CdsVerif.Algo.FC.Log
namespace CdsVerif.Algo.FC.KernelG
open CdsVerif.Machine CdsVerif.Spec CdsVerif.Lin CdsVerif.Algo.FC.Log
open CdsVerif.Algo.FC.Kernel (Cfg RV RS Cont CS)
open CdsVerif.Algo.FC.KernelR (KInvR)

variable {σ : Type}

/-- The request is in the record (or the operation has finished and not yet returned). -/
def hasReqD : KernelR.PC → Bool
  | .done => true
  | p => KernelR.hasReq p

/-- Thread `j`'s current operation has been executed (`fc_apply` has run for it): it is linearized. -/
def lin (k : KernelR.St) (j : Nat) : Bool := hasReqD (k.pc j) && decide (k.execs j = 1)

/-! ### What the kernel steps do to the linearization status -/

set_option maxHeartbeats 4000000 in
theorem kstep_facts {cfg : Cfg} {k k' : KernelR.St} {t : Tid} {ev : Ev} (hi : KInvR cfg k)
    (hs : KernelR.step cfg k t = some (k', ev)) :
    (∀ t2, t2 ≠ t → k'.pc t2 = k.pc t2) ∧ k.pc t ≠ .idle ∧ k'.pc t ≠ .idle ∧
    (∀ c j, k.pc t = .cpExec c j →
        lin k j = false ∧ lin k' j = true ∧ k.pc j ≠ .idle ∧ ∀ i, i ≠ j → lin k' i = lin k i) ∧
    ((∀ c j, k.pc t ≠ .cpExec c j) → ∀ i, lin k' i = lin k i) := by
  have h_hold := hi.hold t
  have h_opExec := hi.opExec
  have h_atApply := hi.atApply t
  have h_noReq := hi.noReq
  cases hpc : k.pc t
  case cpExec c j =>
    simp only [KernelR.step, hpc, Option.some.injEq, Prod.mk.injEq] at hs
    obtain ⟨rfl, -⟩ := hs
    have hreq : k.req j = .op := h_atApply j (by simp [hpc, KernelR.applyIdx])
    have hh : t = k.holder := h_hold (by simp [hpc, KernelR.holds])
    have he : k.execs j = 0 := h_opExec j hreq (by rw [← hh, hpc]; simp [KernelR.doneIdx])
    have hr : KernelR.hasReq (k.pc j) = true := by
      cases hq : KernelR.hasReq (k.pc j) with
      | true => rfl
      | false => have := h_noReq j hq; simp [hreq] at this
    refine ⟨?_, ?_, ?_, ?_, ?_⟩ <;> intros <;> grind [upd, lin, hasReqD, KernelR.hasReq]
  case acqLd  =>
    (simp only [KernelR.step, hpc, Option.some.injEq, Prod.mk.injEq] at hs <;> obtain ⟨rfl, -⟩ := hs <;> refine ⟨?_, ?_, ?_, ?_, ?_⟩ <;> intros <;> grind [upd, lin, hasReqD, KernelR.hasReq, KernelR.afterPublish, KernelR.ccGo, KernelR.c2Go])
  case reqSt  =>
    (simp only [KernelR.step, hpc, Option.some.injEq, Prod.mk.injEq] at hs <;> obtain ⟨rfl, -⟩ := hs <;> refine ⟨?_, ?_, ?_, ?_, ?_⟩ <;> intros <;> grind [upd, lin, hasReqD, KernelR.hasReq, KernelR.afterPublish, KernelR.ccGo, KernelR.c2Go])
  case tryLock  =>
    (simp only [KernelR.step, hpc, Option.some.injEq, Prod.mk.injEq] at hs <;> obtain ⟨rfl, -⟩ := hs <;> refine ⟨?_, ?_, ?_, ?_, ?_⟩ <;> intros <;> grind [upd, lin, hasReqD, KernelR.hasReq, KernelR.afterPublish, KernelR.ccGo, KernelR.c2Go])
  case lkRepub  =>
    (simp only [KernelR.step, hpc, Option.some.injEq, Prod.mk.injEq] at hs <;> obtain ⟨rfl, -⟩ := hs <;> refine ⟨?_, ?_, ?_, ?_, ?_⟩ <;> intros <;> grind [upd, lin, hasReqD, KernelR.hasReq, KernelR.afterPublish, KernelR.ccGo, KernelR.c2Go])
  case cmbCnt  =>
    (simp only [KernelR.step, hpc, Option.some.injEq, Prod.mk.injEq] at hs <;> obtain ⟨rfl, -⟩ := hs <;> refine ⟨?_, ?_, ?_, ?_, ?_⟩ <;> intros <;> grind [upd, lin, hasReqD, KernelR.hasReq, KernelR.afterPublish, KernelR.ccGo, KernelR.c2Go])
  case cpReq c j =>
    (simp only [KernelR.step, hpc, Option.some.injEq, Prod.mk.injEq] at hs <;> obtain ⟨rfl, -⟩ := hs <;> refine ⟨?_, ?_, ?_, ?_, ?_⟩ <;> intros <;> grind [upd, lin, hasReqD, KernelR.hasReq, KernelR.afterPublish, KernelR.ccGo, KernelR.c2Go])
  case cpAge c j =>
    (simp only [KernelR.step, hpc, Option.some.injEq, Prod.mk.injEq] at hs <;> obtain ⟨rfl, -⟩ := hs <;> refine ⟨?_, ?_, ?_, ?_, ?_⟩ <;> intros <;> grind [upd, lin, hasReqD, KernelR.hasReq, KernelR.afterPublish, KernelR.ccGo, KernelR.c2Go])
  case cpDone c j =>
    (simp only [KernelR.step, hpc, Option.some.injEq, Prod.mk.injEq] at hs <;> obtain ⟨rfl, -⟩ := hs <;> refine ⟨?_, ?_, ?_, ?_, ?_⟩ <;> intros <;> grind [upd, lin, hasReqD, KernelR.hasReq, KernelR.afterPublish, KernelR.ccGo, KernelR.c2Go])
  case ccState a pp j =>
    (simp only [KernelR.step, hpc, Option.some.injEq, Prod.mk.injEq] at hs <;> obtain ⟨rfl, -⟩ := hs <;> refine ⟨?_, ?_, ?_, ?_, ?_⟩ <;> intros <;> grind [upd, lin, hasReqD, KernelR.hasReq, KernelR.afterPublish, KernelR.ccGo, KernelR.c2Go])
  case ccAge a pp j =>
    (simp only [KernelR.step, hpc, Option.some.injEq, Prod.mk.injEq] at hs <;> obtain ⟨rfl, -⟩ := hs <;> refine ⟨?_, ?_, ?_, ?_, ?_⟩ <;> intros <;> grind [upd, lin, hasReqD, KernelR.hasReq, KernelR.afterPublish, KernelR.ccGo, KernelR.c2Go])
  case ccNx a pp j =>
    (simp only [KernelR.step, hpc, Option.some.injEq, Prod.mk.injEq] at hs <;> obtain ⟨rfl, -⟩ := hs <;> refine ⟨?_, ?_, ?_, ?_, ?_⟩ <;> intros <;> grind [upd, lin, hasReqD, KernelR.hasReq, KernelR.afterPublish, KernelR.ccGo, KernelR.c2Go])
  case unlock  =>
    (simp only [KernelR.step, hpc, Option.some.injEq, Prod.mk.injEq] at hs <;> obtain ⟨rfl, -⟩ := hs <;> refine ⟨?_, ?_, ?_, ?_, ?_⟩ <;> intros <;> grind [upd, lin, hasReqD, KernelR.hasReq, KernelR.afterPublish, KernelR.ccGo, KernelR.c2Go])
  case wtReq  =>
    (simp only [KernelR.step, hpc, Option.some.injEq, Prod.mk.injEq] at hs <;> obtain ⟨rfl, -⟩ := hs <;> refine ⟨?_, ?_, ?_, ?_, ?_⟩ <;> intros <;> grind [upd, lin, hasReqD, KernelR.hasReq, KernelR.afterPublish, KernelR.ccGo, KernelR.c2Go])
  case wtState  =>
    (simp only [KernelR.step, hpc, Option.some.injEq, Prod.mk.injEq] at hs <;> obtain ⟨rfl, -⟩ := hs <;> refine ⟨?_, ?_, ?_, ?_, ?_⟩ <;> intros <;> grind [upd, lin, hasReqD, KernelR.hasReq, KernelR.afterPublish, KernelR.ccGo, KernelR.c2Go])
  case wtLock  =>
    (simp only [KernelR.step, hpc, Option.some.injEq, Prod.mk.injEq] at hs <;> obtain ⟨rfl, -⟩ := hs <;> refine ⟨?_, ?_, ?_, ?_, ?_⟩ <;> intros <;> grind [upd, lin, hasReqD, KernelR.hasReq, KernelR.afterPublish, KernelR.ccGo, KernelR.c2Go])
  case wtReq2  =>
    (simp only [KernelR.step, hpc, Option.some.injEq, Prod.mk.injEq] at hs <;> obtain ⟨rfl, -⟩ := hs <;> refine ⟨?_, ?_, ?_, ?_, ?_⟩ <;> intros <;> grind [upd, lin, hasReqD, KernelR.hasReq, KernelR.afterPublish, KernelR.ccGo, KernelR.c2Go])
  case wtUnlock  =>
    (simp only [KernelR.step, hpc, Option.some.injEq, Prod.mk.injEq] at hs <;> obtain ⟨rfl, -⟩ := hs <;> refine ⟨?_, ?_, ?_, ?_, ?_⟩ <;> intros <;> grind [upd, lin, hasReqD, KernelR.hasReq, KernelR.afterPublish, KernelR.ccGo, KernelR.c2Go])
  case relSt  =>
    (simp only [KernelR.step, hpc, Option.some.injEq, Prod.mk.injEq] at hs <;> obtain ⟨rfl, -⟩ := hs <;> refine ⟨?_, ?_, ?_, ?_, ?_⟩ <;> intros <;> grind [upd, lin, hasReqD, KernelR.hasReq, KernelR.afterPublish, KernelR.ccGo, KernelR.c2Go])
  case pubCnt c =>
    cases c <;> (simp only [KernelR.step, hpc, Option.some.injEq, Prod.mk.injEq] at hs <;> obtain ⟨rfl, -⟩ := hs <;> refine ⟨?_, ?_, ?_, ?_, ?_⟩ <;> intros <;> grind [upd, lin, hasReqD, KernelR.hasReq, KernelR.afterPublish, KernelR.ccGo, KernelR.c2Go])
  case pubAge c a =>
    cases c <;> (simp only [KernelR.step, hpc, Option.some.injEq, Prod.mk.injEq] at hs <;> obtain ⟨rfl, -⟩ := hs <;> refine ⟨?_, ?_, ?_, ?_, ?_⟩ <;> intros <;> grind [upd, lin, hasReqD, KernelR.hasReq, KernelR.afterPublish, KernelR.ccGo, KernelR.c2Go])
  case pubAct c =>
    cases c <;> (simp only [KernelR.step, hpc, Option.some.injEq, Prod.mk.injEq] at hs <;> obtain ⟨rfl, -⟩ := hs <;> refine ⟨?_, ?_, ?_, ?_, ?_⟩ <;> intros <;> grind [upd, lin, hasReqD, KernelR.hasReq, KernelR.afterPublish, KernelR.ccGo, KernelR.c2Go])
  case pubHd c =>
    cases c <;> (simp only [KernelR.step, hpc, Option.some.injEq, Prod.mk.injEq] at hs <;> obtain ⟨rfl, -⟩ := hs <;> refine ⟨?_, ?_, ?_, ?_, ?_⟩ <;> intros <;> grind [upd, lin, hasReqD, KernelR.hasReq, KernelR.afterPublish, KernelR.ccGo, KernelR.c2Go])
  case pubNx c v =>
    cases c <;> (simp only [KernelR.step, hpc, Option.some.injEq, Prod.mk.injEq] at hs <;> obtain ⟨rfl, -⟩ := hs <;> refine ⟨?_, ?_, ?_, ?_, ?_⟩ <;> intros <;> grind [upd, lin, hasReqD, KernelR.hasReq, KernelR.afterPublish, KernelR.ccGo, KernelR.c2Go])
  case pubCas c v =>
    cases c <;> (simp only [KernelR.step, hpc] at hs; split at hs <;> simp only [Option.some.injEq, Prod.mk.injEq] at hs <;> obtain ⟨rfl, -⟩ := hs <;>
      refine ⟨?_, ?_, ?_, ?_, ?_⟩ <;> intros <;> grind [upd, lin, hasReqD, KernelR.hasReq, KernelR.afterPublish, KernelR.ccGo, KernelR.c2Go])
  case cpState c p =>
    cases p <;> (simp only [KernelR.step, hpc, Option.some.injEq, Prod.mk.injEq] at hs <;> obtain ⟨rfl, -⟩ := hs <;> refine ⟨?_, ?_, ?_, ?_, ?_⟩ <;> intros <;> grind [upd, lin, hasReqD, KernelR.hasReq, KernelR.afterPublish, KernelR.ccGo, KernelR.c2Go])
  case c2State rest =>
    cases rest <;> (simp only [KernelR.step, hpc, Option.some.injEq, Prod.mk.injEq] at hs <;> obtain ⟨rfl, -⟩ := hs <;> refine ⟨?_, ?_, ?_, ?_, ?_⟩ <;> intros <;> grind [upd, lin, hasReqD, KernelR.hasReq, KernelR.afterPublish, KernelR.ccGo, KernelR.c2Go])
  case c2Nx rest =>
    cases rest with
    | nil => simp only [KernelR.step, hpc, Option.some.injEq, Prod.mk.injEq] at hs <;> obtain ⟨rfl, -⟩ := hs <;> refine ⟨?_, ?_, ?_, ?_, ?_⟩ <;> intros <;> grind [upd, lin, hasReqD, KernelR.hasReq, KernelR.afterPublish, KernelR.ccGo, KernelR.c2Go]
    | cons h tl => cases tl <;> (simp only [KernelR.step, hpc, Option.some.injEq, Prod.mk.injEq] at hs <;> obtain ⟨rfl, -⟩ := hs <;> refine ⟨?_, ?_, ?_, ?_, ?_⟩ <;> intros <;> grind [upd, lin, hasReqD, KernelR.hasReq, KernelR.afterPublish, KernelR.ccGo, KernelR.c2Go])
  case c2Hd =>
    cases hal : KernelR.allocList cfg <;> (simp only [KernelR.step, hpc, hal, Option.some.injEq, Prod.mk.injEq] at hs <;> obtain ⟨rfl, -⟩ := hs <;>
      refine ⟨?_, ?_, ?_, ?_, ?_⟩ <;> intros <;> grind [upd, lin, hasReqD, KernelR.hasReq, KernelR.afterPublish, KernelR.ccGo, KernelR.c2Go])
  case ccHd a =>
    cases hh : k.list.head? <;> (simp only [KernelR.step, hpc, hh, Option.some.injEq, Prod.mk.injEq] at hs <;> obtain ⟨rfl, -⟩ := hs <;>
      refine ⟨?_, ?_, ?_, ?_, ?_⟩ <;> intros <;> grind [upd, lin, hasReqD, KernelR.hasReq, KernelR.afterPublish, KernelR.ccGo, KernelR.c2Go])
  case ccInact a pp j nx =>
    cases nx <;> (simp only [KernelR.step, hpc, Option.some.injEq, Prod.mk.injEq] at hs <;> obtain ⟨rfl, -⟩ := hs <;> refine ⟨?_, ?_, ?_, ?_, ?_⟩ <;> intros <;> grind [upd, lin, hasReqD, KernelR.hasReq, KernelR.afterPublish, KernelR.ccGo, KernelR.c2Go])
  case ccAdv a j =>
    cases hsu : KernelR.succOf k.list (some j) <;> (simp only [KernelR.step, hpc, hsu, Option.some.injEq, Prod.mk.injEq] at hs <;> obtain ⟨rfl, -⟩ := hs <;>
      refine ⟨?_, ?_, ?_, ?_, ?_⟩ <;> intros <;> grind [upd, lin, hasReqD, KernelR.hasReq, KernelR.afterPublish, KernelR.ccGo, KernelR.c2Go])
  case ccCas a pp j nx =>
    simp only [KernelR.step, hpc] at hs
    split at hs
    · simp only [Option.some.injEq, Prod.mk.injEq] at hs; obtain ⟨rfl, -⟩ := hs
      refine ⟨?_, ?_, ?_, ?_, ?_⟩ <;> intros <;> grind [upd, lin, hasReqD, KernelR.hasReq, KernelR.afterPublish, KernelR.ccGo, KernelR.c2Go]
    · cases hsu : KernelR.succOf k.list pp <;> (simp only [hsu, Option.some.injEq, Prod.mk.injEq] at hs <;> obtain ⟨rfl, -⟩ := hs <;>
        refine ⟨?_, ?_, ?_, ?_, ?_⟩ <;> intros <;> grind [upd, lin, hasReqD, KernelR.hasReq, KernelR.afterPublish, KernelR.ccGo, KernelR.c2Go])
  case cpNext c p =>
    cases hsu : KernelR.succOf k.list p with
    | some k2 =>
      simp only [KernelR.step, hpc, hsu, Option.some.injEq, Prod.mk.injEq] at hs; obtain ⟨rfl, -⟩ := hs
      refine ⟨?_, ?_, ?_, ?_, ?_⟩ <;> intros <;> grind [upd, lin, hasReqD, KernelR.hasReq, KernelR.afterPublish, KernelR.ccGo, KernelR.c2Go]
    | none =>
      simp only [KernelR.step, hpc, hsu, Option.some.injEq, Prod.mk.injEq] at hs; obtain ⟨rfl, -⟩ := hs
      rcases KernelR.passEnd_cases cfg c with ⟨c', he, -⟩ | he | he <;> simp only [he] <;>
        (refine ⟨?_, ?_, ?_, ?_, ?_⟩ <;> intros <;> grind [upd, lin, hasReqD, KernelR.hasReq, KernelR.afterPublish, KernelR.ccGo, KernelR.c2Go])
  case idle => simp [KernelR.step, hpc] at hs
  case done => simp [KernelR.step, hpc] at hs

theorem kinvoke_facts {cfg : Cfg} {k k' : KernelR.St} {t : Tid} {op : GOp} (hs : KernelR.invoke cfg k t op = some k') :
    k.pc t = .idle ∧ k' = { k with pc := upd k.pc t .acqLd } := by
  unfold KernelR.invoke at hs
  split at hs
  · next hidle => split at hs <;> simp at hs; exact ⟨hidle, hs.symm⟩
  · simp at hs

theorem kresult_facts {k k' : KernelR.St} {t : Tid} {r : GRet} (hs : KernelR.result k t = some (k', r)) :
    k.pc t = .done ∧ k' = { k with pc := upd k.pc t .idle } := by
  unfold KernelR.result at hs
  split at hs
  · next hd => simp at hs; exact ⟨hd, hs.1.symm⟩
  · simp at hs

/-! ### Instrumented runs -/

structure GSt (σ : Type) where
  s : St σ
  clock : Nat
  pend : Pend
  hist : List (OpRec GOp GRet)
  log : List LE

def ginit (O : Obj σ) (cfg : Cfg) : GSt σ := ⟨init O cfg, 0, fun _ => none, [], []⟩

/-- Ghost update for the action of thread `t` that leads to state `s'` with observation `o`. -/
def gnext (O : Obj σ) (g : GSt σ) (t : Tid) (s' : St σ) : Obs → GSt σ
  | .call op =>
    { g with s := s', clock := g.clock + 1, pend := upd g.pend t (some (op, g.clock)) }
  | .ev _ =>
    { g with
      s := s', clock := g.clock + 1,
      log := match g.s.k.pc t with
        | .cpExec _ j =>
          match g.pend j with
          | some (op, k) => g.log ++ [⟨j, op, (applyO O g.s.obj (g.s.opr j)).2, k, none⟩]   -- linearization point of thread j
          | none => g.log
        | _ => g.log }
  | .ret r =>
    match g.pend t with
    | some (op, k) =>
      { s := s', clock := g.clock + 1, pend := upd g.pend t none,
        hist := g.hist ++ [⟨t, op, r, k, g.clock⟩], log := g.log.map (LE.close t g.clock) }
    | none => { g with s := s', clock := g.clock + 1 }

/-- The sequential specification of the object. -/
def specOf (O : Obj σ) : Lin.Spec σ GOp GRet := detSpec O.init O.step

structure GI (O : Obj σ) (g : GSt σ) : Prop where
  spec : runSpec (specOf O) O.init g.log = some g.s.obj
  invlt : ∀ e, e ∈ g.log → e.inv < g.clock
  rt : g.log.Pairwise (fun a b => ∀ r, b.res = some r → a.inv ≤ r)
  comp : (completed g.log).Perm g.hist
  pendlt : ∀ t op k, g.pend t = some (op, k) → k < g.clock
  pre : ∀ t, g.s.k.pc t ≠ .idle → O.valid (g.s.opr t) = true ∧ ∃ k, g.pend t = some (g.s.opr t, k)
  preopen : ∀ t, lin g.s.k t = false → openOf t g.log = []
  post : ∀ t, lin g.s.k t = true →
    ∃ k, g.pend t = some (g.s.opr t, k) ∧ openOf t g.log = [⟨t, g.s.opr t, g.s.resg t, k, none⟩]
  idle : ∀ t, g.s.k.pc t = .idle → g.pend t = none

def GInv (O : Obj σ) (cfg : Cfg) (g : GSt σ) : Prop := KInvR cfg g.s.k ∧ GI O g

theorem lin_idle {k : KernelR.St} {t : Nat} (h : k.pc t = .idle) : lin k t = false := by
  simp [lin, h, hasReqD, KernelR.hasReq]

theorem ginv_init (O : Obj σ) (cfg : Cfg) : GInv O cfg (ginit O cfg) := by
  refine ⟨KernelR.kinvr_init cfg, ?_⟩
  constructor <;> simp [ginit, init, KernelR.init, runSpec, completed, openOf, lin, hasReqD, KernelR.hasReq]

theorem ginv_invoke {O : Obj σ} {cfg : Cfg} {g : GSt σ} {t : Tid} {op : GOp} {s' : St σ} (h : GInv O cfg g)
    (hs : invoke O cfg g.s t op = some s') : GInv O cfg (gnext O g t s' (.call op)) := by
  obtain ⟨hl, hg⟩ := h
  obtain ⟨hk, hobj, hopr, hres, hval⟩ := invoke_k hs
  refine ⟨KernelR.kinvr_invoke hl hk, ?_⟩
  obtain ⟨hspec, hinvlt, hrt, hcomp, hpendlt, hpre, hpreopen, hpost, hidle⟩ := hg
  obtain ⟨hwas, hk'⟩ := kinvoke_facts hk
  have hpc' : ∀ t2, s'.k.pc t2 = if t2 = t then KernelR.PC.acqLd else g.s.k.pc t2 := by
    intro t2; rw [hk']; simp [upd]
  have hex : s'.k.execs = g.s.k.execs := by rw [hk']
  have hlin : ∀ t2, lin s'.k t2 = lin g.s.k t2 := by
    intro t2
    by_cases ht : t2 = t
    · subst ht; simp [lin, hpc' t2, hwas, hasReqD, KernelR.hasReq]
    · simp [lin, hpc' t2, ht, hex]
  constructor
  · simpa only [gnext, hobj] using hspec
  · intro e he; have := hinvlt e he; simp only [gnext]; omega
  · exact hrt
  · exact hcomp
  · intro t2 op2 k; simp only [gnext, upd]; intro h
    split at h
    · simp at h; omega
    · have := hpendlt t2 op2 k h; omega
  · intro t2; simp only [gnext]
    by_cases ht : t2 = t
    · subst ht; intro _; simp [hopr, hval]
    · rw [hpc' t2, if_neg ht, hopr]; simp only [upd, if_neg ht]; exact hpre t2
  · intro t2; simp only [gnext]; rw [hlin t2]; exact hpreopen t2
  · intro t2; simp only [gnext]; rw [hlin t2]
    intro hl2
    have hne : t2 ≠ t := by intro e; subst e; rw [lin_idle hwas] at hl2; simp at hl2
    obtain ⟨k, h1, h2⟩ := hpost t2 hl2
    refine ⟨k, ?_, ?_⟩
    · simp only [upd, if_neg hne, hopr]; exact h1
    · rw [hopr, hres]; simp only [upd, if_neg hne]; exact h2
  · intro t2; simp only [gnext]; rw [hpc' t2]
    by_cases ht : t2 = t
    · simp [ht]
    · simp only [if_neg ht, upd]; exact hidle t2

theorem ginv_result {O : Obj σ} {cfg : Cfg} {g : GSt σ} {t : Tid} {r : GRet} {s' : St σ} (h : GInv O cfg g)
    (hs : result g.s t = some (s', r)) : GInv O cfg (gnext O g t s' (.ret r)) := by
  obtain ⟨hl, hg⟩ := h
  obtain ⟨⟨r', hk⟩, hobj, hopr, hres, hr⟩ := result_k hs
  have hs'k : (gnext O g t s' (.ret r)).s = s' := by simp only [gnext]; split <;> rfl
  refine ⟨by rw [hs'k]; exact KernelR.kinvr_result hl hk, ?_⟩
  obtain ⟨hspec, hinvlt, hrt, hcomp, hpendlt, hpre, hpreopen, hpost, hidle⟩ := hg
  obtain ⟨hdone, hk'⟩ := kresult_facts hk
  have hpc' : ∀ t2, s'.k.pc t2 = if t2 = t then KernelR.PC.idle else g.s.k.pc t2 := by
    intro t2; rw [hk']; simp [upd]
  have hex : s'.k.execs = g.s.k.execs := by rw [hk']
  have hlt : lin g.s.k t = true := by simp [lin, hdone, hasReqD, hl.fin t hdone]
  obtain ⟨k, hp, hopen⟩ := hpost t hlt
  have hcl : ∀ e, (LE.close t g.clock e).inv = e.inv := by intro e; unfold LE.close; split <;> rfl
  have hlin : ∀ t2, t2 ≠ t → lin s'.k t2 = lin g.s.k t2 := by
    intro t2 ht; simp [lin, hpc' t2, ht, hex]
  simp only [gnext, hp]
  constructor <;> dsimp only
  · rw [runSpec_close, hobj]; exact hspec
  · intro e he
    obtain ⟨e0, he0, rfl⟩ := List.mem_map.mp he
    have := hinvlt e0 he0; rw [hcl]; omega
  · rw [List.pairwise_map]
    refine List.Pairwise.imp_of_mem ?_ hrt
    intro a b ha hb hab r'' hr''
    rw [hcl]
    unfold LE.close at hr''
    split at hr''
    · simp at hr''; have := hinvlt a ha; omega
    · exact hab r'' hr''
  · refine (completed_close t g.clock g.log).trans ?_
    rw [hopen, hr]
    exact List.Perm.append_right _ hcomp
  · intro t2 op2 k2 h
    simp only [upd] at h
    split at h
    · simp at h
    · have := hpendlt t2 op2 k2 h; omega
  · intro t2
    rw [hpc' t2]
    by_cases ht : t2 = t
    · simp [ht]
    · simp only [if_neg ht, upd, hopr]; exact hpre t2
  · intro t2
    by_cases ht : t2 = t
    · subst ht; intro _; exact openOf_close_same _ _ _
    · rw [hlin t2 ht, openOf_close_other _ _ _ ht]; exact hpreopen t2
  · intro t2
    by_cases ht : t2 = t
    · subst ht; intro hl2
      have : lin s'.k t2 = false := lin_idle (by rw [hpc' t2]; simp)
      rw [this] at hl2; simp at hl2
    · rw [hlin t2 ht, openOf_close_other _ _ _ ht, hopr, hres]; simp only [upd, if_neg ht]; exact hpost t2
  · intro t2
    rw [hpc' t2]
    by_cases ht : t2 = t
    · simp [ht, upd]
    · simp only [if_neg ht, upd]; exact hidle t2

theorem ginv_step {O : Obj σ} {cfg : Cfg} {g : GSt σ} {t : Tid} {ev : Ev} {s' : St σ} (h : GInv O cfg g)
    (hs : step O cfg g.s t = some (s', ev)) : GInv O cfg (gnext O g t s' (.ev ev)) := by
  obtain ⟨hl, hg⟩ := h
  obtain ⟨ev', hk, hopr, hcase⟩ := step_k hs
  refine ⟨KernelR.kinvr_atomic hl hk, ?_⟩
  obtain ⟨hspec, hinvlt, hrt, hcomp, hpendlt, hpre, hpreopen, hpost, hidle⟩ := hg
  obtain ⟨hframe, hbusy1, hbusy2, hLP, hother⟩ := kstep_facts hl hk
  have hpre' : ∀ t2, s'.k.pc t2 ≠ .idle → O.valid (s'.opr t2) = true ∧ ∃ k, g.pend t2 = some (s'.opr t2, k) := by
    intro t2 hne
    rw [hopr]
    by_cases ht : t2 = t
    · subst ht; exact hpre t2 hbusy1
    · rw [hframe t2 ht] at hne; exact hpre t2 hne
  have hidle' : ∀ t2, s'.k.pc t2 = .idle → g.pend t2 = none := by
    intro t2 hi
    by_cases ht : t2 = t
    · subst ht; exact absurd hi hbusy2
    · rw [hframe t2 ht] at hi; exact hidle t2 hi
  rcases hcase with ⟨c, j, hpc, hobj, hres⟩ | ⟨hne, hobj, hres⟩
  · -- `exec` on record j: the linearization point of thread j's operation
    obtain ⟨hl0, hl1, hjbusy, hlo⟩ := hLP c j hpc
    obtain ⟨hval, k, hk0⟩ := hpre j hjbusy
    have hlog : (gnext O g t s' (.ev ev)).log =
        g.log ++ [⟨j, g.s.opr j, (applyO O g.s.obj (g.s.opr j)).2, k, none⟩] := by
      simp only [gnext, hpc, hk0]
    have hst : (specOf O).next g.s.obj (g.s.opr j) (applyO O g.s.obj (g.s.opr j)).2
        = some (applyO O g.s.obj (g.s.opr j)).1 := by
      have := O.total g.s.obj (g.s.opr j) hval
      cases hq : O.step g.s.obj (g.s.opr j) with
      | none => simp [hq] at this
      | some p => simp [specOf, detSpec, applyO, hq]
    constructor
    · rw [hlog, runSpec_append, hspec]
      simp only [Option.bind_some, runSpec, hst, gnext, hobj]
    · rw [hlog]; intro e he
      simp only [gnext]
      rcases List.mem_append.mp he with h | h
      · have := hinvlt e h; omega
      · simp at h; subst h; have := hpendlt j _ k hk0; simp only; omega
    · rw [hlog, List.pairwise_append]
      refine ⟨hrt, by simp, ?_⟩
      intro a _ b hb r'' hr''
      simp at hb; subst hb; simp at hr''
    · rw [hlog]
      simp only [completed, List.filterMap_append, gnext] at hcomp ⊢
      have : List.filterMap LE.done? [(⟨j, g.s.opr j, (applyO O g.s.obj (g.s.opr j)).2, k, none⟩ : LE)] = [] := by
        simp [LE.done?]
      rw [this, List.append_nil]; exact hcomp
    · intro t2 op2 k2 h
      simp only [gnext] at h ⊢
      have := hpendlt t2 op2 k2 h; omega
    · intro t2; simp only [gnext]; exact hpre' t2
    · intro t2
      rw [hlog]; simp only [gnext]
      by_cases ht : t2 = j
      · subst ht; rw [hl1]; simp
      · rw [hlo t2 ht, openOf_append]; intro h
        rw [hpreopen t2 h]
        have : j ≠ t2 := fun e => ht e.symm
        simp [openOf, this]
    · intro t2
      rw [hlog]; simp only [gnext]
      by_cases ht : t2 = j
      · subst ht; intro _
        refine ⟨k, by rw [hopr]; exact hk0, ?_⟩
        rw [openOf_append, hpreopen t2 hl0, hopr, hres]
        simp [openOf]
      · rw [hlo t2 ht, openOf_append]; intro h
        obtain ⟨k2, h3, h4⟩ := hpost t2 h
        refine ⟨k2, by rw [hopr]; exact h3, ?_⟩
        rw [h4, hopr, hres]
        have : j ≠ t2 := fun e => ht e.symm
        simp [openOf, this, upd, ht]
    · intro t2; simp only [gnext]; exact hidle' t2
  · -- any other step: nothing is linearized, the container and the result slots are untouched
    have hlin := hother hne
    have hlog : (gnext O g t s' (.ev ev)).log = g.log := by
      simp only [gnext]      -- the `match` on the program counter reduces: `hne` discharges the side condition of its default case
    constructor
    · rw [hlog]; simpa only [gnext, hobj] using hspec
    · rw [hlog]; intro e he; have := hinvlt e he; simp only [gnext]; omega
    · rw [hlog]; exact hrt
    · rw [hlog]; exact hcomp
    · intro t2 op2 k2 h
      simp only [gnext] at h ⊢
      have := hpendlt t2 op2 k2 h; omega
    · intro t2; simp only [gnext]; exact hpre' t2
    · intro t2; rw [hlog]; simp only [gnext]; rw [hlin t2]; exact hpreopen t2
    · intro t2; rw [hlog]; simp only [gnext]; rw [hlin t2, hopr, hres]; exact hpost t2
    · intro t2; simp only [gnext]; exact hidle' t2

theorem gnext_s (O : Obj σ) (g : GSt σ) (t : Tid) (s' : St σ) (o : Obs) : (gnext O g t s' o).s = s' := by
  cases o <;> simp only [gnext]
  split <;> rfl

theorem gnext_clock (O : Obj σ) (g : GSt σ) (t : Tid) (s' : St σ) (o : Obs) :
    (gnext O g t s' o).clock = g.clock + 1 := by
  cases o <;> simp only [gnext]
  split <;> rfl

theorem gnext_hist (O : Obj σ) (g : GSt σ) (t : Tid) (s' : St σ) (o : Obs) (os : List (Tid × Obs)) :
    (gnext O g t s' o).hist ++ histAux (g.clock + 1) (gnext O g t s' o).pend os
      = g.hist ++ histAux g.clock g.pend ((t, o) :: os) := by
  cases o with
  | call op => simp only [gnext, histAux]
  | ev e => simp only [gnext, histAux]
  | ret r =>
    simp only [gnext, histAux]
    cases hp : g.pend t with
    | none => simp only
    | some p => obtain ⟨op, k⟩ := p; simp only [List.append_assoc, List.singleton_append]

theorem gnext_pend (O : Obj σ) (g : GSt σ) (t : Tid) (s' : St σ) (o : Obs) (os : List (Tid × Obs)) :
    pendAux (g.clock + 1) (gnext O g t s' o).pend os = pendAux g.clock g.pend ((t, o) :: os) := by
  cases o with
  | call op => simp only [gnext, pendAux]
  | ev e => simp only [gnext, pendAux]
  | ret r =>
    simp only [gnext, pendAux]
    cases hp : g.pend t with
    | none => simp only
    | some p => obtain ⟨op, k⟩ := p; simp only

theorem ginv_apply {O : Obj σ} {cfg : Cfg} {g : GSt σ} {t : Tid} {a : Act} {s' : St σ} {o : Obs}
    (h : GInv O cfg g) (hap : (model O cfg).apply g.s t a = some (s', o)) : GInv O cfg (gnext O g t s' o) := by
  cases a with
  | invoke op =>
    simp only [Model.apply, model, Option.map_eq_some_iff] at hap
    obtain ⟨s1, hs1, heq⟩ := hap
    simp only [Prod.mk.injEq] at heq
    obtain ⟨rfl, rfl⟩ := heq
    exact ginv_invoke h hs1
  | step =>
    simp only [Model.apply, model, Option.map_eq_some_iff] at hap
    obtain ⟨⟨s1, e⟩, hs1, heq⟩ := hap
    simp only [Prod.mk.injEq] at heq
    obtain ⟨rfl, rfl⟩ := heq
    exact ginv_step h hs1
  | ret =>
    simp only [Model.apply, model, Option.map_eq_some_iff] at hap
    obtain ⟨⟨s1, r⟩, hs1, heq⟩ := hap
    simp only [Prod.mk.injEq] at heq
    obtain ⟨rfl, rfl⟩ := heq
    exact ginv_result h hs1

/-- Every run of the machine lifts to an instrumented run. -/
theorem run_ghost {O : Obj σ} {cfg : Cfg} :
    ∀ (sched : List (Tid × Act)) (g : GSt σ) (s' : St σ) (os : List (Tid × Obs)),
    GInv O cfg g → (model O cfg).run g.s sched = some (s', os) →
    ∃ g', GInv O cfg g' ∧ g'.s = s' ∧ g'.hist = g.hist ++ histAux g.clock g.pend os ∧
      g'.pend = pendAux g.clock g.pend os ∧ g'.clock = g.clock + os.length := by
  intro sched
  induction sched with
  | nil =>
    intro g s' os hg hr
    simp [Model.run] at hr
    obtain ⟨rfl, rfl⟩ := hr
    exact ⟨g, hg, rfl, by simp [histAux], by simp [pendAux], by simp⟩
  | cons x rest ih =>
    intro g s' os hg hr
    obtain ⟨t, a⟩ := x
    simp only [Model.run] at hr
    cases hap : (model O cfg).apply g.s t a with
    | none => simp [hap] at hr
    | some p =>
      obtain ⟨s1, o⟩ := p
      simp only [hap] at hr
      cases hrr : (model O cfg).run s1 rest with
      | none => simp [hrr] at hr
      | some q =>
        obtain ⟨s2, os2⟩ := q
        simp only [hrr, Option.some.injEq, Prod.mk.injEq] at hr
        obtain ⟨rfl, rfl⟩ := hr
        have hg1 := ginv_apply hg hap
        have hrr' : (model O cfg).run (gnext O g t s1 o).s rest = some (s2, os2) := by rw [gnext_s]; exact hrr
        obtain ⟨g', hg', hs', hh, hp, hc⟩ := ih (gnext O g t s1 o) s2 os2 hg1 hrr'
        refine ⟨g', hg', hs', ?_, ?_, ?_⟩
        · rw [hh, gnext_clock, gnext_hist]
        · rw [hp, gnext_clock, gnext_pend]
        · rw [hc, gnext_clock]; simp; omega

/-! ### From the ghost invariant to linearizability -/

theorem ginv_linearizable {O : Obj σ} {cfg : Cfg} {g : GSt σ} (h : GInv O cfg g) :
    Linearizable (specOf O) (g.hist ++ (openAll g.log).map (LE.fin g.clock)) ∧
    (∀ e ∈ (openAll g.log).map (LE.fin g.clock),
        g.pend e.tid = some (e.op, e.inv) ∧ e.res = g.clock ∧ lin g.s.k e.tid = true ∧ e.ret = g.s.resg e.tid) ∧
    ((openAll g.log).map (LE.fin g.clock)).Pairwise (fun a b => a.tid ≠ b.tid) := by
  obtain ⟨-, hg⟩ := h
  obtain ⟨hspec, hinvlt, hrt, hcomp, hpendlt, hpre, hpreopen, hpost, hidle⟩ := hg
  refine ⟨⟨g.log.map (LE.fin g.clock), ?_, ?_, ?_⟩, ?_, ?_⟩
  · exact (completed_openAll_perm g.clock g.log).symm.trans (List.Perm.append_right _ hcomp)
  · unfold RespectsRT
    rw [List.pairwise_map]
    refine List.Pairwise.imp_of_mem ?_ hrt
    intro a b ha _ hab
    simp only [LE.fin]
    cases hr : b.res with
    | none => have := hinvlt a ha; simp; omega
    | some r => have := hab r hr; simp; omega
  · exact legal_of_runSpec (specOf O) g.clock g.log _ _ hspec
  · intro e' he'
    obtain ⟨e, he, rfl⟩ := List.mem_map.mp he'
    have he2 := List.mem_filter.mp he
    have hr : e.res = none := by cases h : e.res <;> simp_all
    have hmem : e ∈ openOf e.tid g.log := by
      simp only [openOf, List.mem_filter]; exact ⟨he2.1, by simp [hr]⟩
    cases hp : lin g.s.k e.tid with
    | false => rw [hpreopen e.tid hp] at hmem; simp at hmem
    | true =>
      obtain ⟨k, h1, h2⟩ := hpost e.tid hp
      rw [h2] at hmem
      simp at hmem
      have e1 : e.op = g.s.opr e.tid := by rw [hmem]
      have e2 : e.inv = k := by rw [hmem]
      have e3 : e.ret = g.s.resg e.tid := by rw [hmem]
      simp [LE.fin, hr, h1, e1, e2, e3, hp]
  · rw [List.pairwise_map]
    refine openAll_pairwise g.log ?_
    intro t
    cases hp : lin g.s.k t with
    | false => rw [hpreopen t hp]; simp
    | true => obtain ⟨k, -, h2⟩ := hpost t hp; rw [h2]; simp

/-! ### Main theorems -/

theorem run_ghost_init {O : Obj σ} {cfg : Cfg} {sched : List (Tid × Act)} {s : St σ}
    {os : List (Tid × Obs)} (h : (model O cfg).run (init O cfg) sched = some (s, os)) :
    ∃ g, GInv O cfg g ∧ g.s = s ∧ g.hist = historyOf os ∧ g.pend = pendingOf os ∧ g.clock = os.length := by
  obtain ⟨g, hg, h1, h2, h3, h4⟩ := run_ghost sched (ginit O cfg) s os (ginv_init O cfg) h
  exact ⟨g, hg, h1, by simpa [ginit, historyOf] using h2, by simpa [ginit, pendingOf] using h3,
    by simpa [ginit] using h4⟩

/-- The kernel invariant holds of the kernel part of every reachable state, whatever the container. -/
theorem kinvr_of_run {O : Obj σ} {cfg : Cfg} {sched : List (Tid × Act)} {s : St σ} {os : List (Tid × Obs)}
    (h : (model O cfg).run (init O cfg) sched = some (s, os)) : KInvR cfg s.k := by
  obtain ⟨g, hg, rfl, -⟩ := run_ghost_init h
  exact hg.1

/-- **A flat-combining container is linearizable** (Herlihy–Wing, with completion of pending operations).
    For every run of the kernel machine over the sequential object `O` — every number of threads, compact factor, pass
    count, schedule and client program — the history of the completed operations, extended by response records `extra` for
    the operations still pending at the end that have been executed by a combiner (they get the result stored in their
    record and the response time "end of the run"; at most one per thread), is linearizable to `detSpec O.init O.step`.
    Pending operations that have not been executed are dropped. -/
theorem fc_linearizable (O : Obj σ) (cfg : Cfg) (sched : List (Tid × Act)) (s : St σ)
    (os : List (Tid × Obs)) (h : (model O cfg).run (init O cfg) sched = some (s, os)) :
    ∃ extra : List (OpRec GOp GRet),
      (∀ e ∈ extra, pendingOf os e.tid = some (e.op, e.inv) ∧ e.res = os.length ∧
          lin s.k e.tid = true ∧ e.ret = s.resg e.tid) ∧
      extra.Pairwise (fun a b => a.tid ≠ b.tid) ∧
      Linearizable (specOf O) (historyOf os ++ extra) := by
  obtain ⟨g, hg, rfl, h2, h3, h4⟩ := run_ghost_init h
  obtain ⟨hlin, hex, hpw⟩ := ginv_linearizable hg
  rw [h2, h3, h4] at *
  exact ⟨_, hex, hpw, hlin⟩

/-- Runs at whose end no thread is between the execution of its request and its return. -/
theorem fc_linearizable_no_effect_pending (O : Obj σ) (cfg : Cfg) (sched : List (Tid × Act))
    (s : St σ) (os : List (Tid × Obs)) (h : (model O cfg).run (init O cfg) sched = some (s, os))
    (hq : ∀ t, lin s.k t = false) : Linearizable (specOf O) (historyOf os) := by
  obtain ⟨extra, hex, -, hlin⟩ := fc_linearizable O cfg sched s os h
  have : extra = [] := by
    apply List.eq_nil_iff_forall_not_mem.mpr
    intro e he
    have := (hex e he).2.2.1
    rw [hq] at this; simp at this
  simpa [this] using hlin

/-- Runs in which every invoked operation has returned. -/
theorem fc_linearizable_complete_runs (O : Obj σ) (cfg : Cfg) (sched : List (Tid × Act))
    (s : St σ) (os : List (Tid × Obs)) (h : (model O cfg).run (init O cfg) sched = some (s, os))
    (hq : ∀ t, s.k.pc t = .idle) : Linearizable (specOf O) (historyOf os) :=
  fc_linearizable_no_effect_pending O cfg sched s os h (fun t => lin_idle (hq t))

end CdsVerif.Algo.FC.KernelG

/-
  Linearizability of the Vyukov bounded MPMC queue model (property C07).

  Linearization points (all FIXED — no hindsight is needed, see `Inv.lean`):
    * successful `enq`  : the successful CAS on `m_posEnqueue`;
    * successful `deq`  : the successful CAS on `m_posDequeue`;
    * failed `enq` ([0]): the load of `m_posDequeue` that yields `pos - posDeq == capacity` — at that instant
                          `m_posEnqueue` is still `pos` and exactly `capacity` items are in the abstract queue;
    * failed `deq` ([0]): the load of `m_posEnqueue` that yields `pos == posEnq` — at that instant `m_posDequeue` is
                          still `pos` and the abstract queue is empty.
  In every case the linearization point is the step that fixes the result (`lpRet` becomes `some r` and keeps that
  value until the return).

  The proof instruments a run with a ghost log to which an entry is appended at every linearization point;
  `Inv.lean` shows that the abstract queue evolves by exactly the `bfifo (2^k)` transition of the logged operation,
  so the log is a legal sequential execution; an entry is appended between the invocation and the response of its
  operation, so the log order respects real time; and the entries whose operation has returned are, up to
  permutation, the complete history of the run.

  A second ghost component (`trace`, invariant `GE`) records the states of the run and proves the statements about
  failing operations on runs directly (`vyukov_full_hindsight`, `vyukov_empty_hindsight`): an operation that
  returned `[0]` has an instant strictly between its call and its return at which the abstract queue was full
  resp. empty.
-/
import CdsVerif.Algo.Vyukov.Inv
namespace CdsVerif.Algo.Vyukov
open CdsVerif.Machine CdsVerif.Spec CdsVerif.Lin

/-! ### The history of a run -/

/-- Per thread: the operation in progress and the index of its `call` observation. -/
abbrev Pend := Tid → Option (GOp × Nat)

/-- Scan the observations (the head has index `i`): every `ret` closes the operation its thread has in progress. -/
def histAux : Nat → Pend → List (Tid × Obs) → List (OpRec GOp GRet)
  | _, _, [] => []
  | i, pend, (t, .call op) :: os => histAux (i + 1) (upd pend t (some (op, i))) os
  | i, pend, (_, .ev _) :: os => histAux (i + 1) pend os
  | i, pend, (t, .ret r) :: os =>
    match pend t with
    | some (op, k) => ⟨t, op, r, k, i⟩ :: histAux (i + 1) (upd pend t none) os
    | none => histAux (i + 1) pend os

/-- The operations still in progress after the observations. -/
def pendAux : Nat → Pend → List (Tid × Obs) → Pend
  | _, pend, [] => pend
  | i, pend, (t, .call op) :: os => pendAux (i + 1) (upd pend t (some (op, i))) os
  | i, pend, (_, .ev _) :: os => pendAux (i + 1) pend os
  | i, pend, (t, .ret _) :: os =>
    match pend t with
    | some _ => pendAux (i + 1) (upd pend t none) os
    | none => pendAux (i + 1) pend os

/-- The complete history of a run: one record per operation that has both its `call` and its `ret` observation,
    `inv` / `res` = the indices of these observations in `os`.  Operations pending at the end are dropped. -/
def historyOf (os : List (Tid × Obs)) : List (OpRec GOp GRet) := histAux 0 (fun _ => none) os

/-- The operations pending at the end of a run: thread ↦ (operation, index of its `call`). -/
def pendingOf (os : List (Tid × Obs)) : Pend := pendAux 0 (fun _ => none) os

/-! ### Ghost log -/

/-- A log entry: an operation that has passed its linearization point; `res = none` while it has not returned. -/
structure LE where
  tid : Nat
  op : GOp
  ret : GRet
  inv : Nat
  res : Option Nat
deriving DecidableEq, Repr

/-- Thread `t` returns at time `c`. -/
def LE.close (t c : Nat) (e : LE) : LE := if e.tid = t ∧ e.res = none then { e with res := some c } else e
/-- The history record of an entry; an entry that has not returned gets the response time `c`. -/
def LE.fin (c : Nat) (e : LE) : OpRec GOp GRet := ⟨e.tid, e.op, e.ret, e.inv, e.res.getD c⟩
def LE.done? (e : LE) : Option (OpRec GOp GRet) := e.res.map (fun r => ⟨e.tid, e.op, e.ret, e.inv, r⟩)

def completed (log : List LE) : List (OpRec GOp GRet) := log.filterMap LE.done?
def openOf (t : Nat) (log : List LE) : List LE := log.filter (fun e => decide (e.tid = t ∧ e.res = none))

/-- Sequential replay of the logged operations and results. -/
def runSpec (cap : Nat) : List Int → List LE → Option (List Int)
  | st, [] => some st
  | st, e :: l => ((bfifo cap).next st e.op e.ret).bind (fun st' => runSpec cap st' l)

theorem runSpec_append (cap : Nat) (l1 l2 : List LE) :
    ∀ st, runSpec cap st (l1 ++ l2) = (runSpec cap st l1).bind (fun st' => runSpec cap st' l2) := by
  induction l1 with
  | nil => intro st; simp [runSpec]
  | cons e l ih =>
    intro st
    simp only [List.cons_append, runSpec]
    cases (bfifo cap).next st e.op e.ret with
    | none => simp
    | some st1 => simp [ih]

theorem runSpec_close (cap t c : Nat) (l : List LE) :
    ∀ st, runSpec cap st (l.map (LE.close t c)) = runSpec cap st l := by
  induction l with
  | nil => intro st; rfl
  | cons e l ih =>
    intro st
    have h1 : (LE.close t c e).op = e.op := by unfold LE.close; split <;> rfl
    have h2 : (LE.close t c e).ret = e.ret := by unfold LE.close; split <;> rfl
    simp only [List.map_cons, runSpec, h1, h2, ih]

theorem legal_of_runSpec (cap c : Nat) (l : List LE) :
    ∀ st st', runSpec cap st l = some st' → Legal (bfifo cap) st (l.map (LE.fin c)) := by
  induction l with
  | nil => intro st st' _; trivial
  | cons e l ih =>
    intro st st' h
    simp only [runSpec] at h
    cases hn : (bfifo cap).next st e.op e.ret with
    | none => simp [hn] at h
    | some st1 =>
      simp only [hn, Option.bind_some] at h
      exact ⟨st1, hn, ih st1 st' h⟩

theorem openOf_append (t : Nat) (l1 l2 : List LE) : openOf t (l1 ++ l2) = openOf t l1 ++ openOf t l2 := by
  simp [openOf]

theorem openOf_close_same (t c : Nat) (l : List LE) : openOf t (l.map (LE.close t c)) = [] := by
  induction l with
  | nil => rfl
  | cons e l ih =>
    simp only [openOf, List.map_cons, List.filter_cons] at ih ⊢
    rw [ih]
    unfold LE.close
    split <;> simp_all

theorem openOf_close_other (t t2 c : Nat) (h : t2 ≠ t) (l : List LE) :
    openOf t2 (l.map (LE.close t c)) = openOf t2 l := by
  induction l with
  | nil => rfl
  | cons e l ih =>
    simp only [openOf, List.map_cons, List.filter_cons] at ih ⊢
    rw [ih]
    unfold LE.close
    split
    next hc => have : e.tid ≠ t2 := by omega
               simp [this]
    next => rfl

theorem completed_close (t c : Nat) (l : List LE) :
    (completed (l.map (LE.close t c))).Perm (completed l ++ (openOf t l).map (LE.fin c)) := by
  induction l with
  | nil => exact List.Perm.refl _
  | cons e l ih =>
    simp only [completed, openOf, List.map_cons, List.filterMap_cons, List.filter_cons] at ih ⊢
    by_cases hc : e.tid = t ∧ e.res = none
    · have h1 : (LE.close t c e).done? = some (LE.fin c e) := by
        simp [LE.close, hc, LE.done?, LE.fin]
      have h2 : e.done? = none := by simp [LE.done?, hc.2]
      simp only [h1, h2, hc, and_self, decide_true, if_true, List.map_cons]
      exact (List.Perm.cons _ ih).trans List.perm_middle.symm
    · have h1 : LE.close t c e = e := by simp [LE.close, hc]
      simp only [h1, hc, decide_false, Bool.false_eq_true, if_false]
      cases e.done? with
      | none => exact ih
      | some r => exact List.Perm.cons _ ih


/-! ### Instrumented runs -/

structure GSt where
  s : St
  clock : Nat                          -- number of actions so far = index of the next observation
  pend : Pend
  hist : List (OpRec GOp GRet)         -- records of the operations that have returned, in order of return
  log : List LE                        -- operations that have passed their linearization point, in that order
  trace : List St                      -- the model states before each action so far (`trace[j]` = state before action `j`)

def ginit (k : Nat) : GSt := ⟨init k, 0, fun _ => none, [], [], []⟩

/-- Ghost update for the action of thread `t` that leads to model state `s'` with observation `o`. -/
def gnext (g : GSt) (t : Tid) (s' : St) : Obs → GSt
  | .call op =>
    { g with s := s', clock := g.clock + 1, pend := upd g.pend t (some (op, g.clock)), trace := g.trace ++ [g.s] }
  | .ev _ =>
    { g with
      s := s', clock := g.clock + 1, trace := g.trace ++ [g.s],
      log := match lpRet (g.s.pc t), lpRet (s'.pc t), g.pend t with
        | none, some r, some (op, k) => g.log ++ [⟨t, op, r, k, none⟩]     -- linearization point
        | _, _, _ => g.log }
  | .ret r =>
    match g.pend t with
    | some (op, k) =>
      { s := s', clock := g.clock + 1, pend := upd g.pend t none,
        hist := g.hist ++ [⟨t, op, r, k, g.clock⟩], log := g.log.map (LE.close t g.clock),
        trace := g.trace ++ [g.s] }
    | none => { g with s := s', clock := g.clock + 1, trace := g.trace ++ [g.s] }

structure GI (g : GSt) : Prop where
  spec : runSpec (capOf g.s.k) [] g.log = some (absQueue g.s)
  invlt : ∀ e, e ∈ g.log → e.inv < g.clock
  rt : g.log.Pairwise (fun a b => ∀ r, b.res = some r → a.inv ≤ r)
  comp : (completed g.log).Perm g.hist
  pendlt : ∀ t op k, g.pend t = some (op, k) → k < g.clock
  pre : ∀ t op, opOf (g.s.pc t) = some op → ∃ k, g.pend t = some (op, k)
  preopen : ∀ t, lpRet (g.s.pc t) = none → openOf t g.log = []
  post : ∀ t r, lpRet (g.s.pc t) = some r → ∃ op k, g.pend t = some (op, k) ∧ openOf t g.log = [⟨t, op, r, k, none⟩]
  idle : ∀ t, g.s.pc t = .idle → g.pend t = none

def GInv (g : GSt) : Prop := VInv g.s ∧ GI g

theorem ginv_init (k : Nat) (hk : 1 ≤ k) : GInv (ginit k) := by
  refine ⟨vinv_init k hk, ?_⟩
  constructor <;> simp [ginit, init, runSpec, completed, opOf, lpRet, openOf, absQueue]

theorem opOf_none_of_lp {pc : PC} {r : GRet} (h : lpRet pc = some r) : opOf pc = none := by
  cases pc <;> simp_all [lpRet, opOf]

theorem ginv_invoke {g : GSt} {t : Tid} {op : GOp} {s' : St} (h : GInv g) (hs : invoke g.s t op = some s') :
    GInv (gnext g t s' (.call op)) := by
  obtain ⟨hl, hg⟩ := h
  obtain ⟨hl', he⟩ := vinv_invoke hl hs
  refine ⟨hl', ?_⟩
  obtain ⟨hspec, hinvlt, hrt, hcomp, hpendlt, hpre, hpreopen, hpost, hidle⟩ := hg
  obtain ⟨hframe, hkk, hwas, hnow, habs⟩ := he
  have hpw : lpRet (g.s.pc t) = none := by simp [hwas, lpRet]
  constructor
  · simp only [gnext]; rw [habs, hkk]; exact hspec
  · intro e he; have := hinvlt e he; simp only [gnext]; omega
  · exact hrt
  · exact hcomp
  · intro t2 op2 k; simp only [gnext, upd]; intro h
    split at h
    · simp at h; omega
    · have := hpendlt t2 op2 k h; omega
  · intro t2 op2; simp only [gnext]
    by_cases ht : t2 = t
    · subst ht; rw [hnow.1]; intro h; simp at h; subst h; exact ⟨g.clock, by simp [upd]⟩
    · rw [hframe t2 ht]; intro h
      obtain ⟨k, hk⟩ := hpre t2 op2 h
      exact ⟨k, by simp [upd, ht, hk]⟩
  · intro t2; simp only [gnext]
    by_cases ht : t2 = t
    · subst ht; intro _; exact hpreopen t2 hpw
    · rw [hframe t2 ht]; exact hpreopen t2
  · intro t2 r; simp only [gnext]
    by_cases ht : t2 = t
    · subst ht; rw [hnow.2]; intro h; simp at h
    · rw [hframe t2 ht]; intro h
      obtain ⟨op2, k, h1, h2⟩ := hpost t2 r h
      exact ⟨op2, k, by simp [upd, ht, h1], h2⟩
  · intro t2; simp only [gnext]
    by_cases ht : t2 = t
    · subst ht; intro h; rw [h] at hnow; simp [opOf] at hnow
    · rw [hframe t2 ht]; intro h; simp [upd, ht, hidle t2 h]

theorem ginv_result {g : GSt} {t : Tid} {r : GRet} {s' : St} (h : GInv g) (hs : result g.s t = some (s', r)) :
    GInv (gnext g t s' (.ret r)) := by
  obtain ⟨hl, hg⟩ := h
  obtain ⟨hl', hdone, hidl, hframe, hkk, habs⟩ := vinv_result hl hs
  obtain ⟨hspec, hinvlt, hrt, hcomp, hpendlt, hpre, hpreopen, hpost, hidle⟩ := hg
  obtain ⟨op, k, hp, hopen⟩ := hpost t r (by simp [hdone, lpRet])
  have hcl : ∀ e, (LE.close t g.clock e).inv = e.inv := by intro e; unfold LE.close; split <;> rfl
  simp only [gnext, hp]
  refine ⟨hl', ?_⟩
  constructor <;> dsimp only
  · rw [runSpec_close, habs, hkk]; exact hspec
  · intro e he
    obtain ⟨e0, he0, rfl⟩ := List.mem_map.mp he
    have := hinvlt e0 he0; rw [hcl]; omega
  · rw [List.pairwise_map]
    refine List.Pairwise.imp_of_mem ?_ hrt
    intro a b ha hb hab r' hr'
    rw [hcl]
    unfold LE.close at hr'
    split at hr'
    · simp at hr'; have := hinvlt a ha; omega
    · exact hab r' hr'
  · refine (completed_close t g.clock g.log).trans ?_
    rw [hopen]
    exact List.Perm.append_right _ hcomp
  · intro t2 op2 k2 h
    simp only [upd] at h
    split at h
    · simp at h
    · have := hpendlt t2 op2 k2 h; omega
  · intro t2 op2
    by_cases ht : t2 = t
    · subst ht; rw [hidl]; simp [opOf]
    · rw [hframe t2 ht]; intro h
      obtain ⟨k2, hk⟩ := hpre t2 op2 h
      exact ⟨k2, by simp [upd, ht, hk]⟩
  · intro t2
    by_cases ht : t2 = t
    · subst ht; intro _; exact openOf_close_same _ _ _
    · rw [hframe t2 ht, openOf_close_other _ _ _ ht]; exact hpreopen t2
  · intro t2 r2
    by_cases ht : t2 = t
    · subst ht; rw [hidl]; simp [lpRet]
    · rw [hframe t2 ht, openOf_close_other _ _ _ ht]; intro h
      obtain ⟨op2, k2, h1, h2⟩ := hpost t2 r2 h
      exact ⟨op2, k2, by simp [upd, ht, h1], h2⟩
  · intro t2
    by_cases ht : t2 = t
    · subst ht; intro _; simp [upd]
    · rw [hframe t2 ht]; intro h; simp [upd, ht, hidle t2 h]

theorem ginv_step {g : GSt} {t : Tid} {ev : Ev} {s' : St} (h : GInv g) (hs : step g.s t = some (s', ev)) :
    GInv (gnext g t s' (.ev ev)) := by
  obtain ⟨hl, hg⟩ := h
  obtain ⟨hl', he⟩ := vinv_step hl hs
  refine ⟨hl', ?_⟩
  obtain ⟨hspec, hinvlt, hrt, hcomp, hpendlt, hpre, hpreopen, hpost, hidle⟩ := hg
  obtain ⟨hframe, hkk, hlp, hnolp, hkeep, hop, hbusy⟩ := he
  by_cases hLP : lpRet (g.s.pc t) = none ∧ ∃ r, lpRet (s'.pc t) = some r
  · -- linearization point
    obtain ⟨h1, r, h2⟩ := hLP
    obtain ⟨op, hopo, hnext⟩ := hlp h1 r h2
    obtain ⟨k, hk⟩ := hpre t op hopo
    have hlog : (gnext g t s' (.ev ev)).log = g.log ++ [⟨t, op, r, k, none⟩] := by
      simp only [gnext, h1, h2, hk]
    constructor
    · rw [hlog, runSpec_append]
      simp only [gnext, hkk]
      rw [hspec]
      simp only [Option.bind_some, runSpec]
      rw [hnext]; rfl
    · rw [hlog]; intro e he
      simp only [gnext]
      rcases List.mem_append.mp he with h | h
      · have := hinvlt e h; omega
      · simp at h; subst h; have := hpendlt t op k hk; simp only; omega
    · rw [hlog, List.pairwise_append]
      refine ⟨hrt, by simp, ?_⟩
      intro a _ b hb r' hr'
      simp at hb; subst hb; simp at hr'
    · rw [hlog]
      simp only [completed, List.filterMap_append, gnext] at hcomp ⊢
      have : List.filterMap LE.done? [(⟨t, op, r, k, none⟩ : LE)] = [] := by simp [LE.done?]
      rw [this, List.append_nil]; exact hcomp
    · intro t2 op2 k2 h
      simp only [gnext] at h ⊢
      have := hpendlt t2 op2 k2 h; omega
    · intro t2 op2
      simp only [gnext]
      by_cases ht : t2 = t
      · subst ht; rw [opOf_none_of_lp h2]; simp
      · rw [hframe t2 ht]; exact hpre t2 op2
    · intro t2
      rw [hlog]; simp only [gnext]
      by_cases ht : t2 = t
      · subst ht; rw [h2]; simp
      · rw [hframe t2 ht, openOf_append]; intro h
        rw [hpreopen t2 h]
        have : t ≠ t2 := fun e => ht e.symm
        simp [openOf, this]
    · intro t2 r2
      rw [hlog]; simp only [gnext]
      by_cases ht : t2 = t
      · subst ht; rw [h2]; intro h; simp at h; subst h
        refine ⟨op, k, hk, ?_⟩
        rw [openOf_append, hpreopen t2 h1]
        simp [openOf]
      · rw [hframe t2 ht, openOf_append]; intro h
        obtain ⟨op2, k2, h3, h4⟩ := hpost t2 r2 h
        refine ⟨op2, k2, h3, ?_⟩
        rw [h4]
        have : t ≠ t2 := fun e => ht e.symm
        simp [openOf, this]
    · intro t2
      simp only [gnext]
      by_cases ht : t2 = t
      · subst ht; intro h; exact absurd h hbusy.2
      · rw [hframe t2 ht]; exact hidle t2
  · -- not a linearization point
    have hc : lpRet (g.s.pc t) ≠ none ∨ lpRet (s'.pc t) = none := by
      by_cases h1 : lpRet (g.s.pc t) = none
      · right
        cases h2 : lpRet (s'.pc t) with
        | none => rfl
        | some r => exact absurd ⟨h1, r, h2⟩ hLP
      · left; exact h1
    have habs := hnolp hc
    have hlog : (gnext g t s' (.ev ev)).log = g.log := by
      simp only [gnext]
      split
      next h1 h2 _ => exact absurd ⟨h1, _, h2⟩ hLP
      next => rfl
    have hpostEq : lpRet (s'.pc t) = lpRet (g.s.pc t) := by
      cases h1 : lpRet (g.s.pc t) with
      | some r => exact hkeep r h1
      | none =>
        rcases hc with h | h
        · exact absurd h1 h
        · exact h
    constructor
    · rw [hlog]; simp only [gnext]; rw [habs, hkk]; exact hspec
    · rw [hlog]; intro e he; have := hinvlt e he; simp only [gnext]; omega
    · rw [hlog]; exact hrt
    · rw [hlog]; exact hcomp
    · intro t2 op2 k2 h
      simp only [gnext] at h ⊢
      have := hpendlt t2 op2 k2 h; omega
    · intro t2 op2
      simp only [gnext]
      by_cases ht : t2 = t
      · subst ht
        cases h1 : lpRet (s'.pc t2) with
        | some r => rw [opOf_none_of_lp h1]; simp
        | none => rw [hop h1]; exact hpre t2 op2
      · rw [hframe t2 ht]; exact hpre t2 op2
    · intro t2
      rw [hlog]; simp only [gnext]
      by_cases ht : t2 = t
      · subst ht; rw [hpostEq]; exact hpreopen t2
      · rw [hframe t2 ht]; exact hpreopen t2
    · intro t2 r2
      rw [hlog]; simp only [gnext]
      by_cases ht : t2 = t
      · subst ht; rw [hpostEq]; exact hpost t2 r2
      · rw [hframe t2 ht]; exact hpost t2 r2
    · intro t2
      simp only [gnext]
      by_cases ht : t2 = t
      · subst ht; intro h; exact absurd h hbusy.2
      · rw [hframe t2 ht]; exact hidle t2

/-! ### The instant at which a failing operation saw the full / empty queue -/

/-- What the state `s1` (just before the load that fixes the result `[0]`) looks like, depending on the operation. -/
def FailAt (s1 : St) (t : Tid) : Prop := FullAt s1 t ∨ EmptyAt s1 t

/-- Second ghost invariant: every operation that answered (or is about to answer) `[0]` has an instant `j`, after
    its call and before its return, at which the queue was full (`enq`) resp. empty (`deq`). -/
structure GE (g : GSt) : Prop where
  tlen : g.trace.length = g.clock
  histemp : ∀ r, r ∈ g.hist → r.ret = [0] →
    ∃ j s1, r.inv < j ∧ j < r.res ∧ g.trace[j]? = some s1 ∧ FailAt s1 r.tid ∧ opOf (s1.pc r.tid) = some r.op
  pendemp : ∀ t, lpRet (g.s.pc t) = some [0] →
    ∃ j s1 op k, g.pend t = some (op, k) ∧ k < j ∧ j < g.clock ∧ g.trace[j]? = some s1 ∧ FailAt s1 t ∧
      opOf (s1.pc t) = some op

theorem ge_init (k : Nat) : GE (ginit k) := by
  constructor <;> simp [ginit, init, lpRet]

theorem getElem?_snoc_of_some {α : Type} {l : List α} {j : Nat} {x y : α} (h : l[j]? = some x) :
    (l ++ [y])[j]? = some x := by
  have hj : j < l.length := by
    cases hlt : decide (j < l.length) with
    | true => simpa using hlt
    | false => simp at hlt; rw [List.getElem?_eq_none hlt] at h; simp at h
  rw [List.getElem?_append_left hj]; exact h

theorem ge_invoke {g : GSt} {t : Tid} {op : GOp} {s' : St} (h : GInv g) (he : GE g)
    (hs : invoke g.s t op = some s') : GE (gnext g t s' (.call op)) := by
  obtain ⟨hl, hg⟩ := h
  obtain ⟨-, hie⟩ := vinv_invoke hl hs
  obtain ⟨htlen, hhist, hpend⟩ := he
  constructor
  · simp only [gnext, List.length_append, List.length_singleton, htlen]
  · intro r hr hret
    obtain ⟨j, s1, h1, h2, h3, h4⟩ := hhist r hr hret
    exact ⟨j, s1, h1, h2, getElem?_snoc_of_some h3, h4⟩
  · intro t2
    simp only [gnext]
    by_cases ht : t2 = t
    · subst ht; rw [hie.now.2]; intro h; simp at h
    · rw [hie.frame t2 ht]; intro h
      obtain ⟨j, s1, op2, k, h1, h2, h3, h4, h5⟩ := hpend t2 h
      exact ⟨j, s1, op2, k, by simp [upd, ht, h1], h2, by omega, getElem?_snoc_of_some h4, h5⟩

theorem ge_result {g : GSt} {t : Tid} {r : GRet} {s' : St} (h : GInv g) (he : GE g)
    (hs : result g.s t = some (s', r)) : GE (gnext g t s' (.ret r)) := by
  obtain ⟨hl, hg⟩ := h
  obtain ⟨-, hdone, hidl, hframe, -, -⟩ := vinv_result hl hs
  obtain ⟨htlen, hhist, hpend⟩ := he
  obtain ⟨op, k, hp, -⟩ := hg.post t r (by simp [hdone, lpRet])
  simp only [gnext, hp]
  constructor <;> dsimp only
  · simp only [List.length_append, List.length_singleton, htlen]
  · intro r0 hr hret
    rcases List.mem_append.mp hr with hr | hr
    · obtain ⟨j, s1, h1, h2, h3, h4⟩ := hhist r0 hr hret
      exact ⟨j, s1, h1, h2, getElem?_snoc_of_some h3, h4⟩
    · simp at hr; subst hr
      simp only at hret
      obtain ⟨j, s1, op2, k2, h1, h2, h3, h4, h5, h6⟩ := hpend t (by rw [hdone, hret]; simp [lpRet])
      rw [hp] at h1; simp at h1
      obtain ⟨rfl, rfl⟩ := h1
      exact ⟨j, s1, by simp only; omega, h3, getElem?_snoc_of_some h4, h5, h6⟩
  · intro t2
    by_cases ht : t2 = t
    · subst ht; rw [hidl]; intro h; simp [lpRet] at h
    · rw [hframe t2 ht]; intro h
      obtain ⟨j, s1, op2, k2, h1, h2, h3, h4, h5⟩ := hpend t2 h
      exact ⟨j, s1, op2, k2, by simp [upd, ht, h1], h2, by omega, getElem?_snoc_of_some h4, h5⟩

theorem ge_step {g : GSt} {t : Tid} {ev : Ev} {s' : St} (h : GInv g) (he : GE g)
    (hs : step g.s t = some (s', ev)) : GE (gnext g t s' (.ev ev)) := by
  obtain ⟨hl, hg⟩ := h
  obtain ⟨hl', hse⟩ := vinv_step hl hs
  obtain ⟨htlen, hhist, hpend⟩ := he
  constructor
  · simp only [gnext, List.length_append, List.length_singleton, htlen]
  · intro r hr hret
    obtain ⟨j, s1, h1, h2, h3, h4⟩ := hhist r hr hret
    exact ⟨j, s1, h1, h2, getElem?_snoc_of_some h3, h4⟩
  · intro t2
    simp only [gnext]
    by_cases ht : t2 = t
    · subst ht
      intro h2
      cases h1 : lpRet (g.s.pc t2) with
      | none =>
        -- the linearization point of a failing operation: the state before this very step
        obtain ⟨op, hopo, -⟩ := hse.lp h1 _ h2
        obtain ⟨k, hk⟩ := hg.pre t2 op hopo
        have hf : FailAt g.s t2 := by
          rcases fail_step hl hs h1 h2 with h | h
          · exact Or.inl h.1
          · exact Or.inr h.1
        refine ⟨g.clock, g.s, op, k, hk, hg.pendlt _ _ _ hk, by omega, ?_, hf, hopo⟩
        rw [List.getElem?_append_right (by omega)]; simp [htlen]
      | some r =>
        have hr : r = [0] := by
          have := hse.keep r h1
          rw [h2] at this; simp at this; exact this.symm
        subst hr
        obtain ⟨j, s1, op2, k, e1, e2, e3, e4, e5⟩ := hpend t2 h1
        exact ⟨j, s1, op2, k, e1, e2, by omega, getElem?_snoc_of_some e4, e5⟩
    · rw [hse.frame t2 ht]; intro h
      obtain ⟨j, s1, op2, k, h1, h2, h3, h4, h5⟩ := hpend t2 h
      exact ⟨j, s1, op2, k, h1, h2, by omega, getElem?_snoc_of_some h4, h5⟩

theorem gnext_s (g : GSt) (t : Tid) (s' : St) (o : Obs) : (gnext g t s' o).s = s' := by
  cases o <;> simp only [gnext]
  split <;> rfl

theorem gnext_clock (g : GSt) (t : Tid) (s' : St) (o : Obs) : (gnext g t s' o).clock = g.clock + 1 := by
  cases o <;> simp only [gnext]
  split <;> rfl

theorem gnext_hist (g : GSt) (t : Tid) (s' : St) (o : Obs) (os : List (Tid × Obs)) :
    (gnext g t s' o).hist ++ histAux (g.clock + 1) (gnext g t s' o).pend os
      = g.hist ++ histAux g.clock g.pend ((t, o) :: os) := by
  cases o with
  | call op => simp only [gnext, histAux]
  | ev e => simp only [gnext, histAux]
  | ret r =>
    simp only [gnext, histAux]
    cases hp : g.pend t with
    | none => simp only
    | some p => obtain ⟨op, k⟩ := p; simp only [List.append_assoc, List.singleton_append]

theorem gnext_pend (g : GSt) (t : Tid) (s' : St) (o : Obs) (os : List (Tid × Obs)) :
    pendAux (g.clock + 1) (gnext g t s' o).pend os = pendAux g.clock g.pend ((t, o) :: os) := by
  cases o with
  | call op => simp only [gnext, pendAux]
  | ev e => simp only [gnext, pendAux]
  | ret r =>
    simp only [gnext, pendAux]
    cases hp : g.pend t with
    | none => simp only
    | some p => obtain ⟨op, k⟩ := p; simp only

theorem ginv_apply {g : GSt} {t : Tid} {a : Act} {s' : St} {o : Obs} (h : GInv g)
    (hap : model.apply g.s t a = some (s', o)) : GInv (gnext g t s' o) := by
  cases a with
  | invoke op =>
    simp only [Model.apply, model, Option.map_eq_some_iff] at hap
    obtain ⟨s1, hs1, heq⟩ := hap
    simp only [Prod.mk.injEq] at heq
    obtain ⟨rfl, rfl⟩ := heq
    exact ginv_invoke h hs1
  | step =>
    simp only [Model.apply, model, Option.map_eq_some_iff] at hap
    obtain ⟨⟨s1, e⟩, hs1, heq⟩ := hap
    simp only [Prod.mk.injEq] at heq
    obtain ⟨rfl, rfl⟩ := heq
    exact ginv_step h hs1
  | ret =>
    simp only [Model.apply, model, Option.map_eq_some_iff] at hap
    obtain ⟨⟨s1, r⟩, hs1, heq⟩ := hap
    simp only [Prod.mk.injEq] at heq
    obtain ⟨rfl, rfl⟩ := heq
    exact ginv_result h hs1


theorem ge_apply {g : GSt} {t : Tid} {a : Act} {s' : St} {o : Obs} (h : GInv g) (he : GE g)
    (hap : model.apply g.s t a = some (s', o)) : GE (gnext g t s' o) := by
  cases a with
  | invoke op =>
    simp only [Model.apply, model, Option.map_eq_some_iff] at hap
    obtain ⟨s1, hs1, heq⟩ := hap
    simp only [Prod.mk.injEq] at heq
    obtain ⟨rfl, rfl⟩ := heq
    exact ge_invoke h he hs1
  | step =>
    simp only [Model.apply, model, Option.map_eq_some_iff] at hap
    obtain ⟨⟨s1, e⟩, hs1, heq⟩ := hap
    simp only [Prod.mk.injEq] at heq
    obtain ⟨rfl, rfl⟩ := heq
    exact ge_step h he hs1
  | ret =>
    simp only [Model.apply, model, Option.map_eq_some_iff] at hap
    obtain ⟨⟨s1, r⟩, hs1, heq⟩ := hap
    simp only [Prod.mk.injEq] at heq
    obtain ⟨rfl, rfl⟩ := heq
    exact ge_result h he hs1

theorem gnext_trace (g : GSt) (t : Tid) (s' : St) (o : Obs) : (gnext g t s' o).trace = g.trace ++ [g.s] := by
  cases o <;> simp only [gnext]
  split <;> rfl

/-- The states a run passes through: `(statesOf s sched)[j]` is the state before action `j`. -/
def statesOf : St → List (Tid × Act) → List St
  | _, [] => []
  | s, (t, a) :: rest =>
    s :: (match model.apply s t a with
      | some (s', _) => statesOf s' rest
      | none => [])

/-- `(statesOf s sched)[j]` is the state reached by the first `j` actions of the run, which produce the first `j`
    observations. -/
theorem statesOf_prefix : ∀ (sched : List (Tid × Act)) (s s' : St) (os : List (Tid × Obs)) (j : Nat) (s1 : St),
    model.run s sched = some (s', os) → (statesOf s sched)[j]? = some s1 →
    model.run s (sched.take j) = some (s1, os.take j) := by
  intro sched
  induction sched with
  | nil => intro s s' os j s1 _ h; simp [statesOf] at h
  | cons x rest ih =>
    intro s s' os j s1 hr h
    obtain ⟨t, a⟩ := x
    simp only [Model.run] at hr
    cases hap : model.apply s t a with
    | none => simp [hap] at hr
    | some p =>
      obtain ⟨s2, o⟩ := p
      simp only [hap] at hr
      cases hrr : model.run s2 rest with
      | none => simp [hrr] at hr
      | some q =>
        obtain ⟨s3, os2⟩ := q
        simp only [hrr, Option.some.injEq, Prod.mk.injEq] at hr
        obtain ⟨rfl, rfl⟩ := hr
        cases j with
        | zero =>
          simp [statesOf] at h
          subst h
          simp [Model.run]
        | succ j =>
          simp only [statesOf, hap, List.getElem?_cons_succ] at h
          have := ih s2 s3 os2 j s1 hrr h
          simp only [List.take_succ_cons, Model.run, hap, this]

/-- Every run of the model lifts to an instrumented run: the ghost state at the end satisfies the invariants, and
    its `hist` / `pend` / `trace` are the history / pending table / state sequence of the run. -/
theorem run_ghost : ∀ (sched : List (Tid × Act)) (g : GSt) (s' : St) (os : List (Tid × Obs)),
    GInv g → GE g → model.run g.s sched = some (s', os) →
    ∃ g', GInv g' ∧ GE g' ∧ g'.s = s' ∧ g'.hist = g.hist ++ histAux g.clock g.pend os ∧
      g'.pend = pendAux g.clock g.pend os ∧ g'.clock = g.clock + os.length ∧
      g'.trace = g.trace ++ statesOf g.s sched := by
  intro sched
  induction sched with
  | nil =>
    intro g s' os hg he hr
    simp [Model.run] at hr
    obtain ⟨rfl, rfl⟩ := hr
    exact ⟨g, hg, he, rfl, by simp [histAux], by simp [pendAux], by simp, by simp [statesOf]⟩
  | cons x rest ih =>
    intro g s' os hg he hr
    obtain ⟨t, a⟩ := x
    simp only [Model.run] at hr
    cases hap : model.apply g.s t a with
    | none => simp [hap] at hr
    | some p =>
      obtain ⟨s1, o⟩ := p
      simp only [hap] at hr
      cases hrr : model.run s1 rest with
      | none => simp [hrr] at hr
      | some q =>
        obtain ⟨s2, os2⟩ := q
        simp only [hrr, Option.some.injEq, Prod.mk.injEq] at hr
        obtain ⟨rfl, rfl⟩ := hr
        have hg1 := ginv_apply hg hap
        have he1 := ge_apply hg he hap
        have hrr' : model.run (gnext g t s1 o).s rest = some (s2, os2) := by rw [gnext_s]; exact hrr
        obtain ⟨g', hg', he', hs', hh, hp, hc, htr⟩ := ih (gnext g t s1 o) s2 os2 hg1 he1 hrr'
        refine ⟨g', hg', he', hs', ?_, ?_, ?_, ?_⟩
        · rw [hh, gnext_clock, gnext_hist]
        · rw [hp, gnext_clock, gnext_pend]
        · rw [hc, gnext_clock]; simp; omega
        · rw [htr, gnext_trace, gnext_s]; simp [statesOf, hap]

/-! ### From the ghost invariant to linearizability -/

/-- Logged operations that have not returned. -/
def openAll (log : List LE) : List LE := log.filter (fun e => !e.res.isSome)

theorem completed_openAll_perm (c : Nat) (l : List LE) :
    (completed l ++ (openAll l).map (LE.fin c)).Perm (l.map (LE.fin c)) := by
  induction l with
  | nil => exact List.Perm.refl _
  | cons e l ih =>
    simp only [completed, openAll, List.filterMap_cons, List.filter_cons, List.map_cons] at ih ⊢
    cases hr : e.res with
    | none =>
      simp only [LE.done?, hr, Option.map_none, Option.isSome_none, Bool.not_false, if_true, List.map_cons]
      exact List.perm_middle.trans (List.Perm.cons _ ih)
    | some r =>
      have : LE.fin c e = ⟨e.tid, e.op, e.ret, e.inv, r⟩ := by simp [LE.fin, hr]
      simp only [LE.done?, hr, Option.map_some, Option.isSome_some, Bool.not_true, Bool.false_eq_true, if_false,
        List.cons_append, this]
      exact List.Perm.cons _ ih

theorem openAll_pairwise (l : List LE) (h : ∀ t, (openOf t l).length ≤ 1) :
    (openAll l).Pairwise (fun a b => a.tid ≠ b.tid) := by
  induction l with
  | nil => exact List.Pairwise.nil
  | cons e l ih =>
    have hl : ∀ t, (openOf t l).length ≤ 1 := by
      intro t
      have h1 := h t
      have h2 : (openOf t l).length ≤ (openOf t (e :: l)).length := by
        simp only [openOf, List.filter_cons]; split <;> simp
      omega
    simp only [openAll, List.filter_cons]
    split
    next hr =>
      refine List.Pairwise.cons ?_ (ih hl)
      intro b hb hne
      have hb' := List.mem_filter.mp hb
      have hr' : e.res = none := by cases h : e.res <;> simp_all
      have hbr : b.res = none := by cases h : b.res <;> simp_all
      have hmem : b ∈ openOf e.tid l := by
        simp only [openOf, List.mem_filter]
        exact ⟨hb'.1, by simp [hne, hbr]⟩
      have := h e.tid
      simp only [openOf, List.filter_cons, hr', and_self, decide_true, if_true, List.length_cons] at this
      have hpos : 0 < (openOf e.tid l).length := List.length_pos_of_mem hmem
      simp only [openOf] at hpos
      omega
    next => exact ih hl


/-- The linearization extracted from the ghost log. -/
theorem ginv_linearizable {g : GSt} (h : GInv g) :
    Linearizable (bfifo (capOf g.s.k)) (g.hist ++ (openAll g.log).map (LE.fin g.clock)) ∧
    (∀ e ∈ (openAll g.log).map (LE.fin g.clock),
        g.pend e.tid = some (e.op, e.inv) ∧ e.res = g.clock ∧ lpRet (g.s.pc e.tid) = some e.ret) ∧
    ((openAll g.log).map (LE.fin g.clock)).Pairwise (fun a b => a.tid ≠ b.tid) := by
  obtain ⟨hl, hg⟩ := h
  obtain ⟨hspec, hinvlt, hrt, hcomp, hpendlt, hpre, hpreopen, hpost, hidle⟩ := hg
  refine ⟨⟨g.log.map (LE.fin g.clock), ?_, ?_, ?_⟩, ?_, ?_⟩
  · exact (completed_openAll_perm g.clock g.log).symm.trans (List.Perm.append_right _ hcomp)
  · unfold RespectsRT
    rw [List.pairwise_map]
    refine List.Pairwise.imp_of_mem ?_ hrt
    intro a b ha _ hab
    simp only [LE.fin]
    cases hr : b.res with
    | none => have := hinvlt a ha; simp; omega
    | some r => have := hab r hr; simp; omega
  · exact legal_of_runSpec (capOf g.s.k) g.clock g.log [] _ hspec
  · intro e' he'
    obtain ⟨e, he, rfl⟩ := List.mem_map.mp he'
    have he2 := List.mem_filter.mp he
    have hr : e.res = none := by cases h : e.res <;> simp_all
    have hmem : e ∈ openOf e.tid g.log := by
      simp only [openOf, List.mem_filter]; exact ⟨he2.1, by simp [hr]⟩
    cases hp : lpRet (g.s.pc e.tid) with
    | none => rw [hpreopen e.tid hp] at hmem; simp at hmem
    | some r =>
      obtain ⟨op, k, h1, h2⟩ := hpost e.tid r hp
      rw [h2] at hmem
      simp at hmem
      have e1 : e.op = op := by rw [hmem]
      have e2 : e.inv = k := by rw [hmem]
      have e3 : e.ret = r := by rw [hmem]
      simp [LE.fin, hr, h1, e1, e2, e3, hp]
  · rw [List.pairwise_map]
    refine openAll_pairwise g.log ?_
    intro t
    cases hp : lpRet (g.s.pc t) with
    | none => rw [hpreopen t hp]; simp
    | some r => obtain ⟨op, k, -, h2⟩ := hpost t r hp; rw [h2]; simp

/-! ### Soundness of `historyOf` / `pendingOf`: records point at the right observations -/

theorem histAux_mem : ∀ (os : List (Tid × Obs)) (i : Nat) (pend : Pend) (r : OpRec GOp GRet),
    r ∈ histAux i pend os →
    ∃ j, r.res = i + j ∧ os[j]? = some (r.tid, .ret r.ret) ∧
      (pend r.tid = some (r.op, r.inv) ∨
        ∃ j0, j0 < j ∧ r.inv = i + j0 ∧ os[j0]? = some (r.tid, .call r.op)) := by
  intro os
  induction os with
  | nil => intro i pend r h; simp [histAux] at h
  | cons x os ih =>
    intro i pend r h
    obtain ⟨t, o⟩ := x
    cases o with
    | call op =>
      simp only [histAux] at h
      obtain ⟨j, h1, h2, h3⟩ := ih _ _ r h
      refine ⟨j + 1, by omega, by simpa using h2, ?_⟩
      rcases h3 with h3 | ⟨j0, h4, h5, h6⟩
      · by_cases ht : r.tid = t
        · rw [ht] at h3; simp [upd] at h3
          right; exact ⟨0, by omega, by omega, by simp [ht, h3.1]⟩
        · left; simpa [upd, ht] using h3
      · right; exact ⟨j0 + 1, by omega, by omega, by simpa using h6⟩
    | ev e =>
      simp only [histAux] at h
      obtain ⟨j, h1, h2, h3⟩ := ih _ _ r h
      refine ⟨j + 1, by omega, by simpa using h2, ?_⟩
      rcases h3 with h3 | ⟨j0, h4, h5, h6⟩
      · left; exact h3
      · right; exact ⟨j0 + 1, by omega, by omega, by simpa using h6⟩
    | ret rv =>
      simp only [histAux] at h
      cases hp : pend t with
      | none =>
        simp only [hp] at h
        obtain ⟨j, h1, h2, h3⟩ := ih _ _ r h
        refine ⟨j + 1, by omega, by simpa using h2, ?_⟩
        rcases h3 with h3 | ⟨j0, h4, h5, h6⟩
        · left; exact h3
        · right; exact ⟨j0 + 1, by omega, by omega, by simpa using h6⟩
      | some p =>
        obtain ⟨op, k⟩ := p
        simp only [hp, List.mem_cons] at h
        rcases h with h | h
        · subst h
          exact ⟨0, by simp, by simp, Or.inl hp⟩
        · obtain ⟨j, h1, h2, h3⟩ := ih _ _ r h
          refine ⟨j + 1, by omega, by simpa using h2, ?_⟩
          rcases h3 with h3 | ⟨j0, h4, h5, h6⟩
          · by_cases ht : r.tid = t
            · rw [ht] at h3; simp [upd] at h3
            · left; simpa [upd, ht] using h3
          · right; exact ⟨j0 + 1, by omega, by omega, by simpa using h6⟩

/-- Every record of `historyOf os` is an operation of `os`: `inv` is the index of its call, `res` the index of its
    return, and the call precedes the return. -/
theorem historyOf_sound (os : List (Tid × Obs)) (r : OpRec GOp GRet) (h : r ∈ historyOf os) :
    os[r.inv]? = some (r.tid, .call r.op) ∧ os[r.res]? = some (r.tid, .ret r.ret) ∧ r.inv < r.res := by
  obtain ⟨j, h1, h2, h3⟩ := histAux_mem os 0 (fun _ => none) r h
  rcases h3 with h3 | ⟨j0, h4, h5, h6⟩
  · simp at h3
  · have e1 : r.res = j := by omega
    have e2 : r.inv = j0 := by omega
    rw [e1, e2]; exact ⟨h6, h2, h4⟩

theorem pendAux_some : ∀ (os : List (Tid × Obs)) (i : Nat) (pend : Pend) (t : Tid) (op : GOp) (k : Nat),
    pendAux i pend os t = some (op, k) →
    pend t = some (op, k) ∨ ∃ j0, k = i + j0 ∧ os[j0]? = some (t, .call op) := by
  intro os
  induction os with
  | nil => intro i pend t op k h; left; simpa [pendAux] using h
  | cons x os ih =>
    intro i pend t op k h
    obtain ⟨t1, o⟩ := x
    have shift : (∃ j0, k = i + 1 + j0 ∧ os[j0]? = some (t, .call op)) →
        ∃ j0, k = i + j0 ∧ ((t1, o) :: os)[j0]? = some (t, .call op) := by
      rintro ⟨j0, h1, h2⟩; exact ⟨j0 + 1, by omega, by simpa using h2⟩
    cases o with
    | call op1 =>
      simp only [pendAux] at h
      rcases ih _ _ t op k h with h3 | h3
      · by_cases ht : t = t1
        · subst ht; simp [upd] at h3
          right; exact ⟨0, by omega, by simp [h3.1]⟩
        · left; simpa [upd, ht] using h3
      · right; exact shift h3
    | ev e =>
      simp only [pendAux] at h
      rcases ih _ _ t op k h with h3 | h3
      · left; exact h3
      · right; exact shift h3
    | ret rv =>
      simp only [pendAux] at h
      cases hp : pend t1 with
      | none =>
        simp only [hp] at h
        rcases ih _ _ t op k h with h3 | h3
        · left; exact h3
        · right; exact shift h3
      | some p =>
        simp only [hp] at h
        rcases ih _ _ t op k h with h3 | h3
        · by_cases ht : t = t1
          · subst ht; simp [upd] at h3
          · left; simpa [upd, ht] using h3
        · right; exact shift h3

/-- A pending operation of `pendingOf os` is an operation of `os`: its `call` observation is at the recorded index. -/
theorem pendingOf_sound (os : List (Tid × Obs)) (t : Tid) (op : GOp) (k : Nat)
    (h : pendingOf os t = some (op, k)) : os[k]? = some (t, .call op) := by
  rcases pendAux_some os 0 (fun _ => none) t op k h with h3 | ⟨j0, h1, h2⟩
  · simp at h3
  · have : k = j0 := by omega
    rw [this]; exact h2


/-! ### Sequential facts about `lifo` -/

/-! ### Main theorems -/

theorem run_ghost_init {k : Nat} (hk : 1 ≤ k) {sched : List (Tid × Act)} {s : St} {os : List (Tid × Obs)}
    (h : model.run (init k) sched = some (s, os)) :
    ∃ g, GInv g ∧ GE g ∧ g.s = s ∧ g.hist = historyOf os ∧ g.pend = pendingOf os ∧ g.clock = os.length ∧
      g.trace = statesOf (init k) sched := by
  obtain ⟨g, hg, he, h1, h2, h3, h4, h5⟩ := run_ghost sched (ginit k) s os (ginv_init k hk) (ge_init k) h
  exact ⟨g, hg, he, h1, by simpa [ginit, historyOf] using h2, by simpa [ginit, pendingOf] using h3,
    by simpa [ginit] using h4, by simpa [ginit] using h5⟩

/-- **Linearizability of Vyukov's bounded MPMC queue** (Herlihy–Wing, with completion of pending operations).
    For every capacity `2^k`, `k ≥ 1`, and every run of the model from `init k`, the history of the completed
    operations, extended by response records `extra` for the operations still pending at the end that have passed
    their linearization point (they get the result fixed there and the response time "end of the run"; at most
    one per thread), is linearizable to the sequential bounded FIFO queue of capacity `2^k`.  All other pending
    operations are dropped. -/
theorem vyukov_linearizable (k : Nat) (hk : 1 ≤ k) (sched : List (Tid × Act)) (s : St) (os : List (Tid × Obs))
    (h : model.run (init k) sched = some (s, os)) :
    ∃ extra : List (OpRec GOp GRet),
      (∀ e ∈ extra, pendingOf os e.tid = some (e.op, e.inv) ∧ e.res = os.length ∧
          lpRet (s.pc e.tid) = some e.ret) ∧
      extra.Pairwise (fun a b => a.tid ≠ b.tid) ∧
      Linearizable (bfifo (2 ^ k)) (historyOf os ++ extra) := by
  obtain ⟨g, hg, -, rfl, h2, h3, h4, -⟩ := run_ghost_init hk h
  obtain ⟨hlin, hex, hpw⟩ := ginv_linearizable hg
  have hkk : g.s.k = k := k_reachable k g.s ⟨sched, os, h⟩
  rw [h2, h3, h4] at *
  rw [hkk] at hlin
  exact ⟨_, hex, hpw, hlin⟩

/-- If no thread is between its linearization point and its return at the end of the run (threads may be idle or
    in the middle of an operation that has not taken effect), the history of the completed operations is
    linearizable as it is. -/
theorem vyukov_linearizable_no_effect_pending (k : Nat) (hk : 1 ≤ k) (sched : List (Tid × Act)) (s : St)
    (os : List (Tid × Obs)) (h : model.run (init k) sched = some (s, os)) (hq : ∀ t, lpRet (s.pc t) = none) :
    Linearizable (bfifo (2 ^ k)) (historyOf os) := by
  obtain ⟨extra, hex, -, hlin⟩ := vyukov_linearizable k hk sched s os h
  have : extra = [] := by
    apply List.eq_nil_iff_forall_not_mem.mpr
    intro e he
    have := (hex e he).2.2
    rw [hq] at this; simp at this
  simpa [this] using hlin

/-- Runs in which every invoked operation has returned. -/
theorem vyukov_linearizable_complete_runs (k : Nat) (hk : 1 ≤ k) (sched : List (Tid × Act)) (s : St)
    (os : List (Tid × Obs)) (h : model.run (init k) sched = some (s, os)) (hq : ∀ t, s.pc t = .idle) :
    Linearizable (bfifo (2 ^ k)) (historyOf os) :=
  vyukov_linearizable_no_effect_pending k hk sched s os h (fun t => by simp [hq t, lpRet])

/-- Every history record of a run is well formed (`inv < res`): the executable checker `linCheck` decides
    linearizability of such histories (`Lin.linCheck_iff`). -/
theorem historyOf_wf (os : List (Tid × Obs)) : ∀ r ∈ historyOf os, r.inv ≤ r.res :=
  fun r hr => Nat.le_of_lt (historyOf_sound os r hr).2.2

/-- **A failing operation saw a full / an empty queue.**  If a completed operation of a run returned `[0]`, there
    is an instant `j` strictly between its call (observation `r.inv`) and its return (observation `r.res`) such
    that in the state `s1` reached by the first `j` actions of the run the calling thread is about to perform the
    load that fixes the result, and at that instant the abstract queue is full (`FullAt`, for `enq`) resp. empty
    (`EmptyAt`, for `deq`). -/
theorem vyukov_fail_instant (k : Nat) (hk : 1 ≤ k) (sched : List (Tid × Act)) (s : St) (os : List (Tid × Obs))
    (h : model.run (init k) sched = some (s, os)) (r : OpRec GOp GRet) (hr : r ∈ historyOf os) (hret : r.ret = [0]) :
    ∃ j s1, r.inv < j ∧ j < r.res ∧ model.run (init k) (sched.take j) = some (s1, os.take j) ∧ s1.k = k ∧
      FailAt s1 r.tid ∧ opOf (s1.pc r.tid) = some r.op := by
  obtain ⟨g, -, he, -, h2, -, -, h5⟩ := run_ghost_init hk h
  obtain ⟨j, s1, e1, e2, e3, e4, e5⟩ := he.histemp r (h2 ▸ hr) hret
  rw [h5] at e3
  have hrun := statesOf_prefix sched (init k) s os j s1 h e3
  exact ⟨j, s1, e1, e2, hrun, k_reachable k s1 ⟨_, _, hrun⟩, e4, e5⟩

/-- A failed `enq`: at some instant inside the call the abstract queue held exactly `2^k` items. -/
theorem vyukov_full_hindsight (k : Nat) (hk : 1 ≤ k) (sched : List (Tid × Act)) (s : St) (os : List (Tid × Obs))
    (h : model.run (init k) sched = some (s, os)) (r : OpRec GOp GRet) (hr : r ∈ historyOf os)
    (v : Int) (hop : r.op = ⟨"enq", [v]⟩) (hret : r.ret = [0]) :
    ∃ j s1, r.inv < j ∧ j < r.res ∧ model.run (init k) (sched.take j) = some (s1, os.take j) ∧
      FullAt s1 r.tid ∧ (absQueue s1).length = 2 ^ k := by
  obtain ⟨j, s1, e1, e2, e3, e4, e5, e6⟩ := vyukov_fail_instant k hk sched s os h r hr hret
  refine ⟨j, s1, e1, e2, e3, ?_⟩
  rcases e5 with hf | ⟨p, hp, -⟩
  · refine ⟨hf, ?_⟩
    obtain ⟨v', p, -, -, -, hlen⟩ := hf
    rw [hlen, e4]; rfl
  · rw [hp, hop] at e6; simp [opOf] at e6

/-- A failed `deq`: at some instant inside the call the abstract queue was empty. -/
theorem vyukov_empty_hindsight (k : Nat) (hk : 1 ≤ k) (sched : List (Tid × Act)) (s : St) (os : List (Tid × Obs))
    (h : model.run (init k) sched = some (s, os)) (r : OpRec GOp GRet) (hr : r ∈ historyOf os)
    (hop : r.op = ⟨"deq", []⟩) (hret : r.ret = [0]) :
    ∃ j s1, r.inv < j ∧ j < r.res ∧ model.run (init k) (sched.take j) = some (s1, os.take j) ∧
      EmptyAt s1 r.tid ∧ absQueue s1 = [] := by
  obtain ⟨j, s1, e1, e2, e3, e4, e5, e6⟩ := vyukov_fail_instant k hk sched s os h r hr hret
  refine ⟨j, s1, e1, e2, e3, ?_⟩
  rcases e5 with ⟨v', p, hp, -⟩ | hf
  · rw [hp, hop] at e6; simp [opOf] at e6
  · refine ⟨hf, ?_⟩
    obtain ⟨p, -, -, -, hq⟩ := hf
    exact hq

end CdsVerif.Algo.Vyukov

"""Tie A for the flat-combining kernel: translate the trace of harness/clients/fckernel.cpp (`--trace 1`) into the
vocabulary of the Lean machine CdsVerif/Algo/FC/KernelR.lean (`cdsdriver replay fckernel`).

The pre-pass DROPS NOTHING and REORDERS NOTHING.  Every `T` line of the trace reaches the machine; the only rewriting
is lexical:

 R1  pointer values.  A pointer to a publication record is rendered by the harness with the name of the word at its
     address, which is the record's first member: `r<i>.req` / `head.req`.  In VALUE position (the value read by a
     load, both values of a CAS, the value stored) on a `.next` / `.nexta` location, and as the location of the
     pseudo-event `exec`, it becomes `r<i>` / `head`.  (`null` stays.)

Everything else is passed through unchanged: the header line (the client writes `threads= cf= pass=` itself), CALL / RET,
all atomic events on lock, m_nCount, r<i>.req/.state/.age/.next/.nexta, head.state/.next/.nexta, and the pseudo-event
`exec`.

`situations(text)` counts, on the UNTRANSLATED trace, the situations the tie exercises (used for the coverage report)."""
import re
import vlib

_PTR = re.compile(r"^(r\d+|head)\.req$")


def _p(v):
    m = _PTR.match(v)
    return m.group(1) if m else v


def fckernel_pre_block(block):
    out = []
    for l in block.split("\n"):
        w = l.split()
        if len(w) >= 5 and w[0] == "T" and w[2] == "A":
            kind, loc = w[3], w[4]
            if kind == "exec":
                w[4] = _p(loc)
            elif loc.endswith(".next") or loc.endswith(".nexta"):
                w[5:] = [_p(x) for x in w[5:]]
            out.append(" ".join(w))
        else:
            out.append(l)
    return "\n".join(out)


def fckernel_pre(text):
    out = []
    for cid, block in vlib.split_cases(text):
        out.append(fckernel_pre_block(block.rstrip("\n")))
    return "\n".join(out) + "\n"


def situations(text):
    """Counts over all cases of `text` (raw client output):
       deactivated_pending : compact_list stored `inactive` into a record whose nRequest was an operation id at that moment
       republish_under_lock: the lock holder read its own nState != active right after taking the lock and published again
       republish_in_wait   : a waiting owner read nState != active and published again
       passive_to_combiner : a thread whose first try_lock failed later took the lock with its request still pending
       passive_got_lock_but_served : … took the lock, found req_Response, unlocked
       empty_pass          : a combining pass that applied nothing
       link_cas_failed / unlink_cas_failed : a failed CAS on head.next in publish / on a pNext in compact_list
       served_by_other     : an operation whose request was executed by another thread
       cases / ops         : totals"""
    c = {k: 0 for k in ("cases", "ops", "deactivated_pending", "republish_under_lock", "republish_in_wait", "passive_to_combiner",
                        "passive_got_lock_but_served", "empty_pass", "link_cas_failed", "unlink_cas_failed", "served_by_other",
                        "combining_sessions", "compactions")}
    for cid, block in vlib.split_cases(text):
        c["cases"] += 1
        req = {}            # record -> last value stored in .req
        st = {}             # tid -> dict of per-operation flags
        for l in block.split("\n"):
            w = l.split()
            if len(w) < 3 or w[0] != "T":
                continue
            t = w[1]
            s = st.setdefault(t, {"failed_lock": False, "holds": False, "just_locked": False, "in_pass": False, "applied": 0, "waiting_state": False})
            if w[2] == "CALL":
                c["ops"] += 1
                s.update(failed_lock=False, holds=False, just_locked=False, in_pass=False, waiting_state=False)
                continue
            if w[2] != "A" or len(w) < 5:
                continue
            kind, loc = w[3], w[4]
            own = "r%s" % t
            if kind == "st" and loc.endswith(".req"):
                req[loc[:-4]] = w[5]
            if kind == "xchg" and loc == "lock":
                if w[5] == "1":
                    s["failed_lock"] = True
                else:
                    s["holds"] = True
                    s["just_locked"] = True
                    s["after_failed"] = s["failed_lock"]
                continue
            if s["just_locked"]:
                # first event after a successful try_lock
                if kind == "ld" and loc == own + ".req":          # passive thread: re-check of its request
                    if w[5] == "1":
                        c["passive_got_lock_but_served"] += 1
                        s["just_locked"] = False
                    else:
                        c["passive_to_combiner"] += 1
                    continue
                if kind == "ld" and loc == own + ".state":
                    if w[5] != "1":
                        c["republish_under_lock"] += 1
                    s["just_locked"] = False
                    continue
                s["just_locked"] = False
            if kind == "ld" and loc == own + ".state" and not s["holds"] and s["failed_lock"] and w[5] != "1":
                c["republish_in_wait"] += 1
            if kind == "add" and loc == "m_nCount":
                c["combining_sessions"] += 1
                s["in_pass"] = False
            if kind == "ld" and loc == "head.state":
                if s["in_pass"] and s["applied"] == 0:
                    c["empty_pass"] += 1
                s["in_pass"] = True
                s["applied"] = 0
            if kind == "exec":
                s["applied"] += 1
                if loc.split(".")[0] != own:
                    c["served_by_other"] += 1
            if kind == "ld" and loc == "head.next" and s["holds"] and s["in_pass"] and False:
                pass
            if kind == "ld" and loc.endswith(".next") and s["holds"] and s["in_pass"] and w[5] == "null":
                # end of a pass
                if s["applied"] == 0:
                    c["empty_pass"] += 1
                s["in_pass"] = False
            if kind == "ld" and loc == "head.nexta":
                c["compactions"] += 1
            if kind == "st" and loc.endswith(".state") and w[5] == "0":
                if req.get(loc[:-6]) == "2":
                    c["deactivated_pending"] += 1
            if kind == "cas-" and loc == "head.next" and not s["holds"]:
                c["link_cas_failed"] += 1
            elif kind == "cas-" and loc.endswith(".next"):
                if s["holds"] and not _in_publish(s):
                    c["unlink_cas_failed"] += 1
                else:
                    c["link_cas_failed"] += 1
            if kind == "st" and loc == "lock":
                s["holds"] = False
    return c


def _in_publish(s):
    return False


if __name__ == "__main__":
    import sys
    if len(sys.argv) > 1 and sys.argv[1] == "situations":
        print(situations(sys.stdin.read()))
    else:
        sys.stdout.write(fckernel_pre(sys.stdin.read()))

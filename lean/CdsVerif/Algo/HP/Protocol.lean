/-
  Atomic-step machine of the most general client of Michael's hazard-pointer protocol as libcds
  implements it (cds/gc/hp.h, src/hp.cpp).

  Real code mirrored (one `step` = one atomic operation on shared memory, or one thread-local action
  that changes the ghost/object state):

    Guard::protect( toGuard )                       (cds/gc/hp.h, class Guard)
        T pCur = toGuard.load( relaxed );                               -- protLd
        T pRet;
        do {
            pRet = pCur;
            assign( f( pCur ));        // guard_->set( p ): hp_.store( p, release ); tls()->sync()   -- protSt
            pCur = toGuard.load( acquire );                             -- protChk
        } while ( pRet != pCur );
        return pCur;

    Guard::clear()            assign( nullptr ): hp_.store( nullptr )   -- clearSt

    HP::retire( p )           if ( !tls()->retired_.push( retired_ptr( p, func ))) scan();
                              push: *cur = p; current_ = cur + 1; return cur + 1 < last_;   -- swapRet
                              (so a scan is started when the array has become full)

    basic_smr::classic_scan( pRec )                 (src/hp.cpp)
        for every thread record pNode, for i in 0 .. hazard_ptr_count-1:
            hptr = pNode->hazards_[i].get();  if ( hptr ) plist.push_back( hptr );          -- scanLd u g (one load per step)
        std::sort( plist );
        for every retired entry: binary_search( plist, it->m_p ) ? keep (compact) : it->free();
        retired.reset( kept );                                                             -- scanDecide (ONE local step)

  The decision of stage 2 is the pure function `classicScan` of `Algo/HP/Scan.lean` (tied to the real
  function by differential runs); it is applied in one step because it only touches the scanning thread's
  private plist / retired array and the objects it frees (which, by the theorem proved over this machine,
  nobody may access).

  The client.  Containers are abstracted as a set of shared cells `cells c : Option Ptr` (every link of every
  container is a cell).  The client operations are
      protect [g, c]   guard slot g := protect( cell c ); returns [0] (null) or [1, p]
      clear [g]        guard slot g := nullptr
      swap [c]         atomic exchange of cell c with a freshly allocated object; the old object, if any, is
                       then passed to retire()
      take [c]         atomic exchange of cell c with nullptr; the old object, if any, is then passed to retire()
      scan []          HP::scan()
      deref [g]        use the object that guard g protects (only enabled when the guard holds an object)
  RETIRE DISCIPLINE (the precondition of hazard pointers, built into `swap`/`take`): an object is retired
  only after it has been unlinked from the cell that held it, by the thread that unlinked it, once; an
  object is never stored into a cell again after it has been unlinked (objects are allocated by a counter
  and never reused), and an object is in at most one cell.

  Ghost state:
      guard t g = some p   a COMPLETED protect on slot g of thread t returned p, and the slot has not been
                           overwritten (by clear or by the store of a later protect) since;
      log                  the sequence of disposer calls.

  NOT modelled (stated, not hidden):
    * thread records are static: thread t (t < T) owns record t for the whole run; attach/detach
      (alloc_thread_data / free_thread_data), the `owner_rec_`/`free_` flags and `help_scan` are not modelled;
    * `inplace_scan` (the default strategy when all retired addresses are even) - only `classic_scan`;
    * memory ordering: the machine is sequentially consistent; the release store + `sync()` fence of `assign`
      and the relaxed/acquire loads are single SC steps;
    * `Guard::assign`/`copy` without validation (the caller's obligation "already protected by another guard"),
      `GuardArray`, `guarded_ptr`, marked pointers (`protect` with a conversion functor `f`);
    * objects that are reachable from several cells at once, and moving an object from one cell to another.
-/
import CdsVerif.Base.Machine
import CdsVerif.Algo.HP.Scan
namespace CdsVerif.Algo.HP.Protocol
open CdsVerif.Machine CdsVerif.Spec CdsVerif.Algo.HP

/-- Life cycle of an object: not yet allocated, allocated (linked in a cell, or unlinked and on its way to
    `retire`), passed to `retire` (in some thread's retired array), handed to its disposer. -/
inductive ObjSt
  | fresh | live | retired | disposed
deriving DecidableEq, Repr

/-- Configuration: `H` hazard slots per thread, `T` threads (thread ids `0 .. T-1`, thread `t` owns record `t`),
    `R` capacity of a retired array (`retire` starts a scan when the array has become full; with a large `R`
    scans only happen when the client calls `scan`). -/
structure Cfg where
  H : Nat
  T : Nat
  R : Nat
deriving DecidableEq, Repr

inductive PC
  | idle
  | protLd (g c : Nat)                               -- next: pCur = cell.load()
  | protSt (g c : Nat) (p : Option Ptr)              -- next: hazard slot g := p          (assign)
  | protChk (g c : Nat) (p : Option Ptr)             -- next: pCur = cell.load(); p = pCur ? return : again from protSt
  | clearSt (g : Nat)                                -- next: hazard slot g := nullptr
  | swapX (c : Nat) (alloc : Bool)                   -- next: cell.exchange( alloc ? new object : nullptr )
  | swapRet (p : Ptr) (r : GRet)                     -- next: retired_.push( p ) (p is unlinked, "in flight")
  | scanLd (u g : Nat) (acc : List Ptr) (r : GRet)   -- next: load hazard slot g of record u
  | scanDecide (acc : List Ptr) (r : GRet)           -- next: stage 2 of classic_scan on plist = acc
  | derefRd (g : Nat)                                -- next: use the object guard g protects
  | done (r : GRet)
deriving DecidableEq, Repr

structure St where
  cells : Nat → Option Ptr           -- shared links of the containers
  slots : Tid → Nat → Option Ptr     -- hazard slots: slots u g = hazards_[g] of record u
  obj : Ptr → ObjSt
  cnt : Nat                          -- next fresh object (starts at 1: 0 is the null address)
  retired : Tid → List Ptr           -- retired arrays
  pc : Tid → PC
  guard : Tid → Nat → Option Ptr     -- ghost
  log : List Ptr                     -- ghost: disposer calls, oldest first

def init : St :=
  ⟨fun _ => none, fun _ _ => none, fun _ => .fresh, 1, fun _ => [], fun _ => .idle, fun _ _ => none, []⟩

/-! ### Event rendering -/

def ptr : Option Ptr → String
  | none => "null"
  | some a => s!"o{a}"
def cellLoc (c : Nat) : String := s!"cell{c}"
def slotLoc (u g : Nat) : String := s!"hp{u}.{g}"
def objName : ObjSt → String
  | .fresh => "fresh" | .live => "live" | .retired => "retired" | .disposed => "disposed"
def objCode : ObjSt → Int
  | .fresh => 0 | .live => 1 | .retired => 2 | .disposed => 3

def evLd (loc : String) (v : Option Ptr) : Ev := ⟨"ld", loc, ptr v, ""⟩
def evSt (loc : String) (v : Option Ptr) : Ev := ⟨"st", loc, ptr v, ""⟩
def evXchg (loc : String) (old new : Option Ptr) : Ev := ⟨"xchg", loc, ptr old, ptr new⟩
/-- thread-local: `retired_.push( p )` -/
def evRetire (t : Tid) (p : Ptr) : Ev := ⟨"retire", s!"T{t}", ptr (some p), ""⟩
/-- thread-local: stage 2 of the scan; `a` lists the objects handed to the disposer -/
def evFree (t : Tid) (freed : List Ptr) : Ev := ⟨"free", s!"T{t}", toString freed, ""⟩
/-- the use of a guarded object: `a` is the state the object is observed in -/
def evUse (p : Ptr) (o : ObjSt) : Ev := ⟨"use", s!"o{p}", objName o, ""⟩

/-! ### Transitions -/

def retPtr : Option Ptr → GRet
  | none => [0]
  | some p => [1, p]

/-- first program counter of a scan -/
def scanStart (cfg : Cfg) (r : GRet) : PC :=
  if 0 < cfg.T ∧ 0 < cfg.H then .scanLd 0 0 [] r else .scanDecide [] r

/-- program counter after the load of slot `g` of record `u` -/
def scanNext (cfg : Cfg) (u g : Nat) (acc : List Ptr) (r : GRet) : PC :=
  if g + 1 < cfg.H then .scanLd u (g + 1) acc r
  else if u + 1 < cfg.T then .scanLd (u + 1) 0 acc r
  else .scanDecide acc r

/-- `if ( hptr ) plist.push_back( hptr )` -/
def collect (acc : List Ptr) : Option Ptr → List Ptr
  | none => acc
  | some p => acc ++ [p]

/-- Only threads that own a record (`t < T`) act; guard indices are below `H`. -/
def invoke (cfg : Cfg) (s : St) (t : Tid) (op : GOp) : Option St :=
  if t < cfg.T then
    match s.pc t, op.name, op.args with
    | .idle, "protect", [g, c] =>
      if g.toNat < cfg.H then some { s with pc := upd s.pc t (.protLd g.toNat c.toNat) } else none
    | .idle, "clear", [g] =>
      if g.toNat < cfg.H then some { s with pc := upd s.pc t (.clearSt g.toNat) } else none
    | .idle, "swap", [c] => some { s with pc := upd s.pc t (.swapX c.toNat true) }
    | .idle, "take", [c] => some { s with pc := upd s.pc t (.swapX c.toNat false) }
    | .idle, "scan", [] => some { s with pc := upd s.pc t (scanStart cfg []) }
    | .idle, "deref", [g] =>
      if (s.guard t g.toNat).isSome then some { s with pc := upd s.pc t (.derefRd g.toNat) } else none
    | _, _, _ => none
  else none

def step (cfg : Cfg) (s : St) (t : Tid) : Option (St × Ev) :=
  match s.pc t with
  | .protLd g c =>
    some ({ s with pc := upd s.pc t (.protSt g c (s.cells c)) }, evLd (cellLoc c) (s.cells c))
  | .protSt g c p =>
    some ({ s with slots := upd2 s.slots t g p, guard := upd2 s.guard t g none,
                   pc := upd s.pc t (.protChk g c p) }, evSt (slotLoc t g) p)
  | .protChk g c p =>
    if s.cells c = p then
      some ({ s with guard := upd2 s.guard t g p, pc := upd s.pc t (.done (retPtr p)) }, evLd (cellLoc c) p)
    else
      some ({ s with pc := upd s.pc t (.protSt g c (s.cells c)) }, evLd (cellLoc c) (s.cells c))
  | .clearSt g =>
    some ({ s with slots := upd2 s.slots t g none, guard := upd2 s.guard t g none,
                   pc := upd s.pc t (.done []) }, evSt (slotLoc t g) none)
  | .swapX c true =>
    let n := s.cnt
    let ev := evXchg (cellLoc c) (s.cells c) (some n)
    match s.cells c with
    | none =>
      some ({ s with cells := upd s.cells c (some n), obj := upd s.obj n .live, cnt := n + 1,
                     pc := upd s.pc t (.done [n, 0]) }, ev)
    | some p =>
      some ({ s with cells := upd s.cells c (some n), obj := upd s.obj n .live, cnt := n + 1,
                     pc := upd s.pc t (.swapRet p [n, p]) }, ev)
  | .swapX c false =>
    let ev := evXchg (cellLoc c) (s.cells c) none
    match s.cells c with
    | none => some ({ s with pc := upd s.pc t (.done [0]) }, ev)
    | some p => some ({ s with cells := upd s.cells c none, pc := upd s.pc t (.swapRet p [p]) }, ev)
  | .swapRet p r =>
    let rl := s.retired t ++ [p]
    some ({ s with retired := upd s.retired t rl, obj := upd s.obj p .retired,
                   pc := upd s.pc t (if rl.length < cfg.R then .done r else scanStart cfg r) }, evRetire t p)
  | .scanLd u g acc r =>
    some ({ s with pc := upd s.pc t (scanNext cfg u g (collect acc (s.slots u g)) r) },
          evLd (slotLoc u g) (s.slots u g))
  | .scanDecide acc r =>
    let kf := classicScan acc (s.retired t)
    some ({ s with retired := upd s.retired t kf.1,
                   obj := fun p => if p ∈ kf.2 then .disposed else s.obj p,
                   log := s.log ++ kf.2,
                   pc := upd s.pc t (.done r) }, evFree t kf.2)
  | .derefRd g =>
    match s.guard t g with
    | some p => some ({ s with pc := upd s.pc t (.done [objCode (s.obj p)]) }, evUse p (s.obj p))
    | none => none
  | _ => none

def result (s : St) (t : Tid) : Option (St × GRet) :=
  match s.pc t with
  | .done r => some ({ s with pc := upd s.pc t .idle }, r)
  | _ => none

def model (cfg : Cfg) : Model St := ⟨invoke cfg, step cfg, fun s t => result s t⟩

/-- The trace lines of a run. -/
def render (os : List (Tid × Obs)) : List String :=
  os.map fun (t, o) => match o with
    | .call op => s!"T {t} C {op.name} {op.args}"
    | .ev e => s!"T {t} A {e}"
    | .ret r => s!"T {t} R {r}"

end CdsVerif.Algo.HP.Protocol

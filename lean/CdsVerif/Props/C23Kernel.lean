/-
  C23 — flat-combining kernel: "every published request is executed exactly once, by one combiner at a time, and its
  requester observes the response only after execution; publication records left by exited threads are reclaimed and
  not accessed afterwards".

  Property theorems about the atomic-step model `Algo/FC/Kernel.lean` of cds/algo/flat_combining/kernel.h (see the
  header of that file for the program counters and for ALL modelling simplifications).  Every theorem quantifies over
  every configuration (number of threads `N`, compact factor, number of combining passes), every schedule and every
  client program.

  PROVED here:  C23_mutex, C23_exactly_once, C23_response_after_exec, C23_no_request_lost (safety form),
                C23_combiner_assert (the `assert( pRec->op() == req_Response )` of try_combining), plus `decide` runs.
  NOT covered:  * liveness ("a deactivated record's request is EVENTUALLY served"): only the safety form is proved - a
                  thread never returns with an unexecuted request - together with the two facts that make progress
                  possible (`C23_owner_republishes`, `C23_combiner_own_record`);
                * the last clause of C23 (records of exited threads are reclaimed and not accessed afterwards): thread
                  exit, `nState = removed` and the freeing loop of `compact_list` are not in the model;
                * `batch_combine` (elimination; its pure part is in Props/C10.lean and Props/C23Batch.lean).
-/
import CdsVerif.Algo.FC.KernelInv
namespace CdsVerif.Props.C23Kernel
open CdsVerif.Machine CdsVerif.Spec CdsVerif.Algo.FC.Kernel

/-! ### One combiner at a time -/

/-- At most one thread is between a successful `m_Mutex.try_lock()` and the matching `unlock()`: at most one
    combiner (`holds` lists the program counters of that region). -/
theorem C23_mutex (cfg : Cfg) (s : St) (h : (model cfg).Reachable init s) :
    ∀ t1 t2, holds (s.pc t1) = true → holds (s.pc t2) = true → t1 = t2 := by
  have hinv := kinv_reachable cfg s h
  intro t1 t2 h1 h2
  rw [hinv.hold t1 h1, hinv.hold t2 h2]

/-- … and the lock word is set while a thread is in that region. -/
theorem C23_lock_word (cfg : Cfg) (s : St) (h : (model cfg).Reachable init s) :
    ∀ t, holds (s.pc t) = true → s.lock = true := by
  have hinv := kinv_reachable cfg s h
  intro t ht
  cases hl : s.lock with
  | true => rfl
  | false => have := hinv.lockFree hl t; simp [ht] at this

/-- Requests are executed (`fc_apply`, ghost counter `execs`) and answered (store of req_Response) only by the
    thread that holds the lock; the only other change of the counter is the owner's reset when it stores a new request.
    (No reachability assumption: this is a property of the transition function.) -/
theorem C23_apply_by_combiner_only (cfg : Cfg) (s s' : St) (t : Tid) (ev : Ev) (k : Nat)
    (hs : step cfg s t = some (s', ev)) :
    (s'.execs k ≠ s.execs k →
        (s.pc t = .reqSt ∧ k = t ∧ s'.execs k = 0) ∨
        (holds (s.pc t) = true ∧ ∃ c, s.pc t = .cpAge c k ∧ s'.execs k = s.execs k + 1)) ∧
    (s.req k ≠ .resp → s'.req k = .resp → holds (s.pc t) = true ∧ ∃ c, s.pc t = .cpDone c k) := by
  cases hpc : s.pc t <;> simp only [step, hpc] at hs <;> (try split at hs) <;>
    simp only [Option.some.injEq, Prod.mk.injEq, reduceCtorEq] at hs <;>
    (try (obtain ⟨rfl, -⟩ := hs)) <;> (try exact hs.elim) <;> refine ⟨?_, ?_⟩ <;> intros <;> grind [upd, holds]

/-! ### Exactly once -/

/-- `execs r` counts the executions of the request instance currently stored in record `r` (reset by the owner's
    store of a new request).  In every reachable state it is never 2 (or more); a thread that has returned from
    `combine` (it is at `release_record`, `relSt`, or has finished, `done`) finds it exactly 1. -/
theorem C23_exactly_once (cfg : Cfg) (s : St) (h : (model cfg).Reachable init s) :
    (∀ r, s.execs r ≤ 1) ∧
    (∀ t, s.pc t = .relSt → s.execs t = 1) ∧
    (∀ t, s.pc t = .done → s.execs t = 1) := by
  have hinv := kinv_reachable cfg s h
  exact ⟨hinv.le1, fun t ht => hinv.respExec t (hinv.rel t ht), hinv.fin⟩

/-- While the request is pending (nRequest is an operation id) it has not been executed, unless the combiner is
    exactly between `fc_apply` and the store of req_Response for it. -/
theorem C23_pending_not_executed (cfg : Cfg) (s : St) (h : (model cfg).Reachable init s) :
    ∀ r, s.req r = .op → (∀ t c, s.pc t ≠ .cpDone c r) → s.execs r = 0 := by
  have hinv := kinv_reachable cfg s h
  intro r hr hno
  apply hinv.opExec r hr
  intro hd
  cases hp : s.pc s.holder <;> simp [hp, doneIdx] at hd
  rename_i c k
  subst hd
  exact hno _ _ hp

/-! ### The response is observed only after the execution -/

/-- (1) In every reachable state a record that carries req_Response has been executed (exactly once).
    (2) The store of req_Response into record `r` is performed only by the lock holder at `cpDone _ r`, and then
        `fc_apply` has already run for that request (`execs r = 1`).
    (3) A requester is at `release_record` - it has left `wait_for_combining` or `combining` - only with
        req_Response in its record; in particular (4) a step leaves the wait loop for `release_record` only by
        reading req_Response. -/
theorem C23_response_after_exec (cfg : Cfg) (s : St) (h : (model cfg).Reachable init s) :
    (∀ r, s.req r = .resp → s.execs r = 1) ∧
    (∀ s' t ev r, step cfg s t = some (s', ev) → s.req r ≠ .resp → s'.req r = .resp →
        holds (s.pc t) = true ∧ (∃ c, s.pc t = .cpDone c r) ∧ s.execs r = 1 ∧ s'.execs r = 1) ∧
    (∀ t, s.pc t = .relSt → s.req t = .resp ∧ s.execs t = 1) ∧
    (∀ s' t ev, step cfg s t = some (s', ev) → (s.pc t = .wtReq ∨ s.pc t = .wtReq2) →
        (s'.pc t = .relSt ∨ s'.pc t = .wtUnlock) → s.req t = .resp) := by
  have hinv := kinv_reachable cfg s h
  refine ⟨hinv.respExec, ?_, fun t ht => ⟨hinv.rel t ht, hinv.respExec t (hinv.rel t ht)⟩, ?_⟩
  · intro s' t ev r hs h1 h2
    obtain ⟨hh, c, hc⟩ := (C23_apply_by_combiner_only cfg s s' t ev r hs).2 h1 h2
    have he := (hinv.atDone t c r hc).2
    refine ⟨hh, ⟨c, hc⟩, he, ?_⟩
    simp only [step, hc, Option.some.injEq, Prod.mk.injEq] at hs
    obtain ⟨rfl, -⟩ := hs
    exact he
  · intro s' t ev hs hpc hpc'
    rcases hpc with hpc | hpc <;> simp only [step, hpc, Option.some.injEq, Prod.mk.injEq] at hs <;>
      obtain ⟨rfl, -⟩ := hs <;> by_cases hr : s.req t = .resp <;> simp_all

/-! ### No request is lost -/

/-- The `assert( pRec->op( relaxed ) == req_Response )` after `combining( owner )` in `try_combining` holds:
    when the combiner is through with its passes (compaction, unlock) its own request has been answered. -/
theorem C23_combiner_assert (cfg : Cfg) (s : St) (h : (model cfg).Reachable init s) :
    ∀ t, postPass (s.pc t) = true → s.req t = .resp ∧ s.execs t = 1 := by
  have hinv := kinv_reachable cfg s h
  exact fun t ht => ⟨hinv.post t ht, hinv.respExec t (hinv.post t ht)⟩

/-- Safety form of "no request is lost": a thread does not get past `combine` while its request is unprocessed.
    If thread `t` has stored a request that is still pending (`nRequest` = operation id), then `t` is neither at
    `release_record` nor finished, nor past the combining passes; and whenever it has returned, the request was
    executed exactly once. -/
theorem C23_no_request_lost (cfg : Cfg) (s : St) (h : (model cfg).Reachable init s) :
    (∀ t, s.req t = .op → s.pc t ≠ .relSt ∧ s.pc t ≠ .done ∧ s.pc t ≠ .idle ∧ s.pc t ≠ .wtUnlock ∧
        postPass (s.pc t) = false) ∧
    (∀ t, s.pc t = .done → s.execs t = 1 ∧ s.req t = .empty) := by
  have hinv := kinv_reachable cfg s h
  refine ⟨fun t ht => ⟨?_, ?_, ?_, ?_, ?_⟩, fun t ht => ⟨hinv.fin t ht, hinv.noReq t (by simp [ht, hasReq])⟩⟩
  · intro hp; have := hinv.rel t hp; simp [ht] at this
  · intro hp; have := hinv.noReq t (by simp [hp, hasReq]); simp [ht] at this
  · intro hp; have := hinv.noReq t (by simp [hp, hasReq]); simp [ht] at this
  · intro hp; have := hinv.wtUnl t hp; simp [ht] at this
  · cases hp : postPass (s.pc t) with
    | false => rfl
    | true => have := hinv.post t hp; simp [ht] at this

/-- A record deactivated by `compact_list` is re-published by its owner: the waiting owner that reads
    `nState != active` (in the wait loop, or under the lock it has just taken) goes through `publish`, after which the
    record is linked and active again. -/
theorem C23_owner_republishes (cfg : Cfg) (s s' : St) (t : Tid) (ev : Ev)
    (hs : step cfg s t = some (s', ev)) (hin : s.state t = .inactive) :
    (s.pc t = .wtState → s'.pc t = .pubCnt .wait) ∧
    (s.pc t = .lkRepub → s'.pc t = .pubCnt .lock) ∧
    (s.pc t = .acqLd → s'.pc t = .pubCnt .acq) := by
  refine ⟨?_, ?_, ?_⟩ <;> intro hpc <;> simp only [step, hpc, Option.some.injEq, Prod.mk.injEq] at hs <;>
    obtain ⟨rfl, -⟩ := hs <;> simp [hin]

/-- … and a thread that starts combining with a pending request has its OWN record linked and active (it has
    re-published it under the lock if necessary; nobody else can deactivate it meanwhile), so the first pass visits
    and serves it: this is why `C23_combiner_assert` holds even if the record was deactivated between the publication
    of the request and the lock acquisition. -/
theorem C23_combiner_own_record (cfg : Cfg) (s : St) (h : (model cfg).Reachable init s) :
    (∀ t, s.pc t = .cmbCnt → s.req t = .resp ∨ (s.inList t = true ∧ s.state t = .active)) ∧
    (∀ t c k, cpIdx (s.pc t) = some (c, k) →
        s.req t = .resp ∨ (c.pass = 0 ∧ k ≤ t ∧ t < cfg.N ∧ s.inList t = true ∧ s.state t = .active)) := by
  have hinv := kinv_reachable cfg s h
  refine ⟨hinv.cmb, fun t c k hk => ?_⟩
  rcases hinv.pass t c k hk with h1 | ⟨h1, h2, h3, h4⟩
  · exact Or.inl h1
  · refine Or.inr ⟨h1, h2, hinv.bound t ?_, h3, h4⟩
    intro hp; simp [hp, cpIdx] at hk

/-- An active record that is not linked is in one of the two short windows: its owner is about to link it, or the
    combiner has unlinked it and is about to store `inactive`. -/
theorem C23_active_unlinked_window (cfg : Cfg) (s : St) (h : (model cfg).Reachable init s) :
    ∀ r, s.state r = .active → s.inList r = false →
      (∃ c, s.pc r = .pubLink c) ∨ (∃ t a, holds (s.pc t) = true ∧ s.pc t = .ccInact a r) := by
  have hinv := kinv_reachable cfg s h
  intro r h1 h2
  rcases hinv.unlinked r h1 h2 with h3 | h3
  · left
    cases hp : s.pc r <;> simp [hp, isLink] at h3
    exact ⟨_, rfl⟩
  · right
    cases hp : s.pc s.holder <;> simp [hp, inactIdx] at h3
    rename_i a k
    subst h3
    exact ⟨s.holder, a, by simp [hp, holds], hp⟩

/-! ### Runs evaluated by the kernel (`decide`) -/

def steps (t : Tid) (n : Nat) : List (Tid × Act) := List.replicate n (t, .step)
def anyOp : GOp := ⟨"op", []⟩

/-- What the examples look at: lock, m_nCount, and for records 0 and 1: nRequest, nState, linked?, execs; the pcs. -/
def view (s : St) :=
  (s.lock, s.count, (s.req 0, s.req 1), (s.state 0, s.state 1), (s.inList 0, s.inList 1), (s.execs 0, s.execs 1),
   (s.pc 0, s.pc 1))

def runView (cfg : Cfg) (sched : List (Tid × Act)) := ((model cfg).run init sched).map (fun r => view r.1)

set_option synthInstance.maxSize 4000 in
/-- Two threads, ONE combiner session serves both.  Thread 1 publishes its record and stores its request; thread 0
    does the same, takes the lock; thread 1's `try_lock` fails, it waits; thread 0 walks the list once
    (`N = 2`, one pass, no compaction: `1 & 3 ≠ 0`), applies both requests, unlocks, returns; thread 1 reads
    req_Response and returns.  `m_nCount = 1`: there was one combining session; both requests were executed once. -/
example : runView ⟨2, 3, 1⟩
    ([(1, .invoke anyOp)] ++ steps 1 6 ++ [(0, .invoke anyOp)] ++ steps 0 7 ++ steps 1 1 ++ steps 0 15 ++ [(0, .ret)] ++
      steps 1 2 ++ [(1, .ret)]) =
    some (false, 1, (.empty, .empty), (.active, .active), (true, true), (1, 1), (.idle, .idle)) := by
  decide +kernel

set_option synthInstance.maxSize 4000 in
/-- … in the middle of that run: thread 0 is the combiner and has just applied and answered thread 1's request
    (`cpWalk _ 2`), thread 1 is still in its wait loop. -/
example : runView ⟨2, 3, 1⟩
    ([(1, .invoke anyOp)] ++ steps 1 6 ++ [(0, .invoke anyOp)] ++ steps 0 7 ++ steps 1 1 ++ steps 0 12) =
    some (true, 1, (.resp, .resp), (.active, .active), (true, true), (1, 1),
      (.cpWalk ⟨1, 0, 0, 0, true⟩ 2, .wtReq)) := by
  decide +kernel

set_option synthInstance.maxSize 4000 in
/-- A record deactivated between the publication of a request and the lock acquisition is still served.
    Compact factor mask 0 (compaction after every session, every record not served in it is deactivated).
    Thread 1 publishes its record (age 0) and stops just before storing its request.  Thread 0 runs a combining pass
    (record 1 is empty: skipped).  Thread 1 now stores its request.  Thread 0's `compact_list` finds record 1 old,
    unlinks and deactivates it - with the request pending - and thread 0 returns.  State: -/
example : runView ⟨2, 0, 1⟩
    ([(1, .invoke anyOp)] ++ steps 1 5 ++ [(0, .invoke anyOp)] ++ steps 0 18 ++ steps 1 1 ++ steps 0 11 ++ [(0, .ret)]) =
    some (false, 1, (.empty, .op), (.active, .inactive), (true, false), (1, 0), (.idle, .tryLock)) := by
  decide +kernel

set_option synthInstance.maxSize 4000 in
/-- … thread 1 then takes the lock, sees its record inactive and REPUBLISHES it under the lock … -/
example : runView ⟨2, 0, 1⟩
    ([(1, .invoke anyOp)] ++ steps 1 5 ++ [(0, .invoke anyOp)] ++ steps 0 18 ++ steps 1 1 ++ steps 0 11 ++ [(0, .ret)] ++
      steps 1 2) =
    some (true, 1, (.empty, .op), (.active, .inactive), (true, false), (1, 0), (.idle, .pubCnt .lock)) := by
  decide +kernel

set_option synthInstance.maxSize 4000 in
/-- … and serves itself: executed exactly once, record 1 linked and active again (record 0, now old, has been
    deactivated by thread 1's compaction in turn). -/
example : runView ⟨2, 0, 1⟩
    ([(1, .invoke anyOp)] ++ steps 1 5 ++ [(0, .invoke anyOp)] ++ steps 0 18 ++ steps 1 1 ++ steps 0 11 ++ [(0, .ret)] ++
      steps 1 27 ++ [(1, .ret)]) =
    some (false, 2, (.empty, .empty), (.inactive, .active), (false, true), (1, 1), (.idle, .idle)) := by
  decide +kernel

/-- A thread cannot return before it is served: asking for `ret` while waiting is not a run. -/
example : runView ⟨2, 3, 1⟩
    ([(1, .invoke anyOp)] ++ steps 1 6 ++ [(0, .invoke anyOp)] ++ steps 0 7 ++ steps 1 1 ++ [(1, .ret)]) = none := by
  decide +kernel

end CdsVerif.Props.C23Kernel

/-
  List-level facts used by the StripedSet proofs: what `Spec.mapStep` does to a bucket (shape, membership, key
  uniqueness), what the rehash does to the table (`rehash_find`, `rehash_count`, `rehash_place`, `rehash_uniq`), and
  the arithmetic of power-of-two capacities.
-/
import CdsVerif.Algo.Striped.Model
import CdsVerif.Base.LocalityMap
namespace CdsVerif.Algo.Striped
open CdsVerif.Machine CdsVerif.Spec

/-! ### Keys -/

/-- the items of `l` with key `k` -/
def withKey (k : Int) (l : MapSt) : MapSt := l.filter (fun e => e.1 == k)

/-- no key occurs twice in `l` -/
def KeyUniq (l : MapSt) : Prop := ∀ k, (withKey k l).length ≤ 1

theorem withKey_nil (k : Int) : withKey k [] = [] := rfl

theorem withKey_cons (k : Int) (e : Int × Int) (l : MapSt) :
    withKey k (e :: l) = if e.1 = k then e :: withKey k l else withKey k l := by
  simp only [withKey, List.filter_cons, beq_iff_eq]

theorem mem_withKey {k : Int} {l : MapSt} {e : Int × Int} : e ∈ withKey k l ↔ e ∈ l ∧ e.1 = k := by
  simp [withKey]

theorem mfind_withKey (l : MapSt) (k : Int) : mfind (withKey k l) k = mfind l k := by
  induction l with
  | nil => rfl
  | cons e l ih =>
    rw [withKey_cons]
    by_cases h : e.1 = k
    · simp only [h, if_true]
      obtain ⟨a, b⟩ := e
      simp only at h; subst h
      rw [mfind_cons, mfind_cons]; simp
    · simp only [h, if_false]
      obtain ⟨a, b⟩ := e
      rw [mfind_cons]; simp only at h; simp [h, ih]

theorem mfind_eq_none_iff (l : MapSt) (k : Int) : mfind l k = none ↔ withKey k l = [] := by
  induction l with
  | nil => simp [mfind, withKey]
  | cons e l ih =>
    obtain ⟨a, b⟩ := e
    rw [withKey_cons, mfind_cons]
    by_cases h : a = k <;> simp [h, ih]

theorem count_withKey (l : MapSt) (e : Int × Int) : (withKey e.1 l).count e = l.count e := by
  unfold withKey
  exact List.count_filter (by simp)

theorem withKey_merase (l : MapSt) (k k' : Int) : withKey k' (merase l k) = if k = k' then [] else withKey k' l := by
  unfold withKey merase
  rw [List.filter_filter]
  by_cases h : k = k'
  · subst h
    simp only [if_true]
    apply List.filter_eq_nil_iff.mpr
    intro e _; simp
  · simp only [h, if_false]
    apply List.filter_congr
    intro e _
    by_cases h2 : e.1 = k'
    · have h3 : ¬ e.1 = k := fun h3 => h (h3.symm.trans h2)
      simp only [h2, beq_self_eq_true, Bool.true_and, Bool.not_eq_eq_eq_not, Bool.not_true, beq_eq_false_iff_ne, ne_eq]
      rw [← h2]; exact h3
    · simp [h2]

theorem keyUniq_nodup {l : MapSt} (h : KeyUniq l) : (l.map (·.1)).Nodup := by
  induction l with
  | nil => exact List.nodup_nil
  | cons e l ih =>
    have hl : KeyUniq l := by
      intro k
      have := h k
      rw [withKey_cons] at this
      split at this <;> (try simp only [List.length_cons] at this) <;> omega
    rw [List.map_cons, List.nodup_cons]
    refine ⟨?_, ih hl⟩
    intro hm
    obtain ⟨e', he', heq⟩ := List.mem_map.mp hm
    have := h e.1
    rw [withKey_cons] at this
    simp only [if_true, List.length_cons] at this
    have hmem : e' ∈ withKey e.1 l := mem_withKey.mpr ⟨he', heq⟩
    have := List.length_pos_of_mem hmem
    omega

/-! ### The bucket operation -/

theorem okey_keyOf {op : GOp} {k : Int} (h : okey op = some k) : keyOf op = some k := by
  unfold okey at h
  split at h <;> simp at h
  all_goals (rename_i hn ha; subst h; simp [keyOf, hn, ha])

theorem keyD_of_okey {op : GOp} {k : Int} (h : okey op = some k) : keyD op = k := by simp [keyD, h]

/-- the four shapes of a bucket after one keyed operation -/
theorem mapStep_shape {m m' : MapSt} {op : GOp} {r : GRet} {k : Int} (hk : okey op = some k)
    (hs : mapStep m op = some (m', r)) :
    m' = m ∨ (∃ v, m' = (k, v) :: m ∧ mfind m k = none) ∨ (∃ v, m' = (k, v) :: merase m k) ∨ m' = merase m k := by
  unfold okey at hk
  split at hk <;> simp at hk
  all_goals (rename_i hn ha; subst hk; unfold mapStep at hs; simp only [hn, ha] at hs)
  all_goals (
    generalize hf : mfind m _ = cur at hs
    cases cur <;> (try simp only [] at hs)
    all_goals (try split at hs)
    all_goals (simp only [Option.some.injEq, Prod.mk.injEq] at hs; obtain ⟨rfl, rfl⟩ := hs)
    all_goals (first
      | (left; rfl)
      | (right; left; exact ⟨_, rfl, hf⟩)
      | (right; left; exact ⟨_, rfl, rfl⟩)
      | (right; right; left; exact ⟨_, rfl⟩)
      | (right; right; right; rfl)))

theorem mapStep_defined (m : MapSt) {op : GOp} {k : Int} (hk : okey op = some k) : ∃ m' r, mapStep m op = some (m', r) := by
  unfold okey at hk
  split at hk <;> simp at hk
  all_goals (rename_i hn ha; unfold mapStep; simp only [hn, ha])
  all_goals (
    generalize mfind m _ = cur
    cases cur <;> (try simp only [])
    all_goals (try split)
    all_goals exact ⟨_, _, rfl⟩)

theorem mapStep_mem {m m' : MapSt} {op : GOp} {r : GRet} {k : Int} (hk : okey op = some k)
    (hs : mapStep m op = some (m', r)) (e : Int × Int) (he : e ∈ m') : e ∈ m ∨ e.1 = k := by
  rcases mapStep_shape hk hs with rfl | ⟨v, rfl, -⟩ | ⟨v, rfl⟩ | rfl
  · exact Or.inl he
  · rcases List.mem_cons.mp he with rfl | h
    · exact Or.inr rfl
    · exact Or.inl h
  · rcases List.mem_cons.mp he with rfl | h
    · exact Or.inr rfl
    · exact Or.inl (List.mem_filter.mp h).1
  · exact Or.inl (List.mem_filter.mp he).1

theorem mapStep_uniq {m m' : MapSt} {op : GOp} {r : GRet} {k : Int} (hk : okey op = some k)
    (hs : mapStep m op = some (m', r)) (hu : KeyUniq m) : KeyUniq m' := by
  rcases mapStep_shape hk hs with rfl | ⟨v, rfl, hn⟩ | ⟨v, rfl⟩ | rfl
  · exact hu
  · intro k'
    rw [withKey_cons]
    by_cases h : k = k'
    · subst h
      simp only [if_true, List.length_cons, (mfind_eq_none_iff m k).mp hn]; simp
    · simp only [h, if_false]; exact hu k'
  · intro k'
    rw [withKey_cons, withKey_merase]
    by_cases h : k = k'
    · subst h; simp
    · simp only [h, if_false]; exact hu k'
  · intro k'
    rw [withKey_merase]
    by_cases h : k = k'
    · simp [h]
    · simp only [h, if_false]; exact hu k'

/-! ### The rehash -/

/-- placement: every item of bucket `b` hashes to `b` -/
def Placed (h : Int → Nat) (cap : Nat) (bkt : Nat → MapSt) : Prop := ∀ b e, e ∈ bkt b → h e.1 % cap = b

/-- The items with key `k` among the items of the buckets of an index list `L`: they all sit in bucket `h k % cap`. -/
theorem withKey_flatMap (h : Int → Nat) (cap : Nat) (bkt : Nat → MapSt) (hp : Placed h cap bkt) (k : Int) :
    ∀ (L : List Nat), L.Nodup →
      withKey k (L.flatMap bkt) = if h k % cap ∈ L then withKey k (bkt (h k % cap)) else [] := by
  intro L
  induction L with
  | nil => intro _; rfl
  | cons b L ih =>
    intro hnd
    have hnd' := List.nodup_cons.mp hnd
    have hcat : withKey k ((b :: L).flatMap bkt) = withKey k (bkt b) ++ withKey k (L.flatMap bkt) := by
      simp [withKey, List.flatMap_cons]
    rw [hcat, ih hnd'.2]
    by_cases hb : h k % cap = b
    · subst hb
      simp [hnd'.1]
    · have hnil : withKey k (bkt b) = [] := by
        apply List.filter_eq_nil_iff.mpr
        intro e he heq
        simp only [beq_iff_eq] at heq
        have := hp b e he
        rw [heq] at this; exact hb this
      have : (h k % cap ∈ b :: L) ↔ (h k % cap ∈ L) := by
        simp [hb]
      simp only [hnil, List.nil_append, this]

theorem withKey_allItems (h : Int → Nat) (cap : Nat) (bkt : Nat → MapSt) (hp : Placed h cap bkt) (hc : 0 < cap) (k : Int) :
    withKey k (allItems cap bkt) = withKey k (bkt (h k % cap)) := by
  unfold allItems
  rw [withKey_flatMap h cap bkt hp k (List.range cap) List.nodup_range]
  simp [Nat.mod_lt _ hc]

theorem withKey_rehash (h : Int → Nat) (cap newcap : Nat) (bkt : Nat → MapSt) (hp : Placed h cap bkt) (hc : 0 < cap)
    (hn : 0 < newcap) (k : Int) :
    withKey k (rehashOf h newcap (allItems cap bkt) (h k % newcap)) = withKey k (bkt (h k % cap)) := by
  unfold rehashOf
  simp only [Nat.mod_lt _ hn, if_true]
  rw [← withKey_allItems h cap bkt hp hc k]
  unfold withKey
  rw [List.filter_filter]
  apply List.filter_congr
  intro e _
  by_cases he : e.1 = k
  · simp [he]
  · simp [he]

/-- A resize does not change what a lookup of any key finds. -/
theorem rehash_find (h : Int → Nat) (cap newcap : Nat) (bkt : Nat → MapSt) (hp : Placed h cap bkt) (hc : 0 < cap)
    (hn : 0 < newcap) (k : Int) :
    mfind (rehashOf h newcap (allItems cap bkt) (h k % newcap)) k = mfind (bkt (h k % cap)) k := by
  rw [← mfind_withKey, withKey_rehash h cap newcap bkt hp hc hn, mfind_withKey]

/-- No item is lost or duplicated by a resize: every item occurs in its new bucket exactly as often as it occurred
    in its old bucket. -/
theorem rehash_count (h : Int → Nat) (cap newcap : Nat) (bkt : Nat → MapSt) (hp : Placed h cap bkt) (hc : 0 < cap)
    (hn : 0 < newcap) (e : Int × Int) :
    (rehashOf h newcap (allItems cap bkt) (h e.1 % newcap)).count e = (bkt (h e.1 % cap)).count e := by
  rw [← count_withKey, withKey_rehash h cap newcap bkt hp hc hn, count_withKey]

theorem rehash_place (h : Int → Nat) (oc newcap : Nat) (bkt : Nat → MapSt) : Placed h newcap (rehashOf h newcap (allItems oc bkt)) := by
  intro b e he
  unfold rehashOf at he
  split at he
  · have := (List.mem_filter.mp he).2
    simpa using this
  · simp at he

theorem rehash_uniq (h : Int → Nat) (cap newcap : Nat) (bkt : Nat → MapSt) (hp : Placed h cap bkt) (hc : 0 < cap)
    (hn : 0 < newcap) (hu : ∀ b, KeyUniq (bkt b)) : ∀ b, KeyUniq (rehashOf h newcap (allItems cap bkt) b) := by
  intro b k
  by_cases hb : h k % newcap = b
  · subst hb
    rw [withKey_rehash h cap newcap bkt hp hc hn]
    exact hu _ k
  · have : withKey k (rehashOf h newcap (allItems cap bkt) b) = [] := by
      apply List.filter_eq_nil_iff.mpr
      intro e he heq
      simp only [beq_iff_eq] at heq
      have := rehash_place h cap newcap bkt b e he
      rw [heq] at this; exact hb this
    rw [this]; simp

/-- the items outside the table: buckets beyond the capacity are empty -/
theorem placed_empty {h : Int → Nat} {cap : Nat} {bkt : Nat → MapSt} (hp : Placed h cap bkt) (hc : 0 < cap)
    (b : Nat) (hb : cap ≤ b) : bkt b = [] := by
  apply List.eq_nil_iff_forall_not_mem.mpr
  intro e he
  have := hp b e he
  have := Nat.mod_lt (h e.1) hc
  omega

/-! ### Power-of-two capacities: the code's `nHash & ( capacity - 1 )` is the model's `nHash % capacity` -/

theorem and_mask_eq_mod (x e : Nat) : x &&& (2 ^ e - 1) = x % 2 ^ e := Nat.and_two_pow_sub_one_eq_mod x e

/-- the lock of a striping cell guards all buckets congruent to it: `( x % cap ) % n = x % n` when `n ∣ cap` -/
theorem mod_mod_dvd (x n cap : Nat) (h : n ∣ cap) : x % cap % n = x % n := Nat.mod_mod_of_dvd x h

end CdsVerif.Algo.Striped

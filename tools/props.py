"""Per-property check definitions.  TABLE maps a property id to (level, function)."""
import json
import os
import re
import subprocess

import vlib
import steps
from steps import lean_step, tie_H, tie_A, TRUSTED_COMMON


def base_cov(res, modelled_not_verified, partial=()):
    res.cov["trusted_base"] = TRUSTED_COMMON + ["modelled, not verified: " + m for m in modelled_not_verified]
    res.cov["partial_statements"] = list(partial)
    res.cov["rule"] = ("cases = (client program, schedule) pairs generated from VERIF_SEED by splitmix64; "
                       "distinct = distinct (variant, hash of the (thread, kind, location) sequence of atomic operations); "
                       "non-trivial = the execution contains at least one failed CAS or one back-off (a contended step)")
    res.assumptions = ["SC interleavings only", "data-race freedom of non-atomic fields"]


def c09(res, thorough):
    base_cov(res, ["memory orders", "back-off timing", "allocators of container:: wrappers", "FC wait strategies other than backoff"],
             partial=[])
    lean_step(res, "CdsVerif.Props.C09", thorough)
    n = 20000 if thorough else 1500
    tie_H(res, "stack", [
        {"args": ["--mode", "mixed", "--threads", "3", "--ops", "4"], "cases": n},
        {"args": ["--mode", "enum2" if thorough else "enum1", "--threads", "2", "--ops", "3"], "cases": 30 if thorough else 12},
    ])


def c25(res, thorough):
    import purespec
    base_cov(res, ["inline-asm bsr/bsf variants of MSB/LSB are tied to the translated portable model by differential runs only",
                   "big-endian branches (not compiled on amd64)", "splitter classes are hand models tied by differential runs; number_splitter::cut, eos, rest_count are translated"])
    res.cov["rule"] = ("inputs: all values for <=16-bit domains, boundary patterns (0, all-ones, 2^k, 2^k+-1, ~2^k, alternating) and seeded random words of varying bit density "
                       "for 32/64-bit functions; cut-width sequences: random compositions of the source width, mixed cut/safe_cut sequences around and past the end, all compositions of 8- and 16-bit sources; "
                       "distinct = distinct input lines; every input is non-trivial (each exercises the full function)")
    steps.regenerate(res)
    lean_step(res, ["CdsVerif.Props.C25", "CdsVerif.Props.C25Splitters"], thorough, extra_allowed=BV_AXIOMS("C25"))
    n = 20000 if thorough else 1500
    exe = steps.build_pure("bits", ["bits.cpp", "bits_generic.cpp"])
    steps.tie_D(res, exe, [str(res.seed), str(n)], ["eval"], purespec.compare_eval, "bits")
    exe2 = steps.build_pure("splitters", ["splitters.cpp"])
    steps.tie_D(res, exe2, ["splitters", str(res.seed), str(2000 if thorough else 150)] + (["full"] if thorough else []), ["seqeval"], purespec.compare_seq, "splitters")


def c22(res, thorough):
    base_cov(res, ["memory orders of the lock word", "reentrant_spin_lock, pool_monitor, injecting_monitor and lock_array have no atomic-step model yet: decided by the history tie and the client's occupancy / pool oracles only",
                   "back-off timing"],
             partial=["reentrant release-by-last-unlock, pool_monitor lock return/uniqueness: oracle-checked on explored schedules, not yet theorems"])
    lean_step(res, "CdsVerif.Props.C22", thorough)
    n = 20000 if thorough else 2000
    tie_A(res, "locks", "spin", [{"args": ["--mode", "mixed", "--threads", "4", "--ops", "5", "--variant", "spin"], "cases": n // 2},
                                 {"args": ["--mode", "enum2" if thorough else "enum1", "--threads", "2", "--ops", "3", "--variant", "spin"], "cases": 20 if thorough else 8}])
    tie_H(res, "locks", [{"args": ["--mode", "mixed", "--threads", "4", "--ops", "5"], "cases": n},
                         {"args": ["--mode", "enum2" if thorough else "enum1", "--threads", "2", "--ops", "3"], "cases": 25 if thorough else 10}])


def c26(res, thorough):
    import purespec
    base_cov(res, ["the counter class is a hand model (30 lines) tied to the real class by differential runs; its per-bit primitive complement64 is translated",
                   "counter wrap-around at 2^64 (theorems are stated for n < 2^63)"])
    res.cov["rule"] = ("operation sequences: every Dyck-like prefix (never more decrements than increments) of length 14 (thorough 18), seeded random walks of length 20..420 with varying drift, "
                       "one climb to 3000 and back; distinct = distinct sequences; every sequence is non-trivial (each checks the closed form after every inc and the undo after every dec)")
    steps.regenerate(res)
    lean_step(res, "CdsVerif.Props.C26", thorough)
    exe = steps.build_pure("splitters", ["splitters.cpp"])
    steps.tie_D(res, exe, ["counter", str(res.seed), str(3000 if thorough else 300), "18" if thorough else "14"], ["seqeval"], purespec.compare_seq, "counter")
    # the literal statement ("first n slots are a permutation of 1..n for every n") is false by design of the
    # Hunt heap: proved as C26_literal_false, replayed here on the implementation
    rows = steps.tie_D(res, exe, ["counter", "0", "0", "5"], ["seqeval"], lambda i, a, b: None, "counter-literal")
    for inp, impl, model in rows:
        if inp.split()[1:] == ["i"] * 5:
            slots = sorted(int(v.split("/")[0]) for v in impl)
            if slots != [1, 2, 3, 4, 5]:
                res.violation("counter:literal-permutation:n=5", {"kind": "pure-input", "input": inp, "impl": impl,
                                                                     "why": "first 5 slots are %s, not a permutation of 1..5" % slots})


def c27(res, thorough):
    import purespec
    base_cov(res, ["bucket_no reads the table-size logarithm from an atomic member: it is a parameter of the translated function",
                   "the rcu and nogc specialisations of SplitListSet carry textual copies of bucket_no/parent_bucket; the translation reads the HP/DHP one, the differential run calls it too"])
    res.cov["rule"] = ("inputs: seeded random 64-bit hashes of varying magnitude, single bits and low-bit masks, x table-size logarithms 0,1,30..33,63 and i mod 64; "
                       "distinct = distinct (function, input) lines; all are non-trivial")
    steps.regenerate(res)
    lean_step(res, "CdsVerif.Props.C27", thorough, extra_allowed=BV_AXIOMS("C27"))
    exe = steps.build_pure("splitorder", ["splitorder.cpp"], with_libcds=True)
    steps.tie_D(res, exe, [str(res.seed), str(20000 if thorough else 1500)], ["eval"], purespec.compare_eval, "splitorder")


def c28(res, thorough):
    import purespec
    base_cov(res, ["split_bitstring / byte_splitter are hand models tied by differential runs; number_splitter members and metrics::make are translated",
                   "the traversal of the multi-level array itself (concurrent part) belongs to C14; here the addressing function only",
                   "head widths above 32 with a byte-array hash (split_bitstring's unsigned result) and head width 64 (size_t(1)<<64) are outside the defined domain: witnesses proved in Props/C28"])
    res.cov["rule"] = ("all configurations head_bits 0..hash_bits x array_bits 0..16 x hash sizes 1,2,4,8 (exhaustive); cut sequences as in C25; "
                       "families of distinct hashes sharing prefixes of every length inserted into a real FeldmanHashSet at random small widths; distinct = distinct input lines; all non-trivial")
    res.cov["exhaustive"] = True
    steps.regenerate(res)
    lean_step(res, ["CdsVerif.Props.C28", "CdsVerif.Props.C25Splitters"], thorough)
    exe = steps.build_pure("feldman", ["feldman.cpp"], with_libcds=True)
    steps.tie_D(res, exe, [str(res.seed), str(200 if thorough else 15)], ["eval"], purespec.compare_feldman, "feldman")
    exe2 = steps.build_pure("splitters", ["splitters.cpp"])
    steps.tie_D(res, exe2, ["splitters", str(res.seed), str(1000 if thorough else 80)], ["seqeval"], purespec.compare_seq, "splitters")


def BV_AXIOMS(prop):
    """Per-property allow-list of bv_decide axioms (named in the evidence)."""
    p = os.path.join(vlib.VERIF, "tools", "bv_axioms.json")
    if os.path.exists(p):
        return json.load(open(p)).get(prop, [])
    return []


TABLE = {
    "C25": ("proof", c25),
    "C22": ("proof", c22),
    "C26": ("proof", c26),
    "C27": ("proof", c27),
    "C28": ("proof", c28),
    "C09": ("translation_validation", c09),
}


def replay(prop, path):
    obj = json.load(open(path))
    kind = obj.get("kind")
    if kind in ("failing-history", "hang", "oracle"):
        exe = vlib.build_client(obj["client"])
        args = [a for a in obj["args"]]
        # drop the mode, use the recorded schedule
        cid = str(obj["case"]).split(".")[0]
        cmd = [exe, "--seed", str(obj["seed"])] + args + ["--first", cid, "--cases", "1", "--replay", obj["schedule"], "--trace", "1"]
        p = subprocess.run(cmd, capture_output=True, text=True, timeout=120)
        print(p.stdout[-6000:])
        if p.returncode != 0:
            print("replay: run ended with status", p.returncode)
            return 1
        v = vlib.driver(["lincheck"], p.stdout)
        print(v)
        bad = "NOTLIN" in v or re.search(r"^X ", p.stdout, flags=re.M)
        return 1 if bad else 0
    print(json.dumps(obj, indent=1)[:4000])
    print("replay: this replay names a proof/audit/correspondence obligation; re-run ./check %s" % prop)
    return 1

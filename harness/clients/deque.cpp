// Flat-combining deque: cds::container::FCDeque over std::deque and boost::container::deque,
// elimination off / on.  History is judged against Spec.deque.
#include <cds/init.h>
#include <cds/gc/hp.h>
#include <cds/gc/dhp.h>
#include <cds/container/fcdeque.h>
#include <boost/container/deque.hpp>
#include <deque>
#include <memory>
#include "../client.h"

using namespace khizmax_libcds_verif;
namespace cc = cds::container;

// ---------------------------------------------------------------- flat-combining publication records
// Thread exit and the FC kernel.  Each thread owns a publication record through a
// boost::thread_specific_ptr; when the thread ends the TLS cleanup marks the record `removed`.
// Left to the OS this happens after the thread has handed the baton over, i.e. concurrently with
// the next scheduled thread and invisible to the scheduler (nondeterministic).  The fixture
// therefore releases the TLS slot in thread_end(), under the baton, as an ordinary scheduling point
// (`--fc_tls_in_baton 0` restores the OS behaviour).
// The kernel's allocator is replaced by one that never returns memory while the container lives
// (freed records stay readable) and that reports a record which is freed while it is still
// reachable from the publication list: that is a use-after-free in libcds, reported as an X line.
namespace fcwatch {
    static std::vector<void*> quarantine;
    static void const* kernel = nullptr;
    static bool (*linked_fn)( void const* kernel, void const* rec ) = nullptr;
    static unsigned long freed_linked = 0;

    template <class Kernel>
    bool is_linked( void const* k, void const* rec )
    {
        Kernel const* kk = static_cast<Kernel const*>( k );
        for ( cds::algo::flat_combining::publication_record* r = kk->m_pHead; r; r = r->pNext.load( atomics::memory_order_relaxed ))
            if ( static_cast<void const*>( static_cast<typename Kernel::publication_record_type*>( r )) == rec )
                return true;
        return false;
    }
    template <class Kernel>
    void watch( Kernel* k ) { kernel = k; linked_fn = &is_linked<Kernel>; freed_linked = 0; }
    inline void unwatch() { kernel = nullptr; linked_fn = nullptr; }
    inline void release()
    {
        for ( void* p : quarantine ) ::operator delete( p );
        quarantine.clear();
    }

    template <class T>
    struct alloc {
        typedef T value_type;
        template <class U> struct rebind { typedef alloc<U> other; };
        alloc() noexcept {}
        template <class U> alloc( alloc<U> const& ) noexcept {}
        T* allocate( size_t n, void const* = nullptr ) { return static_cast<T*>( ::operator new( n * sizeof( T ))); }
        void deallocate( T* p, size_t ) noexcept
        {
            if ( linked_fn ) {
                set_quiet( true );      // the walk below must not be a scheduling point (never called from a quiet region)
                if ( linked_fn( kernel, p )) ++freed_linked;
                set_quiet( false );
            }
            quarantine.push_back( p );
        }
        template <class U> bool operator==( alloc<U> const& ) const noexcept { return true; }
        template <class U> bool operator!=( alloc<U> const& ) const noexcept { return false; }
    };
}

struct IDeque {
    virtual ~IDeque() {}
    virtual void thread_exit() {}      // scheduled thread, last action: release per-thread state of the container
    virtual bool push_front( long v ) = 0;
    virtual bool push_back( long v ) = 0;
    virtual bool pop_front( long& v ) = 0;
    virtual bool pop_back( long& v ) = 0;
};

template <class Impl, bool Elim>
struct FCDequeV : IDeque {
    struct traits : cc::fcdeque::traits {
        static constexpr bool const enable_elimination = Elim;
        typedef cds::algo::flat_combining::wait_strategy::backoff<> wait_strategy;
        typedef cds::sync::spin lock_type;
        typedef fcwatch::alloc<int> allocator;
    };
    typedef cc::FCDeque<long, Impl, traits> deque_t;
    std::unique_ptr<deque_t> d;
    FCDequeV( unsigned compact, unsigned pass ) : d( new deque_t( compact, pass )) { fcwatch::watch( &d->m_FlatCombining ); }
    ~FCDequeV()
    {
        fcwatch::unwatch();
        d.reset();
        fcwatch::release();
    }
    void thread_exit() override { d->m_FlatCombining.m_pThreadRec.reset(); }      // runs the kernel's tls_cleanup
    // odd values go through the copying overload, even values through the moving one
    bool push_front( long v ) override
    {
        if ( v & 1 ) return d->push_front( v );
        long tmp = v;
        return d->push_front( std::move( tmp ));
    }
    bool push_back( long v ) override
    {
        if ( v & 1 ) return d->push_back( v );
        long tmp = v;
        return d->push_back( std::move( tmp ));
    }
    bool pop_front( long& v ) override { return d->pop_front( v ); }
    bool pop_back( long& v ) override { return d->pop_back( v ); }
};

struct Fixture {
    static char const* family() { return "deque"; }
    static std::vector<std::string> variants()
    {
        return { "fcdeque_std", "fcdeque_std_elim", "fcdeque_boost", "fcdeque_boost_elim" };
    }
    std::unique_ptr<IDeque> s;
    bool failed = false;
    std::string failure;
    bool tls_in_baton = true;

    explicit Fixture( Case const& c )
    {
        tls_in_baton = c.optl( "fc_tls_in_baton", 1 ) != 0;
        unsigned compact = 1 + unsigned( c.index % 2 ), pass = 1 + unsigned(( c.index / 2 ) % 4 );
        std::string const& v = c.variant;
        if ( v == "fcdeque_std" ) s.reset( new FCDequeV<std::deque<long>, false>( compact, pass ));
        else if ( v == "fcdeque_std_elim" ) s.reset( new FCDequeV<std::deque<long>, true>( compact, pass ));
        else if ( v == "fcdeque_boost" ) s.reset( new FCDequeV<boost::container::deque<long>, false>( compact, pass ));
        else if ( v == "fcdeque_boost_elim" ) s.reset( new FCDequeV<boost::container::deque<long>, true>( compact, pass ));
        else { std::fprintf( stderr, "unknown variant %s\n", v.c_str()); std::exit( 2 ); }
    }
    std::string spec() const { return "deque"; }

    std::vector<std::vector<Op>> program( Rng& r, int nthreads, int nops )
    {
        std::vector<std::vector<Op>> p( nthreads );
        std::vector<int> cnt( nthreads );
        int total = 0;
        for ( int t = 0; t < nthreads; ++t ) { cnt[t] = 1 + int( r.below( nops )); total += cnt[t]; }
        while ( total > 14 ) {
            int big = 0;
            for ( int t = 1; t < nthreads; ++t ) if ( cnt[t] > cnt[big] ) big = t;
            --cnt[big]; --total;
        }
        long v = 1;
        unsigned push_pct = 40 + unsigned( r.below( 30 ));
        unsigned front_pct = 20 + unsigned( r.below( 61 ));     // which end is busier
        for ( int t = 0; t < nthreads; ++t )
            for ( int i = 0; i < cnt[t]; ++i ) {
                bool front = r.chance( front_pct );
                if ( r.chance( push_pct )) p[t].push_back( Op( front ? "push_front" : "push_back", v++ ));
                else p[t].push_back( Op( front ? "pop_front" : "pop_back" ));
            }
        return p;
    }
    void thread_begin( int ) { set_quiet( true ); cds::threading::Manager::attachThread(); set_quiet( false ); }
    void thread_end( int )
    {
        if ( tls_in_baton )
            s->thread_exit();
        set_quiet( true ); cds::threading::Manager::detachThread(); set_quiet( false );
    }
    std::vector<long> exec( int, Op const& op )
    {
        if ( op.name == "push_front" ) return { s->push_front( op.args[0] ) ? 1L : 0L };
        if ( op.name == "push_back" ) return { s->push_back( op.args[0] ) ? 1L : 0L };
        long v = 0;
        bool ok = op.name == "pop_front" ? s->pop_front( v ) : s->pop_back( v );
        if ( ok ) return { 1, v };
        return { 0 };
    }
    void finish( std::ostream& out )
    {
        // sequential drain by the main thread (alternating ends) after every scheduled operation
        uint64_t t = 1000000;
        for ( int guard = 0; guard < 64; ++guard ) {
            long v = 0;
            bool front = ( guard % 2 ) == 0;
            bool ok = front ? s->pop_front( v ) : s->pop_back( v );
            out << "O 91 " << t << ' ' << t + 1 << ( front ? " pop_front :" : " pop_back :" );
            if ( ok ) out << " 1 " << v << '\n'; else out << " 0\n";
            t += 2;
            if ( !ok ) break;
        }
        if ( fcwatch::freed_linked ) {
            failed = true;
            std::ostringstream os;
            os << "flat combining: " << fcwatch::freed_linked << " publication record(s) freed while still linked in the publication list";
            failure = os.str();
        }
    }
};

int main( int argc, char** argv )
{
    cds::Initialize();
    {
        cds::gc::HP hp( 8, 16 );
        cds::gc::DHP dhp;
        cds::threading::Manager::attachThread();
        int rc = client_main<Fixture>( argc, argv );
        cds::threading::Manager::detachThread();
        (void) rc;
    }
    cds::Terminate();
    return 0;
}

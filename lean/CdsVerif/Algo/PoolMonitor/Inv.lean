/-
  Inductive invariant of the pool monitor model.

  Spin bit        sb1 sb2 : `sbit n` is exactly the thread inside a spin-bit section of node `n` (pc `lkSt` / `unSt`);
                  rs0 rs1 : m_RefSpin = 2 * (number of users) + (1 if the spin bit is held)   -- the counting invariant
  Users           und um ucs uref : `users n` is a duplicate-free list of exactly the threads that are inside the
                  critical section of `n` or at a program counter between the reference increment and decrement
  Program points  ncs pCasL pCasU pStL pStU pTas pWait pRel
  Attachment      att : a lock id is attached to at most one node;  pnd pfree pown pfr : the free pool is duplicate-free and
                  its ids are attached to no node, held by nobody and below `fresh`;  afr ofr : never-used ids are unattached
                  and unheld;  f* : a detached lock on its way back to the pool is nowhere else
  Pool locks      lh0 lh1 : the lock word is set exactly when there is an owner;  lcs csa cso : the owner of the lock attached
                  to node `n` is exactly the thread inside the critical section of `n`
  Lazy attach     pn : a node without a lock has no user except the one thread that is about to attach one (and that thread
                  saw reference count 0: the `assert( cur == 0 )` of the source);  un : a node without users has no lock
-/
import CdsVerif.Algo.PoolMonitor.Model
namespace CdsVerif.Algo.PoolMonitor
open CdsVerif.Machine CdsVerif.Spec

/-- The node whose spin bit the thread holds. -/
def spinNode : PC → Option Nat
  | .idle => none
  | .lkLd _ => none
  | .lkCas _ _ => none
  | .lkSt n _ => some n
  | .lkTas _ _ => none
  | .lkWait _ _ => none
  | .unRel _ => none
  | .unLd _ => none
  | .unCas _ _ => none
  | .unSt n _ => some n
  | .fin _ => none
  | .done _ => none

/-- The node on which the thread holds a reference while being inside `lock` / `unlock` and outside the critical section. -/
def refNode : PC → Option Nat
  | .idle => none
  | .lkLd _ => none
  | .lkCas _ _ => none
  | .lkSt n _ => some n
  | .lkTas n _ => some n
  | .lkWait n _ => some n
  | .unRel _ => none
  | .unLd n => some n
  | .unCas n _ => some n
  | .unSt n _ => some n
  | .fin _ => none
  | .done _ => none

/-- The node the thread is operating on while outside its critical section. -/
def opNode : PC → Option Nat
  | .idle => none
  | .lkLd n => some n
  | .lkCas n _ => some n
  | .lkSt n _ => some n
  | .lkTas n _ => some n
  | .lkWait n _ => some n
  | .unRel _ => none
  | .unLd n => some n
  | .unCas n _ => some n
  | .unSt n _ => some n
  | .fin _ => none
  | .done _ => none

structure PInv (s : St) : Prop where
  sb1 : ∀ n t, s.sbit n = some t → spinNode (s.pc t) = some n
  sb2 : ∀ n t, spinNode (s.pc t) = some n → s.sbit n = some t
  rs0 : ∀ n, s.sbit n = none → s.refspin n = 2 * (s.users n).length
  rs1 : ∀ n t, s.sbit n = some t → s.refspin n = 2 * (s.users n).length + 1
  und : ∀ n, (s.users n).Nodup
  um : ∀ n t, t ∈ s.users n → s.cs t n = true ∨ refNode (s.pc t) = some n
  ucs : ∀ n t, s.cs t n = true → t ∈ s.users n
  uref : ∀ n t, refNode (s.pc t) = some n → t ∈ s.users n
  ncs : ∀ n t, opNode (s.pc t) = some n → s.cs t n = false
  pCasL : ∀ t n c, s.pc t = .lkCas n c → c % 2 = 0
  pCasU : ∀ t n c, s.pc t = .unCas n c → c % 2 = 0
  pStL : ∀ t n c, s.pc t = .lkSt n c → s.refspin n = c + 3
  pStU : ∀ t n c, s.pc t = .unSt n c → s.refspin n = c + 1
  pTas : ∀ t n k, s.pc t = .lkTas n k → s.plock n = some k
  pWait : ∀ t n k, s.pc t = .lkWait n k → s.plock n = some k
  pRel : ∀ t n, s.pc t = .unRel n → s.cs t n = true
  att : ∀ n1 n2 k, s.plock n1 = some k → s.plock n2 = some k → n1 = n2
  pnd : s.pool.Nodup
  pfree : ∀ k n, k ∈ s.pool → s.plock n ≠ some k
  pown : ∀ k, k ∈ s.pool → s.lowner k = none
  pfr : ∀ k, k ∈ s.pool → k < s.fresh
  afr : ∀ n k, s.plock n = some k → k < s.fresh
  ofr : ∀ k t, s.lowner k = some t → k < s.fresh
  fpool : ∀ t k, s.pc t = .fin (some k) → k ∉ s.pool
  ffr : ∀ t k, s.pc t = .fin (some k) → k < s.fresh
  fatt : ∀ t k n, s.pc t = .fin (some k) → s.plock n ≠ some k
  fown : ∀ t k, s.pc t = .fin (some k) → s.lowner k = none
  funi : ∀ t1 t2 k, s.pc t1 = .fin (some k) → s.pc t2 = .fin (some k) → t1 = t2
  lh0 : ∀ k, s.lheld k = false → s.lowner k = none
  lh1 : ∀ k, s.lowner k = none → s.lheld k = false
  lcs : ∀ k t n, s.lowner k = some t → s.plock n = some k → s.cs t n = true
  csa : ∀ t n, s.cs t n = true → s.plock n ≠ none
  cso : ∀ t n k, s.cs t n = true → s.plock n = some k → s.lowner k = some t
  pn : ∀ n t, s.plock n = none → t ∈ s.users n → s.pc t = .lkSt n 0
  un : ∀ n, s.users n = [] → s.plock n = none

theorem clr_even (v : Nat) : clr v % 2 = 0 := by unfold clr; omega
theorem clr_le (v : Nat) : clr v ≤ v := by unfold clr; omega
theorem clr_of_even (v : Nat) (h : v % 2 = 0) : clr v = v := by unfold clr; omega

theorem mem_len1 {l : List Nat} {a b : Nat} (h : l.length = 1) (ha : a ∈ l) (hb : b ∈ l) : a = b := by
  match l, h with
  | [x], _ => simp at ha hb; rw [ha, hb]

set_option linter.unusedSimpArgs false in
theorem pinv_init (cap : Nat) : PInv (init cap) := by
  constructor <;> intros <;> simp_all [init, List.nodup_range] <;> (try simp_all [spinNode, refNode, opNode])

/-- Bring groups of invariant clauses into the context. -/
macro "inv_A" h:ident : tactic =>
  `(tactic| (have := PInv.sb1 $h; have := PInv.sb2 $h; have := PInv.rs0 $h; have := PInv.rs1 $h; have := PInv.und $h
             have := PInv.um $h; have := PInv.ucs $h; have := PInv.uref $h; have := PInv.ncs $h
             have := PInv.pCasL $h; have := PInv.pCasU $h; have := PInv.pStL $h; have := PInv.pStU $h
             have := PInv.pRel $h))
macro "inv_B" h:ident : tactic =>
  `(tactic| (have := PInv.pTas $h; have := PInv.pWait $h; have := PInv.att $h; have := PInv.pnd $h
             have := PInv.pfree $h; have := PInv.pown $h; have := PInv.pfr $h; have := PInv.afr $h; have := PInv.ofr $h
             have := PInv.fpool $h; have := PInv.ffr $h; have := PInv.fatt $h; have := PInv.fown $h
             have := PInv.funi $h))
macro "inv_C" h:ident : tactic =>
  `(tactic| (have := PInv.lh0 $h; have := PInv.lh1 $h; have := PInv.lcs $h; have := PInv.csa $h; have := PInv.cso $h
             have := PInv.pn $h; have := PInv.un $h))

macro "pgrind" : tactic => `(tactic| grind [upd, upd2, spinNode, refNode, opNode, clr_even])
macro "pgrind_big" : tactic =>
  `(tactic| grind (instances := 6000) (splits := 14) [upd, upd2, spinNode, refNode, opNode, clr_even])

/- `pg h X` closes clause `X` of `PInv` for the post-state: the clause is unchanged, or `grind` proves it from the same
   clause of the pre-state, then from the spin-bit / users group, then from the whole invariant. -/
open Lean in
macro "pg" h:ident x:ident : tactic => do
  let f := mkIdent (`CdsVerif.Algo.PoolMonitor.PInv ++ x.getId.eraseMacroScopes)
  `(tactic| first
    | (dsimp only; exact $f $h)
    | (intros; have := $f $h; (try dsimp only at *); pgrind)
    | (intros; inv_A $h; (try dsimp only at *); pgrind)
    | (intros; inv_A $h; inv_B $h; inv_C $h; (try dsimp only at *); pgrind_big))

macro "pinv_all" h:ident : tactic =>
  `(tactic| (constructor; pg $h sb1; pg $h sb2; pg $h rs0; pg $h rs1; pg $h und; pg $h um; pg $h ucs; pg $h uref; pg $h ncs; pg $h pCasL; pg $h pCasU; pg $h pStL; pg $h pStU; pg $h pTas; pg $h pWait; pg $h pRel; pg $h att; pg $h pnd; pg $h pfree; pg $h pown; pg $h pfr; pg $h afr; pg $h ofr; pg $h fpool; pg $h ffr; pg $h fatt; pg $h fown; pg $h funi; pg $h lh0; pg $h lh1; pg $h lcs; pg $h csa; pg $h cso; pg $h pn; pg $h un))

set_option maxHeartbeats 1000000 in
theorem pinv_invoke {s s' : St} {t : Tid} {op : GOp} (h : PInv s) (hs : invoke s t op = some s') : PInv s' := by
  unfold invoke at hs
  split at hs
  · split at hs
    · simp at hs
    · simp at hs; subst hs; pinv_all h
  · split at hs
    · simp at hs; subst hs; pinv_all h
    · simp at hs
  · simp at hs

set_option maxHeartbeats 1000000 in
theorem pinv_step_lkLd {s s' : St} {t : Tid} {ev : Ev} {n : Nat}
    (h : PInv s) (hpc : s.pc t = .lkLd n) (hs : step s t = some (s', ev)) : PInv s' := by
  simp only [step, hpc] at hs
  simp at hs; obtain ⟨rfl, -⟩ := hs
  pinv_all h

set_option maxHeartbeats 1000000 in
theorem pinv_step_lkWait {s s' : St} {t : Tid} {ev : Ev} {n k : Nat}
    (h : PInv s) (hpc : s.pc t = .lkWait n k) (hs : step s t = some (s', ev)) : PInv s' := by
  simp only [step, hpc] at hs
  simp at hs; obtain ⟨rfl, -⟩ := hs
  by_cases hh : s.lheld k = true <;> simp only [hh] <;> pinv_all h

set_option maxHeartbeats 1000000 in
theorem pinv_step_unLd {s s' : St} {t : Tid} {ev : Ev} {n : Nat}
    (h : PInv s) (hpc : s.pc t = .unLd n) (hs : step s t = some (s', ev)) : PInv s' := by
  simp only [step, hpc] at hs
  simp at hs; obtain ⟨rfl, -⟩ := hs
  pinv_all h

set_option maxHeartbeats 1000000 in
theorem pinv_step_lkTas {s s' : St} {t : Tid} {ev : Ev} {n k : Nat}
    (h : PInv s) (hpc : s.pc t = .lkTas n k) (hs : step s t = some (s', ev)) : PInv s' := by
  simp only [step, hpc] at hs
  split at hs <;> simp at hs <;> obtain ⟨rfl, -⟩ := hs <;> pinv_all h

set_option maxHeartbeats 1000000 in
theorem pinv_step_unRel {s s' : St} {t : Tid} {ev : Ev} {n : Nat}
    (h : PInv s) (hpc : s.pc t = .unRel n) (hs : step s t = some (s', ev)) : PInv s' := by
  simp only [step, hpc] at hs
  split at hs
  · simp at hs; obtain ⟨rfl, -⟩ := hs; pinv_all h
  · simp at hs

set_option maxHeartbeats 1000000 in
theorem pinv_step_unCas {s s' : St} {t : Tid} {ev : Ev} {n cur : Nat}
    (h : PInv s) (hpc : s.pc t = .unCas n cur) (hs : step s t = some (s', ev)) : PInv s' := by
  simp only [step, hpc] at hs
  split at hs
  next heq =>
    simp at hs; obtain ⟨rfl, -⟩ := hs
    have hev := h.pCasU t n cur hpc
    have hsb : s.sbit n = none := by
      cases hq : s.sbit n with
      | none => rfl
      | some t' => have := h.rs1 n t' hq; omega
    have hlen := h.rs0 n hsb
    have hnoL : ∀ t' c, s.pc t' ≠ .lkSt n c := by
      intro t' c hq; have := h.sb2 n t' (by simp [hq, spinNode]); simp [hsb] at this
    have hnoU : ∀ t' c, s.pc t' ≠ .unSt n c := by
      intro t' c hq; have := h.sb2 n t' (by simp [hq, spinNode]); simp [hsb] at this
    pinv_all h
  next hne =>
    simp at hs; obtain ⟨rfl, -⟩ := hs; pinv_all h

set_option maxHeartbeats 1000000 in
theorem pinv_step_lkCas {s s' : St} {t : Tid} {ev : Ev} {n cur : Nat}
    (h : PInv s) (hpc : s.pc t = .lkCas n cur) (hs : step s t = some (s', ev)) : PInv s' := by
  simp only [step, hpc] at hs
  split at hs
  next heq =>
    simp at hs; obtain ⟨rfl, -⟩ := hs
    have hev := h.pCasL t n cur hpc
    have hsb : s.sbit n = none := by
      cases hq : s.sbit n with
      | none => rfl
      | some t' => have := h.rs1 n t' hq; omega
    have hlen := h.rs0 n hsb
    have hnotin : t ∉ s.users n := by
      intro hm
      have h1 := h.um n t hm
      have h2 := h.ncs n t (by simp [hpc, opNode])
      simp [hpc, refNode, h2] at h1
    have hU : s.plock n = none → s.users n = [] := by
      intro hp
      apply List.eq_nil_iff_forall_not_mem.mpr
      intro x hx
      have h1 := h.pn n x hp hx
      have h2 := h.sb2 n x (by simp [h1, spinNode])
      simp [hsb] at h2
    have hcur0 : s.plock n = none → cur = 0 := by
      intro hp; have := hU hp; simp [this] at hlen; omega
    have hndc : (t :: s.users n).Nodup := List.nodup_cons.mpr ⟨hnotin, h.und n⟩
    have hmemc : ∀ x, x ∈ t :: s.users n ↔ x = t ∨ x ∈ s.users n := fun x => List.mem_cons
    have hlenc : (t :: s.users n).length = (s.users n).length + 1 := List.length_cons
    have hnn : t :: s.users n ≠ [] := by simp
    generalize t :: s.users n = U' at *
    pinv_all h
  next hne =>
    simp at hs; obtain ⟨rfl, -⟩ := hs; pinv_all h

set_option maxHeartbeats 1000000 in
theorem pinv_step_lkSt {s s' : St} {t : Tid} {ev : Ev} {n cur : Nat}
    (h : PInv s) (hpc : s.pc t = .lkSt n cur) (hs : step s t = some (s', ev)) : PInv s' := by
  simp only [step, hpc] at hs
  have hsbt := h.sb2 n t (by simp [hpc, spinNode])
  have hr := h.pStL t n cur hpc
  have hr1 := h.rs1 n t hsbt
  have hmem : t ∈ s.users n := h.uref n t (by simp [hpc, refNode])
  split at hs
  next k hk =>
    simp at hs; obtain ⟨rfl, -⟩ := hs; pinv_all h
  next hnone =>
    have hcur : cur = 0 := by
      have := h.pn n t hnone hmem
      rw [hpc] at this; injection this
    split at hs
    next k rest hpool =>
      simp at hs; obtain ⟨rfl, -⟩ := hs
      have hk : k ∈ s.pool := by simp [hpool]
      have hnd2 : k ∉ rest ∧ rest.Nodup := by
        have := h.pnd; rw [hpool] at this; exact List.nodup_cons.mp this
      have hsub : ∀ x, x ∈ rest → x ∈ s.pool := by intro x hx; simp [hpool, hx]
      have hkfree := h.pfree k
      have hkown := h.pown k hk
      have hkfr := h.pfr k hk
      pinv_all h
    next hpool =>
      simp at hs; obtain ⟨rfl, -⟩ := hs
      pinv_all h

set_option maxHeartbeats 1000000 in
theorem pinv_step_unSt {s s' : St} {t : Tid} {ev : Ev} {n cur : Nat}
    (h : PInv s) (hpc : s.pc t = .unSt n cur) (hs : step s t = some (s', ev)) : PInv s' := by
  simp only [step, hpc] at hs
  have hsbt := h.sb2 n t (by simp [hpc, spinNode])
  have hr := h.pStU t n cur hpc
  have hr1 := h.rs1 n t hsbt
  have hmem : t ∈ s.users n := h.uref n t (by simp [hpc, refNode])
  have hpos : 0 < (s.users n).length := List.length_pos_of_mem hmem
  have hnd' : ((s.users n).erase t).Nodup := (h.und n).erase t
  have hmem' : ∀ x, x ∈ (s.users n).erase t ↔ x ≠ t ∧ x ∈ s.users n := fun x => (h.und n).mem_erase_iff
  have hlen' : ((s.users n).erase t).length = (s.users n).length - 1 := List.length_erase_of_mem hmem
  have hcs : s.cs t n = false := h.ncs n t (by simp [hpc, opNode])
  split at hs
  next h2 =>
    simp at hs; obtain ⟨rfl, -⟩ := hs
    have hone : (s.users n).length = 1 := by omega
    have hsole : ∀ x, x ∈ s.users n → x = t := fun x hx => mem_len1 hone hx hmem
    have hnil : (s.users n).erase t = [] := List.eq_nil_of_length_eq_zero (by omega)
    have hfree : ∀ k, s.plock n = some k → s.lowner k = none := by
      intro k hk
      cases ho : s.lowner k with
      | none => rfl
      | some t' =>
        exfalso
        have h1 := h.lcs k t' n ho hk
        have h2 := hsole t' (h.ucs n t' h1)
        subst h2; simp [hcs] at h1
    rw [hnil]
    pinv_all h
  next h2 =>
    simp at hs; obtain ⟨rfl, -⟩ := hs
    have hnn : (s.users n).erase t ≠ [] := by
      intro h0; rw [h0] at hlen'; simp at hlen'; omega
    generalize (s.users n).erase t = U' at *
    pinv_all h

theorem pinv_step {s s' : St} {t : Tid} {ev : Ev} (h : PInv s) (hs : step s t = some (s', ev)) : PInv s' := by
  cases hpc : s.pc t with
  | idle => simp [step, hpc] at hs
  | done r => simp [step, hpc] at hs
  | fin k => simp [step, hpc] at hs
  | lkLd n => exact pinv_step_lkLd h hpc hs
  | lkCas n c => exact pinv_step_lkCas h hpc hs
  | lkSt n c => exact pinv_step_lkSt h hpc hs
  | lkTas n k => exact pinv_step_lkTas h hpc hs
  | lkWait n k => exact pinv_step_lkWait h hpc hs
  | unRel n => exact pinv_step_unRel h hpc hs
  | unLd n => exact pinv_step_unLd h hpc hs
  | unCas n c => exact pinv_step_unCas h hpc hs
  | unSt n c => exact pinv_step_unSt h hpc hs

set_option maxHeartbeats 1000000 in
theorem pinv_result {s s' : St} {t : Tid} {r : GRet} (h : PInv s) (hs : result s t = some (s', r)) : PInv s' := by
  unfold result at hs
  split at hs
  · simp at hs; obtain ⟨rfl, -⟩ := hs; pinv_all h
  · simp at hs; obtain ⟨rfl, -⟩ := hs; pinv_all h
  next k hpc =>
    simp at hs; obtain ⟨rfl, -⟩ := hs
    have hk := h.fpool t k hpc
    have hnd2 : (s.pool ++ [k]).Nodup := by
      apply List.nodup_append.mpr
      refine ⟨h.pnd, by simp, ?_⟩
      intro a ha b hb; simp at hb; subst hb; intro hab; subst hab; exact hk ha
    have hmem2 : ∀ x, x ∈ s.pool ++ [k] ↔ x ∈ s.pool ∨ x = k := by intro x; simp
    generalize s.pool ++ [k] = P' at *
    pinv_all h
  · simp at hs

theorem pinv_apply (s : St) (t : Tid) (a : Act) (s' : St) (o : Obs) (h : PInv s)
    (hap : model.apply s t a = some (s', o)) : PInv s' := by
  cases a with
  | invoke op =>
    simp only [Model.apply, model, Option.map_eq_some_iff] at hap
    obtain ⟨s1, hs1, heq⟩ := hap
    simp only [Prod.mk.injEq] at heq
    obtain ⟨rfl, -⟩ := heq
    exact pinv_invoke h hs1
  | step =>
    simp only [Model.apply, model, Option.map_eq_some_iff] at hap
    obtain ⟨⟨s1, e⟩, hs1, heq⟩ := hap
    simp only [Prod.mk.injEq] at heq
    obtain ⟨rfl, -⟩ := heq
    exact pinv_step h hs1
  | ret =>
    simp only [Model.apply, model, Option.map_eq_some_iff] at hap
    obtain ⟨⟨s1, r⟩, hs1, heq⟩ := hap
    simp only [Prod.mk.injEq] at heq
    obtain ⟨rfl, -⟩ := heq
    exact pinv_result h hs1

theorem pinv_reachable (cap : Nat) (s : St) (h : model.Reachable (init cap) s) : PInv s :=
  model.inv_reachable PInv (init cap) (pinv_init cap) pinv_apply s h

/-! ### Step-level facts quoted by the property theorems -/

/-- Thread `t` is a user of node `n`: inside its critical section, or inside `lock( n )` after the reference increment,
    or inside `unlock( n )` before the reference decrement. -/
def User (s : St) (t : Tid) (n : Nat) : Prop := s.cs t n = true ∨ refNode (s.pc t) = some n

theorem apply_cases {s s' : St} {t : Tid} {a : Act} {o : Obs} (hap : model.apply s t a = some (s', o)) :
    (∃ op, a = .invoke op ∧ invoke s t op = some s') ∨
    (∃ ev, a = .step ∧ step s t = some (s', ev) ∧ o = .ev ev) ∨
    (∃ r, a = .ret ∧ result s t = some (s', r)) := by
  cases a with
  | invoke op =>
    simp only [Model.apply, model, Option.map_eq_some_iff] at hap
    obtain ⟨s1, hs1, heq⟩ := hap
    simp only [Prod.mk.injEq] at heq
    obtain ⟨rfl, -⟩ := heq
    exact Or.inl ⟨op, rfl, hs1⟩
  | step =>
    simp only [Model.apply, model, Option.map_eq_some_iff] at hap
    obtain ⟨⟨s1, e⟩, hs1, heq⟩ := hap
    simp only [Prod.mk.injEq] at heq
    obtain ⟨rfl, rfl⟩ := heq
    exact Or.inr (Or.inl ⟨e, rfl, hs1, rfl⟩)
  | ret =>
    simp only [Model.apply, model, Option.map_eq_some_iff] at hap
    obtain ⟨⟨s1, r⟩, hs1, heq⟩ := hap
    simp only [Prod.mk.injEq] at heq
    obtain ⟨rfl, -⟩ := heq
    exact Or.inr (Or.inr ⟨r, rfl, hs1⟩)

theorem invoke_frame {s s' : St} {t : Tid} {op : GOp} (hs : invoke s t op = some s') :
    s'.plock = s.plock ∧ s'.pool = s.pool := by
  unfold invoke at hs
  split at hs
  · split at hs <;> simp at hs; subst hs; simp
  · split at hs <;> simp at hs; subst hs; simp
  · simp at hs

/-- The only step that removes a lock from a node is the final store of an `unlock` that saw reference count 1. -/
theorem step_plock {s s' : St} {t : Tid} {ev : Ev} (hs : step s t = some (s', ev)) (n : Nat) :
    s'.plock n = s.plock n ∨ s.plock n = none ∨
    (s.pc t = .unSt n 2 ∧ s'.plock n = none ∧ s'.pc t = .fin (s.plock n) ∧
      s'.users n = (s.users n).erase t ∧ s'.refspin n = 0) := by
  cases hpc : s.pc t <;> simp only [step, hpc] at hs
  case idle => simp at hs
  case done => simp at hs
  case fin => simp at hs
  case lkLd n' => simp at hs; obtain ⟨rfl, -⟩ := hs; simp
  case lkCas n' c => split at hs <;> simp at hs <;> obtain ⟨rfl, -⟩ := hs <;> simp
  case lkSt n' c =>
    split at hs
    · simp at hs; obtain ⟨rfl, -⟩ := hs; simp
    · split at hs <;> simp at hs <;> obtain ⟨rfl, -⟩ := hs <;> dsimp only <;> grind [upd]
  case lkTas n' k => split at hs <;> simp at hs <;> obtain ⟨rfl, -⟩ := hs <;> simp
  case lkWait n' k => simp at hs; obtain ⟨rfl, -⟩ := hs; simp
  case unRel n' =>
    split at hs
    · simp at hs; obtain ⟨rfl, -⟩ := hs; simp
    · simp at hs
  case unLd n' => simp at hs; obtain ⟨rfl, -⟩ := hs; simp
  case unCas n' c => split at hs <;> simp at hs <;> obtain ⟨rfl, -⟩ := hs <;> simp
  case unSt n' c =>
    split at hs <;> simp at hs <;> obtain ⟨rfl, -⟩ := hs <;> dsimp only <;> grind [upd]

/-- No step puts a lock into the free pool. -/
theorem step_pool {s s' : St} {t : Tid} {ev : Ev} (hs : step s t = some (s', ev)) (k : Nat) (hk : k ∈ s'.pool) :
    k ∈ s.pool := by
  cases hpc : s.pc t <;> simp only [step, hpc] at hs
  case idle => simp at hs
  case done => simp at hs
  case fin => simp at hs
  case lkLd n' => simp at hs; obtain ⟨rfl, -⟩ := hs; exact hk
  case lkCas n' c => split at hs <;> simp at hs <;> obtain ⟨rfl, -⟩ := hs <;> exact hk
  case lkSt n' c =>
    split at hs
    · simp at hs; obtain ⟨rfl, -⟩ := hs; exact hk
    · split at hs
      next k0 rest hp => simp at hs; obtain ⟨rfl, -⟩ := hs; dsimp only at hk; rw [hp]; exact List.mem_cons_of_mem _ hk
      next hp => simp at hs; obtain ⟨rfl, -⟩ := hs; exact hk
  case lkTas n' k => split at hs <;> simp at hs <;> obtain ⟨rfl, -⟩ := hs <;> exact hk
  case lkWait n' k => simp at hs; obtain ⟨rfl, -⟩ := hs; exact hk
  case unRel n' =>
    split at hs
    · simp at hs; obtain ⟨rfl, -⟩ := hs; exact hk
    · simp at hs
  case unLd n' => simp at hs; obtain ⟨rfl, -⟩ := hs; exact hk
  case unCas n' c => split at hs <;> simp at hs <;> obtain ⟨rfl, -⟩ := hs <;> exact hk
  case unSt n' c => split at hs <;> simp at hs <;> obtain ⟨rfl, -⟩ := hs <;> exact hk

theorem result_frame {s s' : St} {t : Tid} {r : GRet} (hs : result s t = some (s', r)) :
    s'.plock = s.plock ∧ (s'.pool = s.pool ∨ ∃ k, s.pc t = .fin (some k) ∧ s'.pool = s.pool ++ [k]) := by
  unfold result at hs
  split at hs
  · simp at hs; obtain ⟨rfl, -⟩ := hs; simp
  · simp at hs; obtain ⟨rfl, -⟩ := hs; simp
  next k hpc => simp at hs; obtain ⟨rfl, -⟩ := hs; simp [hpc]
  · simp at hs

theorem eq_singleton {l : List Nat} {a : Nat} (h : l.length = 1) (ha : a ∈ l) : l = [a] := by
  match l, h with
  | [x], _ => simp at ha; rw [ha]

/-- (c) A lock enters the free pool only on the way out of an `unlock` that detached it, and at that moment it is held by
    nobody, attached to no node, and no thread is about to acquire it or waiting for it. -/
theorem dealloc_only_unused {s s' : St} {t : Tid} {a : Act} {o : Obs} (h : PInv s)
    (hap : model.apply s t a = some (s', o)) (k : Nat) (h0 : k ∉ s.pool) (h1 : k ∈ s'.pool) :
    a = .ret ∧ s.pc t = .fin (some k) ∧ s.lheld k = false ∧ s.lowner k = none ∧ (∀ n, s.plock n ≠ some k) ∧
    (∀ t' n, s.pc t' ≠ .lkTas n k) ∧ (∀ t' n, s.pc t' ≠ .lkWait n k) ∧ (∀ t', s.pc t' = .fin (some k) → t' = t) := by
  rcases apply_cases hap with ⟨op, rfl, hs⟩ | ⟨ev, rfl, hs, -⟩ | ⟨r, rfl, hs⟩
  · rw [(invoke_frame hs).2] at h1; exact absurd h1 h0
  · exact absurd (step_pool hs k h1) h0
  · rcases (result_frame hs).2 with hp | ⟨k', hpc, hp⟩
    · rw [hp] at h1; exact absurd h1 h0
    · rw [hp] at h1
      have hk : k = k' := by simpa [h0] using h1
      subst hk
      have hown := h.fown t k hpc
      refine ⟨rfl, hpc, h.lh1 k hown, hown, fun n => h.fatt t k n hpc, ?_, ?_, fun t' ht' => h.funi t' t k ht' hpc⟩
      · intro t' n hq; exact h.fatt t k n hpc (h.pTas t' n k hq)
      · intro t' n hq; exact h.fatt t k n hpc (h.pWait t' n k hq)

/-- (c) A lock is detached from its node only by the final store of an `unlock` whose CAS saw exactly one reference (its own):
    the detaching thread is the only user of the node, nobody is inside the critical section, nobody holds the lock,
    and nobody is between its reference increment and its acquisition of the lock. -/
theorem detach_only_last {s s' : St} {t : Tid} {a : Act} {o : Obs} (h : PInv s)
    (hap : model.apply s t a = some (s', o)) (n k : Nat) (h0 : s.plock n = some k) (h1 : s'.plock n ≠ some k) :
    a = .step ∧ s.pc t = .unSt n 2 ∧ s.refspin n = 3 ∧ s.users n = [t] ∧
    s'.plock n = none ∧ s'.users n = [] ∧ s'.refspin n = 0 ∧ s'.pc t = .fin (some k) ∧
    s.lheld k = false ∧ (∀ t', s.cs t' n = false) ∧ (∀ t', refNode (s.pc t') = some n → t' = t) := by
  rcases apply_cases hap with ⟨op, rfl, hs⟩ | ⟨ev, rfl, hs, -⟩ | ⟨r, rfl, hs⟩
  · rw [(invoke_frame hs).1] at h1; exact absurd h0 h1
  · rcases step_plock hs n with he | he | ⟨hpc, hn, hpc', hu, hr⟩
    · rw [he] at h1; exact absurd h0 h1
    · rw [he] at h0; cases h0
    · have hr0 := h.pStU t n 2 hpc
      have hsb := h.sb2 n t (by simp [hpc, spinNode])
      have hr1 := h.rs1 n t hsb
      have hlen : (s.users n).length = 1 := by omega
      have hmem : t ∈ s.users n := h.uref n t (by simp [hpc, refNode])
      have hus := eq_singleton hlen hmem
      have hcs : s.cs t n = false := h.ncs n t (by simp [hpc, opNode])
      have hnocs : ∀ t', s.cs t' n = false := by
        intro t'
        cases hc : s.cs t' n with
        | false => rfl
        | true =>
          have := h.ucs n t' hc
          rw [hus] at this; simp at this; subst this; rw [hcs] at hc; cases hc
      refine ⟨rfl, hpc, by omega, hus, hn, by rw [hu, hus]; simp, hr, by rw [hpc', h0], ?_, hnocs, ?_⟩
      · cases hl : s.lheld k with
        | false => rfl
        | true =>
          cases ho : s.lowner k with
          | none => have := h.lh1 k ho; rw [hl] at this; cases this
          | some t' => have := h.lcs k t' n ho h0; rw [hnocs t'] at this; cases this
      · intro t' ht'
        have := h.uref n t' ht'
        rw [hus] at this; simpa using this
  · rw [(result_frame hs).1] at h1; exact absurd h0 h1

/-- The first step of `unlock` finds the node's lock attached and held by the caller. -/
theorem unRel_enabled {s : St} {t : Tid} {n : Nat} (h : PInv s) (hpc : s.pc t = .unRel n) :
    ∃ k, s.plock n = some k ∧ s.lowner k = some t ∧ s.lheld k = true ∧ (step s t).isSome := by
  have hcs := h.pRel t n hpc
  cases hp : s.plock n with
  | none => exact absurd hp (h.csa t n hcs)
  | some k =>
    have ho := h.cso t n k hcs hp
    refine ⟨k, rfl, ho, ?_, by simp [step, hpc, hp]⟩
    cases hl : s.lheld k with
    | true => rfl
    | false => have := h.lh0 k hl; rw [ho] at this; cases this

/-- (a) At most one thread is inside the critical section of a node. -/
theorem cs_mutex {s : St} (h : PInv s) (n : Nat) (t1 t2 : Tid) (h1 : s.cs t1 n = true) (h2 : s.cs t2 n = true) :
    t1 = t2 := by
  cases hp : s.plock n with
  | none => exact absurd hp (h.csa t1 n h1)
  | some k =>
    have o1 := h.cso t1 n k h1 hp
    have o2 := h.cso t2 n k h2 hp
    rw [o1] at o2; injection o2

/-- The non-atomic field `m_pLock` of node `n`: a thread that is about to write it (attach in `lock`, detach in `unlock`) is
    the only thread at a program point that accesses it. -/
theorem plock_access_exclusive {s : St} (h : PInv s) (n : Nat) (t1 t2 : Tid)
    (hw : (∃ c, s.pc t1 = .lkSt n c ∧ s.plock n = none) ∨ s.pc t1 = .unSt n 2)
    (ha : (∃ c, s.pc t2 = .lkSt n c) ∨ (∃ c, s.pc t2 = .unSt n c) ∨ s.pc t2 = .unRel n) : t1 = t2 := by
  have hu2 : t2 ∈ s.users n := by
    rcases ha with ⟨c, hc⟩ | ⟨c, hc⟩ | hc
    · exact h.uref n t2 (by simp [hc, refNode])
    · exact h.uref n t2 (by simp [hc, refNode])
    · exact h.ucs n t2 (h.pRel t2 n hc)
  rcases hw with ⟨c, hc, hp⟩ | hc
  · have hs1 := h.sb2 n t1 (by simp [hc, spinNode])
    have h2 := h.pn n t2 hp hu2
    have hs2 := h.sb2 n t2 (by simp [h2, spinNode])
    rw [hs1] at hs2; injection hs2
  · have hr0 := h.pStU t1 n 2 hc
    have hsb := h.sb2 n t1 (by simp [hc, spinNode])
    have hr1 := h.rs1 n t1 hsb
    have hlen : (s.users n).length = 1 := by omega
    have hmem : t1 ∈ s.users n := h.uref n t1 (by simp [hc, refNode])
    exact mem_len1 hlen hmem hu2

/-- (c) The counting invariant: the reference count in m_RefSpin is the number of users of the node, and bit 0 is set
    exactly while some thread is inside a spin-bit section of the node. -/
theorem refcount_counts {s : St} (h : PInv s) (n : Nat) :
    ∃ us : List Tid, us.Nodup ∧ (∀ t, t ∈ us ↔ User s t n) ∧
      ((∀ t, spinNode (s.pc t) ≠ some n) → s.refspin n = 2 * us.length) ∧
      (∀ t, spinNode (s.pc t) = some n → s.refspin n = 2 * us.length + 1) ∧
      s.refspin n / 2 = us.length := by
  refine ⟨s.users n, h.und n, ?_, ?_, ?_, ?_⟩
  · intro t
    constructor
    · exact h.um n t
    · rintro (hc | hr)
      · exact h.ucs n t hc
      · exact h.uref n t hr
  · intro hno
    cases hq : s.sbit n with
    | none => exact h.rs0 n hq
    | some t => exact absurd (h.sb1 n t hq) (hno t)
  · intro t ht
    exact h.rs1 n t (h.sb2 n t ht)
  · cases hq : s.sbit n with
    | none => have := h.rs0 n hq; omega
    | some t => have := h.rs1 n t hq; omega

/-- (d) The spin bit is a lock: at most one thread is inside an attach / detach section of a node. -/
theorem spinbit_mutex {s : St} (h : PInv s) (n : Nat) (t1 t2 : Tid)
    (h1 : spinNode (s.pc t1) = some n) (h2 : spinNode (s.pc t2) = some n) : t1 = t2 := by
  have a := h.sb2 n t1 h1
  have b := h.sb2 n t2 h2
  rw [a] at b; injection b

end CdsVerif.Algo.PoolMonitor

/-
  Preservation of `SInv` by the copy of the displaced item into the new array node (`xCopy`) and by the publication
  of the new array node (`xPub`), for the library's order (copy first).
-/
import CdsVerif.Algo.Feldman.StepA
namespace CdsVerif.Algo.Feldman
open CdsVerif.Machine CdsVerif.Spec CdsVerif.Lin

theorem sinv_xCopy {c : Cfg} {s s' : St} {t : Tid} {ev : Ev} {op : Op} {a lvl : Nat} {n : Node} {b : Nat}
    (hp : PathHyp c) (hcf : c.copyFirst = true) (h : SInv c s)
    (hpc : s.pc t = .xCopy op a lvl n b) (hs : step c s t = some (s', ev)) : SInv c s' := by
  have hpo := h.pos t op a lvl (by simp [hpc, posOf])
  have hw := h.own t op a lvl n b (by simp [hpc, ownOf])
  have hnull := h.xNull t op a lvl n b (Or.inr hpc)
  have hcv := h.xConvd t a (sl c (okey op) lvl) n (by simp [hpc, cvOf])
  have hpf := h.onp a _ n (Or.inr hcv)
  have hl := pos_len hp hpo.2.2.1 hpo.2.2.2
  simp only [step, hpc, hcf, if_true, Option.some.injEq, Prod.mk.injEq] at hs; obtain ⟨rfl, -⟩ := hs
  obtain ⟨pre0, acpos, fresh, arrp, onp, pos, casI, casE, casU, xA, own, ownd, xNull, xConvd, xUniq, xFull⟩ := h
  have hab : a ≠ b := by omega
  -- the written slot was null: no other slot is affected, and nothing that held a non-null value is
  have hcell : ∀ a1 i1, s.cell a1 i1 ≠ .null → upd2 s.cell b (sl c n.key (lvl + 1)) (.data n) a1 i1 = s.cell a1 i1 := by
    intro a1 i1 hne
    simp only [upd2]
    split
    · next hh => rw [hh.1, hh.2] at hne; exact absurd (hnull _) hne
    · rfl
  have hcellb : ∀ b2, b2 ≠ b → ∀ j, upd2 s.cell b (sl c n.key (lvl + 1)) (.data n) b2 j = s.cell b2 j := by
    intro b2 hb2 j; simp only [upd2]; rw [if_neg (by intro hh; exact hb2 hh.1)]
  have hpubk : ∀ a1, Pub s a1 →
      Pub { s with cell := upd2 s.cell b (sl c n.key (lvl + 1)) (.data n), pc := upd s.pc t (.xPub op a lvl n b) } a1 := by
    intro a1 hpb
    unfold Pub at hpb ⊢
    rcases hpb with e | e
    · exact Or.inl e
    · right
      show upd2 s.cell b _ _ (s.par a1) (s.pidx a1) = .arr a1
      rw [hcell _ _ (by rw [e]; simp)]; exact e
  constructor
  · exact pre0
  · exact acpos
  · intro b2 j hb2
    have hb2' : s.acnt ≤ b2 := hb2
    show upd2 s.cell b _ _ b2 j = .null
    rw [hcellb b2 (by omega)]; exact fresh b2 j hb2'
  · intro a1 i1 b1 hc
    have hc' : s.cell a1 i1 = .arr b1 := by
      have hc2 : upd2 s.cell b (sl c n.key (lvl + 1)) (.data n) a1 i1 = .arr b1 := hc
      simp only [upd2] at hc2
      split at hc2
      · simp at hc2
      · exact hc2
    have := arrp a1 i1 b1 hc'
    exact ⟨this.1, this.2.1, this.2.2.1, this.2.2.2.1, this.2.2.2.2.1, hpubk _ this.2.2.2.2.2.1, this.2.2.2.2.2.2⟩
  · intro a1 i1 n1 hc
    by_cases hh : a1 = b ∧ i1 = sl c n.key (lvl + 1)
    · obtain ⟨rfl, rfl⟩ := hh
      simp only [upd2, and_self, if_true, Cell.data.injEq] at hc
      rcases hc with rfl | hc
      · show Pfx (s.pre a1) _ _
        rw [hw.2.2.2.2.2.2.2]
        have h1 := hpf.snoc (by rw [hl, hp.len]; exact hw.2.2.2.2.1)
        rw [hl] at h1
        exact h1
      · simp at hc
    · simp only [upd2, if_neg hh] at hc; exact onp a1 i1 n1 hc
  · intro t2 op2 a2 l2 hpo2
    have key : posOf (s.pc t2) = some (op2, a2, l2) := by
      by_cases ht : t2 = t
      · subst ht; simp only [upd_same, posOf] at hpo2; simp [hpc, posOf]; simpa using hpo2
      · simpa only [upd, if_neg ht] using hpo2
    have := pos t2 op2 a2 l2 key
    exact ⟨hpubk _ this.1, this.2⟩
  · intro t2 op2 a2 l2 hpc2
    by_cases ht : t2 = t
    · subst ht; simp at hpc2
    · simp only [upd, if_neg ht] at hpc2; exact casI t2 op2 a2 l2 hpc2
  · intro t2 op2 a2 l2 n2 hpc2
    by_cases ht : t2 = t
    · subst ht; simp at hpc2
    · simp only [upd, if_neg ht] at hpc2; exact casE t2 op2 a2 l2 n2 hpc2
  · intro t2 op2 a2 l2 n2 hpc2
    by_cases ht : t2 = t
    · subst ht; simp at hpc2
    · simp only [upd, if_neg ht] at hpc2; exact casU t2 op2 a2 l2 n2 hpc2
  · intro t2 op2 a2 l2 n2 hpc2
    by_cases ht : t2 = t
    · subst ht; simp at hpc2
    · simp only [upd, if_neg ht] at hpc2; exact xA t2 op2 a2 l2 n2 hpc2
  · intro t2 op2 a2 l2 n2 b2 hpc2
    have key : ownOf (s.pc t2) = some (op2, a2, l2, n2, b2) := by
      by_cases ht : t2 = t
      · subst ht; simp only [upd_same, ownOf] at hpc2; simp [hpc, ownOf]; simpa using hpc2
      · simpa only [upd, if_neg ht] using hpc2
    have := own t2 op2 a2 l2 n2 b2 key
    refine ⟨this.1, this.2.1, this.2.2.1, ?_, this.2.2.2.2⟩
    show upd2 s.cell b _ _ (s.par b2) (s.pidx b2) ≠ .arr b2
    simp only [upd2]
    split
    · simp
    · exact this.2.2.2.1
  · intro t2 t3 op2 a2 l2 n2 b2 op3 a3 l3 n3 hne h2 h3
    have key2 : ownOf (s.pc t2) = some (op2, a2, l2, n2, b2) := by
      by_cases ht : t2 = t
      · subst ht; simp only [upd_same, ownOf] at h2; simp [hpc, ownOf]; simpa using h2
      · simpa only [upd, if_neg ht] using h2
    have key3 : ownOf (s.pc t3) = some (op3, a3, l3, n3, b2) := by
      by_cases ht : t3 = t
      · subst ht; simp only [upd_same, ownOf] at h3; simp [hpc, ownOf]; simpa using h3
      · simpa only [upd, if_neg ht] using h3
    exact ownd t2 t3 op2 a2 l2 n2 b2 op3 a3 l3 n3 hne key2 key3
  · intro t2 op2 a2 l2 n2 b2 hpc2 j
    by_cases ht : t2 = t
    · subst ht; simp at hpc2
    · simp only [upd, if_neg ht] at hpc2
      have h1 := xNull t2 op2 a2 l2 n2 b2 hpc2 j
      have hbb : b2 ≠ b := by
        intro e; subst e
        exact ownd t2 t op2 a2 l2 n2 b2 op a lvl n ht (by rcases hpc2 with e | e <;> simp [e, ownOf])
          (by simp [hpc, ownOf])
      show upd2 s.cell b _ _ b2 j = .null
      rw [hcellb b2 hbb]; exact h1
  · intro t2 a2 i2 n2 hpc2
    have key : cvOf c (s.pc t2) = some (a2, i2, n2) := by
      by_cases ht : t2 = t
      · subst ht; simp only [upd_same, cvOf] at hpc2; simp [hpc, cvOf]; simpa using hpc2
      · simpa only [upd, if_neg ht] using hpc2
    have := xConvd t2 a2 i2 n2 key
    show upd2 s.cell b _ _ a2 i2 = .conv n2
    rw [hcell _ _ (by rw [this]; simp)]; exact this
  · intro t2 t3 a2 i2 n2 n3 hne h2 h3
    have key2 : cvOf c (s.pc t2) = some (a2, i2, n2) := by
      by_cases ht : t2 = t
      · subst ht; simp only [upd_same, cvOf] at h2; simp [hpc, cvOf]; simpa using h2
      · simpa only [upd, if_neg ht] using h2
    have key3 : cvOf c (s.pc t3) = some (a2, i2, n3) := by
      by_cases ht : t3 = t
      · subst ht; simp only [upd_same, cvOf] at h3; simp [hpc, cvOf]; simpa using h3
      · simpa only [upd, if_neg ht] using h3
    exact xUniq t2 t3 a2 i2 n2 n3 hne key2 key3
  · intro t2 op2 a2 l2 n2 b2 hpc2
    by_cases ht : t2 = t
    · subst ht
      simp only [upd_same, PC.xPub.injEq] at hpc2
      obtain ⟨rfl, rfl, rfl, rfl, rfl⟩ := hpc2
      refine ⟨by show upd2 s.cell b _ _ b _ = _; simp [upd2], ?_⟩
      intro j hj
      show upd2 s.cell b _ _ b j = .null
      simp only [upd2]; rw [if_neg (by intro hh; exact hj hh.2)]; exact hnull j
    · simp only [upd, if_neg ht] at hpc2
      have h1 := xFull t2 op2 a2 l2 n2 b2 hpc2
      have hbb : b2 ≠ b := by
        intro e; subst e
        exact ownd t2 t op2 a2 l2 n2 b2 op a lvl n ht (by simp [hpc2, ownOf]) (by simp [hpc, ownOf])
      have e := hcellb b2 hbb
      show upd2 s.cell b _ _ b2 _ = _ ∧ ∀ j, _ → upd2 s.cell b _ _ b2 j = _
      simp only [e]; exact h1

theorem sinv_xPub {c : Cfg} {s s' : St} {t : Tid} {ev : Ev} {op : Op} {a lvl : Nat} {n : Node} {b : Nat}
    (hp : PathHyp c) (hcf : c.copyFirst = true) (h : SInv c s)
    (hpc : s.pc t = .xPub op a lvl n b) (hs : step c s t = some (s', ev)) : SInv c s' := by
  have hpo := h.pos t op a lvl (by simp [hpc, posOf])
  have hw := h.own t op a lvl n b (by simp [hpc, ownOf])
  have hcv := h.xConvd t a (sl c (okey op) lvl) n (by simp [hpc, cvOf])
  have hl := pos_len hp hpo.2.2.1 hpo.2.2.2
  simp only [step, hpc, hcf, if_true] at hs
  split at hs
  · simp only [Option.some.injEq, Prod.mk.injEq] at hs; obtain ⟨rfl, -⟩ := hs
    obtain ⟨pre0, acpos, fresh, arrp, onp, pos, casI, casE, casU, xA, own, ownd, xNull, xConvd, xUniq, xFull⟩ := h
    have hab : a ≠ b := by omega
    have hcell : ∀ a1 i1, (∀ m, s.cell a1 i1 ≠ .conv m) →
        upd2 s.cell a (sl c (okey op) lvl) (.arr b) a1 i1 = s.cell a1 i1 := by
      intro a1 i1 hne
      simp only [upd2]
      split
      · next hh => rw [hh.1, hh.2] at hne; exact absurd hcv (hne n)
      · rfl
    have hcellb : ∀ b2, b2 ≠ a → ∀ j, upd2 s.cell a (sl c (okey op) lvl) (.arr b) b2 j = s.cell b2 j := by
      intro b2 hb2 j; simp only [upd2]; rw [if_neg (by intro hh; exact hb2 hh.1)]
    have hpubk : ∀ a1, Pub s a1 →
        Pub { s with cell := upd2 s.cell a (sl c (okey op) lvl) (.arr b), pc := upd s.pc t (.trav op a lvl) } a1 := by
      intro a1 hpb
      unfold Pub at hpb ⊢
      rcases hpb with e | e
      · exact Or.inl e
      · right
        show upd2 s.cell a _ _ (s.par a1) (s.pidx a1) = .arr a1
        rw [hcell _ _ (by rw [e]; simp)]; exact e
    -- an unpublished array node of another thread is not the array node `a`
    have hneb : ∀ b2, 0 < b2 → s.cell (s.par b2) (s.pidx b2) ≠ .arr b2 → b2 ≠ a := by
      intro b2 hb hnb e; subst e
      rcases hpo.1 with e | e
      · omega
      · exact hnb e
    constructor
    · exact pre0
    · exact acpos
    · intro b2 j hb2
      have hb2' : s.acnt ≤ b2 := hb2
      show upd2 s.cell a _ _ b2 j = .null
      rw [hcellb b2 (by omega)]; exact fresh b2 j hb2'
    · intro a1 i1 b1 hc
      by_cases hh : a1 = a ∧ i1 = sl c (okey op) lvl
      · obtain ⟨rfl, rfl⟩ := hh
        have hc2 : upd2 s.cell a1 (sl c (okey op) lvl) (.arr b) a1 (sl c (okey op) lvl) = .arr b1 := hc
        simp only [upd2, and_self, if_true, Cell.arr.injEq] at hc2
        subst hc2
        exact ⟨hw.2.2.2.2.2.1, hw.2.2.2.2.2.2.1, hw.2.2.2.2.2.2.2, hw.2.2.1, hw.2.1, hpubk _ hpo.1,
          by rw [hl]; exact hw.2.2.2.2.1⟩
      · have hc' : s.cell a1 i1 = .arr b1 := by
          have hc2 : upd2 s.cell a (sl c (okey op) lvl) (.arr b) a1 i1 = .arr b1 := hc
          simpa only [upd2, if_neg hh] using hc2
        have := arrp a1 i1 b1 hc'
        exact ⟨this.1, this.2.1, this.2.2.1, this.2.2.2.1, this.2.2.2.2.1, hpubk _ this.2.2.2.2.2.1, this.2.2.2.2.2.2⟩
    · intro a1 i1 n1 hc
      by_cases hh : a1 = a ∧ i1 = sl c (okey op) lvl
      · obtain ⟨rfl, rfl⟩ := hh
        simp only [upd2, and_self, if_true] at hc
        rcases hc with hc | hc <;> simp at hc
      · simp only [upd2, if_neg hh] at hc; exact onp a1 i1 n1 hc
    · intro t2 op2 a2 l2 hpo2
      have key : posOf (s.pc t2) = some (op2, a2, l2) := by
        by_cases ht : t2 = t
        · subst ht; simp only [upd_same, posOf] at hpo2; simp [hpc, posOf]; simpa using hpo2
        · simpa only [upd, if_neg ht] using hpo2
      have := pos t2 op2 a2 l2 key
      exact ⟨hpubk _ this.1, this.2⟩
    · intro t2 op2 a2 l2 hpc2
      by_cases ht : t2 = t
      · subst ht; simp at hpc2
      · simp only [upd, if_neg ht] at hpc2; exact casI t2 op2 a2 l2 hpc2
    · intro t2 op2 a2 l2 n2 hpc2
      by_cases ht : t2 = t
      · subst ht; simp at hpc2
      · simp only [upd, if_neg ht] at hpc2; exact casE t2 op2 a2 l2 n2 hpc2
    · intro t2 op2 a2 l2 n2 hpc2
      by_cases ht : t2 = t
      · subst ht; simp at hpc2
      · simp only [upd, if_neg ht] at hpc2; exact casU t2 op2 a2 l2 n2 hpc2
    · intro t2 op2 a2 l2 n2 hpc2
      by_cases ht : t2 = t
      · subst ht; simp at hpc2
      · simp only [upd, if_neg ht] at hpc2; exact xA t2 op2 a2 l2 n2 hpc2
    · intro t2 op2 a2 l2 n2 b2 hpc2
      by_cases ht : t2 = t
      · subst ht; simp [ownOf] at hpc2
      · simp only [upd, if_neg ht] at hpc2
        have := own t2 op2 a2 l2 n2 b2 hpc2
        have hbb : b2 ≠ b := by
          intro e; subst e
          exact ownd t2 t op2 a2 l2 n2 b2 op a lvl n ht hpc2 (by simp [hpc, ownOf])
        refine ⟨this.1, this.2.1, this.2.2.1, ?_, this.2.2.2.2⟩
        show upd2 s.cell a _ _ (s.par b2) (s.pidx b2) ≠ .arr b2
        simp only [upd2]
        split
        · intro e; simp only [Cell.arr.injEq] at e; exact hbb e.symm
        · exact this.2.2.2.1
    · intro t2 t3 op2 a2 l2 n2 b2 op3 a3 l3 n3 hne h2 h3
      by_cases ht : t2 = t
      · subst ht; simp [ownOf] at h2
      · by_cases ht3 : t3 = t
        · subst ht3; simp [ownOf] at h3
        · simp only [upd, if_neg ht] at h2; simp only [upd, if_neg ht3] at h3
          exact ownd t2 t3 op2 a2 l2 n2 b2 op3 a3 l3 n3 hne h2 h3
    · intro t2 op2 a2 l2 n2 b2 hpc2 j
      by_cases ht : t2 = t
      · subst ht; simp at hpc2
      · simp only [upd, if_neg ht] at hpc2
        have h1 := xNull t2 op2 a2 l2 n2 b2 hpc2 j
        have h2 := own t2 op2 a2 l2 n2 b2 (by rcases hpc2 with e | e <;> simp [e, ownOf])
        show upd2 s.cell a _ _ b2 j = .null
        rw [hcellb b2 (hneb b2 h2.1 h2.2.2.2.1)]; exact h1
    · intro t2 a2 i2 n2 hpc2
      by_cases ht : t2 = t
      · subst ht; simp [cvOf] at hpc2
      · simp only [upd, if_neg ht] at hpc2
        have := xConvd t2 a2 i2 n2 hpc2
        have hne2 : ¬ (a2 = a ∧ i2 = sl c (okey op) lvl) := by
          rintro ⟨rfl, rfl⟩
          exact xUniq t2 t a2 _ n2 n ht hpc2 (by simp [hpc, cvOf])
        show upd2 s.cell a _ _ a2 i2 = .conv n2
        simp only [upd2, if_neg hne2]; exact this
    · intro t2 t3 a2 i2 n2 n3 hne h2 h3
      by_cases ht : t2 = t
      · subst ht; simp [cvOf] at h2
      · by_cases ht3 : t3 = t
        · subst ht3; simp [cvOf] at h3
        · simp only [upd, if_neg ht] at h2; simp only [upd, if_neg ht3] at h3
          exact xUniq t2 t3 a2 i2 n2 n3 hne h2 h3
    · intro t2 op2 a2 l2 n2 b2 hpc2
      by_cases ht : t2 = t
      · subst ht; simp at hpc2
      · simp only [upd, if_neg ht] at hpc2
        have h1 := xFull t2 op2 a2 l2 n2 b2 hpc2
        have h2 := own t2 op2 a2 l2 n2 b2 (by simp [hpc2, ownOf])
        have e := hcellb b2 (hneb b2 h2.1 h2.2.2.2.1)
        show upd2 s.cell a _ _ b2 _ = _ ∧ ∀ j, _ → upd2 s.cell a _ _ b2 j = _
        simp only [e]; exact h1
  · next hne => exact absurd hcv hne

end CdsVerif.Algo.Feldman

/-
  Preservation of the MichaelList invariant, and the effect on the abstract map, by the steps of `search`
  (the loads and the validation; the helping CAS is in `StepCas.lean`).
-/
import CdsVerif.Algo.Michael.Inv
namespace CdsVerif.Algo.Michael
open CdsVerif.Machine CdsVerif.Spec CdsVerif.Lin

theorem sinvl_step_sLd1 {s s' : St} {t : Tid} {ev : Ev} {L : List Nat} {o : OpK}
    (h : SInvL s L) (hpc : s.pc t = .sLd1 o) (hs : step s t = some (s', ev)) :
    ∃ L', SInvL s' L' ∧ StepEff s t s' L L' := by
  have hz := h.zero_mem
  have hnx := fun b => h.next_mem (a := 0) (b := b) hz
  obtain ⟨hch, hso, hal, hun, hm0, hsu, hpriv, hown, hlp, hlc, hln, hkp, hkg, hke, hfr, hic, heo⟩ := h
  simp only [step, hpc] at hs
  simp at hs; obtain ⟨rfl, -⟩ := hs
  refine ⟨L, ?_, ?_⟩
  · sinv_close
  · eff_close

set_option maxHeartbeats 2000000 in
theorem sinvl_step_sLd2 {s s' : St} {t : Tid} {ev : Ev} {L : List Nat} {o : OpK} {p : Option Nat}
    (h : SInvL s L) (hpc : s.pc t = .sLd2 o p) (hs : step s t = some (s', ev)) :
    ∃ L', SInvL s' L' ∧ StepEff s t s' L L' := by
  have hz := h.zero_mem
  have habs := fun r => h.lp_absent (p := 0) (o := o) (r := r) hz (Or.inl rfl)
  obtain ⟨hch, hso, hal, hun, hm0, hsu, hpriv, hown, hlp, hlc, hln, hkp, hkg, hke, hfr, hic, heo⟩ := h
  simp only [step, hpc] at hs
  split at hs
  next heq =>
    simp at hs; obtain ⟨rfl, -⟩ := hs
    cases p with
    | none => cases o <;> step_close L
    | some x => step_close L
  next hne =>
    simp at hs; obtain ⟨rfl, -⟩ := hs
    refine ⟨L, ?_, ?_⟩
    · sinv_close
    · eff_close

theorem sinvl_step_sNx1 {s s' : St} {t : Tid} {ev : Ev} {L : List Nat} {o : OpK} {prev cur : Nat}
    (h : SInvL s L) (hpc : s.pc t = .sNx1 o prev cur) (hs : step s t = some (s', ev)) :
    ∃ L', SInvL s' L' ∧ StepEff s t s' L L' := by
  have hnl := fun b => h.next_lk (a := cur) (b := b)
  obtain ⟨hch, hso, hal, hun, hm0, hsu, hpriv, hown, hlp, hlc, hln, hkp, hkg, hke, hfr, hic, heo⟩ := h
  simp only [step, hpc] at hs
  simp at hs; obtain ⟨rfl, -⟩ := hs
  refine ⟨L, ?_, ?_⟩
  · sinv_close
  · eff_close

set_option maxHeartbeats 2000000 in
theorem sinvl_step_sNx2 {s s' : St} {t : Tid} {ev : Ev} {L : List Nat} {o : OpK} {prev cur : Nat}
    {nx : Option Nat} {mk : Bool}
    (h : SInvL s L) (hpc : s.pc t = .sNx2 o prev cur nx mk) (hs : step s t = some (s', ev)) :
    ∃ L', SInvL s' L' ∧ StepEff s t s' L L' := by
  have hpres := fun r => h.lp_present (c := cur) (o := o) (r := r)
  have habs := fun r => h.lp_absent (p := cur) (o := o) (r := r)
  have hcur := h.lkCur t cur (by simp [hpc, pcCur])
  obtain ⟨hch, hso, hal, hun, hm0, hsu, hpriv, hown, hlp, hlc, hln, hkp, hkg, hke, hfr, hic, heo⟩ := h
  simp only [step, hpc] at hs
  split at hs
  next heq =>
    simp at hs; obtain ⟨rfl, -⟩ := hs
    cases o <;> step_close L
  next hne =>
    simp at hs; obtain ⟨rfl, -⟩ := hs
    step_close L

set_option maxHeartbeats 4000000 in
theorem sinvl_step_sChk {s s' : St} {t : Tid} {ev : Ev} {L : List Nat} {o : OpK} {prev cur : Nat}
    {nx : Option Nat} {mk : Bool}
    (h : SInvL s L) (hpc : s.pc t = .sChk o prev cur nx mk) (hs : step s t = some (s', ev)) :
    ∃ L', SInvL s' L' ∧ StepEff s t s' L L' := by
  have habs := fun r => h.lp_absent (p := prev) (o := o) (r := r)
  have hcur := h.lkCur t cur (by simp [hpc, pcCur])
  have hprev := h.lkPrev t prev (by simp [hpc, pcPrev])
  have hkprev := h.keyPrev t prev (by simp [hpc, pcPrev])
  have hnxt := h.lkNx t
  simp only [hpc, pcNx, skey] at hnxt hkprev
  have hro := fun r => tent_ro (key := s.key) (val := s.val) (o := o) (c := cur) (nx := nx) (mk := mk) (r := r)
  obtain ⟨hch, hso, hal, hun, hm0, hsu, hpriv, hown, hlp, hlc, hln, hkp, hkg, hke, hfr, hic, heo⟩ := h
  simp only [step, hpc] at hs
  split at hs
  next heq =>
    simp at hs; obtain ⟨rfl, -⟩ := hs
    cases o <;> cases nx <;> step_close L
  next hne =>
    simp at hs; obtain ⟨rfl, -⟩ := hs
    step_close L

end CdsVerif.Algo.Michael

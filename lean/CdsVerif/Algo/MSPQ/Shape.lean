/-
  MSPriorityQueue machine, layer 2 of the invariant: SHAPE of the heap array.

  `rank i ≤ cnt` characterises the occupied slots: slot `i` holds an item iff it is one of the first `cnt` slots of
  the bit-reversed order - corrected by one while the holder of the size lock is between its `inc()` and the store
  of the item (`pinc`), or between its `dec()` and the removal of the bottom item (`pdec`).  A node is tagged Empty
  iff its value pointer is null; the nodes a sift-down has inspected and keeps locked stay non-empty; the node that
  carries the item being sifted down is tagged Available; a pop that has taken an item out of the array carries a
  non-null pointer.
-/
import CdsVerif.Algo.MSPQ.Effect
namespace CdsVerif.Algo.MSPQ
open CdsVerif.Machine CdsVerif.Spec

def kInc : K → Nat
  | .pNode _ _ => 1
  | _ => 0

def kDec : K → Nat
  | .oTop _ => 1
  | .oBot _ => 1
  | _ => 0

/-- 1 while the thread has incremented the counter and not yet stored its item. -/
def pinc : PC → Nat
  | .acq k => kInc k
  | .spin k => kInc k
  | .pUnlSz _ _ => 1
  | _ => 0

/-- 1 while the thread has decremented the counter and not yet taken the bottom item out. -/
def pdec : PC → Nat
  | .acq k => kDec k
  | .spin k => kDec k
  | .oUnlSz _ => 1
  | _ => 0

def kIncIdx : K → Option Nat
  | .pNode _ i => some i
  | _ => none

def incIdx : PC → Option Nat
  | .acq k => kIncIdx k
  | .spin k => kIncIdx k
  | .pUnlSz _ i => some i
  | _ => none

def kDecIdx : K → Option Nat
  | .oTop b => some b
  | .oBot b => some b
  | _ => none

def decIdx : PC → Option Nat
  | .acq k => kDecIdx k
  | .spin k => kDecIdx k
  | .oUnlSz b => some b
  | _ => none

def kHeld : K → Option Int
  | .dChild _ _ pv => pv
  | .dRight _ _ pv => pv
  | _ => none

/-- The item a pop has taken out of the array and not yet returned. -/
def heldOf : PC → Option Int
  | .acq k => kHeld k
  | .spin k => kHeld k
  | .oUnlTop1 pv => pv
  | .oUnlSz1 pv => pv
  | .oUnlBot _ pv => pv
  | .oUnlTopE pv => pv
  | .dUnlBreak _ _ pv => pv
  | .dUnlLeft _ _ pv => pv
  | .dUnlRight _ _ pv => pv
  | .dUnlSwap _ _ pv => pv
  | .dUnlPar _ pv => pv
  | .oDone pv => pv
  | _ => none

def kCarries : K → Prop
  | .dChild _ _ _ => True
  | .dRight _ _ _ => True
  | _ => False

/-- The pop has taken an item out of the array (it will return it). -/
def carries : PC → Prop
  | .acq k => kCarries k
  | .spin k => kCarries k
  | .oUnlTop1 _ => True
  | .oUnlSz1 _ => True
  | .oUnlBot _ _ => True
  | .oUnlTopE _ => True
  | .dUnlBreak _ _ _ => True
  | .dUnlLeft _ _ _ => True
  | .dUnlRight _ _ _ => True
  | .dUnlSwap _ _ _ => True
  | .dUnlPar _ _ => True
  | .oDone _ => True
  | _ => False

def kPopPar : K → Option Nat
  | .dChild par _ _ => some par
  | .dRight par _ _ => some par
  | _ => none

/-- The node that holds the item a pop is sifting down. -/
def popPar : PC → Option Nat
  | .acq k => kPopPar k
  | .spin k => kPopPar k
  | .dUnlBreak par _ _ => some par
  | .dUnlLeft par _ _ => some par
  | .dUnlRight par _ _ => some par
  | .dUnlSwap _ ch _ => some ch
  | .dUnlPar par _ => some par
  | _ => none

def kNonE : K → Nat → Prop
  | .dChild par _ _, j => j = par
  | .dRight par ch _, j => j = par ∨ j = ch
  | _, _ => False

/-- Locked nodes that a sift-down knows to be occupied. -/
def nonE : PC → Nat → Prop
  | .acq k, j => kNonE k j
  | .spin k, j => kNonE k j
  | .dUnlBreak par _ _, j => j = par
  | .dUnlLeft par ch _, j => j = par ∨ j = ch ∨ j = ch + 1
  | .dUnlRight par ch _, j => j = par ∨ j = ch
  | .dUnlSwap par ch _, j => j = par ∨ j = ch
  | .dUnlPar par _, j => j = par
  | _, _ => False

theorem nonE_holds (p : PC) (j : Nat) (h : nonE p j) : holds p j := by
  cases p with
  | acq k => cases k <;> simp_all [nonE, kNonE, holds, kHolds]
  | spin k => cases k <;> simp_all [nonE, kNonE, holds, kHolds]
  | _ => simp_all [nonE, holds] <;> omega

theorem popPar_nonE (p : PC) (j : Nat) (h : popPar p = some j) : nonE p j := by
  cases p with
  | acq k => cases k <;> simp_all [popPar, kPopPar, nonE, kNonE]
  | spin k => cases k <;> simp_all [popPar, kPopPar, nonE, kNonE]
  | _ => simp_all [popPar, nonE]

theorem pinc_holds (p : PC) (h : pinc p = 1) : holds p 0 := by
  cases p with
  | acq k => cases k <;> simp_all [pinc, kInc, holds, kHolds]
  | spin k => cases k <;> simp_all [pinc, kInc, holds, kHolds]
  | _ => simp_all [pinc, holds]

theorem pdec_holds (p : PC) (h : pdec p = 1) : holds p 0 := by
  cases p with
  | acq k => cases k <;> simp_all [pdec, kDec, holds, kHolds]
  | spin k => cases k <;> simp_all [pdec, kDec, holds, kHolds]
  | _ => simp_all [pdec, holds]

theorem incIdx_holds (p : PC) (i : Nat) (h : incIdx p = some i) : holds p 0 ∧ pinc p = 1 ∧ pdec p = 0 := by
  cases p with
  | acq k => cases k <;> simp_all [incIdx, kIncIdx, holds, kHolds, pinc, kInc, pdec, kDec]
  | spin k => cases k <;> simp_all [incIdx, kIncIdx, holds, kHolds, pinc, kInc, pdec, kDec]
  | _ => simp_all [incIdx, holds, pinc, pdec]

theorem decIdx_holds (p : PC) (b : Nat) (h : decIdx p = some b) : holds p 0 ∧ pdec p = 1 ∧ pinc p = 0 := by
  cases p with
  | acq k => cases k <;> simp_all [decIdx, kDecIdx, holds, kHolds, pinc, kInc, pdec, kDec]
  | spin k => cases k <;> simp_all [decIdx, kDecIdx, holds, kHolds, pinc, kInc, pdec, kDec]
  | _ => simp_all [decIdx, holds, pinc, pdec]

theorem pinc_le (p : PC) : pinc p ≤ 1 := by
  cases p with
  | acq k => cases k <;> simp [pinc, kInc]
  | spin k => cases k <;> simp [pinc, kInc]
  | _ => simp [pinc]

theorem pdec_le (p : PC) : pdec p ≤ 1 := by
  cases p with
  | acq k => cases k <;> simp [pdec, kDec]
  | spin k => cases k <;> simp [pdec, kDec]
  | _ => simp [pdec]

/-- The clauses about one thread. -/
structure Loc (c : Cfg) (s : St) (t : Tid) : Prop where
  wi : ∀ i, incIdx (s.pc t) = some i → i = c.slot s.cnt ∧ 1 ≤ s.cnt
  wd : ∀ b, decIdx (s.pc t) = some b → b = c.slot (s.cnt + 1) ∧ s.cnt + 1 ≤ c.cap
  pfull : s.pc t = .pFullUnl → c.cap ≤ s.cnt
  pempty : s.pc t = .oEmptyUnl → s.cnt = 0
  hv : carries (s.pc t) → heldOf (s.pc t) ≠ none
  ne : ∀ j, nonE (s.pc t) j → s.tag j ≠ .empty
  ppa : ∀ j, popPar (s.pc t) = some j → s.tag j = .avail

structure SInv (c : Cfg) (rank : Nat → Nat) (s : St) : Prop where
  shN : ∀ i, s.own 0 = none → 1 ≤ i → i ≤ c.cap → (s.tag i ≠ .empty ↔ rank i ≤ s.cnt)
  shO : ∀ i t, s.own 0 = some t → 1 ≤ i → i ≤ c.cap →
    (s.tag i ≠ .empty ↔ rank i + pinc (s.pc t) ≤ s.cnt + pdec (s.pc t))
  te1 : ∀ i, s.tag i = .empty → s.val i = none
  te2 : ∀ i, s.val i = none → s.tag i = .empty
  loc : ∀ t, Loc c s t

theorem sinv_init (c : Cfg) (rank : Nat → Nat) (hc : SlotOK c rank) : SInv c rank init := by
  have := hc.rank_range
  refine ⟨?_, ?_, ?_, ?_, fun t => ?_⟩
  · intros; simp_all [init]; grind
  · intros; simp_all [init]
  · intros; simp_all [init]
  · intros; simp_all [init]
  · constructor <;> intros <;> simp_all [init, incIdx, decIdx, carries, nonE, popPar]

/-- The clauses about a thread only mention its own program counter, the counter if it holds the size lock, and
    the tags of nodes whose lock it holds. -/
theorem loc_frame {c : Cfg} {s s' : St} {t : Tid} (hpc : s'.pc t = s.pc t)
    (hcnt : holds (s.pc t) 0 → s'.cnt = s.cnt) (htag : ∀ j, holds (s.pc t) j → s'.tag j = s.tag j)
    (h : Loc c s t) : Loc c s' t := by
  constructor
  · intro i hi; rw [hpc] at hi; rw [hcnt (incIdx_holds _ _ hi).1]; exact h.wi i hi
  · intro b hb; rw [hpc] at hb; rw [hcnt (decIdx_holds _ _ hb).1]; exact h.wd b hb
  · intro hp; rw [hpc] at hp; rw [hcnt (by simp [hp, holds])]; exact h.pfull hp
  · intro hp; rw [hpc] at hp; rw [hcnt (by simp [hp, holds])]; exact h.pempty hp
  · rw [hpc]; exact h.hv
  · intro j hj; rw [hpc] at hj; rw [htag j (nonE_holds _ _ hj)]; exact h.ne j hj
  · intro j hj; rw [hpc] at hj; rw [htag j (nonE_holds _ _ (popPar_nonE _ _ hj))]; exact h.ppa j hj

/-- The other threads' clauses survive an action of `t`. -/
theorem loc_other {c : Cfg} {s s' : St} {t t' : Tid} (hl : LInv c s) (he : Effect s s' t) (ht : t' ≠ t)
    (h : Loc c s t') : Loc c s' t' := by
  refine loc_frame (he.pcs t' ht) ?_ ?_ h
  · intro h0
    have ho := hl.ow2 0 t' h0
    apply Classical.byContradiction; intro hne
    have := (he.cnt hne).2
    rw [ho] at this; cases this
  · intro j hj
    have ho := hl.ow2 j t' hj
    apply Classical.byContradiction; intro hne
    have := (he.node j (Or.inl hne)).2
    rw [ho] at this
    rcases this with h1 | h1
    · injection h1 with h1; exact ht h1
    · cases h1

macro "sgrind" : tactic =>
  `(tactic| grind (splits := 14)
      [upd, K.lock, St.setPc, rel, pushLoop, popLoop, pinc, kInc, pdec, kDec, incIdx, kIncIdx,
       decIdx, kDecIdx, heldOf, kHeld, carries, kCarries, popPar, kPopPar, nonE, kNonE])


/-- Facts about the pre-state for the per-case proofs. -/
macro "sfacts" h:ident : tactic =>
  `(tactic| (have := SInv.shN $h; have := SInv.shO $h; have := SInv.te1 $h; have := SInv.te2 $h))

/-- … and about the slot function. -/
macro "sfactsS" h:ident hc:ident : tactic =>
  `(tactic| (sfacts $h; have := SlotOK.slot_range $hc; have := SlotOK.rank_range $hc; have := SlotOK.slot_rank $hc
             have := SlotOK.rank_slot $hc))

open Lean in
macro "sg" h:ident x:ident : tactic => do
  let f := mkIdent (`CdsVerif.Algo.MSPQ.SInv ++ x.getId.eraseMacroScopes)
  `(tactic| first
    | (dsimp only [St.setPc, rel]; exact $f $h)
    | (intros; have := $f $h; (try dsimp only [St.setPc, rel] at *); sgrind)
    | (intros; sfacts $h; (try dsimp only [St.setPc, rel] at *); sgrind))

open Lean in
macro "sgS" h:ident hc:ident x:ident : tactic => do
  let f := mkIdent (`CdsVerif.Algo.MSPQ.SInv ++ x.getId.eraseMacroScopes)
  `(tactic| first
    | (dsimp only [St.setPc, rel]; exact $f $h)
    | (intros; have := $f $h; (try dsimp only [St.setPc, rel] at *); sgrind)
    | (intros; sfactsS $h $hc; (try dsimp only [St.setPc, rel] at *); sgrind))

/-- The post-state satisfies `SInv`: the four global clauses and the clauses of the acting thread case by case, the
    clauses of the other threads by `loc_other`. -/
macro "sinv_all" hl:ident h:ident he:ident t:ident : tactic =>
  `(tactic| (refine ⟨?_, ?_, ?_, ?_, fun t' => ?_⟩
             · sg $h shN
             · sg $h shO
             · sg $h te1
             · sg $h te2
             · by_cases ht : t' = $t
               · subst ht
                 constructor <;> intros <;> sfacts $h <;> (try dsimp only [St.setPc, rel] at *) <;> sgrind
               · exact loc_other $hl $he ht (SInv.loc $h t')))

/-- The same with the facts about the slot function (steps inside the size-lock section). -/
macro "sinv_allS" hl:ident h:ident hc:ident he:ident t:ident : tactic =>
  `(tactic| (refine ⟨?_, ?_, ?_, ?_, fun t' => ?_⟩
             · sgS $h $hc shN
             · sgS $h $hc shO
             · sgS $h $hc te1
             · sgS $h $hc te2
             · by_cases ht : t' = $t
               · subst ht
                 constructor <;> intros <;> sfactsS $h $hc <;> (try dsimp only [St.setPc, rel] at *) <;> sgrind
               · exact loc_other $hl $he ht (SInv.loc $h t')))

set_option maxHeartbeats 2000000 in
theorem sinv_invoke {c : Cfg} {rank : Nat → Nat} {s s' : St} {t : Tid} {op : GOp}
    (hl : LInv c s) (h : SInv c rank s) (hs : invoke c s t op = some s') : SInv c rank s' := by
  have he := (invoke_effect hs).1
  have hmy : ∀ l, s.own l = some t → holds (s.pc t) l := fun l => hl.ow1 l t
  unfold invoke at hs
  split at hs
  · split at hs
    · rename_i hpc _ _; simp only [hpc, holds] at hmy; simp at hs; subst hs; sinv_all hl h he t
    · rename_i hpc _ _; simp only [hpc, holds] at hmy; simp at hs; subst hs; sinv_all hl h he t
    · simp at hs
  · simp at hs

set_option maxHeartbeats 2000000 in
theorem sinv_result {c : Cfg} {rank : Nat → Nat} {s s' : St} {t : Tid} {r : GRet}
    (hl : LInv c s) (h : SInv c rank s) (hs : result c s t = some (s', r)) : SInv c rank s' := by
  have he := (result_effect hs).1
  have hmy : ∀ l, s.own l = some t → holds (s.pc t) l := fun l => hl.ow1 l t
  unfold result at hs
  split at hs <;> simp at hs <;> obtain ⟨rfl, -⟩ := hs <;> rename_i hpc <;> simp only [hpc, holds] at hmy <;>
    sinv_all hl h he t

end CdsVerif.Algo.MSPQ

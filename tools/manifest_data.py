HOOK_COMMITS = ["1ff129b", "a99d5e7"]
FIX_COMMITS = ["4e1b160", "0b73798", "872da6d", "b5a5c41", "ada87a3", "a2a8667", "23387d2", "95cd43f", "1d40f2f", "9fea99c", "bc380c0", "6fab2aa", "6b8e051", "ae1cc55", "185de16", "f515ae6", "323b567", "b95a3c3", "9a5f0b9"]
NOTES = "See DESIGN.md. Every check rebuilds the Lean property module, audits axioms, rebuilds the harness from /repo's working tree (content-hash cache) and runs the ties."
NOT_APPLICABLE = {}
CHECKS = {'C09': {'category': 'proof',
         'technique': 'Lean 4: atomic-step machines of the Treiber stack and of the Treiber stack with elimination back-off, both proved linearizable to the LIFO specification for all schedules + '
                      'atomic-trace conformance of both + generic flat-combining linearizability theorem instantiated for FCStack + histories of every stack variant judged by the verified checker',
         'text': 'C09 Treiber theorem and C09_elim_linearizable (Herlihy-Wing with pending operations; an eliminated push/pop pair is linearized at the collision store), C09_elim_no_late_collision, '
                 'C09_elim_collision, conservation theorems hold for any number of threads and any slot / wait-bound choices; both real stacks are replayed against their machines. FCStack without '
                 "elimination: C09_fcstack_linearizable (C10's generic theorem); its elimination pass: fixed-batch theorems tied by the differential run. All variants (container:: wrappers included) "
                 'are judged as histories against Spec.lifo with a sequential drain at the end.',
         'note': 'SC interleavings only; memory orders not modelled; garbage-collected heap in the machines (no node reuse: what C01/C02 provide); explored schedules only for the ties; Lean kernel + '
                 'propext/Classical.choice/Quot.sound.'},
 'C22': {'category': 'proof',
         'technique': 'Lean 4: inductive invariants over atomic-step machines of spin_lock, reentrant_spin_lock, pool_monitor, injecting_monitor (= per-node spin lock) and lock_array (all schedules, '
                      'threads, locks / nodes / cells, pool capacities) + atomic-trace conformance of all five lock kinds + history tie and occupancy / pool oracles',
         'text': 'C22 (spin): mutual exclusion. C22Monitors: C22_reentrant_mutex, C22_reentrant_lock_word, C22_reentrant_release_by_last_unlock, C22_reentrant_other_threads_excluded; '
                 'C22_pool_monitor_mutex, C22_pool_lock_unique, C22_pool_lock_returned_only_when_unused, C22_pool_refcount_counts_users, C22_pool_spinbit_mutex. C22PoolReplay: the same for the '
                 "replay machine that takes the pool's choice of lock object from the trace (a generalisation of the FIFO machine). C22LockArray: C22_lock_array_mutex, C22_lock_all_holds_every_cell, "
                 'C22_lock_all_excludes_others, C22_injecting_monitor_mutex. Every machine is tied to the real code by replaying instrumented traces step by step.',
         'note': 'SC interleavings; memory orders not modelled; discipline (only a holder unlocks) assumed by the theorems and obeyed by the harness; explored schedules only for the ties; Lean '
                 'kernel + propext/Classical.choice/Quot.sound.'},
 'C25': {'category': 'proof',
         'technique': 'Lean 4 theorems over BitVec about definitions regenerated from the C++ headers on every run (clang AST translator), cross-checked by differential evaluation against the '
                      'compiled code and a reference semantics',
         'text': 'Every bit-reversal implementation, the portable MSB/LSB/popcount/complement helpers and the integer helpers are translated from the headers to Lean on every run; theorems state '
                 'they equal the mathematical definition for all inputs (BitVec.reverse, log2 bounds, popcount...). The splitters are hand models (number_splitter composed from translated members) '
                 'with cut/safe_cut specification theorems; all are tied to the compiled code by differential runs that also compare against an independent reference to produce a failing input when '
                 'something breaks.',
         'note': 'Translator and clang AST trusted, cross-checked by differential runs; inline-asm bsr/bsf variants tied to the translated portable model by differential runs only; '
                 'undefined-behaviour flags (shift >= width) are part of the translation and carried as proof obligations.'},
 'C26': {'category': 'proof',
         'technique': 'Lean 4: closed-form characterisation of the bit-reversed counter by induction (all n < 2^63), undo and Dyck theorems, over a hand model whose primitive is translated; '
                      'differential tie on exhaustive small and random long sequences',
         'text': 'The exact sequence of slots is characterised (counter = n, highBit = log2 n, slot = 2^k + rev_k(n-2^k)); slots are pairwise distinct, complete levels are permutations, dec undoes '
                 "inc exactly, balanced sequences return to the start. The literal 'permutation of 1..n for every n' is false by design (n=5) and is a recorded known finding proved as "
                 'C26_literal_false.',
         'note': 'Hand model of a 30-line class tied by differential runs (exhaustive Dyck prefixes of length 14/18, random walks); no wrap-around at 2^64.'},
 'C27': {'category': 'proof',
         'technique': 'Lean 4 theorems over BitVec 64 about split-order functions regenerated from the headers each run, for each of the three reversal implementations; differential tie on the real '
                      'SplitListSet',
         'text': 'regular keys odd, dummies even, parent dummy before child dummy, bucket contiguity and split refinement are theorems about the translated '
                 'regular_hash/dummy_hash/bucket_no/parent_bucket for all 64-bit hashes and all table sizes 2^0..2^63, with the UB obligations discharged (after the fix: commit). The differential '
                 'tie calls the real functions (bucket_no through a real SplitListSet object).',
         'note': 'Translator trusted and cross-checked; bucket-count logarithm is a parameter (it is an atomic member); rcu/nogc textual copies covered by the fix commit and by reading, not by the '
                 'translator.'},
 'C28': {'category': 'proof',
         'technique': 'Lean 4 theorems about the translated metrics::make and the splitter models (layout exactness, path injectivity, expand-offset agreement); exhaustive differential run over all '
                      'configurations of the quantifier',
         'text': 'Layout exactness is proved for all head/array widths and hash sizes 1,2,4,8 about the Lean definition regenerated from feldman_hashset_base.h; equal hashes follow equal paths, '
                 'distinct hashes diverge before the bits run out (injectivity of the cut sequence, from the cut specification theorem), the slot expand_slot derives from bit_offset() equals the '
                 'traverse slot. All 4420 configurations are also run on the real code, and families of prefix-sharing hashes are inserted into a real FeldmanHashSet.',
         'note': 'split_bitstring/byte_splitter are hand models tied by differential runs; head width 64 is undefined (known finding with proved witness); widths above 32 with byte-array hashes are '
                 "outside split_bitstring's unsigned result (proved witness)."},
 'C01': {'category': 'proof',
         'note': 'SC interleavings only (threads serialised by a baton at every atomic operation); memory orders not modelled; explored schedules only for the history/oracle/trace ties; Lean kernel '
                 '+ propext/Classical.choice/Quot.sound. std::sort/binary_search/lower_bound modelled by contract; retire discipline (retire after unlink, once) obeyed by the harness client.',
         'technique': "Lean 4: hazard-pointer protocol machine (protect / clear / retire / classic scan, any H, T, R, any client program obeying the retire discipline) with the theorem 'a guarded "
                      "object is never disposed' over all schedules + atomic-trace conformance of the real cds::gc::HP against that machine + theorems on the scan decision of both strategies tied by "
                      'differential runs + disposer-time oracle',
         'text': 'Algo/HP/Protocol: one step per atomic operation of Guard::protect (load, hazard store, validating re-load), clear, retire (array push, scan when full) and classic_scan (one load '
                 'per hazard slot, then the stage-2 decision = the pure function of Algo/HP/Scan). C01_guarded_never_disposed and the exactly-once theorems hold for every schedule. The real code '
                 "(hp_classic variants, static thread records) is replayed against the machine step by step, values included; the start state is the machine's own run of the client's prefill "
                 '(reachability proved in Algo/HP/Replay) and the executable form of the safety theorem is evaluated after every replayed step. inplace_scan, attach/detach, record reuse and '
                 'help_scan are outside the machine: the scan decision of both strategies is a Lean function with its own theorems tied to the real classic_scan/inplace_scan by differential runs, '
                 'and the rest is decided by the disposer-time oracle on explored schedules.'},
 'C02': {'category': 'proof',
         'technique': 'Lean 4: machine of the dynamic hazard pointers (guard storage growing by extension blocks, retired chain growing by blocks, scan over initial arrays and every linked extension '
                      "block; static thread records) with the theorem 'a guarded object is never disposed' over all schedules + atomic-trace conformance of the real cds::gc::DHP + disposer-time "
                      'oracle (detach / re-attach, help_scan)',
         'text': 'C02_guarded_never_disposed (guards in the initial array and in extension blocks alike), C02_extension_visible / C02_pass_reads_every_linked_slot (all B slots of every block linked '
                 "when the pass loads a record's extension list are read), C02_disposed_once, C02_no_object_lost, C02_retired_chain_has_room hold for every schedule, any initial guard count, any "
                 'number of guards and retired objects. The real code is replayed against the machine (dhp and dhp_many variants, initial guard counts 4..32, up to 40 guards per thread, retired '
                 'chains of two blocks). The replay found the double dispose repaired by 323b567. Detach / re-attach, record reuse, help_scan and block recycling through hp_allocator are decided by '
                 'the disposer-time oracle on explored schedules.',
         'note': 'SC interleavings only (threads serialised by a baton at every atomic operation); memory orders not modelled; explored schedules only for the history/oracle/trace ties; Lean kernel '
                 '+ propext/Classical.choice/Quot.sound. Static thread records in the machine.'},
 'C03': {'category': 'proof',
         'note': 'SC interleavings only (threads serialised by a baton at every atomic operation); memory orders not modelled; explored schedules only for the history/oracle/trace ties; Lean kernel '
                 '+ propext/Classical.choice/Quot.sound. DHP storage growth, attach/detach/help_scan: no machine.',
         'technique': 'Lean 4: exactly-once theorems over the hazard-pointer protocol machine (all schedules) + atomic-trace conformance of the real HP + scan-decision theorems tied by differential '
                      'runs + end-of-case count oracle for HP and DHP (destruction, help_scan adoption, DHP block growth)',
         'text': "Every retired object is disposed at most once and only after retirement (theorems over Algo/HP/Protocol, tied by trace replay as in C01); 'exactly once no later than destruction' "
                 "for detach/help_scan/destruction and for DHP's block lists is decided on explored schedules by counting disposer calls per object at the end of every case."},
 'C06': {'category': 'proof',
         'technique': 'Lean 4: atomic-step machines of MSQueue, MoirQueue, RWQueue and OptimisticQueue, each proved linearizable to the FIFO specification for all schedules (hindsight point of the '
                      'empty dequeue included) + atomic-trace conformance of each + generic flat-combining linearizability theorem instantiated for FCQueue + histories of every queue variant judged '
                      'by the verified checker',
         'text': 'msqueue_linearizable, C06_moir_linearizable, C06_rwqueue_linearizable, C06_optimistic_linearizable (Herlihy-Wing with pending operations; no invention, no duplication, empty means '
                 "empty at an instant inside the call) hold for any number of threads; each real queue is replayed against its machine. FCQueue without elimination: C06_fcqueue_linearizable (C10's "
                 "generic theorem); its elimination pass: fixed-batch theorems tied by the differential run. BasketQueue: machine proved linearizable to the unordered pool (C06_basket_pool_linearizable: conservation, no duplication, empty means empty) with every linearization point a fifo transition or an insertion of the list-order queue (C06_basket_lp_refines), replayed against the real queue; FIFO order among overlapping basket enqueues is not a theorem (C06_basket_linearizable_partial). All histories are also judged against Spec.fifo "
                 'on explored schedules, including CAS-biased 4-thread runs and a sequential drain at the end of every history.',
         'note': 'SC interleavings only (threads serialised by a baton at every atomic operation); memory orders not modelled; explored schedules only for the history/oracle/trace ties; Lean kernel '
                 '+ propext/Classical.choice/Quot.sound. Garbage-collected heap in the machines (no node reuse: what C01/C02 provide); weak CAS never fails spuriously.'},
 'C07': {'category': 'proof',
         'technique': 'Lean 4: atomic-step machine of VyukovMPMCCycleQueue enqueue/dequeue proved linearizable to the bounded FIFO for all schedules, thread counts and capacities 2^k (fixed '
                      'linearization points, full/empty instants, no-overwrite, cell ownership) + atomic-trace conformance of the real queue against that machine + histories judged by the verified '
                      'linearizability checker',
         'text': 'Algo/Vyukov models every atomic load/store/CAS of m_posEnqueue, m_posDequeue and the cell sequences; C07_vyukov_linearizable (Herlihy-Wing with pending operations), '
                 'C07_vyukov_full_means_full / empty_means_empty, C07_vyukov_positions, C07_vyukov_no_overwrite, C07_vyukov_cell_ownership are theorems for every k >= 1 and every schedule. The real '
                 "queue (dynamic/static buffers, intrusive) is replayed against the machine step by step with values (start state = the machine's own run of the client's warm-up rotations); all "
                 'variants including single-consumer front/pop_front are also judged as histories against Spec.bfifo.',
         'note': 'SC interleavings only (threads serialised by a baton at every atomic operation); memory orders not modelled; explored schedules only for the history/oracle/trace ties; Lean kernel '
                 '+ propext/Classical.choice/Quot.sound. Unbounded positions (no 2^64 wrap); weak CAS never fails spuriously; single_consumer front()/pop_front() has no machine (histories only); '
                 'capacity 1 is a precondition violation of the queue (recorded).'},
 'C10': {'category': 'proof',
         'technique': 'Lean 4: flat-combining kernel machine over an arbitrary deterministic sequential object proved linearizable for all schedules (corollary: FCDeque without elimination is a '
                      'linearizable deque) + atomic-trace conformance on the real kernel driving a deque + theorems about FCDeque::fc_process / fc_apply (collide rule as iff, batch refines a '
                      'permutation run by Spec.deque) tied by a differential run on the real functions + histories of the real FCDeque judged by the verified checker',
         'text': 'C10_fc_linearizable: for every sequential object, configuration, schedule and client program the history of the flat-combining container is Herlihy-Wing linearizable to the '
                 "object's specification (linearization point: the exec step on the operation's record); C10_fcdeque_linearizable instantiates it with Spec.deque (likewise C06_fcqueue, C09_fcstack, "
                 'C11_fcpq). The kernel part of the machine is literally KernelR (C23), replayed against the real kernel. Elimination: C10_collide_rule, C10_cross_end_only_if_empty, '
                 'C10_batch_refines, C10_session_refines are theorems about a fixed batch, tied to the real fc_process / fc_apply / combining pass by the differential run (cdsdriver fcbatch); '
                 'elimination under concurrency (requests arriving during the walk) is decided by histories of the elimination variants, not by a theorem.',
         'note': 'SC interleavings only; memory orders not modelled; explored schedules only for the ties; FC wait strategy backoff only; Lean kernel + propext/Classical.choice/Quot.sound.'},
 'C11': {'category': 'translation_validation',
         'technique': 'Lean 4: MSPriorityQueue machine (size lock, node locks, tags, bit-reversed slots) with lock-discipline, conservation, capacity and heap-shape theorems over all schedules + '
                      'atomic-trace conformance + FC batch theorem and differential tie for FCPriorityQueue + histories judged by the verified checker + conservation oracle for overlapping histories',
         'text': 'MSPriorityQueue: C11_mspq_mutex, C11_mspq_conservation (multiset, every reachable state), C11_mspq_push_fails_only_when_full, C11_mspq_pop_fails_only_when_empty, '
                 'C11_mspq_heap_order, C11_mspq_quiescent_heap hold for every schedule and capacity 2^k-1; the real queue is replayed against the machine (lock words, results, pre-fill, final '
                 "drain). 'Every history without push/pop overlap is linearizable to the bounded max-priority queue' is NOT a theorem (C11_mspq_sequential_linearizable_partial gives the "
                 'representation invariant at quiescence of such runs): that clause is decided by histories generated without overlap by construction and judged by the verified checker. '
                 'FCPriorityQueue: batch theorem + differential tie (real fc_apply) + histories.',
         'note': 'SC interleavings only (threads serialised by a baton at every atomic operation); memory orders not modelled; explored schedules only for the history/oracle/trace ties; Lean kernel '
                 '+ propext/Classical.choice/Quot.sound.'},
 'C13': {'category': 'translation_validation',
         'technique': 'Lean 4: MichaelList and LazyList machines proved linearizable to the map specification for all schedules incl. hindsight cases + atomic-trace conformance of both real lists + '
                      'histories of every ordered-list variant judged by the verified linearizability checker + kept witness of the IterableList defect',
         'text': 'C13_michael_linearizable and C13_lazy_linearizable (Herlihy-Wing with pending operations), the effect-instant / hindsight theorems, chain_sorted, marked_frozen, erase_once, '
                 'lock_discipline hold for any number of threads and keys; both real lists are replayed against their machines (next words with mark bits, node locks, results). IterableList: its '
                 'machine is in C19; its linearizability is FALSE of the code (known finding, find_prev race, runs as a kept corpus case). KV forms, RCU and nogc specialisations: histories judged '
                 'against Spec.mapConc / Spec.map on explored schedules.',
         'note': 'SC interleavings only (threads serialised by a baton at every atomic operation); memory orders not modelled; explored schedules only for the history/oracle/trace ties; Lean kernel '
                 '+ propext/Classical.choice/Quot.sound. Garbage-collected heap in the machines (no node reuse: what C01/C02 provide).'},
 'C14': {'category': 'proof',
         'technique': 'Lean 4: SplitListSet machine (dynamic bucket table, lazy recursive bucket initialisation, growth) and FeldmanHashSet machine (multi-level array, slot expansion) proved '
                      'linearizable for all schedules, instantiated with the C27 / C28 theorems about the real key functions + atomic-trace conformance of both + locality theorem for bucket-array '
                      'tables (MichaelHashSet) + histories of all hash set / map variants judged by the verified checker',
         'text': 'C14_splitlist_linearizable, C14_splitlist_bucket_table, C14_splitlist_bucket_sees, C14_splitlist_growth, C14_cfg64_hyp; C14_feldman_linearizable, C14_feldman_expand_publish (an '
                 'expansion changes no lookup; the moved item is in the new array node before it is published), C14_feldman_on_path, C14_feldman_no_duplicate_keys hold for every schedule, thread '
                 'count and key set (Feldman under PathHyp: equal-length injective hash paths, which C28 proves of the real splitter and which is proved for every configuration the harness replays: C14_feldman_harness_hyp_all, C14_feldman_linearizable_harness). Both real containers are replayed against their machines. '
                 'MichaelHashSet over MichaelList / LazyList: locality (Base/Locality) + C14_table_of_linearizable_buckets + the C13 list theorems, at the level of histories. All variants (RCU '
                 'forms, maps, split lists over Lazy / Iterable, colliding hashes, the *_with overloads) are also decided by histories on explored schedules.',
         'note': 'SC interleavings only (threads serialised by a baton at every atomic operation); memory orders not modelled; explored schedules only for the history/oracle/trace ties; Lean kernel '
                 '+ propext/Classical.choice/Quot.sound. Split lists over LazyList / IterableList, static bucket table, Feldman maps and RCU forms: histories only.'},
 'C15': {'category': 'translation_validation',
         'technique': 'Lean 4: SkipListSet machine of the repaired code proved linearizable for all schedules (inductive invariant + ghost log) and tied by atomic-trace conformance with a structural predicate evaluated on every replayed state; machine-checked counterexample '
                      'for the code before commit b95a3c3; histories of skip lists, EllenBinTree and BronsonAVLTreeMap judged by the verified checker against the (relaxed min/max) map specification '
                      '+ real-time min/max oracle',
         'text': 'Algo/SkipList models towers, helping find_position, level-by-level insertion, try_remove_at and the fast / slow find paths; theorems: marked words frozen, level 0 marked only by '
                 "the successful erase, the fast path answers 'found' only after reading an unmarked level-0 link; without that mark test the machine has a complete run whose history is proved "
                 'non-linearizable (the defect this tie found and commit b95a3c3 repaired). For the repaired machine: C15_skiplist_invariant / _structure / _level0 / _mark_once and C15_skiplist_linearizable (every run, Spec.map) are proved; the upper-level sub-list clauses are not. EllenBinTree and Bronson are decided by '
                 'histories on explored schedules; extract_min / extract_max are judged by Spec.mapRelaxed plus a real-time oracle (no key present throughout the call is smaller / larger).',
         'note': 'SC interleavings only (threads serialised by a baton at every atomic operation); memory orders not modelled; explored schedules only for the history/oracle/trace ties; Lean kernel '
                 '+ propext/Classical.choice/Quot.sound. EllenBinTree and BronsonAVLTreeMap: no algorithm model.'},
 'C16': {'category': 'translation_validation',
         'technique': 'Lean 4: StripedSet machine for the striping and refinable mutex policies proved linearizable to the map specification across resizes for all schedules + atomic-trace '
                      'conformance of the real StripedSet + histories of every striped / cuckoo variant judged by the verified linearizability checker',
         'text': 'C16_striped_linearizable, C16_refinable_linearizable, C16_striped_bucket_under_current_lock, C16_striped_resize_exclusive, C16_striped_no_loss_no_dup, C16_striped_resize_preserves '
                 'hold for any number of threads, any hash function and any capacity 2^k; the refinable theorems need the owner / lock-array re-check of acquire() (without it the machine reaches a '
                 'run proved non-linearizable). The real StripedSet is replayed against the machine (lock words per lock-array generation, owner, mask, counter, bucket operations and rehash with the '
                 "table layout). CuckooSet/Map and the striped map forms have no machine: their histories are judged against Spec.mapConc on explored schedules (a livelock of cuckoo's try-lock loop "
                 'under one unfair schedule is recorded, not a violation).',
         'note': 'SC interleavings only; memory orders not modelled; the bucket containers (std::list etc.) are sequential code under a lock = one step; explored schedules only for the ties; Lean '
                 'kernel + propext/Classical.choice/Quot.sound.'},
 'C23': {'category': 'proof',
         'technique': 'Lean 4: flat-combining kernel machine with the publication list in its real order (27-clause inductive invariant: mutual exclusion of combiners, exactly once, response after '
                      'execution, pending not executed, owner republishes, combiner assert) for all schedules + atomic-trace conformance of the real kernel + batch theorems with a differential tie '
                      'on the real containers + histories of every flat-combining container + reclamation oracle',
         'text': 'Algo/FC/KernelR models acquire_record, publish, combine, try_combining, combining, combining_pass over the list in list order, both loops of compact_list, wait_for_combining with '
                 'back-off and republish, release_record; C23R_mutex, C23R_exactly_once, C23R_response_after_exec, C23R_pending_not_executed, C23R_owner_republishes, C23R_no_request_lost, '
                 'C23R_combiner_assert hold for any number of threads, compact factor and pass count. The real kernel (static records, counter container) is replayed against the machine step by step '
                 "(lock word, every record word, list links, fc_apply as a pseudo-event, results). The containers' batch functions are proved to refine a permutation of the batch (C23Batch) and tied "
                 'by the differential run on the real fc_process / fc_apply. Thread exit / removed records / record freeing are outside the machine: decided by a quarantining allocator that checks '
                 'at free time that the record is unreachable from the publication list (this found the compact_list defect, fixed).',
         'note': 'SC interleavings only (threads serialised by a baton at every atomic operation); memory orders not modelled; explored schedules only for the history/oracle/trace ties; Lean kernel '
                 '+ propext/Classical.choice/Quot.sound. Liveness of a deactivated request: safety form only. Wait strategy backoff only; batch_combine outside the machine.'},
 'C04': {'category': 'proof',
         'note': 'SC interleavings only (threads serialised by a baton at every atomic operation); explored schedules only for the history/oracle ties; memory orders not modelled; Lean kernel + '
                 'propext/Classical.choice/Quot.sound. general_threaded and signal_buffered (OS thread / signals) are not run; std::mutex replaced by the spin lock through the template parameter; '
                 'the buffer is an atomic bag in the model (its queue is judged by C07).',
         'technique': 'Lean 4: machine of general_instant and general_buffered RCU (two-phase flip, per-thread control words, nesting, epoch-tagged buffer, overflow, destruct) with the grace-period '
                      'theorems over all schedules + atomic-trace conformance of the real gpi/gpb + reader/disposer oracles on explored schedules',
         'text': "C04 theorems (no object retired before a pre-existing reader's section ended is disposed while that reader is inside; synchronize returns only after pre-existing readers left) hold "
                 'for every schedule, thread count, nesting depth and buffer capacity. The real code is replayed against the machine step by step: global and per-thread control words in the order '
                 "flip_and_wait visits them, the writers' lock, the epoch counter, one pseudo-event per buffer call and per disposer call. Named exclusions of the replay: batch_retire, the library's "
                 'default (non-counting) buffer type, general_threaded and signal_buffered flavours (OS primitives); those that can run are covered by the oracles.'},
 'C05': {'category': 'proof',
         'note': 'SC interleavings only (threads serialised by a baton at every atomic operation); explored schedules only for the history/oracle ties; memory orders not modelled; Lean kernel + '
                 'propext/Classical.choice/Quot.sound. same limits as C04.',
         'technique': 'Lean 4: exactly-once / destruct theorems over the RCU machine (all schedules) + atomic-trace conformance of the real gpi/gpb + end-of-case disposer counts',
         'text': 'Every retired object is disposed exactly once, after a grace period, no later than destruction of the singleton, including objects that arrive when the buffer is full (push '
                 'failure: synchronize and dispose directly) and objects re-pushed by clear_buffer because their epoch is newer. Theorems over Algo/RCU for all schedules; tie by trace replay (see '
                 'C04) and by counting disposer calls per object after destruction.'},
 'C12': {'category': 'proof',
         'note': 'SC interleavings only (threads serialised by a baton at every atomic operation); explored schedules only for the history/oracle ties; memory orders not modelled; Lean kernel + '
                 'propext/Classical.choice/Quot.sound. counters are Nat (no 2^64 wrap); capacity rounded to a multiple of 8 by the constructor after the fix commit.',
         'technique': 'Lean 4: invariant proofs over a two-thread atomic-step machine of the typed ring buffer (all interleavings, any capacity and batch sizes) tied by trace conformance; proved '
                      'sequential model of the variable-size record layout; byte-exact consumer oracle on the real void buffer',
         'text': "C12_ring_linearizable (history level: Herlihy-Wing linearizable to Spec.bfifo cap; all-or-nothing batches: C12_ring_linearizable_batches), C12_typed_fifo, buffer content, push/pop failure characterisations and never-overwrites are theorems about the machine that the real typed buffer's traces are replayed against step "
                 "by step (3000+ traces per run). The void variant's record layout (headers, tail markers, wrap) is a proved sequential model over the translated size helpers; its producer/consumer "
                 'interleavings are decided by the byte-exact oracle on explored schedules.'},
 'C08': {'category': 'proof',
         'technique': 'Lean 4: atomic-step machine of SegmentedQueue (segment list, lock, permuted cell scans, create_tail / remove_head) with conservation, EMPTY and quasi-bound theorems over all '
                      'schedules and permutation inputs + atomic-trace conformance of the real queue + client oracles on self-recorded real-time histories',
         'text': 'C08_conservation / C08_content (every stored item sits in exactly one unmarked cell of a listed segment until it is taken, taken at most once), C08_empty_means_taken, '
                 'C08_dequeue_from_first_segment, C08_quasi_segment / C08_quasi_bound (an item is overtaken only by items of its own segment: at most K-1), C08_cells_write_once, C08_lock hold for '
                 'any number of threads, any K and any permutation choices. The real queue is replayed against the machine step by step (hidden variant with named list pointers, lock and cells; the '
                 "permutation of every scan is passed to the machine). The client's oracles (conservation, quasi bound, empty rule) run on all variants.",
         'note': 'SC interleavings only; memory orders not modelled; no segment reuse in the machine (what C01/C02 provide); explored schedules only for the trace and oracle ties; Lean kernel + '
                 'propext/Classical.choice/Quot.sound.'},
 'C17': {'category': 'translation_validation',
         'note': 'sequential growth only; concurrent resizes are judged by C14/C16.',
         'technique': 'Lean 4: sequential model of CuckooSet (insert / erase / relocate / resize incl. the losing branch) tied by layout-exact differential runs after every operation, with theorems '
                      '(resize exact up to the dropped keys; preservation under the decidable and necessary room hypothesis; machine-checked negation of the full statement = the known finding); StripedSet rehash '
                      "theorem for every hash function; single-threaded differential runs of CuckooSet/StripedSet/SplitListSet growth against a std::set reference with degenerate hash families; C27 / C28 "
                      "theorems for the split-order and Feldman parts of 'growth moves nothing it should not'",
         'text': 'SplitList growth never moves an element and Feldman expansion moves one element one level: these parts rest on the C27/C28 theorems. CuckooSet: Algo/Cuckoo is a sequential model of the '
                 'code as it is; C17_cuckoo_resize_exact, C17_cuckoo_resize_preserves_partial, C17_cuckoo_resize_room_iff, C17_cuckoo_resize_lost_iff, C17_cuckoo_resize_can_drop, C17_cuckoo_witness_run, '
                 'C17_cuckoo_erase, C17_cuckoo_insert_exact / _partial; the model is compared with the real container token for token (tools/cuckoo_tie.py). StripedSet: C17_striped_rehash_preserves (sequential, every '
                 'hash) plus the concurrent machine of C16. The CuckooSet::resize drop is a recorded known finding with a kept witness, reproduced by the model; a lost key that the harness cannot classify is '
                 'attributed to that finding only when the model of the unchanged code reproduces the whole run.'},
 'C20': {'category': 'translation_validation',
         'note': 'variants are those instantiated by the harness clients, not the full trait matrix of test/unit.',
         'technique': 'Lean 4: sequential corollaries of the proved machines (Props/C20Seq: a single-threaded complete run of each of 14 machines and of every flat-combining container returns exactly the '
                      'results of the sequential specification; generic lemma: a sequential history is linearizable iff it is the run of the specification), tied by replaying single-threaded traces of the real '
                      'code; single-threaded operation sequences on every variant of every client judged against the strict Lean reference specifications by the verified checker; spec laws of update()',
         'text': 'Props/C20Seq: C20_<name>_sequential for the Treiber, elimination, MSQueue, Moir, RWQueue, Optimistic, Vyukov, Michael, Lazy, SplitList, Feldman, SkipList, Striped and Refinable machines and for every flat-combining container (a single-threaded complete run returns exactly the results of the sequential specification), each tied by replaying single-threaded traces of the real code. About 190 container variants x 2500 sequences per quick run; return values and payloads observed through functors are compared with Spec.map/fifo/bfifo/lifo/deque/maxpq. '
                 'size/empty/clear, functor call counts and disposer counts are only partly covered (named in the evidence).'},
 'C21': {'category': 'proof',
         'technique': 'Lean 4: atomic-step machines of FreeList (reference-counted) and TaggedFreeList (tagged double-width CAS) with node reuse, proved for all schedules (no double hand-out, '
                      'conservation, quiescent completeness, tag / reference lemmas) + atomic-trace conformance of the real free lists against the machines + ownership oracles (also for '
                      'CachedFreeList)',
         'text': 'C21_freelist_no_double_handout, C21_freelist_conservation, C21_freelist_quiescent_complete, C21_freelist_ref_means_unchanged, C21_freelist_no_borrow and the tagged counterparts '
                 '(C21_tagged_cas_means_unchanged: equal tag means no successful head CAS in between) hold for any number of threads and nodes, with stale pointers and counted references on reused '
                 "nodes. Real traces (every atomic operation on head, m_freeListRefs, m_freeListNext with values, every result) are replayed against the machines; the start state is the machine's "
                 "own run of the client's initial puts. History level (Props/C21FreeListsLin): C21_tagged_bag_linearizable (TaggedFreeList, every run, bag specification); the reference-counted FreeList is proved NOT linearizable to the strict bag (C21_freelist_not_bag_linearizable: spurious empty during the SHOULD_BE_ON_FREELIST hand-over) and linearizable to the weak bag (C21_freelist_bag_linearizable_partial). CachedFreeList has no machine and is decided by the client's oracles.",
         'note': 'SC interleavings only (threads serialised by a baton at every atomic operation); memory orders not modelled; explored schedules only for the history/oracle/trace ties; Lean kernel '
                 '+ propext/Classical.choice/Quot.sound. FreeList count below 2^31, TaggedFreeList tag unbounded; CachedFreeList: explored schedules only.'},
 'C24': {'category': 'proof',
         'technique': "Lean 4: machine of vyukov_queue_pool / lazy / bounded pools over an abstract atomic bounded FIFO (justified by C07's linearizability theorem and trace tie of the real Vyukov "
                      'queue) with ownership theorems over all schedules + refinement of the sequential pool specification + histories of the real pools judged against that specification by the '
                      'verified linearizability checker + ownership / marker / destructor oracles',
         'text': 'C24_no_two_holders, C24_alloc_returns_unheld, C24_dealloc_makes_available, C24_block_objects_kept and C24_machine_refines_spec hold for every schedule, thread count and capacity. '
                 'Histories of the real pools (all three kinds, pool_allocator, capacities 2 and 4, up to and past capacity) are judged against Spec.pool (an allocation returns the OLDEST free '
                 "object and goes to the heap / fails only when the free queue is empty), started from the free queue read from the real ring after the warm-up; the client's oracles (double-alloc, "
                 'corrupted marker, destroyed-while-allocated with a pooled type whose constructor/destructor are scheduling points, foreign object, leak, lazy reuse order) run on the same '
                 'executions.',
         'note': "SC interleavings only; memory orders not modelled; the composition 'pool over a linearizable queue behaves like pool over an atomic queue' is the standard linearizability argument, "
                 'not a Lean theorem; explored schedules only for the history/oracle ties; Lean kernel + propext/Classical.choice/Quot.sound.'},
 'C18': {'category': 'translation_validation',
         'technique': 'Lean 4: well-formedness predicates over dumps of the quiescent structures with theorems (well-formed => traversal exact, strictly increasing, duplicate-free; skip-list levels '
                      'are ordered sub-lists; search-tree order; strict AVL; split order) + the dump of every explored final state of the real containers judged by those Lean functions + final '
                      'content tied to the history by the verified linearizability checker',
         'text': 'After each program (concurrent, any explored schedule, or sequential) the main thread dumps the structure through the private fields; `cdsdriver snapshot` evaluates '
                 "listWf/skipWf/ellenWf/avlWf/splitWf (Base/Snapshot) and returns the abstract content, which must equal the container's own traversal, agree with size()/empty() where a counter "
                 'exists, and be a possible final content of the history (one contains-observation per key is appended and the verified checker judges the whole). C18_list, C18_skiplist, C18_ellen, '
                 "C18_avl, C18_avl_strict, C18_splitlist state what well-formedness implies; both libraries' check_consistency() are transcribed and Bronson's is proved vacuous for balance "
                 '(libCheck_eq_localOrder). AVL balance is judged on structural heights (shapeBalanced_iff). Props/C18Reach proves reachable => well-formed for every reachable state of the '
                 'MichaelList, LazyList and SplitListSet machines and for level 0 of the SkipListSet machine (C18_michael_reachable_wf, C18_lazy_reachable_wf / _quiescent, C18_splitlist_reachable_wf, '
                 'C18_skiplist_reachable_wf_partial); C18_splitlist_quiescent_size (item counter = number of keys), C18_splitlist_quiescent_table_dump (the bucket-table dump is well-formed at quiescence); for Michael, Lazy and SplitList the real final structure of every replayed case is compared with the rendering of the final machine state. Skip-list upper levels: C15_skiplist_links_forward, C15_skiplist_levels_nondecreasing, C15_invB_skipWf.',
         'note': 'SC interleavings only (threads serialised by a baton at every atomic operation); memory orders not modelled; explored schedules only for the history/oracle/trace ties; Lean kernel '
                 "+ propext/Classical.choice/Quot.sound. 'Every reachable quiescent state is well-formed' is a theorem only for the machines named in the text (skip list: level 0 only); for EllenBinTree, Bronson, IterableList and the upper skip-list levels it is decided on explored schedules. Known finding: Bronson can be left imbalanced "
                 'by 2 at quiescence.'},
 'C19': {'category': 'translation_validation',
         'technique': 'Lean 4: IterableList machine with iterator and erase_at (all schedules: guard never holds a disposed element, complete and exactly once, erase_at exact; key order proved false '
                      'of the code, with the counterexample machine-checked) + atomic-trace conformance of the real IterableList + relational oracle over the real iterators of the hash sets over it '
                      'and of FeldmanHashSet/Map',
         'text': 'C19_iter_never_disposed_current, C19_iter_complete_once, C19_erase_at_exact, C19_erase_at_false_only, C19_chain_append_only, C19_element_never_moves hold for every schedule; the '
                 'ordering clauses are false of the real algorithm (known finding: non-atomic find_prev walk) and are proved relative to sortedness (C19_iter_ordered_partial, '
                 'C19_sorted_preserved_except_reuse). The real list (ilist_hp) is replayed against the machine. MichaelHashSet / SplitListSet over IterableList and the Feldman iterators (forward and '
                 "reverse, array-node splits under the iterator) are decided by the client's relational oracle on explored schedules.",
         'note': 'SC interleavings only (threads serialised by a baton at every atomic operation); memory orders not modelled; explored schedules only for the history/oracle/trace ties; Lean kernel '
                 '+ propext/Classical.choice/Quot.sound. Feldman iterators: no machine; RCU Feldman iterators not driven.'}}

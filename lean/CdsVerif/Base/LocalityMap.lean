/-
  A hash table built from independent per-bucket maps is a map.

  `hashed_map_linearizable`: let every keyed operation (insert / update / upsert_keep / erase / extract / find /
  contains) be routed to bucket `h key`.  If, for every bucket, the operations routed to it form a linearizable
  history of `Spec.map`, then the whole history is a linearizable history of `Spec.map`.  It combines locality
  (`Base/Locality.lean`) with the observation that the one-table map and the family of bucket maps agree on
  every key (`Agree`), which every keyed operation preserves.

  Operations that look at the whole table (extract_min / extract_max / size / empty / clear) are outside the
  statement (`Keyed`).
-/
import CdsVerif.Base.Locality
import CdsVerif.Base.Spec
namespace CdsVerif.Spec
open CdsVerif.Lin

/-- the key a keyed operation works on -/
def keyOf (op : GOp) : Option Int :=
  match op.name, op.args with
  | "insert", [k, _] => some k
  | "update", [k, _, _] => some k
  | "upsert_keep", [k, _, _] => some k
  | "erase", [k] => some k
  | "extract", [k] => some k
  | "find", [k] => some k
  | "contains", [k] => some k
  | _, _ => none

def routeBy (h : Int → Nat) (op : GOp) : Nat :=
  match keyOf op with
  | some k => h k
  | none => 0

/-- what a keyed operation does to the entry of its key -/
inductive Eff
  | keep
  | put (v : Int)
  | del
deriving DecidableEq, Repr

def applyEff (e : Eff) (m : MapSt) (k : Int) : MapSt :=
  match e with
  | .keep => m
  | .put v => (k, v) :: merase m k
  | .del => merase m k

/-- effect and result of a keyed operation as a function of the current entry of its key -/
def effect (op : GOp) (cur : Option Int) : Option (Eff × GRet) :=
  match op.name, op.args with
  | "insert", [_, v] => match cur with
    | some _ => some (.keep, [0])
    | none => some (.put v, [1])
  | "update", [_, v, allow] => match cur with
    | some _ => some (.put v, [1, 0])
    | none => if allow ≠ 0 then some (.put v, [1, 1]) else some (.keep, [0, 0])
  | "upsert_keep", [_, v, allow] => match cur with
    | some _ => some (.keep, [1, 0])
    | none => if allow ≠ 0 then some (.put v, [1, 1]) else some (.keep, [0, 0])
  | "erase", [_] => match cur with
    | some v => some (.del, [1, v])
    | none => some (.keep, [0])
  | "extract", [_] => match cur with
    | some v => some (.del, [1, v])
    | none => some (.keep, [0])
  | "find", [_] => match cur with
    | some v => some (.keep, [1, v])
    | none => some (.keep, [0])
  | "contains", [_] => some (.keep, [if cur.isSome then 1 else 0])
  | _, _ => none

theorem mfind_cons (m : MapSt) (k v k' : Int) :
    mfind ((k, v) :: m) k' = if k = k' then some v else mfind m k' := by
  unfold mfind
  by_cases h : k = k'
  · subst h; simp
  · have : (k == k') = false := by simpa using h
    simp [List.find?_cons, this, h]

theorem mfind_merase (m : MapSt) (k k' : Int) :
    mfind (merase m k) k' = if k = k' then none else mfind m k' := by
  unfold mfind merase
  induction m with
  | nil => simp
  | cons e t ih =>
    simp only [List.filter_cons, List.find?_cons]
    grind

/-- the entry of key `k'` after a keyed operation on `k` -/
theorem mfind_applyEff (e : Eff) (m : MapSt) (k k' : Int) :
    mfind (applyEff e m k) k' =
      if k = k' then (match e with | .keep => mfind m k | .put v => some v | .del => none) else mfind m k' := by
  cases e with
  | keep => by_cases h : k = k' <;> simp [applyEff, h]
  | put v =>
    simp only [applyEff, mfind_cons, mfind_merase]
    by_cases h : k = k' <;> simp [h]
  | del => simp only [applyEff, mfind_merase]

def effFind (e : Eff) (cur : Option Int) : Option Int :=
  match e with
  | .keep => cur
  | .put v => some v
  | .del => none

/-- A keyed step of the map specification, seen through the entry of its key: the result and the entries of the
    new state are determined by `effect op (mfind m k)`. -/
theorem mapStep_effect (m m' : MapSt) (op : GOp) (r : GRet) (k : Int) (hk : keyOf op = some k)
    (hs : mapStep m op = some (m', r)) :
    ∃ e, effect op (mfind m k) = some (e, r) ∧
      ∀ k', mfind m' k' = if k = k' then effFind e (mfind m k) else mfind m k' := by
  unfold keyOf at hk
  split at hk <;> simp at hk
  all_goals (rename_i hn ha; unfold mapStep at hs; unfold effect; simp only [hn, ha] at hs ⊢; subst hk)
  all_goals (
    generalize hf : mfind m _ = cur at hs ⊢
    cases cur <;> (try simp only [] at hs ⊢)
    all_goals (try split at hs)
    all_goals (simp only [Option.some.injEq, Prod.mk.injEq] at hs; obtain ⟨rfl, rfl⟩ := hs)
    all_goals (first
      | refine ⟨_, rfl, ?_⟩
      | refine ⟨_, by rw [if_pos ‹_›], ?_⟩
      | refine ⟨_, by rw [if_neg ‹_›], ?_⟩
      | (exfalso; simp_all; done))
    all_goals (intro k'; simp only [effFind, mfind_cons, mfind_merase]; first | done | grind))

/-- Conversely, the effect being defined means the step is. -/
theorem effect_mapStep (m : MapSt) (op : GOp) (e : Eff) (r : GRet) (k : Int) (hk : keyOf op = some k)
    (he : effect op (mfind m k) = some (e, r)) : ∃ m', mapStep m op = some (m', r) := by
  unfold keyOf at hk
  split at hk <;> simp at hk
  all_goals (rename_i hn ha; unfold effect at he; unfold mapStep; simp only [hn, ha] at he ⊢; subst hk)
  all_goals (
    generalize hf : mfind m _ = cur at he ⊢
    cases cur <;> (try simp only [] at he ⊢)
    all_goals (try split at he)
    all_goals (simp only [Option.some.injEq, Prod.mk.injEq] at he; obtain ⟨rfl, rfl⟩ := he)
    all_goals (first
      | exact ⟨_, rfl⟩
      | exact ⟨_, by rw [if_pos ‹_›]⟩
      | exact ⟨_, by rw [if_neg ‹_›]⟩
      | (exfalso; simp_all; done)))

/-- The one-table map `m` and the family of bucket maps `s` hold the same entry for every key. -/
def Agree (h : Int → Nat) (m : MapSt) (s : Nat → MapSt) : Prop := ∀ k, mfind m k = mfind (s (h k)) k

theorem map_next_iff (m m' : MapSt) (op : GOp) (r : GRet) :
    map.next m op r = some m' ↔ mapStep m op = some (m', r) := by
  simp only [map, detSpec]
  cases hs : mapStep m op with
  | none => simp
  | some p =>
    obtain ⟨a, b⟩ := p
    by_cases hr : r = b
    · subst hr; simp
    · simp [hr]; intro _ h; exact hr h.symm

theorem routeBy_of_key (h : Int → Nat) (op : GOp) (k : Int) (hk : keyOf op = some k) : routeBy h op = h k := by
  simp [routeBy, hk]

/-- A legal execution of the family of bucket maps is a legal execution of the one-table map. -/
theorem legal_transfer (h : Int → Nat) (init : Nat → MapSt) :
    ∀ (perm : List (OpRec GOp GRet)) (m : MapSt) (s : Nat → MapSt),
      (∀ o ∈ perm, (keyOf o.op).isSome = true) → Agree h m s →
      Legal (prodSpec map (routeBy h) init) s perm → Legal map m perm := by
  intro perm
  induction perm with
  | nil => intro _ _ _ _ _; trivial
  | cons a l ih =>
    intro m s hkeyed hag ⟨s', hn, hl⟩
    obtain ⟨k, hk⟩ : ∃ k, keyOf a.op = some k := Option.isSome_iff_exists.mp (hkeyed a List.mem_cons_self)
    have hr := routeBy_of_key h a.op k hk
    simp only [prodSpec, hr] at hn
    cases hb : map.next (s (h k)) a.op a.ret with
    | none => simp [hb] at hn
    | some b' =>
      simp only [hb, Option.map_some, Option.some.injEq] at hn
      subst hn
      have hstepb := (map_next_iff _ _ _ _).mp hb
      obtain ⟨e, heff, hfind_b⟩ := mapStep_effect _ _ _ _ k hk hstepb
      have hmk : mfind m k = mfind (s (h k)) k := hag k
      obtain ⟨m', hstepm⟩ := effect_mapStep m a.op e a.ret k hk (by rw [hmk]; exact heff)
      obtain ⟨e2, heff2, hfind_m⟩ := mapStep_effect _ _ _ _ k hk hstepm
      have he2 : e2 = e := by
        rw [hmk, heff] at heff2
        simp only [Option.some.injEq, Prod.mk.injEq] at heff2
        exact heff2.1.symm
      subst he2
      refine ⟨m', (map_next_iff _ _ _ _).mpr hstepm, ?_⟩
      apply ih m' _ (fun o ho => hkeyed o (List.mem_cons_of_mem _ ho)) _ hl
      intro k'
      rw [hfind_m k']
      by_cases hh : h k' = h k
      · simp only [hh, if_true]
        rw [hfind_b k', hmk]
        by_cases hkk : k = k'
        · simp [hkk]
        · simp only [if_neg hkk]
          have := hag k'
          rw [hh] at this
          exact this
      · have hkk : ¬ k = k' := by intro hkk; exact hh (by rw [hkk])
        simp only [if_neg hkk, if_neg hh]
        exact hag k'

/-- **A hash table of linearizable bucket maps is a linearizable map.**  `h` is the bucket function; every
    operation of the history is keyed; for every bucket the operations on keys of that bucket form a
    linearizable history of `Spec.map`. -/
theorem hashed_map_linearizable (h : Int → Nat) (ops : List (OpRec GOp GRet))
    (hwf : ∀ o ∈ ops, o.inv ≤ o.res)
    (hkeyed : ∀ o ∈ ops, (keyOf o.op).isSome = true)
    (hb : ∀ i, Linearizable map (sub (routeBy h) i ops)) :
    Linearizable map ops := by
  obtain ⟨perm, hperm, hrt, hlegal⟩ :=
    locality map (routeBy h) (fun _ => map.init) ops hwf (fun i => hb i)
  refine ⟨perm, hperm, hrt, ?_⟩
  apply legal_transfer h (fun _ => map.init) perm map.init (fun _ => map.init)
  · intro o ho; exact hkeyed o (hperm.mem_iff.mp ho)
  · intro k; rfl
  · exact hlegal

end CdsVerif.Spec

/-
  Queue linearizability toolkit: null-terminated singly linked chains in a heap `nx : Nat → Option Nat`
  (copied from `Algo/MSQueue/Inv.lean`, so that the other C06 queues do not depend on the MSQueue files).
-/
import CdsVerif.Base.Machine
namespace CdsVerif.Algo.QueueLin
open CdsVerif.Machine

/-! ### Chains -/

def Chain (nx : Nat → Option Nat) : Option Nat → List Nat → Prop
  | p, [] => p = none
  | p, a :: l => p = some a ∧ Chain nx (nx a) l

theorem Chain.functional {nx : Nat → Option Nat} : ∀ {p : Option Nat} {l1 l2 : List Nat},
    Chain nx p l1 → Chain nx p l2 → l1 = l2
  | _, [], [], _, _ => rfl
  | _, [], _ :: _, h1, h2 => by simp [Chain] at h1 h2; simp [h1] at h2
  | _, _ :: _, [], h1, h2 => by simp [Chain] at h1 h2; simp [h2] at h1
  | _, a :: l1, b :: l2, h1, h2 => by
    simp only [Chain] at h1 h2
    have hab : a = b := by have := h1.1.symm.trans h2.1; simpa using this
    subst hab
    rw [Chain.functional h1.2 h2.2]

theorem Chain.upd {nx : Nat → Option Nat} {x : Nat} {v : Option Nat} :
    ∀ {p : Option Nat} {l : List Nat}, x ∉ l → Chain nx p l → Chain (upd nx x v) p l
  | _, [], _, h => h
  | _, a :: l, hx, h => by
    simp only [Chain] at h ⊢
    have hax : a ≠ x := fun e => hx (by simp [e])
    refine ⟨h.1, ?_⟩
    rw [upd_other _ _ _ _ hax]
    exact Chain.upd (fun hm => hx (List.mem_cons_of_mem _ hm)) h.2

theorem Chain.none_nil {nx : Nat → Option Nat} {l : List Nat} (h : Chain nx none l) : l = [] := by
  cases l with
  | nil => rfl
  | cons a l => simp [Chain] at h

/-- The successor of a chain node is on the chain, and not at its front. -/
theorem Chain.succ_mem {nx : Nat → Option Nat} {a x : Nat} :
    ∀ {p : Option Nat} {l : List Nat}, Chain nx p l → a ∈ l → nx a = some x → x ∈ l.tail
  | _, [], _, ha, _ => by simp at ha
  | _, b :: l, h, ha, hx => by
    simp only [Chain] at h
    simp only [List.tail_cons]
    rcases List.mem_cons.mp ha with e | hm
    · subst e
      rw [hx] at h
      cases l with
      | nil => simp [Chain] at h
      | cons c l => simp only [Chain, Option.some.injEq] at h; simp [h.2.1]
    · exact List.mem_of_mem_tail (Chain.succ_mem h.2 hm hx)

/-- A chain node with a null link is the last one. -/
theorem Chain.last {nx : Nat → Option Nat} {a : Nat} :
    ∀ {p : Option Nat} {l : List Nat}, Chain nx p l → a ∈ l → nx a = none → ∃ l0, l = l0 ++ [a]
  | _, [], _, ha, _ => by simp at ha
  | _, b :: l, h, ha, hx => by
    simp only [Chain] at h
    by_cases e : a = b
    · subst e
      rw [hx] at h
      rw [Chain.none_nil h.2]
      exact ⟨[], rfl⟩
    · have hm : a ∈ l := by simpa [e] using ha
      obtain ⟨l0, hl0⟩ := Chain.last h.2 hm hx
      exact ⟨b :: l0, by rw [hl0]; rfl⟩

/-- A chain node whose successor has a null link is the second-to-last one. -/
theorem Chain.last2 {nx : Nat → Option Nat} {a x : Nat} :
    ∀ {p : Option Nat} {l : List Nat}, Chain nx p l → a ∈ l → nx a = some x → nx x = none →
      ∃ l0, l = l0 ++ [a, x]
  | _, [], _, ha, _, _ => by simp at ha
  | _, b :: l, h, ha, hx, hxx => by
    simp only [Chain] at h
    by_cases e : a = b
    · subst e
      rw [hx] at h
      cases l with
      | nil => simp [Chain] at h
      | cons c l =>
        simp only [Chain, Option.some.injEq] at h
        obtain ⟨-, rfl, h3⟩ := h
        rw [hxx] at h3
        rw [Chain.none_nil h3]
        exact ⟨[], rfl⟩
    · have hm : a ∈ l := by simpa [e] using ha
      obtain ⟨l0, hl0⟩ := Chain.last2 h.2 hm hx hxx
      exact ⟨b :: l0, by rw [hl0]; rfl⟩

/-- Linking a fresh node behind the last node of a chain. -/
theorem Chain.snoc {nx : Nat → Option Nat} {a n : Nat} (hn : nx n = none) :
    ∀ {p : Option Nat} {l : List Nat}, Chain nx p l → a ∈ l → nx a = none → n ∉ l →
      Chain (Machine.upd nx a (some n)) p (l ++ [n])
  | _, [], _, ha, _, _ => by simp at ha
  | _, b :: l, h, ha, hx, hnl => by
    simp only [Chain] at h
    have hnb : n ≠ b := fun e => hnl (by simp [e])
    by_cases e : a = b
    · subst e
      rw [hx] at h
      rw [Chain.none_nil h.2]
      simp only [List.cons_append, List.nil_append, Chain, upd_same, true_and]
      exact ⟨h.1, by rw [upd_other _ _ _ _ hnb]; exact hn⟩
    · have hm : a ∈ l := by simpa [e] using ha
      simp only [List.cons_append, Chain]
      refine ⟨h.1, ?_⟩
      rw [upd_other _ _ _ _ (fun e' => e e'.symm)]
      exact Chain.snoc hn h.2 hm hx (fun hm' => hnl (List.mem_cons_of_mem _ hm'))

/-- Executable chain walk with fuel. -/
def walk (nx : Nat → Option Nat) : Nat → Option Nat → List Nat
  | 0, _ => []
  | _ + 1, none => []
  | f + 1, some a => a :: walk nx f (nx a)

theorem walk_none (nx : Nat → Option Nat) (f : Nat) : walk nx f none = [] := by cases f <;> rfl

theorem walk_of_chain {nx : Nat → Option Nat} : ∀ {fuel : Nat} {p : Option Nat} {l : List Nat},
    Chain nx p l → l.length ≤ fuel → walk nx fuel p = l
  | 0, _, [], _, _ => rfl
  | 0, _, _ :: _, _, hl => by simp at hl
  | f + 1, _, [], h, _ => by simp only [Chain] at h; subst h; rfl
  | f + 1, _, a :: l, h, hl => by
    simp only [Chain] at h
    obtain ⟨rfl, h2⟩ := h
    simp only [walk]
    rw [walk_of_chain h2 (by simpa using hl)]

theorem length_le_of_nodup_lt {l : List Nat} {n : Nat} (hn : l.Nodup) (hlt : ∀ a ∈ l, a < n) : l.length ≤ n := by
  have := List.Nodup.length_le_of_subset (l₂ := List.range n) hn (fun a ha => List.mem_range.mpr (hlt a ha))
  simpa using this


end CdsVerif.Algo.QueueLin

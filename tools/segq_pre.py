"""Pre-pass of the SegmentedQueue trace tie (C08): harness client `segmented`, hidden variant `i_hp_named`,
Lean machine lean/CdsVerif/Algo/Segmented (cdsdriver replay segq).

The permutation a scan uses is an INPUT of the machine's operation.  The client reports every permutation the
(deterministic) generator draws as a note `T <tid> PERM a b …`; this pass folds the notes of an operation, in order,
into its CALL line (`T <tid> CALL enq <v> a b … c d …`, `T <tid> CALL deq a b …`) and removes them.

Removed as well (not steps of the machine): the relaxed stores of the segment constructor (`st s<j>.c<i> null`: the
machine allocates a segment with null cells; no other store to a cell exists in the code) and fences (constructor of
a segment; the machine is sequentially consistent).  Hazard-pointer traffic and the item counter live at locations the
driver ignores (`@…`, `count`).  The segment list's lock `segLock` IS modelled (xchg / ld / st)."""
import re
import sys

_CTOR = re.compile(r"^T \d+ A st s\d+\.c\d+ null$")


def segq_pre(text):
    out = []
    lines = text.split("\n")
    call_at = {}          # tid -> index in `out` of the open CALL line
    for l in lines:
        w = l.split()
        if len(w) >= 3 and w[0] == "T":
            tid = w[1]
            if w[2] == "CALL":
                call_at[tid] = len(out)
                out.append(l)
                continue
            if w[2] == "PERM":
                if tid in call_at:
                    out[call_at[tid]] += " " + " ".join(w[3:])
                continue
            if w[2] == "RET":
                call_at.pop(tid, None)
                out.append(l)
                continue
            if w[2] == "A" and (w[3] == "fence" or _CTOR.match(l)):
                continue
        elif w and w[0] in ("CASE", "END"):
            call_at = {}
        out.append(l)
    return "\n".join(out)


if __name__ == "__main__":
    sys.stdout.write(segq_pre(sys.stdin.read()))

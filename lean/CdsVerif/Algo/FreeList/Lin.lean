/-
  FreeList (reference-counted): what holds of "linearizable to the bag".

  The machine is NOT linearizable to the bag (`Props/C21FreeListsLin.lean`, `C21_freelist_not_bag_linearizable`): `put`
  returns from its `fetch_add( SHOULD_BE_ON_FREELIST )` without linking the node when a getter holds a reference to it,
  and until that getter drops the reference and links the node itself, the node is neither owned nor on the list: a
  `get` can answer "empty" in between.

  PROVED here for every run: linearizability to the WEAK bag `bagWR` — `put n` adds `n`; `get → n` removes a node that
  is in the bag; `get → empty` is allowed at any time (a spurious "empty") — i.e. no invention, no duplication, no loss.
    linearization points   put: its FIRST step, the `fetch_add( SHOULD_BE_ON_FREELIST )` (`putAdd`).  After this step
                             the node is guaranteed to become available: either the put links it itself, or the flag
                             makes the last reference holder link it;
                           get → node: the successful CAS on `m_Head` (`getCas`);
                           get → empty: the step that makes the loop test `head != nullptr` fail.
    abstract bag           a ghost list (history variable of `BagLin.ghostModel`): `n` is added at `putAdd`, `h` is
                             erased at the successful `getCas`.  Invariant `BInv`: every node that is not owned, not
                             the argument of a put before its first step, and not held by a getter after its successful
                             CAS, is in the ghost bag; with `FInv` of `Inv.lean` (the head node is on the list, hence
                             none of the three) the node a `get` unlinks IS in the bag.
  The generic toolkit (`QueueLin/GhostP.lean`) treats the result `[0]` as "the abstract state is empty"; the machine
  is therefore run with its results relabelled by `relab` (`[0] ↦ [2]`, everything else unchanged): `bagWR` is stated
  on the relabelled results (`get → [2]` = "empty", always allowed), and the theorem speaks of `mapOs relab os`, the
  observations of the run with `ret [0]` rewritten to `ret [2]`.
-/
import CdsVerif.Algo.FreeList.Inv
import CdsVerif.Algo.TaggedFreeList.Lin

namespace CdsVerif.Algo.FreeList
open CdsVerif.Machine CdsVerif.Spec CdsVerif.Lin CdsVerif.Algo.QueueLin CdsVerif.Algo.QueueLinP CdsVerif.Algo.BagLin

/-! ### The weak bag, on relabelled results -/

def relab (r : GRet) : GRet := if r = [0] then [2] else r

def bagWNext (q : List Int) (op : GOp) (r : GRet) : Option (List Int) :=
  match op.name, op.args, r with
  | "put", [_, v], [1] => some (v :: q)
  | "get", [_], [2] => some q
  | "get", [_], [1, v] => if v ∈ q then some (q.erase v) else none
  | _, _, _ => none

def bagWR : SpecL := ⟨[], bagWNext⟩

theorem bagWR_ret0 (q : List Int) (op : GOp) (q' : List Int) (h : bagWR.next q op [0] = some q') : q' = q := by
  obtain ⟨name, args⟩ := op
  simp only [bagWR, bagWNext] at h
  first | (split at h <;> simp_all) | cases h

theorem wpeff_put (a n : Int) (q : List Int) : PEff bagWR q ⟨"put", [a, n]⟩ [1] (n :: q) := by
  intro q0 hp
  exact ⟨n :: q0, by simp [bagWR, bagWNext], hp.cons n⟩

theorem wpeff_get (a p : Int) (q : List Int) (hp : p ∈ q) : PEff bagWR q ⟨"get", [a]⟩ [1, p] (q.erase p) := by
  intro q0 hq
  have hx : p ∈ q0 := hq.mem_iff.mpr hp
  exact ⟨q0.erase p, by simp [bagWR, bagWNext, hx], hq.erase p⟩

theorem wpeff_empty (a : Int) (q : List Int) : PEff bagWR q ⟨"get", [a]⟩ [2] q := by
  intro q0 hq
  exact ⟨q0, by simp [bagWR, bagWNext], hq⟩

/-! ### Bookkeeping functions of the program counter -/

/-- The operation in progress before its linearization point. -/
def opKind : PC → Option (Option Nat)
  | .putAdd n => some (some n)
  | .addLd _ (.get _) => some none
  | .addStNext _ _ (.get _) => some none
  | .addStRefs _ _ (.get _) => some none
  | .addCas _ _ (.get _) => some none
  | .addFix _ _ (.get _) => some none
  | .getLd => some none
  | .getRefs _ => some none
  | .getInc _ _ _ => some none
  | .getNext _ => some none
  | .getCas _ _ => some none
  | .getDec _ _ => some none
  | _ => none

/-- The (relabelled) result fixed at the linearization point. -/
def lpRetF : PC → Option GRet
  | .addLd _ .put => some [1]
  | .addStNext _ _ .put => some [1]
  | .addStRefs _ _ .put => some [1]
  | .addCas _ _ .put => some [1]
  | .addFix _ _ .put => some [1]
  | .getSub2 h => some [1, (h : Int)]
  | .done r => some (relab r)
  | _ => none

/-- The ghost bag after the step of a thread at `pc`, the head being `hd`. -/
def bagStepPc (pc : PC) (hd : Option Nat) (g : List Int) : List Int :=
  match pc with
  | .putAdd n => (n : Int) :: g
  | .getCas h _ => if hd = some h then g.erase (h : Int) else g
  | _ => g

def OpOk (pc : PC) (oo : Option GOp) : Prop :=
  match opKind pc with
  | none => True
  | some (some n) => ∃ a : Int, oo = some ⟨"put", [a, (n : Int)]⟩
  | some none => ∃ a : Int, oo = some ⟨"get", [a]⟩

def opOfG (pc : PC) (oo : Option GOp) : Option GOp :=
  match opKind pc with
  | none => none
  | some _ => oo

theorem opKind_none_of_lp {pc : PC} (h : lpRetF pc ≠ none) : opKind pc = none := by
  cases pc <;> simp_all [lpRetF, opKind]
  all_goals (rename_i k; cases k <;> simp_all [lpRetF, opKind])

/-- Node `a` is out of the bag: owned, or the argument of a `put` that has not started, or unlinked by a getter that
    has not handed it out yet. -/
def Excl (s : St) (a : Nat) : Prop :=
  (∃ t, s.owns t a = true) ∨ (∃ t, putNode (s.pc t) = some a) ∨ (∃ t, takenNode (s.pc t) = some a)

theorem head_not_excl {s : St} (h : FInv s) {a : Nat} (hh : s.head = some a) : ¬ Excl s a := by
  obtain ⟨l, K, H, hl⟩ := h
  have hm : a ∈ l := by
    have := hl.chain; rw [hh] at this
    cases l with
    | nil => simp [Chain] at this
    | cons b l0 =>
      simp only [Chain] at this
      have e : a = b := by simpa using this.1
      simp [e]
  have hk := (hl.kList a).2 hm
  rintro (⟨t, h1⟩ | ⟨t, h1⟩ | ⟨t, h1⟩)
  · have := (hl.kOwn a t).2 h1; rw [hk] at this; cases this
  · have := (hl.kPut a t).2 h1; rw [hk] at this; cases this
  · have := (hl.kTaken a t).2 h1; rw [hk] at this; cases this

/-! ### What one action does -/

structure StepEff (s s' : St) (t : Tid) : Prop where
  frame : ∀ t2, t2 ≠ t → s'.pc t2 = s.pc t2
  lp : lpRetF (s.pc t) = none → ∀ r, lpRetF (s'.pc t) = some r →
        (∃ n, s.pc t = .putAdd n ∧ r = [1]) ∨
        (∃ h nx, s.pc t = .getCas h nx ∧ s.head = some h ∧ r = [1, (h : Int)] ∧ s'.pc t = .getSub2 h) ∨
        (opKind (s.pc t) = some none ∧ r = [2] ∧ ∀ g, bagStepPc (s.pc t) s.head g = g)
  nolp : (lpRetF (s.pc t) ≠ none ∨ lpRetF (s'.pc t) = none) → ∀ g, bagStepPc (s.pc t) s.head g = g
  keep : ∀ r, lpRetF (s.pc t) = some r → lpRetF (s'.pc t) = some r
  kind : lpRetF (s'.pc t) = none → opKind (s'.pc t) = opKind (s.pc t)
  en : lpRetF (s.pc t) = none → opKind (s.pc t) ≠ none
  owns : ∀ t2 a, s.owns t2 a = true → s'.owns t2 a = true
  sub2 : ∀ a, s.pc t = .getSub2 a → s'.owns t a = true

macro "eff_close" : tactic =>
  `(tactic| (constructor <;> (try intros) <;>
      simp_all [upd, upd2, lpRetF, opKind, bagStepPc, relab, contPC, getLoop, putNode, takenNode] <;>
      (try (split <;> simp_all [lpRetF, opKind, relab, contPC, getLoop, putNode, takenNode])) <;>
      (try (intro h0; subst h0; simp_all))))

theorem step_eff {s s' : St} {t : Tid} {ev : Ev} (hs : step s t = some (s', ev)) : StepEff s s' t := by
  cases hpc : s.pc t with
  | idle => simp [step, hpc] at hs
  | done r => simp [step, hpc] at hs
  | putAdd n =>
    simp only [step, hpc] at hs
    simp at hs; obtain ⟨rfl, -⟩ := hs
    generalize hq : (if s.refs n = 0 ∧ s.shouldBeOn n = false then PC.addLd n Cont.put else PC.done [1]) = q
    have hq' : q = .addLd n .put ∨ q = .done [1] := by subst hq; split <;> simp
    clear hq
    rcases hq' with rfl | rfl <;> eff_close
  | addLd n k =>
    simp only [step, hpc] at hs
    simp at hs; obtain ⟨rfl, -⟩ := hs
    cases k <;> eff_close
  | addStNext n hd k =>
    simp only [step, hpc] at hs
    simp at hs; obtain ⟨rfl, -⟩ := hs
    cases k <;> eff_close
  | addStRefs n hd k =>
    simp only [step, hpc] at hs
    simp at hs; obtain ⟨rfl, -⟩ := hs
    cases k <;> eff_close
  | addCas n hd k =>
    simp only [step, hpc] at hs
    split at hs
    · simp at hs; obtain ⟨rfl, -⟩ := hs
      rcases k with _ | hd'
      · eff_close
      · rcases hd' with _ | a' <;> eff_close
    · simp at hs; obtain ⟨rfl, -⟩ := hs
      cases k <;> eff_close
  | addFix n hd k =>
    simp only [step, hpc] at hs
    simp at hs; obtain ⟨rfl, -⟩ := hs
    generalize hq : (if s.refs n = 1 ∧ s.shouldBeOn n = false then PC.addStNext n hd k else contPC k) = q
    have hq' : q = .addStNext n hd k ∨ q = contPC k := by subst hq; split <;> simp
    clear hq
    rcases k with _ | hd'
    · rcases hq' with rfl | rfl <;> eff_close
    · rcases hd' with _ | a' <;> rcases hq' with rfl | rfl <;> eff_close
  | getLd =>
    simp only [step, hpc] at hs
    simp at hs; obtain ⟨rfl, -⟩ := hs
    cases hh : s.head <;> eff_close
  | getRefs h =>
    simp only [step, hpc] at hs
    simp at hs; obtain ⟨rfl, -⟩ := hs
    generalize hq : (if s.refs h = 0 then PC.getLd else PC.getInc h (s.refs h) (s.shouldBeOn h)) = q
    have hq' : q = .getLd ∨ q = .getInc h (s.refs h) (s.shouldBeOn h) := by subst hq; split <;> simp
    clear hq
    rcases hq' with rfl | rfl <;> eff_close
  | getInc h c f =>
    simp only [step, hpc] at hs
    split at hs <;> (simp at hs; obtain ⟨rfl, -⟩ := hs; eff_close)
  | getNext h =>
    simp only [step, hpc] at hs
    simp at hs; obtain ⟨rfl, -⟩ := hs
    eff_close
  | getCas h nx =>
    simp only [step, hpc] at hs
    split at hs <;> (simp at hs; obtain ⟨rfl, -⟩ := hs; eff_close)
  | getSub2 h =>
    simp only [step, hpc] at hs
    simp at hs; obtain ⟨rfl, -⟩ := hs
    eff_close
  | getDec h hd =>
    simp only [step, hpc] at hs
    simp at hs; obtain ⟨rfl, -⟩ := hs
    generalize hq : (if s.refs h = 1 ∧ s.shouldBeOn h = true then PC.addLd h (Cont.get hd) else getLoop hd) = q
    have hq' : q = .addLd h (.get hd) ∨ q = getLoop hd := by subst hq; split <;> simp
    clear hq
    rcases hd with _ | a' <;> rcases hq' with rfl | rfl <;> eff_close

theorem invoke_eff {s s' : St} {t : Tid} {op : GOp} (hs : invoke s t op = some s') :
    s.pc t = .idle ∧ (∀ t2, t2 ≠ t → s'.pc t2 = s.pc t2) ∧
    (∀ t2 a, s.owns t2 a = true → s'.owns t2 a = true ∨ putNode (s'.pc t) = some a) ∧
    takenNode (s'.pc t) = none ∧
    ((∃ a n : Int, op = ⟨"put", [a, n]⟩ ∧ 0 < n ∧ s'.pc t = .putAdd n.toNat) ∨
     (∃ a : Int, op = ⟨"get", [a]⟩ ∧ s'.pc t = .getLd)) := by
  obtain ⟨name, args⟩ := op
  unfold invoke at hs
  split at hs
  next x n hpc hname hargs =>
    split at hs
    next hc =>
      simp at hs; subst hs
      simp only at hname hargs
      subst hname hargs
      refine ⟨hpc, fun t2 ht => by simp [upd, ht], ?_, by simp [takenNode], Or.inl ⟨x, n, rfl, hc.1, by simp⟩⟩
      intro t2 a ha
      simp only [upd2, upd_same, putNode]
      by_cases e : t2 = t ∧ a = n.toNat
      · right; rw [e.2]
      · left; simp [e, ha]
    next => simp at hs
  next x hpc hname hargs =>
    simp at hs; subst hs
    simp only at hname hargs
    subst hname hargs
    exact ⟨hpc, fun t2 ht => by simp [upd, ht], fun t2 a ha => Or.inl ha, by simp [takenNode], Or.inr ⟨x, rfl, by simp⟩⟩
  next => simp at hs

theorem result_eff {s s' : St} {t : Tid} {r : GRet} (hs : result s t = some (s', r)) :
    s.pc t = .done r ∧ s'.pc t = .idle ∧ s'.owns = s.owns ∧ (∀ t2, t2 ≠ t → s'.pc t2 = s.pc t2) := by
  unfold result at hs
  split at hs
  next r' hpc =>
    simp at hs; obtain ⟨rfl, rfl⟩ := hs
    exact ⟨hpc, by simp, rfl, fun t2 ht => by simp [upd, ht]⟩
  next => simp at hs

/-! ### Inversion of the machine with history variables -/

section
variable {σ γ : Type} {m : Model σ} {gs : σ → Tid → γ → γ} {f : GRet → GRet}

theorem ghost_step_inv {x x' : σ × (Tid → Option GOp) × γ} {t : Tid} {ev : Ev}
    (h : (ghostModel m gs f).step x t = some (x', ev)) :
    m.step x.1 t = some (x'.1, ev) ∧ x'.2.1 = x.2.1 ∧ x'.2.2 = gs x.1 t x.2.2 := by
  simp only [ghostModel, Option.map_eq_some_iff] at h
  obtain ⟨⟨s1, e⟩, hs1, heq⟩ := h
  simp only [Prod.mk.injEq] at heq
  obtain ⟨rfl, rfl⟩ := heq
  exact ⟨hs1, rfl, rfl⟩

theorem ghost_invoke_inv {x x' : σ × (Tid → Option GOp) × γ} {t : Tid} {op : GOp}
    (h : (ghostModel m gs f).invoke x t op = some x') :
    m.invoke x.1 t op = some x'.1 ∧ x'.2.1 = upd x.2.1 t (some op) ∧ x'.2.2 = x.2.2 := by
  simp only [ghostModel, Option.map_eq_some_iff] at h
  obtain ⟨s1, hs1, rfl⟩ := h
  exact ⟨hs1, rfl, rfl⟩

theorem ghost_result_inv {x x' : σ × (Tid → Option GOp) × γ} {t : Tid} {r : GRet}
    (h : (ghostModel m gs f).result x t = some (x', r)) :
    ∃ r0, m.result x.1 t = some (x'.1, r0) ∧ r = f r0 ∧ x'.2.1 = x.2.1 ∧ x'.2.2 = x.2.2 := by
  simp only [ghostModel, Option.map_eq_some_iff] at h
  obtain ⟨⟨s1, e⟩, hs1, heq⟩ := h
  simp only [Prod.mk.injEq] at heq
  obtain ⟨rfl, rfl⟩ := heq
  exact ⟨e, hs1, rfl, rfl, rfl⟩
end

/-! ### The instance of the ghost-log toolkit -/

abbrev GS := St × (Tid → Option GOp) × List Int

def gmodel : Model GS := ghostModel model (fun s t g => bagStepPc (s.pc t) s.head g) relab

/-- Every node that is not out of the bag is in the ghost bag. -/
def BInv (s : St) (g : List Int) : Prop := ∀ a, ¬ Excl s a → (a : Int) ∈ g

def LInv (x : GS) : Prop := FInv x.1 ∧ (∀ t, OpOk (x.1.pc t) (x.2.1 t)) ∧ BInv x.1 x.2.2

def qsys (own0 : Nat → Tid) : QSys GS where
  spec := bagWR
  model := gmodel
  init := (init own0, fun _ => none, [])
  Inv := LInv
  absQ := fun x => x.2.2
  lpRet := fun x t => lpRetF (x.1.pc t)
  postRet := fun x t => lpRetF (x.1.pc t)
  opOf := fun x t => opOfG (x.1.pc t) (x.2.1 t)
  EmptyAt := fun _ _ => False

theorem opOk_congr {pc pc' : PC} {oo : Option GOp} (h : opKind pc' = opKind pc) (h1 : OpOk pc oo) : OpOk pc' oo := by
  unfold OpOk at *; rw [h]; exact h1

theorem opOk_of_none {pc : PC} {oo : Option GOp} (h : opKind pc = none) : OpOk pc oo := by
  unfold OpOk; rw [h]; trivial

theorem relab_ne0 (r : GRet) : relab r ≠ [0] := by
  unfold relab; split <;> simp_all

theorem lpRetF_ne0 {pc : PC} {r : GRet} (h : lpRetF pc = some r) : r ≠ [0] := by
  cases pc <;> simp [lpRetF] at h
  all_goals first
    | (subst h; first | exact relab_ne0 _ | simp)
    | (rename_i k; cases k <;> simp [lpRetF] at h; subst h; simp)

theorem qsys_ok (own0 : Nat → Tid) : (qsys own0).OK where
  ret0 := bagWR_ret0
  spec_init := rfl
  inv_init := by
    refine ⟨⟨[], _, _, finv_init own0⟩, fun t => by simp [qsys, init, OpOk, opKind], ?_⟩
    intro a ha
    exact absurd (Or.inl ⟨own0 a, by simp [qsys, init]⟩) ha
  abs_init := rfl
  lp_init := by intro t; simp [qsys, init, lpRetF]
  op_init := by intro t; simp [qsys, init, opOfG, opKind]
  post_lp := by intro s t r h; exact h
  post_op := by
    intro s t r h
    simp only [qsys] at h ⊢
    simp only [opOfG, opKind_none_of_lp (by rw [h]; simp)]
  lp_post := by intro s t r h _; exact h
  empty_abs := by intro s t h; exact h.elim
  invoke := by
    intro x t op x' ⟨hf, hop, hb⟩ hs
    obtain ⟨hs1, ho, hg⟩ := ghost_invoke_inv (m := model) (gs := fun s t g => bagStepPc (s.pc t) s.head g) (f := relab) hs
    have hs1 : invoke x.1 t op = some x'.1 := hs1
    have hf' : FInv x'.1 := finv_apply (t := t) (a := .invoke op) (o := .call op) hf (by simp [Model.apply, model, hs1])
    obtain ⟨hidle, hframe, howns, htk, hcase⟩ := invoke_eff hs1
    have hnow : OpOk (x'.1.pc t) (some op) ∧ opOfG (x'.1.pc t) (some op) = some op ∧ lpRetF (x'.1.pc t) = none := by
      rcases hcase with ⟨a, n, rfl, hn, hpc⟩ | ⟨a, rfl, hpc⟩
      · rw [hpc]
        refine ⟨?_, by simp [opOfG, opKind], rfl⟩
        simp only [OpOk, opKind]
        exact ⟨a, by rw [Int.toNat_of_nonneg (by omega)]⟩
      · rw [hpc]
        exact ⟨by simp only [OpOk, opKind]; exact ⟨a, rfl⟩, by simp [opOfG, opKind], rfl⟩
    refine ⟨⟨hf', ?_, ?_⟩, ⟨?_, ?_⟩, ?_, ?_, ?_, ?_⟩
    · intro t2
      rw [ho]
      by_cases ht : t2 = t
      · subst ht; simp only [upd_same]; exact hnow.1
      · rw [upd_other _ _ _ _ ht, hframe t2 ht]; exact hop t2
    · intro a ha
      rw [hg]
      apply hb a
      rintro (⟨t2, h1⟩ | ⟨t2, h1⟩ | ⟨t2, h1⟩)
      · rcases howns t2 a h1 with h2 | h2
        · exact ha (Or.inl ⟨t2, h2⟩)
        · exact ha (Or.inr (Or.inl ⟨t, h2⟩))
      · have ht : t2 ≠ t := by intro e; subst e; rw [hidle] at h1; simp [putNode] at h1
        exact ha (Or.inr (Or.inl ⟨t2, by rw [hframe t2 ht]; exact h1⟩))
      · have ht : t2 ≠ t := by intro e; subst e; rw [hidle] at h1; simp [takenNode] at h1
        exact ha (Or.inr (Or.inr ⟨t2, by rw [hframe t2 ht]; exact h1⟩))
    · intro t2 ht; simp only [qsys]; rw [hframe t2 ht]
    · intro t2 ht; simp only [qsys]; rw [hframe t2 ht, ho, upd_other _ _ _ _ ht]
    · simp [qsys, hidle, lpRetF]
    · simp only [qsys]; rw [ho, upd_same]; exact hnow.2.1
    · simp only [qsys]; exact hnow.2.2
    · simp only [qsys]; exact hg
  step := by
    intro x t x' ev ⟨hf, hop, hb⟩ hs
    obtain ⟨hs1, ho, hg⟩ := ghost_step_inv (m := model) (gs := fun s t g => bagStepPc (s.pc t) s.head g) (f := relab) hs
    have hs1 : step x.1 t = some (x'.1, ev) := hs1
    have hg : x'.2.2 = bagStepPc (x.1.pc t) x.1.head x.2.2 := hg
    have hf' : FInv x'.1 := finv_apply (t := t) (a := .step) (o := .ev ev) hf (by simp [Model.apply, model, hs1])
    have he := step_eff hs1
    refine ⟨⟨hf', ?_, ?_⟩, ⟨?_, ?_⟩, ?_, ?_, ?_, ?_, ?_⟩
    · intro t2
      rw [ho]
      by_cases ht : t2 = t
      · subst ht
        cases hlp : lpRetF (x'.1.pc t2) with
        | none => exact opOk_congr (he.kind hlp) (hop t2)
        | some r => exact opOk_of_none (opKind_none_of_lp (by rw [hlp]; simp))
      · rw [he.frame t2 ht]; exact hop t2
    · -- the ghost bag
      intro a ha
      rw [hg]
      have hne : ∀ t2, t2 ≠ t → (putNode (x.1.pc t2) = some a → False) ∧ (takenNode (x.1.pc t2) = some a → False) := by
        intro t2 ht
        exact ⟨fun h1 => ha (Or.inr (Or.inl ⟨t2, by rw [he.frame t2 ht]; exact h1⟩)),
               fun h1 => ha (Or.inr (Or.inr ⟨t2, by rw [he.frame t2 ht]; exact h1⟩))⟩
      have hown : ∀ t2, x.1.owns t2 a = true → False := fun t2 h1 => ha (Or.inl ⟨t2, he.owns t2 a h1⟩)
      have htk : takenNode (x.1.pc t) = some a → False := by
        intro h1
        have : x.1.pc t = .getSub2 a := by
          cases hpc : x.1.pc t <;> simp [hpc, takenNode] at h1
          subst h1; rfl
        exact ha (Or.inl ⟨t, he.sub2 a this⟩)
      -- the node was in the bag before, unless this is the first step of its `put`
      by_cases hput : x.1.pc t = .putAdd a
      · simp [hput, bagStepPc]
      · have hin : (a : Int) ∈ x.2.2 := by
          apply hb a
          rintro (⟨t2, h1⟩ | ⟨t2, h1⟩ | ⟨t2, h1⟩)
          · exact hown t2 h1
          · by_cases ht : t2 = t
            · subst ht
              apply hput
              cases hpc : x.1.pc t2 <;> simp [hpc, putNode] at h1
              subst h1; rfl
            · exact (hne t2 ht).1 h1
          · by_cases ht : t2 = t
            · subst ht; exact htk h1
            · exact (hne t2 ht).2 h1
        cases hpc : x.1.pc t with
        | putAdd n => simp only [bagStepPc]; exact List.mem_cons_of_mem _ hin
        | getCas h nx =>
          simp only [bagStepPc]
          split
          next hh =>
            have hah : a ≠ h := by
              intro e; subst e
              have h2 := hs1
              simp only [step, hpc] at h2
              rw [if_pos hh] at h2
              simp at h2
              obtain ⟨e1, -⟩ := h2
              exact ha (Or.inr (Or.inr ⟨t, by rw [← e1]; simp [takenNode]⟩))
            exact (List.mem_erase_of_ne (by omega)).2 hin
          next => exact hin
        | _ => simpa only [bagStepPc] using hin
    · intro t2 ht; simp only [qsys]; rw [he.frame t2 ht]
    · intro t2 ht; simp only [qsys]; rw [he.frame t2 ht, ho]
    · simp only [qsys]
      intro h0 r hr
      have hopt := hop t
      rw [hg]
      rcases he.lp h0 r hr with ⟨n, h1, rfl⟩ | ⟨h, nx, h1, hh, rfl, -⟩ | ⟨h1, rfl, h3⟩
      · simp only [OpOk, h1, opKind] at hopt
        obtain ⟨a, ha⟩ := hopt
        refine ⟨_, by simp only [opOfG, h1, opKind]; exact ha, ?_⟩
        simp only [h1, bagStepPc]
        exact wpeff_put a n x.2.2
      · simp only [OpOk, h1, opKind] at hopt
        obtain ⟨a, ha⟩ := hopt
        refine ⟨_, by simp only [opOfG, h1, opKind]; exact ha, ?_⟩
        simp only [h1, bagStepPc, hh, if_true]
        exact wpeff_get a h x.2.2 (hb h (head_not_excl hf hh))
      · simp only [OpOk, h1] at hopt
        obtain ⟨a, ha⟩ := hopt
        refine ⟨_, by simp only [opOfG, h1]; exact ha, ?_⟩
        rw [h3]
        exact wpeff_empty a x.2.2
    · simp only [qsys]; intro hc; rw [hg]; exact he.nolp hc _
    · simp only [qsys]; intro r hr; exact Or.inl (he.keep r hr)
    · simp only [qsys]
      intro hp
      rw [ho]; simp only [opOfG, he.kind hp]
    · simp only [qsys]
      intro _ hr
      exact absurd rfl (lpRetF_ne0 hr)
  result := by
    intro x t x' r ⟨hf, hop, hb⟩ hs
    obtain ⟨r0, hs1, hr, ho, hg⟩ := ghost_result_inv (m := model) (gs := fun s t g => bagStepPc (s.pc t) s.head g) (f := relab) hs
    have hs1 : result x.1 t = some (x'.1, r0) := hs1
    have hf' : FInv x'.1 := finv_apply (t := t) (a := .ret) (o := .ret r0) hf (by simp [Model.apply, model, hs1])
    obtain ⟨hdone, hidle, howns, hframe⟩ := result_eff hs1
    refine ⟨⟨hf', ?_, ?_⟩, ⟨?_, ?_⟩, ?_, ?_, ?_, ?_⟩
    · intro t2
      rw [ho]
      by_cases ht : t2 = t
      · subst ht; rw [hidle]; exact opOk_of_none rfl
      · rw [hframe t2 ht]; exact hop t2
    · intro a ha
      rw [hg]
      apply hb a
      rintro (⟨t2, h1⟩ | ⟨t2, h1⟩ | ⟨t2, h1⟩)
      · exact ha (Or.inl ⟨t2, by rw [howns]; exact h1⟩)
      · have ht : t2 ≠ t := by intro e; subst e; rw [hdone] at h1; simp [putNode] at h1
        exact ha (Or.inr (Or.inl ⟨t2, by rw [hframe t2 ht]; exact h1⟩))
      · have ht : t2 ≠ t := by intro e; subst e; rw [hdone] at h1; simp [takenNode] at h1
        exact ha (Or.inr (Or.inr ⟨t2, by rw [hframe t2 ht]; exact h1⟩))
    · intro t2 ht; simp only [qsys]; rw [hframe t2 ht]
    · intro t2 ht; simp only [qsys]; rw [hframe t2 ht, ho]
    · simp [qsys, hdone, lpRetF, hr]
    · simp [qsys, hidle, lpRetF]
    · simp [qsys, hidle, opOfG, opKind]
    · simp only [qsys]; exact hg

/-- **FreeList is linearizable to the weak bag** (spurious "empty" allowed), on the observations of the run with the
    result `[0]` relabelled `[2]`. -/
theorem freelist_bag_linearizable_partial (own0 : Nat → Tid) (sched : List (Tid × Act)) (s : St) (os : List (Tid × Obs))
    (h : model.run (init own0) sched = some (s, os)) :
    ∃ extra : List (OpRec GOp GRet),
      (∀ e ∈ extra, pendingOf (mapOs relab os) e.tid = some (e.op, e.inv) ∧ e.res = (mapOs relab os).length ∧
          lpRetF (s.pc e.tid) = some e.ret) ∧
      extra.Pairwise (fun a b => a.tid ≠ b.tid) ∧
      Linearizable bagWR (historyOf (mapOs relab os) ++ extra) := by
  obtain ⟨o', g', hr⟩ := ghostModel_run model (fun s t g => bagStepPc (s.pc t) s.head g) relab sched (init own0)
    (fun _ => none) [] s os h
  exact QueueLinP.linearizable (qsys_ok own0) sched (s, o', g') (mapOs relab os) hr

end CdsVerif.Algo.FreeList

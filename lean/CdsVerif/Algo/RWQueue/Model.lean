/-
  Atomic-step model of `cds::container::RWQueue` (cds/container/rwqueue.h): the two-lock queue of Michael & Scott
  ("Simple, fast, and practical non-blocking and blocking concurrent queue algorithms", PODC'96, the blocking one),
  with `cds::sync::spin` (test-and-test-and-set spin lock, cds/sync/spinlock.h) as `lock_type`.

    RWQueue(): m_Head.ptr = m_Tail.ptr = new node (dummy)

    enqueue( data ):
        p = alloc_node( data )                           -- p->m_pNext = null
        {   scoped_lock lock( m_Tail.lock );             -- spin_lock::lock():
                                                         --   while ( !try_lock() )   try_lock: m_spin.exchange( true )   enqLock
                                                         --       while ( m_spin.load() ) backoff();                      enqSpin
            m_Tail.ptr->m_pNext.store( p );                                                                             -- enqLink
            m_Tail.ptr = p;                              -- (plain, private to the lock holder)
        }                                                -- unlock: m_spin.store( false )                                  enqUnlock
        return true;

    dequeue( dest ):
        {   scoped_lock lock( m_Head.lock );                                                                            -- deqLock, deqSpin
            pNode = m_Head.ptr;                          -- (plain)
            pNewHead = pNode->m_pNext.load();                                                                           -- deqRead
            if ( pNewHead == nullptr ) return false;     -- unlock                                                         deqUnlock none
            dest = pNewHead->m_value;                    -- (plain)
            m_Head.ptr = pNewHead;                       -- (plain, private to the lock holder)
        }                                                -- unlock                                                         deqUnlock (some x)
        free_node( pNode );
        return true;

  One `step` = everything the thread does up to and including its next atomic operation: the plain accesses to
  `m_Tail.ptr` / `m_Head.ptr` / `m_value` are executed together with the atomic operation that FOLLOWS them (for
  `m_Tail.ptr = p` and `m_Head.ptr = pNewHead` this is the unlocking store).  This is sound because these fields are
  accessed only by the holder of the respective lock (`Inv.lean`: `mutex_tail`, `mutex_head`).

  Memory model of the model: a node is a natural number; node 0 is the dummy allocated by the constructor; nodes are
  fresh (`cnt`) and never reused.  `free_node` is not modelled (a freed node is referenced by nobody: the only
  pointer to the old dummy was `m_Head.ptr`).  The item counter (`empty_item_counter` by default) and the back-off
  are not modelled.

  Events (the `A` lines of the harness trace, variant `rwqueue_named` of the queue client):
      xchg tlock <old> 1      try_lock of m_Tail.lock       (xchg hlock … likewise for m_Head.lock)
      ld   tlock <v>          load in the inner wait loop
      st   tlock 0            unlock
      st   n<a>  n<p>         m_Tail.ptr->m_pNext.store( p )
      ld   n<a>  <ptr>        m_Head.ptr->m_pNext.load()    (<ptr> = null or n<id>)
-/
import CdsVerif.Base.Machine
namespace CdsVerif.Algo.RWQueue
open CdsVerif.Machine CdsVerif.Spec

inductive PC
  | idle
  | enqLock (n : Nat)                 -- next: m_Tail.lock.try_lock (exchange)
  | enqSpin (n : Nat)                 -- next: load of m_Tail.lock in the wait loop
  | enqLink (n : Nat)                 -- (tail lock held) next: m_Tail.ptr->m_pNext.store( p )
  | enqUnlock (n : Nat)               -- (tail lock held, node linked) next: m_Tail.ptr = p; unlock; return [1]
  | deqLock                           -- next: m_Head.lock.try_lock (exchange)
  | deqSpin                           -- next: load of m_Head.lock in the wait loop
  | deqRead                           -- (head lock held) next: pNewHead = m_Head.ptr->m_pNext.load()
  | deqUnlock (x : Option Nat)        -- (head lock held) next: [ dest = x->m_value; m_Head.ptr = x; ] unlock; return
  | done (r : GRet)
deriving DecidableEq, Repr

structure St where
  head : Nat                     -- m_Head.ptr
  tail : Nat                     -- m_Tail.ptr
  hlock : Bool                   -- m_Head.lock.m_spin
  tlock : Bool                   -- m_Tail.lock.m_spin
  next : Nat → Option Nat        -- m_pNext of every node
  val : Nat → Int                -- m_value of every node
  cnt : Nat                      -- next fresh node
  pc : Tid → PC

def dummy : Nat := 0

def init : St := ⟨dummy, dummy, false, false, fun _ => none, fun _ => 0, 1, fun _ => .idle⟩

/-! ### Event rendering -/

def ptr : Option Nat → String
  | none => "null"
  | some a => s!"n{a}"
def nloc (a : Nat) : String := s!"n{a}"
def b2s (b : Bool) : String := if b then "1" else "0"
def hlockLoc : String := "hlock"
def tlockLoc : String := "tlock"

def evXchg (loc : String) (old : Bool) : Ev := ⟨"xchg", loc, b2s old, "1"⟩
def evLdLock (loc : String) (v : Bool) : Ev := ⟨"ld", loc, b2s v, ""⟩
def evUnlock (loc : String) : Ev := ⟨"st", loc, "0", ""⟩
def evLink (a n : Nat) : Ev := ⟨"st", nloc a, ptr (some n), ""⟩
def evLdNext (a : Nat) (v : Option Nat) : Ev := ⟨"ld", nloc a, ptr v, ""⟩

/-! ### Transitions -/

/-- `enq [v]`: a fresh node carrying `v` is allocated (its `m_pNext` is null).  `deq []`. -/
def invoke (s : St) (t : Tid) (op : GOp) : Option St :=
  match s.pc t, op.name, op.args with
  | .idle, "enq", [v] =>
    some { s with val := upd s.val s.cnt v, cnt := s.cnt + 1, pc := upd s.pc t (.enqLock s.cnt) }
  | .idle, "deq", [] => some { s with pc := upd s.pc t .deqLock }
  | _, _, _ => none

def step (s : St) (t : Tid) : Option (St × Ev) :=
  match s.pc t with
  | .enqLock n =>
    if s.tlock then some ({ s with pc := upd s.pc t (.enqSpin n) }, evXchg tlockLoc true)
    else some ({ s with tlock := true, pc := upd s.pc t (.enqLink n) }, evXchg tlockLoc false)
  | .enqSpin n =>
    if s.tlock then some ({ s with pc := upd s.pc t (.enqSpin n) }, evLdLock tlockLoc true)
    else some ({ s with pc := upd s.pc t (.enqLock n) }, evLdLock tlockLoc false)
  | .enqLink n =>
    some ({ s with next := upd s.next s.tail (some n), pc := upd s.pc t (.enqUnlock n) }, evLink s.tail n)
  | .enqUnlock n =>
    some ({ s with tail := n, tlock := false, pc := upd s.pc t (.done [1]) }, evUnlock tlockLoc)
  | .deqLock =>
    if s.hlock then some ({ s with pc := upd s.pc t .deqSpin }, evXchg hlockLoc true)
    else some ({ s with hlock := true, pc := upd s.pc t .deqRead }, evXchg hlockLoc false)
  | .deqSpin =>
    if s.hlock then some ({ s with pc := upd s.pc t .deqSpin }, evLdLock hlockLoc true)
    else some ({ s with pc := upd s.pc t .deqLock }, evLdLock hlockLoc false)
  | .deqRead =>
    some ({ s with pc := upd s.pc t (.deqUnlock (s.next s.head)) }, evLdNext s.head (s.next s.head))
  | .deqUnlock none =>
    some ({ s with hlock := false, pc := upd s.pc t (.done [0]) }, evUnlock hlockLoc)
  | .deqUnlock (some x) =>
    some ({ s with head := x, hlock := false, pc := upd s.pc t (.done [1, s.val x]) }, evUnlock hlockLoc)
  | _ => none

def result (s : St) (t : Tid) : Option (St × GRet) :=
  match s.pc t with
  | .done r => some ({ s with pc := upd s.pc t .idle }, r)
  | _ => none

def model : Model St := ⟨invoke, step, result⟩

end CdsVerif.Algo.RWQueue

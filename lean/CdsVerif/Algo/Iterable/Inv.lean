/-
  Inductive invariant of the IterableList machine (`Algo/Iterable/Model.lean`), proved for every interleaving.

  `SInv s` has these groups of clauses.
  * order (`OrdP`): the ghost relation `lt` is a strict total order on the linked nodes (`lk`), the head is its
    least and the tail its greatest element, `next a` is the immediate successor of every linked `a ≠ tail`,
    `tail.next = tail`, every linked node was allocated (`< ncnt`); nodes not yet allocated are blank.
    `lt` only grows (`step_lt_mono`): the chain is append-only.
  * marks (`bit`, `own`, `TInv.mcur`, `TInv.mprev`): the mark bit of a data word is set iff the ghost `mo` names the thread that set it; that
    thread is inside `link_data` holding this node as `pos.pCur` or `pos.pPrev`, and while it does the word is
    exactly `pos.pFound|1` resp. `pos.pPrevVal|1`: nobody else can change a marked word.
  * positions (`TInv.wprev` … `TInv.pnext`): the nodes a thread's local variables point to are linked and in chain order; between the
    re-check `pPrev->next == pCur` under both marks and the thread's own CAS on `pPrev->next` the two nodes stay
    adjacent; a node under construction is private (allocated, not linked, referenced by one thread).
  * elements (`ElemP`, `TInv.pused` …, `upend`): an element stored in a node has this node as its `home` (so it is stored in at most one
    node, and never moves: `home` is written once), is not retired; head and tail never hold an element; the
    element of a pending insert/update is owned by exactly one thread, is in no node except that thread's private
    node, and is not retired; disposed ⊆ retired ⊆ used.
  * iterator: `m_pNode` is a linked node; a validated guard (`hv`) holds an element that is not disposed, and
    while the iterator is at rest that element's home is `m_pNode`; outside the window between the hazard store and
    the validating load a non-null guard is validated.
  * keys (`kjob`, `kwalk`, `kpos`, `kctor`, `kupd`): keys of used element ids are immutable, and a thread's
    `insert_position` brackets its key: `key pPrevVal < key < key pFound`, `pFound == null` only for the tail; on the
    new-node path `pPrevVal == null` only for the head; `update` replaces an element of the same key.  (Used for
    `Sorted.lean`: sortedness is preserved by everything except the re-use CAS.)

  Organisation: clauses that do not mention program counters are predicates of the fields they read (`OrdP`,
  `FreshP`, `ElemP`); everything a thread knows at a program counter is the structure `TInv s t pc`, uniform in `pc`
  (every clause is guarded by a projection function of `pc`).

  `CInv` (iteration progress, on top of `SInv`): for every element `e` that has been in the list ever since the
  thread's `iter_begin` (`cand`), the number of times `e` was yielded is 1 if the iterator has passed `e`'s node and
  0 otherwise; the yielded candidates are in chain order.
-/
import CdsVerif.Algo.Iterable.Model
namespace CdsVerif.Algo.Iterable
open CdsVerif.Machine CdsVerif.Spec

/-! ### Projections of the program counter -/

/-- The `insert_position` carried by a `find_prev` walk. -/
def Purp.pos : Purp → Option Pos
  | .fprev _ p => some p
  | _ => none

/-- The element of the insert / update a walk belongs to. -/
def Purp.elem : Purp → Option Nat
  | .ins j => some j.e
  | .fprev j _ => some j.e
  | _ => none

theorem Purp.pos_fprev (j : Job) (p : Pos) : (Purp.fprev j p).pos = some p := rfl
theorem Purp.pos_ins (j : Job) : (Purp.ins j).pos = none := rfl
theorem Purp.pos_find : Purp.find.pos = none := rfl
theorem Purp.pos_contains : Purp.contains.pos = none := rfl
theorem Purp.pos_erase : Purp.erase.pos = none := rfl
theorem Purp.elem_fprev (j : Job) (p : Pos) : (Purp.fprev j p).elem = some j.e := rfl
theorem Purp.elem_ins (j : Job) : (Purp.ins j).elem = some j.e := rfl
theorem Purp.elem_find : Purp.find.elem = none := rfl
theorem Purp.elem_contains : Purp.contains.elem = none := rfl
theorem Purp.elem_erase : Purp.erase.elem = none := rfl

/-- The insert / update a walk belongs to. -/
def Purp.job : Purp → Option Job
  | .ins j => some j
  | .fprev j _ => some j
  | _ => none

theorem Purp.job_fprev (j : Job) (p : Pos) : (Purp.fprev j p).job = some j := rfl
theorem Purp.job_ins (j : Job) : (Purp.ins j).job = some j := rfl
theorem Purp.job_find : Purp.find.job = none := rfl
theorem Purp.job_contains : Purp.contains.job = none := rfl
theorem Purp.job_erase : Purp.erase.job = none := rfl

/-- The insert / update a program counter belongs to. -/
def jobOf : PC → Option Job
  | .wHead j => some j
  | .wNext pu _ _ _ => pu.job
  | .wTail pu _ _ _ _ => pu.job
  | .wLd1 pu _ _ _ _ => pu.job
  | .wLd2 pu _ _ _ _ _ => pu.job
  | .updCas j _ _ => some j
  | .lMarkCur j _ => some j
  | .lMarkPrev j _ => some j
  | .lChkNext j _ => some j
  | .lReuse j _ => some j
  | .lCtor1 j _ => some j
  | .lCtor2 j _ _ => some j
  | .lStNext j _ _ => some j
  | .lCasNext j _ _ => some j
  | .lRelPrev j _ _ => some j
  | .lRelCur j _ _ => some j
  | _ => none

/-- The key a walk searches for, and the value it protected in `pPrev`. -/
def walkKV : PC → Option (Int × Option Nat)
  | .wNext _ k _ pv => some (k, pv)
  | .wTail _ k _ pv _ => some (k, pv)
  | .wLd1 _ k _ pv _ => some (k, pv)
  | .wLd2 _ k _ pv _ _ => some (k, pv)
  | _ => none

/-- The `insert_position` of a thread on the new-node path of `link_data`. -/
def ctorOf : PC → Option Pos
  | .lCtor1 _ p => some p
  | .lCtor2 _ p _ => some p
  | .lStNext _ p _ => some p
  | .lCasNext _ p _ => some p
  | _ => none

/-- The `insert_position` a thread holds (from the end of `inserting_search` to the end of `link_data`). -/
def posOf : PC → Option Pos
  | .wNext pu _ _ _ => pu.pos
  | .wTail pu _ _ _ _ => pu.pos
  | .wLd1 pu _ _ _ _ => pu.pos
  | .wLd2 pu _ _ _ _ _ => pu.pos
  | .lMarkCur _ p => some p
  | .lMarkPrev _ p => some p
  | .lChkNext _ p => some p
  | .lReuse _ p => some p
  | .lCtor1 _ p => some p
  | .lCtor2 _ p _ => some p
  | .lStNext _ p _ => some p
  | .lCasNext _ p _ => some p
  | .lRelPrev _ p _ => some p
  | .lRelCur _ p _ => some p
  | _ => none

/-- The thread holds the mark on `pos.pCur->data`. -/
def lpos : PC → Option Pos
  | .lMarkCur _ _ => none
  | pc => posOf pc

/-- The thread holds the mark on `pos.pPrev->data`. -/
def ppos : PC → Option Pos
  | .lMarkCur _ _ => none
  | .lMarkPrev _ _ => none
  | .lRelCur _ _ _ => none
  | pc => posOf pc

/-- `pPrev->next == pCur` has been re-checked under both marks and the thread has not yet linked its node. -/
def adjOf : PC → Option Pos
  | .wNext pu _ _ _ => pu.pos
  | .wTail pu _ _ _ _ => pu.pos
  | .wLd1 pu _ _ _ _ => pu.pos
  | .wLd2 pu _ _ _ _ _ => pu.pos
  | .lReuse _ p => some p
  | .lCtor1 _ p => some p
  | .lCtor2 _ p _ => some p
  | .lStNext _ p _ => some p
  | .lCasNext _ p _ => some p
  | _ => none

/-- The node under construction. -/
def priv : PC → Option Nat
  | .lCtor2 _ _ n => some n
  | .lStNext _ _ n => some n
  | .lCasNext _ _ n => some n
  | _ => none

/-- The element of a pending insert / update: owned by the thread, not yet in the list. -/
def pend : PC → Option Nat
  | .wHead j => some j.e
  | .wNext pu _ _ _ => pu.elem
  | .wTail pu _ _ _ _ => pu.elem
  | .wLd1 pu _ _ _ _ => pu.elem
  | .wLd2 pu _ _ _ _ _ => pu.elem
  | .updCas j _ _ => some j.e
  | .lMarkCur j _ => some j.e
  | .lMarkPrev j _ => some j.e
  | .lChkNext j _ => some j.e
  | .lReuse j _ => some j.e
  | .lCtor1 j _ => some j.e
  | .lCtor2 j _ _ => some j.e
  | .lStNext j _ _ => some j.e
  | .lCasNext j _ _ => some j.e
  | .lRelPrev j _ ok => if ok then none else some j.e
  | .lRelCur j _ ok => if ok then none else some j.e
  | _ => none

/-- The walk's `pPrev`. -/
def wPrev : PC → Option Nat
  | .wNext _ _ prev _ => some prev
  | .wTail _ _ prev _ _ => some prev
  | .wLd1 _ _ prev _ _ => some prev
  | .wLd2 _ _ prev _ _ _ => some prev
  | _ => none

/-- The walk's `( pPrev, pCur )`. -/
def wCur : PC → Option (Nat × Nat)
  | .wTail _ _ prev _ cur => some (prev, cur)
  | .wLd1 _ _ prev _ cur => some (prev, cur)
  | .wLd2 _ _ prev _ cur _ => some (prev, cur)
  | _ => none

/-- `pCur` is known not to be the tail. -/
def wInner : PC → Option Nat
  | .wLd1 _ _ _ _ cur => some cur
  | .wLd2 _ _ _ _ cur _ => some cur
  | _ => none

/-- The node whose data word `erase` / `update` is about to CAS. -/
def casNode : PC → Option Nat
  | .eraseCas _ cur _ => some cur
  | .updCas _ cur _ => some cur
  | _ => none

/-- Inside the iterator's `protect` loop, between the hazard store and the successful validating load. -/
def unval : PC → Bool
  | .itHp _ => true
  | .itLd2 _ => true
  | _ => false

/-- The iterator is walking (inside `begin()` / `operator++`). -/
def moving : PC → Bool
  | .itLd1 => true
  | .itHp _ => true
  | .itLd2 _ => true
  | .itNext => true
  | .itClr => true
  | _ => false

/-! ### The invariant -/

/-- Chain order (reads `lk`, `lt`, `next`, `ncnt` only). -/
structure OrdP (lk : Nat → Bool) (lt : Nat → Nat → Bool) (next : Nat → Nat) (ncnt : Nat) : Prop where
  hdlk : lk 1 = true
  tllk : lk 2 = true
  nolk : lk 0 = false
  cnt : 3 ≤ ncnt
  lkcnt : ∀ a, lk a = true → a < ncnt
  ltlk : ∀ a b, lt a b = true → lk a = true ∧ lk b = true
  irr : ∀ a, lt a a = false
  tr : ∀ a b c, lt a b = true → lt b c = true → lt a c = true
  tot : ∀ a b, lk a = true → lk b = true → a ≠ b → lt a b = true ∨ lt b a = true
  first : ∀ a, lk a = true → a ≠ 1 → lt 1 a = true
  last : ∀ a, lk a = true → a ≠ 2 → lt a 2 = true
  nx : ∀ a, lk a = true → a ≠ 2 → lt a (next a) = true
  adj : ∀ a b, lk a = true → a ≠ 2 → lt a b = true → lt b (next a) = true → False
  tnx : next 2 = 2

/-- Nodes not yet allocated are blank. -/
structure FreshP (ncnt : Nat) (next : Nat → Nat) (data : Nat → DW) (mo : Nat → Option Tid) : Prop where
  fresh : ∀ a, ncnt ≤ a → next a = 0 ∧ data a = ⟨none, false⟩ ∧ mo a = none

/-- Elements (reads `data`, `home`, `retired`, `used`, `disposed`, `ncnt`). -/
structure ElemP (data : Nat → DW) (home : Nat → Option Nat) (retired : Nat → Option Tid) (used disposed : Nat → Bool)
    (ncnt : Nat) : Prop where
  ehome : ∀ a e, (data a).p = some e → home e = some a
  live : ∀ a e, (data a).p = some e → retired e = none
  hdnil : (data 1).p = none
  tlnil : (data 2).p = none
  hrng : ∀ e a, home e = some a → used e = true ∧ 3 ≤ a ∧ a < ncnt
  rused : ∀ e, retired e ≠ none → used e = true
  dret : ∀ e, disposed e = true → retired e ≠ none

/-- The thread at `pc` holds the mark of node `a`. -/
def holds (pc : PC) (a : Nat) : Prop :=
  (lpos pc).map (·.cur) = some a ∨ (ppos pc).map (·.prev) = some a

/-- What holds for thread `t` at program counter `pc` (uniform in `pc`: every clause is guarded by a projection). -/
structure TInv (s : St) (t : Tid) (pc : PC) : Prop where
  wprev : ∀ a, wPrev pc = some a → s.lk a = true ∧ a ≠ 2
  wcur : ∀ a b, wCur pc = some (a, b) → s.lk b = true ∧ s.lt a b = true
  winner : ∀ b, wInner pc = some b → b ≠ 2
  pos : ∀ p, posOf pc = some p → s.lk p.prev = true ∧ s.lk p.cur = true ∧ s.lt p.prev p.cur = true
  adj : ∀ p, adjOf pc = some p → s.next p.prev = p.cur
  reuse : ∀ j p, pc = .lReuse j p → p.prev ≠ 1 ∧ p.pv = none
  mcur : ∀ p, lpos pc = some p → s.mo p.cur = some t ∧ s.data p.cur = ⟨p.found, true⟩
  mprev : ∀ p, ppos pc = some p → s.mo p.prev = some t ∧ s.data p.prev = ⟨p.pv, true⟩
  cnode : ∀ a, casNode pc = some a → s.lk a = true
  pcnt : ∀ n, priv pc = some n → 3 ≤ n ∧ n < s.ncnt ∧ s.lk n = false ∧ s.mo n = none
  pctor : ∀ j p n, pc = .lCtor2 j p n → (s.data n).p = none
  pdata : ∀ j p n, (pc = .lStNext j p n ∨ pc = .lCasNext j p n) → s.data n = ⟨some j.e, false⟩
  pnext : ∀ j p n, pc = .lCasNext j p n → s.next n = p.cur
  pused : ∀ e, pend pc = some e → s.used e = true ∧ s.retired e = none
  phome : ∀ e a, pend pc = some e → s.home e = some a → priv pc = some a
  nopriv : ∀ n e, priv pc = some n → (s.data n).p = some e → pend pc = some e
  ilk : s.lk (s.itn t) = true
  nt : s.nt ≤ t → s.hp t = none ∧ pc = .idle
  safe : ∀ e, s.hp t = some e → s.hv t = true → s.disposed e = false
  atn : ∀ e, s.hp t = some e → s.hv t = true → moving pc = false → s.home e = some (s.itn t)
  ea : ∀ e, pc = .eaCas e → s.hp t = some e ∧ s.hv t = true
  ld2 : ∀ w, pc = .itLd2 w → s.hp t = w.p
  hvok : ∀ e, s.hp t = some e → unval pc = false → s.hv t = true
  -- keys (immutable once the element id is used): what the walk has established about its position
  kjob : ∀ j, jobOf pc = some j → s.used j.e = true ∧ s.key j.e = j.k
  kwalk : ∀ j k pv, jobOf pc = some j → walkKV pc = some (k, pv) →
    k = j.k ∧ ∀ v, pv = some v → s.used v = true ∧ s.key v < j.k
  kpos : ∀ j p, jobOf pc = some j → posOf pc = some p →
    (∀ v, p.pv = some v → s.used v = true ∧ s.key v < j.k) ∧
    (∀ f, p.found = some f → s.used f = true ∧ j.k < s.key f) ∧ (p.found = none → p.cur = 2)
  kctor : ∀ p, ctorOf pc = some p → p.pv = none → p.prev = 1
  kupd : ∀ j cur e, pc = .updCas j cur e → s.used e = true ∧ s.key e = j.k

structure SInv (s : St) : Prop where
  ord : OrdP s.lk s.lt s.next s.ncnt
  fresh : FreshP s.ncnt s.next s.data s.mo
  elem : ElemP s.data s.home s.retired s.used s.disposed s.ncnt
  bit : ∀ a, (s.data a).m = true ↔ s.mo a ≠ none
  own : ∀ a t, s.mo a = some t → holds (s.pc t) a
  thr : ∀ t, TInv s t (s.pc t)
  upriv : ∀ t t' n, priv (s.pc t) = some n → priv (s.pc t') = some n → t = t'
  upend : ∀ t t' e, pend (s.pc t) = some e → pend (s.pc t') = some e → t = t'

/-! ### Initial state -/

theorem tinv_idle_init (n : Nat) (t : Tid) : TInv (init n) t .idle := by
  constructor <;> simp [init, wPrev, wCur, wInner, posOf, lpos, ppos, adjOf, priv, pend, casNode, unval, jobOf, walkKV, ctorOf]

theorem sinv_init (n : Nat) : SInv (init n) := by
  refine ⟨?_, ?_, ?_, ?_, ?_, ?_, ?_, ?_⟩
  · constructor <;> simp [init] <;> grind
  · constructor; simp [init]; omega
  · constructor <;> simp [init]
  · simp [init]
  · simp [init]
  · intro t; exact tinv_idle_init n t
  · simp [init, priv]
  · simp [init, pend]

end CdsVerif.Algo.Iterable

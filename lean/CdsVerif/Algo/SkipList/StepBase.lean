/-
  Steps that change no tower word (loads, failed CAS, the counters `m_nUnlink` / `m_nHeight`): the common part.
-/
import CdsVerif.Algo.SkipList.Upd
namespace CdsVerif.Algo.SkipList
open CdsVerif.Machine CdsVerif.Spec CdsVerif.Lin
open CdsVerif.Algo.Michael (Chain Lt LPok isRO insAfter Has)

/-- What a step from `pc` to `pc'` that leaves the memory alone has to satisfy. -/
structure EffOk (mk : Nat → Bool) (key val : Nat → Int) (H : Int → Int → Prop) (pc pc' : PC) : Prop where
  lp : lpRet mk key val pc = none → ∀ r, lpRet mk key val pc' = some r → ∃ op, opOf key val pc = some op ∧ LPok H op r H
  keep : ∀ r, lpRet mk key val pc = some r → lpRet mk key val pc' = some r ∨
      ((∃ op, opOf key val pc = some op ∧ isRO op r = true) ∧ lpRet mk key val pc' = none)
  pkeep : ∀ r, postRet val pc = some r → postRet val pc' = some r
  op : postRet val pc' = none → opOf key val pc' = opOf key val pc
  busy : pc ≠ .idle ∧ pc' ≠ .idle

theorem pc_only {c : Cfg} {s : St} {L : List Nat} {t : Tid} {pc' : PC} (unl' : Nat → Nat) (hgt' : Nat) (h : SInvL c s L)
    (htok : TOk c (mem! s) L pc') (hpn : ∀ n, pnode pc' = some n → pnode (s.pc t) = some n)
    (heff : EffOk (mk0 s.mark) s.key s.val (Has (mk0 s.mark) s.key s.val L) (s.pc t) pc') :
    SInvL c ⟨s.next, s.mark, unl', hgt', s.key, s.val, s.ht, s.cnt, upd s.pc t pc'⟩ L ∧
    StepEff s t ⟨s.next, s.mark, unl', hgt', s.key, s.val, s.ht, s.cnt, upd s.pc t pc'⟩ L L := by
  constructor
  · refine h.assemble (t := t) none h.g (MemLe.refl _ _ _) (by simp) ?_ ?_ ?_
    · intro t2 ht; simp [upd, ht]
    · simp only [upd_same]; exact htok
    · simp only [upd_same]; exact hpn
  · refine ⟨fun t2 ht => by simp [upd, ht], rfl, rfl, ?_, fun _ _ _ => Iff.rfl, ?_, ?_, ?_, ?_, Or.inl rfl⟩
    · simp only [upd_same]; exact heff.lp
    · simp only [upd_same]; exact heff.keep
    · simp only [upd_same]; exact heff.pkeep
    · simp only [upd_same]; exact heff.op
    · simp only [upd_same]; exact heff.busy

theorem ListsOk.set {c : Cfg} {m : Mem} {L : List Nat} {pp : List Nat} {ps : List (Option Nat)} {lvl pred : Nat}
    {cur : Option Nat} (h : ListsOk c m L pp ps) (hp : pred = 0 ∨ Lk m L pred) (hc : ∀ x, cur = some x → CurOk m L lvl x) :
    ListsOk c m L (pp.set lvl pred) (ps.set lvl cur) := by
  refine ⟨by simp [h.1], by simp [h.2.1], ?_, ?_⟩
  · intro i
    rcases getD_set_cases pp lvl i pred 0 with e | e <;> rw [e]
    · exact hp
    · exact h.2.2.1 i
  · intro i x hx
    by_cases e : lvl = i
    · subst e
      by_cases hl : lvl < ps.length
      · rw [getD_set_same _ _ _ _ hl] at hx; exact hc x hx
      · have : (ps.set lvl cur).getD lvl none = ps.getD lvl none := by
          simp [List.getD_eq_getElem?_getD, List.getElem?_set, hl]
        rw [this] at hx; exact h.2.2.2 lvl x hx
    · have : (ps.set lvl cur).getD i none = ps.getD i none := by
        simp [List.getD_eq_getElem?_getD, List.getElem?_set, e]
      rw [this] at hx; exact h.2.2.2 i x hx

theorem PredOk.lk {m : Mem} {L : List Nat} {k : Int} {p : Nat} (h : PredOk m L k p) : p = 0 ∨ Lk m L p := by
  rcases h with h | h
  · exact Or.inl h
  · exact Or.inr h.1

theorem tok_retry {c : Cfg} {m : Mem} {L : List Nat} {w : Why} {pp : List Nat} {ps : List (Option Nat)}
    (hw : WOk m L w) (hl : ListsOk c m L pp ps) : TOk c m L (retry c w pp ps) := by
  simp only [retry, TOk]; exact ⟨hw, hl, Or.inl rfl⟩

end CdsVerif.Algo.SkipList

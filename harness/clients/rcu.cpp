// C04 / C05: user-space RCU at the API level.  Shared cells hold objects; readers enter (possibly nested)
// read-side critical sections, load a cell and dereference; writers exchange a cell's object and retire the
// old one, or call synchronize().  Oracles (evaluated on the real execution; threads are serialised):
//   * at every disposer call for object p: no thread may be inside a critical section whose OUTERMOST
//     access_lock() completed before retire_ptr( p ) was invoked (C04);
//   * when synchronize() returns: every critical section that was open when it was invoked has ended (C04);
//   * a pointer read inside a critical section is never disposed while that section lasts (deref check);
//   * every object is disposed at most once, only after it was retired; after destruction of the singleton
//     every retired object has been disposed exactly once (C05).
#include <cds/init.h>
#include <cds/urcu/general_instant.h>
#include <cds/urcu/general_buffered.h>
#include <cds/sync/spinlock.h>
#include <cds/container/vyukov_mpmc_cycle_queue.h>
#include <memory>
#include "../client.h"

using namespace khizmax_libcds_verif;

static const int MAXT = 8, MAXC = 4;

struct Obj { int id; int disposed; uint64_t retired_at; };      // retired_at: clock value when retire_ptr was invoked (0 = not retired)

struct World {
    std::vector<std::unique_ptr<Obj>> objs;
    atomics::atomic<Obj*> cells[MAXC];
    int depth[MAXT];                 // nesting depth of thread's critical section
    uint64_t entered[MAXT];          // clock value when the outermost access_lock returned
    uint64_t section[MAXT];          // id of the current outermost section (0 = none)
    uint64_t next_section = 0;
    Obj* seen[MAXT][MAXC];           // pointers read inside the current section
    bool failed = false;
    std::string failure;
    void fail( std::string const& s ) { if ( !failed ) { failed = true; failure = s; } }
    Obj* make()
    {
        objs.emplace_back( new Obj{ int( objs.size()) + 1, 0, 0 } );
        char nm[16]; std::snprintf( nm, sizeof nm, "o%d", objs.back()->id );
        reg_name( objs.back().get(), sizeof( Obj ), nm );
        return objs.back().get();
    }
};
static World* W = nullptr;

static void dispose_obj( void* v )
{
    Obj* p = static_cast<Obj*>( v );
    if ( ++p->disposed > 1 ) W->fail( "disposed-twice obj=" + std::to_string( p->id ));
    if ( !p->retired_at ) W->fail( "disposed-but-never-retired obj=" + std::to_string( p->id ));
    for ( int t = 0; t < MAXT; ++t ) {
        if ( W->depth[t] > 0 && W->entered[t] < p->retired_at )
            W->fail( "disposed-under-preexisting-reader obj=" + std::to_string( p->id ) + " reader=" + std::to_string( t ));
        for ( int c = 0; c < MAXC; ++c )
            if ( W->depth[t] > 0 && W->seen[t][c] == p )
                W->fail( "disposed-while-referenced-in-section obj=" + std::to_string( p->id ) + " reader=" + std::to_string( t ));
    }
}

struct IRcu {
    virtual ~IRcu() {}
    virtual void lock() = 0;
    virtual void unlock() = 0;
    virtual void retire( Obj* p ) = 0;
    virtual void batch( std::vector<Obj*> const& v ) = 0;
    virtual void sync() = 0;
    virtual void destroy() = 0;
};

template <class RCU>
struct RcuT : IRcu {
    std::unique_ptr<RCU> rcu;
    void lock() override { RCU::access_lock(); }
    void unlock() override { RCU::access_unlock(); }
    void retire( Obj* p ) override { RCU::retire_ptr( p, dispose_obj ); }
    void batch( std::vector<Obj*> const& v ) override
    {
        std::vector<cds::urcu::retired_ptr> rp;
        for ( Obj* p : v ) rp.push_back( cds::urcu::retired_ptr( p, dispose_obj ));
        RCU::batch_retire( rp.begin(), rp.end());
    }
    void sync() override { RCU::synchronize(); }
    void destroy() override { rcu.reset(); }
};

typedef cds::container::VyukovMPMCCycleQueue< cds::urcu::epoch_retired_ptr > rcu_buffer;
typedef cds::urcu::gc< cds::urcu::general_instant< cds::sync::spin > > rcu_gpi;
typedef cds::urcu::gc< cds::urcu::general_buffered< rcu_buffer, cds::sync::spin > > rcu_gpb;

struct Gpi : RcuT<rcu_gpi> { Gpi() { rcu.reset( new rcu_gpi ); } };
struct Gpb : RcuT<rcu_gpb> { explicit Gpb( size_t cap ) { rcu.reset( new rcu_gpb( cap )); } };

struct Fixture {
    static char const* family() { return "rcu"; }
    static std::vector<std::string> variants() { return { "gpi", "gpb" }; }
    std::unique_ptr<World> world;
    std::unique_ptr<IRcu> rcu;
    std::string variant;
    int ncells = 2;
    size_t cap = 0;
    bool failed = false;
    std::string failure;

    explicit Fixture( Case const& c ) : variant( c.variant )
    {
        world.reset( new World );
        W = world.get();
        std::memset( W->depth, 0, sizeof W->depth );
        std::memset( W->entered, 0, sizeof W->entered );
        std::memset( W->section, 0, sizeof W->section );
        std::memset( W->seen, 0, sizeof W->seen );
        ncells = 1 + int( c.index % 3 );
        static size_t const caps[] = { 2, 4, 2, 8, 4 };
        cap = size_t( c.optl( "cap", long( caps[c.index % 5] )));
        if ( variant == "gpi" ) rcu.reset( new Gpi );
        else rcu.reset( new Gpb( cap ));
        for ( int i = 0; i < ncells; ++i ) {
            W->cells[i].store( W->make());
            char nm[16]; std::snprintf( nm, sizeof nm, "cell%d", i );
            reg_name( &W->cells[i], sizeof( W->cells[i] ), nm );
        }
    }
    ~Fixture() { if ( rcu ) rcu->destroy(); W = nullptr; }
    std::string spec() const { return "none"; }

    // programs keep the API's rules: retire / synchronize only outside a critical section; locks are balanced
    std::vector<std::vector<Op>> program( Rng& r, int nthreads, int nops )
    {
        std::vector<std::vector<Op>> p( nthreads );
        for ( int t = 0; t < nthreads; ++t ) {
            int n = 2 + int( r.below( nops * 2 ));
            int depth = 0;
            bool writer = r.chance( 55 );
            for ( int i = 0; i < n; ++i ) {
                unsigned k = unsigned( r.below( 100 ));
                if ( depth > 0 ) {
                    if ( k < 35 ) p[t].push_back( Op( "read", long( r.below( ncells ))));
                    else if ( k < 55 ) p[t].push_back( Op( "deref", long( r.below( ncells ))));
                    else if ( k < 70 && depth < 3 ) { p[t].push_back( Op( "rlock" )); ++depth; }
                    else { p[t].push_back( Op( "runlock" )); --depth; }
                }
                else if ( writer && k < 50 ) p[t].push_back( Op( "swap", long( r.below( ncells ))));
                else if ( writer && k < 58 ) p[t].push_back( Op( "swap2" ));
                else if ( k < 66 ) p[t].push_back( Op( "sync" ));
                else { p[t].push_back( Op( "rlock" )); ++depth; }
            }
            while ( depth-- > 0 ) p[t].push_back( Op( "runlock" ));
        }
        return p;
    }
    void thread_begin( int ) { set_quiet( true ); cds::threading::Manager::attachThread(); set_quiet( false ); }
    void thread_end( int ) { set_quiet( true ); cds::threading::Manager::detachThread(); set_quiet( false ); }

    Obj* unlink( int c )
    {
        Obj* n = W->make();
        Obj* old = W->cells[c].exchange( n );
        return old;
    }
    std::vector<long> exec( int t, Op const& op )
    {
        if ( op.name == "rlock" ) {
            rcu->lock();
            if ( W->depth[t]++ == 0 ) { W->entered[t] = tick(); W->section[t] = ++W->next_section; }
            return {};
        }
        if ( op.name == "runlock" ) {
            if ( --W->depth[t] == 0 ) { W->section[t] = 0; for ( int c = 0; c < MAXC; ++c ) W->seen[t][c] = nullptr; }
            rcu->unlock();
            return {};
        }
        if ( op.name == "read" ) {
            int c = int( op.args[0] );
            Obj* p = W->cells[c].load();
            W->seen[t][c] = p;
            if ( p && p->disposed ) W->fail( "read-returned-disposed obj=" + std::to_string( p->id ));
            return { p ? long( p->id ) : 0L };
        }
        if ( op.name == "deref" ) {
            Obj* p = W->seen[t][int( op.args[0] )];
            if ( p && p->disposed ) W->fail( "deref-of-disposed obj=" + std::to_string( p->id ));
            return { p ? long( p->id ) : 0L };
        }
        if ( op.name == "swap" ) {
            Obj* old = unlink( int( op.args[0] ));
            if ( old ) { old->retired_at = tick(); rcu->retire( old ); }
            return { old ? long( old->id ) : 0L };
        }
        if ( op.name == "swap2" ) {          // batch_retire of two unlinked objects
            std::vector<Obj*> v;
            for ( int c = 0; c < ncells && c < 2; ++c ) { Obj* o = unlink( c ); if ( o ) v.push_back( o ); }
            uint64_t now = tick();
            for ( Obj* o : v ) o->retired_at = now;
            rcu->batch( v );
            return { long( v.size()) };
        }
        if ( op.name == "sync" ) {
            uint64_t open[MAXT];
            for ( int u = 0; u < MAXT; ++u ) open[u] = W->section[u];
            rcu->sync();
            for ( int u = 0; u < MAXT; ++u )
                if ( u != t && open[u] && W->section[u] == open[u] )
                    W->fail( "synchronize-returned-while-preexisting-reader-inside reader=" + std::to_string( u ));
            return {};
        }
        return {};
    }
    void finish( std::ostream& out )
    {
        rcu->destroy();
        rcu.reset();
        size_t retired = 0, disposed = 0;
        for ( auto& o : W->objs ) {
            if ( o->retired_at ) ++retired;
            disposed += size_t( o->disposed );
            if ( o->retired_at && o->disposed != 1 ) W->fail( "retired-object-disposed-" + std::to_string( o->disposed ) + "-times obj=" + std::to_string( o->id ));
            if ( !o->retired_at && o->disposed ) W->fail( "unretired-object-disposed obj=" + std::to_string( o->id ));
        }
        out << "# retired=" << retired << " disposed=" << disposed << " cap=" << cap << '\n';
        failed = W->failed; failure = W->failure;
    }
};

int main( int argc, char** argv )
{
    cds::Initialize();
    int rc = client_main<Fixture>( argc, argv );
    cds::Terminate();
    return rc;
}

/-
  Driver side of tie S (property C18): parse one `SNAP <kind> <tokens…>` line written by
  `harness/clients/snap.cpp` and judge it with the executable predicates of
  `CdsVerif/Base/Snapshot.lean`.

    SNAP list  { <key> <marked> <hasData> }*
    SNAP skip  { L { <key> <marked> }* }*
    SNAP ellen <tree>    <tree> ::= L <key> | N <key> <upd> <tree> <tree>     <key> ::= int | inf1 | inf2
    SNAP avl   <tree>    <tree> ::= E | N <key> <height> <hasValue> <tree> <tree>
    SNAP split { <soKey> <isDummy> <key> <marked> }*

  Answer: `WF <kind> abs=[k1,k2,…]` or `NOTWF <kind> <reason>`; `cdsdriver snapshot` prints in addition
  `NOTE <kind> <text>` lines for facts that are not part of the verdict (`snapNotes`): a logically
  deleted node still linked at the quiescent point, an AVL tree that is ordered but not strictly
  balanced.
-/
import CdsVerif.Base.Snapshot
import CdsVerif.Driver.LinCheck
namespace CdsVerif.Driver
open CdsVerif.Snapshot

def parseBool (w : String) : Option Bool :=
  if w == "0" then some false else if w == "1" then some true else none

/-- a user key: a `long` -/
def parseKey (w : String) : Option Int := do
  let k ← w.toInt?
  if -(2 ^ 63 : Int) ≤ k ∧ k < 2 ^ 63 then some k else none

def parseListSnap : List String → Option ListSnap
  | [] => some []
  | k :: m :: d :: rest => do
    let k ← parseKey k; let m ← parseBool m; let d ← parseBool d
    let t ← parseListSnap rest
    pure ({ key := k, marked := m, hasData := d } :: t)
  | _ => none

def parseLevel : List String → Option (List SNode)
  | [] => some []
  | k :: m :: rest => do
    let k ← parseKey k
    let m ← m.toNat?
    let t ← parseLevel rest
    pure ({ key := k, marked := m != 0 } :: t)
  | _ => none

/-- split the tokens at the `L` markers (the first token must be one) -/
def splitLevels (ws : List String) : Option (List (List String)) :=
  match ws with
  | [] => some []
  | "L" :: rest =>
    let groups := rest.foldr (fun w (acc : List (List String)) =>
      if w == "L" then [] :: acc else
        match acc with
        | g :: gs => (w :: g) :: gs
        | [] => [[w]]) [[]]
    some groups
  | _ => none

def parseSkipSnap (ws : List String) : Option SkipSnap := do
  let gs ← splitLevels ws
  gs.mapM parseLevel

def parseEKey (w : String) : Option Int :=
  if w == "inf1" then some inf1 else if w == "inf2" then some inf2 else parseKey w

/-- preorder parser with fuel (one unit per token is enough) -/
def parseETree : Nat → List String → Option (ETree × List String)
  | 0, _ => none
  | _ + 1, "L" :: k :: rest => do
    let k ← parseEKey k
    pure (.leaf k, rest)
  | fuel + 1, "N" :: k :: u :: rest => do
    let k ← parseEKey k
    let u ← u.toNat?
    let (l, rest) ← parseETree fuel rest
    let (r, rest) ← parseETree fuel rest
    pure (.node k u l r, rest)
  | _, _ => none

def parseATree : Nat → List String → Option (ATree × List String)
  | 0, _ => none
  | _ + 1, "E" :: rest => some (.nil, rest)
  | fuel + 1, "N" :: k :: h :: v :: rest => do
    let k ← parseKey k
    let h ← h.toInt?
    let v ← parseBool v
    let (l, rest) ← parseATree fuel rest
    let (r, rest) ← parseATree fuel rest
    pure (.node k h v l r, rest)
  | _, _ => none

def parseSplitSnap : List String → Option SplitSnap
  | [] => some []
  | so :: d :: k :: m :: rest => do
    let so ← so.toNat?; let d ← parseBool d; let k ← parseKey k; let m ← parseBool m
    let t ← parseSplitSnap rest
    pure ({ so := so, isDummy := d, key := k, marked := m } :: t)
  | _ => none

def showAbs (l : List Int) : String := "abs=[" ++ ",".intercalate (l.map toString) ++ "]"

/-- first failing component, for the reason field -/
def firstFailure (checks : List (String × Bool)) : String :=
  match checks.find? (fun c => !c.2) with
  | some c => c.1
  | none => "unknown"

def snapTokens (kind : String) (ws : List String) : String :=
  match kind with
  | "list" =>
    match parseListSnap ws with
    | none => s!"NOTWF {kind} parse-error"
    | some s =>
      if listWf s then s!"WF {kind} {showAbs (listAbs s)}"
      else s!"NOTWF {kind} live-keys-not-strictly-increasing"
  | "skip" =>
    match parseSkipSnap ws with
    | none => s!"NOTWF {kind} parse-error"
    | some s =>
      if skipWf s then s!"WF {kind} {showAbs (skipAbs s)}"
      else s!"NOTWF {kind} " ++ firstFailure
        [("level0-not-strictly-increasing", sortedLt (levelKeys (s.headD []))),
         ("level-not-sublist-of-level-below", subChain (skipLevels s))]
  | "ellen" =>
    match parseETree (ws.length + 1) ws with
    | some (t, []) =>
      if ellenWf t then s!"WF {kind} {showAbs (ellenAbs t)}"
      else s!"NOTWF {kind} " ++ firstFailure
        [("search-tree-order", t.ordered), ("update-descriptor-not-clean", t.clean), ("sentinel-shape", t.shape)]
    | _ => s!"NOTWF {kind} parse-error"
  | "avl" =>
    match parseATree (ws.length + 1) ws with
    | some (t, []) =>
      if avlWf t then s!"WF {kind} {showAbs (avlAbs t)}"
      else s!"NOTWF {kind} search-tree-order"
    | _ => s!"NOTWF {kind} parse-error"
  | "split" =>
    match parseSplitSnap ws with
    | none => s!"NOTWF {kind} parse-error"
    | some s =>
      if splitWf s then s!"WF {kind} {showAbs (splitAbs s)}"
      else s!"NOTWF {kind} " ++ firstFailure
        [("bucket0-dummy-not-first", match s with | [] => false | d :: _ => d.isDummy && d.so == 0),
         ("dummy-regular-parity", s.all SONode.parityOk),
         ("split-order", chainB soLt s)]
  | _ => s!"NOTWF {kind} unknown-kind"

/-- one `SNAP <kind> <tokens…>` line -/
def snapLine (line : String) : String :=
  match words line with
  | "SNAP" :: kind :: ws => snapTokens kind ws
  | _ => "NOTWF ? not-a-SNAP-line"

/-- facts about a dump that are not part of the WF verdict -/
def snapNotes (line : String) : List String :=
  match words line with
  | "SNAP" :: "list" :: ws =>
    match parseListSnap ws with
    | some s => if s.any (·.marked) then [s!"NOTE list marked-node-linked {(s.filter (·.marked)).length}"] else []
    | none => []
  | "SNAP" :: "skip" :: ws =>
    match parseSkipSnap ws with
    | some s => if s.any (·.any (·.marked)) then ["NOTE skip marked-node-linked"] else []
    | none => []
  | "SNAP" :: "split" :: ws =>
    match parseSplitSnap ws with
    | some s => if s.any (·.marked) then [s!"NOTE split marked-node-linked {(s.filter (·.marked)).length}"] else []
    | none => []
  | "SNAP" :: "avl" :: ws =>
    match parseATree (ws.length + 1) ws with
    | some (t, []) =>
      -- `shape-balance` (AVL balance of the structural heights) is what C18 names; the other notes describe the
      -- relaxed-balance bookkeeping (stale stored height, routing node left with one child)
      (if avlWf t && !t.shapeBalanced then ["NOTE avl shape-balance"] else []) ++
      (if avlWf t && !avlStrict t then
        ["NOTE avl not-strict " ++ firstFailure
          [("stored-height", t.heightsOk), ("balance", t.balanced),
           ("routing-node-with-less-than-two-children", t.routingOk)]]
      else [])
    | _ => []
  | _ => []

-- build-time tests of the parser (the predicates themselves have `decide` examples in Props/C18.lean)
#guard snapLine "SNAP list 1 0 1 0 0 0 2 1 1 3 0 1\n" == "WF list abs=[1,3]"
#guard snapLine "SNAP list 3 0 1 1 0 1" == "NOTWF list live-keys-not-strictly-increasing"
#guard snapLine "SNAP list 3 0" == "NOTWF list parse-error"
#guard snapLine "SNAP skip" == "WF skip abs=[]"
#guard snapLine "SNAP skip L 1 0 2 0 5 0 L 1 0 5 0 L 5 0" == "WF skip abs=[1,2,5]"
#guard snapLine "SNAP skip L 1 0 2 0 5 0 L 1 0 3 0" == "NOTWF skip level-not-sublist-of-level-below"
#guard snapLine "SNAP skip L 1 0 2 0 L L 2 0" == "NOTWF skip level-not-sublist-of-level-below"
#guard snapLine "SNAP ellen N inf2 0 L inf1 L inf2" == "WF ellen abs=[]"
#guard snapLine "SNAP ellen N inf2 0 N inf1 0 N 2 0 L 1 L 2 L inf1 L inf2" == "WF ellen abs=[1,2]"
#guard snapLine "SNAP ellen N inf2 0 N inf1 0 N 2 0 L 2 L 1 L inf1 L inf2" == "NOTWF ellen search-tree-order"
#guard snapLine "SNAP ellen N inf2 0 N inf1 2 N 2 0 L 1 L 2 L inf1 L inf2" == "NOTWF ellen update-descriptor-not-clean"
#guard snapLine "SNAP ellen N inf2 0 N inf1 0 L 1 Z L inf2" == "NOTWF ellen parse-error"
#guard snapLine "SNAP avl E" == "WF avl abs=[]"
#guard snapLine "SNAP avl N 4 2 0 N 1 1 1 E E N 6 1 1 E E" == "WF avl abs=[1,6]"
#guard snapLine "SNAP avl N 4 2 1 N 1 1 1 E E E" == "WF avl abs=[1,4]"
#guard snapLine "SNAP avl N 4 2 1 N 5 1 1 E E E" == "NOTWF avl search-tree-order"
#guard snapLine "SNAP avl N 4 3 1 N 1 1 1 E E E" == "WF avl abs=[1,4]"
#guard snapNotes "SNAP avl N 4 2 1 N 1 1 1 E E E" == []
#guard snapNotes "SNAP avl N 4 3 1 N 1 1 1 E E E" == ["NOTE avl not-strict stored-height"]
#guard snapNotes "SNAP avl N 4 3 1 N 2 2 1 N 1 1 1 E E E E" == ["NOTE avl shape-balance", "NOTE avl not-strict balance"]
#guard snapNotes "SNAP avl N 4 2 0 N 1 1 1 E E E" == ["NOTE avl not-strict routing-node-with-less-than-two-children"]
#guard snapNotes "SNAP list 1 1 1" == ["NOTE list marked-node-linked 1"]
#guard snapNotes "SNAP list 1 0 1" == []
#guard snapLine "SNAP split 0 1 0 0 4611686018427387905 0 4 0 4611686018427387905 0 5 0 9223372036854775808 1 1 0 9223372036854775809 0 3 0"
  == "WF split abs=[4,5,3]"
#guard snapLine "SNAP split 0 1 0 0 4611686018427387905 0 5 0 4611686018427387905 0 4 0" == "NOTWF split split-order"
#guard snapLine "SNAP split 1 0 0 0" == "NOTWF split bucket0-dummy-not-first"
#guard snapLine "SNAP split 0 1 0 0 2 0 1 0" == "NOTWF split dummy-regular-parity"

/-- `cdsdriver snapshot`: judge every `SNAP …` line of the stream; `CASE <id>` lines are echoed so
    that verdicts can be attributed to cases -/
partial def snapLoop (h : IO.FS.Stream) : IO Unit := do
  let line ← h.getLine
  if line.isEmpty then return ()
  if line.startsWith "SNAP " then
    IO.println (snapLine line)
    for n in snapNotes line do IO.println n
  else if line.startsWith "CASE " then IO.println (" ".intercalate ((words line).take 2))
  snapLoop h

end CdsVerif.Driver

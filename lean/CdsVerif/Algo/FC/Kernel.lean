/-
  Atomic-step model of the flat-combining kernel, `cds::algo::flat_combining::kernel` (cds/algo/flat_combining/kernel.h,
  defs.h, wait_strategy.h) with the default `wait_strategy::backoff` and the default lock `cds::sync::spin`.

  One client operation of thread `t` (any member function of an FC container without elimination):

      pRec = acquire_record();           -- acqLd    : if ( pRec->nState.load() != active ) publish( pRec );
      combine( op, pRec, owner ):
          pRec->nRequest.store( op );    -- reqSt
          try_combining:
            if ( m_Mutex.try_lock() )    -- tryLock  (spin lock: exchange( true ))
                 { republish( pRec );    -- lkRepub  : if ( nState.load() != active ) publish( pRec );
                   combining( owner ); } -- cmbCnt … unlock
            else if ( !wait_for_combining( pRec )) { republish; combining; }
      release_record( pRec );            -- relSt    : nRequest.store( req_EmptyRecord )

      publish( pRec ):                   -- pubCnt   : a = m_nCount.load()
                                         -- pubAge   : pRec->nAge.store( a )
                                         -- pubAct   : pRec->nState.store( active )
                                         -- pubLink  : insert pRec after m_pHead (CAS loop)

      combining( owner ):                -- cmbCnt   : nCurAge = m_nCount.fetch_add( 1 ) + 1
          for ( nPass = 0; nPass < nCombinePassCount; ++nPass )
              if ( combining_pass( owner, nCurAge )) ++nUseful; else if ( ++nEmpty > nUseful ) break;
          if (( nCurAge & m_nCompactFactor ) == 0 ) compact_list( nCurAge );
                                         -- unlock   : m_Mutex.unlock()   (lock_guard destructor)
      combining_pass: for every record p of the publication list
                                         -- cpWalk   : p = (next record of the list)
                                         -- cpState  : if ( p->nState.load() == active
                                         -- cpReq    :      && p->nRequest.load() >= req_Operation ) {
                                         -- cpAge    :     p->nAge.store( nCurAge );  owner.fc_apply( p );
                                         -- cpDone   :     p->nRequest.store( req_Response ); bOpDone = true; }
      compact_list: for every record p of the list after the head
                                         -- ccWalk   : p = (next record of the list)
                                         -- ccState  : if ( p->nState.load() == active
                                         -- ccAge    :      && p->nAge.load() + m_nCompactFactor < nCurAge ) {
                                         -- ccUnlink :     unlink p  (CAS on the predecessor's pNext)
                                         -- ccInact  :     p->nState.store( inactive ); }
      wait_for_combining( pRec ):
          while ( pRec->nRequest.load() != req_Response ) {          -- wtReq
              republish( pRec );                                     -- wtState : if ( nState.load() != active ) publish
              back-off;
              if ( m_Mutex.try_lock()) {                             -- wtLock
                  if ( pRec->nRequest.load() == req_Response ) {     -- wtReq2
                      m_Mutex.unlock(); break; }                     -- wtUnlock
                  return false;                                      -- become the combiner (lkRepub)
              }
          }
          return true;

  One `step` = one atomic operation on shared memory (the `fc_apply` of a request, which touches only the container
  protected by the lock, is attached to the preceding store of `nAge` so that "applied" and "response stored"
  are different states).

  SIMPLIFICATIONS (all deliberate):
  * The publication list is a SET: record `r` has a flag `inList r`.  The `pNext` pointers and their CAS loops are
    abstracted into one atomic `link` step (publish) and one atomic `unlink` step (compact_list).  The combiner
    visits the records in index order 0 … N-1 (one `walk` step per index, skipping records that are not linked);
    the real order is the list order, which depends on publication times.  The failing case of the unlink CAS
    (a publisher inserted after the head concurrently: the record is simply not deactivated) is not modelled.
  * One record per thread, record id = thread id, `N` threads (`Cfg.N`, arbitrary); records exist from the start in
    the state of a freshly constructed `publication_record` (nRequest = empty, nState = inactive, not linked), i.e.
    allocation, the thread-local pointer and the allocated-records list are abstracted away.
  * The list head is the record of the thread that constructed the kernel; it is never unlinked.  In the model that
    thread issues no operation, so all modelled records are ordinary ones (can be deactivated).
  * Ages and compaction are modelled faithfully (`count` = m_nCount, `age r` = nAge, `Cfg.cf` = m_nCompactFactor as
    the mask stored by the constructor, `Cfg.P` = nCombinePassCount; `P = 0` is treated as 1), with unbounded
    naturals instead of `unsigned int` (no wrap-around).
  * Threads do not exit: `nState = removed`, `tls_cleanup` and the second loop of `compact_list` (freeing the
    records of exited threads) are NOT modelled.  The "reclaimed records are not accessed afterwards" clause of C23
    is therefore outside this model.
  * `batch_combine` / `fc_process` (elimination) is not modelled here (its pure part is in `FC/Batch.lean`); other wait
    strategies (condition variables) are not modelled.  `invoke_exclusive` is not modelled.
  * Sequentially consistent atomics.

  GHOST state: `execs r` = how many times `fc_apply` ran for the request currently (or last) stored in record `r`;
  it is reset when the owner stores a new request.  `holder` = the thread whose `try_lock` succeeded last.
-/
import CdsVerif.Base.Machine
namespace CdsVerif.Algo.FC.Kernel
open CdsVerif.Machine CdsVerif.Spec

/-- Model parameters: number of threads/records, `m_nCompactFactor` (mask), `m_nCombinePassCount`. -/
structure Cfg where
  N : Nat
  cf : Nat
  P : Nat

/-- `nRequest`: req_EmptyRecord, req_Response, or an operation id (>= req_Operation). -/
inductive RV | empty | resp | op
deriving DecidableEq, Repr

/-- `nState` (without `removed`). -/
inductive RS | inactive | active
deriving DecidableEq, Repr

/-- Who called `publish`. -/
inductive Cont | acq | lock | wait
deriving DecidableEq, Repr

/-- Local variables of `combining`. -/
structure CS where
  age : Nat            -- nCurAge
  pass : Nat           -- nPass
  emp : Nat            -- nEmptyPassCount
  use : Nat            -- nUsefulPassCount
  done : Bool          -- bOpDone of the current pass
deriving DecidableEq, Repr

inductive PC
  | idle
  | acqLd
  | pubCnt (c : Cont)
  | pubAge (c : Cont) (a : Nat)
  | pubAct (c : Cont)
  | pubLink (c : Cont)
  | reqSt
  | tryLock
  | lkRepub
  | cmbCnt
  | cpWalk (c : CS) (k : Nat)
  | cpState (c : CS) (k : Nat)
  | cpReq (c : CS) (k : Nat)
  | cpAge (c : CS) (k : Nat)
  | cpDone (c : CS) (k : Nat)
  | ccWalk (a : Nat) (k : Nat)
  | ccState (a : Nat) (k : Nat)
  | ccAge (a : Nat) (k : Nat)
  | ccUnlink (a : Nat) (k : Nat)
  | ccInact (a : Nat) (k : Nat)
  | unlock
  | wtReq
  | wtState
  | wtLock
  | wtReq2
  | wtUnlock
  | relSt
  | done
deriving DecidableEq, Repr

structure St where
  lock : Bool              -- m_Mutex
  count : Nat              -- m_nCount
  req : Nat → RV           -- nRequest of every record
  state : Nat → RS         -- nState
  inList : Nat → Bool      -- the record is linked in the publication list
  age : Nat → Nat          -- nAge
  execs : Nat → Nat        -- ghost: number of fc_apply calls for the record's current request
  holder : Tid             -- ghost: the thread whose try_lock succeeded last
  pc : Tid → PC

def init : St :=
  ⟨false, 0, fun _ => .empty, fun _ => .inactive, fun _ => false, fun _ => 0, fun _ => 0, 0, fun _ => .idle⟩

/-! ### Event rendering -/

def rvS : RV → String
  | .empty => "0"
  | .resp => "1"
  | .op => "2"
def rsS : RS → String
  | .inactive => "0"
  | .active => "1"
def b2s (b : Bool) : String := if b then "1" else "0"
def evLd (loc v : String) : Ev := ⟨"ld", loc, v, ""⟩
def evSt (loc v : String) : Ev := ⟨"st", loc, v, ""⟩
def evX (loc old new : String) : Ev := ⟨"xchg", loc, old, new⟩
def lReq (r : Nat) : String := s!"r{r}.req"
def lState (r : Nat) : String := s!"r{r}.state"
def lAge (r : Nat) : String := s!"r{r}.age"
def lList (r : Nat) : String := s!"list.r{r}"

/-! ### Transitions -/

/-- Where `publish` returns to. -/
def afterPublish : Cont → PC
  | .acq => .reqSt          -- acquire_record returns; combine stores the request
  | .lock => .cmbCnt        -- republish under the lock; combining starts
  | .wait => .wtLock        -- republish inside the wait loop; back-off; try_lock

/-- End of one `combining_pass` with local state `c`: the rest of the `for` loop of `combining`, then the compaction
    test. -/
def passEnd (cfg : Cfg) (c : CS) : PC :=
  let use' := if c.done then c.use + 1 else c.use
  let emp' := if c.done then c.emp else c.emp + 1
  if (c.done = true ∨ emp' ≤ use') ∧ c.pass + 1 < cfg.P then .cpWalk ⟨c.age, c.pass + 1, emp', use', false⟩ 0
  else if c.age &&& cfg.cf = 0 then .ccWalk c.age 0
  else .unlock

/-- Any operation name is accepted: the kernel does not look at the request. -/
def invoke (cfg : Cfg) (s : St) (t : Tid) (_op : GOp) : Option St :=
  match s.pc t with
  | .idle => if t < cfg.N then some { s with pc := upd s.pc t .acqLd } else none
  | _ => none

def step (cfg : Cfg) (s : St) (t : Tid) : Option (St × Ev) :=
  match s.pc t with
  | .acqLd =>
    some ({ s with pc := upd s.pc t (if s.state t = .active then .reqSt else .pubCnt .acq) },
          evLd (lState t) (rsS (s.state t)))
  | .pubCnt c => some ({ s with pc := upd s.pc t (.pubAge c s.count) }, evLd "count" (toString s.count))
  | .pubAge c a => some ({ s with age := upd s.age t a, pc := upd s.pc t (.pubAct c) }, evSt (lAge t) (toString a))
  | .pubAct c => some ({ s with state := upd s.state t .active, pc := upd s.pc t (.pubLink c) }, evSt (lState t) "1")
  | .pubLink c => some ({ s with inList := upd s.inList t true, pc := upd s.pc t (afterPublish c) }, evSt (lList t) "1")
  | .reqSt =>
    some ({ s with req := upd s.req t .op, execs := upd s.execs t 0, pc := upd s.pc t .tryLock }, evSt (lReq t) "2")
  | .tryLock =>
    some ({ s with lock := true, holder := if s.lock then s.holder else t,
                   pc := upd s.pc t (if s.lock then .wtReq else .lkRepub) }, evX "lock" (b2s s.lock) "1")
  | .lkRepub =>
    some ({ s with pc := upd s.pc t (if s.state t = .active then .cmbCnt else .pubCnt .lock) },
          evLd (lState t) (rsS (s.state t)))
  | .cmbCnt =>
    some ({ s with count := s.count + 1, pc := upd s.pc t (.cpWalk ⟨s.count + 1, 0, 0, 0, false⟩ 0) },
          ⟨"add", "count", toString s.count, "1"⟩)
  | .cpWalk c k =>
    if k < cfg.N then
      some ({ s with pc := upd s.pc t (if s.inList k then .cpState c k else .cpWalk c (k + 1)) },
            evLd (lList k) (b2s (s.inList k)))
    else
      some ({ s with pc := upd s.pc t (passEnd cfg c) }, evLd "list.end" "")
  | .cpState c k =>
    some ({ s with pc := upd s.pc t (if s.state k = .active then .cpReq c k else .cpWalk c (k + 1)) },
          evLd (lState k) (rsS (s.state k)))
  | .cpReq c k =>
    some ({ s with pc := upd s.pc t (if s.req k = .op then .cpAge c k else .cpWalk c (k + 1)) },
          evLd (lReq k) (rvS (s.req k)))
  | .cpAge c k =>
    some ({ s with age := upd s.age k c.age, execs := upd s.execs k (s.execs k + 1), pc := upd s.pc t (.cpDone c k) },
          evSt (lAge k) (toString c.age))
  | .cpDone c k =>
    some ({ s with req := upd s.req k .resp, pc := upd s.pc t (.cpWalk { c with done := true } (k + 1)) },
          evSt (lReq k) "1")
  | .ccWalk a k =>
    if k < cfg.N then
      some ({ s with pc := upd s.pc t (if s.inList k then .ccState a k else .ccWalk a (k + 1)) },
            evLd (lList k) (b2s (s.inList k)))
    else
      some ({ s with pc := upd s.pc t .unlock }, evLd "list.end" "")
  | .ccState a k =>
    some ({ s with pc := upd s.pc t (if s.state k = .active then .ccAge a k else .ccWalk a (k + 1)) },
          evLd (lState k) (rsS (s.state k)))
  | .ccAge a k =>
    some ({ s with pc := upd s.pc t (if s.age k + cfg.cf < a then .ccUnlink a k else .ccWalk a (k + 1)) },
          evLd (lAge k) (toString (s.age k)))
  | .ccUnlink a k =>
    some ({ s with inList := upd s.inList k false, pc := upd s.pc t (.ccInact a k) }, evSt (lList k) "0")
  | .ccInact a k =>
    some ({ s with state := upd s.state k .inactive, pc := upd s.pc t (.ccWalk a (k + 1)) }, evSt (lState k) "0")
  | .unlock => some ({ s with lock := false, pc := upd s.pc t .relSt }, evSt "lock" "0")
  | .wtReq =>
    some ({ s with pc := upd s.pc t (if s.req t = .resp then .relSt else .wtState) }, evLd (lReq t) (rvS (s.req t)))
  | .wtState =>
    some ({ s with pc := upd s.pc t (if s.state t = .active then .wtLock else .pubCnt .wait) },
          evLd (lState t) (rsS (s.state t)))
  | .wtLock =>
    some ({ s with lock := true, holder := if s.lock then s.holder else t,
                   pc := upd s.pc t (if s.lock then .wtReq else .wtReq2) }, evX "lock" (b2s s.lock) "1")
  | .wtReq2 =>
    some ({ s with pc := upd s.pc t (if s.req t = .resp then .wtUnlock else .lkRepub) }, evLd (lReq t) (rvS (s.req t)))
  | .wtUnlock => some ({ s with lock := false, pc := upd s.pc t .relSt }, evSt "lock" "0")
  | .relSt => some ({ s with req := upd s.req t .empty, pc := upd s.pc t .done }, evSt (lReq t) "0")
  | .idle => none
  | .done => none

def result (s : St) (t : Tid) : Option (St × GRet) :=
  match s.pc t with
  | .done => some ({ s with pc := upd s.pc t .idle }, [])
  | _ => none

def model (cfg : Cfg) : Model St := ⟨invoke cfg, step cfg, result⟩

/-! ### Classification of program counters -/

/-- The thread is between a successful `try_lock` and the matching `unlock`: it is THE combiner
    (or is about to give the lock back because its response arrived, `wtReq2` / `wtUnlock`). -/
def holds : PC → Bool
  | .pubCnt .lock => true
  | .pubAge .lock _ => true
  | .pubAct .lock => true
  | .pubLink .lock => true
  | .lkRepub => true
  | .cmbCnt => true
  | .cpWalk _ _ => true
  | .cpState _ _ => true
  | .cpReq _ _ => true
  | .cpAge _ _ => true
  | .cpDone _ _ => true
  | .ccWalk _ _ => true
  | .ccState _ _ => true
  | .ccAge _ _ => true
  | .ccUnlink _ _ => true
  | .ccInact _ _ => true
  | .unlock => true
  | .wtReq2 => true
  | .wtUnlock => true
  | _ => false

/-- The thread's request is stored in its record and `release_record` has not cleared it yet. -/
def hasReq : PC → Bool
  | .idle => false
  | .acqLd => false
  | .pubCnt .acq => false
  | .pubAge .acq _ => false
  | .pubAct .acq => false
  | .pubLink .acq => false
  | .reqSt => false
  | .done => false
  | _ => true

/-- The thread is inside `combining_pass` with local state `c`, looking at record `k`. -/
def cpIdx : PC → Option (CS × Nat)
  | .cpWalk c k => some (c, k)
  | .cpState c k => some (c, k)
  | .cpReq c k => some (c, k)
  | .cpAge c k => some (c, k)
  | .cpDone c k => some (c, k)
  | _ => none

/-- The combining passes are over (compaction or unlock). -/
def postPass : PC → Bool
  | .ccWalk _ _ => true
  | .ccState _ _ => true
  | .ccAge _ _ => true
  | .ccUnlink _ _ => true
  | .ccInact _ _ => true
  | .unlock => true
  | _ => false

/-- The thread is between `fc_apply` of record `k` and the store of req_Response into it. -/
def doneIdx : PC → Option Nat
  | .cpDone _ k => some k
  | _ => none

/-- The thread has unlinked record `k` and is about to store `inactive` into it. -/
def inactIdx : PC → Option Nat
  | .ccInact _ k => some k
  | _ => none

/-- The thread has stored `active` into its record and is about to link it. -/
def isLink : PC → Bool
  | .pubLink _ => true
  | _ => false

end CdsVerif.Algo.FC.Kernel
